(* C05 -- correspondence driver: a case carries the configuration, the initial cache as the implementation built it,
   the op programs of the threads, the schedule the implementation followed and everything it did (messages per
   connection, final cache); check_case re-runs the model and compares. *)
From Coq Require Import ZArith NArith Bool List Arith.
Import ListNotations.
Require Import FV.Base.Util FV.Base.F64 FV.Base.PyVal FV.C01.Model FV.Gen.C05 FV.C05.Model FV.C05.ModelCb FV.C05.ModelReq.

Record case := {
  k_general : Z;                                         (* generalConfig.omit_unchanged_within, ticks *)
  k_params : list (Z * option Z * bool * pcfg);          (* update_unchanged (ticks; -1 default), module setting,
                                                            has user write method, configuration with the interval the
                                                            implementation resolved *)
  k_conns : list scope;                                  (* activation done before the history starts; SNone = none *)
  k_nmods : nat;                                         (* number of modules of the node *)
  k_init : list cell;                                    (* cache after module initialisation *)
  k_now : Z;                                             (* clock when the history starts *)
  k_progs : list (list job);                             (* per thread: driver operations / connection requests *)
  k_sched : list nat;                                    (* thread index per scheduler step (threaded runs) *)
  k_threaded : bool;
  k_msgs : list (list msg);                              (* per connection, snapshot included, oldest first *)
  k_final : list (pyval * option (str * str * str) * Z); (* value, (class, SECoP name, text), timestamp *)
  k_regs : list reg;                                     (* addCallback / registerCallbacks calls, in order *)
  k_cbobs : list (list cbkind);                          (* per parameter: what paramCallbacks holds after them *)
  k_cbs : list (list cbs);                               (* per thread, per job: the scripts of the callbacks *)
  k_marks : list (list nat);                             (* per thread, per job: reply park points that follow the job
                                                            (read / change request through the dispatcher: 1 when the
                                                            wrapper returned and a reply is built, else 0) *)
}.

Definition mk_config (c : case) : config :=
  {| g_tab := err_table; g_params := map snd (k_params c); g_conns := k_conns c; g_nmods := k_nmods c |}.

(* the shapes read off the source *)
Definition src_flags : flags :=
  {| f_locked := announce_in_updateLock; f_reg_first := activate_registers_first;
     f_snap_locked := snapshot_in_updateLock; f_private := broadcast_iterates_private_copy |}.
Definition job_ops (js : list job) : list op := flat_map (fun j => match j with JOp o => [o] | JConn _ _ => [] end) js.
(* the operations of all threads with the scripts of their callbacks *)
Fixpoint zip_progs (ps : list (list job)) (cs : list (list cbs)) : list (op * cbs) :=
  match ps with
  | [] => []
  | js :: r => zip_cbs js (hd [] cs) ++ zip_progs r (tl cs)
  end.

Definition payload_eqb (a b : payload) : bool :=
  match a, b with
  | PVal x, PVal y => pv_same x y
  | PErr n t, PErr n' t' => str_eqb n n' && str_eqb t t'
  | _, _ => false
  end.
Definition msg_eqb (a b : msg) : bool :=
  Nat.eqb (m_p a) (m_p b) && payload_eqb (m_pay a) (m_pay b) && Z.eqb (m_ts a) (m_ts b).

Definition str3_eqb (a b : str * str * str) : bool :=
  match a, b with (x, y, z), (x', y', z') => str_eqb x x' && str_eqb y y' && str_eqb z z' end.

Definition final_of (G : config) (h : heap) (c : cell) : pyval * option (str * str * str) * Z :=
  (c_val c,
   match c_err c with
   | Some e => Some (e_cls e, e_name (g_tab G) (e_cls e), fmt_text (g_tab G) e (heap_get h (e_oid e)))
   | None => None
   end,
   c_ts c).
Definition final_eqb (a b : pyval * option (str * str * str) * Z) : bool :=
  match a, b with (v, e, t), (v', e', t') => pv_same v v' && opt_eqb str3_eqb e e' && Z.eqb t t' end.

Definition state0 (c : case) : state :=
  activate_all (mk_config c) {| s_cells := k_init c; s_heap := []; s_now := k_now c; s_log := [] |}.

(* the model's run: final state and whether the schedule was executable and complete *)
Definition model_run (c : case) : state * bool :=
  let G := mk_config c in
  if k_threaded c then
    let r := rrun G src_flags (rinit (state0 c) (subs0 G) (k_progs c) (k_marks c)) (k_sched c) in
    (cs_st (r_cs r), cs_ok (r_cs r) && quiescent (r_cs r) && r_idle r
                     && list_eqb Nat.eqb (map (@length nat) (k_marks c)) (map (@length job) (k_progs c)))
  else (run_cb G callback_except_class (state0 c) (zip_progs (k_progs c) (k_cbs c)), true).

(* the registrations the model derives are the ones the implementation holds; every script has the shape they
   dictate; threaded cases carry only callbacks that return or raise (no effect in the model: step_cb_flat) *)
Definition cbs_ok (c : case) : bool :=
  let G := mk_config c in
  let R := callbacks_of G (k_regs c) in
  list_eqb (list_eqb cbkind_eqb) (map R (seq 0 (length (g_params G)))) (k_cbobs c)
  && forallb (fun oc => cbs_wf R (R (o_p (fst oc))) (snd oc) && (negb (k_threaded c) || cbs_flat (snd oc)))
       (zip_progs (k_progs c) (k_cbs c)).

Fixpoint conns_ok (s : state) (k : nat) (ms : list (list msg)) : bool :=
  match ms with
  | [] => true
  | l :: r => list_eqb msg_eqb (msgs_of k s) l && conns_ok s (S k) r
  end.

Definition omit_ok (c : case) : bool :=
  let '(always, never, default) := update_unchanged_codes in
  Z.eqb default (-1) &&
  forallb (fun q => match q with (uu, mo, _, P) => Z.eqb (resolve_omit uu mo (k_general c)) (p_omit P) end) (k_params c).

(* the snapshot of the model walks the parameters by index: faithful when parameters are listed module by module *)
Fixpoint mods_sorted (ps : list pcfg) : bool :=
  match ps with
  | P :: ((Q :: _) as r) => Nat.leb (p_mod P) (p_mod Q) && mods_sorted r
  | _ => true
  end.

Definition check_case (c : case) : bool :=
  let G := mk_config c in
  let '(s, ok) := model_run c in
  ok && omit_ok c && cbs_ok c && mods_sorted (g_params G) && forallb (fun P => Nat.ltb (p_mod P) (g_nmods G)) (g_params G)
  && Nat.eqb (length (k_msgs c)) (length (k_conns c))
  && conns_ok s 0 (k_msgs c)
  && list_eqb final_eqb (map (final_of G (s_heap s)) (s_cells s)) (k_final c).

(* for diagnosis in replay files *)
Definition model_result (c : case) :=
  let '(s, ok) := model_run c in
  (ok, omit_ok c, map (fun k => msgs_of k s) (seq 0 (length (k_conns c))),
   map (final_of (mk_config c) (s_heap s)) (s_cells s)).
