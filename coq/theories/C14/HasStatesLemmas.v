(* C14 — invariants of the HasStates layer: busy while running, final/stopped status when inactive,
   and the projection onto the core state machine. *)
From Coq Require Import List Arith ZArith Bool Lia.
Import ListNotations.
Require Import FV.Base.Util FV.C14.Model FV.C14.Lemmas FV.C14.HasStates.

Section Proofs.
Variable C : codes.
Variable scode : sid -> option Z.
Variable reset_idle : bool.
Variable W : world.
Hypothesis Q : quiet W.

Notation h_new_state := (h_new_state C scode).
Notation h_do_cleanup := (h_do_cleanup C).
Notation h_after_cleanup := (h_after_cleanup C scode).
Notation h_turn := (h_turn C scode).
Notation h_inner := (h_inner C scode).
Notation h_pickup := (h_pickup C scode reset_idle).
Notation h_round := (h_round C scode reset_idle).
Notation h_outer := (h_outer C scode reset_idle).
Notation hstep := (hstep C scode reset_idle).
Notation hrun := (hrun C scode reset_idle).
Notation transition := (transition C scode).
Notation get_status := (get_status C scode).

(* ------------------------------------------------------------------ projection onto the core machine *)
Definition hdstate (d : hdecision) : hs := match d with HRet h _ => h | HGo h => h end.
Definition proj (d : hdecision) : decision :=
  match d with HRet h r => DRet (core h) r | HGo h => DGo (core h) end.

Lemma core_h_do_cleanup h r :
  core (fst (h_do_cleanup W h r)) = fst (do_cleanup W (core h) r) /\ snd (h_do_cleanup W h r) = snd (do_cleanup W (core h) r).
Proof. unfold HasStates.h_do_cleanup. destruct (do_cleanup W (core h) r) as [c' ret]. cbn. auto. Qed.

Lemma proj_h_after_cleanup h r :
  proj (h_after_cleanup W (h_do_cleanup W h r)) = after_cleanup W (do_cleanup W (core h) r).
Proof.
  destruct (core_h_do_cleanup h r) as [A B]. unfold HasStates.h_after_cleanup, after_cleanup.
  rewrite B. destruct (snd (do_cleanup W (core h) r)); cbn; rewrite A; reflexivity.
Qed.

Lemma proj_h_turn h : proj (h_turn W h) = turn W (core h).
Proof.
  unfold HasStates.h_turn, turn. cbn [core with_core].
  destruct (next_task (hook W (core h))) as [t|]; [destruct (cleanup_reason (hook W (core h)))|].
  - destruct (statefunc (hook W (core h))); [|reflexivity].
    destruct (w_s W (ctr (hook W (core h)))); cbn [proj core with_core]; try reflexivity;
      apply proj_h_after_cleanup.
  - apply (proj_h_after_cleanup (with_core h (hook W (core h)))).
  - destruct (statefunc (hook W (core h))); [|reflexivity].
    destruct (w_s W (ctr (hook W (core h)))); cbn [proj core with_core]; try reflexivity;
      apply proj_h_after_cleanup.
Qed.

Lemma core_h_inner k : forall h,
  core (fst (h_inner W k h)) = fst (inner W k (core h)) /\ snd (h_inner W k h) = snd (inner W k (core h)).
Proof.
  induction k as [|k IH]; intros h; cbn [HasStates.h_inner inner]; [auto|].
  pose proof (proj_h_turn h) as P. destruct (h_turn W h) as [h' r|h']; cbn [proj] in P; rewrite <- P; [auto|apply IH].
Qed.

Lemma core_h_pickup h : core (h_pickup W h) = pickup W (core h).
Proof.
  unfold HasStates.h_pickup. destruct (next_task (core h)) as [[i f cl kw|i]|] eqn:E; cbn [core with_core]; try reflexivity.
  unfold pickup. rewrite E. reflexivity.
Qed.

Lemma core_h_round m h :
  core (fst (h_round W m h)) = fst (round W m (core h)) /\ snd (h_round W m h) = snd (round W m (core h)).
Proof.
  unfold HasStates.h_round, round. destruct (statefunc (core h)).
  - destruct (core_h_inner m h) as [A B]. destruct (h_inner W m h) as [h1 r], (inner W m (core h)) as [s1 r'].
    cbn [fst snd] in *. subst r'. destruct r; cbn [fst snd].
    + auto.
    + rewrite core_h_pickup. cbn [core HasStates.h_new_state]. rewrite A. auto.
    + destruct (core_h_do_cleanup h1 RExc) as [D1 D2]. rewrite A in D1, D2.
      destruct (h_do_cleanup W h1 RExc) as [h2 ret], (do_cleanup W s1 RExc) as [s2 ret']. cbn [fst snd] in *. subst ret'.
      destruct ret; cbn [fst snd]; [|rewrite core_h_pickup]; cbn [core HasStates.h_new_state]; rewrite D1; auto.
  - cbn [fst snd]. rewrite core_h_pickup. auto.
Qed.

Lemma core_h_outer m k : forall h, core (h_outer W m k h) = outer W m k (core h).
Proof.
  induction k as [|k IH]; intros h; cbn [HasStates.h_outer outer]; [reflexivity|].
  destruct (core_h_round m h) as [A B]. destruct (h_round W m h) as [h' go], (round W m (core h)) as [s' go'].
  cbn [fst snd] in *. rewrite <- B, <- A. destruct go; [apply IH|reflexivity].
Qed.

(* the core component of the layer is exactly the state machine of Model.v: every theorem about it applies *)
Theorem core_hstep m r h o :
  core (hstep W m r h o) =
  match o with
  | HStart tid f kw => post (core h) (TStart tid f (Some 0) kw)
  | HStop tid => if is_active (core h) then post (core h) (TStop tid) else core h
  | HCycle => cycle W m r (core h)
  end.
Proof.
  destruct o; cbn [HasStates.hstep core].
  - reflexivity.
  - destruct (is_active (core h)); reflexivity.
  - apply core_h_outer.
Qed.

(* ------------------------------------------------------------------ busy from the start request until finished *)
Definition busyb (c : Z) : bool := (c_busy C <=? c)%Z && (c <? c_error C)%Z.
Hypothesis Hsc : forall f c, scode f = Some c -> busyb c = true.
Hypothesis Hbusy : busyb (c_busy C) = true.

Definition pending_start (s : sm) : bool := match next_task s with Some (TStart _ _ _ _) => true | _ => false end.
Definition J (h : hs) : Prop :=
  (is_active (core h) = true \/ pending_start (core h) = true) -> busyb (fst (st h)) = true.

Lemma transition_some_busy s i p g : busyb (fst s) = true -> busyb (fst (transition s i p (Some g))) = true.
Proof.
  intros Hs. unfold HasStates.transition, HasStates.get_status.
  destruct (scode g) as [c|] eqn:E.
  - pose proof (Hsc g c E) as Hc.
    destruct p as [[i0 f cl kw|i0]|]; cbn; try exact Hc.
    destruct (text_eqb (snd s) (TName g)); cbn; exact Hs.
  - destruct p as [[i0 f cl kw|i0]|]; cbn; exact Hs.
Qed.

Lemma transition_none_start s i tid f cl kw : busyb (fst (transition s i (Some (TStart tid f cl kw)) None)) = true.
Proof.
  unfold HasStates.transition, HasStates.get_status. destruct (scode f) as [c|] eqn:E; cbn; [apply (Hsc f c E)|exact Hbusy].
Qed.

Lemma h_new_state_J h f : J h -> (f <> None -> statefunc (core h) <> None) -> J (h_new_state W h f).
Proof.
  intros HJ Hact. unfold J. cbn [core st HasStates.h_new_state]. unfold is_active, pending_start.
  rewrite new_state_statefunc, new_state_next_task by exact Q.
  destruct f as [g|].
  - intros _. apply transition_some_busy. apply HJ. left. unfold is_active.
    destruct (statefunc (core h)); [reflexivity|exfalso; apply Hact; [discriminate|reflexivity]].
  - intros [X|X]; [discriminate|].
    destruct (next_task (core h)) as [[tid f cl kw|tid]|]; try discriminate. apply transition_none_start.
Qed.

Lemma h_do_cleanup_J h r : J h -> J (fst (h_do_cleanup W h r)) /\ statefunc (core (fst (h_do_cleanup W h r))) = statefunc (core h).
Proof.
  intros HJ. destruct (core_h_do_cleanup h r) as [A _].
  pose proof (do_cleanup_spec W (core h) r) as S. pose proof (do_cleanup_next_task W (core h) r Q) as N.
  unfold HasStates.h_do_cleanup in *. destruct (do_cleanup W (core h) r) as [c' ret]. cbn [fst snd core st] in *.
  destruct S as (Hs & _). split; [|exact Hs].
  unfold J, is_active, pending_start in *. cbn [core st]. rewrite Hs, N. exact HJ.
Qed.

Definition JPost (d : hdecision) : Prop := J (hdstate d) /\ statefunc (core (hdstate d)) <> None.

Lemma h_after_cleanup_JPost h r : J h -> statefunc (core h) <> None -> JPost (h_after_cleanup W (h_do_cleanup W h r)).
Proof.
  intros HJ Hs. destruct (h_do_cleanup_J h r HJ) as [D1 D2]. unfold HasStates.h_after_cleanup, JPost.
  destruct (h_do_cleanup W h r) as [h' [f|]]; cbn [fst snd hdstate] in *.
  - split; [apply h_new_state_J; [exact D1|intros _; congruence]|cbn; discriminate].
  - split; [exact D1|congruence].
Qed.

Lemma J_ext h h' : J h -> statefunc (core h') = statefunc (core h) -> next_task (core h') = next_task (core h) ->
  st h' = st h -> J h'.
Proof. unfold J, is_active, pending_start. intros HJ -> -> ->. exact HJ. Qed.

Lemma with_core_J h c : J h -> statefunc c = statefunc (core h) -> next_task c = next_task (core h) -> J (with_core h c).
Proof. unfold J, is_active, pending_start. cbn. intros HJ -> ->. exact HJ. Qed.

Lemma h_turn_J h : J h -> statefunc (core h) <> None -> JPost (h_turn W h).
Proof.
  intros HJ Hs. unfold HasStates.h_turn.
  assert (HJ0 : J (with_core h (hook W (core h)))).
  { apply with_core_J; [exact HJ|apply hook_statefunc|apply hook_next_task; exact Q]. }
  assert (Hs0 : statefunc (core (with_core h (hook W (core h)))) <> None) by (cbn; rewrite hook_statefunc; exact Hs).
  set (h0 := with_core h (hook W (core h))) in *.
  assert (Hcall : JPost (match statefunc (core h0) with
      | None => HRet h0 IBreak
      | Some f =>
          let n := ctr (core h0) in
          let c1 := hook W (emit (core h0) (EvCall f (init (core h0)))) in
          match w_s W n with
          | BRetry => HRet (with_core h0 (set_init c1 false)) IReturn
          | BFinish => HRet (with_core h0 (set_init c1 false)) IBreak
          | BFinal c =>
              HRet {| core := set_init (emit c1 (EvFinal c)) false; st := st h0; idle := Some (c, TFinal c); log := log h0 |} IBreak
          | BNext g => HGo (h_new_state W (with_core h0 (set_init c1 false)) (Some g))
          | BNonCallable => h_after_cleanup W (h_do_cleanup W (with_core h0 (set_init c1 false)) RExc)
          | BRaise => h_after_cleanup W (h_do_cleanup W (with_core h0 c1) RExc)
          end
      end)).
  { destruct (statefunc (core h0)) as [f|] eqn:Hsf; [|congruence]. cbn zeta.
    set (c1 := hook W (emit (core h0) (EvCall f (init (core h0))))).
    assert (E1 : statefunc c1 = statefunc (core h0) /\ next_task c1 = next_task (core h0)).
    { subst c1. rewrite hook_statefunc, hook_next_task by exact Q. cbn. auto. }
    destruct E1 as [E1 E2].
    assert (J1 : J (with_core h0 (set_init c1 false))) by (apply with_core_J; [exact HJ0|exact E1|exact E2]).
    assert (J2 : J (with_core h0 c1)) by (apply with_core_J; [exact HJ0|exact E1|exact E2]).
    assert (N1 : statefunc (core (with_core h0 (set_init c1 false))) <> None) by (cbn; congruence).
    assert (N2 : statefunc (core (with_core h0 c1)) <> None) by (cbn; congruence).
    destruct (w_s W (ctr (core h0))).
    - split; cbn [hdstate]; [apply h_new_state_J; [exact J1|intros _; exact N1]|cbn; discriminate].
    - split; [exact J1|exact N1].
    - split; [exact J1|exact N1].
    - apply h_after_cleanup_JPost; assumption.
    - apply h_after_cleanup_JPost; assumption.
    - split; cbn [hdstate]; [|cbn; congruence].
      apply (J_ext h0); [exact HJ0|cbn; exact E1|cbn; exact E2|reflexivity]. }
  destruct (next_task (core h0)) as [t|]; [destruct (cleanup_reason (core h0))|]; try exact Hcall.
  apply h_after_cleanup_JPost; assumption.
Qed.

Lemma h_inner_J k : forall h, J h -> statefunc (core h) <> None ->
  J (fst (h_inner W k h)) /\ statefunc (core (fst (h_inner W k h))) <> None.
Proof.
  induction k as [|k IH]; intros h HJ Hs; cbn [HasStates.h_inner]; [split; assumption|].
  destruct (h_turn_J h HJ Hs) as [T1 T2]. destruct (h_turn W h) as [h' r|h']; cbn [hdstate fst] in *; [split; assumption|].
  apply IH; assumption.
Qed.

Lemma h_pickup_J h : J h -> statefunc (core h) = None -> J (h_pickup W h).
Proof.
  intros HJ Hidle. unfold HasStates.h_pickup.
  destruct (next_task (core h)) as [[i f cl kw|i]|] eqn:E; [| |exact HJ].
  - unfold J. cbn [core st]. intros _. apply transition_some_busy. apply HJ. right. unfold pending_start. rewrite E. reflexivity.
  - unfold J, is_active, pending_start. cbn [core st with_core]. unfold pickup. rewrite E. cbn. rewrite Hidle.
    intros [X|X]; discriminate.
Qed.

Lemma h_round_J m h : J h -> J (fst (h_round W m h)).
Proof.
  intros HJ. unfold HasStates.h_round. destruct (statefunc (core h)) eqn:Hs.
  - assert (Hne : statefunc (core h) <> None) by congruence.
    destruct (h_inner_J m h HJ Hne) as [I1 I2]. destruct (h_inner W m h) as [h1 r]. cbn [fst] in *.
    destruct r; cbn [fst].
    + exact I1.
    + apply h_pickup_J; [apply h_new_state_J; [exact I1|congruence]|reflexivity].
    + destruct (h_do_cleanup_J h1 RExc I1) as [D1 D2].
      destruct (h_do_cleanup W h1 RExc) as [h2 [f|]]; cbn [fst] in *.
      * apply h_new_state_J; [exact D1|intros _; congruence].
      * apply h_pickup_J; [apply h_new_state_J; [exact D1|congruence]|reflexivity].
  - cbn [fst]. apply h_pickup_J; assumption.
Qed.

Lemma h_outer_J m k : forall h, J h -> J (h_outer W m k h).
Proof.
  induction k as [|k IH]; intros h HJ; cbn [HasStates.h_outer]; [exact HJ|].
  pose proof (h_round_J m h HJ) as R. destruct (h_round W m h) as [h' go]. cbn [fst] in R. destruct go; auto.
Qed.

Lemma hstep_J m r h o : J h -> J (hstep W m r h o).
Proof.
  intros HJ. destruct o; cbn [HasStates.hstep].
  - unfold J. cbn [core st]. intros _.
    assert (B : busyb (fst (match get_status (idle h) (Some f) (Some (c_busy C)) with Some s => s | None => st h end)) = true).
    { unfold HasStates.get_status. destruct (scode f) as [c|] eqn:E; cbn; [apply (Hsc f c E)|exact Hbusy]. }
    destruct (is_active (core h)); exact B.
  - destruct (is_active (core h)) eqn:A; [|exact HJ].
    unfold J in HJ |- *. cbn [core st fst]. intros _. unfold HasStates.get_status, is_active in *.
    destruct (statefunc (core h)) as [g|]; [|discriminate].
    destruct (scode g) as [c|] eqn:E; cbn; [apply (Hsc g c E)|].
    apply HJ. left. reflexivity.
  - pose proof (h_outer_J m r h HJ) as H. unfold J in *. cbn [core st]. exact H.
Qed.

Theorem busy_while_running m r ops : J (hrun W m r ops).
Proof.
  unfold HasStates.hrun.
  assert (H0 : J (hs0 C)) by (unfold J, is_active, pending_start; cbn; intros [X|X]; discriminate).
  revert H0. generalize (hs0 C). induction ops as [|o ops IH]; intros h H; cbn [fold_left]; [exact H|].
  apply IH. apply hstep_J. exact H.
Qed.

(* ------------------------------------------------------------------ final / stopped status when inactive *)
Definition idle_or_default (i : option status) : status := match i with Some s => s | None => (c_error C, TNoFinal) end.
Definition K (h : hs) : Prop :=
  is_active (core h) = false -> pending_start (core h) = false -> st h = idle_or_default (idle h).

Lemma h_new_state_K h f : K (h_new_state W h f).
Proof.
  unfold K, is_active, pending_start. cbn [core st idle HasStates.h_new_state].
  rewrite new_state_statefunc, new_state_next_task by exact Q.
  destruct f as [g|]; [discriminate|]. intros _ Hp.
  unfold HasStates.transition, HasStates.get_status, idle_or_default.
  destruct (next_task (core h)) as [[tid f cl kw|tid]|]; [discriminate| |]; destruct (idle h); reflexivity.
Qed.

Lemma active_K h : statefunc (core h) <> None -> K h.
Proof. unfold K, is_active. destruct (statefunc (core h)); [discriminate|congruence]. Qed.

Lemma h_turn_K h : statefunc (core h) <> None -> K (hdstate (h_turn W h)).
Proof.
  intros Hs. assert (P := h_turn_J). pose proof (proj_h_turn h) as Pr.
  (* the state after a turn is active unless it went through h_new_state None, which never happens inside a turn:
     every result of a turn has statefunc <> None *)
  assert (Hact : statefunc (core (hdstate (h_turn W h))) <> None).
  { pose proof (turn_CInv) as _.
    assert (X : statefunc (dstate (turn W (core h))) <> None).
    { unfold turn. set (s0 := hook W (core h)).
      assert (Hs0 : statefunc s0 <> None) by (subst s0; rewrite hook_statefunc; exact Hs).
      assert (AC : forall s r, statefunc s <> None -> statefunc (dstate (after_cleanup W (do_cleanup W s r))) <> None).
      { intros s r Hn. pose proof (do_cleanup_spec W s r) as S. unfold after_cleanup.
        destruct (do_cleanup W s r) as [s' [f|]]; cbn [fst snd dstate]; [rewrite new_state_statefunc; discriminate|].
        destruct S as (E & _). congruence. }
      destruct (next_task s0) as [t|]; [destruct (cleanup_reason s0)|].
      - destruct (statefunc s0) as [f|] eqn:E; [|congruence].
        assert (E1 : statefunc (hook W (emit s0 (EvCall f (init s0)))) = Some f) by (rewrite hook_statefunc; exact E).
        destruct (w_s W (ctr s0)); cbn [dstate]; try (cbn; congruence); try (apply AC; cbn; congruence).
      - apply AC. exact Hs0.
      - destruct (statefunc s0) as [f|] eqn:E; [|congruence].
        assert (E1 : statefunc (hook W (emit s0 (EvCall f (init s0)))) = Some f) by (rewrite hook_statefunc; exact E).
        destruct (w_s W (ctr s0)); cbn [dstate]; try (cbn; congruence); try (apply AC; cbn; congruence). }
    destruct (h_turn W h) as [h' r|h']; cbn [proj hdstate] in *; rewrite <- Pr in X; exact X. }
  apply active_K. exact Hact.
Qed.

Lemma h_inner_active k : forall h, statefunc (core h) <> None -> statefunc (core (fst (h_inner W k h))) <> None.
Proof.
  intros h Hs. destruct (core_h_inner k h) as [A _]. rewrite A.
  assert (X : forall k s, statefunc s <> None -> statefunc (fst (inner W k s)) <> None).
  { clear. induction k as [|k IH]; intros s Hs; cbn [inner]; [exact Hs|].
    assert (T : statefunc (dstate (turn W s)) <> None).
    { unfold turn. set (s0 := hook W s).
      assert (Hs0 : statefunc s0 <> None) by (subst s0; rewrite hook_statefunc; exact Hs).
      assert (AC : forall s r, statefunc s <> None -> statefunc (dstate (after_cleanup W (do_cleanup W s r))) <> None).
      { intros s1 r Hn. pose proof (do_cleanup_spec W s1 r) as S. unfold after_cleanup.
        destruct (do_cleanup W s1 r) as [s' [f|]]; cbn [fst snd dstate]; [rewrite new_state_statefunc; discriminate|].
        destruct S as (E & _). congruence. }
      destruct (next_task s0) as [t|]; [destruct (cleanup_reason s0)|].
      - destruct (statefunc s0) as [f|] eqn:E; [|congruence].
        assert (E1 : statefunc (hook W (emit s0 (EvCall f (init s0)))) = Some f) by (rewrite hook_statefunc; exact E).
        destruct (w_s W (ctr s0)); cbn [dstate]; try (cbn; congruence); try (apply AC; cbn; congruence).
      - apply AC. exact Hs0.
      - destruct (statefunc s0) as [f|] eqn:E; [|congruence].
        assert (E1 : statefunc (hook W (emit s0 (EvCall f (init s0)))) = Some f) by (rewrite hook_statefunc; exact E).
        destruct (w_s W (ctr s0)); cbn [dstate]; try (cbn; congruence); try (apply AC; cbn; congruence). }
    destruct (turn W s) as [s' r|s']; cbn [dstate fst] in *; [exact T|apply IH; exact T]. }
  apply X. exact Hs.
Qed.

Lemma h_pickup_K h : K h -> statefunc (core h) = None -> K (h_pickup W h).
Proof.
  intros HK Hidle. unfold HasStates.h_pickup.
  destruct (next_task (core h)) as [[i f cl kw|i]|] eqn:E; [| |exact HK].
  - apply active_K. cbn [core]. unfold pickup. rewrite E. cbn. discriminate.
  - unfold K, is_active, pending_start in *. cbn [core st idle with_core]. unfold pickup. rewrite E. cbn. rewrite Hidle.
    rewrite Hidle, E in HK. intros _ _. apply HK; reflexivity.
Qed.

Lemma h_round_K m h : K h -> K (fst (h_round W m h)).
Proof.
  intros HK. unfold HasStates.h_round. destruct (statefunc (core h)) eqn:Hs.
  - assert (Hne : statefunc (core h) <> None) by congruence.
    pose proof (h_inner_active m h Hne) as I. destruct (h_inner W m h) as [h1 r]. cbn [fst] in *.
    destruct r; cbn [fst].
    + apply active_K. exact I.
    + apply h_pickup_K; [apply h_new_state_K|reflexivity].
    + destruct (h_do_cleanup W h1 RExc) as [h2 [f|]]; cbn [fst].
      * apply h_new_state_K.
      * apply h_pickup_K; [apply h_new_state_K|reflexivity].
  - cbn [fst]. apply h_pickup_K; assumption.
Qed.

Lemma h_outer_K m k : forall h, K h -> K (h_outer W m k h).
Proof.
  induction k as [|k IH]; intros h HK; cbn [HasStates.h_outer]; [exact HK|].
  pose proof (h_round_K m h HK) as R. destruct (h_round W m h) as [h' go]. cbn [fst] in R. destruct go; auto.
Qed.

Lemma hstep_K m r h o : K h -> K (hstep W m r h o).
Proof.
  intros HK. destruct o; cbn [HasStates.hstep].
  - unfold K, pending_start. cbn [core]. intros _ X. discriminate.
  - destruct (is_active (core h)) eqn:A; [|exact HK].
    unfold K. cbn [core]. unfold is_active in *. cbn. intros X. rewrite A in X. discriminate.
  - pose proof (h_outer_K m r h HK) as H. unfold K in *. cbn [core st idle]. exact H.
Qed.

Theorem inactive_status_is_final m r ops : K (hrun W m r ops).
Proof.
  unfold HasStates.hrun.
  assert (H0 : K (hs0 C)) by (unfold K; cbn; reflexivity).
  revert H0. generalize (hs0 C). induction ops as [|o ops IH]; intros h H; cbn [fold_left]; [exact H|].
  apply IH. apply hstep_K. exact H.
Qed.

End Proofs.
