(* C14 — invariants of the HasStates layer with start_machine / stop_machine issued between cycles and at every hook
   inside a cycle: projection onto the core state machine, busy while running, final/stopped status when inactive,
   the reported final status is the one of the run that finished. *)
From Coq Require Import List Arith ZArith Bool Lia.
Import ListNotations.
Require Import FV.Base.Util FV.C14.Model FV.C14.Lemmas FV.C14.HasStates.

Section Proofs.
Variable C : codes.
Variable scode : sid -> option Z.
Variable reset_idle : bool.
Variable assign_idle : bool.
Variable W : world.

Notation h_start := (h_start C scode assign_idle).
Notation h_stop := (h_stop C scode).
Notation h_hook := (h_hook C scode assign_idle).
Notation h_new_state := (h_new_state C scode assign_idle).
Notation h_do_cleanup := (h_do_cleanup C scode assign_idle).
Notation h_after_cleanup := (h_after_cleanup C scode assign_idle).
Notation h_turn := (h_turn C scode assign_idle).
Notation h_inner := (h_inner C scode assign_idle).
Notation h_pickup_locked := (h_pickup_locked C scode reset_idle assign_idle).
Notation h_pickup := (h_pickup C scode reset_idle assign_idle).
Notation h_round := (h_round C scode reset_idle assign_idle).
Notation h_outer := (h_outer C scode reset_idle assign_idle).
Notation hstep := (hstep C scode reset_idle assign_idle).
Notation hrun := (hrun C scode reset_idle assign_idle).
Notation transition := (transition C scode).
Notation get_status := (get_status C scode).

(* ------------------------------------------------------------------ hooks of the core machine, once more *)
Lemma hook_posts s t : w_env W (ctr s) = Some t -> suppressed W (ctr s) t s = false -> next_task (hook W s) = Some t.
Proof. unfold hook. intros -> ->. reflexivity. Qed.
Lemma hook_suppressed s t : w_env W (ctr s) = Some t -> suppressed W (ctr s) t s = true -> next_task (hook W s) = next_task s.
Proof. unfold hook. intros -> ->. reflexivity. Qed.

(* ------------------------------------------------------------------ projection onto the core machine *)
Definition hdstate (d : hdecision) : hs := match d with HRet h _ => h | HGo h => h end.
Definition proj (d : hdecision) : decision :=
  match d with HRet h r => DRet (core h) r | HGo h => DGo (core h) end.

Lemma core_h_hook fin h : core (h_hook W fin h) = hook W (core h).
Proof.
  unfold HasStates.h_hook. destruct (w_env W (ctr (core h))) as [[i f cl kw|i]|]; cbn [core with_core HasStates.h_start]; try reflexivity.
  destruct (suppressed W (ctr (core h)) (TStop i) (core h)); reflexivity.
Qed.

Lemma core_h_new_state h f : core (h_new_state W h f) = new_state W (core h) f.
Proof. unfold HasStates.h_new_state, new_state. cbn [core with_core]. rewrite core_h_hook. reflexivity. Qed.

Lemma core_set_final h s : core (set_final h s) = core h.
Proof. reflexivity. Qed.

Lemma core_h_do_cleanup h r :
  core (fst (h_do_cleanup W h r)) = fst (do_cleanup W (core h) r) /\ snd (h_do_cleanup W h r) = snd (do_cleanup W (core h) r).
Proof.
  unfold HasStates.h_do_cleanup, do_cleanup.
  set (c1 := match cleanup_reason (emit (core h) (EvInt (reason_code r))) with
             | Some _ => emit (core h) (EvInt (reason_code r))
             | None => set_reason (emit (core h) (EvInt (reason_code r))) (Some r) end).
  destruct (cleanup c1) as [[o c]|]; [|cbn; auto].
  set (h1l := h_hook W false (with_core h c1)).
  assert (E : core h1l = hook W c1) by (subst h1l; rewrite core_h_hook; reflexivity).
  cbv zeta.
  match goal with |- context [if ?b then set_final ?x ?s else ?y] =>
    assert (E3 : core (if b then set_final x s else y) = core x) by (destruct b; reflexivity);
    set (h3 := if b then set_final x s else y) in *
  end.
  cbn [core with_core] in E3. rewrite E in E3.
  rewrite E. destruct (w_c W _); cbn [fst snd]; rewrite core_h_hook, E3; auto.
Qed.

Lemma proj_h_after_cleanup h r :
  proj (h_after_cleanup W (h_do_cleanup W h r)) = after_cleanup W (do_cleanup W (core h) r).
Proof.
  destruct (core_h_do_cleanup h r) as [A B]. unfold HasStates.h_after_cleanup, after_cleanup.
  rewrite B. destruct (snd (do_cleanup W (core h) r)); cbn [proj]; [rewrite core_h_new_state|]; rewrite A; reflexivity.
Qed.

Lemma proj_h_turn h : proj (h_turn W h) = turn W (core h).
Proof.
  unfold HasStates.h_turn, turn. set (h0 := h_hook W false h).
  assert (E0 : core h0 = hook W (core h)) by apply core_h_hook. rewrite <- E0.
  assert (Hcall : proj (match statefunc (core h0) with
      | None => HRet h0 IBreak
      | Some f =>
          let n := ctr (core h0) in
          let h1 := h_hook W false (with_core h0 (emit (core h0) (EvCall f (init (core h0))))) in
          match w_s W n with
          | BRetry => HRet (with_core h1 (set_init (core h1) false)) IReturn
          | BFinish => HRet (with_core h1 (set_init (core h1) false)) IBreak
          | BFinal c =>
              HRet (set_final (with_core h1 (set_init (emit (core h1) (EvFinal c)) false)) (c, TFinal c)) IBreak
          | BNext g => HGo (h_new_state W (with_core h1 (set_init (core h1) false)) (Some g))
          | BNonCallable => h_after_cleanup W (h_do_cleanup W (with_core h1 (set_init (core h1) false)) RExc)
          | BRaise => h_after_cleanup W (h_do_cleanup W h1 RExc)
          end
      end) =
      match statefunc (core h0) with
      | None => DRet (core h0) IBreak
      | Some f =>
          let n := ctr (core h0) in
          let s1 := hook W (emit (core h0) (EvCall f (init (core h0)))) in
          match w_s W n with
          | BRetry => DRet (set_init s1 false) IReturn
          | BFinish => DRet (set_init s1 false) IBreak
          | BFinal c => DRet (set_init (emit s1 (EvFinal c)) false) IBreak
          | BNext g => DGo (new_state W (set_init s1 false) (Some g))
          | BNonCallable => after_cleanup W (do_cleanup W (set_init s1 false) RExc)
          | BRaise => after_cleanup W (do_cleanup W s1 RExc)
          end
      end).
  { destruct (statefunc (core h0)) as [f|]; [|reflexivity]. cbv zeta.
    set (h1 := h_hook W false (with_core h0 (emit (core h0) (EvCall f (init (core h0)))))).
    assert (E1 : core h1 = hook W (emit (core h0) (EvCall f (init (core h0))))) by (subst h1; apply core_h_hook).
    rewrite <- E1.
    destruct (w_s W (ctr (core h0))); cbn [proj core with_core set_final]; try reflexivity.
    - rewrite core_h_new_state. reflexivity.
    - apply (proj_h_after_cleanup (with_core h1 (set_init (core h1) false))).
    - apply proj_h_after_cleanup. }
  destruct (next_task (core h0)) as [t|]; [destruct (cleanup_reason (core h0))|]; try exact Hcall.
  apply proj_h_after_cleanup.
Qed.

Lemma core_h_inner k : forall h,
  core (fst (h_inner W k h)) = fst (inner W k (core h)) /\ snd (h_inner W k h) = snd (inner W k (core h)).
Proof.
  induction k as [|k IH]; intros h; cbn [HasStates.h_inner inner]; [auto|].
  pose proof (proj_h_turn h) as P. destruct (h_turn W h) as [h' r|h']; cbn [proj] in P; rewrite <- P; [auto|apply IH].
Qed.

Lemma core_h_pickup_locked h : core (h_pickup_locked W h) = pickup_locked W (core h).
Proof.
  unfold HasStates.h_pickup_locked. destruct (next_task (core h)) as [[i f cl kw|i]|] eqn:E; cbn [core with_core]; try reflexivity.
  - unfold pickup_locked. rewrite E. rewrite core_h_new_state. reflexivity.
  - unfold pickup_locked. rewrite E. reflexivity.
Qed.

Lemma core_h_pickup h : core (h_pickup W h) = pickup W (core h).
Proof.
  unfold HasStates.h_pickup, pickup. destruct (next_task (core h)); [|reflexivity].
  rewrite core_h_pickup_locked, core_h_hook. reflexivity.
Qed.

Lemma core_h_round m h :
  core (fst (h_round W m h)) = fst (round W m (core h)) /\ snd (h_round W m h) = snd (round W m (core h)).
Proof.
  unfold HasStates.h_round, round. destruct (statefunc (core h)).
  - destruct (core_h_inner m h) as [A B]. destruct (h_inner W m h) as [h1 r], (inner W m (core h)) as [s1 r'].
    cbn [fst snd] in *. subst r'. destruct r; cbn [fst snd].
    + auto.
    + rewrite core_h_pickup, core_h_new_state, A. auto.
    + destruct (core_h_do_cleanup h1 RExc) as [D1 D2]. rewrite A in D1, D2.
      destruct (h_do_cleanup W h1 RExc) as [h2 ret], (do_cleanup W s1 RExc) as [s2 ret']. cbn [fst snd] in *. subst ret'.
      destruct ret; cbn [fst snd]; [|rewrite core_h_pickup]; rewrite core_h_new_state, D1; auto.
  - cbn [fst snd]. rewrite core_h_pickup. auto.
Qed.

Lemma core_h_outer m k : forall h, core (h_outer W m k h) = outer W m k (core h).
Proof.
  induction k as [|k IH]; intros h; cbn [HasStates.h_outer outer]; [reflexivity|].
  destruct (core_h_round m h) as [A B]. destruct (h_round W m h) as [h' go], (round W m (core h)) as [s' go'].
  cbn [fst snd] in *. rewrite <- B, <- A. destruct go; [apply IH|reflexivity].
Qed.

(* the core component of the layer is exactly the state machine of Model.v: every theorem about it applies *)
Theorem core_hstep m r h o :
  core (hstep W m r h o) =
  match o with
  | HStart tid f cl kw => post (core h) (TStart tid f (Some cl) kw)
  | HStop tid => if is_active (core h) then post (core h) (TStop tid) else core h
  | HCycle => cycle W m r (core h)
  end.
Proof.
  destruct o; cbn [HasStates.hstep core HasStates.h_start].
  - reflexivity.
  - destruct (is_active (core h)); reflexivity.
  - apply core_h_outer.
Qed.

(* ------------------------------------------------------------------ frame facts of the layer's hook *)
Lemma h_hook_statefunc fin h : statefunc (core (h_hook W fin h)) = statefunc (core h).
Proof. rewrite core_h_hook. apply hook_statefunc. Qed.

(* every stop request at a hook comes from stop_machine: it is issued only while the machine is active *)
Hypothesis G : forall n, w_guard W n = true.

Lemma effective_stop_active i s : suppressed W (ctr s) (TStop i) s = false -> statefunc s <> None.
Proof. unfold suppressed, active. rewrite G. destruct (statefunc s); [discriminate|discriminate]. Qed.

(* ------------------------------------------------------------------ busy from the start request until finished *)
Definition busyb (c : Z) : bool := (c_busy C <=? c)%Z && (c <? c_error C)%Z.
Hypothesis Hsc : forall f c, scode f = Some c -> busyb c = true.
Hypothesis Hbusy : busyb (c_busy C) = true.

Definition pending_start (s : sm) : bool := match next_task s with Some (TStart _ _ _ _) => true | _ => false end.
Definition J (h : hs) : Prop :=
  (is_active (core h) = true \/ pending_start (core h) = true) -> busyb (fst (st h)) = true.
Definition JN (h : hs) : Prop := pending_start (core h) = true -> busyb (fst (st h)) = true.
Definition B (h : hs) : Prop := busyb (fst (st h)) = true.

Lemma B_J h : B h -> J h.
Proof. intros H _. exact H. Qed.
Lemma J_JN h : J h -> JN h.
Proof. intros H X. apply H. right. exact X. Qed.
Lemma J_active_B h : J h -> statefunc (core h) <> None -> B h.
Proof. intros H X. apply H. left. unfold is_active, active. destruct (statefunc (core h)); congruence. Qed.

Lemma start_status_busy h c' f : B (h_start h c' f).
Proof.
  unfold B, HasStates.h_start. cbn [st].
  assert (X : busyb (fst (match get_status (idle h) (Some f) (Some (c_busy C)) with Some s => s | None => st h end)) = true).
  { unfold HasStates.get_status. destruct (scode f) as [c|] eqn:E; cbn; [apply (Hsc f c E)|exact Hbusy]. }
  destruct (is_active (core h)); exact X.
Qed.

Lemma stop_status_busy h c' fin : B h -> statefunc (core h) <> None -> B (h_stop h c' fin).
Proof.
  intros HB Hs. unfold B, HasStates.h_stop. cbn [st fst]. unfold HasStates.get_status.
  destruct (statefunc (core h)) as [g|]; [|congruence].
  destruct (scode g) as [c|] eqn:E; cbn; [apply (Hsc g c E)|exact HB].
Qed.

Lemma transition_some_busy s i p g : busyb (fst s) = true -> busyb (fst (transition s i p (Some g))) = true.
Proof.
  intros Hs. unfold HasStates.transition, HasStates.get_status.
  destruct (scode g) as [c|] eqn:E.
  - pose proof (Hsc g c E) as Hc.
    destruct p as [[i0 f cl kw|i0]|]; cbn; try exact Hc.
    destruct (text_eqb (snd s) (TName g)); cbn; exact Hs.
  - destruct p as [[i0 f cl kw|i0]|]; cbn; exact Hs.
Qed.

Lemma transition_none_start s i tid f cl kw : busyb (fst (transition s i (Some (TStart tid f cl kw)) None)) = true.
Proof.
  unfold HasStates.transition, HasStates.get_status. destruct (scode f) as [c|] eqn:E; cbn; [apply (Hsc f c E)|exact Hbusy].
Qed.

Lemma with_core_J h c : J h -> statefunc c = statefunc (core h) -> next_task c = next_task (core h) -> J (with_core h c).
Proof. unfold J, is_active, active, pending_start. cbn. intros HJ -> ->. exact HJ. Qed.

Lemma h_hook_B fin h : B h -> B (h_hook W fin h).
Proof.
  intros HB. unfold HasStates.h_hook. destruct (w_env W (ctr (core h))) as [[i f cl kw|i]|] eqn:E.
  - apply start_status_busy.
  - destruct (suppressed W (ctr (core h)) (TStop i) (core h)) eqn:S; [exact HB|].
    apply stop_status_busy; [exact HB|apply (effective_stop_active i); exact S].
  - exact HB.
Qed.

Lemma h_hook_J fin h : J h -> J (h_hook W fin h).
Proof.
  intros HJ. unfold HasStates.h_hook. destruct (w_env W (ctr (core h))) as [[i f cl kw|i]|] eqn:E.
  - apply B_J, start_status_busy.
  - destruct (suppressed W (ctr (core h)) (TStop i) (core h)) eqn:S.
    + apply with_core_J; [exact HJ|apply hook_statefunc|apply (hook_suppressed _ _ E S)].
    + pose proof (effective_stop_active i _ S) as Hact.
      apply B_J, stop_status_busy; [apply J_active_B; assumption|exact Hact].
  - apply with_core_J; [exact HJ|apply hook_statefunc|apply hook_next_task_quiet; exact E].
Qed.

Lemma h_hook_JN fin h : JN h -> JN (h_hook W fin h).
Proof.
  intros HJ. unfold HasStates.h_hook. destruct (w_env W (ctr (core h))) as [[i f cl kw|i]|] eqn:E.
  - intros _. apply start_status_busy.
  - destruct (suppressed W (ctr (core h)) (TStop i) (core h)) eqn:S.
    + unfold JN, pending_start in *. cbn [core st with_core]. rewrite (hook_suppressed _ _ E S). exact HJ.
    + unfold JN, pending_start. cbn [core st HasStates.h_stop]. rewrite (hook_posts _ _ E S). discriminate.
  - unfold JN, pending_start in *. cbn [core st with_core]. rewrite (hook_next_task_quiet _ _ E). exact HJ.
Qed.

(* a transition to a state: the status stays busy *)
Lemma h_new_state_B h g : B h -> B (h_new_state W h (Some g)).
Proof.
  intros HB. unfold HasStates.h_new_state.
  match goal with |- B (with_core (h_hook W ?fin ?h1) _) => assert (H1 : B (h_hook W fin h1)) end.
  { apply h_hook_B. unfold B. cbn [st]. apply transition_some_busy. exact HB. }
  exact H1.
Qed.

(* the finishing transition *)
Lemma h_new_state_J_none h : J (h_new_state W h None).
Proof.
  unfold HasStates.h_new_state.
  match goal with |- J (with_core (h_hook W ?fin ?h1) _) => assert (H1 : JN (h_hook W fin h1)) end.
  { apply h_hook_JN. unfold JN, pending_start. cbn [core st emit next_task].
    destruct (next_task (core h)) as [[tid f cl kw|tid]|]; try discriminate. intros _. apply transition_none_start. }
  unfold J, is_active, active. cbn [core st with_core set_statefunc statefunc]. intros [X|X]; [discriminate|].
  apply H1. exact X.
Qed.

Lemma h_do_cleanup_J h r :
  J h -> J (fst (h_do_cleanup W h r)) /\ statefunc (core (fst (h_do_cleanup W h r))) = statefunc (core h).
Proof.
  intros HJ. split.
  2:{ destruct (core_h_do_cleanup h r) as [A _]. rewrite A. pose proof (do_cleanup_spec W (core h) r) as S.
      destruct (do_cleanup W (core h) r) as [c' ret]. cbn [fst]. apply S. }
  unfold HasStates.h_do_cleanup.
  set (c1 := match cleanup_reason (emit (core h) (EvInt (reason_code r))) with
             | Some _ => emit (core h) (EvInt (reason_code r))
             | None => set_reason (emit (core h) (EvInt (reason_code r))) (Some r) end).
  assert (J1 : J (with_core h c1)).
  { apply with_core_J; [exact HJ| |]; subst c1; destruct (cleanup_reason (emit (core h) (EvInt (reason_code r)))); reflexivity. }
  destruct (cleanup c1) as [[o c]|]; [|exact J1].
  cbv zeta. set (h1l := h_hook W false (with_core h c1)).
  assert (J2 : J h1l) by (apply h_hook_J; exact J1).
  match goal with |- context [if ?b then set_final ?x ?s else ?y] =>
    assert (J3 : J (if b then set_final x s else y))
  end.
  { match goal with |- J (if ?b then _ else _) => destruct b end;
      (unfold J, is_active, active, pending_start in *; cbn [core st with_core set_final emit set_cleanup statefunc next_task]; exact J2). }
  destruct (w_c W _); cbn [fst]; apply h_hook_J; exact J3.
Qed.

Definition JPost (d : hdecision) : Prop := J (hdstate d) /\ statefunc (core (hdstate d)) <> None.

Lemma h_after_cleanup_JPost h r : J h -> statefunc (core h) <> None -> JPost (h_after_cleanup W (h_do_cleanup W h r)).
Proof.
  intros HJ Hs. destruct (h_do_cleanup_J h r HJ) as [D1 D2]. unfold HasStates.h_after_cleanup, JPost.
  destruct (h_do_cleanup W h r) as [h' [f|]]; cbn [fst snd hdstate] in *.
  - split; [apply B_J, h_new_state_B, J_active_B; [exact D1|congruence]|rewrite core_h_new_state; cbn; discriminate].
  - split; [exact D1|congruence].
Qed.

Lemma h_turn_J h : J h -> statefunc (core h) <> None -> JPost (h_turn W h).
Proof.
  intros HJ Hs. unfold HasStates.h_turn.
  assert (HJ0 : J (h_hook W false h)) by (apply h_hook_J; exact HJ).
  assert (Hs0 : statefunc (core (h_hook W false h)) <> None) by (rewrite h_hook_statefunc; exact Hs).
  set (h0 := h_hook W false h) in *.
  assert (Hcall : JPost (match statefunc (core h0) with
      | None => HRet h0 IBreak
      | Some f =>
          let n := ctr (core h0) in
          let h1 := h_hook W false (with_core h0 (emit (core h0) (EvCall f (init (core h0))))) in
          match w_s W n with
          | BRetry => HRet (with_core h1 (set_init (core h1) false)) IReturn
          | BFinish => HRet (with_core h1 (set_init (core h1) false)) IBreak
          | BFinal c =>
              HRet (set_final (with_core h1 (set_init (emit (core h1) (EvFinal c)) false)) (c, TFinal c)) IBreak
          | BNext g => HGo (h_new_state W (with_core h1 (set_init (core h1) false)) (Some g))
          | BNonCallable => h_after_cleanup W (h_do_cleanup W (with_core h1 (set_init (core h1) false)) RExc)
          | BRaise => h_after_cleanup W (h_do_cleanup W h1 RExc)
          end
      end)).
  { destruct (statefunc (core h0)) as [f|] eqn:Hsf; [|congruence]. cbv zeta.
    set (h1 := h_hook W false (with_core h0 (emit (core h0) (EvCall f (init (core h0)))))).
    assert (J1 : J h1).
    { subst h1. apply h_hook_J, with_core_J; [exact HJ0|reflexivity|reflexivity]. }
    assert (S1 : statefunc (core h1) = Some f) by (subst h1; rewrite h_hook_statefunc; cbn; exact Hsf).
    assert (J1' : J (with_core h1 (set_init (core h1) false))) by (apply with_core_J; [exact J1|reflexivity|reflexivity]).
    assert (N1 : statefunc (core (with_core h1 (set_init (core h1) false))) <> None) by (cbn; congruence).
    destruct (w_s W (ctr (core h0))).
    - split; cbn [hdstate]; [apply B_J, h_new_state_B, J_active_B; assumption|rewrite core_h_new_state; cbn; discriminate].
    - split; [exact J1'|exact N1].
    - split; [exact J1'|exact N1].
    - apply h_after_cleanup_JPost; assumption.
    - apply h_after_cleanup_JPost; [exact J1|congruence].
    - split; cbn [hdstate]; [|cbn; congruence].
      unfold J, is_active, active, pending_start in *. cbn [core st with_core set_final set_init emit statefunc next_task]. exact J1. }
  destruct (next_task (core h0)) as [t|]; [destruct (cleanup_reason (core h0))|]; try exact Hcall.
  apply h_after_cleanup_JPost; assumption.
Qed.

Lemma h_inner_J k : forall h, J h -> statefunc (core h) <> None ->
  J (fst (h_inner W k h)) /\ statefunc (core (fst (h_inner W k h))) <> None.
Proof.
  induction k as [|k IH]; intros h HJ Hs; cbn [HasStates.h_inner]; [split; assumption|].
  destruct (h_turn_J h HJ Hs) as [T1 T2]. destruct (h_turn W h) as [h' r|h']; cbn [hdstate fst] in *; [split; assumption|].
  apply IH; assumption.
Qed.

Lemma h_pickup_locked_J h : J h -> statefunc (core h) = None -> J (h_pickup_locked W h).
Proof.
  intros HJ Hidle. unfold HasStates.h_pickup_locked.
  destruct (next_task (core h)) as [[i f cl kw|i]|] eqn:E; [| |exact HJ].
  - apply B_J. unfold B. cbn [st].
    apply h_new_state_B. unfold B. cbn [st with_core]. apply HJ. right. unfold pending_start. rewrite E. reflexivity.
  - unfold J, is_active, active, pending_start. cbn [core st with_core]. unfold pickup_locked. rewrite E. cbn. rewrite Hidle.
    intros [X|X]; discriminate.
Qed.

Lemma h_pickup_J h : J h -> statefunc (core h) = None -> J (h_pickup W h).
Proof.
  intros HJ Hidle. unfold HasStates.h_pickup. destruct (next_task (core h)); [|exact HJ].
  apply h_pickup_locked_J; [apply h_hook_J; exact HJ|rewrite h_hook_statefunc; exact Hidle].
Qed.

Lemma h_new_state_none_idle h : statefunc (core (h_new_state W h None)) = None.
Proof. rewrite core_h_new_state. reflexivity. Qed.

Lemma h_round_J m h : J h -> J (fst (h_round W m h)).
Proof.
  intros HJ. unfold HasStates.h_round. destruct (statefunc (core h)) eqn:Hs.
  - assert (Hne : statefunc (core h) <> None) by congruence.
    destruct (h_inner_J m h HJ Hne) as [I1 I2]. destruct (h_inner W m h) as [h1 r]. cbn [fst] in *.
    destruct r; cbn [fst].
    + exact I1.
    + apply h_pickup_J; [apply h_new_state_J_none|apply h_new_state_none_idle].
    + destruct (h_do_cleanup_J h1 RExc I1) as [D1 D2].
      destruct (h_do_cleanup W h1 RExc) as [h2 [f|]]; cbn [fst] in *.
      * apply B_J, h_new_state_B, J_active_B; [exact D1|congruence].
      * apply h_pickup_J; [apply h_new_state_J_none|apply h_new_state_none_idle].
  - cbn [fst]. apply h_pickup_J; assumption.
Qed.

Lemma h_outer_J m k : forall h, J h -> J (h_outer W m k h).
Proof.
  induction k as [|k IH]; intros h HJ; cbn [HasStates.h_outer]; [exact HJ|].
  pose proof (h_round_J m h HJ) as R. destruct (h_round W m h) as [h' go]. cbn [fst] in R. destruct go; auto.
Qed.

Lemma hstep_J m r h o : J h -> J (hstep W m r h o).
Proof.
  intros HJ. destruct o; cbn [HasStates.hstep].
  - apply B_J, start_status_busy.
  - destruct (is_active (core h)) eqn:A; [|exact HJ].
    apply B_J, stop_status_busy; [apply HJ; left; exact A|].
    unfold is_active, active in A. destruct (statefunc (core h)); [discriminate|discriminate].
  - pose proof (h_outer_J m r h HJ) as H. unfold J in *. cbn [core st]. exact H.
Qed.

Theorem busy_while_running m r ops : J (hrun W m r ops).
Proof.
  unfold HasStates.hrun.
  assert (H0 : J (hs0 C)) by (unfold J, is_active, active, pending_start; cbn; intros [X|X]; discriminate).
  revert H0. generalize (hs0 C). induction ops as [|o ops IH]; intros h H; cbn [fold_left]; [exact H|].
  apply IH. apply hstep_J. exact H.
Qed.

(* ------------------------------------------------------------------ final / stopped status when inactive *)
Definition idle_or_default (i : option status) : status := match i with Some s => s | None => (c_error C, TNoFinal) end.
Definition K (h : hs) : Prop :=
  late h = false -> is_active (core h) = false -> pending_start (core h) = false -> st h = idle_or_default (idle h).
(* the same without looking at the state: what holds inside the finishing transition *)
Definition K0 (h : hs) : Prop :=
  late h = false -> pending_start (core h) = false -> st h = idle_or_default (idle h).

Lemma active_K h : statefunc (core h) <> None -> K h.
Proof. unfold K, is_active, active. destruct (statefunc (core h)); [discriminate|congruence]. Qed.

Lemma h_hook_K fin h : K h -> K (h_hook W fin h).
Proof.
  intros HK. unfold HasStates.h_hook. destruct (w_env W (ctr (core h))) as [[i f cl kw|i]|] eqn:E.
  - unfold K, pending_start. cbn [core HasStates.h_start]. intros _ _.
    rewrite (hook_posts _ _ E) by reflexivity. discriminate.
  - destruct (suppressed W (ctr (core h)) (TStop i) (core h)) eqn:S.
    + unfold K, is_active, active, pending_start in *. cbn [core st idle late with_core].
      rewrite hook_statefunc, (hook_suppressed _ _ E S). exact HK.
    + apply active_K. cbn [core HasStates.h_stop]. rewrite hook_statefunc. apply (effective_stop_active i). exact S.
  - unfold K, is_active, active, pending_start in *. cbn [core st idle late with_core].
    rewrite hook_statefunc, (hook_next_task_quiet _ _ E). exact HK.
Qed.

Lemma h_hook_K0_fin h : K0 h -> K0 (h_hook W true h).
Proof.
  intros HK. unfold HasStates.h_hook. destruct (w_env W (ctr (core h))) as [[i f cl kw|i]|] eqn:E.
  - unfold K0, pending_start. cbn [core HasStates.h_start]. intros _.
    rewrite (hook_posts _ _ E) by reflexivity. discriminate.
  - destruct (suppressed W (ctr (core h)) (TStop i) (core h)) eqn:S.
    + unfold K0, pending_start in *. cbn [core st idle late with_core]. rewrite (hook_suppressed _ _ E S). exact HK.
    + unfold K0. cbn [late HasStates.h_stop]. discriminate.
  - unfold K0, pending_start in *. cbn [core st idle late with_core]. rewrite (hook_next_task_quiet _ _ E). exact HK.
Qed.

Lemma h_new_state_K h f : K (h_new_state W h f).
Proof.
  destruct f as [g|]; [apply active_K; rewrite core_h_new_state; cbn; discriminate|].
  unfold HasStates.h_new_state.
  match goal with |- K (with_core (h_hook W ?fin ?h1) _) => assert (H1 : K0 (h_hook W fin h1)) end.
  { apply h_hook_K0_fin. unfold K0, pending_start. cbn [core st idle late emit next_task]. intros _ Hp.
    unfold HasStates.transition, HasStates.get_status, idle_or_default.
    destruct (next_task (core h)) as [[tid f cl kw|tid]|]; [discriminate| |]; destruct (idle h); reflexivity. }
  unfold K, pending_start in *. cbn [core st idle late with_core set_statefunc next_task]. intros L _ P. apply H1; assumption.
Qed.

Lemma inner_active k : forall s, statefunc s <> None -> statefunc (fst (inner W k s)) <> None.
Proof.
  induction k as [|k IH]; intros s Hs; cbn [inner]; [exact Hs|].
  assert (T : statefunc (dstate (turn W s)) <> None).
  { unfold turn. set (s0 := hook W s).
    assert (Hs0 : statefunc s0 <> None) by (subst s0; rewrite hook_statefunc; exact Hs).
    assert (AC : forall s r, statefunc s <> None -> statefunc (dstate (after_cleanup W (do_cleanup W s r))) <> None).
    { intros s1 r Hn. pose proof (do_cleanup_spec W s1 r) as S. unfold after_cleanup.
      destruct (do_cleanup W s1 r) as [s' [f|]]; cbn [fst snd dstate]; [rewrite new_state_statefunc; discriminate|].
      destruct S as (E & _). congruence. }
    destruct (next_task s0) as [t|]; [destruct (cleanup_reason s0)|].
    - destruct (statefunc s0) as [f|] eqn:E; [|congruence].
      assert (E1 : statefunc (hook W (emit s0 (EvCall f (init s0)))) = Some f) by (rewrite hook_statefunc; exact E).
      destruct (w_s W (ctr s0)); cbn [dstate]; try (cbn; congruence); try (apply AC; cbn; congruence).
    - apply AC. exact Hs0.
    - destruct (statefunc s0) as [f|] eqn:E; [|congruence].
      assert (E1 : statefunc (hook W (emit s0 (EvCall f (init s0)))) = Some f) by (rewrite hook_statefunc; exact E).
      destruct (w_s W (ctr s0)); cbn [dstate]; try (cbn; congruence); try (apply AC; cbn; congruence). }
  destruct (turn W s) as [s' r|s']; cbn [dstate fst] in *; [exact T|apply IH; exact T].
Qed.

Lemma h_inner_active k h : statefunc (core h) <> None -> statefunc (core (fst (h_inner W k h))) <> None.
Proof. intros Hs. destruct (core_h_inner k h) as [A _]. rewrite A. apply inner_active. exact Hs. Qed.

Lemma h_pickup_locked_K h : K h -> statefunc (core h) = None -> K (h_pickup_locked W h).
Proof.
  intros HK Hidle. unfold HasStates.h_pickup_locked.
  destruct (next_task (core h)) as [[i f cl kw|i]|] eqn:E; [| |exact HK].
  - apply active_K. cbn [core]. cbn. discriminate.
  - unfold K, is_active, active, pending_start in *. cbn [core st idle late with_core]. unfold pickup_locked. rewrite E. cbn.
    rewrite Hidle. rewrite Hidle, E in HK. intros L _ _. apply HK; auto.
Qed.

Lemma h_pickup_K h : K h -> statefunc (core h) = None -> K (h_pickup W h).
Proof.
  intros HK Hidle. unfold HasStates.h_pickup. destruct (next_task (core h)); [|exact HK].
  apply h_pickup_locked_K; [apply h_hook_K; exact HK|rewrite h_hook_statefunc; exact Hidle].
Qed.

Lemma h_round_K m h : K h -> K (fst (h_round W m h)).
Proof.
  intros HK. unfold HasStates.h_round. destruct (statefunc (core h)) eqn:Hs.
  - assert (Hne : statefunc (core h) <> None) by congruence.
    pose proof (h_inner_active m h Hne) as I. destruct (h_inner W m h) as [h1 r]. cbn [fst] in *.
    destruct r; cbn [fst].
    + apply active_K. exact I.
    + apply h_pickup_K; [apply h_new_state_K|apply h_new_state_none_idle].
    + destruct (h_do_cleanup W h1 RExc) as [h2 [f|]]; cbn [fst].
      * apply h_new_state_K.
      * apply h_pickup_K; [apply h_new_state_K|apply h_new_state_none_idle].
  - cbn [fst]. apply h_pickup_K; assumption.
Qed.

Lemma h_outer_K m k : forall h, K h -> K (h_outer W m k h).
Proof.
  induction k as [|k IH]; intros h HK; cbn [HasStates.h_outer]; [exact HK|].
  pose proof (h_round_K m h HK) as R. destruct (h_round W m h) as [h' go]. cbn [fst] in R. destruct go; auto.
Qed.

Lemma hstep_K m r h o : K h -> K (hstep W m r h o).
Proof.
  intros HK. destruct o; cbn [HasStates.hstep].
  - unfold K, pending_start. cbn [core HasStates.h_start]. intros _ _ X. discriminate.
  - destruct (is_active (core h)) eqn:A; [|exact HK].
    unfold K. cbn [core HasStates.h_stop]. unfold is_active, active in *. cbn. intros _ X. rewrite A in X. discriminate.
  - pose proof (h_outer_K m r h HK) as H. unfold K in *. cbn [core st idle late]. exact H.
Qed.

Theorem inactive_status_is_final m r ops : K (hrun W m r ops).
Proof.
  unfold HasStates.hrun.
  assert (H0 : K (hs0 C)) by (unfold K; cbn; reflexivity).
  revert H0. generalize (hs0 C). induction ops as [|o ops IH]; intros h H; cbn [fold_left]; [exact H|].
  apply IH. apply hstep_K. exact H.
Qed.

(* ------------------------------------------------------------------ the idle status is the own final status of the run *)
Hypothesis HR : reset_idle = true.       (* start_machine passes idle_status with the start keywords *)
Hypothesis HA : assign_idle = false.     (* ... and never assigns it itself *)

(* NS: no stop request arrives at a hook (stop_machine is called between cycles only) *)
Definition NS : Prop := forall n i, w_env W n <> Some (TStop i).
Definition I (h : hs) : Prop := idle h = Some (own h) /\ (NS -> late h = false).

Lemma with_core_I h c : I h -> I (with_core h c).
Proof. intros H; exact H. Qed.

Lemma set_final_I h s : I h -> I (set_final h s).
Proof. intros [_ H]. split; [reflexivity|exact H]. Qed.

Lemma h_hook_I fin h : I h -> I (h_hook W fin h).
Proof.
  intros HI. unfold HasStates.h_hook. destruct (w_env W (ctr (core h))) as [[i f cl kw|i]|] eqn:E.
  - unfold I, HasStates.h_start. cbn [idle own late]. rewrite HA. split; [apply HI|reflexivity].
  - destruct (suppressed W (ctr (core h)) (TStop i) (core h)); [exact HI|].
    split; [reflexivity|]. intros N. exfalso. apply (N _ _ E).
  - exact HI.
Qed.

Lemma h_new_state_I h f : I h -> I (h_new_state W h f).
Proof.
  intros HI. unfold HasStates.h_new_state.
  match goal with |- I (with_core (h_hook W ?fin ?h1) _) => assert (H1 : I (h_hook W fin h1)) by (apply h_hook_I; exact HI) end.
  exact H1.
Qed.

Lemma h_do_cleanup_I h r : I h -> I (fst (h_do_cleanup W h r)).
Proof.
  intros HI. unfold HasStates.h_do_cleanup.
  match goal with |- context [cleanup ?c1] => destruct (cleanup c1) as [[o c]|] end; [|exact HI].
  cbv zeta.
  match goal with |- context [if ?b then set_final ?x ?s else ?y] =>
    assert (I3 : I (if b then set_final x s else y))
  end.
  { assert (I2 : I (h_hook W false (with_core h
       match cleanup_reason (emit (core h) (EvInt (reason_code r))) with
       | Some _ => emit (core h) (EvInt (reason_code r))
       | None => set_reason (emit (core h) (EvInt (reason_code r))) (Some r) end))) by (apply h_hook_I, with_core_I; exact HI).
    match goal with |- I (if ?b then _ else _) => destruct b end; [apply set_final_I|]; apply with_core_I; exact I2. }
  destruct (w_c W _); cbn [fst]; apply h_hook_I; exact I3.
Qed.

Lemma h_after_cleanup_I h r : I h -> I (hdstate (h_after_cleanup W (h_do_cleanup W h r))).
Proof.
  intros HI. pose proof (h_do_cleanup_I h r HI) as D. unfold HasStates.h_after_cleanup.
  destruct (h_do_cleanup W h r) as [h' [f|]]; cbn [fst snd hdstate] in *; [apply h_new_state_I|]; exact D.
Qed.

Lemma h_turn_I h : I h -> I (hdstate (h_turn W h)).
Proof.
  intros HI. unfold HasStates.h_turn.
  assert (HI0 : I (h_hook W false h)) by (apply h_hook_I; exact HI).
  set (h0 := h_hook W false h) in *.
  assert (Hcall : I (hdstate (match statefunc (core h0) with
      | None => HRet h0 IBreak
      | Some f =>
          let n := ctr (core h0) in
          let h1 := h_hook W false (with_core h0 (emit (core h0) (EvCall f (init (core h0))))) in
          match w_s W n with
          | BRetry => HRet (with_core h1 (set_init (core h1) false)) IReturn
          | BFinish => HRet (with_core h1 (set_init (core h1) false)) IBreak
          | BFinal c =>
              HRet (set_final (with_core h1 (set_init (emit (core h1) (EvFinal c)) false)) (c, TFinal c)) IBreak
          | BNext g => HGo (h_new_state W (with_core h1 (set_init (core h1) false)) (Some g))
          | BNonCallable => h_after_cleanup W (h_do_cleanup W (with_core h1 (set_init (core h1) false)) RExc)
          | BRaise => h_after_cleanup W (h_do_cleanup W h1 RExc)
          end
      end))).
  { destruct (statefunc (core h0)) as [f|]; [|exact HI0]. cbv zeta.
    set (h1 := h_hook W false (with_core h0 (emit (core h0) (EvCall f (init (core h0)))))).
    assert (I1 : I h1) by (subst h1; apply h_hook_I, with_core_I; exact HI0).
    destruct (w_s W (ctr (core h0))); cbn [hdstate].
    - apply h_new_state_I, with_core_I. exact I1.
    - exact I1.
    - exact I1.
    - apply h_after_cleanup_I, with_core_I. exact I1.
    - apply h_after_cleanup_I. exact I1.
    - apply set_final_I, with_core_I. exact I1. }
  destruct (next_task (core h0)) as [t|]; [destruct (cleanup_reason (core h0))|]; try exact Hcall.
  apply h_after_cleanup_I. exact HI0.
Qed.

Lemma h_inner_I k : forall h, I h -> I (fst (h_inner W k h)).
Proof.
  induction k as [|k IH]; intros h HI; cbn [HasStates.h_inner]; [exact HI|].
  pose proof (h_turn_I h HI) as T. destruct (h_turn W h) as [h' r|h']; cbn [hdstate fst] in *; [exact T|apply IH; exact T].
Qed.

Lemma h_pickup_locked_I h : I h -> I (h_pickup_locked W h).
Proof.
  intros HI. unfold HasStates.h_pickup_locked. destruct (next_task (core h)) as [[i f cl kw|i]|]; [| |exact HI].
  - match goal with |- context [HasStates.h_new_state C scode assign_idle W ?x ?y] =>
      pose proof (h_new_state_I x y (with_core_I h _ HI)) as [_ H3] end.
    unfold I. cbn [idle own late]. rewrite HR. split; [reflexivity|exact H3].
  - exact HI.
Qed.

Lemma h_pickup_I h : I h -> I (h_pickup W h).
Proof.
  intros HI. unfold HasStates.h_pickup. destruct (next_task (core h)); [|exact HI].
  apply h_pickup_locked_I, h_hook_I. exact HI.
Qed.

Lemma h_round_I m h : I h -> I (fst (h_round W m h)).
Proof.
  intros HI. unfold HasStates.h_round. destruct (statefunc (core h)).
  - pose proof (h_inner_I m h HI) as I1. destruct (h_inner W m h) as [h1 r]. cbn [fst] in *.
    destruct r; cbn [fst].
    + exact I1.
    + apply h_pickup_I, h_new_state_I. exact I1.
    + pose proof (h_do_cleanup_I h1 RExc I1) as D. destruct (h_do_cleanup W h1 RExc) as [h2 [f|]]; cbn [fst] in *.
      * apply h_new_state_I. exact D.
      * apply h_pickup_I, h_new_state_I. exact D.
  - cbn [fst]. apply h_pickup_I. exact HI.
Qed.

Lemma h_outer_I m k : forall h, I h -> I (h_outer W m k h).
Proof.
  induction k as [|k IH]; intros h HI; cbn [HasStates.h_outer]; [exact HI|].
  pose proof (h_round_I m h HI) as R. destruct (h_round W m h) as [h' go]. cbn [fst] in R. destruct go; auto.
Qed.

Lemma hstep_I m r h o : I h -> I (hstep W m r h o).
Proof.
  intros HI. destruct o; cbn [HasStates.hstep].
  - unfold I, HasStates.h_start. cbn [idle own late]. rewrite HA. split; [apply HI|reflexivity].
  - destruct (is_active (core h)); [|exact HI]. split; [reflexivity|]. cbn [late HasStates.h_stop]. apply HI.
  - pose proof (h_outer_I m r h HI) as H. exact H.
Qed.

Theorem idle_is_own_final m r ops : I (hrun W m r ops).
Proof.
  unfold HasStates.hrun.
  assert (H0 : I (hs0 C)) by (split; reflexivity).
  revert H0. generalize (hs0 C). induction ops as [|o ops IH]; intros h H; cbn [fold_left]; [exact H|].
  apply IH. apply hstep_I. exact H.
Qed.

(* after a run has finished the reported status is that run's own final status *)
Theorem status_is_own_final m r ops :
  let h := hrun W m r ops in
  late h = false -> is_active (core h) = false -> pending_start (core h) = false -> st h = own h.
Proof.
  intros h L A P. pose proof (inactive_status_is_final m r ops L A P) as HK.
  pose proof (idle_is_own_final m r ops) as [HI _]. fold h in HK, HI. rewrite HI in HK. exact HK.
Qed.

(* ... without the exception when stop_machine is only called between cycles *)
Theorem status_is_own_final_no_stop_at_hooks m r ops :
  NS -> let h := hrun W m r ops in
  is_active (core h) = false -> pending_start (core h) = false -> st h = own h.
Proof.
  intros N h A P. apply status_is_own_final; [|exact A|exact P].
  destruct (idle_is_own_final m r ops) as [_ L]. apply L. exact N.
Qed.

End Proofs.
