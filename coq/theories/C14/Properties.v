Require Import FV.Gen.C14 FV.C14.Model.
Theorem C14_placeholder : outer_rounds = 2. Proof. reflexivity. Qed.
Print Assumptions C14_placeholder.
