(* C14 — property theorems only; each is closed by a lemma of Lemmas.v.  W ranges over every behaviour
   program of state/cleanup functions and every interference (start/stop posted at any hook), ops over
   every history of cycle/start/stop. *)
From Coq Require Import List Arith ZArith Bool Lia.
Import ListNotations.
Require Import FV.Gen.C14 FV.C14.Model FV.C14.Lemmas FV.C14.HasStates FV.C14.HasStatesLemmas FV.C14.Conc FV.C14.ConcLemmas.

(* obligations on the facts regenerated from /repo (Gen/C14.v) *)
Theorem C14_source_facts :
  inner_loop_is_range_maxloops = true /\ cleanup_swap_under_lock = true /\ task_pickup_under_lock = true /\
  start_only_posts = true /\ stop_only_posts = true /\ 0 < maxloops /\ 0 < outer_rounds /\
  hasstates_shapes = true /\ start_resets_idle_status = true /\ start_assigns_idle_status = false /\
  pickup_reads_under_lock = true /\ next_task_written_only_by_start_stop_cycle = true /\
  (status_idle < status_busy)%Z /\ (status_busy < status_error)%Z.
Proof. repeat split; try reflexivity; apply Nat.ltb_lt; reflexivity. Qed.

(* one cycle makes at most outer_rounds*maxloops state calls and outer_rounds cleanup calls; being a total
   function of the model it always returns *)
Theorem C14_cycle_bounded : forall W s,
  ncalls (cycle W maxloops outer_rounds s) <= ncalls s + outer_rounds * maxloops /\
  ncleanups (cycle W maxloops outer_rounds s) <= ncleanups s + outer_rounds.
Proof. intros; apply cycle_bounded. Qed.

(* every state call is made on the state of the last transition and sees init = "first call since that transition" *)
Theorem C14_init_flag : forall W ops, sok (trace (run W maxloops outer_rounds ops)) = true.
Proof. intros; apply init_flag_exact. Qed.

(* per run: a start/stop interruption only as first interruption (a cleanup sequence is never interrupted),
   the cleanup function at most once and right after the first interruption, and always then if one was installed *)
Theorem C14_cleanup_exactly_once : forall W ops,
  cok (trace (run W maxloops outer_rounds ops)) = true /\ need (trace (run W maxloops outer_rounds ops)) = false.
Proof. intros; apply cleanup_exactly_once. Qed.

(* the latest of several requests is the pending one *)
Theorem C14_posts_last_wins : forall W ts t s,
  next_task (fold_left (step W maxloops outer_rounds) (map OPost (ts ++ [t])) s) = Some t.
Proof. intros; apply posts_last_wins. Qed.

(* the pending start is entered with exactly its attributes and cleanup, from an idle machine, as soon as a
   cleanup sequence in progress has finished (no interference in this round) *)
Theorem C14_last_start_wins : forall W ops i f cl kw,
  quiet W -> let s := run W maxloops outer_rounds ops in
  next_task s = Some (TStart i f cl kw) ->
  let '(s', go) := round W maxloops s in
  if go then statefunc s' = Some f /\ init s' = true /\ next_task s' = None /\ cleanup_reason s' = None /\
             cleanup s' = option_map (fun c => (i, c)) cl /\ attrs s' = upd_all kw (attrs s)
  else next_task s' = Some (TStart i f cl kw) /\ statefunc s' <> None /\ cleanup_reason s' <> None.
Proof.
  intros W ops i f cl kw Q s Hn. apply start_wins; [exact Q|apply C14_source_facts|apply RInv_reachable|exact Hn].
Qed.

Theorem C14_attrs_exact : forall k v kw1 kw2 l,
  ~ In k (map fst kw2) -> lookup k (upd_all (kw1 ++ (k, v) :: kw2) l) = Some v.
Proof. intros; apply lookup_upd_all_last; assumption. Qed.
Theorem C14_attrs_frame : forall k kw l, ~ In k (map fst kw) -> lookup k (upd_all kw l) = lookup k l.
Proof. intros; apply lookup_upd_all_notin; assumption. Qed.

Theorem C14_stop_inactive : forall W ops i,
  quiet W -> let s := run W maxloops outer_rounds ops in
  next_task s = Some (TStop i) ->
  let '(s', go) := round W maxloops s in
  if go then statefunc s' = None /\ next_task s' = None /\ cleanup_reason s' = None /\ attrs s' = attrs s
  else next_task s' = Some (TStop i) /\ statefunc s' <> None /\ cleanup_reason s' <> None.
Proof.
  intros W ops i Q s Hn. apply stop_makes_inactive; [exact Q|apply C14_source_facts|apply RInv_reachable|exact Hn].
Qed.

(* ---- two real threads: the cycling thread picks a request up (test of next_task; acquire the lock; read; clear;
   release) while a second thread runs start()/stop() (acquire; write; release), every line an atomic step, for EVERY
   schedule (list of who moves next; a thread waiting for the lock does not move).  pickup_reads_under_lock is the fact
   read off StateMachine.cycle: the value of `action` is read inside `with self._lock` together with the clearing. *)
Theorem C14_no_request_lost : forall sched,
  no_request_lost (crun pickup_reads_under_lock sched).
Proof. intros; apply no_request_lost_all_schedules. Qed.

(* the same statement unfolded: a request written to next_task is taken by the cycling thread, or still pending, or
   followed by a later request *)
Theorem C14_no_request_lost_explicit : forall sched later t earlier,
  c_posted (crun pickup_reads_under_lock sched) = later ++ t :: earlier ->
  In t (c_picked (crun pickup_reads_under_lock sched)) \/ c_nt (crun pickup_reads_under_lock sched) = Some t \/ later <> [].
Proof. intros sched later t earlier. apply no_request_lost_all_schedules. Qed.

Theorem C14_picked_requests_were_posted : forall sched t,
  In t (c_picked (crun pickup_reads_under_lock sched)) -> In t (c_posted (crun pickup_reads_under_lock sched)).
Proof. intros sched t; apply picked_were_posted. Qed.

Theorem C14_pending_request_is_newest : forall sched t,
  c_nt (crun pickup_reads_under_lock sched) = Some t -> exists l, c_posted (crun pickup_reads_under_lock sched) = t :: l.
Proof. intros sched t; apply pending_is_newest. Qed.

(* the sequential model of the theorems above is one of these schedules: the hook at the acquisition of the lock in
   Model.pickup = the second thread runs a complete start()/stop() between the test and the acquisition *)
Theorem C14_model_pickup_is_a_schedule : forall W s t0,
  next_task s = Some t0 ->
  let c' := fold_left (cstep pickup_reads_under_lock)
                      (LCycle :: env_post W s ++ [LCycle; LCycle; LCycle; LCycle]) (cinit (next_task s)) in
  exists t, next_task (hook W s) = Some t /\ c_picked c' = [t] /\ c_nt c' = None /\ c_lock c' = None /\ c_cyc c' = COut /\
            exists b, In (EvPickup (task_id t) b) (trace (pickup W s)).
Proof. intros W s t0. apply model_pickup_is_a_schedule. Qed.

(* ---- the HasStates layer (frappy/states.py): status of a module built on the state machine.
   scode: the status code attached to each state function (@status_code), all of them busy codes or none;
   start_machine / stop_machine / cycle_machine issued between cycles AND start_machine / stop_machine at every hook
   inside a cycle (body of a state function, body of a cleanup function, transition callback, time.time(), the
   acquisitions of the lock): what the world posts at hook n is such a call; guarded W: a stop request at a hook comes
   from stop_machine (if sm.is_active: ...).  Any behaviour program, any cleanup functions. *)
Definition gcodes : codes := {| c_idle := status_idle; c_busy := status_busy; c_error := status_error |}.
Definition guarded (W : world) : Prop := forall n, w_guard W n = true.

(* the machine inside the layer is exactly the state machine of the theorems above *)
Theorem C14_layer_runs_the_core_machine : forall scode W h o,
  core (hstep gcodes scode start_resets_idle_status start_assigns_idle_status W maxloops outer_rounds h o) =
  match o with
  | HStart tid f cl kw => post (core h) (TStart tid f (Some cl) kw)
  | HStop tid => if is_active (core h) then post (core h) (TStop tid) else core h
  | HCycle => cycle W maxloops outer_rounds (core h)
  end.
Proof. intros. apply core_hstep. Qed.

(* busy from the start request until the machine has finished: after every history, while a state is set or a
   start request is pending the reported status code is a busy code *)
Theorem C14_status_busy_while_running : forall scode W ops,
  guarded W ->
  (forall f c, scode f = Some c -> busyb gcodes c = true) ->
  J gcodes (hrun gcodes scode start_resets_idle_status start_assigns_idle_status W maxloops outer_rounds ops).
Proof. intros scode W ops Q Hsc. apply busy_while_running; [exact Q|exact Hsc|reflexivity]. Qed.

(* ... and its final or stopped status afterwards.  Full statement (refuted, Refuted.v, finding C14/stop-while-finishing):
     forall scode W ops, guarded W -> let h := hrun ... ops in
       is_active (core h) = false -> pending_start (core h) = false -> st h = idle_or_default gcodes (idle h)
   Proved with the guard late h = false: no stop_machine took effect inside the transition callback of a finishing
   transition since the last start request (K unfolds to exactly this implication). *)
Theorem C14_status_final_when_inactive_except_stop_while_finishing : forall scode W ops,
  guarded W ->
  K gcodes (hrun gcodes scode start_resets_idle_status start_assigns_idle_status W maxloops outer_rounds ops).
Proof. intros scode W ops Q. apply inactive_status_is_final. exact Q. Qed.

(* after a run has finished the reported status is that run's OWN final status (own: what the run itself set through
   final_status, its error handler or a stop request during it, default (IDLE, '')) - never one written by an earlier
   run.  start_machine may come at any hook and between cycles, stop_machine between cycles. *)
Theorem C14_status_is_own_final_status : forall scode W ops,
  guarded W -> (forall n i, w_env W n <> Some (TStop i)) ->
  let h := hrun gcodes scode start_resets_idle_status start_assigns_idle_status W maxloops outer_rounds ops in
  is_active (core h) = false -> pending_start (core h) = false -> st h = own h.
Proof.
  intros scode W ops Q N. apply status_is_own_final_no_stop_at_hooks; [exact Q|reflexivity|reflexivity|exact N].
Qed.

(* ... and with stop_machine at hooks as well, except for the finding *)
Theorem C14_status_is_own_final_status_except_stop_while_finishing : forall scode W ops,
  guarded W ->
  let h := hrun gcodes scode start_resets_idle_status start_assigns_idle_status W maxloops outer_rounds ops in
  late h = false -> is_active (core h) = false -> pending_start (core h) = false -> st h = own h.
Proof. intros scode W ops Q. apply status_is_own_final; [exact Q|reflexivity|reflexivity]. Qed.

(* the final status of an earlier run is not inherited (repaired by ceac852): error in run 1, plain Finish in run 2 *)
Definition hsW : world :=
  {| w_s := fun n => if Nat.ltb n 7 then BRaise else BFinish; w_c := fun _ => CNone; w_env := fun _ => None;
     w_guard := fun _ => true |}.
Example C14_status_not_inherited :
  let h1 := hrun gcodes (fun _ => None) start_resets_idle_status start_assigns_idle_status hsW maxloops outer_rounds
              [HStart 0 0 0 []; HCycle] in
  let h2 := hrun gcodes (fun _ => None) start_resets_idle_status start_assigns_idle_status hsW maxloops outer_rounds
              [HStart 0 0 0 []; HCycle; HStart 2 0 0 []; HCycle] in
  fst (st h1) = status_error /\ is_active (core h1) = false /\
  st h2 = (status_idle, TEmpty) /\ is_active (core h2) = false.
Proof. vm_compute. repeat split; reflexivity. Qed.

(* non-vacuity: a history in which a run with a cleanup is interrupted by a restart, the cleanup continues with a
   cleanup state, and the restart is taken afterwards *)
Definition demoW : world :=
  {| w_s := fun n => if Nat.ltb n 6 then BRetry else if Nat.ltb n 10 then BFinish else BRetry;
     w_c := fun _ => CNext 7;
     w_env := fun _ => None; w_guard := fun _ => false |}.
Definition demo_ops := [OPost (TStart 0 1 (Some 5) [(0, 4%Z)]); OCycle; OPost (TStart 2 2 None []); OCycle; OCycle].
Example C14_demo :
  rev (trace (run demoW maxloops outer_rounds demo_ops)) =
  [EvPickup 0 true; EvTrans false (Some 1); EvCall 1 true;
   EvInt 1; EvCleanup 0 5 1; EvTrans true (Some 7); EvCall 7 true; EvTrans true None;
   EvPickup 2 false; EvTrans false (Some 2); EvCall 2 true; EvCall 2 false].
Proof. vm_compute. reflexivity. Qed.

(* non-vacuity of the two-thread system: start(A) and stop() complete, then a full pick-up: the stop is taken, A was
   superseded; and a schedule in which the second thread has to wait for the lock held by the cycling thread *)
Definition tA : task := TStart 0 1 None [].
Definition tB : task := TStop 1.
Example C14_conc_demo :
  let c := crun pickup_reads_under_lock (post_steps tA ++ post_steps tB ++ [LCycle; LCycle; LCycle; LCycle; LCycle]) in
  c_posted c = [tB; tA] /\ c_picked c = [tB] /\ c_nt c = None /\ c_lock c = None.
Proof. vm_compute. repeat split; reflexivity. Qed.
Example C14_conc_demo_blocked :
  let c := crun pickup_reads_under_lock
             (post_steps tA ++ [LCycle; LCycle; LPost tB; LPost tB; LPost tB; LCycle; LCycle; LCycle; LPost tB; LPost tB; LPost tB]) in
  c_posted c = [tB; tA] /\ c_picked c = [tA] /\ c_nt c = Some tB /\ c_lock c = None.
Proof. vm_compute. repeat split; reflexivity. Qed.

Print Assumptions C14_source_facts.
Print Assumptions C14_cycle_bounded.
Print Assumptions C14_init_flag.
Print Assumptions C14_cleanup_exactly_once.
Print Assumptions C14_posts_last_wins.
Print Assumptions C14_last_start_wins.
Print Assumptions C14_attrs_exact.
Print Assumptions C14_attrs_frame.
Print Assumptions C14_stop_inactive.
Print Assumptions C14_layer_runs_the_core_machine.
Print Assumptions C14_status_busy_while_running.
Print Assumptions C14_status_final_when_inactive_except_stop_while_finishing.
Print Assumptions C14_status_is_own_final_status.
Print Assumptions C14_status_is_own_final_status_except_stop_while_finishing.
Print Assumptions C14_no_request_lost.
Print Assumptions C14_no_request_lost_explicit.
Print Assumptions C14_picked_requests_were_posted.
Print Assumptions C14_pending_request_is_newest.
Print Assumptions C14_model_pickup_is_a_schedule.
