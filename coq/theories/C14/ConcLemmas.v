(* C14 — no posted request is lost by the pick-up, for every schedule of the two threads *)
From Coq Require Import List Arith ZArith Bool Lia.
Import ListNotations.
Require Import FV.C14.Model FV.C14.Lemmas FV.C14.Conc.

Definition holds_c (p : cpc) : bool := match p with CHeld _ | CRead _ | CCleared => true | _ => false end.
Definition holds_p (p : ppc) : bool := match p with PHeld _ | PWritten => true | _ => false end.
Definition lock_is (w : who) (s : cst) : bool :=
  match c_lock s, w with Some Cycler, Cycler | Some Poster, Poster => true | _, _ => false end.

(* lock discipline + the value read under the lock is still there when it is cleared + the newest request is
   pending or taken + only posted requests are pending or taken *)
Definition CI (s : cst) : Prop :=
  holds_c (c_cyc s) = lock_is Cycler s /\
  holds_p (c_pos s) = lock_is Poster s /\
  (forall a, c_cyc s = CRead a -> c_nt s = a) /\
  match c_posted s with [] => c_nt s = None | t :: _ => c_nt s = Some t \/ (c_nt s = None /\ In t (c_picked s)) end /\
  (forall t, In t (c_picked s) -> In t (c_posted s)).

Lemma CI_c0 : CI c0.
Proof. unfold CI; cbn. repeat split; try discriminate; intros; contradiction. Qed.

Lemma cycler_step_CI s : CI s -> CI (cycler_step true s).
Proof.
  destruct s as [nt lk cyc pos posted picked]. unfold CI, cycler_step, lock_is, set_cyc. cbn.
  intros (D1 & D2 & R & N & P).
  destruct cyc as [|a|a|a|]; cbn in *.
  - destruct nt; cbn; repeat split; auto; intros; discriminate.
  - destruct lk as [[|]|]; cbn in *; repeat split; auto; intros; discriminate.
  - repeat split; auto. intros a' [= <-]. reflexivity.
  - pose proof (R a eq_refl) as Ra. subst a.
    repeat split; auto; try (intros; discriminate).
    + destruct posted as [|t l]; [reflexivity|]. right. split; [reflexivity|].
      destruct N as [N|[N1 N2]]; [subst nt; left; reflexivity|subst nt; exact N2].
    + intros t Ht. destruct nt as [t'|]; [|apply P; exact Ht].
      destruct Ht as [<-|Ht]; [|apply P; exact Ht].
      destruct posted as [|t0 l]; [discriminate|].
      destruct N as [N|[N1 N2]]; [injection N as <-; left; reflexivity|discriminate].
  - destruct lk as [[|]|]; cbn in *; try discriminate. repeat split; auto. intros; discriminate.
Qed.

Lemma poster_step_CI s t : CI s -> CI (poster_step s t).
Proof.
  destruct s as [nt lk cyc pos posted picked]. unfold CI, poster_step, lock_is, set_pos. cbn.
  intros (D1 & D2 & R & N & P).
  destruct pos as [|t'|t'|]; cbn in *.
  - repeat split; auto.
  - destruct lk as [[|]|]; cbn in *; repeat split; auto.
  - destruct lk as [[|]|]; cbn in *; try discriminate.
    repeat split; auto; try (intros a Ha; subst cyc; discriminate).
  - destruct lk as [[|]|]; cbn in *; try discriminate. repeat split; auto.
Qed.

Lemma cstep_CI s l : CI s -> CI (cstep true s l).
Proof. destruct l; cbn [cstep]; [apply cycler_step_CI|apply poster_step_CI]. Qed.

Lemma crun_CI sched : CI (crun true sched).
Proof.
  unfold crun. assert (H : CI c0) by apply CI_c0. revert H. generalize c0.
  induction sched as [|l sched IH]; intros s H; cbn [fold_left]; [exact H|]. apply IH, cstep_CI, H.
Qed.

Theorem no_request_lost_all_schedules sched : no_request_lost (crun true sched).
Proof.
  destruct (crun_CI sched) as (_ & _ & _ & N & _). intros l1 t l2 E.
  destruct l1 as [|x l1]; [|right; right; discriminate].
  cbn in E. rewrite E in N. destruct N as [N|[_ N]]; auto.
Qed.

(* what is taken has been posted, and what is pending is the newest request *)
Theorem picked_were_posted sched t : In t (c_picked (crun true sched)) -> In t (c_posted (crun true sched)).
Proof. destruct (crun_CI sched) as (_ & _ & _ & _ & P). apply P. Qed.

Theorem pending_is_newest sched t :
  c_nt (crun true sched) = Some t -> exists l, c_posted (crun true sched) = t :: l.
Proof.
  destruct (crun_CI sched) as (_ & _ & _ & N & _). intros E. destruct (c_posted (crun true sched)) as [|t0 l].
  - rewrite N in E. discriminate.
  - destruct N as [N|[N _]]; rewrite N in E; [injection E as <-; eauto|discriminate].
Qed.

(* ------------------------------------------------------------------ the sequential model is one of the schedules *)
(* Model.pickup with a request pending: the hook at the acquisition of the lock = the second thread runs a complete
   start()/stop() between the test and the acquisition; what Model.pickup takes is what the two-thread system takes *)
Definition cinit (nt : option task) : cst :=
  {| c_nt := nt; c_lock := None; c_cyc := COut; c_pos := PIdle; c_posted := []; c_picked := [] |}.

Definition env_post (W : world) (s : sm) : list clabel :=
  match w_env W (ctr s) with
  | Some t => if suppressed W (ctr s) t s then [] else post_steps t
  | None => []
  end.

Lemma model_pickup_is_a_schedule W s t0 :
  next_task s = Some t0 ->
  let c' := fold_left (cstep true) (LCycle :: env_post W s ++ [LCycle; LCycle; LCycle; LCycle]) (cinit (next_task s)) in
  exists t, next_task (hook W s) = Some t /\ c_picked c' = [t] /\ c_nt c' = None /\ c_lock c' = None /\ c_cyc c' = COut /\
            exists b, In (EvPickup (task_id t) b) (trace (pickup W s)).
Proof.
  intros E. unfold pickup. rewrite E. unfold env_post, hook, pickup_locked.
  destruct (w_env W (ctr s)) as [t|] eqn:Ew.
  - destruct (suppressed W (ctr s) t s).
    + cbn. rewrite E. cbn. exists t0. repeat split; auto.
      destruct t0 as [i f cl kw|i]; cbn; eexists; [rewrite hook_trace; cbn; auto|auto].
    + cbn. rewrite E. cbn. exists t. repeat split; auto.
      destruct t as [i f cl kw|i]; cbn; eexists; [rewrite hook_trace; cbn; auto|auto].
  - cbn. rewrite E. cbn. exists t0. repeat split; auto.
    destruct t0 as [i f cl kw|i]; cbn; eexists; [rewrite hook_trace; cbn; auto|auto].
Qed.
