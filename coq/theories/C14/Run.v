(* C14 — correspondence driver: a case carries the scripts, the op history and what the
   implementation did; check_case re-runs the model and compares. *)
From Coq Require Import List Arith ZArith Bool.
Import ListNotations.
Require Import FV.Base.Util FV.Gen.C14 FV.C14.Model.

Definition sbeh_eqb (a b : sbeh) : bool :=
  match a, b with
  | BNext f, BNext g => Nat.eqb f g | BRetry, BRetry | BFinish, BFinish
  | BNonCallable, BNonCallable | BRaise, BRaise => true | _, _ => false end.

Definition event_eqb (a b : event) : bool :=
  match a, b with
  | EvCall f i, EvCall g j => Nat.eqb f g && Bool.eqb i j
  | EvCleanup o c r, EvCleanup o' c' r' => Nat.eqb o o' && Nat.eqb c c' && Nat.eqb r r'
  | EvInt r, EvInt r' => Nat.eqb r r'
  | EvTrans a f, EvTrans a' f' => Bool.eqb a a' && opt_eqb Nat.eqb f f'
  | EvPickup i a, EvPickup j b => Nat.eqb i j && Bool.eqb a b
  | _, _ => false
  end.

Definition observable (e : event) : bool := match e with EvPickup _ _ => false | _ => true end.

Record obs := {
  o_events : list event;          (* chronological, observable events of this op *)
  o_sf : option sid;
  o_nt : option nat;              (* id of the pending task *)
  o_cl : option (nat * cid);
  o_rc : option nat;
  o_init : bool;
  o_attrs : list (nat * option Z);
}.

Record case := {
  c_s : list (nat * sbeh);
  c_c : list (nat * cbeh);
  c_env : list (nat * task);
  c_ops : list op;
  c_obs : list obs;
}.

Definition mk_world (c : case) : world :=
  {| w_s := fun n => match assoc_nat n (c_s c) with Some b => b | None => BRetry end;
     w_c := fun n => match assoc_nat n (c_c c) with Some b => b | None => CNone end;
     w_env := fun n => assoc_nat n (c_env c) |}.

Definition obs_ok (before after : sm) (o : obs) : bool :=
  let n := length (trace after) - length (trace before) in
  let evs := filter observable (rev (firstn n (trace after))) in
  list_eqb event_eqb evs (o_events o)
  && opt_eqb Nat.eqb (statefunc after) (o_sf o)
  && opt_eqb Nat.eqb (option_map task_id (next_task after)) (o_nt o)
  && opt_eqb (pair_eqb Nat.eqb Nat.eqb) (cleanup after) (o_cl o)
  && opt_eqb Nat.eqb (option_map reason_code (cleanup_reason after)) (o_rc o)
  && Bool.eqb (init after) (o_init o)
  && forallb (fun kv => opt_eqb Z.eqb (lookup (fst kv) (attrs after)) (snd kv)) (o_attrs o).

Fixpoint run_check (W : world) (s : sm) (ops : list op) (os : list obs) : bool :=
  match ops, os with
  | [], [] => true
  | o :: ops', ob :: os' =>
      let s' := step W maxloops outer_rounds s o in
      obs_ok s s' ob && run_check W s' ops' os'
  | _, _ => false
  end.

Definition check_case (c : case) : bool := run_check (mk_world c) sm0 (c_ops c) (c_obs c).

(* what the model does, for diagnosis in replay files *)
Definition model_trace (c : case) : list event :=
  rev (trace (run (mk_world c) maxloops outer_rounds (c_ops c))).
