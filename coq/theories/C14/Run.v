(* C14 — correspondence driver: a case carries the scripts, the op history and what the
   implementation did; check_case re-runs the model and compares. *)
From Coq Require Import List Arith ZArith Bool.
Import ListNotations.
Require Import FV.Base.Util FV.Gen.C14 FV.C14.Model.

Definition sbeh_eqb (a b : sbeh) : bool :=
  match a, b with
  | BNext f, BNext g => Nat.eqb f g | BRetry, BRetry | BFinish, BFinish
  | BNonCallable, BNonCallable | BRaise, BRaise => true | BFinal c, BFinal c' => Z.eqb c c' | _, _ => false end.

Definition event_eqb (a b : event) : bool :=
  match a, b with
  | EvCall f i, EvCall g j => Nat.eqb f g && Bool.eqb i j
  | EvCleanup o c r, EvCleanup o' c' r' => Nat.eqb o o' && Nat.eqb c c' && Nat.eqb r r'
  | EvInt r, EvInt r' => Nat.eqb r r'
  | EvTrans a f, EvTrans a' f' => Bool.eqb a a' && opt_eqb Nat.eqb f f'
  | EvPickup i a, EvPickup j b => Nat.eqb i j && Bool.eqb a b
  | EvFinal c, EvFinal c' => Z.eqb c c'
  | _, _ => false
  end.

Definition observable (e : event) : bool := match e with EvPickup _ _ => false | _ => true end.

Record obs := {
  o_events : list event;          (* chronological, observable events of this op *)
  o_sf : option sid;
  o_nt : option nat;              (* id of the pending task *)
  o_cl : option (nat * cid);
  o_rc : option nat;
  o_init : bool;
  o_attrs : list (nat * option Z);
}.

Record case := {
  c_s : list (nat * sbeh);
  c_c : list (nat * cbeh);
  c_env : list (nat * task);
  c_ops : list op;
  c_obs : list obs;
}.

Definition mk_world (c : case) : world :=
  {| w_s := fun n => match assoc_nat n (c_s c) with Some b => b | None => BRetry end;
     w_c := fun n => match assoc_nat n (c_c c) with Some b => b | None => CNone end;
     w_env := fun n => assoc_nat n (c_env c);
     w_guard := fun _ => false |}.             (* sm.stop() is called directly *)

Definition obs_ok (before after : sm) (o : obs) : bool :=
  let n := length (trace after) - length (trace before) in
  let evs := filter observable (rev (firstn n (trace after))) in
  list_eqb event_eqb evs (o_events o)
  && opt_eqb Nat.eqb (statefunc after) (o_sf o)
  && opt_eqb Nat.eqb (option_map task_id (next_task after)) (o_nt o)
  && opt_eqb (pair_eqb Nat.eqb Nat.eqb) (cleanup after) (o_cl o)
  && opt_eqb Nat.eqb (option_map reason_code (cleanup_reason after)) (o_rc o)
  && Bool.eqb (init after) (o_init o)
  && forallb (fun kv => opt_eqb Z.eqb (lookup (fst kv) (attrs after)) (snd kv)) (o_attrs o).

Fixpoint run_check (W : world) (s : sm) (ops : list op) (os : list obs) : bool :=
  match ops, os with
  | [], [] => true
  | o :: ops', ob :: os' =>
      let s' := step W maxloops outer_rounds s o in
      obs_ok s s' ob && run_check W s' ops' os'
  | _, _ => false
  end.

Definition check_case (c : case) : bool := run_check (mk_world c) sm0 (c_ops c) (c_obs c).

(* what the model does, for diagnosis in replay files *)
Definition model_trace (c : case) : list event :=
  rev (trace (run (mk_world c) maxloops outer_rounds (c_ops c))).

(* ------------------------------------------------------------------ HasStates layer cases *)
Require Import FV.C14.HasStates.

Definition text_code_eqb (a b : text) : bool := text_eqb a b.
Definition status_eqb (a b : status) : bool := Z.eqb (fst a) (fst b) && text_eqb (snd a) (snd b).

Record hobs := {
  ho_st : status;
  ho_idle : option status;
  ho_log : list status;            (* values returned by read_status during this op, chronological *)
  ho_sf : option sid;
  ho_nt : option nat;
}.

Record hcase := {
  h_s : list (nat * sbeh);
  h_c : list (nat * cbeh);          (* what the cleanup function called at hook n returned (on_cleanup: None) *)
  h_env : list (nat * task);        (* start_machine / an effective stop_machine call at hook n *)
  h_scode : list (sid * Z);
  h_ops : list hop;
  h_obs : list hobs;
}.

Definition hworld (c : hcase) : world :=
  {| w_s := fun n => match assoc_nat n (h_s c) with Some b => b | None => BRetry end;
     w_c := fun n => match assoc_nat n (h_c c) with Some b => b | None => CNone end;
     w_env := fun n => assoc_nat n (h_env c);
     w_guard := fun _ => true |}.    (* stop_machine: only when active *)

Definition gcodes : codes := {| c_idle := status_idle; c_busy := status_busy; c_error := status_error |}.

Definition hobs_ok (before after : hs) (o : hobs) : bool :=
  status_eqb (st after) (ho_st o)
  && opt_eqb status_eqb (idle after) (ho_idle o)
  && list_eqb status_eqb (rev (firstn (length (log after) - length (log before)) (log after))) (ho_log o)
  && opt_eqb Nat.eqb (statefunc (core after)) (ho_sf o)
  && opt_eqb Nat.eqb (option_map task_id (next_task (core after))) (ho_nt o).

Fixpoint hrun_check (c : hcase) (h : hs) (ops : list hop) (os : list hobs) : bool :=
  match ops, os with
  | [], [] => true
  | o :: ops', ob :: os' =>
      let h' := hstep gcodes (fun f => assoc_nat f (h_scode c)) start_resets_idle_status start_assigns_idle_status (hworld c) maxloops outer_rounds h o in
      hobs_ok h h' ob && hrun_check c h' ops' os'
  | _, _ => false
  end.

Definition check_hcase (c : hcase) : bool := hrun_check c (hs0 gcodes) (h_ops c) (h_obs c).

Inductive anycase := CCore (c : case) | CHs (c : hcase).
Definition check_any (a : anycase) : bool :=
  match a with CCore c => check_case c | CHs c => check_hcase c end.

Definition hmodel_status (c : hcase) : list status :=
  rev (log (hrun gcodes (fun f => assoc_nat f (h_scode c)) start_resets_idle_status start_assigns_idle_status (hworld c) maxloops outer_rounds (h_ops c))).

(* per-op view of the model, for diagnosis *)
Fixpoint hmodel_steps_from (c : hcase) (h : hs) (ops : list hop) : list (status * option status * list status * option sid * option nat) :=
  match ops with
  | [] => []
  | o :: ops' =>
      let h' := hstep gcodes (fun f => assoc_nat f (h_scode c)) start_resets_idle_status start_assigns_idle_status (hworld c) maxloops outer_rounds h o in
      (st h', idle h', rev (firstn (length (log h') - length (log h)) (log h')), statefunc (core h'),
       option_map task_id (next_task (core h'))) :: hmodel_steps_from c h' ops'
  end.
Definition hmodel_steps (c : hcase) := hmodel_steps_from c (hs0 gcodes) (h_ops c).
