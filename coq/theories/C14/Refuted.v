(* C14 — witnesses (vm_compute): one genuine defect of the pinned tree, and two variants of the code that the
   regenerated source facts exclude. *)
From Coq Require Import List Arith ZArith Bool.
Import ListNotations.
Require Import FV.Gen.C14 FV.C14.Model FV.C14.HasStates FV.C14.HasStatesLemmas FV.C14.Conc.

Definition gcodes : codes := {| c_idle := status_idle; c_busy := status_busy; c_error := status_error |}.

(* ---- finding C14/stop-while-finishing (open): stop_machine() takes effect while the machine is inside the
   transition callback of its finishing transition (sm.is_active is still true there: same thread from the callback,
   or a second thread at that moment).  The machine becomes inactive, the Stop request is taken from an inactive
   machine without any status update, and the module keeps reporting (<code>, 'stopping') - with the busy code of the
   state if it has one - instead of its stopped status (IDLE, 'stopped').
   History: start_machine(state 0); cycle_machine().  Hooks of the cycle: 0 lock (pick-up), 1 transition to state 0,
   2 time.time(), 3 body of state 0 (returns Finish), 4 transition to None <- stop_machine() here, 5 lock (pick-up). *)
Definition lateW : world :=
  {| w_s := fun _ => BFinish; w_c := fun _ => CNone;
     w_env := fun n => if Nat.eqb n 4 then Some (TStop 1004) else None;
     w_guard := fun _ => true |}.

Theorem C14_refuted_status_final_when_inactive :
  exists scode W ops,
    (forall n, w_guard W n = true) /\
    let h := hrun gcodes scode start_resets_idle_status start_assigns_idle_status W maxloops outer_rounds ops in
    is_active (core h) = false /\ pending_start (core h) = false /\ next_task (core h) = None /\
    idle h = Some (status_idle, TStopped) /\ own h = (status_idle, TStopped) /\
    st h = (status_idle, TStopping) /\ late h = true.
Proof.
  exists (fun _ => None), lateW, [HStart 0 0 0 []; HCycle]. split; [reflexivity|].
  vm_compute. repeat split; reflexivity.
Qed.

(* ---- variant excluded by the fact pickup_reads_under_lock: `action = self.next_task` read by the unlocked test,
   only the clearing under the lock.  Schedule: start(A) completely; the cycling thread tests and reads A; the second
   thread runs stop() completely; the cycling thread acquires the lock, clears next_task and takes A: the stop
   request is neither taken nor pending and nothing was posted after it. *)
Definition reqA : task := TStart 0 1 None [].
Definition reqB : task := TStop 1.
Definition lost_sched : list clabel :=
  post_steps reqA ++ [LCycle] ++ post_steps reqB ++ [LCycle; LCycle; LCycle; LCycle].

Theorem C14_refuted_read_outside_lock : exists sched, ~ no_request_lost (crun false sched).
Proof.
  exists lost_sched. intros H. specialize (H [] reqB [reqA]).
  assert (E : c_posted (crun false lost_sched) = [] ++ reqB :: [reqA]) by (vm_compute; reflexivity).
  specialize (H E). vm_compute in H. destruct H as [[H|[]]|[H|H]]; [discriminate H|discriminate H|apply H; reflexivity].
Qed.

(* the same schedule with the read under the lock: the stop request is the one taken *)
Example C14_same_schedule_with_locked_read :
  c_picked (crun true lost_sched) = [reqB] /\ c_nt (crun true lost_sched) = None.
Proof. vm_compute. split; reflexivity. Qed.

(* ---- variant excluded by the facts start_resets_idle_status / start_assigns_idle_status: start_machine assigns
   sm.idle_status = (IDLE, '') itself when it is called instead of passing it with the start request.
   History: run of state 0; during its second call (hook 5) start_machine(state 1) comes from a second thread, then the
   call returns final_status(200); run of state 1 finishes with plain Finish - and reports the status of the first run. *)
Definition inheritW : world :=
  {| w_s := fun n => if Nat.eqb n 3 then BRetry else if Nat.eqb n 5 then BFinal 200 else BFinish;
     w_c := fun _ => CNone;
     w_env := fun n => if Nat.eqb n 5 then Some (TStart 1005 1 (Some 0) []) else None;
     w_guard := fun _ => true |}.

Theorem C14_refuted_idle_status_assigned_at_call :
  exists scode W ops,
    (forall n, w_guard W n = true) /\ (forall n i, w_env W n <> Some (TStop i)) /\
    let h := hrun gcodes scode false true W maxloops outer_rounds ops in
    late h = false /\ is_active (core h) = false /\ pending_start (core h) = false /\
    own h = (status_idle, TEmpty) /\ st h = (200%Z, TFinal 200).
Proof.
  exists (fun _ => None), inheritW, [HStart 0 0 0 []; HCycle; HCycle; HCycle]. split; [reflexivity|]. split.
  - intros n i. unfold inheritW. cbn. destruct (Nat.eqb n 5); discriminate.
  - vm_compute. repeat split; reflexivity.
Qed.

(* the same history on the code as it is: the second run reports its own (default) final status *)
Example C14_same_history_as_built :
  let h := hrun gcodes (fun _ => None) start_resets_idle_status start_assigns_idle_status inheritW maxloops outer_rounds
             [HStart 0 0 0 []; HCycle; HCycle; HCycle] in
  is_active (core h) = false /\ st h = (status_idle, TEmpty) /\ own h = (status_idle, TEmpty).
Proof. vm_compute. repeat split; reflexivity. Qed.

Print Assumptions C14_refuted_status_final_when_inactive.
Print Assumptions C14_refuted_read_outside_lock.
Print Assumptions C14_refuted_idle_status_assigned_at_call.
