(* C14 — the pick-up of a posted request as a transition system of two threads.

   The cycling thread executes, at the end of a round of StateMachine.cycle,
       if self.next_task:                                      (test, outside the lock)
           with self._lock:                                    (acquire)
               action, self.next_task = self.next_task, None   (read, then clear)
                                                               (release)
   and a second thread executes start() / stop():
       with self._lock:                                        (acquire)
           self.next_task = Start(...) / Stop()                (write)
                                                               (release)
   Every line is a separate atomic step, so that the lock and not the granularity of the model is what makes the
   read-and-clear atomic.  A schedule is the list of "who moves next"; a thread that waits for the lock does not
   move.  [read_in_lock] = false is the variant in which the value of action is the one seen by the test
   (action = self.next_task; if action: with self._lock: self.next_task = None).
   Executable definitions only. *)
From Coq Require Import List Arith ZArith Bool.
Import ListNotations.
Require Import FV.C14.Model.

Inductive who := Cycler | Poster.

Inductive cpc :=
| COut                      (* not in the pick-up *)
| CWant (a : option task)   (* the test saw a request; a: what has been read into action so far *)
| CHeld (a : option task)   (* holds the lock *)
| CRead (a : option task)   (* action has its final value *)
| CCleared.                 (* next_task cleared, lock still held *)

Inductive ppc :=
| PIdle
| PWant (t : task)          (* inside start()/stop(), before the lock *)
| PHeld (t : task)          (* holds the lock *)
| PWritten.                 (* next_task written, lock still held *)

Record cst := {
  c_nt : option task;       (* StateMachine.next_task *)
  c_lock : option who;      (* holder of StateMachine._lock *)
  c_cyc : cpc;
  c_pos : ppc;
  c_posted : list task;     (* requests written to next_task, newest first *)
  c_picked : list task;     (* requests taken by the cycling thread (value of action when it clears), newest first *)
}.

Definition c0 : cst :=
  {| c_nt := None; c_lock := None; c_cyc := COut; c_pos := PIdle; c_posted := []; c_picked := [] |}.

(* who moves; a poster that is idle begins the request given with the label *)
Inductive clabel := LCycle | LPost (t : task).

Definition set_cyc (s : cst) (p : cpc) : cst :=
  {| c_nt := c_nt s; c_lock := c_lock s; c_cyc := p; c_pos := c_pos s; c_posted := c_posted s; c_picked := c_picked s |}.
Definition set_pos (s : cst) (p : ppc) : cst :=
  {| c_nt := c_nt s; c_lock := c_lock s; c_cyc := c_cyc s; c_pos := p; c_posted := c_posted s; c_picked := c_picked s |}.

Definition cycler_step (read_in_lock : bool) (s : cst) : cst :=
  match c_cyc s with
  | COut =>
      match c_nt s with
      | None => s
      | Some _ => set_cyc s (CWant (if read_in_lock then None else c_nt s))
      end
  | CWant a =>
      match c_lock s with
      | None => {| c_nt := c_nt s; c_lock := Some Cycler; c_cyc := CHeld a; c_pos := c_pos s;
                   c_posted := c_posted s; c_picked := c_picked s |}
      | Some _ => s                       (* blocked *)
      end
  | CHeld a => set_cyc s (CRead (if read_in_lock then c_nt s else a))
  | CRead a =>
      {| c_nt := None; c_lock := c_lock s; c_cyc := CCleared; c_pos := c_pos s; c_posted := c_posted s;
         c_picked := match a with Some t => t :: c_picked s | None => c_picked s end |}
  | CCleared =>
      {| c_nt := c_nt s; c_lock := None; c_cyc := COut; c_pos := c_pos s; c_posted := c_posted s; c_picked := c_picked s |}
  end.

Definition poster_step (s : cst) (t : task) : cst :=
  match c_pos s with
  | PIdle => set_pos s (PWant t)
  | PWant t' =>
      match c_lock s with
      | None => {| c_nt := c_nt s; c_lock := Some Poster; c_cyc := c_cyc s; c_pos := PHeld t';
                   c_posted := c_posted s; c_picked := c_picked s |}
      | Some _ => s                       (* blocked *)
      end
  | PHeld t' =>
      {| c_nt := Some t'; c_lock := c_lock s; c_cyc := c_cyc s; c_pos := PWritten;
         c_posted := t' :: c_posted s; c_picked := c_picked s |}
  | PWritten =>
      {| c_nt := c_nt s; c_lock := None; c_cyc := c_cyc s; c_pos := PIdle; c_posted := c_posted s; c_picked := c_picked s |}
  end.

Definition cstep (read_in_lock : bool) (s : cst) (l : clabel) : cst :=
  match l with
  | LCycle => cycler_step read_in_lock s
  | LPost t => poster_step s t
  end.

Definition crun (read_in_lock : bool) (sched : list clabel) : cst := fold_left (cstep read_in_lock) sched c0.

(* every request written to next_task is taken by the cycling thread, or still pending, or a LATER request has been
   written after it (l1 = the requests written after t) *)
Definition no_request_lost (s : cst) : Prop :=
  forall l1 t l2, c_posted s = l1 ++ t :: l2 -> In t (c_picked s) \/ c_nt s = Some t \/ l1 <> [].

(* the four steps of a complete start()/stop() of the second thread *)
Definition post_steps (t : task) : list clabel := [LPost t; LPost t; LPost t; LPost t].
