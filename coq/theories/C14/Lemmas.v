(* C14 — invariants of the state machine model, for every world (behaviour program + interference),
   every loop bound and every history. *)
From Coq Require Import List Arith ZArith Bool Lia.
Import ListNotations.
Require Import FV.Base.Util FV.C14.Model.

(* ------------------------------------------------------------------ frame lemmas *)
Ltac unf := unfold new_state, pickup, pickup_locked, do_cleanup, hook, post, emit, set_statefunc, set_next_task,
  set_cleanup, set_reason, set_init, set_attrs in *.

Ltac hookframe W s :=
  unfold hook, post, set_next_task; destruct (w_env W (ctr s)) as [t|]; [destruct (suppressed W (ctr s) t s)|]; reflexivity.

Lemma hook_trace W s : trace (hook W s) = trace s.
Proof. hookframe W s. Qed.
Lemma hook_cleanup W s : cleanup (hook W s) = cleanup s.
Proof. hookframe W s. Qed.
Lemma hook_init W s : init (hook W s) = init s.
Proof. hookframe W s. Qed.
Lemma hook_statefunc W s : statefunc (hook W s) = statefunc s.
Proof. hookframe W s. Qed.
Lemma hook_reason W s : cleanup_reason (hook W s) = cleanup_reason s.
Proof. hookframe W s. Qed.
Lemma hook_attrs W s : attrs (hook W s) = attrs s.
Proof. hookframe W s. Qed.
Lemma hook_next_task_quiet W s : w_env W (ctr s) = None -> next_task (hook W s) = next_task s.
Proof. unfold hook; intros ->; reflexivity. Qed.
Lemma hook_ctr W s : ctr (hook W s) = S (ctr s).
Proof. hookframe W s. Qed.

Lemma new_state_trace W s f : trace (new_state W s f) = EvTrans (active s) f :: trace s.
Proof. unfold new_state, active; cbn. rewrite hook_trace. reflexivity. Qed.
Lemma new_state_statefunc W s f : statefunc (new_state W s f) = f.
Proof. reflexivity. Qed.
Lemma new_state_init W s f : init (new_state W s f) = true.
Proof. reflexivity. Qed.
Lemma new_state_cleanup W s f : cleanup (new_state W s f) = cleanup s.
Proof. unfold new_state; cbn. rewrite hook_cleanup. reflexivity. Qed.
Lemma new_state_reason W s f : cleanup_reason (new_state W s f) = cleanup_reason s.
Proof. unfold new_state; cbn. rewrite hook_reason. reflexivity. Qed.
Lemma new_state_attrs W s f : attrs (new_state W s f) = attrs s.
Proof. unfold new_state; cbn. rewrite hook_attrs. reflexivity. Qed.

(* do_cleanup, characterised *)
Lemma do_cleanup_spec W s r :
  let '(s', ret) := do_cleanup W s r in
  statefunc s' = statefunc s /\ init s' = init s /\ attrs s' = attrs s /\ cleanup s' = None /\
  cleanup_reason s' = (match cleanup_reason s with None => Some r | Some x => Some x end) /\
  match cleanup s with
  | None => trace s' = EvInt (reason_code r) :: trace s /\ ret = None
  | Some (o, c) =>
      trace s' = EvCleanup o c (reason_code (match cleanup_reason s with None => r | Some x => x end))
                   :: EvInt (reason_code r) :: trace s
  end.
Proof.
  unfold do_cleanup.
  destruct (cleanup_reason s) eqn:Hr; cbn; rewrite ?Hr; cbn;
    (destruct (cleanup s) as [[o c]|] eqn:Hc; cbn; rewrite ?Hc; cbn;
     [ match goal with |- context [w_c W ?n] => destruct (w_c W n) end; cbn;
       rewrite ?hook_statefunc, ?hook_init, ?hook_attrs, ?hook_cleanup, ?hook_reason, ?hook_trace; cbn;
       rewrite ?hook_statefunc, ?hook_init, ?hook_attrs, ?hook_cleanup, ?hook_reason, ?hook_trace; cbn;
       rewrite ?Hr; auto 10
     | auto 10 ]).
Qed.

(* ------------------------------------------------------------------ 1. bounded work per cycle *)
Definition is_call (e : event) : bool := match e with EvCall _ _ => true | _ => false end.
Definition is_cleanup (e : event) : bool := match e with EvCleanup _ _ _ => true | _ => false end.
Definition ncalls (s : sm) : nat := length (filter is_call (trace s)).
Definition ncleanups (s : sm) : nat := length (filter is_cleanup (trace s)).
Definition has_cleanup (s : sm) : nat := match cleanup s with Some _ => 1 | None => 0 end.

Lemma do_cleanup_counts W s r :
  ncalls (fst (do_cleanup W s r)) = ncalls s /\
  ncleanups (fst (do_cleanup W s r)) + has_cleanup (fst (do_cleanup W s r)) = ncleanups s + has_cleanup s.
Proof.
  pose proof (do_cleanup_spec W s r) as H. destruct (do_cleanup W s r) as [s' ret]. cbn [fst].
  destruct H as (_ & _ & _ & Hc & _ & Ht). unfold ncalls, ncleanups, has_cleanup. rewrite Hc.
  destruct (cleanup s) as [[o c]|]; [rewrite Ht | destruct Ht as [Ht _]; rewrite Ht]; cbn; lia.
Qed.

Lemma new_state_counts W s f :
  ncalls (new_state W s f) = ncalls s /\ ncleanups (new_state W s f) = ncleanups s /\
  has_cleanup (new_state W s f) = has_cleanup s.
Proof.
  unfold ncalls, ncleanups, has_cleanup. rewrite new_state_trace, new_state_cleanup. cbn. auto.
Qed.

Lemma hook_counts W s :
  ncalls (hook W s) = ncalls s /\ ncleanups (hook W s) = ncleanups s /\ has_cleanup (hook W s) = has_cleanup s.
Proof. unfold ncalls, ncleanups, has_cleanup. rewrite hook_trace, hook_cleanup. auto. Qed.

Lemma emit_call_counts s f b :
  ncalls (emit s (EvCall f b)) = S (ncalls s) /\ ncleanups (emit s (EvCall f b)) = ncleanups s /\
  has_cleanup (emit s (EvCall f b)) = has_cleanup s.
Proof. unfold ncalls, ncleanups, has_cleanup, emit; cbn. auto. Qed.

Lemma set_init_counts s b :
  ncalls (set_init s b) = ncalls s /\ ncleanups (set_init s b) = ncleanups s /\
  has_cleanup (set_init s b) = has_cleanup s.
Proof. unfold ncalls, ncleanups, has_cleanup; cbn. auto. Qed.

Definition dstate (d : decision) : sm := match d with DRet s _ => s | DGo s => s end.

Lemma after_cleanup_counts W s r :
  ncalls (dstate (after_cleanup W (do_cleanup W s r))) = ncalls s /\
  ncleanups (dstate (after_cleanup W (do_cleanup W s r))) + has_cleanup (dstate (after_cleanup W (do_cleanup W s r)))
    = ncleanups s + has_cleanup s.
Proof.
  pose proof (do_cleanup_counts W s r) as [D1 D2]. unfold after_cleanup.
  destruct (do_cleanup W s r) as [s' [f|]]; cbn [fst snd dstate] in *.
  - pose proof (new_state_counts W s' (Some f)) as (N1 & N2 & N3). lia.
  - lia.
Qed.

Lemma turn_counts W s :
  ncalls (dstate (turn W s)) <= ncalls s + 1 /\
  ncleanups (dstate (turn W s)) + has_cleanup (dstate (turn W s)) <= ncleanups s + has_cleanup s.
Proof.
  unfold turn. pose proof (hook_counts W s) as (H1 & H2 & H3). set (s0 := hook W s) in *.
  assert (Hcall :
    let d := match statefunc s0 with
      | None => DRet s0 IBreak
      | Some f =>
          let n := ctr s0 in
          let s1 := hook W (emit s0 (EvCall f (init s0))) in
          match w_s W n with
          | BRetry => DRet (set_init s1 false) IReturn
          | BFinish => DRet (set_init s1 false) IBreak
          | BFinal c => DRet (set_init (emit s1 (EvFinal c)) false) IBreak
          | BNext g => DGo (new_state W (set_init s1 false) (Some g))
          | BNonCallable => after_cleanup W (do_cleanup W (set_init s1 false) RExc)
          | BRaise => after_cleanup W (do_cleanup W s1 RExc)
          end
      end in
    ncalls (dstate d) <= ncalls s + 1 /\
    ncleanups (dstate d) + has_cleanup (dstate d) <= ncleanups s + has_cleanup s).
  { destruct (statefunc s0) as [f|]; cbn zeta; [|cbn; lia].
    pose proof (emit_call_counts s0 f (init s0)) as (E1 & E2 & E3).
    pose proof (hook_counts W (emit s0 (EvCall f (init s0)))) as (K1 & K2 & K3).
    set (s1 := hook W (emit s0 (EvCall f (init s0)))) in *.
    pose proof (set_init_counts s1 false) as (I1 & I2 & I3).
    destruct (w_s W (ctr s0)); cbn [dstate].
    - pose proof (new_state_counts W (set_init s1 false) (Some f0)) as (N1 & N2 & N3). lia.
    - lia.
    - lia.
    - pose proof (after_cleanup_counts W (set_init s1 false) RExc). lia.
    - pose proof (after_cleanup_counts W s1 RExc). lia.
    - unfold ncalls, ncleanups, has_cleanup in *; cbn in *. lia. }
  destruct (next_task s0) as [t|]; [destruct (cleanup_reason s0)|]; try exact Hcall.
  pose proof (after_cleanup_counts W s0 (RTask t)). lia.
Qed.

Lemma inner_counts W k : forall s,
  ncalls (fst (inner W k s)) <= ncalls s + k /\
  ncleanups (fst (inner W k s)) + has_cleanup (fst (inner W k s)) <= ncleanups s + has_cleanup s.
Proof.
  induction k as [|k IH]; intros s; cbn [inner fst]; [lia|].
  pose proof (turn_counts W s) as [T1 T2].
  destruct (turn W s) as [s' r|s']; cbn [fst dstate] in *.
  - lia.
  - pose proof (IH s'). lia.
Qed.

Lemma pickup_locked_counts W s :
  ncalls (pickup_locked W s) = ncalls s /\ ncleanups (pickup_locked W s) = ncleanups s.
Proof.
  unfold pickup_locked. destruct (next_task s) as [[i f cl kw|i]|]; auto.
  unfold ncalls, ncleanups. cbn. rewrite hook_trace. cbn. auto.
Qed.

Lemma pickup_counts W s :
  ncalls (pickup W s) = ncalls s /\ ncleanups (pickup W s) = ncleanups s.
Proof.
  unfold pickup. destruct (next_task s); [|auto].
  pose proof (pickup_locked_counts W (hook W s)) as [A B]. pose proof (hook_counts W s) as (C & D & _). lia.
Qed.

Lemma round_counts W m s :
  ncalls (fst (round W m s)) <= ncalls s + m /\ ncleanups (fst (round W m s)) <= ncleanups s + 1.
Proof.
  unfold round. destruct (statefunc s) eqn:Hs.
  - pose proof (inner_counts W m s) as [I1 I2].
    destruct (inner W m s) as [s1 r]. cbn [fst] in *.
    assert (Hc1 : ncleanups s1 <= ncleanups s + 1) by (unfold has_cleanup in *; destruct (cleanup s1), (cleanup s); lia).
    assert (Hfin : forall s2, ncalls s2 <= ncalls s + m -> ncleanups s2 <= ncleanups s + 1 ->
       ncalls (pickup W (new_state W s2 None)) <= ncalls s + m /\
       ncleanups (pickup W (new_state W s2 None)) <= ncleanups s + 1).
    { intros s2 A B. pose proof (new_state_counts W s2 None) as (N1 & N2 & _).
      pose proof (pickup_counts W (new_state W s2 None)) as (P1 & P2). lia. }
    destruct r; cbn [fst].
    + lia.
    + apply Hfin; lia.
    + pose proof (do_cleanup_counts W s1 RExc) as [D1 D2].
      destruct (do_cleanup W s1 RExc) as [s2 [f|]]; cbn [fst] in *.
      * pose proof (new_state_counts W s2 (Some f)) as (N1 & N2 & _).
        unfold has_cleanup in *; destruct (cleanup s2), (cleanup s1), (cleanup s); lia.
      * apply Hfin; [lia|].
        unfold has_cleanup in *; destruct (cleanup s2), (cleanup s1), (cleanup s); lia.
  - cbn [fst]. pose proof (pickup_counts W s). lia.
Qed.

Lemma outer_counts W m k : forall s,
  ncalls (outer W m k s) <= ncalls s + k * m /\
  ncleanups (outer W m k s) <= ncleanups s + k.
Proof.
  induction k as [|k IH]; intros s; cbn [outer]; [lia|].
  pose proof (round_counts W m s) as [R1 R2].
  destruct (round W m s) as [s' go]. cbn [fst] in *.
  destruct go; [pose proof (IH s')|]; lia.
Qed.

Theorem cycle_bounded W m r s :
  ncalls (cycle W m r s) <= ncalls s + r * m /\ ncleanups (cycle W m r s) <= ncleanups s + r.
Proof. apply outer_counts. Qed.

(* ------------------------------------------------------------------ 2. the init flag *)
(* all three read the trace newest-first, i.e. they describe the situation after the last event *)
Fixpoint scur (t : list event) : option sid :=          (* state the last transition went to *)
  match t with [] => None | EvTrans _ f :: _ => f | _ :: r => scur r end.
Fixpoint sfresh (t : list event) : bool :=              (* no state call since the last transition *)
  match t with [] => true | EvTrans _ _ :: _ => true | EvCall _ _ :: _ => false | _ :: r => sfresh r end.
Fixpoint sok (t : list event) : bool :=                 (* every call was made on the current state and saw init = fresh *)
  match t with
  | [] => true
  | EvCall f b :: r => sok r && opt_eqb Nat.eqb (scur r) (Some f) && Bool.eqb b (sfresh r)
  | _ :: r => sok r
  end.

Definition WInv (s : sm) : Prop := sok (trace s) = true /\ scur (trace s) = statefunc s.
Definition FInv (s : sm) : Prop := WInv s /\ sfresh (trace s) = init s.

Lemma hook_WInv W s : WInv s -> WInv (hook W s).
Proof. unfold WInv. rewrite hook_trace, hook_statefunc. auto. Qed.
Lemma hook_FInv W s : FInv s -> FInv (hook W s).
Proof. unfold FInv, WInv. rewrite hook_trace, hook_statefunc, hook_init. auto. Qed.

Lemma new_state_FInv W s f : sok (trace s) = true -> FInv (new_state W s f).
Proof. intros H. unfold FInv, WInv. rewrite new_state_trace. cbn. auto. Qed.

Lemma do_cleanup_WInv W s r : WInv s -> WInv (fst (do_cleanup W s r)).
Proof.
  pose proof (do_cleanup_spec W s r) as H. destruct (do_cleanup W s r) as [s' ret]. cbn [fst].
  destruct H as (Hs & _ & _ & _ & _ & Ht). unfold WInv. rewrite Hs.
  destruct (cleanup s) as [[o c]|]; [rewrite Ht | destruct Ht as [Ht _]; rewrite Ht]; cbn; auto.
Qed.

Definition turn_post (d : decision) : Prop :=
  match d with
  | DGo s' => FInv s'
  | DRet s' IReturn => FInv s'
  | DRet s' _ => WInv s'
  end.

Lemma after_cleanup_post W s r : WInv s -> turn_post (after_cleanup W (do_cleanup W s r)).
Proof.
  intros H. pose proof (do_cleanup_WInv W s r H) as H'. unfold after_cleanup.
  destruct (do_cleanup W s r) as [s' [f|]]; cbn [fst snd turn_post] in *.
  - apply new_state_FInv. apply H'.
  - exact H'.
Qed.

Lemma Nat_eqb_refl_opt f : opt_eqb Nat.eqb (Some f) (Some f) = true.
Proof. cbn. apply Nat.eqb_refl. Qed.

Lemma turn_FInv W s : FInv s -> turn_post (turn W s).
Proof.
  intros HF. unfold turn. apply (hook_FInv W) in HF. set (s0 := hook W s) in *.
  assert (Hcall : turn_post (match statefunc s0 with
      | None => DRet s0 IBreak
      | Some f =>
          let n := ctr s0 in
          let s1 := hook W (emit s0 (EvCall f (init s0))) in
          match w_s W n with
          | BRetry => DRet (set_init s1 false) IReturn
          | BFinish => DRet (set_init s1 false) IBreak
          | BFinal c => DRet (set_init (emit s1 (EvFinal c)) false) IBreak
          | BNext g => DGo (new_state W (set_init s1 false) (Some g))
          | BNonCallable => after_cleanup W (do_cleanup W (set_init s1 false) RExc)
          | BRaise => after_cleanup W (do_cleanup W s1 RExc)
          end
      end)).
  { destruct HF as [[Hok Hcur] Hfr].
    destruct (statefunc s0) as [f|] eqn:Hsf; cbn zeta; [|cbn; unfold WInv; rewrite ?Hsf; auto].
    set (s1 := hook W (emit s0 (EvCall f (init s0)))).
    assert (Ht : trace s1 = EvCall f (init s0) :: trace s0) by (subst s1; rewrite hook_trace; reflexivity).
    assert (Hsf1 : statefunc s1 = Some f) by (subst s1; rewrite hook_statefunc; exact Hsf).
    assert (HW1 : WInv s1).
    { unfold WInv. rewrite Ht, Hsf1. cbn. rewrite Hok, Hcur, Hfr. cbn.
      rewrite Nat.eqb_refl, Bool.eqb_reflx. auto. }
    assert (HF0 : FInv (set_init s1 false)).
    { destruct HW1 as [A B]. unfold FInv, WInv. cbn. rewrite Ht in *. cbn in *. auto. }
    destruct (w_s W (ctr s0)); cbn [turn_post].
    - apply new_state_FInv. apply HF0.
    - exact HF0.
    - apply HF0.
    - apply after_cleanup_post. apply HF0.
    - apply after_cleanup_post. exact HW1.
    - destruct HF0 as [[A B] C]. unfold WInv. cbn in *. auto. }
  destruct (next_task s0) as [t|]; [destruct (cleanup_reason s0)|]; try exact Hcall.
  apply after_cleanup_post. apply HF.
Qed.

Lemma inner_FInv W k : forall s, FInv s ->
  let '(s', r) := inner W k s in match r with IReturn => FInv s' | _ => WInv s' end.
Proof.
  induction k as [|k IH]; intros s HF; cbn [inner]; [apply HF|].
  pose proof (turn_FInv W s HF) as T.
  destruct (turn W s) as [s' r|s']; cbn [turn_post] in T.
  - destruct r; assumption.
  - apply IH. exact T.
Qed.

Lemma pickup_locked_FInv W s : FInv s -> FInv (pickup_locked W s).
Proof.
  intros HF. unfold pickup_locked. destruct (next_task s) as [[i f cl kw|i]|]; [| |exact HF].
  - match goal with |- FInv (set_attrs (set_cleanup ?x _) _) => assert (H : FInv x) end.
    { apply new_state_FInv. cbn. apply HF. }
    destruct H as [[A B] C]. repeat split; assumption.
  - destruct HF as [[A B] C]. repeat split; cbn; assumption.
Qed.

Lemma pickup_FInv W s : FInv s -> FInv (pickup W s).
Proof.
  intros HF. unfold pickup. destruct (next_task s); [|exact HF]. apply pickup_locked_FInv, hook_FInv, HF.
Qed.

Lemma round_FInv W m s : FInv s -> FInv (fst (round W m s)).
Proof.
  intros HF. unfold round. destruct (statefunc s) eqn:Hs.
  - pose proof (inner_FInv W m s HF) as I. destruct (inner W m s) as [s1 r].
    destruct r; cbn [fst].
    + exact I.
    + apply pickup_FInv, new_state_FInv. apply I.
    + pose proof (do_cleanup_WInv W s1 RExc I) as D.
      destruct (do_cleanup W s1 RExc) as [s2 [f|]]; cbn [fst] in *.
      * apply new_state_FInv. apply D.
      * apply pickup_FInv, new_state_FInv. apply D.
  - cbn [fst]. apply pickup_FInv, HF.
Qed.

Lemma outer_FInv W m k : forall s, FInv s -> FInv (outer W m k s).
Proof.
  induction k as [|k IH]; intros s HF; cbn [outer]; [exact HF|].
  pose proof (round_FInv W m s HF) as R. destruct (round W m s) as [s' go]. cbn [fst] in R.
  destruct go; auto.
Qed.

Lemma step_FInv W m r s o : FInv s -> FInv (step W m r s o).
Proof.
  intros HF. destruct o; cbn [step].
  - apply outer_FInv, HF.
  - exact HF.
Qed.

Lemma run_FInv_from W m r ops : forall s, FInv s -> FInv (fold_left (step W m r) ops s).
Proof. induction ops as [|o ops IH]; intros s HF; cbn [fold_left]; auto using step_FInv. Qed.

Theorem init_flag_exact W m r ops : sok (trace (run W m r ops)) = true.
Proof.
  assert (H : FInv (run W m r ops)).
  { apply run_FInv_from. repeat split. }
  apply H.
Qed.

(* ------------------------------------------------------------------ 3. cleanup: exactly once, never interrupted *)
Definition is_task_rc (rc : nat) : bool := Nat.eqb rc 1 || Nat.eqb rc 2.

(* counters since the run in progress was entered (EvTrans false (Some _) = a deferred start is taken) *)
Fixpoint ints (t : list event) : nat :=
  match t with
  | [] => 0 | EvTrans false (Some _) :: _ => 0 | EvInt _ :: r => S (ints r) | _ :: r => ints r end.
Fixpoint cleans (t : list event) : nat :=
  match t with
  | [] => 0 | EvTrans false (Some _) :: _ => 0 | EvCleanup _ _ _ :: r => S (cleans r) | _ :: r => cleans r end.
Fixpoint hascl (t : list event) : bool :=
  match t with [] => false | EvPickup _ b :: _ => b | _ :: r => hascl r end.
(* the last event is the first interruption of a run that installed a cleanup: the cleanup must be called next *)
Definition need (t : list event) : bool :=
  match t with EvInt _ :: r => hascl r && Nat.eqb (ints r) 0 | _ => false end.
Fixpoint cok (t : list event) : bool :=
  match t with
  | [] => true
  | EvCleanup _ _ _ :: r =>
      cok r && Nat.eqb (cleans r) 0 && Nat.eqb (ints r) 1 && (match r with EvInt _ :: _ => true | _ => false end)
  | EvInt rc :: r => cok r && negb (need r) && (if is_task_rc rc then Nat.eqb (ints r) 0 else true)
  | _ :: r => cok r && negb (need r)
  end.

Definition CInv (s : sm) : Prop :=
  cok (trace s) = true /\ need (trace s) = false /\
  (cleanup s <> None -> ints (trace s) = 0 /\ cleans (trace s) = 0) /\
  (statefunc s <> None -> cleanup_reason s = None -> ints (trace s) = 0) /\
  (hascl (trace s) = true -> ints (trace s) = 0 -> cleanup s <> None).

Lemma hook_CInv W s : CInv s -> CInv (hook W s).
Proof. unfold CInv. rewrite hook_trace, hook_cleanup, hook_statefunc, hook_reason. auto. Qed.

Lemma reason_code_task t : is_task_rc (reason_code (RTask t)) = true.
Proof. destruct t; reflexivity. Qed.

Lemma do_cleanup_CInv W s r :
  CInv s -> (is_task_rc (reason_code r) = true -> ints (trace s) = 0) ->
  CInv (fst (do_cleanup W s r)) /\ statefunc (fst (do_cleanup W s r)) = statefunc s.
Proof.
  intros (Hok & Hneed & H3 & H4 & H5) HP.
  pose proof (do_cleanup_spec W s r) as H. destruct (do_cleanup W s r) as [s' ret]. cbn [fst].
  destruct H as (Hs & _ & _ & Hc & Hr & Ht). split; [|exact Hs].
  unfold CInv. rewrite Hc, Hs, Hr.
  assert (Hcond : (if is_task_rc (reason_code r) then Nat.eqb (ints (trace s)) 0 else true) = true).
  { destruct (is_task_rc (reason_code r)); [rewrite HP by reflexivity|]; reflexivity. }
  destruct (cleanup s) as [[o c]|] eqn:Hcl.
  - destruct H3 as [I0 C0]; [discriminate|].
    rewrite Ht. cbn [cok need ints cleans hascl]. rewrite Hok, Hneed, Hcond, I0, C0. cbn.
    repeat split; try discriminate; try congruence.
    destruct (cleanup_reason s); discriminate.
  - destruct Ht as [Ht _]. rewrite Ht. cbn [cok need ints cleans hascl]. rewrite Hok, Hneed, Hcond. cbn.
    repeat split; try congruence.
    + destruct (hascl (trace s)) eqn:Hh; [|reflexivity]. cbn.
      destruct (ints (trace s)) eqn:Hi; [|reflexivity]. exfalso. apply H5; auto.
    + destruct (cleanup_reason s); discriminate.
Qed.

(* transitions inside a run, or to the idle state *)
Lemma new_state_CInv W s f : CInv s -> (f <> None -> statefunc s <> None) -> CInv (new_state W s f).
Proof.
  intros (Hok & Hneed & H3 & H4 & H5) Hact. unfold CInv.
  rewrite new_state_trace, new_state_cleanup, new_state_reason, new_state_statefunc.
  assert (E : ints (EvTrans (active s) f :: trace s) = ints (trace s) /\
              cleans (EvTrans (active s) f :: trace s) = cleans (trace s)).
  { unfold active. destruct f as [g|]; [destruct (statefunc s); [cbn; auto|exfalso; apply Hact; congruence]|].
    destruct (statefunc s); cbn; auto. }
  destruct E as [E1 E2]. rewrite E1, E2. cbn [cok need hascl]. rewrite Hok, Hneed. cbn.
  repeat split; intros; auto; try (apply H3; assumption); try (apply H4; auto).
Qed.

Lemma pickup_locked_CInv W s : CInv s -> statefunc s = None -> CInv (pickup_locked W s).
Proof.
  intros (Hok & Hneed & H3 & H4 & H5) Hidle. unfold pickup_locked.
  destruct (next_task s) as [[i f cl kw|i]|]; [| |exact (conj Hok (conj Hneed (conj H3 (conj H4 H5))))].
  - unfold CInv. cbn [trace cleanup statefunc cleanup_reason set_attrs set_cleanup].
    rewrite new_state_trace. unfold active. cbn [statefunc emit set_reason set_next_task trace].
    rewrite Hidle. cbn [cok need ints cleans hascl]. rewrite Hok, Hneed. cbn.
    repeat split; intros; auto. destruct cl; [discriminate|discriminate].
  - unfold CInv. cbn. rewrite Hok, Hneed. cbn.
    repeat split; intros; auto; try discriminate; try (apply H3; assumption).
    rewrite Hidle in *. congruence.
Qed.

Lemma pickup_CInv W s : CInv s -> statefunc s = None -> CInv (pickup W s).
Proof.
  intros HC Hidle. unfold pickup. destruct (next_task s); [|exact HC].
  apply pickup_locked_CInv; [apply hook_CInv, HC|rewrite hook_statefunc; exact Hidle].
Qed.

Definition CPost (d : decision) : Prop := CInv (dstate d) /\ statefunc (dstate d) <> None.

Lemma after_cleanup_CPost W s r :
  CInv s -> statefunc s <> None -> (is_task_rc (reason_code r) = true -> ints (trace s) = 0) ->
  CPost (after_cleanup W (do_cleanup W s r)).
Proof.
  intros HC Hs HP. pose proof (do_cleanup_CInv W s r HC HP) as [D1 D2]. unfold after_cleanup, CPost.
  destruct (do_cleanup W s r) as [s' [f|]]; cbn [fst snd dstate] in *.
  - split; [apply new_state_CInv; [exact D1|intros _; congruence]|rewrite new_state_statefunc; discriminate].
  - split; [exact D1|congruence].
Qed.

Lemma emit_call_CInv s f b : CInv s -> CInv (emit s (EvCall f b)).
Proof.
  intros (Hok & Hneed & H3 & H4 & H5). unfold CInv. cbn. rewrite Hok, Hneed. cbn.
  repeat split; intros; auto; try (apply H3; assumption).
Qed.

Lemma set_init_CInv s b : CInv s -> CInv (set_init s b).
Proof. intros H; exact H. Qed.

Lemma turn_CInv W s : CInv s -> statefunc s <> None -> CPost (turn W s).
Proof.
  intros HC Hs. unfold turn. apply (hook_CInv W) in HC.
  assert (Hs0 : statefunc (hook W s) <> None) by (rewrite hook_statefunc; exact Hs).
  set (s0 := hook W s) in *.
  assert (Hcall : CPost (match statefunc s0 with
      | None => DRet s0 IBreak
      | Some f =>
          let n := ctr s0 in
          let s1 := hook W (emit s0 (EvCall f (init s0))) in
          match w_s W n with
          | BRetry => DRet (set_init s1 false) IReturn
          | BFinish => DRet (set_init s1 false) IBreak
          | BFinal c => DRet (set_init (emit s1 (EvFinal c)) false) IBreak
          | BNext g => DGo (new_state W (set_init s1 false) (Some g))
          | BNonCallable => after_cleanup W (do_cleanup W (set_init s1 false) RExc)
          | BRaise => after_cleanup W (do_cleanup W s1 RExc)
          end
      end)).
  { destruct (statefunc s0) as [f|] eqn:Hsf; [|congruence]. cbn zeta.
    set (s1 := hook W (emit s0 (EvCall f (init s0)))).
    assert (HC1 : CInv s1) by (subst s1; apply hook_CInv, emit_call_CInv, HC).
    assert (Hsf1 : statefunc s1 = Some f) by (subst s1; rewrite hook_statefunc; exact Hsf).
    assert (Hne1 : statefunc (set_init s1 false) <> None) by (cbn; congruence).
    destruct (w_s W (ctr s0)).
    - split; cbn [dstate]; [apply new_state_CInv; [exact HC1|intros _; exact Hne1]|discriminate].
    - split; cbn [dstate]; [exact HC1|exact Hne1].
    - split; cbn [dstate]; [exact HC1|exact Hne1].
    - apply after_cleanup_CPost; [exact HC1|exact Hne1|cbn; discriminate].
    - apply after_cleanup_CPost; [exact HC1|congruence|cbn; discriminate].
    - split; cbn [dstate]; [|exact Hne1].
      destruct HC1 as (Hok & Hneed & H3 & H4 & H5). unfold CInv. cbn. rewrite Hok, Hneed. cbn.
      repeat split; intros; auto; try (apply H3; assumption). }
  destruct (next_task s0) as [t|]; [destruct (cleanup_reason s0) eqn:Hr|]; try exact Hcall.
  apply after_cleanup_CPost; [exact HC|exact Hs0|].
  intros _. destruct HC as (_ & _ & _ & H4 & _). apply H4; assumption.
Qed.

Lemma inner_CInv W k : forall s, CInv s -> statefunc s <> None ->
  CInv (fst (inner W k s)) /\ statefunc (fst (inner W k s)) <> None.
Proof.
  induction k as [|k IH]; intros s HC Hs; cbn [inner]; [split; assumption|].
  pose proof (turn_CInv W s HC Hs) as [T1 T2].
  destruct (turn W s) as [s' r|s']; cbn [dstate fst] in *.
  - split; assumption.
  - apply IH; assumption.
Qed.

Lemma round_CInv W m s : CInv s -> CInv (fst (round W m s)).
Proof.
  intros HC. unfold round. destruct (statefunc s) eqn:Hs.
  - assert (Hne : statefunc s <> None) by congruence.
    pose proof (inner_CInv W m s HC Hne) as [I1 I2]. destruct (inner W m s) as [s1 r]. cbn [fst] in *.
    destruct r; cbn [fst].
    + exact I1.
    + apply pickup_CInv; [apply new_state_CInv; [exact I1|congruence]|reflexivity].
    + pose proof (do_cleanup_CInv W s1 RExc I1) as [D1 D2]; [cbn; discriminate|].
      destruct (do_cleanup W s1 RExc) as [s2 [f|]]; cbn [fst] in *.
      * apply new_state_CInv; [exact D1|intros _; congruence].
      * apply pickup_CInv; [apply new_state_CInv; [exact D1|congruence]|reflexivity].
  - cbn [fst]. apply pickup_CInv; assumption.
Qed.

Lemma outer_CInv W m k : forall s, CInv s -> CInv (outer W m k s).
Proof.
  induction k as [|k IH]; intros s HC; cbn [outer]; [exact HC|].
  pose proof (round_CInv W m s HC) as R. destruct (round W m s) as [s' go]. cbn [fst] in R.
  destruct go; auto.
Qed.

Lemma run_CInv_from W m r ops : forall s, CInv s -> CInv (fold_left (step W m r) ops s).
Proof.
  induction ops as [|o ops IH]; intros s HC; cbn [fold_left]; [exact HC|].
  apply IH. destruct o; cbn [step]; [apply outer_CInv, HC|exact HC].
Qed.

Theorem cleanup_exactly_once W m r ops :
  cok (trace (run W m r ops)) = true /\ need (trace (run W m r ops)) = false.
Proof.
  assert (H : CInv (run W m r ops)).
  { apply run_CInv_from. repeat split; intros; try discriminate; auto; congruence. }
  destruct H as (A & B & _). auto.
Qed.

(* ------------------------------------------------------------------ 4. last request wins, stop makes inactive *)
Definition quiet (W : world) : Prop := forall n, w_env W n = None.
Definition RInv (s : sm) : Prop := cleanup_reason s <> None -> cleanup s = None.

Lemma posts_last_wins W m r ts t s :
  next_task (fold_left (step W m r) (map OPost (ts ++ [t])) s) = Some t.
Proof. rewrite map_app, fold_left_app. reflexivity. Qed.

Lemma hook_next_task W s : quiet W -> next_task (hook W s) = next_task s.
Proof. intros Q. apply hook_next_task_quiet, Q. Qed.

Lemma new_state_next_task W s f : quiet W -> next_task (new_state W s f) = next_task s.
Proof. intros Q. unfold new_state. cbn. rewrite hook_next_task by exact Q. reflexivity. Qed.

Lemma do_cleanup_next_task W s r : quiet W -> next_task (fst (do_cleanup W s r)) = next_task s.
Proof.
  intros Q. unfold do_cleanup.
  destruct (cleanup_reason s) eqn:Hr; cbn; rewrite ?Hr; cbn;
    (destruct (cleanup s) as [[o c]|] eqn:Hc; cbn; rewrite ?Hc; cbn;
     [ match goal with |- context [w_c W ?n] => destruct (w_c W n) end; cbn;
       rewrite ?hook_next_task by exact Q; cbn; rewrite ?hook_next_task by exact Q; reflexivity | reflexivity ]).
Qed.

(* what one inner-loop turn guarantees while a request is pending and nobody interferes *)
Definition PPost (t : task) (a : list (nat * Z)) (d : decision) : Prop :=
  next_task (dstate d) = Some t /\ attrs (dstate d) = a /\ statefunc (dstate d) <> None /\
  cleanup_reason (dstate d) <> None /\ cleanup (dstate d) = None /\
  match d with DRet _ IExhausted => False | _ => True end.

Lemma after_cleanup_PPost W s r t :
  quiet W -> next_task s = Some t -> statefunc s <> None ->
  PPost t (attrs s) (after_cleanup W (do_cleanup W s r)).
Proof.
  intros Q Hn Hs. pose proof (do_cleanup_spec W s r) as H. pose proof (do_cleanup_next_task W s r Q) as Hnt.
  unfold after_cleanup, PPost. destruct (do_cleanup W s r) as [s' [f|]]; cbn [fst snd dstate] in *;
    destruct H as (Hsf & _ & Ha & Hc & Hr & _).
  - rewrite new_state_next_task, new_state_attrs, new_state_statefunc, new_state_reason, new_state_cleanup by exact Q.
    repeat split; try congruence. rewrite Hr. destruct (cleanup_reason s); discriminate.
  - repeat split; try congruence. rewrite Hr. destruct (cleanup_reason s); discriminate.
Qed.

Lemma turn_PPost W s t :
  quiet W -> next_task s = Some t -> statefunc s <> None -> RInv s ->
  PPost t (attrs s) (turn W s).
Proof.
  intros Q Hn Hs HR. unfold turn.
  assert (Hn0 : next_task (hook W s) = Some t) by (rewrite hook_next_task; assumption).
  assert (Hs0 : statefunc (hook W s) <> None) by (rewrite hook_statefunc; exact Hs).
  assert (Ha0 : attrs (hook W s) = attrs s) by apply hook_attrs.
  assert (HR0 : RInv (hook W s)) by (unfold RInv; rewrite hook_reason, hook_cleanup; exact HR).
  set (s0 := hook W s) in *. rewrite Hn0. rewrite <- Ha0.
  destruct (cleanup_reason s0) as [rs|] eqn:Hr.
  - (* a cleanup sequence is running: the state function is called *)
    destruct (statefunc s0) as [f|] eqn:Hsf; [|congruence]. cbn zeta.
    set (s1 := hook W (emit s0 (EvCall f (init s0)))).
    assert (E : next_task s1 = Some t /\ attrs s1 = attrs s0 /\ statefunc s1 = Some f /\
                cleanup_reason s1 = Some rs /\ cleanup s1 = None).
    { subst s1. rewrite hook_next_task, hook_attrs, hook_statefunc, hook_reason, hook_cleanup by exact Q.
      cbn. repeat split; auto. apply HR0. congruence. }
    destruct E as (E1 & E2 & E3 & E4 & E5).
    destruct (w_s W (ctr s0)).
    + unfold PPost. cbn [dstate].
      rewrite new_state_next_task, new_state_attrs, new_state_statefunc, new_state_reason, new_state_cleanup by exact Q.
      cbn. repeat split; try congruence.
    + unfold PPost. cbn. repeat split; try congruence.
    + unfold PPost. cbn. repeat split; try congruence.
    + rewrite <- E2. apply (after_cleanup_PPost W (set_init s1 false) RExc t Q); cbn; congruence.
    + rewrite <- E2. apply (after_cleanup_PPost W s1 RExc t Q); congruence.
    + unfold PPost. cbn. repeat split; try congruence.
  - apply after_cleanup_PPost; assumption.
Qed.

Lemma inner_pending W t k : forall s,
  quiet W -> next_task s = Some t -> statefunc s <> None -> RInv s -> 0 < k ->
  let '(s', r) := inner W k s in
  next_task s' = Some t /\ attrs s' = attrs s /\ statefunc s' <> None /\
  cleanup_reason s' <> None /\ cleanup s' = None.
Proof.
  induction k as [|k IH]; intros s Q Hn Hs HR Hk; [lia|]. cbn [inner].
  pose proof (turn_PPost W s t Q Hn Hs HR) as T.
  destruct (turn W s) as [s' r|s']; unfold PPost in T; cbn [dstate] in T;
    destruct T as (T1 & T2 & T3 & T4 & T5 & T6).
  - repeat split; assumption.
  - destruct k as [|k'].
    + cbn. repeat split; assumption.
    + specialize (IH s' Q T1 T3). destruct (inner W (S k') s') as [s'' r''].
      rewrite <- T2. apply IH; [|lia]. intros _. exact T5.
Qed.

(* one round of a cycle with a pending request and no interference: either the request is taken
   from an idle machine whose attributes are untouched, or the cycle returns inside a cleanup sequence *)
Lemma round_progress W m s t :
  quiet W -> 0 < m -> RInv s -> next_task s = Some t ->
  let '(s', go) := round W m s in
  if go then exists s1, next_task s1 = Some t /\ attrs s1 = attrs s /\ statefunc s1 = None /\ s' = pickup W s1
  else next_task s' = Some t /\ statefunc s' <> None /\ cleanup_reason s' <> None.
Proof.
  intros Q Hm HR Hn. unfold round. destruct (statefunc s) eqn:Hs.
  - assert (Hne : statefunc s <> None) by congruence.
    pose proof (inner_pending W t m s Q Hn Hne HR Hm) as I.
    destruct (inner W m s) as [s1 r]. destruct I as (I1 & I2 & I3 & I4 & I5).
    destruct r.
    + repeat split; assumption.
    + exists (new_state W s1 None). rewrite new_state_next_task, new_state_attrs by exact Q. auto.
    + pose proof (do_cleanup_spec W s1 RExc) as D. pose proof (do_cleanup_next_task W s1 RExc Q) as Dn.
      destruct (do_cleanup W s1 RExc) as [s2 ret]. cbn [fst] in Dn.
      destruct D as (D1 & _ & D3 & _ & _ & D6). rewrite I5 in D6. destruct D6 as [_ ->].
      exists (new_state W s2 None). rewrite new_state_next_task, new_state_attrs by exact Q.
      repeat split; congruence.
  - exists s. auto.
Qed.

Lemma pickup_start W s i f cl kw :
  quiet W -> next_task s = Some (TStart i f cl kw) ->
  let s' := pickup W s in
  statefunc s' = Some f /\ init s' = true /\ next_task s' = None /\ cleanup_reason s' = None /\
  cleanup s' = option_map (fun c => (i, c)) cl /\ attrs s' = upd_all kw (attrs s).
Proof.
  intros Q Hn. unfold pickup. rewrite Hn. unfold pickup_locked. rewrite hook_next_task, Hn by exact Q.
  cbn [statefunc init next_task cleanup_reason cleanup attrs set_attrs set_cleanup].
  rewrite new_state_next_task, new_state_reason, new_state_attrs by exact Q. cbn. rewrite hook_attrs.
  repeat split; auto; destruct cl; reflexivity.
Qed.

Lemma pickup_stop W s i :
  quiet W -> next_task s = Some (TStop i) ->
  let s' := pickup W s in
  statefunc s' = statefunc s /\ next_task s' = None /\ cleanup_reason s' = None /\ attrs s' = attrs s.
Proof.
  intros Q Hn. unfold pickup. rewrite Hn. unfold pickup_locked. rewrite hook_next_task, Hn by exact Q. cbn.
  rewrite hook_statefunc, hook_attrs. auto.
Qed.

Theorem start_wins W m s i f cl kw :
  quiet W -> 0 < m -> RInv s -> next_task s = Some (TStart i f cl kw) ->
  let '(s', go) := round W m s in
  if go then statefunc s' = Some f /\ init s' = true /\ next_task s' = None /\ cleanup_reason s' = None /\
             cleanup s' = option_map (fun c => (i, c)) cl /\ attrs s' = upd_all kw (attrs s)
  else next_task s' = Some (TStart i f cl kw) /\ statefunc s' <> None /\ cleanup_reason s' <> None.
Proof.
  intros Q Hm HR Hn. pose proof (round_progress W m s _ Q Hm HR Hn) as P.
  destruct (round W m s) as [s' [|]]; [|exact P].
  destruct P as (s1 & P1 & P2 & P3 & ->). rewrite <- P2. apply pickup_start; assumption.
Qed.

Theorem stop_makes_inactive W m s i :
  quiet W -> 0 < m -> RInv s -> next_task s = Some (TStop i) ->
  let '(s', go) := round W m s in
  if go then statefunc s' = None /\ next_task s' = None /\ cleanup_reason s' = None /\ attrs s' = attrs s
  else next_task s' = Some (TStop i) /\ statefunc s' <> None /\ cleanup_reason s' <> None.
Proof.
  intros Q Hm HR Hn. pose proof (round_progress W m s _ Q Hm HR Hn) as P.
  destruct (round W m s) as [s' [|]]; [|exact P].
  destruct P as (s1 & P1 & P2 & P3 & ->). pose proof (pickup_stop W s1 i Q P1) as (A & B & C & D).
  repeat split; congruence.
Qed.

(* RInv holds in every reachable state, whatever the interference *)
Lemma do_cleanup_RInv W s r : RInv (fst (do_cleanup W s r)).
Proof.
  pose proof (do_cleanup_spec W s r) as H. destruct (do_cleanup W s r) as [s' ret].
  destruct H as (_ & _ & _ & Hc & _). intros _. exact Hc.
Qed.
Lemma new_state_RInv W s f : RInv s -> RInv (new_state W s f).
Proof. unfold RInv. rewrite new_state_reason, new_state_cleanup. auto. Qed.
Lemma hook_RInv W s : RInv s -> RInv (hook W s).
Proof. unfold RInv. rewrite hook_reason, hook_cleanup. auto. Qed.
Lemma pickup_locked_RInv W s : RInv s -> RInv (pickup_locked W s).
Proof.
  intros H. unfold pickup_locked. destruct (next_task s) as [[i f cl kw|i]|]; [| |exact H].
  - unfold RInv. cbn [cleanup_reason cleanup set_attrs set_cleanup]. rewrite new_state_reason. cbn. congruence.
  - unfold RInv. cbn. congruence.
Qed.
Lemma pickup_RInv W s : RInv s -> RInv (pickup W s).
Proof.
  intros H. unfold pickup. destruct (next_task s); [|exact H]. apply pickup_locked_RInv, hook_RInv, H.
Qed.
Lemma after_cleanup_RInv W s r : RInv (dstate (after_cleanup W (do_cleanup W s r))).
Proof.
  pose proof (do_cleanup_RInv W s r) as H. unfold after_cleanup.
  destruct (do_cleanup W s r) as [s' [f|]]; cbn [fst snd dstate] in *; [apply new_state_RInv|]; exact H.
Qed.
Lemma turn_RInv W s : RInv s -> RInv (dstate (turn W s)).
Proof.
  intros H. unfold turn. apply (hook_RInv W) in H. set (s0 := hook W s) in *.
  assert (Hcall : RInv (dstate (match statefunc s0 with
      | None => DRet s0 IBreak
      | Some f =>
          let n := ctr s0 in
          let s1 := hook W (emit s0 (EvCall f (init s0))) in
          match w_s W n with
          | BRetry => DRet (set_init s1 false) IReturn
          | BFinish => DRet (set_init s1 false) IBreak
          | BFinal c => DRet (set_init (emit s1 (EvFinal c)) false) IBreak
          | BNext g => DGo (new_state W (set_init s1 false) (Some g))
          | BNonCallable => after_cleanup W (do_cleanup W (set_init s1 false) RExc)
          | BRaise => after_cleanup W (do_cleanup W s1 RExc)
          end
      end))).
  { destruct (statefunc s0) as [f|]; [|exact H]. cbn zeta.
    assert (H1 : RInv (hook W (emit s0 (EvCall f (init s0))))) by (apply hook_RInv; exact H).
    destruct (w_s W (ctr s0)); cbn [dstate]; try apply after_cleanup_RInv; try exact H1.
    apply new_state_RInv. exact H1. }
  destruct (next_task s0) as [t|]; [destruct (cleanup_reason s0)|]; try exact Hcall.
  apply after_cleanup_RInv.
Qed.
Lemma inner_RInv W k : forall s, RInv s -> RInv (fst (inner W k s)).
Proof.
  induction k as [|k IH]; intros s H; cbn [inner]; [exact H|].
  pose proof (turn_RInv W s H) as T. destruct (turn W s) as [s' r|s']; cbn [dstate fst] in *; auto.
Qed.
Lemma round_RInv W m s : RInv s -> RInv (fst (round W m s)).
Proof.
  intros H. unfold round. destruct (statefunc s).
  - pose proof (inner_RInv W m s H) as I. destruct (inner W m s) as [s1 r]. cbn [fst] in I.
    destruct r; cbn [fst]; [exact I|apply pickup_RInv, new_state_RInv, I|].
    pose proof (do_cleanup_RInv W s1 RExc) as D. destruct (do_cleanup W s1 RExc) as [s2 [f|]]; cbn [fst] in *.
    + apply new_state_RInv, D.
    + apply pickup_RInv, new_state_RInv, D.
  - apply pickup_RInv, H.
Qed.
Lemma outer_RInv W m k : forall s, RInv s -> RInv (outer W m k s).
Proof.
  induction k as [|k IH]; intros s H; cbn [outer]; [exact H|].
  pose proof (round_RInv W m s H) as R. destruct (round W m s) as [s' go]. cbn [fst] in R. destruct go; auto.
Qed.
Theorem RInv_reachable W m r ops : RInv (run W m r ops).
Proof.
  unfold run. assert (H : RInv sm0) by (intros X; reflexivity). revert H. generalize sm0.
  induction ops as [|o ops IH]; intros s H; cbn [fold_left]; [exact H|].
  apply IH. destruct o; cbn [step]; [apply outer_RInv, H|exact H].
Qed.

(* attributes: exactly the requested keys change *)
Lemma lookup_upd_same k v l : lookup k (upd k v l) = Some v.
Proof.
  induction l as [|[k' v'] l IH]; cbn; [rewrite Nat.eqb_refl; reflexivity|].
  destruct (Nat.eqb k k') eqn:E; cbn; [rewrite Nat.eqb_refl; reflexivity|rewrite E; exact IH].
Qed.
Lemma lookup_upd_other k k' v l : k <> k' -> lookup k' (upd k v l) = lookup k' l.
Proof.
  intros Hne. induction l as [|[k2 v2] l IH]; cbn.
  - destruct (Nat.eqb k' k) eqn:E; [apply Nat.eqb_eq in E; congruence|reflexivity].
  - destruct (Nat.eqb k k2) eqn:E; cbn.
    + apply Nat.eqb_eq in E. subst k2.
      destruct (Nat.eqb k' k) eqn:E2; [apply Nat.eqb_eq in E2; congruence|reflexivity].
    + destruct (Nat.eqb k' k2); [reflexivity|exact IH].
Qed.
Lemma lookup_upd_all_notin k kw : forall l, ~ In k (map fst kw) -> lookup k (upd_all kw l) = lookup k l.
Proof.
  unfold upd_all. induction kw as [|[k' v'] kw IH]; intros l Hn; cbn [fold_left]; [reflexivity|].
  cbn in Hn. rewrite IH by tauto. cbn. apply lookup_upd_other. tauto.
Qed.
Lemma lookup_upd_all_last k v kw1 kw2 l :
  ~ In k (map fst kw2) -> lookup k (upd_all (kw1 ++ (k, v) :: kw2) l) = Some v.
Proof.
  intros Hn. unfold upd_all. rewrite fold_left_app. cbn [fold_left].
  change (lookup k (upd_all kw2 (upd k v (fold_left (fun acc kv => upd (fst kv) (snd kv) acc) kw1 l))) = Some v).
  rewrite lookup_upd_all_notin by exact Hn. apply lookup_upd_same.
Qed.
