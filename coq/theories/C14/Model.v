(* C14 — executable model of frappy/lib/statemachine.py (StateMachine.cycle/start/stop/_cleanup/_new_state).
   No proofs in this file.  Constants maxloops / outer_rounds come from the generated FV.Gen.C14. *)
From Coq Require Import List Arith ZArith Bool.
Import ListNotations.

(* state functions and cleanup functions are identified by numbers *)
Definition sid := nat.
Definition cid := nat.

(* what a call of a state function does *)
(* BFinal c: the state function calls final_status (code c) of the HasStates layer and returns its result (Finish) *)
Inductive sbeh := BNext (f : sid) | BRetry | BFinish | BNonCallable | BRaise | BFinal (c : Z).
(* what a call of a cleanup function does *)
Inductive cbeh := CNone | CNext (f : sid) | CNonCallable | CRaise.

(* a task posted by start()/stop(); [tid] identifies the request (its position in the history) *)
Inductive task :=
| TStart (tid : nat) (f : sid) (cl : option cid) (kw : list (nat * Z))
| TStop (tid : nat).

Definition task_id (t : task) : nat := match t with TStart i _ _ _ => i | TStop i => i end.

(* cleanup_reason: an exception, or the task that interrupted *)
Inductive reason := RExc | RTask (t : task).

Inductive event :=
| EvCall (f : sid) (init : bool)          (* a state function was called and saw this init flag *)
| EvCleanup (owner : nat) (c : cid) (r : nat) (* cleanup installed by start request [owner] was called; r: 0 exc, 1 start, 2 stop *)
| EvInt (r : nat)                         (* _cleanup entered with this reason (logged): 0 exc, 1 start, 2 stop *)
| EvTrans (active : bool) (f : option sid) (* transition hook called with the new state; active: a state was set before *)
| EvPickup (tid : nat) (cl : bool)         (* deferred task taken; cl: it installs a cleanup function (not observable on the implementation) *)
| EvFinal (c : Z).                         (* final_status(c) was called by the state function just called *)

Definition reason_code (r : reason) : nat :=
  match r with RExc => 0 | RTask (TStart _ _ _ _) => 1 | RTask (TStop _) => 2 end.

(* The world: behaviour of the n-th hook.  A hook is any point at which foreign code runs
   during a cycle: the time.time() call at the top of each inner loop turn (T), the body of a
   state function (S), the body of a cleanup function (C), the transition callback (X).
   At every hook the environment (the same thread through the state function, or a second
   thread) may post a task; w_env n is what is posted during hook n. *)
Record world := {
  w_s : nat -> sbeh;
  w_c : nat -> cbeh;
  w_env : nat -> option task;
  w_guard : nat -> bool;     (* the stop request of hook n is issued as "if sm.is_active: sm.stop()" (HasStates.stop_machine) *)
}.

Record sm := {
  statefunc : option sid;
  next_task : option task;
  cleanup : option (nat * cid);      (* (owner start request, function) *)
  cleanup_reason : option reason;
  init : bool;
  attrs : list (nat * Z);            (* user attributes set through start keywords *)
  ctr : nat;                         (* number of hooks executed so far *)
  trace : list event;                (* newest first *)
}.

Definition sm0 : sm :=
  {| statefunc := None; next_task := None; cleanup := None; cleanup_reason := None;
     init := true; attrs := []; ctr := 0; trace := [] |}.

Definition set_statefunc s v := {| statefunc := v; next_task := next_task s; cleanup := cleanup s;
  cleanup_reason := cleanup_reason s; init := init s; attrs := attrs s; ctr := ctr s; trace := trace s |}.
Definition set_next_task s v := {| statefunc := statefunc s; next_task := v; cleanup := cleanup s;
  cleanup_reason := cleanup_reason s; init := init s; attrs := attrs s; ctr := ctr s; trace := trace s |}.
Definition set_cleanup s v := {| statefunc := statefunc s; next_task := next_task s; cleanup := v;
  cleanup_reason := cleanup_reason s; init := init s; attrs := attrs s; ctr := ctr s; trace := trace s |}.
Definition set_reason s v := {| statefunc := statefunc s; next_task := next_task s; cleanup := cleanup s;
  cleanup_reason := v; init := init s; attrs := attrs s; ctr := ctr s; trace := trace s |}.
Definition set_init s v := {| statefunc := statefunc s; next_task := next_task s; cleanup := cleanup s;
  cleanup_reason := cleanup_reason s; init := v; attrs := attrs s; ctr := ctr s; trace := trace s |}.
Definition set_attrs s v := {| statefunc := statefunc s; next_task := next_task s; cleanup := cleanup s;
  cleanup_reason := cleanup_reason s; init := init s; attrs := v; ctr := ctr s; trace := trace s |}.
Definition emit s e := {| statefunc := statefunc s; next_task := next_task s; cleanup := cleanup s;
  cleanup_reason := cleanup_reason s; init := init s; attrs := attrs s; ctr := ctr s; trace := e :: trace s |}.

(* start()/stop(): only post a task *)
Definition post (s : sm) (t : task) : sm := set_next_task s (Some t).

Definition active (s : sm) : bool := match statefunc s with Some _ => true | None => false end.

(* a stop request which is only issued while the machine is active (stop_machine of the HasStates layer) *)
Definition suppressed (W : world) (n : nat) (t : task) (s : sm) : bool :=
  match t with TStop _ => w_guard W n && negb (active s) | TStart _ _ _ _ => false end.

(* one hook: the environment may post a task; the hook counter advances.  Hooks are the points at which foreign
   code can run during a cycle: time.time(), the bodies of state and cleanup functions, the transition callback and
   every acquisition of StateMachine._lock by the cycling thread (a second thread may run start()/stop() to the end
   before the lock is obtained). *)
Definition hook (W : world) (s : sm) : sm :=
  let n := ctr s in
  let s1 := {| statefunc := statefunc s; next_task := next_task s; cleanup := cleanup s;
               cleanup_reason := cleanup_reason s; init := init s; attrs := attrs s;
               ctr := S n; trace := trace s |} in
  match w_env W n with
  | Some t => if suppressed W n t s then s1 else post s1 t
  | None => s1
  end.

Fixpoint upd (k : nat) (v : Z) (l : list (nat * Z)) : list (nat * Z) :=
  match l with
  | [] => [(k, v)]
  | (k', v') :: r => if Nat.eqb k k' then (k, v) :: r else (k', v') :: upd k v r
  end.
Definition upd_all (kw : list (nat * Z)) (l : list (nat * Z)) : list (nat * Z) :=
  fold_left (fun acc kv => upd (fst kv) (snd kv) acc) kw l.
Fixpoint lookup (k : nat) (l : list (nat * Z)) : option Z :=
  match l with [] => None | (k', v) :: r => if Nat.eqb k k' then Some v else lookup k r end.

(* _new_state: transition callback (a hook), init := True, statefunc := f *)
Definition new_state (W : world) (s : sm) (f : option sid) : sm :=
  let s1 := hook W (emit s (EvTrans (match statefunc s with Some _ => true | None => false end) f)) in
  set_statefunc (set_init s1 true) f.

(* _cleanup(reason): returns the state to continue the cleanup sequence with, if any *)
Definition do_cleanup (W : world) (s : sm) (r : reason) : sm * option sid :=
  let s0 := emit s (EvInt (reason_code r)) in
  let s1 := match cleanup_reason s0 with None => set_reason s0 (Some r) | Some _ => s0 end in
  match cleanup s1 with
  | None => (s1, None)
  | Some (owner, c) =>
      let s1l := hook W s1 in                  (* with self._lock: (the swap reads self.cleanup again: unchanged by a hook) *)
      let s2 := set_cleanup s1l None in
      let rc := match cleanup_reason s2 with Some r' => reason_code r' | None => 0 end in
      let s3 := emit s2 (EvCleanup owner c rc) in
      let n := ctr s3 in
      let s4 := hook W s3 in
      match w_c W n with
      | CNext f => (s4, Some f)
      | CNone | CNonCallable | CRaise => (s4, None)
      end
  end.

Inductive iret := IReturn | IBreak | IExhausted.

(* one turn of the inner loop: either the loop is left (DRet) or it goes on in a new state (DGo) *)
Inductive decision := DRet (s : sm) (r : iret) | DGo (s : sm).

Definition after_cleanup (W : world) (p : sm * option sid) : decision :=
  match snd p with
  | None => DRet (fst p) IBreak                       (* if ret is None: break *)
  | Some f => DGo (new_state W (fst p) (Some f))      (* self._new_state(ret) *)
  end.

Definition turn (W : world) (s : sm) : decision :=
  let s := hook W s in                                (* self.now = time.time() *)
  match next_task s, cleanup_reason s with
  | Some t, None => after_cleanup W (do_cleanup W s (RTask t))   (* interrupt only when not cleaning up *)
  | _, _ =>
      match statefunc s with
      | None => DRet s IBreak                         (* unreachable: guarded by the caller *)
      | Some f =>
          let n := ctr s in
          let s1 := hook W (emit s (EvCall f (init s))) in
          match w_s W n with
          | BRetry => DRet (set_init s1 false) IReturn
          | BFinish => DRet (set_init s1 false) IBreak
          | BFinal c => DRet (set_init (emit s1 (EvFinal c)) false) IBreak
          | BNext g => DGo (new_state W (set_init s1 false) (Some g))
          | BNonCallable => after_cleanup W (do_cleanup W (set_init s1 false) RExc)
          | BRaise => after_cleanup W (do_cleanup W s1 RExc)      (* init is not reset *)
          end
      end
  end.

(* the inner loop, for _ in range(self.maxloops) *)
Fixpoint inner (W : world) (k : nat) (s : sm) : sm * iret :=
  match k with
  | 0 => (s, IExhausted)
  | S k' => match turn W s with
            | DRet s' r => (s', r)
            | DGo s' => inner W k' s'
            end
  end.

(* the statements inside and after `with self._lock:` of the pick-up: action, self.next_task = self.next_task, None;
   cleanup_reason = None; Start -> _new_state, _update_attributes *)
Definition pickup_locked (W : world) (s : sm) : sm :=
  match next_task s with
  | None => s
  | Some t =>
      let s1 := set_reason (set_next_task s None) None in
      let s2 := emit s1 (EvPickup (task_id t) (match t with TStart _ _ (Some _) _ => true | _ => false end)) in
      match t with
      | TStop _ => s2
      | TStart i f cl kw =>
          let s3 := new_state W s2 (Some f) in
          set_attrs (set_cleanup s3 (match cl with Some c => Some (i, c) | None => None end))
                    (upd_all kw (attrs s3))
      end
  end.

(* if self.next_task: [acquisition of the lock = a hook] read and clear under the lock.  The test and the read are
   two different reads of next_task: what is taken is the request pending when the lock is held *)
Definition pickup (W : world) (s : sm) : sm :=
  match next_task s with
  | None => s
  | Some _ => pickup_locked W (hook W s)
  end.

(* one round of the outer loop, for _ in range(2): None = return from cycle, Some s = next round *)
Definition round (W : world) (maxloops : nat) (s : sm) : sm * bool :=
  match statefunc s with
  | Some _ =>
      let '(s1, r) := inner W maxloops s in
      match r with
      | IReturn => (s1, false)
      | IBreak => (pickup W (new_state W s1 None), true)
      | IExhausted =>
          let '(s2, ret) := do_cleanup W s1 RExc in
          match ret with
          | Some f => (new_state W s2 (Some f), true)               (* continue *)
          | None => (pickup W (new_state W s2 None), true)
          end
      end
  | None => (pickup W s, true)
  end.

Fixpoint outer (W : world) (maxloops : nat) (k : nat) (s : sm) : sm :=
  match k with
  | 0 => s
  | S k' => let '(s', go) := round W maxloops s in
            if go then outer W maxloops k' s' else s'
  end.

Definition cycle (W : world) (maxloops rounds : nat) (s : sm) : sm := outer W maxloops rounds s.

(* operations of a history *)
Inductive op := OCycle | OPost (t : task).

Definition step (W : world) (maxloops rounds : nat) (s : sm) (o : op) : sm :=
  match o with
  | OCycle => cycle W maxloops rounds s
  | OPost t => post s t
  end.

Definition run (W : world) (maxloops rounds : nat) (ops : list op) : sm :=
  fold_left (step W maxloops rounds) ops sm0.
