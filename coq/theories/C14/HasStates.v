(* C14 — the HasStates layer of frappy/states.py on top of the state machine model: status derivation
   (state_transition, get_status), start_machine / stop_machine / final_status / on_cleanup, cycle_machine.
   The status is a function of the operations and of the events of the core machine; this file computes it by
   folding over the events of each cycle.  No interference inside a cycle is modelled here (operations are issued
   between cycles; the world's w_env is unused).  Executable definitions only. *)
From Coq Require Import List Arith ZArith Bool.
Import ListNotations.
Require Import FV.Base.Util FV.C14.Model.

(* status codes of frappy.datatypes.StatusType used by the layer (values come from FV.Gen.C14) *)
Record codes := { c_idle : Z; c_busy : Z; c_error : Z }.

(* texts, abstracted: the decisions of state_transition only compare texts for equality *)
Inductive text :=
| TEmpty                  (* '' *)
| TName (f : sid)         (* name of a state function *)
| TStopping | TRestarting | TStopped
| TStoppingIn (f : sid)   (* 'stopping (<name>)' *)
| TRestartingIn (f : sid) (* 'restarting (<name>)' *)
| TError                  (* repr of the exception *)
| TFinal (k : Z)          (* text given to final_status, identified by its code *)
| TNoFinal.               (* 'Finish was returned without final status' *)

Definition text_eqb (a b : text) : bool :=
  match a, b with
  | TEmpty, TEmpty | TStopping, TStopping | TRestarting, TRestarting | TStopped, TStopped
  | TError, TError | TNoFinal, TNoFinal => true
  | TName f, TName g | TStoppingIn f, TStoppingIn g | TRestartingIn f, TRestartingIn g => Nat.eqb f g
  | TFinal k, TFinal k' => Z.eqb k k'
  | _, _ => false
  end.

Definition status := (Z * text)%type.

Record hs := {
  core : sm;
  st : status;               (* sm.status = what read_status returns *)
  idle : option status;      (* sm.idle_status *)
  log : list status;         (* every status the module parameter was updated with (newest first) *)
}.

Section Layer.
Variable C : codes.
Variable scode : sid -> option Z.        (* status code attached to a state function by @status_code, if any *)
Variable reset_idle : bool.              (* start_machine passes idle_status=(IDLE, '') with the start request *)

(* get_status(statefunc, default_code) *)
Definition get_status (idle_st : option status) (f : option sid) (dflt : option Z) : option status :=
  match f with
  | None => Some (match idle_st with Some s => s | None => (c_error C, TNoFinal) end)
  | Some g => match scode g with
              | Some c => Some (c, TName g)
              | None => match dflt with Some d => Some (d, TName g) | None => None end
              end
  end.

Definition pend_kind := option task.

(* state_transition(sm, newstate), with the task pending at that moment *)
Definition transition (h_st : status) (h_idle : option status) (pend : pend_kind) (newstate : option sid) : status :=
  let s0 := get_status h_idle newstate None in
  let s1 :=
    match pend with
    | Some (TStop _) =>
        match newstate, s0 with
        | Some g, Some (c, _) => Some (c, TStoppingIn g)
        | _, _ => s0
        end
    | Some (TStart _ f _ _) =>
        match newstate with
        | Some g =>
            match s0 with
            | Some (c, t) => if text_eqb (snd h_st) t then Some h_st else Some (fst h_st, TRestartingIn g)
            | None => None
            end
        | None => get_status h_idle (Some f) (Some (c_busy C))
        end
    | None => s0
    end in
  match s1 with Some s => s | None => h_st end.

(* the automaton over the events of one cycle; pend is the task pending at the start, cleared when it is taken *)
Record acc := { a_st : status; a_idle : option status; a_pend : pend_kind; a_log : list status }.

Definition on_event (a : acc) (e : event) : acc :=
  match e with
  | EvTrans _ f =>
      let s := transition (a_st a) (a_idle a) (a_pend a) f in
      {| a_st := s; a_idle := a_idle a; a_pend := a_pend a; a_log := s :: a_log a |}   (* all_status_changes: read_status *)
  | EvPickup _ _ =>
      {| a_st := a_st a;
         a_idle := match a_pend a with
                   | Some (TStart _ _ _ _) => if reset_idle then Some (c_idle C, TEmpty) else a_idle a
                   | _ => a_idle a
                   end;
         a_pend := None; a_log := a_log a |}
  | EvFinal k => {| a_st := a_st a; a_idle := Some (k, TFinal k); a_pend := a_pend a; a_log := a_log a |}
  | EvCleanup _ _ 0 =>                      (* on_cleanup -> on_error -> final_status(ERROR, repr) *)
      {| a_st := a_st a; a_idle := Some (c_error C, TError); a_pend := a_pend a; a_log := a_log a |}
  | _ => a
  end.

Definition new_events (before after : sm) : list event :=
  rev (firstn (length (trace after) - length (trace before)) (trace after)).

Inductive hop :=
| HStart (tid : nat) (f : sid) (kw : list (nat * Z))   (* start_machine(f, **kw) with the default cleanup on_cleanup *)
| HStop (tid : nat)                                    (* stop_machine() *)
| HCycle.                                              (* cycle_machine() *)

Definition is_active (s : sm) : bool := match statefunc s with Some _ => true | None => false end.

Definition hstep (W : world) (maxloops rounds : nat) (h : hs) (o : hop) : hs :=
  match o with
  | HStart tid f kw =>
      let s0 := match get_status (idle h) (Some f) (Some (c_busy C)) with Some s => s | None => st h end in
      let s1 := if is_active (core h) then (fst s0, TRestarting) else s0 in
      {| core := post (core h) (TStart tid f (Some 0) kw); st := s1; idle := idle h; log := s1 :: log h |}
  | HStop tid =>
      if is_active (core h) then
        let c := match get_status (idle h) (statefunc (core h)) (Some (fst (st h))) with
                 | Some s => fst s | None => fst (st h) end in
        let s1 := (c, TStopping) in
        {| core := post (core h) (TStop tid); st := s1; idle := Some (c_idle C, TStopped); log := s1 :: log h |}
      else h
  | HCycle =>
      let c' := cycle W maxloops rounds (core h) in
      let a := fold_left on_event (new_events (core h) c')
                 {| a_st := st h; a_idle := idle h; a_pend := next_task (core h); a_log := log h |} in
      {| core := c'; st := a_st a; idle := a_idle a; log := a_st a :: a_log a |}          (* read_status at the end *)
  end.

Definition hs0 : hs :=
  {| core := sm0; st := (c_idle C, TEmpty); idle := Some (c_idle C, TEmpty); log := [] |}.

Definition hrun (W : world) (maxloops rounds : nat) (ops : list hop) : hs :=
  fold_left (hstep W maxloops rounds) ops hs0.

End Layer.
