(* C14 — the HasStates layer of frappy/states.py on top of the state machine model: status derivation
   (state_transition, get_status), start_machine / stop_machine / final_status / on_cleanup, cycle_machine.
   start_machine / stop_machine are issued between cycles (operations HStart / HStop) and at every hook inside a cycle
   (what the world posts at hook n is a call of start_machine resp. stop_machine at that point: from the body of a
   state or cleanup function, or from a second thread).  Executable definitions only. *)
From Coq Require Import List Arith ZArith Bool.
Import ListNotations.
Require Import FV.Base.Util FV.C14.Model.

(* status codes of frappy.datatypes.StatusType used by the layer (values come from FV.Gen.C14) *)
Record codes := { c_idle : Z; c_busy : Z; c_error : Z }.

(* texts, abstracted: the decisions of state_transition only compare texts for equality *)
Inductive text :=
| TEmpty                  (* '' *)
| TName (f : sid)         (* name of a state function *)
| TStopping | TRestarting | TStopped
| TStoppingIn (f : sid)   (* 'stopping (<name>)' *)
| TRestartingIn (f : sid) (* 'restarting (<name>)' *)
| TError                  (* repr of the exception *)
| TFinal (k : Z)          (* text given to final_status, identified by its code *)
| TNoFinal.               (* 'Finish was returned without final status' *)

Definition text_eqb (a b : text) : bool :=
  match a, b with
  | TEmpty, TEmpty | TStopping, TStopping | TRestarting, TRestarting | TStopped, TStopped
  | TError, TError | TNoFinal, TNoFinal => true
  | TName f, TName g | TStoppingIn f, TStoppingIn g | TRestartingIn f, TRestartingIn g => Nat.eqb f g
  | TFinal k, TFinal k' => Z.eqb k k'
  | _, _ => false
  end.

Definition status := (Z * text)%type.

Record hs := {
  core : sm;
  st : status;               (* sm.status = what read_status returns *)
  idle : option status;      (* sm.idle_status *)
  log : list status;         (* every status the module parameter was updated with (newest first) *)
  own : status;              (* specification side: the final status of the run in progress - what this run itself (its state
                                functions through final_status, its error handler, a stop request during it) has set, default
                                (IDLE, ''); never read by the model of the code *)
  late : bool;               (* specification side: a stop_machine took effect inside the transition callback of the
                                finishing transition (finding C14/stop-while-finishing) *)
}.

Section Layer.
Variable C : codes.
Variable scode : sid -> option Z.        (* status code attached to a state function by @status_code, if any *)
Variable reset_idle : bool.              (* start_machine passes idle_status=(IDLE, '') with the start request *)
Variable assign_idle : bool.             (* variant: start_machine assigns sm.idle_status = (IDLE, '') itself, at call time *)

(* get_status(statefunc, default_code) *)
Definition get_status (idle_st : option status) (f : option sid) (dflt : option Z) : option status :=
  match f with
  | None => Some (match idle_st with Some s => s | None => (c_error C, TNoFinal) end)
  | Some g => match scode g with
              | Some c => Some (c, TName g)
              | None => match dflt with Some d => Some (d, TName g) | None => None end
              end
  end.

Definition pend_kind := option task.

(* state_transition(sm, newstate), with the task pending at that moment *)
Definition transition (h_st : status) (h_idle : option status) (pend : pend_kind) (newstate : option sid) : status :=
  let s0 := get_status h_idle newstate None in
  let s1 :=
    match pend with
    | Some (TStop _) =>
        match newstate, s0 with
        | Some g, Some (c, _) => Some (c, TStoppingIn g)
        | _, _ => s0
        end
    | Some (TStart _ f _ _) =>
        match newstate with
        | Some g =>
            match s0 with
            | Some (c, t) => if text_eqb (snd h_st) t then Some h_st else Some (fst h_st, TRestartingIn g)
            | None => None
            end
        | None => get_status h_idle (Some f) (Some (c_busy C))
        end
    | None => s0
    end in
  match s1 with Some s => s | None => h_st end.

Definition with_core (h : hs) (c : sm) : hs :=
  {| core := c; st := st h; idle := idle h; log := log h; own := own h; late := late h |}.

Definition is_active (s : sm) : bool := active s.

(* start_machine(f, ...) apart from the posting of the request: immediate status, read_status.
   c' is the machine after the request has been posted; the tests read the machine before *)
Definition h_start (h : hs) (c' : sm) (f : sid) : hs :=
  let s0 := match get_status (idle h) (Some f) (Some (c_busy C)) with Some s => s | None => st h end in
  let s1 := if is_active (core h) then (fst s0, TRestarting) else s0 in
  {| core := c'; st := s1; idle := if assign_idle then Some (c_idle C, TEmpty) else idle h; log := s1 :: log h;
     own := own h; late := false |}.

(* stop_machine() on an active machine apart from the posting: idle_status = stopped status, status 'stopping' *)
Definition h_stop (h : hs) (c' : sm) (fin : bool) : hs :=
  let c := match get_status (idle h) (statefunc (core h)) (Some (fst (st h))) with
           | Some s => fst s | None => fst (st h) end in
  let s1 := (c, TStopping) in
  {| core := c'; st := s1; idle := Some (c_idle C, TStopped); log := s1 :: log h;
     own := (c_idle C, TStopped); late := fin || late h |}.

(* final_status(code, text) *)
Definition set_final (h : hs) (s : status) : hs :=
  {| core := core h; st := st h; idle := Some s; log := log h; own := s; late := late h |}.

(* a hook of the machine seen from the layer: what the world posts there is a start_machine / stop_machine call.
   fin: the hook is the transition callback of the finishing transition (new state None) *)
Definition h_hook (W : world) (fin : bool) (h : hs) : hs :=
  let n := ctr (core h) in
  let c' := hook W (core h) in
  match w_env W n with
  | None => with_core h c'
  | Some (TStart _ f _ _) => h_start h c' f
  | Some (TStop i) => if suppressed W n (TStop i) (core h) then with_core h c' else h_stop h c' fin
  end.

(* ---- the cycle of the state machine with the layer's callbacks: transition = state_transition, cleanup = on_cleanup
   (cleanup function 0) or a function given to start_machine, final_status called by state functions.  The control flow
   repeats Model.turn/inner/round/outer literally; the projection lemma core_h_cycle (HasStatesLemmas.v) shows that the
   core component is exactly Model.cycle. *)
Definition h_new_state (W : world) (h : hs) (f : option sid) : hs :=
  let s' := transition (st h) (idle h) (next_task (core h)) f in
  let h1 := {| core := emit (core h) (EvTrans (active (core h)) f); st := s'; idle := idle h;
               log := s' :: log h; own := own h; late := late h |} in        (* all_status_changes: read_status *)
  let h2 := h_hook W (match f with None => true | Some _ => false end) h1 in
  with_core h2 (set_statefunc (set_init (core h2) true) f).

(* _cleanup(reason); on_cleanup (function 0) -> on_error -> final_status(ERROR, repr) when the reason is an exception *)
Definition h_do_cleanup (W : world) (h : hs) (r : reason) : hs * option sid :=
  let c0 := emit (core h) (EvInt (reason_code r)) in
  let c1 := match cleanup_reason c0 with None => set_reason c0 (Some r) | Some _ => c0 end in
  match cleanup c1 with
  | None => (with_core h c1, None)
  | Some (owner, c) =>
      let h1l := h_hook W false (with_core h c1) in
      let c2 := set_cleanup (core h1l) None in
      let rc := match cleanup_reason c2 with Some r' => reason_code r' | None => 0 end in
      let c3 := emit c2 (EvCleanup owner c rc) in
      let n := ctr c3 in
      let h3 := if Nat.eqb c 0 && Nat.eqb rc 0 then set_final (with_core h1l c3) (c_error C, TError)
                else with_core h1l c3 in
      let h4 := h_hook W false h3 in
      match w_c W n with
      | CNext f => (h4, Some f)
      | CNone | CNonCallable | CRaise => (h4, None)
      end
  end.

Inductive hdecision := HRet (h : hs) (r : iret) | HGo (h : hs).

Definition h_after_cleanup (W : world) (p : hs * option sid) : hdecision :=
  match snd p with
  | None => HRet (fst p) IBreak
  | Some f => HGo (h_new_state W (fst p) (Some f))
  end.

Definition h_turn (W : world) (h : hs) : hdecision :=
  let h := h_hook W false h in
  match next_task (core h), cleanup_reason (core h) with
  | Some t, None => h_after_cleanup W (h_do_cleanup W h (RTask t))
  | _, _ =>
      match statefunc (core h) with
      | None => HRet h IBreak
      | Some f =>
          let n := ctr (core h) in
          let h1 := h_hook W false (with_core h (emit (core h) (EvCall f (init (core h))))) in
          match w_s W n with
          | BRetry => HRet (with_core h1 (set_init (core h1) false)) IReturn
          | BFinish => HRet (with_core h1 (set_init (core h1) false)) IBreak
          | BFinal c =>
              HRet (set_final (with_core h1 (set_init (emit (core h1) (EvFinal c)) false)) (c, TFinal c)) IBreak
          | BNext g => HGo (h_new_state W (with_core h1 (set_init (core h1) false)) (Some g))
          | BNonCallable => h_after_cleanup W (h_do_cleanup W (with_core h1 (set_init (core h1) false)) RExc)
          | BRaise => h_after_cleanup W (h_do_cleanup W h1 RExc)
          end
      end
  end.

Fixpoint h_inner (W : world) (k : nat) (h : hs) : hs * iret :=
  match k with
  | 0 => (h, IExhausted)
  | S k' => match h_turn W h with
            | HRet h' r => (h', r)
            | HGo h' => h_inner W k' h'
            end
  end.

(* the statements under and after the lock of the pick-up *)
Definition h_pickup_locked (W : world) (h : hs) : hs :=
  match next_task (core h) with
  | None => h
  | Some (TStop _) => with_core h (pickup_locked W (core h))
  | Some (TStart i f cl kw) =>
      (* cleanup_reason := None, then _new_state(newstate) with next_task already cleared, then the attributes
         (idle_status among them when start_machine passed it) *)
      let c2 := emit (set_reason (set_next_task (core h) None) None)
                     (EvPickup i (match cl with Some _ => true | None => false end)) in
      let h3 := h_new_state W (with_core h c2) (Some f) in
      let c4 := set_attrs (set_cleanup (core h3) (match cl with Some c => Some (i, c) | None => None end))
                          (upd_all kw (attrs (core h3))) in
      {| core := c4; st := st h3; idle := if reset_idle then Some (c_idle C, TEmpty) else idle h3; log := log h3;
         own := (c_idle C, TEmpty);          (* a new run begins *)
         late := late h3 |}
  end.

Definition h_pickup (W : world) (h : hs) : hs :=
  match next_task (core h) with
  | None => h
  | Some _ => h_pickup_locked W (h_hook W false h)
  end.

Definition h_round (W : world) (maxloops : nat) (h : hs) : hs * bool :=
  match statefunc (core h) with
  | Some _ =>
      let '(h1, r) := h_inner W maxloops h in
      match r with
      | IReturn => (h1, false)
      | IBreak => (h_pickup W (h_new_state W h1 None), true)
      | IExhausted =>
          let '(h2, ret) := h_do_cleanup W h1 RExc in
          match ret with
          | Some f => (h_new_state W h2 (Some f), true)
          | None => (h_pickup W (h_new_state W h2 None), true)
          end
      end
  | None => (h_pickup W h, true)
  end.

Fixpoint h_outer (W : world) (maxloops : nat) (k : nat) (h : hs) : hs :=
  match k with
  | 0 => h
  | S k' => let '(h', go) := h_round W maxloops h in
            if go then h_outer W maxloops k' h' else h'
  end.

Inductive hop :=
| HStart (tid : nat) (f : sid) (cl : cid) (kw : list (nat * Z))   (* start_machine(f, cleanup=..., **kw); cleanup 0 = on_cleanup *)
| HStop (tid : nat)                                    (* stop_machine() *)
| HCycle.                                              (* cycle_machine() *)

Definition hstep (W : world) (maxloops rounds : nat) (h : hs) (o : hop) : hs :=
  match o with
  | HStart tid f cl kw => h_start h (post (core h) (TStart tid f (Some cl) kw)) f
  | HStop tid => if is_active (core h) then h_stop h (post (core h) (TStop tid)) false else h
  | HCycle =>
      let h' := h_outer W maxloops rounds h in
      {| core := core h'; st := st h'; idle := idle h'; log := st h' :: log h'; own := own h'; late := late h' |}   (* read_status at the end *)
  end.

Definition hs0 : hs :=
  {| core := sm0; st := (c_idle C, TEmpty); idle := Some (c_idle C, TEmpty); log := [];
     own := (c_idle C, TEmpty); late := false |}.

Definition hrun (W : world) (maxloops rounds : nat) (ops : list hop) : hs :=
  fold_left (hstep W maxloops rounds) ops hs0.

End Layer.
