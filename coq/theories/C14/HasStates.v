(* C14 — the HasStates layer of frappy/states.py on top of the state machine model: status derivation
   (state_transition, get_status), start_machine / stop_machine / final_status / on_cleanup, cycle_machine.
   No interference inside a cycle is modelled here (operations are issued between cycles; the world's w_env is
   meant to be the constant None).  Executable definitions only. *)
From Coq Require Import List Arith ZArith Bool.
Import ListNotations.
Require Import FV.Base.Util FV.C14.Model.

(* status codes of frappy.datatypes.StatusType used by the layer (values come from FV.Gen.C14) *)
Record codes := { c_idle : Z; c_busy : Z; c_error : Z }.

(* texts, abstracted: the decisions of state_transition only compare texts for equality *)
Inductive text :=
| TEmpty                  (* '' *)
| TName (f : sid)         (* name of a state function *)
| TStopping | TRestarting | TStopped
| TStoppingIn (f : sid)   (* 'stopping (<name>)' *)
| TRestartingIn (f : sid) (* 'restarting (<name>)' *)
| TError                  (* repr of the exception *)
| TFinal (k : Z)          (* text given to final_status, identified by its code *)
| TNoFinal.               (* 'Finish was returned without final status' *)

Definition text_eqb (a b : text) : bool :=
  match a, b with
  | TEmpty, TEmpty | TStopping, TStopping | TRestarting, TRestarting | TStopped, TStopped
  | TError, TError | TNoFinal, TNoFinal => true
  | TName f, TName g | TStoppingIn f, TStoppingIn g | TRestartingIn f, TRestartingIn g => Nat.eqb f g
  | TFinal k, TFinal k' => Z.eqb k k'
  | _, _ => false
  end.

Definition status := (Z * text)%type.

Record hs := {
  core : sm;
  st : status;               (* sm.status = what read_status returns *)
  idle : option status;      (* sm.idle_status *)
  log : list status;         (* every status the module parameter was updated with (newest first) *)
}.

Section Layer.
Variable C : codes.
Variable scode : sid -> option Z.        (* status code attached to a state function by @status_code, if any *)
Variable reset_idle : bool.              (* start_machine passes idle_status=(IDLE, '') with the start request *)

(* get_status(statefunc, default_code) *)
Definition get_status (idle_st : option status) (f : option sid) (dflt : option Z) : option status :=
  match f with
  | None => Some (match idle_st with Some s => s | None => (c_error C, TNoFinal) end)
  | Some g => match scode g with
              | Some c => Some (c, TName g)
              | None => match dflt with Some d => Some (d, TName g) | None => None end
              end
  end.

Definition pend_kind := option task.

(* state_transition(sm, newstate), with the task pending at that moment *)
Definition transition (h_st : status) (h_idle : option status) (pend : pend_kind) (newstate : option sid) : status :=
  let s0 := get_status h_idle newstate None in
  let s1 :=
    match pend with
    | Some (TStop _) =>
        match newstate, s0 with
        | Some g, Some (c, _) => Some (c, TStoppingIn g)
        | _, _ => s0
        end
    | Some (TStart _ f _ _) =>
        match newstate with
        | Some g =>
            match s0 with
            | Some (c, t) => if text_eqb (snd h_st) t then Some h_st else Some (fst h_st, TRestartingIn g)
            | None => None
            end
        | None => get_status h_idle (Some f) (Some (c_busy C))
        end
    | None => s0
    end in
  match s1 with Some s => s | None => h_st end.

(* ---- the cycle of the state machine with the layer's callbacks: transition = state_transition, cleanup = on_cleanup,
   final_status called by state functions.  The control flow repeats Model.turn/inner/round/outer literally; the
   projection lemma core_h_cycle (HasStatesLemmas.v) shows that the core component is exactly Model.cycle. *)
Definition h_new_state (W : world) (h : hs) (f : option sid) : hs :=
  let s' := transition (st h) (idle h) (next_task (core h)) f in
  {| core := new_state W (core h) f; st := s'; idle := idle h; log := s' :: log h |}.   (* all_status_changes: read_status *)

(* on_cleanup -> on_error -> final_status(ERROR, repr): only when the cleanup function is really called *)
Definition h_do_cleanup (W : world) (h : hs) (r : reason) : hs * option sid :=
  let '(c', ret) := do_cleanup W (core h) r in
  let stored := match cleanup_reason (core h) with Some r' => r' | None => r end in
  let called := match cleanup (core h) with Some _ => true | None => false end in
  ({| core := c'; st := st h;
      idle := if called && Nat.eqb (reason_code stored) 0 then Some (c_error C, TError) else idle h;
      log := log h |}, ret).

Inductive hdecision := HRet (h : hs) (r : iret) | HGo (h : hs).

Definition h_after_cleanup (W : world) (p : hs * option sid) : hdecision :=
  match snd p with
  | None => HRet (fst p) IBreak
  | Some f => HGo (h_new_state W (fst p) (Some f))
  end.

Definition with_core (h : hs) (c : sm) : hs := {| core := c; st := st h; idle := idle h; log := log h |}.

Definition h_turn (W : world) (h : hs) : hdecision :=
  let h := with_core h (hook W (core h)) in
  match next_task (core h), cleanup_reason (core h) with
  | Some t, None => h_after_cleanup W (h_do_cleanup W h (RTask t))
  | _, _ =>
      match statefunc (core h) with
      | None => HRet h IBreak
      | Some f =>
          let n := ctr (core h) in
          let c1 := hook W (emit (core h) (EvCall f (init (core h)))) in
          match w_s W n with
          | BRetry => HRet (with_core h (set_init c1 false)) IReturn
          | BFinish => HRet (with_core h (set_init c1 false)) IBreak
          | BFinal c =>
              HRet {| core := set_init (emit c1 (EvFinal c)) false; st := st h; idle := Some (c, TFinal c); log := log h |} IBreak
          | BNext g => HGo (h_new_state W (with_core h (set_init c1 false)) (Some g))
          | BNonCallable => h_after_cleanup W (h_do_cleanup W (with_core h (set_init c1 false)) RExc)
          | BRaise => h_after_cleanup W (h_do_cleanup W (with_core h c1) RExc)
          end
      end
  end.

Fixpoint h_inner (W : world) (k : nat) (h : hs) : hs * iret :=
  match k with
  | 0 => (h, IExhausted)
  | S k' => match h_turn W h with
            | HRet h' r => (h', r)
            | HGo h' => h_inner W k' h'
            end
  end.

Definition h_pickup (W : world) (h : hs) : hs :=
  match next_task (core h) with
  | None => h
  | Some (TStop _) => with_core h (pickup W (core h))
  | Some (TStart _ f _ _) =>
      (* cleanup_reason := None, then _new_state(newstate) with next_task already cleared, then the attributes *)
      let c1 := emit (set_reason (set_next_task (core h) None) None)
                     (EvPickup (task_id (match next_task (core h) with Some t => t | None => TStop 0 end))
                               (match next_task (core h) with Some (TStart _ _ (Some _) _) => true | _ => false end)) in
      let s' := transition (st h) (idle h) None (Some f) in
      {| core := pickup W (core h); st := s';
         idle := if reset_idle then Some (c_idle C, TEmpty) else idle h;
         log := s' :: log h |}
  end.

Definition h_round (W : world) (maxloops : nat) (h : hs) : hs * bool :=
  match statefunc (core h) with
  | Some _ =>
      let '(h1, r) := h_inner W maxloops h in
      match r with
      | IReturn => (h1, false)
      | IBreak => (h_pickup W (h_new_state W h1 None), true)
      | IExhausted =>
          let '(h2, ret) := h_do_cleanup W h1 RExc in
          match ret with
          | Some f => (h_new_state W h2 (Some f), true)
          | None => (h_pickup W (h_new_state W h2 None), true)
          end
      end
  | None => (h_pickup W h, true)
  end.

Fixpoint h_outer (W : world) (maxloops : nat) (k : nat) (h : hs) : hs :=
  match k with
  | 0 => h
  | S k' => let '(h', go) := h_round W maxloops h in
            if go then h_outer W maxloops k' h' else h'
  end.

Inductive hop :=
| HStart (tid : nat) (f : sid) (kw : list (nat * Z))   (* start_machine(f, **kw) with the default cleanup on_cleanup *)
| HStop (tid : nat)                                    (* stop_machine() *)
| HCycle.                                              (* cycle_machine() *)

Definition is_active (s : sm) : bool := match statefunc s with Some _ => true | None => false end.

Definition hstep (W : world) (maxloops rounds : nat) (h : hs) (o : hop) : hs :=
  match o with
  | HStart tid f kw =>
      let s0 := match get_status (idle h) (Some f) (Some (c_busy C)) with Some s => s | None => st h end in
      let s1 := if is_active (core h) then (fst s0, TRestarting) else s0 in
      {| core := post (core h) (TStart tid f (Some 0) kw); st := s1; idle := idle h; log := s1 :: log h |}
  | HStop tid =>
      if is_active (core h) then
        let c := match get_status (idle h) (statefunc (core h)) (Some (fst (st h))) with
                 | Some s => fst s | None => fst (st h) end in
        let s1 := (c, TStopping) in
        {| core := post (core h) (TStop tid); st := s1; idle := Some (c_idle C, TStopped); log := s1 :: log h |}
      else h
  | HCycle =>
      let h' := h_outer W maxloops rounds h in
      {| core := core h'; st := st h'; idle := idle h'; log := st h' :: log h' |}          (* read_status at the end *)
  end.

Definition hs0 : hs :=
  {| core := sm0; st := (c_idle C, TEmpty); idle := Some (c_idle C, TEmpty); log := [] |}.

Definition hrun (W : world) (maxloops rounds : nat) (ops : list hop) : hs :=
  fold_left (hstep W maxloops rounds) ops hs0.

End Layer.
