(* C14 - vacuity audit: every property theorem with premises is applied at a concrete, non-trivial instance
   (worlds of the shape Run.mk_world / Run.hworld build: association tables with defaults, w_guard constant). *)
From Coq Require Import List Arith ZArith Bool Lia.
Import ListNotations.
Require Import FV.Base.Util FV.Gen.C14 FV.C14.Model FV.C14.Lemmas FV.C14.HasStates FV.C14.HasStatesLemmas FV.C14.Conc
  FV.C14.ConcLemmas FV.C14.Properties.

(* ------------------------------------------------------------------ core machine, quiet world *)
Definition nvW : world :=
  {| w_s := fun _ => BRetry; w_c := fun _ => CNext 7; w_env := fun _ => None; w_guard := fun _ => false |}.
Lemma nvW_quiet : quiet nvW.
Proof. intro n. reflexivity. Qed.

(* (a) pending start taken at once: the machine runs state 1 with a cleanup installed, a restart is posted between the
   cycles; the round interrupts, the cleanup sequence is entered (go = false: the start stays pending) *)
Definition nv_opsA : list op := [OPost (TStart 0 1 (Some 5) [(0, 4%Z)]); OCycle; OPost (TStart 2 2 None [(0, 9%Z); (1, 3%Z)])].
Example C14_last_start_wins_applies_deferred :
  let s := run nvW maxloops outer_rounds nv_opsA in
  let r := round nvW maxloops s in
  statefunc s = Some 1 /\ snd r = false /\
  next_task (fst r) = Some (TStart 2 2 None [(0, 9%Z); (1, 3%Z)]) /\ statefunc (fst r) <> None /\
  cleanup_reason (fst r) <> None.
Proof.
  intros s r.
  pose proof (C14_last_start_wins nvW nv_opsA 2 2 None [(0, 9%Z); (1, 3%Z)] nvW_quiet eq_refl) as H.
  cbv zeta in H. fold s in H. fold r in H.
  assert (G : snd r = false) by (vm_compute; reflexivity).
  split; [reflexivity|]. split; [exact G|].
  destruct r as [s' go]. simpl in G. subst go. exact H.
Qed.
(* (b) from an idle machine with old attributes: go = true, attributes updated exactly *)
Definition nvW2 : world :=
  {| w_s := fun n => if Nat.ltb n 4 then BFinish else BRetry; w_c := fun _ => CNone; w_env := fun _ => None;
     w_guard := fun _ => false |}.
Definition nv_opsB : list op :=
  [OPost (TStart 0 1 None [(0, 4%Z); (2, 1%Z)]); OCycle; OPost (TStop 1); OPost (TStart 2 2 (Some 6) [(0, 9%Z); (1, 3%Z)])].
Example C14_last_start_wins_applies_taken :
  let s := run nvW2 maxloops outer_rounds nv_opsB in
  let r := round nvW2 maxloops s in
  statefunc s = None /\ attrs s = [(0, 4%Z); (2, 1%Z)] /\ snd r = true /\
  statefunc (fst r) = Some 2 /\ init (fst r) = true /\ next_task (fst r) = None /\ cleanup (fst r) = Some (2, 6) /\
  attrs (fst r) = [(0, 9%Z); (2, 1%Z); (1, 3%Z)].
Proof.
  intros s r.
  pose proof (C14_last_start_wins nvW2 nv_opsB 2 2 (Some 6) [(0, 9%Z); (1, 3%Z)] (fun n => eq_refl) eq_refl) as H.
  cbv zeta in H. fold s in H. fold r in H.
  assert (G : snd r = true) by (vm_compute; reflexivity).
  split; [reflexivity|]. split; [reflexivity|]. split; [exact G|].
  destruct r as [s' go]. simpl in G. subst go. destruct H as [H1 [H2 [H3 [_ [H5 H6]]]]].
  simpl fst. repeat split; try assumption; try (rewrite H6; reflexivity).
Qed.

Example C14_stop_inactive_applies :
  let s := run nvW maxloops outer_rounds [OPost (TStart 0 1 None [(0, 4%Z)]); OCycle; OCycle; OPost (TStop 3)] in
  let r := round nvW maxloops s in
  statefunc s = Some 1 /\ snd r = true /\ statefunc (fst r) = None /\ next_task (fst r) = None /\ attrs (fst r) = attrs s.
Proof.
  intros s r.
  pose proof (C14_stop_inactive nvW [OPost (TStart 0 1 None [(0, 4%Z)]); OCycle; OCycle; OPost (TStop 3)] 3
                nvW_quiet eq_refl) as H.
  cbv zeta in H. fold s in H. fold r in H.
  assert (G : snd r = true) by (vm_compute; reflexivity).
  split; [reflexivity|]. split; [exact G|].
  destruct r as [s' go]. simpl in G. subst go. destruct H as [H1 [H2 [_ H4]]]. repeat split; assumption.
Qed.

Example C14_attrs_applies :
  lookup 1 (upd_all ([(1, 5%Z); (2, 6%Z)] ++ (1, 7%Z) :: [(3, 8%Z)]) [(1, 0%Z); (4, 2%Z)]) = Some 7%Z /\
  lookup 4 (upd_all [(1, 5%Z); (2, 6%Z)] [(1, 0%Z); (4, 2%Z)]) = lookup 4 [(1, 0%Z); (4, 2%Z)].
Proof.
  split.
  - apply C14_attrs_exact. simpl. intros [H|[]]; discriminate.
  - apply C14_attrs_frame. simpl. intros [H|[H|[]]]; discriminate.
Qed.

(* ------------------------------------------------------------------ two threads *)
Definition nv_sched : list clabel :=
  post_steps tA ++ [LCycle; LCycle; LPost tB; LPost tB; LPost tB; LCycle; LCycle; LCycle; LPost tB; LPost tB; LPost tB].
Example C14_no_request_lost_explicit_applies :
  let c := crun pickup_reads_under_lock nv_sched in
  c_posted c = [tB; tA] /\
  (In tA (c_picked c) \/ c_nt c = Some tA \/ [tB] <> []) /\ (In tB (c_picked c) \/ c_nt c = Some tB \/ @nil task <> []).
Proof.
  intro c. split; [reflexivity|]. split.
  - apply (C14_no_request_lost_explicit nv_sched [tB] tA []). reflexivity.
  - apply (C14_no_request_lost_explicit nv_sched [] tB [tA]). reflexivity.
Qed.
Example C14_picked_were_posted_applies : In tA (c_posted (crun pickup_reads_under_lock nv_sched)).
Proof. apply C14_picked_requests_were_posted. vm_compute. left; reflexivity. Qed.
Example C14_pending_newest_applies : exists l, c_posted (crun pickup_reads_under_lock nv_sched) = tB :: l.
Proof. apply C14_pending_request_is_newest. reflexivity. Qed.

(* the hook at the acquisition of the lock posts a stop while a start is pending *)
Definition nvW3 : world :=
  {| w_s := fun _ => BRetry; w_c := fun _ => CNone; w_env := fun n => if Nat.eqb n 0 then Some tB else None;
     w_guard := fun _ => false |}.
Example C14_model_pickup_applies :
  let s := post sm0 tA in
  let c' := fold_left (cstep pickup_reads_under_lock)
                      (LCycle :: env_post nvW3 s ++ [LCycle; LCycle; LCycle; LCycle]) (cinit (next_task s)) in
  env_post nvW3 s <> [] /\
  exists t, next_task (hook nvW3 s) = Some t /\ c_picked c' = [t] /\ c_nt c' = None.
Proof.
  intros s c'. split; [vm_compute; discriminate|].
  destruct (C14_model_pickup_is_a_schedule nvW3 s tA eq_refl) as [t [A [B [D _]]]].
  exists t. repeat split; assumption.
Qed.

(* ------------------------------------------------------------------ HasStates layer: worlds as Run.hworld builds them *)
Definition nv_scode : sid -> option Z := fun f => assoc_nat f [(1, status_busy); (2, (status_busy + 10)%Z)].
Lemma nv_scode_busy : forall f c, nv_scode f = Some c -> busyb gcodes c = true.
Proof.
  intros f c. unfold nv_scode. destruct f as [|[|[|f]]]; simpl; intro H; inversion H; reflexivity.
Qed.
(* start_machine from the body of a state function (hook 3), stop_machine from a later body; both guarded *)
Definition nvH : world :=
  {| w_s := fun n => match assoc_nat n [(3, BNext 2); (6, BFinal 150%Z)] with Some b => b | None => BRetry end;
     w_c := fun _ => CNone;
     w_env := fun n => assoc_nat n [(3, TStart 77 1 None [])];
     w_guard := fun _ => true |}.
Lemma nvH_guarded : guarded nvH.
Proof. intro n. reflexivity. Qed.
Definition nv_hrun (W : world) (ops : list hop) : hs :=
  hrun gcodes nv_scode start_resets_idle_status start_assigns_idle_status W maxloops outer_rounds ops.

Example C14_status_busy_applies :
  let h := nv_hrun nvH [HStart 0 1 0 []; HCycle] in
  (is_active (core h) = true \/ pending_start (core h) = true) /\ busyb gcodes (fst (st h)) = true.
Proof.
  intro h. assert (A : is_active (core h) = true \/ pending_start (core h) = true) by (left; vm_compute; reflexivity).
  split; [exact A|].
  apply (C14_status_busy_while_running nv_scode nvH [HStart 0 1 0 []; HCycle] nvH_guarded nv_scode_busy). exact A.
Qed.

(* a world whose runs end: state 1 finishes with final_status, restart posted from its body at hook 3 *)
Definition nvH2 : world :=
  {| w_s := fun n => BFinal (Z.of_nat n);
     w_c := fun _ => CNone;
     w_env := fun n => assoc_nat n [(3, TStart 77 2 None [])];
     w_guard := fun _ => true |}.
Definition nv_hops2 : list hop := [HStart 0 1 0 []; HCycle; HCycle; HStop 5; HCycle].
Example C14_nonvacuous_hs2 :
  let h := nv_hrun nvH2 nv_hops2 in
  is_active (core h) = false /\ pending_start (core h) = false /\ late h = false /\
  length (filter (fun e => match e with EvPickup _ _ => true | _ => false end) (trace (core h))) = 2.
Proof. vm_compute. repeat split; reflexivity. Qed.

Example C14_status_final_applies :
  let h := nv_hrun nvH2 nv_hops2 in st h = idle_or_default gcodes (idle h).
Proof.
  intro h.
  apply (C14_status_final_when_inactive_except_stop_while_finishing nv_scode nvH2 nv_hops2 (fun n => eq_refl));
    vm_compute; reflexivity.
Qed.
Example C14_status_is_own_applies :
  let h := nv_hrun nvH2 nv_hops2 in st h = own h.
Proof.
  intro h. apply (C14_status_is_own_final_status nv_scode nvH2 nv_hops2 (fun n => eq_refl)).
  - intros n i. unfold nvH2; simpl. destruct n as [|[|[|[|n]]]]; simpl; discriminate.
  - vm_compute; reflexivity.
  - vm_compute; reflexivity.
Qed.

(* stop_machine at a hook (body of the state function, hook 3), taking effect while active: late stays false *)
Definition nvH3 : world :=
  {| w_s := fun n => if Nat.ltb n 5 then BRetry else BFinal 120%Z;
     w_c := fun _ => CNone;
     w_env := fun n => assoc_nat n [(3, TStop 88)];
     w_guard := fun _ => true |}.
Definition nv_hops3 : list hop := [HStart 0 1 0 []; HCycle; HCycle; HCycle].
Example C14_status_is_own_except_applies :
  let h := nv_hrun nvH3 nv_hops3 in
  late h = false /\ is_active (core h) = false /\ pending_start (core h) = false /\ st h = own h /\
  snd (own h) = TStopped.
Proof.
  intro h.
  assert (A : late h = false) by (vm_compute; reflexivity).
  assert (B : is_active (core h) = false) by (vm_compute; reflexivity).
  assert (D : pending_start (core h) = false) by (vm_compute; reflexivity).
  split; [exact A|]. split; [exact B|]. split; [exact D|]. split; [|vm_compute; reflexivity].
  apply (C14_status_is_own_final_status_except_stop_while_finishing nv_scode nvH3 nv_hops3 (fun n => eq_refl)); assumption.
Qed.
