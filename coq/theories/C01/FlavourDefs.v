(* C01 - candidate values with a container flavour (definitions only; imported by Run.v).

   The shared value type pyval (Base/PyVal.v) has one mapping constructor, PDict.  A candidate offered to
   validate / __call__ may hold mappings of two flavours: a plain dict (what import_value and a driver's literal
   give) and a frozen mapping (frappy.datatypes.ImmutableDict: what StructOf.__call__ and StructOf.validate return,
   what a parameter holds).  cval is the candidate syntax that keeps the flavour of every mapping at every depth;
   erase forgets it.  The modelled code asks a candidate mapping only `isinstance(value, dict)`, `set(value)` and
   `value.items()` (StructOf.check_type, the member loop) - all three are the same for both flavours - so the model
   of validation on flavoured candidates is the shared model after erase (cv_validate, cv_call).  That this is what
   the code does is checked by the correspondence (frozen candidates are run on the real implementation, Run.v) and
   pinned by the translator fact containers_validate_no_shortcut. *)
From Coq Require Import ZArith NArith Bool List.
Import ListNotations.
Require Import FV.Base.PyVal FV.C01.Model.

Inductive cval :=
| CLeaf (v : pyval)                                (* any value whose mappings (if any) are all plain dicts *)
| CList (l : list cval)
| CTuple (l : list cval)
| CDict (frozen : bool) (kv : list (str * cval)).  (* frozen = true: ImmutableDict, false: dict *)

Fixpoint erase (c : cval) : pyval :=
  match c with
  | CLeaf v => v
  | CList l => PList (map erase l)
  | CTuple l => PTuple (map erase l)
  | CDict _ kv => PDict (map (fun p : str * cval => let (k, x) := p in (k, erase x)) kv)
  end.

(* every mapping made a plain dict, at every depth *)
Fixpoint thaw (c : cval) : cval :=
  match c with
  | CLeaf v => CLeaf v
  | CList l => CList (map thaw l)
  | CTuple l => CTuple (map thaw l)
  | CDict _ kv => CDict false (map (fun p : str * cval => let (k, x) := p in (k, thaw x)) kv)
  end.

(* does the candidate hold a frozen mapping somewhere (used for the non-vacuity examples and the evidence) *)
Fixpoint has_frozen (c : cval) : bool :=
  match c with
  | CLeaf _ => false
  | CList l | CTuple l => existsb has_frozen l
  | CDict b kv => b || existsb (fun p : str * cval => has_frozen (snd p)) kv
  end.

Definition cv_call (d : dtype) (c : cval) : res pyval := dt_call d (erase c).
Definition cv_validate (d : dtype) (c : cval) (prev : pyval) : res pyval := dt_validate d (erase c) prev.
