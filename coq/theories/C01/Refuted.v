(* C01 — witnesses (vm_compute) for the clause that does not hold on the pinned tree.

   Idempotence at a scaled leaf whose grid index exceeds 2^52: ScaledInteger(scale=0.1, min=4324572605243166.5,
   max=8649145210486333.0).validate(4324572605243167.0) returns 4324572605243166.5 (the lower limit; the offered
   value passes the window test "min - scale < value" only because it is one ulp above min, and is then rounded
   to the grid), and validating this result again raises RangeError: at this magnitude min - scale rounds to min,
   so "min - scale < min" is false.  Reproduced on the real implementation (notes/C01.md). *)
From Coq Require Import ZArith NArith Bool List.
Import ListNotations.
Require Import FV.Base.F64 FV.Base.PyVal FV.C01.Model FV.C01.IdemDefs FV.C01.Lemmas FV.C01.Idem.

Definition huge_scale : f64 := fmk 3602879701896397 (-55).          (* 0.1 *)
Definition huge_min : f64 := fmk 8649145210486333 (-1).              (* 4324572605243166.5 *)
Definition huge_max : f64 := fmk 8649145210486333 0.                 (* 8649145210486333.0 *)
Definition huge_d : dtype := TScaled huge_scale huge_min huge_max.
Definition huge_v : pyval := PFloat (fmk 4324572605243167 0).        (* one ulp above min *)
Definition huge_w : pyval := PFloat huge_min.

Theorem C01_refuted_idempotent_scaled_huge : exists d v w,
  wf d /\ idem_dt d = true /\
  res_same (dt_validate d v PNone) (Ok w) = true /\
  res_same (dt_validate d w PNone) (Err ERange) = true /\
  scaled_ok d w = false.
Proof. exists huge_d, huge_v, huge_w. repeat split; vm_compute; reflexivity. Qed.

(* which half of the side condition fails: the value is reproduced by the grid rounding, the strict window test fails *)
Example C01_scaled_huge_which :
  res_same (scaled_call huge_scale huge_w) (Ok huge_w) = true /\
  f_lt_num (fsub huge_min huge_scale) huge_w = false.
Proof. split; vm_compute; reflexivity. Qed.
