(* C01 — witnesses (computed) of the places where the pinned implementation, and therefore the faithful model,
   violates the property.  Each corresponds to an open entry of known_findings.json and is replayed on the real code
   by corpus/C01/findings_and_boundaries.json. *)
From Coq Require Import ZArith NArith Bool List.
Import ListNotations.
Require Import FV.Base.Util FV.Base.F64 FV.Base.PyVal FV.C01.Model FV.C01.Lemmas.

Definition E0 : pyenv := {| int_of := [(false, [53%N], 5%Z)]; b64_of := [(false, [33%N; 33%N; 33%N; 33%N], [])] |}.
Definition i05 := TInt 0 5.
Definition s01 := TScaled (fmk 1 (-1)) fzero (of_Z 10).      (* scale 0.5, 0 .. 10 *)
Definition sa := [97%N].

(* totality fails: a number offered for a tuple leaks TypeError out of import_value *)
Theorem C01_refuted_import_noniterable : exists d j, res_same (wire E0 d j PNone) (Err EType) = true.
Proof. exists (TTuple [i05]), (PInt 5). vm_compute. reflexivity. Qed.

(* totality fails: a string offered for a struct leaks ValueError *)
Theorem C01_refuted_struct_from_str : exists d j, res_same (wire E0 d j PNone) (Err EValue) = true.
Proof. exists (TStruct [(sa, i05)] [] false), (PStr [97%N; 98%N]). vm_compute. reflexivity. Qed.

(* totality fails: an infinite value for a scaled integer leaks OverflowError, nan leaks ValueError *)
Theorem C01_refuted_scaled_nonfinite :
  res_same (dt_validate s01 (PFloat (finf false)) PNone) (Err EOverflow) = true /\
  res_same (dt_validate s01 (PFloat fnan) PNone) (Err EValue) = true.
Proof. split; vm_compute; reflexivity. Qed.

(* silent reinterpretation: the JSON string "5" is imported as the number 5*scale *)
Theorem C01_refuted_scaled_import_string :
  res_same (dt_import E0 s01 (PStr [53%N])) (Ok (PFloat (fmk 5 (-1)))) = true.
Proof. vm_compute. reflexivity. Qed.

(* silent reinterpretation: the fraction 2.5 is truncated to 2 steps *)
Theorem C01_refuted_scaled_import_fraction :
  res_same (dt_import E0 s01 (PFloat (fmk 5 (-1)))) (dt_import E0 s01 (PInt 2)) = true.
Proof. vm_compute. reflexivity. Qed.

(* silent reinterpretation: undecodable base64 is accepted as the empty blob *)
Theorem C01_refuted_blob_lax : res_same (wire E0 (TBlob 0 10) (PStr [33%N; 33%N; 33%N; 33%N]) PNone) (Ok (PBytes [])) = true.
Proof. vm_compute. reflexivity. Qed.

(* the offered array is truncated to the length of the value currently held *)
Theorem C01_refuted_array_truncated :
  res_same (dt_validate (TArray i05 0 5) (PList [PInt 1; PInt 2; PInt 3]) (PTuple [PInt 1; PInt 2]))
           (Ok (PTuple [PInt 1; PInt 2])) = true.
Proof. vm_compute. reflexivity. Qed.

(* a string is taken as the list of its characters *)
Theorem C01_refuted_sequence_from_str :
  res_same (wire E0 (TArray (TString 0 10 false) 0 5) (PStr [97%N; 98%N]) PNone)
           (Ok (PTuple [PStr [97%N]; PStr [98%N]])) = true.
Proof. vm_compute. reflexivity. Qed.

(* an over-long list for a tuple is truncated by import_value and then accepted *)
Theorem C01_refuted_tuple_import_truncates :
  res_same (wire E0 (TTuple [i05]) (PList [PInt 1; PInt 2]) PNone) (Ok (PTuple [PInt 1])) = true.
Proof. vm_compute. reflexivity. Qed.

(* None for a mandatory member: the result {} lacks the member and is rejected when validated again *)
Theorem C01_refuted_struct_none_mandatory :
  let d := TStruct [(sa, i05)] [] false in
  res_same (dt_validate d (PDict [(sa, PNone)]) PNone) (Ok (PDict [])) = true /\
  res_same (dt_validate d (PDict []) PNone) (Err EWrongType) = true.
Proof. split; vm_compute; reflexivity. Qed.
