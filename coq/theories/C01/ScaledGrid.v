(* C01 — ScaledInteger on grids of realistic size: when the scale is a normal number not above 2^900 and the limits
   are at most 2^48 steps away from zero, every value returned by validate satisfies the side condition scaled_leaf_ok
   (it is reproduced by the rounding to the grid and lies strictly inside min - scale < value < max + scale).
   Error analysis with Flocq: each operation errs by at most 2^-53 relative plus 2^-1075 absolute. *)
From Coq Require Import ZArith Bool Reals Lra Lia List.
From Flocq Require Import Core.Zaux Core.Raux Core.Defs Core.Generic_fmt Core.Float_prop Core.FIX Core.FLT
  Core.Ulp Relative IEEE754.BinarySingleNaN.
Require Import FV.Base.F64 FV.Base.F64Lemmas FV.Base.PyVal FV.C01.Model FV.C01.IdemDefs FV.C01.Lemmas FV.C01.F64More.

Local Open Scope R_scope.

Definition rnd (x : R) : R := round radix2 (FLT_exp (3 - emax - prec) prec) (round_mode mode_NE) x.
Definition uu : R := / 2 * bpow radix2 (- prec + 1).          (* 2^-53 *)
Definition eta : R := / 2 * bpow radix2 (3 - emax - prec).    (* 2^-1075 *)

Lemma uu_val : uu = bpow radix2 (-53).
Proof. unfold uu, prec. change (/ 2) with (bpow radix2 (-1)). rewrite <- bpow_plus. reflexivity. Qed.
Lemma eta_val : eta = bpow radix2 (-1075).
Proof. unfold eta, prec, emax. change (/ 2) with (bpow radix2 (-1)). rewrite <- bpow_plus. reflexivity. Qed.
Lemma uu_pos : 0 < uu. Proof. rewrite uu_val. apply bpow_gt_0. Qed.
Lemma eta_pos : 0 < eta. Proof. rewrite eta_val. apply bpow_gt_0. Qed.

Lemma rnd_err (x : R) : Rabs (rnd x - x) <= uu * Rabs x + eta.
Proof.
  destruct (error_N_FLT radix2 (3 - emax - prec) prec prec_gt_0_64 (fun x => negb (Z.even x)) x)
    as (eps & et & He & Ht & _ & Hr).
  unfold rnd. cbn [round_mode]. rewrite Hr.
  replace (x * (1 + eps) + et - x) with (x * eps + et) by ring.
  eapply Rle_trans; [apply Rabs_triang|]. rewrite Rabs_mult.
  apply Rplus_le_compat; [|exact Ht].
  rewrite Rmult_comm. apply Rmult_le_compat_r; [apply Rabs_pos|exact He].
Qed.

Lemma rnd_generic (x : R) : generic_format radix2 (FLT_exp (3 - emax - prec) prec) x -> rnd x = x.
Proof. intros H. apply round_generic; [apply valid_rnd_round_mode|exact H]. Qed.

Lemma rnd_IZR (k : Z) : (Z.abs k <= 2 ^ 53)%Z -> rnd (IZR k) = IZR k.
Proof.
  intros Hk. apply rnd_generic.
  destruct (Z.eq_dec (Z.abs k) (2 ^ 53)) as [E|N].
  - assert (Hc : IZR k = bpow radix2 53 \/ IZR k = - bpow radix2 53).
    { change (bpow radix2 53) with (IZR (2 ^ 53)). destruct (Z.abs_spec k) as [[_ A]|[_ A]]; rewrite A in E.
      - left. rewrite E. reflexivity.
      - right. rewrite <- opp_IZR. f_equal. lia. }
    destruct Hc as [-> | ->]; [|apply generic_format_opp];
      apply generic_format_FLT_bpow; try apply prec_gt_0_64; unfold emax, prec; lia.
  - apply generic_format_FLT. exists (Float radix2 k 0).
    + unfold F2R. cbn. ring.
    + cbn [Fnum]. change (Zpower radix2 prec) with (2 ^ 53)%Z. lia.
    + cbn [Fexp]. unfold emax, prec. lia.
Qed.

Lemma rnd_ge_bpow53 (x : R) : bpow radix2 53 <= Rabs x -> bpow radix2 53 <= Rabs (rnd x).
Proof.
  intros H. unfold rnd.
  apply abs_round_ge_generic; [apply fexp_correct; apply prec_gt_0_64|apply valid_rnd_round_mode| |exact H].
  apply generic_format_FLT_bpow; try apply prec_gt_0_64. unfold emax, prec; lia.
Qed.

(* ------------------------------------------------------------------ float operations without overflow *)
Lemma B2SF_inf_not_finite (r : f64) s : B2SF r = SpecFloat.S754_infinity s -> is_finite r = false.
Proof. intros H. apply B2SF_inf in H. subst. reflexivity. Qed.

Lemma fmul_R (a b : f64) : is_finite (fmul a b) = true -> is_finite a = true -> is_finite b = true ->
  B2R (fmul a b) = rnd (B2R a * B2R b).
Proof.
  intros F Fa Fb. pose proof (Bmult_correct prec emax _ _ mode_NE a b) as H.
  destruct (Rlt_bool _ _); [apply H|]. cbn in H. apply B2SF_inf_not_finite in H. unfold fmul in F. congruence.
Qed.

Lemma fdiv_R (a b : f64) : is_finite (fdiv a b) = true -> B2R b <> 0 ->
  B2R (fdiv a b) = rnd (B2R a / B2R b).
Proof.
  intros F Zb. pose proof (Bdiv_correct prec emax _ _ mode_NE a b Zb) as H.
  destruct (Rlt_bool _ _); [apply H|]. cbn in H. apply B2SF_inf_not_finite in H. unfold fdiv in F. congruence.
Qed.

Lemma fdiv_finite (a b : f64) : is_finite a = true -> B2R b <> 0 ->
  Rabs (rnd (B2R a / B2R b)) < bpow radix2 emax -> is_finite (fdiv a b) = true.
Proof.
  intros Fa Zb Hlt. pose proof (Bdiv_correct prec emax _ _ mode_NE a b Zb) as H.
  fold (rnd (B2R a / B2R b)) in H. rewrite Rlt_bool_true in H by exact Hlt.
  destruct H as (_ & H & _). unfold fdiv. rewrite H. exact Fa.
Qed.

Lemma fsub_R (a b : f64) : is_finite a = true -> is_finite b = true ->
  Rabs (rnd (B2R a - B2R b)) < bpow radix2 emax ->
  is_finite (fsub a b) = true /\ B2R (fsub a b) = rnd (B2R a - B2R b).
Proof.
  intros Fa Fb Hlt. pose proof (Bminus_correct prec emax _ _ mode_NE a b Fa Fb) as H.
  fold (rnd (B2R a - B2R b)) in H. rewrite Rlt_bool_true in H by exact Hlt.
  destruct H as (H1 & H2 & _). split; assumption.
Qed.

Lemma fadd_R (a b : f64) : is_finite a = true -> is_finite b = true ->
  Rabs (rnd (B2R a + B2R b)) < bpow radix2 emax ->
  is_finite (fadd a b) = true /\ B2R (fadd a b) = rnd (B2R a + B2R b).
Proof.
  intros Fa Fb Hlt. pose proof (Bplus_correct prec emax _ _ mode_NE a b Fa Fb) as H.
  fold (rnd (B2R a + B2R b)) in H. rewrite Rlt_bool_true in H by exact Hlt.
  destruct H as (H1 & H2 & _). split; assumption.
Qed.

(* round(x) of a finite float is the nearest integer, ties to even *)
Lemma fround_Znearest (q : f64) : is_finite q = true ->
  fround q = Znearest (fun x => negb (Z.even x)) (B2R q).
Proof.
  intros Fq. unfold fround. set (y := Bnearbyint mode_NE q).
  destruct (Bnearbyint_correct prec emax _ mode_NE q) as (Hy & Fy & _). fold y in Hy, Fy.
  pose proof (Btrunc_correct prec emax _ y) as Ht.
  rewrite Hy in Ht. cbn [round_mode] in Ht. rewrite !round_FIX_IZR in Ht.
  rewrite Ztrunc_IZR in Ht. apply eq_IZR in Ht. exact Ht.
Qed.

Lemma float_of_Z_R (k : Z) (kf : f64) : float_of_Z k = Some kf -> is_finite kf = true /\ B2R kf = rnd (IZR k).
Proof. intros H. destruct (float_of_Z_spec k kf H) as [A B]. split; [exact A|exact B]. Qed.

(* ------------------------------------------------------------------ numerals *)
Lemma uu_num : uu = / 9007199254740992.
Proof. rewrite uu_val. reflexivity. Qed.
Lemma bpow50 : bpow radix2 50 = 1125899906842624. Proof. reflexivity. Qed.
Lemma bpow49 : bpow radix2 49 = 562949953421312. Proof. reflexivity. Qed.
Lemma bpow48 : bpow radix2 48 = 281474976710656. Proof. reflexivity. Qed.
Lemma bpow53 : bpow radix2 53 = 9007199254740992. Proof. reflexivity. Qed.

(* eta is at most 2^-53 times a normal number *)
Lemma eta_le (S : R) : bpow radix2 (-1022) <= S -> eta <= uu * S.
Proof.
  intros H. rewrite eta_val, uu_val. replace (-1075)%Z with (-53 + -1022)%Z by reflexivity. rewrite bpow_plus.
  apply Rmult_le_compat_l; [apply bpow_ge_0|exact H].
Qed.

Lemma Rabs_rnd_le (x : R) : Rabs (rnd x) <= Rabs x + uu * Rabs x + eta.
Proof.
  pose proof (rnd_err x) as H. replace (rnd x) with ((rnd x - x) + x) by ring.
  eapply Rle_trans; [apply Rabs_triang|]. lra.
Qed.

Lemma Rabs_rnd_ge (x : R) : Rabs x - uu * Rabs x - eta <= Rabs (rnd x).
Proof.
  pose proof (rnd_err x) as H. replace x with (rnd x - (rnd x - x)) at 1 by ring.
  pose proof (Rabs_triang (rnd x) (- (rnd x - x))) as T. rewrite Rabs_Ropp in T.
  replace (rnd x + - (rnd x - x)) with (rnd x - (rnd x - x)) in T by ring.
  replace (rnd x - (rnd x - x)) with x in T at 2 by ring. 
  assert (Rabs (rnd x - (rnd x - x)) = Rabs x) as E by (f_equal; ring). rewrite E in T. rewrite E. lra.
Qed.

Record scale_ok (s : f64) : Prop := {
  so_fin : is_finite s = true;
  so_lo : bpow radix2 (-1022) <= B2R s;
  so_hi : B2R s <= bpow radix2 900;
}.

Lemma scale_pos s : scale_ok s -> 0 < B2R s.
Proof. intros [_ H _]. eapply Rlt_le_trans; [apply (bpow_gt_0 radix2 (-1022))|exact H]. Qed.

Lemma scale_shape s : scale_ok s -> exists m e B, s = B754_finite false m e B.
Proof.
  intros H. pose proof (scale_pos s H) as P. destruct H as [F _ _].
  destruct s as [sg|sg| |sg m e B]; try discriminate; cbn in P; try lra.
  destruct sg; [|eauto]. exfalso.
  assert (F2R (Float radix2 (cond_Zopp true (Z.pos m)) e) < 0) by (apply F2R_lt_0; cbn; lia). lra.
Qed.

Lemma below_emax (x : R) (S : R) : 0 < S -> S <= bpow radix2 900 -> Rabs x <= bpow radix2 51 * S ->
  Rabs (rnd x) < bpow radix2 emax.
Proof.
  intros PS HS Hx. pose proof (Rabs_rnd_le x) as H.
  assert (Hb : bpow radix2 51 * S <= bpow radix2 951).
  { replace 951%Z with (51 + 900)%Z by reflexivity. rewrite bpow_plus.
    apply Rmult_le_compat_l; [apply bpow_ge_0|exact HS]. }
  assert (Hu : uu * Rabs x <= Rabs x).
  { rewrite <- (Rmult_1_l (Rabs x)) at 2. apply Rmult_le_compat_r; [apply Rabs_pos|]. rewrite uu_num. lra. }
  assert (He : eta <= bpow radix2 951) by (rewrite eta_val; apply bpow_le; lia).
  assert (H3 : Rabs (rnd x) <= 3 * bpow radix2 951) by lra.
  eapply Rle_lt_trans; [exact H3|].
  assert (H4 : 3 * bpow radix2 951 <= bpow radix2 953).
  { replace 953%Z with (2 + 951)%Z by reflexivity. rewrite bpow_plus. change (bpow radix2 2) with 4.
    pose proof (bpow_ge_0 radix2 951). lra. }
  eapply Rle_lt_trans; [exact H4|]. apply bpow_lt. unfold emax. lia.
Qed.

(* ------------------------------------------------------------------ a grid value is reproduced by the rounding *)
Lemma regrid (s : f64) (k : Z) (kf w : f64) :
  scale_ok s -> float_of_Z k = Some kf -> w = fmul kf s -> is_finite w = true ->
  Rabs (B2R w) <= bpow radix2 49 * B2R s ->
  scaled_call s (PFloat w) = Ok (PFloat w).
Proof.
  intros Hs Hk Hw Fw Bw. pose proof (scale_pos s Hs) as PS. destruct Hs as [Fs S1 S2].
  destruct (float_of_Z_R k kf Hk) as [Fkf Rkf].
  set (S := B2R s) in *. set (Kf := B2R kf) in *.
  assert (RW : B2R w = rnd (Kf * S)).
  { rewrite Hw. apply fmul_R; [rewrite <- Hw; exact Fw|exact Fkf|exact Fs]. }
  pose proof (eta_le S S1) as HE.
  (* the grid index is small, hence exactly representable *)
  assert (BK : Rabs Kf < bpow radix2 50).
  { destruct (Rlt_or_le (Rabs Kf) (bpow radix2 50)) as [L|G]; [exact L|exfalso].
    pose proof (Rabs_rnd_ge (Kf * S)) as H. rewrite <- RW in H. rewrite Rabs_mult, (Rabs_pos_eq S) in H by lra.
    assert (G2 : bpow radix2 50 * S <= Rabs Kf * S) by (apply Rmult_le_compat_r; lra).
    rewrite bpow50 in G2. rewrite bpow49 in Bw. rewrite uu_num in *.
    set (AS := Rabs Kf * S) in *. lra. }
  assert (HkZ : (Z.abs k <= 2 ^ 53)%Z).
  { destruct (Z_le_gt_dec (Z.abs k) (2 ^ 53)) as [L|G]; [exact L|exfalso].
    assert (G2 : bpow radix2 53 <= Rabs (IZR k)).
    { rewrite <- abs_IZR. change (bpow radix2 53) with (IZR (2 ^ 53)). apply IZR_le. lia. }
    apply rnd_ge_bpow53 in G2. rewrite <- Rkf in G2.
    rewrite bpow50 in BK. rewrite bpow53 in G2. lra. }
  assert (EK : Kf = IZR k) by (rewrite Rkf; apply rnd_IZR; exact HkZ).
  destruct (scale_shape s (Build_scale_ok s Fs S1 S2)) as (ms & es & Bs & Es).
  destruct (Z.eq_dec k 0) as [K0|KN].
  - (* the grid origin *)
    subst k. cbn in Hk. inversion Hk; subst kf. subst w s. reflexivity.
  - (* |k| >= 1: w is a non-zero number close to k * S *)
    assert (K1 : 1 <= Rabs (IZR k)) by (rewrite <- abs_IZR; apply (IZR_le 1); lia).
    rewrite EK in *.
    pose proof (rnd_err (IZR k * S)) as E1. rewrite <- RW in E1.
    rewrite Rabs_mult, (Rabs_pos_eq S) in E1 by lra.
    assert (WN : B2R w <> 0).
    { intros Z0. rewrite Z0 in E1. rewrite Rminus_0_l, Rabs_Ropp, Rabs_mult, (Rabs_pos_eq S) in E1 by lra.
      assert (G2 : 1 * S <= Rabs (IZR k) * S) by (apply Rmult_le_compat_r; lra).
      rewrite uu_num in *. set (AS := Rabs (IZR k) * S) in *. lra. }
    assert (Hadd : fadd w fzero = w).
    { destruct w as [sg|sg| |sg mw ew Bw']; try discriminate; [exfalso; apply WN; reflexivity|reflexivity]. }
    assert (SN : B2R s <> 0) by (fold S; lra).
    set (D := B2R w / S).
    assert (ED : Rabs (D - IZR k) <= uu * Rabs (IZR k) + uu).
    { unfold D. replace (B2R w / S - IZR k) with ((B2R w - IZR k * S) / S) by (field; lra).
      unfold Rdiv. rewrite Rabs_mult, Rabs_inv, (Rabs_pos_eq S) by lra.
      apply (Rmult_le_reg_r S); [lra|]. rewrite Rmult_assoc, Rinv_l, Rmult_1_r by lra.
      rewrite Rmult_plus_distr_r. rewrite Rmult_assoc. lra. }
    assert (BD : Rabs D <= bpow radix2 49).
    { unfold D, Rdiv. rewrite Rabs_mult, Rabs_inv, (Rabs_pos_eq S) by lra.
      apply (Rmult_le_reg_r S); [lra|]. rewrite Rmult_assoc, Rinv_l, Rmult_1_r by lra. exact Bw. }
    assert (Fq : is_finite (fdiv w s) = true).
    { apply fdiv_finite; [exact Fw|exact SN|]. fold S D.
      apply (below_emax D 1); [lra|apply (bpow_ge_0 radix2 900) || (change 1 with (bpow radix2 0); apply bpow_le; lia)|].
      rewrite Rmult_1_r. eapply Rle_trans; [exact BD|]. apply bpow_le. lia. }
    pose proof (fdiv_R w s Fq SN) as RQ. fold S D in RQ.
    pose proof (rnd_err D) as E2. rewrite <- RQ in E2.
    assert (NEAR : Rabs (B2R (fdiv w s) - IZR k) < / 2).
    { replace (B2R (fdiv w s) - IZR k) with ((B2R (fdiv w s) - D) + (D - IZR k)) by ring.
      eapply Rle_lt_trans; [apply Rabs_triang|].
      assert (HK : Rabs (IZR k) < 1125899906842624) by (rewrite <- bpow50; exact BK).
      assert (HE2 : eta <= uu) by (rewrite eta_val, uu_val; apply bpow_le; lia).
      rewrite bpow49 in BD. rewrite uu_num in *.
      assert (T1 : / 9007199254740992 * Rabs D <= / 9007199254740992 * 562949953421312)
        by (apply Rmult_le_compat_l; lra).
      assert (T2 : / 9007199254740992 * Rabs (IZR k) <= / 9007199254740992 * 1125899906842624)
        by (apply Rmult_le_compat_l; lra).
      lra. }
    assert (RK : fround (fdiv w s) = k).
    { rewrite (fround_Znearest _ Fq). apply Znearest_imp. exact NEAR. }
    unfold scaled_call. cbn [py_add0 wrap_wrong]. rewrite Hadd.
    unfold py_round.
    assert (Nn : fis_nan (fdiv w s) = false) by (destruct (fdiv w s); try discriminate; reflexivity).
    assert (Ni : fis_inf (fdiv w s) = false) by (destruct (fdiv w s); try discriminate; reflexivity).
    rewrite Nn, Ni, RK. unfold py_int_mul_float. rewrite Hk. cbn [bind]. rewrite <- Hw. reflexivity.
Qed.

(* ------------------------------------------------------------------ the converted limits and the window *)
Lemma fadd_zero_R (a : f64) : is_finite a = true ->
  is_finite (fadd a fzero) = true /\ B2R (fadd a fzero) = B2R a.
Proof. destruct a as [[]|[]| |sg m e B]; try discriminate; intros _; split; reflexivity. Qed.

Lemma fmul_finite (a b : f64) : is_finite a = true -> is_finite b = true ->
  Rabs (rnd (B2R a * B2R b)) < bpow radix2 emax ->
  is_finite (fmul a b) = true /\ B2R (fmul a b) = rnd (B2R a * B2R b).
Proof.
  intros Fa Fb Hlt. pose proof (Bmult_correct prec emax _ _ mode_NE a b) as H.
  fold (rnd (B2R a * B2R b)) in H. rewrite Rlt_bool_true in H by exact Hlt.
  destruct H as (H1 & H2 & _). rewrite Fa, Fb in H2. split; assumption.
Qed.

Lemma scaled_call_form s v r : scaled_call s v = Ok (PFloat r) ->
  exists k kf, float_of_Z k = Some kf /\ r = fmul kf s.
Proof.
  unfold scaled_call. destruct (wrap_wrong (py_add0 v)) as [x|e]; [|discriminate].
  destruct (py_round (fdiv x s)) as [k|e]; [|discriminate]. unfold py_int_mul_float.
  destruct (float_of_Z k) as [kf|] eqn:E; cbn [bind]; [|discriminate].
  intros H. inversion H. eauto.
Qed.

Definition lim_ok (s m : f64) : Prop :=
  is_finite m = true /\ Rabs (B2R m) <= (bpow radix2 48 + 1) * B2R s.

(* ScaledInteger.__call__ of a limit: at most three quarters of a step away from the limit *)
Lemma grid_of_limit (s m g : f64) :
  scale_ok s -> lim_ok s m -> scaled_call s (PFloat m) = Ok (PFloat g) ->
  is_finite g = true /\ Rabs (B2R g - B2R m) <= 3 / 4 * B2R s.
Proof.
  intros Hs [Fm Bm] H. pose proof (scale_pos s Hs) as PS. pose proof Hs as [Fs S1 S2].
  set (S := B2R s) in *. set (M := B2R m) in *.
  pose proof (eta_le S S1) as HE.
  unfold scaled_call in H. cbn [py_add0 wrap_wrong] in H.
  destruct (fadd_zero_R m Fm) as [Fx Rx]. set (x := fadd m fzero) in *.
  unfold py_round in H.
  destruct (fis_nan (fdiv x s)) eqn:Nn; [discriminate|]. destruct (fis_inf (fdiv x s)) eqn:Ni; [discriminate|].
  assert (Fq : is_finite (fdiv x s) = true) by (destruct (fdiv x s); cbn in *; congruence).
  assert (SN : B2R s <> 0) by (fold S; lra).
  pose proof (fdiv_R x s Fq SN) as RQ. rewrite Rx in RQ. fold M S in RQ.
  set (y := M / S) in *. set (q := fdiv x s) in *.
  set (k := fround q) in *.
  unfold py_int_mul_float in H. destruct (float_of_Z k) as [kf|] eqn:Ek; cbn [bind] in H; [|discriminate].
  assert (Eg : g = fmul kf s) by (inversion H; reflexivity). clear H.
  destruct (float_of_Z_R k kf Ek) as [Fkf Rkf].
  (* |y| <= 2^48 + 1 *)
  assert (By : Rabs y <= bpow radix2 48 + 1).
  { unfold y, Rdiv. rewrite Rabs_mult, Rabs_inv, (Rabs_pos_eq S) by lra.
    apply (Rmult_le_reg_r S); [lra|]. rewrite Rmult_assoc, Rinv_l, Rmult_1_r by lra. exact Bm. }
  pose proof (rnd_err y) as E1. rewrite <- RQ in E1.
  assert (E2 : Rabs (B2R q - IZR k) <= / 2).
  { unfold k. rewrite (fround_Znearest q Fq). apply Znearest_half. }
  rewrite bpow48 in By.
  assert (HE2 : eta <= uu) by (rewrite eta_val, uu_val; apply bpow_le; lia).
  assert (Uy : uu * Rabs y <= / 16).
  { rewrite uu_num. apply Rle_trans with (/ 9007199254740992 * (281474976710656 + 1)); [apply Rmult_le_compat_l; lra|lra]. }
  (* |k| <= 2^48 + 2, exactly representable *)
  assert (Bk : Rabs (IZR k) <= 281474976710656 + 2).
  { replace (IZR k) with (y + ((B2R q - y) - (B2R q - IZR k))) by ring.
    eapply Rle_trans; [apply Rabs_triang|]. 
    assert (T : Rabs ((B2R q - y) - (B2R q - IZR k)) <= Rabs (B2R q - y) + Rabs (B2R q - IZR k)).
    { unfold Rminus at 1. eapply Rle_trans; [apply Rabs_triang|]. rewrite Rabs_Ropp. lra. }
    rewrite uu_num in *. lra. }
  assert (HkZ : (Z.abs k <= 2 ^ 53)%Z).
  { rewrite <- abs_IZR in Bk. 
    assert (IZR (Z.abs k) <= IZR (281474976710656 + 2)) by (rewrite plus_IZR; exact Bk).
    apply le_IZR in H. lia. }
  assert (EK : B2R kf = IZR k) by (rewrite Rkf; apply rnd_IZR; exact HkZ).
  assert (Uk : uu * Rabs (IZR k) <= / 16).
  { rewrite uu_num. apply Rle_trans with (/ 9007199254740992 * (281474976710656 + 2)); [apply Rmult_le_compat_l; lra|lra]. }
  destruct (fmul_finite kf s Fkf Fs) as [Fg Rg].
  { rewrite EK. fold S. apply (below_emax _ S PS S2). rewrite Rabs_mult, (Rabs_pos_eq S) by lra.
    apply Rmult_le_compat_r; [lra|]. change (bpow radix2 51) with 2251799813685248. lra. }
  rewrite <- Eg in Fg, Rg. rewrite EK in Rg. fold S in Rg.
  split; [exact Fg|].
  pose proof (rnd_err (IZR k * S)) as E3. rewrite <- Rg in E3. rewrite Rabs_mult, (Rabs_pos_eq S) in E3 by lra.
  fold M.
  assert (EM : M = y * S) by (unfold y; field; lra).
  replace (B2R g - M) with ((B2R g - IZR k * S) + ((IZR k - B2R q) + (B2R q - y)) * S) by (rewrite EM; ring).
  eapply Rle_trans; [apply Rabs_triang|]. rewrite Rabs_mult, (Rabs_pos_eq S) by lra.
  assert (T : Rabs ((IZR k - B2R q) + (B2R q - y)) <= / 2 + (uu * Rabs y + eta)).
  { eapply Rle_trans; [apply Rabs_triang|]. rewrite (Rabs_minus_sym (IZR k)). lra. }
  assert (T2 : Rabs ((IZR k - B2R q) + (B2R q - y)) * S <= (/ 2 + (/ 16 + uu)) * S).
  { apply Rmult_le_compat_r; lra. }
  assert (T3 : uu * (Rabs (IZR k) * S) <= / 16 * S).
  { rewrite <- Rmult_assoc. apply Rmult_le_compat_r; lra. }
  rewrite uu_num in *. lra.
Qed.

Lemma finite_key_le (a b : f64) : is_finite a = true -> is_finite b = true -> fle a b = true -> B2R a <= B2R b.
Proof.
  intros Fa Fb H. apply fle_true in H; try (apply notnan_finite; assumption). rewrite !key_finite in H by assumption. exact H.
Qed.

Lemma between_finite (lo w hi : f64) : is_finite lo = true -> is_finite hi = true ->
  fle lo w = true -> fle w hi = true -> is_finite w = true.
Proof.
  intros Fl Fh L1 L2. destruct w as [sg|[]| |sg m e B]; try reflexivity.
  - destruct lo; try discriminate; cbn in L1; discriminate.
  - destruct hi; try discriminate; cbn in L2; discriminate.
  - cbn in L1. destruct lo; discriminate.
Qed.

Lemma window_lo (s mn w : f64) :
  scale_ok s -> lim_ok s mn -> is_finite w = true -> B2R mn - 3 / 4 * B2R s <= B2R w ->
  flt (fsub mn s) w = true.
Proof.
  intros Hs [Fm Bm] Fw Hw. pose proof (scale_pos s Hs) as PS. pose proof Hs as [Fs S1 S2].
  set (S := B2R s) in *. set (M := B2R mn) in *. pose proof (eta_le S S1) as HE.
  assert (BZ : Rabs (M - S) <= (bpow radix2 48 + 2) * S).
  { unfold Rminus. eapply Rle_trans; [apply Rabs_triang|]. rewrite Rabs_Ropp, (Rabs_pos_eq S) by lra. lra. }
  destruct (fsub_R mn s Fm Fs) as [Ff Rf].
  { fold M S. apply (below_emax _ S PS S2). eapply Rle_trans; [exact BZ|].
    apply Rmult_le_compat_r; [lra|]. rewrite bpow48. change (bpow radix2 51) with 2251799813685248. lra. }
  fold M S in Rf. pose proof (rnd_err (M - S)) as E. rewrite <- Rf in E.
  apply flt_true; try (apply notnan_finite; assumption). rewrite !key_finite by assumption.
  rewrite bpow48 in BZ.
  assert (T : uu * Rabs (M - S) <= / 16 * S).
  { rewrite uu_num. apply Rle_trans with (/ 9007199254740992 * ((281474976710656 + 2) * S)); [apply Rmult_le_compat_l; lra|].
    rewrite <- Rmult_assoc. apply Rmult_le_compat_r; lra. }
  apply Rabs_le_inv in E. rewrite uu_num in *. lra.
Qed.

Lemma window_hi (s mx w : f64) :
  scale_ok s -> lim_ok s mx -> is_finite w = true -> B2R w <= B2R mx + 3 / 4 * B2R s ->
  flt w (fadd mx s) = true.
Proof.
  intros Hs [Fm Bm] Fw Hw. pose proof (scale_pos s Hs) as PS. pose proof Hs as [Fs S1 S2].
  set (S := B2R s) in *. set (M := B2R mx) in *. pose proof (eta_le S S1) as HE.
  assert (BZ : Rabs (M + S) <= (bpow radix2 48 + 2) * S).
  { eapply Rle_trans; [apply Rabs_triang|]. rewrite (Rabs_pos_eq S) by lra. lra. }
  destruct (fadd_R mx s Fm Fs) as [Ff Rf].
  { fold M S. apply (below_emax _ S PS S2). eapply Rle_trans; [exact BZ|].
    apply Rmult_le_compat_r; [lra|]. rewrite bpow48. change (bpow radix2 51) with 2251799813685248. lra. }
  fold M S in Rf. pose proof (rnd_err (M + S)) as E. rewrite <- Rf in E.
  apply flt_true; try (apply notnan_finite; assumption). rewrite !key_finite by assumption.
  rewrite bpow48 in BZ.
  assert (T : uu * Rabs (M + S) <= / 16 * S).
  { rewrite uu_num. apply Rle_trans with (/ 9007199254740992 * ((281474976710656 + 2) * S)); [apply Rmult_le_compat_l; lra|].
    rewrite <- Rmult_assoc. apply Rmult_le_compat_r; lra. }
  apply Rabs_le_inv in E. rewrite uu_num in *. lra.
Qed.

(* ------------------------------------------------------------------ from the boolean guard to the real-number facts *)
Lemma fmk_pow2 (e : Z) : (-1074 <= e <= 1023)%Z -> is_finite (fmk 1 e) = true /\ B2R (fmk 1 e) = bpow radix2 e.
Proof.
  intros He. unfold fmk.
  pose proof (binary_normalize_correct prec emax _ _ mode_NE 1 e false) as H. cbn zeta in H.
  assert (E : F2R (Float radix2 1 e) = bpow radix2 e) by (unfold F2R; cbn [Fnum Fexp]; ring).
  rewrite E in H.
  assert (G : round radix2 (FLT_exp (3 - emax - prec) prec) (round_mode mode_NE) (bpow radix2 e) = bpow radix2 e).
  { apply round_generic; [apply valid_rnd_round_mode|].
    apply generic_format_FLT_bpow; [apply prec_gt_0_64|unfold emax, prec; lia]. }
  rewrite Rlt_bool_true in H.
  - destruct H as (A & B & _). split; [exact B|]. rewrite A. exact G.
  - eapply Rle_lt_trans; [right; apply f_equal; exact G|].
    rewrite Rabs_pos_eq by apply bpow_ge_0. apply bpow_lt. unfold emax. lia.
Qed.

Lemma scaled_small_facts s mn mx : scaled_small s mn mx = true ->
  scale_ok s /\ lim_ok s mn /\ lim_ok s mx.
Proof.
  unfold scaled_small. intros H.
  apply andb_prop in H. destruct H as [H H6]. apply andb_prop in H. destruct H as [H H5].
  apply andb_prop in H. destruct H as [H H4]. apply andb_prop in H. destruct H as [H H3].
  apply andb_prop in H. destruct H as [H1 H2].
  rewrite fis_finite_is_finite2 in H3, H4.
  destruct (fmk_pow2 (-1022)) as [F1 R1]; [lia|]. destruct (fmk_pow2 900) as [F2 R2]; [lia|].
  destruct (fmk_pow2 48) as [F3 R3]; [lia|].
  assert (Fs : is_finite s = true) by (eapply between_finite; [exact F1|exact F2|exact H1|exact H2]).
  assert (Hs : scale_ok s).
  { constructor; [exact Fs| |].
    - rewrite <- R1. apply finite_key_le; assumption.
    - rewrite <- R2. apply finite_key_le; assumption. }
  split; [exact Hs|].
  pose proof (scale_pos s Hs) as PS. destruct Hs as [_ S1 S2]. set (S := B2R s) in *.
  pose proof (eta_le S S1) as HE.
  destruct (fmul_finite (fmk 1 48) s F3 Fs) as [Fb Rb].
  { rewrite R3. fold S. apply (below_emax _ S PS S2). rewrite Rabs_mult, (Rabs_pos_eq S), Rabs_pos_eq by (lra || apply bpow_ge_0).
    apply Rmult_le_compat_r; [lra|]. apply bpow_le. lia. }
  rewrite R3 in Rb. fold S in Rb.
  assert (Bb : B2R (fmul (fmk 1 48) s) <= (bpow radix2 48 + 1) * S).
  { pose proof (rnd_err (bpow radix2 48 * S)) as E. rewrite <- Rb in E.
    rewrite Rabs_mult, (Rabs_pos_eq S), (Rabs_pos_eq (bpow radix2 48)) in E by (lra || apply bpow_ge_0).
    apply Rabs_le_inv in E. rewrite bpow48 in *. rewrite uu_num in *.
    assert (T : / 9007199254740992 * (281474976710656 * S) <= / 16 * S).
    { rewrite <- Rmult_assoc. apply Rmult_le_compat_r; lra. }
    lra. }
  assert (L : forall m, is_finite m = true -> fle (fabs m) (fmul (fmk 1 48) s) = true -> lim_ok s m).
  { intros m Fm Hm. split; [exact Fm|].
    assert (Fa : is_finite (fabs m) = true) by (unfold fabs; rewrite is_finite_Babs; exact Fm).
    pose proof (finite_key_le _ _ Fa Fb Hm) as K. unfold fabs in K. rewrite B2R_Babs in K. fold S. lra. }
  split; apply L; assumption.
Qed.

Lemma res_same_refl_ok_local (w : f64) : res_same (Ok (PFloat w)) (Ok (PFloat w)) = true.
Proof. cbn. apply fsame_refl. Qed.

(* ------------------------------------------------------------------ the side condition holds on small grids *)
Theorem scaled_small_leaf_ok s mn mx v x :
  scaled_small s mn mx = true -> wf (TScaled s mn mx) -> scaled_validate s mn mx v = Ok x ->
  scaled_leaf_ok s mn mx x = true.
Proof.
  intros Hsm Hwf H. destruct (scaled_small_facts s mn mx Hsm) as (Hs & Lmn & Lmx).
  pose proof (scaled_validate_sound s mn mx v x Hwf H) as Hin.
  pose proof (scale_pos s Hs) as PS.
  unfold scaled_validate in H. pose proof (scaled_call_float s v) as F.
  destruct (scaled_call s v) as [y|e] eqn:Ey; [|discriminate]. destruct (F y eq_refl) as [r ->].
  destruct (f_lt_num _ v && num_lt_f v _); [|discriminate].
  cbn [wf] in Hwf. cbn [in_setb] in Hin.
  destruct (scaled_call s (PFloat mn)) as [[| | | lo | | | | | | |]|] eqn:Hlo; try discriminate.
  destruct (scaled_call s (PFloat mx)) as [[| | | hi | | | | | | |]|] eqn:Hhi; try discriminate.
  assert (Ex : x = PFloat (fclamp lo r hi)) by (inversion H; reflexivity). clear H. subst x.
  set (w := fclamp lo r hi) in *.
  apply andb_prop in Hin. destruct Hin as [L1 L2].
  destruct (grid_of_limit s mn lo Hs Lmn Hlo) as [Flo Dlo].
  destruct (grid_of_limit s mx hi Hs Lmx Hhi) as [Fhi Dhi].
  assert (Fw : is_finite w = true) by (eapply between_finite; [exact Flo|exact Fhi|exact L1|exact L2]).
  pose proof (finite_key_le _ _ Flo Fw L1) as K1. pose proof (finite_key_le _ _ Fw Fhi L2) as K2.
  apply Rabs_le_inv in Dlo. apply Rabs_le_inv in Dhi.
  destruct Lmn as [Fmn Bmn]. destruct Lmx as [Fmx Bmx].
  assert (Form : exists k kf, float_of_Z k = Some kf /\ w = fmul kf s).
  { unfold w, fclamp. destruct (clamp3_one_of flt lo r hi) as [E|[E|E]]; rewrite E;
      eapply scaled_call_form; eauto. }
  destruct Form as (k & kf & Hk & Hw).
  assert (Bw : Rabs (B2R w) <= bpow radix2 49 * B2R s).
  { apply Rabs_le. apply Rabs_le_inv in Bmn. apply Rabs_le_inv in Bmx. rewrite bpow48 in *. rewrite bpow49.
    set (S := B2R s) in *. split; lra. }
  unfold scaled_leaf_ok. rewrite (regrid s k kf w Hs Hk Hw Fw Bw). rewrite res_same_refl_ok_local.
  cbn [f_lt_num num_lt_f andb].
  rewrite (window_lo s mn w Hs (conj Fmn Bmn) Fw) by lra.
  rewrite (window_hi s mx w Hs (conj Fmx Bmx) Fw) by lra.
  reflexivity.
Qed.
