(* C01 — property theorems.  d ranges over ALL datatype trees (any depth and width), v/j over all modelled Python
   values, prev over None and every value of the type.  Clauses of the property and what is proved (for the tree
   with the eight "fix:" commits of known_findings.json applied):

   (sound)      validation never returns a value outside the declared value set (limits, lengths, membership,
                element-wise, mandatory struct members present)                           -- C01_validate_sound, C01_wire_sound
   (total)      import_value answers with a value, RangeError or WrongTypeError only     -- C01_import_total (unconditional)
                validate likewise                                                         -- C01_validate_total, under
                validate_guard: a struct's previous value is None/empty/a dict (always so for a parameter of that
                type); the int*float product of ScaledInteger can not overflow (Base/F64Repr.v)
   (canonical)  which JSON kinds denote a value of which type, lengths and leaf values preserved
                                                                                          -- C01_import_kinds, C01_array_length
   (idempotent) validate(validate(v)) = validate(v)                                      -- oracle + correspondence only (partial) *)
From Coq Require Import ZArith NArith Bool List.
Import ListNotations.
Require Import FV.Gen.C01 FV.Base.F64 FV.Base.PyVal FV.C01.Model FV.C01.Lemmas.

Theorem C01_source_facts :
  unlimited_is_2_64 = true /\ clamp_is_median_of_sorted = true /\ float_validate_shape = true /\
  int_validate_shape = true /\ scaled_validate_shape = true /\ generic_import_is_call = true /\
  containers_wrap_element_errors = true /\ sequences_check_before_import = true /\
  sequences_reject_str_bytes_dict = true /\ struct_requires_dict = true /\ blob_import_strict = true /\
  struct_checks_missing_after_merge = true.
Proof. repeat split; reflexivity. Qed.

Theorem C01_validate_sound : forall d, wf d -> forall v prev r,
  prev_ok d prev -> dt_validate d v prev = Ok r -> in_setb d r = true.
Proof. exact validate_sound. Qed.

Theorem C01_wire_sound : forall E d, wf d -> forall j prev r,
  prev_ok d prev -> wire E d j prev = Ok r -> in_setb d r = true.
Proof. exact wire_sound. Qed.

Theorem C01_import_total : forall E d j, okbad (dt_import E d j) = true.
Proof. exact import_total. Qed.

Theorem C01_validate_total : forall d v prev,
  validate_guard d v prev = true -> okbad (dt_validate d v prev) = true.
Proof. exact validate_total. Qed.

Theorem C01_wire_total : forall E d j prev, wire_guard E d j prev = true -> okbad (wire E d j prev) = true.
Proof. exact wire_total. Qed.

(* no silent reinterpretation at the level of JSON kinds: whatever import_value accepts has the kind the type
   prescribes, at every depth (a string is never taken as a number or as a list of characters, a number never as a
   sequence, only a mapping as a struct) *)
Theorem C01_import_kinds : forall E d j v, dt_import E d j = Ok v -> kind_ok d j = true.
Proof. exact import_kinds. Qed.

(* the offered array is neither truncated nor extended, whatever value is currently held *)
Theorem C01_array_length : forall e a b v prev items ys,
  py_iter v = Some items -> dt_validate (TArray e a b) v prev = Ok (PTuple ys) -> length ys = length items.
Proof. exact array_length_preserved. Qed.

(* the median-of-three clamp used for the resolution tolerance stays between its bounds, for all binary64 numbers,
   and returns a value that is inside the limits unchanged *)
Theorem C01_clamp_between : forall lo v hi,
  F64Lemmas.notnan lo -> F64Lemmas.notnan v -> F64Lemmas.notnan hi -> fle lo hi = true ->
  fle lo (fclamp lo v hi) = true /\ fle (fclamp lo v hi) hi = true /\
  (fle lo v = true -> fle v hi = true -> fclamp lo v hi = v).
Proof. exact F64Lemmas.fclamp_between. Qed.

(* non-vacuity and regression: a nested well-formed type, a value that validates into the set, guards that hold,
   and the repaired behaviour on the inputs of the former findings *)
Definition E0 : pyenv := {| int_of := []; b64_of := [(false, [89%N; 87%N; 74%N; 113%N], [97%N; 98%N; 99%N])] |}.
Definition i05 := TInt 0 5.
Definition s01 := TScaled (fmk 1 (-1)) fzero (of_Z 10).      (* scale 0.5, 0 .. 10 *)
Definition sa := [97%N].
Definition demo_d : dtype :=
  TStruct [([97%N], TArray (TFloat fzero (of_Z 10) fzero (fmk 1 (-20))) 0 3); ([98%N], s01)] [[98%N]] false.
Example C01_demo_wf : wf demo_d.
Proof. cbn [demo_d wf snd]. repeat split; vm_compute; reflexivity. Qed.
Example C01_demo_run :
  res_same (dt_validate demo_d (PDict [([97%N], PList [PInt 3; PFloat (of_Z 10)])]) PNone)
           (Ok (PDict [([97%N], PTuple [PFloat (of_Z 3); PFloat (of_Z 10)])])) = true /\
  validate_guard demo_d (PDict [([97%N], PList [PInt 3])]) PNone = true /\
  wire_guard E0 demo_d (PDict [([98%N], PInt 4)]) PNone = true.
Proof. repeat split; vm_compute; reflexivity. Qed.
Example C01_repaired_behaviour :
  res_same (wire E0 (TTuple [i05]) (PInt 5) PNone) (Err EWrongType) = true /\
  res_same (wire E0 (TTuple [i05]) (PList [PInt 1; PInt 2]) PNone) (Err EWrongType) = true /\
  res_same (wire E0 (TStruct [(sa, i05)] [] false) (PStr [97%N; 98%N]) PNone) (Err EWrongType) = true /\
  res_same (dt_validate s01 (PFloat (finf false)) PNone) (Err ERange) = true /\
  res_same (dt_validate s01 (PFloat fnan) PNone) (Err ERange) = true /\
  res_same (dt_import E0 s01 (PStr [53%N])) (Err EWrongType) = true /\
  res_same (dt_import E0 s01 (PFloat (fmk 5 (-1)))) (Err EWrongType) = true /\
  res_same (dt_import E0 s01 (PFloat (of_Z 2))) (dt_import E0 s01 (PInt 2)) = true /\
  res_same (wire E0 (TBlob 0 10) (PStr [33%N; 33%N; 33%N; 33%N]) PNone) (Err EWrongType) = true /\
  res_same (wire E0 (TBlob 0 10) (PStr [89%N; 87%N; 74%N; 113%N]) PNone) (Ok (PBytes [97%N; 98%N; 99%N])) = true /\
  res_same (dt_validate (TArray i05 0 5) (PList [PInt 1; PInt 2; PInt 3]) (PTuple [PInt 1; PInt 2]))
           (Ok (PTuple [PInt 1; PInt 2; PInt 3])) = true /\
  res_same (wire E0 (TArray (TString 0 10 false) 0 5) (PStr [97%N; 98%N]) PNone) (Err EWrongType) = true /\
  res_same (dt_validate (TStruct [(sa, i05)] [] false) (PDict [(sa, PNone)]) PNone) (Err EWrongType) = true /\
  res_same (dt_validate (TStruct [(sa, i05)] [] false) (PDict [(sa, PNone)]) (PDict [(sa, PInt 3)]))
           (Ok (PDict [(sa, PInt 3)])) = true.
Proof. repeat split; vm_compute; reflexivity. Qed.

Print Assumptions C01_source_facts.
Print Assumptions C01_validate_sound.
Print Assumptions C01_wire_sound.
Print Assumptions C01_import_total.
Print Assumptions C01_validate_total.
Print Assumptions C01_wire_total.
Print Assumptions C01_import_kinds.
Print Assumptions C01_array_length.
Print Assumptions C01_clamp_between.
