(* C01 — property theorems.  d ranges over ALL datatype trees (any depth and width), v/j over all modelled Python
   values, prev over None and every value of the type.  Clauses of the property and what is proved (for the tree
   with the eight "fix:" commits of known_findings.json applied):

   (sound)      validation never returns a value outside the declared value set (limits, lengths, membership,
                element-wise, mandatory struct members present)                           -- C01_validate_sound, C01_wire_sound
   (total)      import_value answers with a value, RangeError or WrongTypeError only     -- C01_import_total (unconditional)
                validate likewise                                                         -- C01_validate_total, under
                validate_guard: a struct's previous value is None/empty/a dict (always so for a parameter of that
                type); the int*float product of ScaledInteger can not overflow (Base/F64Repr.v)
   (canonical)  which JSON kinds denote a value of which type, lengths and leaf values preserved
                                                                                          -- C01_import_kinds, C01_array_length
                the returned value has the canonical representation kind of its type at every depth
                (double/scaled -> float, int -> int, bool -> bool, enum -> declared member, string -> str,
                blob -> bytes, array/tuple -> tuple of canonical members (tuple: right length), struct -> mapping
                with distinct declared keys)                                              -- C01_canonical_kind, C01_wire_canonical_kind
   (idempotent) validate(validate(v, prev)) = validate(v, prev), bit for bit, with previous None and with previous
                = the value itself, for every tree, every offered value and every stable previous value
                                                                                          -- C01_validate_idempotent_except_huge_grids,
                C01_wire_idempotent_except_huge_grids (all trees whose scaled leaves have at most 2^48 grid steps on
                either side of zero and a normal scale <= 2^900: small_grids d, a boolean on the datatype),
                C01_validate_idempotent_partial / C01_wire_idempotent_partial (all trees; at scaled leaves under the
                value-level side condition scaled_ok), C01_scaled_small_grid_regular (the side condition holds on
                small grids: Flocq error analysis), C01_stable_fixed_point,
                C01_refuted_idempotent_scaled_huge (Refuted.v: a grid beyond 2^52 steps where it fails)

   FULL STATEMENT of idempotence (false by Refuted.v, reproduced on the implementation):
     forall d, wf d -> idem_dt d = true -> forall v prev w, prev_st d prev -> dt_validate d v prev = Ok w ->
       res_same (dt_validate d w PNone) (Ok w) = true.
   Proved: the same with the extra hypothesis small_grids d = true (datatype level), and with the extra hypothesis
   scaled_ok d w = true (value level: at every scaled leaf of w the value is reproduced by ScaledInteger.__call__
   and lies strictly inside min - scale < value < max + scale).  Not proved: grids between 2^48 and 2^52 steps
   (covered only by the value-level statement); beyond 2^52 steps the statement is false.
   idem_dt d is what the constructors guarantee: limits of a double pass through FloatRange.__call__ (never the
   negative zero, never infinite), relative_resolution is a finite number, enum values are distinct; it is
   evaluated on every generated datatype by Run.check_case and pinned by two translator facts. *)
From Coq Require Import ZArith NArith Bool List.
Import ListNotations.
Require Import FV.Gen.C01 FV.Base.F64 FV.Base.PyVal FV.C01.Model FV.C01.IdemDefs FV.C01.Lemmas FV.C01.F64More FV.C01.Idem FV.C01.ScaledGrid FV.C01.IdemSmall FV.C01.Refuted FV.C01.FlavourDefs FV.C01.Flavour.

Theorem C01_source_facts :
  unlimited_is_2_64 = true /\ clamp_is_median_of_sorted = true /\ float_validate_shape = true /\
  int_validate_shape = true /\ scaled_validate_shape = true /\ generic_import_is_call = true /\
  containers_wrap_element_errors = true /\ sequences_check_before_import = true /\
  sequences_reject_str_bytes_dict = true /\ struct_requires_dict = true /\ blob_import_strict = true /\
  struct_checks_missing_after_merge = true /\ float_properties_pass_through_float_call = true /\
  enum_refuses_duplicates = true /\ containers_validate_no_shortcut = true.
Proof. repeat split; reflexivity. Qed.

Theorem C01_validate_sound : forall d, wf d -> forall v prev r,
  prev_ok d prev -> dt_validate d v prev = Ok r -> in_setb d r = true.
Proof. exact validate_sound. Qed.

Theorem C01_wire_sound : forall E d, wf d -> forall j prev r,
  prev_ok d prev -> wire E d j prev = Ok r -> in_setb d r = true.
Proof. exact wire_sound. Qed.

Theorem C01_import_total : forall E d j, okbad (dt_import E d j) = true.
Proof. exact import_total. Qed.

Theorem C01_validate_total : forall d v prev,
  validate_guard d v prev = true -> okbad (dt_validate d v prev) = true.
Proof. exact validate_total. Qed.

Theorem C01_wire_total : forall E d j prev, wire_guard E d j prev = true -> okbad (wire E d j prev) = true.
Proof. exact wire_total. Qed.

(* no silent reinterpretation at the level of JSON kinds: whatever import_value accepts has the kind the type
   prescribes, at every depth (a string is never taken as a number or as a list of characters, a number never as a
   sequence, only a mapping as a struct) *)
Theorem C01_import_kinds : forall E d j v, dt_import E d j = Ok v -> kind_ok d j = true.
Proof. exact import_kinds. Qed.

(* the offered array is neither truncated nor extended, whatever value is currently held *)
Theorem C01_array_length : forall e a b v prev items ys,
  py_iter v = Some items -> dt_validate (TArray e a b) v prev = Ok (PTuple ys) -> length ys = length items.
Proof. exact array_length_preserved. Qed.

(* the median-of-three clamp used for the resolution tolerance stays between its bounds, for all binary64 numbers,
   and returns a value that is inside the limits unchanged *)
Theorem C01_clamp_between : forall lo v hi,
  F64Lemmas.notnan lo -> F64Lemmas.notnan v -> F64Lemmas.notnan hi -> fle lo hi = true ->
  fle lo (fclamp lo v hi) = true /\ fle (fclamp lo v hi) hi = true /\
  (fle lo v = true -> fle v hi = true -> fclamp lo v hi = v).
Proof. exact F64Lemmas.fclamp_between. Qed.

(* ---- idempotence.  prev_st d prev: the value currently held is None or itself stable (stable d w: canonical
   shape and every leaf returned bit-identically by its leaf validation - which is what every earlier result of
   validate is, by the third conjunct) *)
Theorem C01_validate_idempotent_partial : forall d, wf d -> idem_dt d = true -> forall v prev w,
  prev_st d prev -> dt_validate d v prev = Ok w -> scaled_ok d w = true ->
  res_same (dt_validate d w PNone) (Ok w) = true /\ res_same (dt_validate d w w) (Ok w) = true /\
  stable d w = true.
Proof. exact validate_idempotent. Qed.

(* the datatype-level statement: every scaled leaf has a grid of at most 2^48 steps on either side of zero *)
Theorem C01_validate_idempotent_except_huge_grids : forall d, wf d -> idem_dt d = true -> small_grids d = true ->
  forall v prev w, prev_st d prev -> dt_validate d v prev = Ok w ->
  res_same (dt_validate d w PNone) (Ok w) = true /\ res_same (dt_validate d w w) (Ok w) = true /\
  stable d w = true.
Proof. exact validate_idempotent_small. Qed.

Theorem C01_wire_idempotent_except_huge_grids : forall E d, wf d -> idem_dt d = true -> small_grids d = true ->
  forall j prev w, prev_st d prev -> wire E d j prev = Ok w ->
  res_same (dt_validate d w PNone) (Ok w) = true /\ res_same (dt_validate d w w) (Ok w) = true /\
  stable d w = true.
Proof. exact wire_idempotent_small. Qed.

(* on a small grid every value returned by ScaledInteger.validate is reproduced by the rounding to the grid and lies
   strictly inside the acceptance window *)
Theorem C01_scaled_small_grid_regular : forall s mn mx v x,
  scaled_small s mn mx = true -> wf (TScaled s mn mx) -> scaled_validate s mn mx v = Ok x ->
  scaled_leaf_ok s mn mx x = true.
Proof. exact scaled_small_leaf_ok. Qed.

Theorem C01_wire_idempotent_partial : forall E d, wf d -> idem_dt d = true -> forall j prev w,
  prev_st d prev -> wire E d j prev = Ok w -> scaled_ok d w = true ->
  res_same (dt_validate d w PNone) (Ok w) = true /\ res_same (dt_validate d w w) (Ok w) = true /\
  stable d w = true.
Proof. exact wire_idempotent. Qed.

(* a stable value is returned unchanged (no side condition, no assumption on the datatype) *)
Theorem C01_stable_fixed_point : forall d w, stable d w = true ->
  res_same (dt_validate d w PNone) (Ok w) = true /\ res_same (dt_validate d w w) (Ok w) = true.
Proof.
  intros d w H. destruct (stable_fix d w H) as [A B]. rewrite A, B. split; apply res_same_refl_ok.
Qed.

(* ---- canonical representation kinds, at every depth; prev_canon d prev: None or a canonical value *)
Theorem C01_canonical_kind : forall d v prev w,
  prev_canon d prev -> dt_validate d v prev = Ok w -> canon d w = true.
Proof. exact validate_canon. Qed.

Theorem C01_wire_canonical_kind : forall E d j prev w,
  prev_canon d prev -> wire E d j prev = Ok w -> canon d w = true.
Proof. exact wire_canon. Qed.

(* non-vacuity and regression: a nested well-formed type, a value that validates into the set, guards that hold,
   and the repaired behaviour on the inputs of the former findings *)
Definition E0 : pyenv := {| int_of := []; b64_of := [(false, [89%N; 87%N; 74%N; 113%N], [97%N; 98%N; 99%N])] |}.
Definition i05 := TInt 0 5.
Definition s01 := TScaled (fmk 1 (-1)) fzero (of_Z 10).      (* scale 0.5, 0 .. 10 *)
Definition sa := [97%N].
Definition demo_d : dtype :=
  TStruct [([97%N], TArray (TFloat fzero (of_Z 10) fzero (fmk 1 (-20))) 0 3); ([98%N], s01)] [[98%N]] false.
Example C01_demo_wf : wf demo_d.
Proof. cbn [demo_d wf snd]. repeat split; vm_compute; reflexivity. Qed.
Example C01_demo_run :
  res_same (dt_validate demo_d (PDict [([97%N], PList [PInt 3; PFloat (of_Z 10)])]) PNone)
           (Ok (PDict [([97%N], PTuple [PFloat (of_Z 3); PFloat (of_Z 10)])])) = true /\
  validate_guard demo_d (PDict [([97%N], PList [PInt 3])]) PNone = true /\
  wire_guard E0 demo_d (PDict [([98%N], PInt 4)]) PNone = true.
Proof. repeat split; vm_compute; reflexivity. Qed.
Example C01_repaired_behaviour :
  res_same (wire E0 (TTuple [i05]) (PInt 5) PNone) (Err EWrongType) = true /\
  res_same (wire E0 (TTuple [i05]) (PList [PInt 1; PInt 2]) PNone) (Err EWrongType) = true /\
  res_same (wire E0 (TStruct [(sa, i05)] [] false) (PStr [97%N; 98%N]) PNone) (Err EWrongType) = true /\
  res_same (dt_validate s01 (PFloat (finf false)) PNone) (Err ERange) = true /\
  res_same (dt_validate s01 (PFloat fnan) PNone) (Err ERange) = true /\
  res_same (dt_import E0 s01 (PStr [53%N])) (Err EWrongType) = true /\
  res_same (dt_import E0 s01 (PFloat (fmk 5 (-1)))) (Err EWrongType) = true /\
  res_same (dt_import E0 s01 (PFloat (of_Z 2))) (dt_import E0 s01 (PInt 2)) = true /\
  res_same (wire E0 (TBlob 0 10) (PStr [33%N; 33%N; 33%N; 33%N]) PNone) (Err EWrongType) = true /\
  res_same (wire E0 (TBlob 0 10) (PStr [89%N; 87%N; 74%N; 113%N]) PNone) (Ok (PBytes [97%N; 98%N; 99%N])) = true /\
  res_same (dt_validate (TArray i05 0 5) (PList [PInt 1; PInt 2; PInt 3]) (PTuple [PInt 1; PInt 2]))
           (Ok (PTuple [PInt 1; PInt 2; PInt 3])) = true /\
  res_same (wire E0 (TArray (TString 0 10 false) 0 5) (PStr [97%N; 98%N]) PNone) (Err EWrongType) = true /\
  res_same (dt_validate (TStruct [(sa, i05)] [] false) (PDict [(sa, PNone)]) PNone) (Err EWrongType) = true /\
  res_same (dt_validate (TStruct [(sa, i05)] [] false) (PDict [(sa, PNone)]) (PDict [(sa, PInt 3)]))
           (Ok (PDict [(sa, PInt 3)])) = true.
Proof. repeat split; vm_compute; reflexivity. Qed.

(* non-vacuity of the idempotence statements: the guards hold for the nested demo type (double, scaled leaf), a
   result of validate satisfies the scaled side condition and is stable, a complete previous value is stable;
   the negative zero as a limit (which the constructors never produce) is where bit identity would fail *)
Example C01_idem_nonvacuous :
  idem_dt demo_d = true /\
  match dt_validate demo_d (PDict [([97%N], PList [PInt 3; PFloat (fmk 19 (-1))]); ([98%N], PFloat (fmk 5 (-1)))]) PNone with
  | Ok w => scaled_ok demo_d w && stable demo_d w && canon demo_d w
  | Err _ => false
  end = true /\
  stable demo_d (PDict [([97%N], PTuple [PFloat (of_Z 3)])]) = true /\
  scaled_leaf_ok (fmk 1 (-1)) fzero (of_Z 10) (PFloat (fmk 5 (-1))) = true /\
  small_grids demo_d = true /\
  (* scale 0.001, limits -1e6 .. 1e6 (10^9 steps) *)
  scaled_small (fmk 1152921504606847 (-60)) (fmk (-1000000) 0) (fmk 1000000 0) = true /\
  small_grids (TArray (TTuple [TInt 0 5; TEnum [(sa, 1%Z); ([98%N], 2%Z)]]) 0 3) = true /\
  small_grids huge_d = false.
Proof. repeat split; vm_compute; reflexivity. Qed.

Example C01_negzero_limit_is_outside_idem_dt :
  idem_dt (TFloat fnegzero (of_Z 1) (fmk 1 (-1)) fzero) = false /\
  res_same (dt_validate (TFloat fnegzero (of_Z 1) (fmk 1 (-1)) fzero) (PFloat (fmk (-1) (-2))) PNone) (Ok (PFloat fnegzero)) = true /\
  res_same (dt_validate (TFloat fnegzero (of_Z 1) (fmk 1 (-1)) fzero) (PFloat fnegzero) PNone) (Ok (PFloat fzero)) = true.
Proof. repeat split; vm_compute; reflexivity. Qed.

(* (flavour) a candidate mapping may be a plain dict or a frozen mapping (ImmutableDict: what StructOf.__call__ -
   conversion, no limit check - and the validate of ANY struct type return, what a parameter holds).  cval
   (FlavourDefs.v) keeps the flavour of every mapping of a candidate at every depth; the shared model knows one
   mapping constructor only, so the flavoured model is the shared one after erase - the decision "the code does not
   look at the flavour" is checked on the implementation by the correspondence (frozen candidates, Run.v) and pinned by
   the fact containers_validate_no_shortcut.  thaw c1 = thaw c2: equal items, differing only in the flavour of
   mappings anywhere in the candidate (lists, tuples, members). *)
Theorem C01_validate_ignores_candidate_container_flavour : forall d c1 c2 prev,
  thaw c1 = thaw c2 -> cv_validate d c1 prev = cv_validate d c2 prev /\ cv_call d c1 = cv_call d c2.
Proof. exact validate_ignores_flavour. Qed.

(* in particular a frozen mapping gets no shortcut: what is returned for it has passed the member loop and lies in
   the declared value set, like for every other candidate *)
Theorem C01_validate_sound_any_flavour : forall d, wf d -> forall c prev r,
  prev_ok d prev -> cv_validate d c prev = Ok r -> in_setb d r = true.
Proof. intros d Hwf c prev r. exact (validate_sound d Hwf (erase c) prev r). Qed.

Example C01_flavour_nonvacuous :
  let d := TStruct [(sa, TFloat fzero (of_Z 10) fzero fzero); ([98%N], i05)] [] false in
  let conv b := CDict b [(sa, CLeaf (PFloat (of_Z 50))); ([98%N], CLeaf (PInt 1))] in      (* = d(dict p=50, i=1) *)
  has_frozen (conv true) = true /\ thaw (conv true) = thaw (conv false) /\
  res_same (cv_call d (conv true)) (Ok (erase (conv true))) = true /\
  res_same (cv_validate d (conv true) PNone) (Err ERange) = true /\
  res_same (cv_validate (TArray d 0 3) (CList [conv true]) PNone) (Err ERange) = true /\
  (* the validated value of an other struct type *)
  res_same (cv_validate d (CDict true [([120%N], CLeaf (PFloat (of_Z 1)))]) PNone) (Err EWrongType) = true /\
  res_same (cv_validate d (CDict true [(sa, CLeaf (PFloat (of_Z 5))); ([98%N], CLeaf (PInt 1))]) PNone)
           (Ok (PDict [(sa, PFloat (of_Z 5)); ([98%N], PInt 1)])) = true.
Proof. repeat split; vm_compute; reflexivity. Qed.

Print Assumptions C01_source_facts.
Print Assumptions C01_validate_sound.
Print Assumptions C01_wire_sound.
Print Assumptions C01_import_total.
Print Assumptions C01_validate_total.
Print Assumptions C01_wire_total.
Print Assumptions C01_import_kinds.
Print Assumptions C01_array_length.
Print Assumptions C01_clamp_between.
Print Assumptions C01_validate_idempotent_partial.
Print Assumptions C01_validate_idempotent_except_huge_grids.
Print Assumptions C01_wire_idempotent_except_huge_grids.
Print Assumptions C01_scaled_small_grid_regular.
Print Assumptions C01_wire_idempotent_partial.
Print Assumptions C01_stable_fixed_point.
Print Assumptions C01_canonical_kind.
Print Assumptions C01_wire_canonical_kind.
Print Assumptions C01_refuted_idempotent_scaled_huge.
Print Assumptions C01_validate_ignores_candidate_container_flavour.
Print Assumptions C01_validate_sound_any_flavour.
