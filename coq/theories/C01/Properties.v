Require Import FV.Gen.C01 FV.C01.Model.
Theorem C01_source_facts :
  unlimited_is_2_64 = true /\ clamp_is_median_of_sorted = true /\ float_validate_shape = true /\
  int_validate_shape = true /\ scaled_validate_shape = true /\ generic_import_is_call = true /\
  containers_wrap_element_errors = true.
Proof. repeat split; reflexivity. Qed.
Print Assumptions C01_source_facts.
