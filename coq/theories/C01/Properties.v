(* C01 — property theorems.  d ranges over ALL datatype trees (any depth and width), v/j over all modelled Python
   values, prev over None and every value of the type.  Full statement of the property and what is proved:

   (sound)     validation never returns a value outside the declared value set           -- proved unconditionally
                (limits, lengths, membership, element-wise; struct members declared and well-typed);
                presence of mandatory struct members is refuted (C01_refuted_struct_none_mandatory)
   (total)     the only other outcome is RangeError / WrongTypeError                      -- proved under the guards
                validate_guard / import_guard / wire_guard, which are exactly the complements of the finding classes
                scaled-nonfinite-leaks, struct-from-nonmapping, import-noniterable-into-sequence (Refuted.v)
   (canonical) the result denotes the offered value                                        -- refuted for the finding
                classes of Refuted.v; outside them it is checked by the correspondence + specification-side oracle only
   (idempotent) validate(validate(v)) = validate(v)                                       -- oracle only (partial)          *)
From Coq Require Import ZArith NArith Bool List.
Import ListNotations.
Require Import FV.Gen.C01 FV.Base.F64 FV.Base.PyVal FV.C01.Model FV.C01.Lemmas FV.C01.Refuted.

Theorem C01_source_facts :
  unlimited_is_2_64 = true /\ clamp_is_median_of_sorted = true /\ float_validate_shape = true /\
  int_validate_shape = true /\ scaled_validate_shape = true /\ generic_import_is_call = true /\
  containers_wrap_element_errors = true.
Proof. repeat split; reflexivity. Qed.

Theorem C01_validate_sound : forall d, wf d -> forall v prev r,
  prev_ok d prev -> dt_validate d v prev = Ok r -> in_setb d r = true.
Proof. exact validate_sound. Qed.

Theorem C01_wire_sound : forall E d, wf d -> forall j prev r,
  prev_ok d prev -> wire E d j prev = Ok r -> in_setb d r = true.
Proof. exact wire_sound. Qed.

Theorem C01_validate_total : forall d v prev,
  validate_guard d v prev = true -> okbad (dt_validate d v prev) = true.
Proof. exact validate_total. Qed.

Theorem C01_import_total : forall E d j, import_guard d j = true -> okbad (dt_import E d j) = true.
Proof. exact import_total. Qed.

Theorem C01_wire_total : forall E d j prev, wire_guard E d j prev = true -> okbad (wire E d j prev) = true.
Proof. exact wire_total. Qed.

(* the median-of-three clamp used for the resolution tolerance stays between its bounds, for all binary64 numbers *)
Theorem C01_clamp_between : forall lo v hi,
  F64Lemmas.notnan lo -> F64Lemmas.notnan v -> F64Lemmas.notnan hi -> fle lo hi = true ->
  fle lo (fclamp lo v hi) = true /\ fle (fclamp lo v hi) hi = true /\
  (fle lo v = true -> fle v hi = true -> fclamp lo v hi = v).
Proof. exact F64Lemmas.fclamp_between. Qed.

(* non-vacuity: a nested well-formed type, a value that validates into the set, guards that hold *)
Definition demo_d : dtype :=
  TStruct [([97%N], TArray (TFloat fzero (of_Z 10) fzero (fmk 1 (-20))) 0 3); ([98%N], s01)] [[98%N]] false.
Example C01_demo_wf : wf demo_d.
Proof. cbn [demo_d wf snd]. repeat split; vm_compute; reflexivity. Qed.
Example C01_demo_run :
  res_same (dt_validate demo_d (PDict [([97%N], PList [PInt 3; PFloat (of_Z 10)])]) PNone)
           (Ok (PDict [([97%N], PTuple [PFloat (of_Z 3); PFloat (of_Z 10)])])) = true /\
  validate_guard demo_d (PDict [([97%N], PList [PInt 3])]) PNone = true /\
  wire_guard E0 demo_d (PDict [([98%N], PInt 4)]) PNone = true.
Proof. repeat split; vm_compute; reflexivity. Qed.

Print Assumptions C01_source_facts.
Print Assumptions C01_validate_sound.
Print Assumptions C01_wire_sound.
Print Assumptions C01_validate_total.
Print Assumptions C01_import_total.
Print Assumptions C01_wire_total.
Print Assumptions C01_clamp_between.
