(* C01 — idempotence without side condition for all datatype trees whose scaled leaves have grids of realistic size
   (small_grids: scale normal and at most 2^900, limits at most 2^48 steps from zero) *)
From Coq Require Import ZArith NArith Bool List Lia.
Import ListNotations.
Require Import FV.Base.Util FV.Base.F64 FV.Base.F64Lemmas FV.Base.PyVal FV.C01.Model FV.C01.IdemDefs FV.C01.Lemmas
  FV.C01.F64More FV.C01.Idem FV.C01.ScaledGrid.

(* a stable value satisfies the side condition at its scaled leaves *)
Lemma stable_scaled_ok : forall d, wf d -> small_grids d = true -> forall w, stable d w = true -> scaled_ok d w = true.
Proof.
  induction d using dtype_nested_ind; intros Hwf Hsm w Hs; try reflexivity.
  - cbn [stable dt_validate] in Hs. apply res_same_ok_eq in Hs. cbn [scaled_ok small_grids] in *.
    eapply scaled_small_leaf_ok; eauto.
  - destruct w; try discriminate. cbn [stable] in Hs. apply andb_prop in Hs. destruct Hs as [_ Hall].
    cbn [scaled_ok]. apply forallb_forall. intros x Hin. apply IHd; [exact Hwf|exact Hsm|].
    eapply forallb_forall in Hall; eauto.
  - destruct w; try discriminate. rewrite stable_tuple in Hs. rewrite scaled_ok_tuple.
    eapply all2_mono; [|exact Hs]. rewrite Forall_forall in H. apply Forall_forall. intros d1 Hd y Hy.
    apply (H d1 Hd); [eapply wf_tuple_In; eauto| |exact Hy]. cbn [small_grids] in Hsm. eapply forallb_forall in Hsm; eauto.
  - destruct w; try discriminate. rewrite stable_struct in Hs. rewrite scaled_ok_struct.
    apply andb_prop in Hs. destruct Hs as [Hs _]. apply andb_prop in Hs. destruct Hs as [_ He].
    apply forallb_forall. intros p Hin. eapply forallb_forall in He; eauto.
    eapply entry_ok_mono_in; [|exact He]. rewrite Forall_forall in H. apply Forall_forall. intros m Hm y Hy.
    apply (H m Hm); [eapply wf_struct_In; eauto| |exact Hy]. cbn [small_grids] in Hsm. eapply forallb_forall in Hsm; eauto.
Qed.

(* every returned value satisfies the side condition *)
Theorem validate_scaled_ok : forall d, wf d -> small_grids d = true -> forall v prev r,
  prev_st d prev -> dt_validate d v prev = Ok r -> scaled_ok d r = true.
Proof.
  induction d using dtype_nested_ind; intros Hwf Hsm v prev r Hprev; cbn [dt_validate]; try reflexivity.
  - intros H. cbn [scaled_ok small_grids] in *. eapply scaled_small_leaf_ok; eauto.
  - (* array *)
    cbn [wf] in Hwf. cbn [small_grids] in Hsm.
    intros H. apply bind_ok in H. destruct H as ([] & Hc & H).
    destruct (py_iter v) as [items|] eqn:Hit; [|discriminate].
    destruct (py_truthy prev) eqn:Ht.
    + destruct Hprev as [->|Hp]; [discriminate|].
      destruct prev; try discriminate. cbn [stable] in Hp. apply andb_prop in Hp. destruct Hp as [_ Hall].
      cbn [py_iter] in H. apply bind_ok in H. destruct H as (ys & Hys & H). inversion H; subst.
      apply wrap_elem_ok in Hys.
      destruct (map2_res_sound (dt_validate d) (prev_st d) (scaled_ok d)) with (items := items)
        (ps := l ++ repeat PNone (length items - length l)) (ys := ys)
        as [L F]; [intros x p r0 Hpp Hr; eapply IHd; [exact Hwf|exact Hsm|exact Hpp|exact Hr]| |exact Hys|exact F].
      apply Forall_app. split.
      * apply Forall_forall. intros p Hin. right. eapply forallb_forall in Hall; eauto.
      * apply Forall_forall. intros p Hin. apply repeat_spec in Hin. left. exact Hin.
    + apply bind_ok in H. destruct H as (ys & Hys & H). inversion H; subst. apply wrap_elem_ok in Hys.
      destruct (map_res_sound (fun x => dt_validate d x PNone) (scaled_ok d) items ys) as [L F];
        [intros x r0 _ Hr; eapply IHd; [exact Hwf|exact Hsm|left; reflexivity|exact Hr]|exact Hys|exact F].
  - (* tuple *)
    cbn [small_grids] in Hsm.
    intros Hres. apply bind_ok in Hres. destruct Hres as ([] & Hc & Hres).
    destruct (py_iter v) as [items|] eqn:Hit; [|discriminate].
    pose proof (tuple_check_ok _ _ _ Hit Hc) as L.
    assert (HF1 : Forall (fun d1 => forall x r0, dt_validate d1 x PNone = Ok r0 -> scaled_ok d1 r0 = true) es).
    { rewrite Forall_forall in H. apply Forall_forall. intros d1 Hd x r0 Hr.
      eapply (H d1 Hd); [eapply wf_tuple_In; eauto|eapply forallb_forall in Hsm; eauto|left; reflexivity|exact Hr]. }
    assert (HF2 : Forall (fun d1 => forall x p r0, stable d1 p = true -> dt_validate d1 x p = Ok r0 -> scaled_ok d1 r0 = true) es).
    { rewrite Forall_forall in H. apply Forall_forall. intros d1 Hd x p r0 Hp Hr.
      eapply (H d1 Hd); [eapply wf_tuple_In; eauto|eapply forallb_forall in Hsm; eauto|right; exact Hp|exact Hr]. }
    destruct prev; try (destruct Hprev as [Hp|Hp]; [discriminate|discriminate]).
    + apply bind_ok in Hres. destruct Hres as (ys & Hys & Hres). inversion Hres; subst. apply wrap_elem_ok in Hys.
      rewrite scaled_ok_tuple. exact (mapd_res_sound (fun d1 x => dt_validate d1 x PNone) scaled_ok es items ys L HF1 Hys).
    + destruct Hprev as [Hp|Hp]; [discriminate|]. rewrite stable_tuple in Hp. cbn [py_iter] in Hres.
      apply bind_ok in Hres. destruct Hres as (ys & Hys & Hres). inversion Hres; subst. apply wrap_elem_ok in Hys.
      rewrite scaled_ok_tuple. exact (mapd2_res_sound2 dt_validate stable scaled_ok es items l ys L Hp HF2 Hys).
  - (* struct *)
    pose proof Hsm as Hsm'. cbn [small_grids] in Hsm.
    intros Hres. apply bind_ok in Hres. destruct Hres as ([] & Hc & Hres).
    assert (HF : Forall (fun m : str * dtype => forall x r0, dt_validate (snd m) x PNone = Ok r0 -> scaled_ok (snd m) r0 = true) ms).
    { rewrite Forall_forall in H. apply Forall_forall. intros m Hm x r0 Hr.
      eapply (H m Hm); [eapply wf_struct_In; eauto| |left; reflexivity|exact Hr].
      eapply forallb_forall in Hsm; eauto. }
    assert (Hstart : forall start, (if py_truthy prev then match prev with PDict kv => Some kv | _ => None end else Some [])
                                   = Some start -> forallb (entry_ok scaled_ok ms) start = true).
    { intros start. destruct (py_truthy prev).
      - destruct Hprev as [->|Hp]; [discriminate|]. destruct prev; try discriminate.
        intros E; inversion E; subst.
        pose proof (stable_scaled_ok (TStruct ms o c) Hwf Hsm' (PDict start) Hp) as G.
        rewrite scaled_ok_struct in G. exact G.
      - intros E; inversion E. reflexivity. }
    destruct (if py_truthy prev then _ else _) as [start|]; [|discriminate].
    destruct (negb (is_dict v)); [discriminate|].
    apply bind_ok in Hres. destruct Hres as (kv & Hkv & Hres). apply wrap_elem_ok in Hkv.
    apply bind_ok in Hres. destruct Hres as ([] & Hmiss & Hres). inversion Hres; subst.
    rewrite scaled_ok_struct.
    exact (struct_fold_sound (fun d1 x => dt_validate d1 x PNone) scaled_ok true ms HF (dict_items v) start kv (Hstart start eq_refl) Hkv).
Qed.

(* idempotence for every tree whose scaled leaves have small grids: no side condition on the value *)
Theorem validate_idempotent_small : forall d, wf d -> idem_dt d = true -> small_grids d = true ->
  forall v prev w, prev_st d prev -> dt_validate d v prev = Ok w ->
  res_same (dt_validate d w PNone) (Ok w) = true /\ res_same (dt_validate d w w) (Ok w) = true /\
  stable d w = true.
Proof.
  intros d Hwf Hi Hsm v prev w Hp H. eapply validate_idempotent; eauto. eapply validate_scaled_ok; eauto.
Qed.

Corollary wire_idempotent_small E : forall d, wf d -> idem_dt d = true -> small_grids d = true ->
  forall j prev w, prev_st d prev -> wire E d j prev = Ok w ->
  res_same (dt_validate d w PNone) (Ok w) = true /\ res_same (dt_validate d w w) (Ok w) = true /\
  stable d w = true.
Proof.
  intros d Hwf Hi Hsm j prev w Hp H. unfold wire in H. apply bind_ok in H. destruct H as (v & _ & H).
  eapply validate_idempotent_small; eauto.
Qed.
