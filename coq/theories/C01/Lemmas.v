(* C01 — totality and soundness of the datatype validation model *)
From Coq Require Import ZArith NArith Bool List Lia.
Import ListNotations.
Require Import FV.Base.Util FV.Base.F64 FV.Base.F64Lemmas FV.Base.F64Repr FV.Base.PyVal FV.C01.Model.

(* ------------------------------------------------------------------ nested induction on datatype trees *)
Section DtypeInd.
  Variable P : dtype -> Prop.
  Hypothesis HFloat : forall a b c d, P (TFloat a b c d).
  Hypothesis HInt : forall a b, P (TInt a b).
  Hypothesis HScaled : forall s a b, P (TScaled s a b).
  Hypothesis HBool : P TBool.
  Hypothesis HEnum : forall ms, P (TEnum ms).
  Hypothesis HString : forall a b u, P (TString a b u).
  Hypothesis HBlob : forall a b, P (TBlob a b).
  Hypothesis HArray : forall e a b, P e -> P (TArray e a b).
  Hypothesis HTuple : forall es, Forall P es -> P (TTuple es).
  Hypothesis HStruct : forall ms o c, Forall (fun p => P (snd p)) ms -> P (TStruct ms o c).

  Fixpoint dtype_nested_ind (d : dtype) : P d :=
    match d with
    | TFloat a b c e => HFloat a b c e
    | TInt a b => HInt a b
    | TScaled s a b => HScaled s a b
    | TBool => HBool
    | TEnum ms => HEnum ms
    | TString a b u => HString a b u
    | TBlob a b => HBlob a b
    | TArray e a b => HArray e a b (dtype_nested_ind e)
    | TTuple es =>
        HTuple es ((fix go (l : list dtype) : Forall P l :=
                      match l with
                      | [] => Forall_nil P
                      | x :: r => Forall_cons x (dtype_nested_ind x) (go r)
                      end) es)
    | TStruct ms o c =>
        HStruct ms o c ((fix go (l : list (str * dtype)) : Forall (fun p => P (snd p)) l :=
                           match l with
                           | [] => Forall_nil _
                           | x :: r => Forall_cons x (dtype_nested_ind (snd x)) (go r)
                           end) ms)
    end.
End DtypeInd.

(* ------------------------------------------------------------------ totality *)
Definition okbad {A} (r : res A) : bool := match r with Ok _ => true | Err e => is_bad_value e end.

Lemma okbad_wrap_wrong {A} (r : res A) : okbad (wrap_wrong r) = true.
Proof. destruct r as [a|e]; reflexivity. Qed.
Lemma okbad_wrap_elem {A} (r : res A) : okbad (wrap_elem r) = true.
Proof. destruct r as [a|[]]; reflexivity. Qed.
Lemma okbad_bind_ok {A B} (r : res A) (f : A -> B) : okbad r = true -> okbad (r >>= fun a => Ok (f a)) = true.
Proof. destruct r; cbn; auto. Qed.
Lemma okbad_bind {A B} (r : res A) (f : A -> res B) :
  okbad r = true -> (forall a, okbad (f a) = true) -> okbad (r >>= f) = true.
Proof. destruct r; cbn; auto. Qed.

Lemma float_call_okbad v : okbad (float_call v) = true.
Proof. unfold float_call. destruct (py_add0 v) as [f|e]; reflexivity. Qed.

Lemma float_call_float v r : float_call v = Ok r -> exists f, r = PFloat f.
Proof. unfold float_call. destruct (py_add0 v) as [f|e]; cbn; intros H; inversion H; eauto. Qed.

Lemma float_validate_okbad mn mx a r v : okbad (float_validate mn mx a r v) = true.
Proof.
  unfold float_validate. pose proof (float_call_okbad v) as H. pose proof (float_call_float v) as H2.
  destruct (float_call v) as [x|e]; [|exact H].
  destruct (H2 x eq_refl) as [f ->].
  match goal with |- context [if ?c then _ else _] => destruct c end; reflexivity.
Qed.

Lemma int_call_okbad v : okbad (int_call v) = true.
Proof.
  unfold int_call.
  destruct (wrap_wrong _) as [[fv z]|e] eqn:E.
  - destruct (cmp_Z_f (fround fv) fv) as [[]|]; reflexivity.
  - pose proof (okbad_wrap_wrong (py_add0 v >>= (fun fv => py_int_num v >>= fun z => Ok (fv, z)))) as H.
    rewrite E in H. exact H.
Qed.

Lemma int_call_int v r : int_call v = Ok r -> exists z, r = PInt z.
Proof.
  unfold int_call. destruct (wrap_wrong _) as [[fv z]|e]; [|discriminate].
  destruct (cmp_Z_f (fround fv) fv) as [[]|]; intros H; inversion H; eauto.
Qed.

Lemma int_validate_okbad mn mx v : okbad (int_validate mn mx v) = true.
Proof.
  unfold int_validate. pose proof (int_call_okbad v) as H. pose proof (int_call_int v) as H2.
  destruct (int_call v) as [x|e]; [|exact H].
  destruct (H2 x eq_refl) as [z ->].
  match goal with |- context [if ?c then _ else _] => destruct c end; reflexivity.
Qed.

Lemma bool_call_okbad v : okbad (bool_call v) = true.
Proof.
  destruct v as [| | z | f | | | | | | n z |]; cbn; try reflexivity.
  - destruct z as [|[]|]; reflexivity.
  - destruct (feq f fzero); [reflexivity|]. match goal with |- context [if ?c then _ else _] => destruct c end; reflexivity.
  - destruct z as [|[]|]; reflexivity.
Qed.

Lemma enum_call_okbad ms v : okbad (enum_call ms v) = true.
Proof.
  destruct v as [| b | z | f | s | | | | | n z |]; cbn; try reflexivity.
  - destruct (enum_by_value _ ms) as [[]|]; reflexivity.
  - destruct (enum_by_value z ms) as [[]|]; reflexivity.
  - destruct (fis_finite f); [|reflexivity].
    destruct (cmp_Z_f (ftrunc f) f) as [[]|]; try reflexivity.
    destruct (enum_by_value _ ms) as [[]|]; reflexivity.
  - destruct (enum_by_name s ms) as [[]|]; reflexivity.
  - destruct (enum_by_value z ms) as [[]|]; reflexivity.
Qed.

Lemma string_call_okbad a b u v : okbad (string_call a b u v) = true.
Proof.
  destruct v; cbn; try reflexivity.
  repeat match goal with |- context [if ?c then _ else _] => destruct c end; reflexivity.
Qed.

Lemma blob_call_okbad a b v : okbad (blob_call a b v) = true.
Proof.
  destruct v; cbn; try reflexivity.
  repeat match goal with |- context [if ?c then _ else _] => destruct c end; reflexivity.
Qed.

Lemma array_check_okbad a b v : okbad (array_check a b v) = true.
Proof.
  unfold array_check. destruct (is_str_bytes_dict v); [reflexivity|]. destruct (py_len v); [|reflexivity].
  repeat match goal with |- context [if ?c then _ else _] => destruct c end; reflexivity.
Qed.
Lemma tuple_check_okbad n v : okbad (tuple_check n v) = true.
Proof.
  unfold tuple_check. destruct (is_str_bytes_dict v); [reflexivity|].
  destruct (py_len v); [|reflexivity]. destruct (Z.eqb _ _); reflexivity.
Qed.

(* nan / inf / an overflowing quotient are answered with RangeError since the repair; the int * float product
   after round() can not overflow because the rounded quotient of a finite binary64 number is representable
   (Base/F64Repr.v, fround_representable) *)
Lemma scaled_call_okbad scale v : okbad (scaled_call scale v) = true.
Proof.
  unfold scaled_call. destruct (py_add0 v) as [f|e]; [|reflexivity]. cbn [wrap_wrong].
  unfold py_round. destruct (fis_nan (fdiv f scale)) eqn:En; [reflexivity|].
  destruct (fis_inf (fdiv f scale)) eqn:Ei; [reflexivity|].
  assert (Fq : fis_finite (fdiv f scale) = true) by (destruct (fdiv f scale); cbn in *; congruence).
  destruct (fround_representable _ Fq) as [zf Hz]. unfold py_int_mul_float. rewrite Hz. reflexivity.
Qed.

Lemma scaled_call_float scale v r : scaled_call scale v = Ok r -> exists f, r = PFloat f.
Proof.
  unfold scaled_call. destruct (wrap_wrong (py_add0 v)) as [f|e]; [|discriminate].
  destruct (py_round _) as [k|]; [|discriminate].
  destruct (py_int_mul_float k scale); cbn; intros H; inversion H; eauto.
Qed.

Lemma scaled_validate_okbad scale mn mx v : okbad (scaled_validate scale mn mx v) = true.
Proof.
  unfold scaled_validate.
  pose proof (scaled_call_okbad scale v) as H1. pose proof (scaled_call_float scale v) as F1.
  pose proof (scaled_call_okbad scale (PFloat mn)) as H2. pose proof (scaled_call_float scale (PFloat mn)) as F2.
  pose proof (scaled_call_okbad scale (PFloat mx)) as H3. pose proof (scaled_call_float scale (PFloat mx)) as F3.
  destruct (scaled_call scale v) as [x|e]; [|exact H1]. destruct (F1 x eq_refl) as [r ->].
  destruct (f_lt_num (fsub mn scale) v && num_lt_f v (fadd mx scale)); [|reflexivity].
  destruct (scaled_call scale (PFloat mn)) as [x|e]; [destruct (F2 x eq_refl) as [lo ->]|exact H2].
  destruct (scaled_call scale (PFloat mx)) as [x|e]; [destruct (F3 x eq_refl) as [hi ->]|exact H3].
  reflexivity.
Qed.

(* the only remaining precondition: for a struct, the value currently held (previous) is None/empty or a dict, as
   it always is for a parameter of that type *)
Definition validate_guard (d : dtype) (v prev : pyval) : bool :=
  match d with
  | TStruct _ _ _ => negb (py_truthy prev) || is_dict prev
  | _ => true
  end.

Lemma struct_check_okbad names opt c a v : okbad (struct_check names opt c a v) = true.
Proof.
  destruct v; try reflexivity. unfold struct_check.
  destruct (existsb _ _); [reflexivity|].
  match goal with |- context [match ?m with [] => _ | _ => _ end] => destruct m end; reflexivity.
Qed.

Lemma struct_check_dict names opt c a v : struct_check names opt c a v = Ok tt -> is_dict v = true.
Proof. destruct v; cbn; try discriminate. reflexivity. Qed.

Lemma check_missing_okbad names opt a kv : okbad (check_missing names opt a kv) = true.
Proof.
  unfold check_missing.
  match goal with |- context [match ?m with [] => _ | _ => _ end] => destruct m end; reflexivity.
Qed.

Theorem validate_total d v prev : validate_guard d v prev = true -> okbad (dt_validate d v prev) = true.
Proof.
  destruct d as [| | | | | | | | |members optional client]; cbn [dt_validate validate_guard]; intros G.
  - apply float_validate_okbad.
  - apply int_validate_okbad.
  - apply scaled_validate_okbad.
  - apply bool_call_okbad.
  - apply enum_call_okbad.
  - apply string_call_okbad.
  - apply blob_call_okbad.
  - apply okbad_bind; [apply array_check_okbad|intros _].
    destruct (py_iter v); [|reflexivity].
    destruct (py_truthy prev).
    + destruct (py_iter prev); [|reflexivity]. apply okbad_bind_ok, okbad_wrap_elem.
    + apply okbad_bind_ok, okbad_wrap_elem.
  - apply okbad_bind; [apply tuple_check_okbad|intros _].
    destruct (py_iter v); [|reflexivity].
    destruct prev; try (destruct (py_iter _); [|reflexivity]); apply okbad_bind_ok, okbad_wrap_elem.
  - destruct (struct_check (map fst members) optional client true v) as [[]|e] eqn:Ec;
      [|pose proof (struct_check_okbad (map fst members) optional client true v) as Hc; rewrite Ec in Hc; exact Hc].
    cbn [bind]. rewrite (struct_check_dict _ _ _ _ _ Ec). cbn [negb].
    assert (Hfin : forall r : res (list (str * pyval)),
      okbad (wrap_elem r >>= (fun kv => check_missing (map fst members) optional true kv >>= (fun _ => Ok (PDict kv)))) = true).
    { intros r. apply okbad_bind; [apply okbad_wrap_elem|intros kv].
      apply okbad_bind; [apply check_missing_okbad|reflexivity]. }
    destruct (py_truthy prev); cbn in G.
    + destruct prev; try discriminate. apply Hfin.
    + apply Hfin.
Qed.

(* ------------------------------------------------------------------ soundness: a returned value lies in the value set *)
Definition str_ok (minc maxc : Z) (utf8 : bool) (s : str) : bool :=
  (utf8 || forallb (fun c => N.ltb c 128) s) &&
  (minc <=? Z.of_nat (length s))%Z && (Z.of_nat (length s) <=? maxc)%Z &&
  negb (existsb (fun c => N.eqb c 0) s).

(* the declared value set (specification side).  For a struct: every member present is a declared member with a
   value of its type, and every member that is not optional is present *)
Fixpoint in_setb (d : dtype) (r : pyval) {struct d} : bool :=
  match d, r with
  | TFloat mn mx _ _, PFloat f => fle mn f && fle f mx
  | TInt mn mx, PInt z => (mn <=? z)%Z && (z <=? mx)%Z
  | TScaled s mn mx, PFloat f =>
      match scaled_call s (PFloat mn), scaled_call s (PFloat mx) with
      | Ok (PFloat lo), Ok (PFloat hi) => fle lo f && fle f hi
      | _, _ => false
      end
  | TBool, PBool _ => true
  | TEnum ms, PEnum n z => existsb (fun p => str_eqb n (fst p) && Z.eqb z (snd p)) ms
  | TString a b u, PStr s => str_ok a b u s
  | TBlob a b, PBytes s => (a <=? Z.of_nat (length s))%Z && (Z.of_nat (length s) <=? b)%Z
  | TArray e a b, PTuple l =>
      (a <=? Z.of_nat (length l))%Z && (Z.of_nat (length l) <=? b)%Z && forallb (in_setb e) l
  | TTuple es, PTuple l =>
      (fix go (ds : list dtype) (l : list pyval) : bool :=
         match ds, l with
         | [], [] => true
         | d1 :: ds', x :: r => in_setb d1 x && go ds' r
         | _, _ => false
         end) es l
  | TStruct ms opt _, PDict kv =>
      forallb (fun p : str * pyval =>
                 (fix find (ms : list (str * dtype)) : bool :=
                    match ms with
                    | [] => false
                    | (n, d1) :: ms' => if str_eqb (fst p) n then in_setb d1 (snd p) else find ms'
                    end) ms) kv &&
      forallb (fun n => mem_str n opt || mem_str n (map fst kv)) (map fst ms)
  | _, _ => false
  end.

(* what the constructors guarantee / what the property assumes of a datatype *)
Fixpoint wf (d : dtype) : Prop :=
  match d with
  | TFloat mn mx _ _ => fle mn mx = true
  | TScaled s mn mx =>
      match scaled_call s (PFloat mn), scaled_call s (PFloat mx) with
      | Ok (PFloat lo), Ok (PFloat hi) => fle lo hi && fis_finite s
      | _, _ => false
      end = true
  | TArray e _ _ => wf e
  | TTuple es => (fix go (l : list dtype) : Prop := match l with [] => True | x :: r => wf x /\ go r end) es
  | TStruct ms _ _ =>
      (fix go (l : list (str * dtype)) : Prop := match l with [] => True | x :: r => wf (snd x) /\ go r end) ms
  | _ => True
  end.

(* the previous value is None or a value the parameter may hold *)
Definition prev_ok (d : dtype) (p : pyval) : Prop := p = PNone \/ in_setb d p = true.

Lemma fis_finite_is_finite (a : f64) : fis_finite a = BinarySingleNaN.is_finite a.
Proof. destruct a; reflexivity. Qed.

Lemma fmul_finite_notnan (a b : f64) : fis_finite a = true -> fis_finite b = true -> notnan (fmul a b).
Proof.
  intros Fa Fb. rewrite fis_finite_is_finite in Fa. rewrite fis_finite_is_finite in Fb. unfold notnan, fmul.
  pose proof (BinarySingleNaN.Bmult_correct prec emax _ _ BinarySingleNaN.mode_NE a b) as H.
  destruct (Raux.Rlt_bool _ _).
  - destruct H as (_ & Hf & _). rewrite Fa, Fb in Hf.
    destruct (BinarySingleNaN.Bmult _ a b); cbn in *; try discriminate; reflexivity.
  - destruct (BinarySingleNaN.Bmult _ a b); cbn in *; try discriminate; reflexivity.
Qed.

Lemma float_of_Z_finite z f : float_of_Z z = Some f -> fis_finite f = true.
Proof. unfold float_of_Z. destruct (fis_finite (of_Z z)) eqn:E; intros H; inversion H; subst; exact E. Qed.

Lemma scaled_call_notnan s v f : fis_finite s = true -> scaled_call s v = Ok (PFloat f) -> notnan f.
Proof.
  intros Fs. unfold scaled_call. destruct (wrap_wrong (py_add0 v)) as [x|e]; [|discriminate].
  destruct (py_round _) as [k|]; [|discriminate]. unfold py_int_mul_float.
  destruct (float_of_Z k) as [zf|] eqn:E; cbn; [|discriminate].
  intros H. inversion H. subst. apply fmul_finite_notnan; [eapply float_of_Z_finite; eauto|exact Fs].
Qed.

Lemma float_validate_sound mn mx a r v x :
  fle mn mx = true -> float_validate mn mx a r v = Ok x -> in_setb (TFloat mn mx a r) x = true.
Proof.
  intros Hw. unfold float_validate. pose proof (float_call_float v) as F.
  destruct (float_call v) as [y|e]; [|discriminate]. destruct (F y eq_refl) as [f ->].
  destruct (fle (fsub mn _) f && fle f (fadd mx _)) eqn:E; [|discriminate].
  intros H. inversion H. subst x. cbn.
  apply andb_prop in E. destruct E as [E1 E2].
  destruct (fle_true_notnan _ _ E1) as [_ Hf]. destruct (fle_true_notnan _ _ Hw) as [Hmn Hmx].
  destruct (fclamp_between mn f mx Hmn Hf Hmx Hw) as (A & B & _). rewrite A, B. reflexivity.
Qed.

Lemma int_validate_sound mn mx v x : int_validate mn mx v = Ok x -> in_setb (TInt mn mx) x = true.
Proof.
  unfold int_validate. pose proof (int_call_int v) as F.
  destruct (int_call v) as [y|e]; [|discriminate]. destruct (F y eq_refl) as [z ->].
  destruct ((mn <=? z)%Z && (z <=? mx)%Z) eqn:E; [|discriminate]. intros H. inversion H. subst. exact E.
Qed.

Lemma scaled_validate_sound s mn mx v x :
  wf (TScaled s mn mx) -> scaled_validate s mn mx v = Ok x -> in_setb (TScaled s mn mx) x = true.
Proof.
  intros Hw. cbn [wf] in Hw.
  destruct (scaled_call s (PFloat mn)) as [[| | | lo | | | | | | |]|] eqn:Hlo; try discriminate.
  destruct (scaled_call s (PFloat mx)) as [[| | | hi | | | | | | |]|] eqn:Hhi; try discriminate.
  apply andb_prop in Hw. destruct Hw as [Hle Fs].
  unfold scaled_validate. pose proof (scaled_call_float s v) as F.
  destruct (scaled_call s v) as [y|e] eqn:Ey; [|discriminate]. destruct (F y eq_refl) as [f ->].
  destruct (f_lt_num _ v && num_lt_f v _); [|discriminate].
  rewrite Hlo, Hhi. intros H. inversion H. subst x. cbn [in_setb]. rewrite Hlo, Hhi.
  destruct (fle_true_notnan _ _ Hle) as [Nlo Nhi].
  pose proof (scaled_call_notnan s v f Fs Ey) as Nf.
  destruct (fclamp_between lo f hi Nlo Nf Nhi Hle) as (A & B & _). rewrite A, B. reflexivity.
Qed.

Lemma bool_call_sound v x : bool_call v = Ok x -> in_setb TBool x = true.
Proof.
  destruct v as [| b | z | f | | | | | | n z |]; cbn; try discriminate.
  - intros H; inversion H; reflexivity.
  - destruct z as [|[]|]; intros H; inversion H; reflexivity.
  - destruct (feq f fzero); [intros H; inversion H; reflexivity|].
    match goal with |- context [if ?c then _ else _] => destruct c end; intros H; inversion H; reflexivity.
  - destruct z as [|[]|]; intros H; inversion H; reflexivity.
Qed.

Lemma str_eqb_refl s : str_eqb s s = true.
Proof. unfold str_eqb. induction s as [|c s IH]; cbn; [reflexivity|]. rewrite N.eqb_refl. exact IH. Qed.

Lemma enum_by_value_in z ms n v : enum_by_value z ms = Some (n, v) ->
  existsb (fun p => str_eqb n (fst p) && Z.eqb v (snd p)) ms = true.
Proof.
  induction ms as [|[n' v'] ms IH]; cbn; [discriminate|].
  destruct (Z.eqb z v') eqn:E.
  - intros H; inversion H; subst. rewrite str_eqb_refl, Z.eqb_refl. reflexivity.
  - intros H. rewrite (IH H). apply orb_true_r.
Qed.
Lemma enum_by_name_in s ms n v : enum_by_name s ms = Some (n, v) ->
  existsb (fun p => str_eqb n (fst p) && Z.eqb v (snd p)) ms = true.
Proof.
  induction ms as [|[n' v'] ms IH]; cbn; [discriminate|].
  destruct (str_eqb s n') eqn:E.
  - intros H; inversion H; subst. rewrite str_eqb_refl, Z.eqb_refl. reflexivity.
  - intros H. rewrite (IH H). apply orb_true_r.
Qed.

Lemma enum_call_sound ms v x : enum_call ms v = Ok x -> in_setb (TEnum ms) x = true.
Proof.
  destruct v as [| b | z | f | s | | | | | n z |]; cbn; try discriminate.
  - destruct (enum_by_value _ ms) as [[n v]|] eqn:E; [|discriminate].
    intros H; inversion H; subst. cbn. eapply enum_by_value_in; eauto.
  - destruct (enum_by_value z ms) as [[n v]|] eqn:E; [|discriminate].
    intros H; inversion H; subst. cbn. eapply enum_by_value_in; eauto.
  - destruct (fis_finite f); [|discriminate].
    destruct (cmp_Z_f (ftrunc f) f) as [[]|]; try discriminate.
    destruct (enum_by_value _ ms) as [[n v]|] eqn:E; [|discriminate].
    intros H; inversion H; subst. cbn. eapply enum_by_value_in; eauto.
  - destruct (enum_by_name s ms) as [[n v]|] eqn:E; [|discriminate].
    intros H; inversion H; subst. cbn. eapply enum_by_name_in; eauto.
  - destruct (enum_by_value z ms) as [[n' v]|] eqn:E; [|discriminate].
    intros H; inversion H; subst. cbn. eapply enum_by_value_in; eauto.
Qed.

Lemma string_call_sound a b u v x : string_call a b u v = Ok x -> in_setb (TString a b u) x = true.
Proof.
  destruct v; cbn; try discriminate.
  destruct (negb u && negb (forallb _ s)) eqn:E1; [discriminate|].
  destruct (Z.of_nat (length s) <? a)%Z eqn:E2; [discriminate|].
  destruct (b <? Z.of_nat (length s))%Z eqn:E3; [discriminate|].
  destruct (existsb _ s) eqn:E4; [discriminate|].
  intros H; inversion H; subst. cbn. unfold str_ok. rewrite E4.
  assert (A : (u || forallb (fun c => N.ltb c 128) s) = true).
  { destruct u; [reflexivity|]. cbn in *. destruct (forallb _ s); [reflexivity|discriminate]. }
  rewrite A. cbn. apply Z.ltb_ge in E2. apply Z.ltb_ge in E3.
  apply Z.leb_le in E2. apply Z.leb_le in E3. rewrite E2, E3. reflexivity.
Qed.

Lemma blob_call_sound a b v x : blob_call a b v = Ok x -> in_setb (TBlob a b) x = true.
Proof.
  destruct v; cbn; try discriminate.
  destruct (Z.of_nat (length b0) <? a)%Z eqn:E2; [discriminate|].
  destruct (b <? Z.of_nat (length b0))%Z eqn:E3; [discriminate|].
  intros H; inversion H; subst. cbn. apply Z.ltb_ge in E2. apply Z.ltb_ge in E3.
  apply Z.leb_le in E2. apply Z.leb_le in E3. rewrite E2, E3. reflexivity.
Qed.

(* ------------------------------------------------------------------ soundness of the iteration combinators *)
Lemma wrap_elem_ok {A} (r : res A) a : wrap_elem r = Ok a -> r = Ok a.
Proof. destruct r as [x|[]]; cbn; intros H; try discriminate; exact H. Qed.

Lemma bind_ok {A B} (r : res A) (f : A -> res B) b : r >>= f = Ok b -> exists a, r = Ok a /\ f a = Ok b.
Proof. destruct r as [a|e]; cbn; [eauto|discriminate]. Qed.

Lemma map_res_sound (f : pyval -> res pyval) (Q : pyval -> bool) :
  forall items ys, (forall x r, In x items -> f x = Ok r -> Q r = true) ->
  map_res f items = Ok ys -> length ys = length items /\ forallb Q ys = true.
Proof.
  induction items as [|x items IH]; intros ys Hf; cbn.
  - intros H; inversion H; auto.
  - intros H. apply bind_ok in H. destruct H as (y & Hy & H).
    apply bind_ok in H. destruct H as (ys' & Hys & H). inversion H; subst.
    destruct (IH ys') as [L F]; [intros; eapply Hf; [right|]; eauto|exact Hys|].
    cbn. rewrite L, F, (Hf x y); auto. left; reflexivity.
Qed.

Lemma map2_res_sound (f : pyval -> pyval -> res pyval) (Pp : pyval -> Prop) (Q : pyval -> bool) :
  (forall x p r, Pp p -> f x p = Ok r -> Q r = true) ->
  forall items ps ys, Forall Pp ps ->
  map2_res f items ps = Ok ys -> length ys = Nat.min (length items) (length ps) /\ forallb Q ys = true.
Proof.
  intros Hf. induction items as [|x items IH]; intros ps ys HP; cbn.
  - intros H; inversion H; auto.
  - destruct ps as [|p ps]; [intros H; inversion H; auto|].
    inversion HP as [|? ? Hp HP']; subst.
    intros H. apply bind_ok in H. destruct H as (y & Hy & H).
    apply bind_ok in H. destruct H as (ys' & Hys & H). inversion H; subst.
    destruct (IH ps ys' HP' Hys) as [L F]. cbn. rewrite L, F, (Hf x p y); auto.
Qed.

(* Forall2-like: the element types and the results, pairwise *)
Fixpoint all2 (Q : dtype -> pyval -> bool) (ds : list dtype) (l : list pyval) : bool :=
  match ds, l with
  | [], [] => true
  | d1 :: ds', x :: r => Q d1 x && all2 Q ds' r
  | _, _ => false
  end.

Lemma mapd_res_sound (f : dtype -> pyval -> res pyval) (Q : dtype -> pyval -> bool) :
  forall ds items ys, length items = length ds ->
  Forall (fun d1 => forall x r, f d1 x = Ok r -> Q d1 r = true) ds ->
  mapd_res f ds items = Ok ys -> all2 Q ds ys = true.
Proof.
  induction ds as [|d1 ds IH]; intros items ys L HF; cbn.
  - destruct items; [|discriminate]. intros H; inversion H; reflexivity.
  - destruct items as [|x items]; [discriminate|]. inversion HF as [|? ? H1 HF']; subst.
    intros H. apply bind_ok in H. destruct H as (y & Hy & H).
    apply bind_ok in H. destruct H as (ys' & Hys & H). inversion H; subst.
    cbn. rewrite (H1 x y Hy). cbn. eapply IH; eauto.
Qed.

Lemma mapd2_res_sound (f : dtype -> pyval -> pyval -> res pyval) (Q : dtype -> pyval -> bool) :
  forall ds items ps ys, length items = length ds -> all2 Q ds ps = true ->
  Forall (fun d1 => forall x p r, Q d1 p = true -> f d1 x p = Ok r -> Q d1 r = true) ds ->
  mapd2_res f ds items ps = Ok ys -> all2 Q ds ys = true.
Proof.
  induction ds as [|d1 ds IH]; intros items ps ys L HP HF; cbn.
  - destruct items; [|discriminate]. intros H; inversion H; reflexivity.
  - destruct items as [|x items]; [discriminate|]. destruct ps as [|p ps]; [discriminate|].
    cbn in HP. apply andb_prop in HP. destruct HP as [Hp HP]. inversion HF as [|? ? H1 HF']; subst.
    intros H. apply bind_ok in H. destruct H as (y & Hy & H).
    apply bind_ok in H. destruct H as (ys' & Hys & H). inversion H; subst.
    cbn. rewrite (H1 x p y Hp Hy). cbn. eapply IH; eauto.
Qed.

(* membership of a struct entry in the declared members with a value of the member's type *)
Definition entry_ok (Q : dtype -> pyval -> bool) (ms : list (str * dtype)) (p : str * pyval) : bool :=
  (fix find (ms : list (str * dtype)) : bool :=
     match ms with
     | [] => false
     | (n, d1) :: ms' => if str_eqb (fst p) n then Q d1 (snd p) else find ms'
     end) ms.

Lemma member_res_sound (f : dtype -> pyval -> res pyval) (Q : dtype -> pyval -> bool) k x :
  forall ms y, Forall (fun m => forall x r, f (snd m) x = Ok r -> Q (snd m) r = true) ms ->
  member_res f k x ms = Ok y -> entry_ok Q ms (k, y) = true.
Proof.
  induction ms as [|[n d1] ms IH]; intros y HF; [discriminate|].
  inversion HF as [|? ? H1 HF']; subst. cbn [snd] in H1.
  change (member_res f k x ((n, d1) :: ms)) with (if str_eqb k n then f d1 x else member_res f k x ms).
  change (entry_ok Q ((n, d1) :: ms) (k, y)) with (if str_eqb k n then Q d1 y else entry_ok Q ms (k, y)).
  destruct (str_eqb k n); [apply H1|apply IH; exact HF'].
Qed.

Lemma str_eqb_eq a b : str_eqb a b = true -> a = b.
Proof.
  unfold str_eqb. revert b. induction a as [|x a IH]; destruct b as [|y b]; cbn; try discriminate; auto.
  intros H. apply andb_prop in H. destruct H as [H1 H2]. apply N.eqb_eq in H1. subst. f_equal. auto.
Qed.

Lemma dict_set_ok (Q : dtype -> pyval -> bool) ms k y :
  forall acc, forallb (entry_ok Q ms) acc = true -> entry_ok Q ms (k, y) = true ->
  forallb (entry_ok Q ms) (dict_set k y acc) = true.
Proof.
  induction acc as [|[k' v'] acc IH]; cbn; intros Ha Hk.
  - rewrite Hk. reflexivity.
  - apply andb_prop in Ha. destruct Ha as [H1 H2].
    destruct (str_eqb k k'); cbn; [rewrite Hk, H2; reflexivity|rewrite H1; cbn; apply IH; assumption].
Qed.

Lemma struct_fold_sound (f : dtype -> pyval -> res pyval) (Q : dtype -> pyval -> bool) skip ms :
  Forall (fun m => forall x r, f (snd m) x = Ok r -> Q (snd m) r = true) ms ->
  forall kv acc out, forallb (entry_ok Q ms) acc = true ->
  struct_fold f skip ms kv acc = Ok out -> forallb (entry_ok Q ms) out = true.
Proof.
  intros HF. induction kv as [|[k x] kv IH]; intros acc out Ha; cbn.
  - intros H; inversion H; subst; exact Ha.
  - assert (Hgen : member_res f k x ms >>= (fun y => struct_fold f skip ms kv (dict_set k y acc)) = Ok out ->
                   forallb (entry_ok Q ms) out = true).
    { intros H. apply bind_ok in H. destruct H as (y & Hy & H).
      eapply IH; [|exact H]. apply dict_set_ok; [exact Ha|]. eapply member_res_sound; eauto. }
    destruct x; try exact Hgen. destruct skip; [apply IH; exact Ha|exact Hgen].
Qed.

Lemma py_len_iter v items : py_iter v = Some items -> py_len v = Some (Z.of_nat (length items)).
Proof.
  destruct v; cbn; intros H; inversion H; subst; rewrite ?map_length; reflexivity.
Qed.

Lemma array_check_ok a b v items :
  py_iter v = Some items -> array_check a b v = Ok tt ->
  (a <=? Z.of_nat (length items))%Z = true /\ (Z.of_nat (length items) <=? b)%Z = true.
Proof.
  intros Hi. unfold array_check. destruct (is_str_bytes_dict v); [discriminate|]. rewrite (py_len_iter v items Hi).
  destruct (Z.of_nat (length items) <? a)%Z eqn:E1; [discriminate|].
  destruct (b <? Z.of_nat (length items))%Z eqn:E2; [discriminate|].
  intros _. apply Z.ltb_ge in E1. apply Z.ltb_ge in E2. split; apply Z.leb_le; assumption.
Qed.

Lemma tuple_check_ok n v items :
  py_iter v = Some items -> tuple_check n v = Ok tt -> length items = n.
Proof.
  intros Hi. unfold tuple_check. destruct (is_str_bytes_dict v); [discriminate|]. rewrite (py_len_iter v items Hi).
  destruct (Z.eqb _ _) eqn:E; [|discriminate]. intros _. apply Z.eqb_eq in E. lia.
Qed.

Lemma in_setb_tuple es l : in_setb (TTuple es) (PTuple l) = all2 in_setb es l.
Proof.
  cbn [in_setb]. revert l. induction es as [|d1 es IH]; destruct l as [|x l]; cbn; try reflexivity.
  rewrite IH. reflexivity.
Qed.

Lemma in_setb_struct ms o c kv :
  in_setb (TStruct ms o c) (PDict kv) =
  forallb (entry_ok in_setb ms) kv && forallb (fun n => mem_str n o || mem_str n (map fst kv)) (map fst ms).
Proof. reflexivity. Qed.

Lemma check_missing_present names opt kv :
  check_missing names opt true kv = Ok tt -> forallb (fun n => mem_str n opt || mem_str n (map fst kv)) names = true.
Proof.
  unfold check_missing.
  destruct (filter (fun n => negb (mem_str n opt)) (filter (fun n => negb (mem_str n (map fst kv))) names)) eqn:E;
    [|discriminate].
  intros _. apply forallb_forall. intros n Hin.
  destruct (mem_str n opt) eqn:Eo; [reflexivity|]. destruct (mem_str n (map fst kv)) eqn:Ek; [reflexivity|].
  exfalso. assert (Hn : In n (filter (fun n => negb (mem_str n opt)) (filter (fun n => negb (mem_str n (map fst kv))) names))).
  { apply filter_In. split; [apply filter_In; split; [exact Hin|rewrite Ek; reflexivity]|rewrite Eo; reflexivity]. }
  rewrite E in Hn. destruct Hn.
Qed.

(* soundness: whatever is offered and whatever valid value is currently held, a value that validate returns lies in the
   declared value set.  Unbounded depth and width. *)
Theorem validate_sound : forall d, wf d -> forall v prev r,
  prev_ok d prev -> dt_validate d v prev = Ok r -> in_setb d r = true.
Proof.
  induction d using dtype_nested_ind; intros Hwf v prev r Hprev; cbn [dt_validate].
  - apply float_validate_sound. exact Hwf.
  - apply int_validate_sound.
  - apply scaled_validate_sound. exact Hwf.
  - apply bool_call_sound.
  - apply enum_call_sound.
  - apply string_call_sound.
  - apply blob_call_sound.
  - (* array *)
    intros H. apply bind_ok in H. destruct H as ([] & Hc & H).
    destruct (py_iter v) as [items|] eqn:Hi; [|discriminate].
    destruct (array_check_ok _ _ _ _ Hi Hc) as [La Lb].
    destruct (py_truthy prev) eqn:Ht.
    + destruct Hprev as [->|Hp]; [discriminate|].
      destruct prev; try discriminate. cbn in Hp.
      apply andb_prop in Hp. destruct Hp as [Hp Hall]. apply andb_prop in Hp. destruct Hp as [Pa Pb].
      cbn [py_iter] in H. apply bind_ok in H. destruct H as (ys & Hys & H). inversion H; subst.
      apply wrap_elem_ok in Hys.
      destruct (map2_res_sound (dt_validate d) (prev_ok d) (in_setb d)) with (items := items)
        (ps := l ++ repeat PNone (length items - length l)) (ys := ys)
        as [L F]; [intros x p r0 Hpp Hr; eapply IHd; [exact Hwf|exact Hpp|exact Hr]
                  | |exact Hys|].
      { apply Forall_app. split.
        - apply Forall_forall. intros p Hin. right. eapply forallb_forall in Hall; eauto.
        - apply Forall_forall. intros p Hin. apply repeat_spec in Hin. left. exact Hin. }
      cbn. rewrite F, L. rewrite app_length, repeat_length.
      assert (Nat.min (length items) (length l + (length items - length l)) = length items) as -> by lia.
      rewrite La, Lb. reflexivity.
    + apply bind_ok in H. destruct H as (ys & Hys & H). inversion H; subst. apply wrap_elem_ok in Hys.
      destruct (map_res_sound (fun x => dt_validate d x PNone) (in_setb d) items ys) as [L F];
        [intros x r0 _ Hr; eapply IHd; [exact Hwf|left; reflexivity|exact Hr]|exact Hys|].
      cbn. rewrite F, L, La, Lb. reflexivity.
  - (* tuple *)
    intros Hres. apply bind_ok in Hres. destruct Hres as ([] & Hc & Hres).
    destruct (py_iter v) as [items|] eqn:Hi; [|discriminate].
    pose proof (tuple_check_ok _ _ _ Hi Hc) as L.
    assert (HF1 : Forall (fun d1 => forall x r0, dt_validate d1 x PNone = Ok r0 -> in_setb d1 r0 = true) es).
    { clear -H Hwf. induction es as [|d1 es IH]; constructor.
      - inversion H; subst. intros x r0 Hr. eapply H2; [apply Hwf|left; reflexivity|exact Hr].
      - inversion H; subst. apply IH; [assumption|apply Hwf]. }
    assert (HF2 : Forall (fun d1 => forall x p r0, in_setb d1 p = true -> dt_validate d1 x p = Ok r0 -> in_setb d1 r0 = true) es).
    { clear -H Hwf. induction es as [|d1 es IH]; constructor.
      - inversion H; subst. intros x p r0 Hp Hr. eapply H2; [apply Hwf|right; exact Hp|exact Hr].
      - inversion H; subst. apply IH; [assumption|apply Hwf]. }
    destruct prev;
      try (destruct Hprev as [Hp|Hp]; [discriminate|discriminate]).
    + apply bind_ok in Hres. destruct Hres as (ys & Hys & Hres). inversion Hres; subst. apply wrap_elem_ok in Hys.
      rewrite in_setb_tuple. exact (mapd_res_sound (fun d1 x => dt_validate d1 x PNone) in_setb es items ys L HF1 Hys).
    + destruct Hprev as [Hp|Hp]; [discriminate|]. rewrite in_setb_tuple in Hp. cbn [py_iter] in Hres.
      apply bind_ok in Hres. destruct Hres as (ys & Hys & Hres). inversion Hres; subst. apply wrap_elem_ok in Hys.
      rewrite in_setb_tuple. exact (mapd2_res_sound dt_validate in_setb es items l ys L Hp HF2 Hys).
  - (* struct *)
    intros Hres. apply bind_ok in Hres. destruct Hres as ([] & Hc & Hres).
    assert (HF : Forall (fun m : str * dtype => forall x r0, dt_validate (snd m) x PNone = Ok r0 -> in_setb (snd m) r0 = true) ms).
    { clear -H Hwf. induction ms as [|m ms IH]; constructor.
      - inversion H; subst. intros x r0 Hr. eapply H2; [apply Hwf|left; reflexivity|exact Hr].
      - inversion H; subst. apply IH; [assumption|apply Hwf]. }
    assert (Hstart : forall start, (if py_truthy prev then match prev with PDict kv => Some kv | _ => None end else Some [])
                                   = Some start -> forallb (entry_ok in_setb ms) start = true).
    { intros start. destruct (py_truthy prev).
      - destruct Hprev as [->|Hp]; [discriminate|]. destruct prev; try discriminate.
        intros E; inversion E; subst. rewrite in_setb_struct in Hp. apply andb_prop in Hp. apply Hp.
      - intros E; inversion E; reflexivity. }
    destruct (if py_truthy prev then _ else _) as [start|]; [|discriminate].
    destruct (negb (is_dict v)); [discriminate|].
    apply bind_ok in Hres. destruct Hres as (kv & Hkv & Hres). apply wrap_elem_ok in Hkv.
    apply bind_ok in Hres. destruct Hres as ([] & Hmiss & Hres). inversion Hres; subst.
    rewrite in_setb_struct. apply andb_true_intro. split.
    + exact (struct_fold_sound (fun d1 x => dt_validate d1 x PNone) in_setb true ms HF (dict_items v) start kv (Hstart start eq_refl) Hkv).
    + apply check_missing_present. exact Hmiss.
Qed.

Corollary wire_sound E d : wf d -> forall j prev r, prev_ok d prev -> wire E d j prev = Ok r -> in_setb d r = true.
Proof.
  intros Hwf j prev r Hp H. unfold wire in H. apply bind_ok in H. destruct H as (v & _ & H).
  eapply validate_sound; eauto.
Qed.

(* ------------------------------------------------------------------ totality of import_value (unconditional) *)
Lemma map_res_okbad (f : pyval -> res pyval) items :
  (forall x, In x items -> okbad (f x) = true) -> okbad (map_res f items) = true.
Proof.
  induction items as [|x items IH]; intros H; cbn; [reflexivity|].
  apply okbad_bind; [apply H; left; reflexivity|intros y].
  apply okbad_bind_ok. apply IH. intros; apply H; right; assumption.
Qed.

Lemma scaled_import_okbad E s v : okbad (scaled_import E s v) = true.
Proof. unfold scaled_import. apply okbad_wrap_wrong. Qed.
Lemma blob_import_okbad E v : okbad (blob_import E v) = true.
Proof. destruct v; cbn; try reflexivity; destruct (lookup_sb _ _ _); reflexivity. Qed.

Lemma member_res_okbad (f : dtype -> pyval -> res pyval) k x ms :
  mem_str k (map fst ms) = true ->
  Forall (fun m => forall y, okbad (f (snd m) y) = true) ms ->
  okbad (member_res f k x ms) = true.
Proof.
  induction ms as [|[n d1] ms IH]; intros Hm HF; [discriminate|].
  change (member_res f k x ((n, d1) :: ms)) with (if str_eqb k n then f d1 x else member_res f k x ms).
  inversion HF as [|? ? H1 HF']; subst. cbn [snd] in H1. cbn in Hm.
  destruct (str_eqb k n); [apply H1|apply IH; assumption].
Qed.

Lemma struct_fold_okbad (f : dtype -> pyval -> res pyval) skip ms :
  forall kv acc,
  (forall k x, In (k, x) kv -> okbad (member_res f k x ms) = true) ->
  okbad (struct_fold f skip ms kv acc) = true.
Proof.
  induction kv as [|[k x] kv IH]; intros acc H; cbn; [reflexivity|].
  assert (Hgen : okbad (member_res f k x ms >>= (fun y => struct_fold f skip ms kv (dict_set k y acc))) = true).
  { apply okbad_bind; [apply H; left; reflexivity|]. intros y. apply IH. intros; apply H; right; assumption. }
  destruct x; try exact Hgen. destruct skip; [|exact Hgen]. apply IH. intros; apply H; right; assumption.
Qed.

Lemma struct_check_keys names opt c a kv :
  struct_check names opt c a (PDict kv) = Ok tt -> forall k x, In (k, x) kv -> mem_str k names = true.
Proof.
  unfold struct_check. destruct (existsb _ kv) eqn:E; [discriminate|]. intros _ k x Hin.
  destruct (mem_str k names) eqn:M; [reflexivity|]. exfalso.
  assert (existsb (fun p : str * pyval => negb (mem_str (fst p) names)) kv = true).
  { apply existsb_exists. exists (k, x). split; [exact Hin|]. cbn. rewrite M. reflexivity. }
  congruence.
Qed.

Lemma check_iter_some v : is_str_bytes_dict v = false -> py_len v <> None -> exists items, py_iter v = Some items.
Proof. destruct v; cbn; intros; try discriminate; try congruence; eauto. Qed.

Lemma array_check_iter a b v : array_check a b v = Ok tt -> exists items, py_iter v = Some items.
Proof.
  unfold array_check. destruct (is_str_bytes_dict v) eqn:E; [discriminate|].
  destruct (py_len v) eqn:L; [|discriminate]. intros _. apply check_iter_some; congruence.
Qed.
Lemma tuple_check_iter n v : tuple_check n v = Ok tt -> exists items, py_iter v = Some items.
Proof.
  unfold tuple_check. destruct (is_str_bytes_dict v) eqn:E; [discriminate|].
  destruct (py_len v) eqn:L; [|discriminate]. intros _. apply check_iter_some; congruence.
Qed.

(* import_value never leaks: for every datatype tree and every offered value the outcome is a value,
   RangeError or WrongTypeError *)
Theorem import_total E : forall d j, okbad (dt_import E d j) = true.
Proof.
  induction d using dtype_nested_ind; intros j; cbn [dt_import].
  - apply float_call_okbad.
  - apply int_call_okbad.
  - apply scaled_import_okbad.
  - apply bool_call_okbad.
  - apply enum_call_okbad.
  - apply string_call_okbad.
  - apply blob_import_okbad.
  - destruct (array_check a b j) as [[]|e] eqn:Ec;
      [|pose proof (array_check_okbad a b j) as Hc; rewrite Ec in Hc; exact Hc].
    destruct (array_check_iter _ _ _ Ec) as [items ->]. cbn [bind].
    apply okbad_bind_ok. apply map_res_okbad. intros x _. apply IHd.
  - destruct (tuple_check (length es) j) as [[]|e] eqn:Ec;
      [|pose proof (tuple_check_okbad (length es) j) as Hc; rewrite Ec in Hc; exact Hc].
    destruct (tuple_check_iter _ _ Ec) as [items ->]. cbn [bind].
    apply okbad_bind_ok. clear Ec. revert items. induction es as [|d1 es IH]; intros items; [reflexivity|].
    destruct items as [|x items]; [reflexivity|].
    inversion H; subst. cbn [mapd_res]. apply okbad_bind; [apply H2|intros y].
    apply okbad_bind_ok. apply IH; assumption.
  - destruct (struct_check (map fst ms) o c true j) as [[]|e] eqn:Ec;
      [|pose proof (struct_check_okbad (map fst ms) o c true j) as Hc; rewrite Ec in Hc; exact Hc].
    cbn [bind]. rewrite (struct_check_dict _ _ _ _ _ Ec). cbn [negb].
    destruct j; try discriminate. cbn [dict_items].
    apply okbad_bind_ok. apply struct_fold_okbad. intros k x Hin.
    apply member_res_okbad; [eapply struct_check_keys; eauto|].
    rewrite Forall_forall in H. apply Forall_forall. intros m Hm y. apply (H m Hm).
Qed.

(* kept for files written against the earlier (guarded) statement: the guard is now trivially true *)
Definition import_guard (d : dtype) (j : pyval) : bool := true.

Definition wire_guard (E : pyenv) (d : dtype) (j prev : pyval) : bool :=
  match dt_import E d j with Ok v => validate_guard d v prev | Err _ => true end.

Theorem wire_total E d j prev : wire_guard E d j prev = true -> okbad (wire E d j prev) = true.
Proof.
  unfold wire_guard, wire. intros G.
  pose proof (import_total E d j) as H. destruct (dt_import E d j) as [v|e]; [|exact H].
  cbn [bind]. apply validate_total. exact G.
Qed.

(* ------------------------------------------------------------------ canonical: kinds and lengths *)
Definition is_whole (f : f64) : bool :=
  fis_finite f && match cmp_Z_f (ftrunc f) f with Some Eq => true | _ => false end.
Definition is_number (j : pyval) : bool := match j with PBool _ | PInt _ | PFloat _ => true | _ => false end.

(* the JSON kinds (plus their Python-side equivalents) that may denote a value of the type *)
Fixpoint kind_ok (d : dtype) (j : pyval) {struct d} : bool :=
  match d with
  | TFloat _ _ _ _ | TInt _ _ => is_number j
  | TScaled _ _ _ => match j with PBool _ | PInt _ => true | PFloat f => is_whole f | _ => false end
  | TBool => match j with PBool _ | PInt _ | PFloat _ | PEnum _ _ => true | _ => false end
  | TEnum _ => match j with PStr _ | PBool _ | PInt _ | PEnum _ _ => true | PFloat f => is_whole f | _ => false end
  | TString _ _ _ => match j with PStr _ => true | _ => false end
  | TBlob _ _ => match j with PStr _ | PBytes _ => true | _ => false end
  | TArray e _ _ => match j with PList l | PTuple l => forallb (kind_ok e) l | _ => false end
  | TTuple es =>
      match j with
      | PList l | PTuple l =>
          (fix go (ds : list dtype) (l : list pyval) : bool :=
             match ds, l with
             | [], [] => true
             | d1 :: ds', x :: r => kind_ok d1 x && go ds' r
             | _, _ => false
             end) es l
      | _ => false
      end
  | TStruct ms _ _ =>
      match j with
      | PDict kv =>
          forallb (fun p : str * pyval =>
                     (fix find (ms : list (str * dtype)) : bool :=
                        match ms with
                        | [] => false
                        | (n, d1) :: ms' => if str_eqb (fst p) n then kind_ok d1 (snd p) else find ms'
                        end) ms) kv
      | _ => false
      end
  end.

Lemma kind_ok_tuple es l : (match PList l with PList l | PTuple l => true | _ => false end) = true ->
  kind_ok (TTuple es) (PList l) = all2 kind_ok es l /\ kind_ok (TTuple es) (PTuple l) = all2 kind_ok es l.
Proof.
  intros _. cbn [kind_ok]. split; revert l; induction es as [|d1 es IH]; destruct l as [|x l]; cbn; try reflexivity;
    rewrite IH; reflexivity.
Qed.

Lemma py_add0_number v f : py_add0 v = Ok f -> is_number v = true.
Proof. destruct v; cbn; try discriminate; reflexivity. Qed.

Lemma float_call_kind v r : float_call v = Ok r -> is_number v = true.
Proof.
  unfold float_call. destruct (py_add0 v) as [f|e] eqn:E; cbn; [|discriminate]. intros _. eapply py_add0_number; eauto.
Qed.
Lemma int_call_kind v r : int_call v = Ok r -> is_number v = true.
Proof.
  unfold int_call. destruct (py_add0 v) as [f|e] eqn:E; cbn; [|discriminate]. intros _. eapply py_add0_number; eauto.
Qed.

Lemma map_res_each (f : pyval -> res pyval) items ys :
  map_res f items = Ok ys -> length ys = length items /\ forall x, In x items -> exists y, f x = Ok y.
Proof.
  revert ys. induction items as [|x items IH]; intros ys; cbn.
  - intros H; inversion H; split; [reflexivity|intros ? []].
  - intros H. apply bind_ok in H. destruct H as (y & Hy & H). apply bind_ok in H. destruct H as (ys' & Hys & H).
    inversion H; subst. destruct (IH ys' Hys) as [L A]. split; [cbn; congruence|].
    intros x0 [->|Hin]; eauto.
Qed.

Lemma map2_res_length (f : pyval -> pyval -> res pyval) : forall items ps ys,
  map2_res f items ps = Ok ys -> length ys = Nat.min (length items) (length ps).
Proof.
  induction items as [|x items IH]; intros ps ys; cbn; [intros H; inversion H; reflexivity|].
  destruct ps as [|p ps]; [intros H; inversion H; reflexivity|].
  intros H. apply bind_ok in H. destruct H as (y & Hy & H). apply bind_ok in H. destruct H as (ys' & Hys & H).
  inversion H; subst. cbn. rewrite (IH ps ys' Hys). reflexivity.
Qed.

Lemma mapd_res_each (f : dtype -> pyval -> res pyval) (Q : dtype -> pyval -> bool) :
  forall ds items ys, length items = length ds ->
  Forall (fun d1 => forall x y, f d1 x = Ok y -> Q d1 x = true) ds ->
  mapd_res f ds items = Ok ys -> all2 Q ds items = true.
Proof.
  induction ds as [|d1 ds IH]; intros items ys L HF; cbn.
  - destruct items; [reflexivity|discriminate].
  - destruct items as [|x items]; [discriminate|]. inversion HF as [|? ? H1 HF']; subst.
    intros H. apply bind_ok in H. destruct H as (y & Hy & H). apply bind_ok in H. destruct H as (ys' & Hys & H).
    cbn. rewrite (H1 x y Hy). cbn. eapply IH; eauto.
Qed.

Lemma member_res_kind (f : dtype -> pyval -> res pyval) (Q : dtype -> pyval -> bool) k x :
  forall ms y, Forall (fun m => forall x y, f (snd m) x = Ok y -> Q (snd m) x = true) ms ->
  member_res f k x ms = Ok y -> entry_ok Q ms (k, x) = true.
Proof.
  induction ms as [|[n d1] ms IH]; intros y HF; [discriminate|].
  inversion HF as [|? ? H1 HF']; subst. cbn [snd] in H1.
  change (member_res f k x ((n, d1) :: ms)) with (if str_eqb k n then f d1 x else member_res f k x ms).
  change (entry_ok Q ((n, d1) :: ms) (k, x)) with (if str_eqb k n then Q d1 x else entry_ok Q ms (k, x)).
  destruct (str_eqb k n); [apply H1|apply IH; exact HF'].
Qed.

Lemma struct_fold_kind (f : dtype -> pyval -> res pyval) (Q : dtype -> pyval -> bool) ms :
  Forall (fun m => forall x y, f (snd m) x = Ok y -> Q (snd m) x = true) ms ->
  forall kv acc out, struct_fold f false ms kv acc = Ok out -> forallb (entry_ok Q ms) kv = true.
Proof.
  intros HF. induction kv as [|[k x] kv IH]; intros acc out; cbn [struct_fold forallb]; [reflexivity|].
  intros H.
  assert (Hb : member_res f k x ms >>= (fun y => struct_fold f false ms kv (dict_set k y acc)) = Ok out)
    by (destruct x; exact H).
  apply bind_ok in Hb. destruct Hb as (y & Hy & Hb).
  rewrite (member_res_kind f Q k x ms y HF Hy). cbn. eapply IH; eauto.
Qed.

Lemma check_is_seq v : is_str_bytes_dict v = false -> forall items, py_iter v = Some items ->
  v = PList items \/ v = PTuple items.
Proof. destruct v; cbn; intros; try discriminate; inversion H0; auto. Qed.

Lemma scaled_import_kind E s v r : scaled_import E s v = Ok r -> kind_ok (TScaled s fzero fzero) v = true.
Proof.
  unfold scaled_import. destruct v; cbn; try discriminate; try reflexivity.
  unfold is_whole. destruct (fis_finite f); cbn; [|discriminate].
  destruct (cmp_Z_f (ftrunc f) f) as [[]|]; cbn; try discriminate. reflexivity.
Qed.

Theorem import_kinds E : forall d j v, dt_import E d j = Ok v -> kind_ok d j = true.
Proof.
  induction d using dtype_nested_ind; intros j v; cbn [dt_import].
  - apply float_call_kind.
  - apply int_call_kind.
  - intros H. apply (scaled_import_kind E s j v H).
  - destruct j as [| | z | f | | | | | | n z |]; cbn; try discriminate; reflexivity.
  - destruct j as [| | z | f | | | | | | n z |]; cbn; try discriminate; try reflexivity.
    unfold is_whole. destruct (fis_finite f); cbn; [|discriminate].
    destruct (cmp_Z_f (ftrunc f) f) as [[]|]; cbn; try discriminate. reflexivity.
  - destruct j; cbn; try discriminate; reflexivity.
  - destruct j; cbn; try discriminate; reflexivity.
  - intros Hres. apply bind_ok in Hres. destruct Hres as ([] & Hc & Hres).
    destruct (array_check_iter _ _ _ Hc) as [items Hi]. rewrite Hi in Hres.
    apply bind_ok in Hres. destruct Hres as (ys & Hys & _).
    destruct (map_res_each _ _ _ Hys) as [_ Hall].
    assert (Hk : forallb (kind_ok d) items = true).
    { apply forallb_forall. intros x Hin. destruct (Hall x Hin) as [y Hy]. eapply IHd; eauto. }
    unfold array_check in Hc. destruct (is_str_bytes_dict j) eqn:Es; [discriminate|].
    destruct (check_is_seq j Es items Hi) as [->| ->]; exact Hk.
  - intros Hres. apply bind_ok in Hres. destruct Hres as ([] & Hc & Hres).
    destruct (tuple_check_iter _ _ Hc) as [items Hi]. rewrite Hi in Hres.
    apply bind_ok in Hres. destruct Hres as (ys & Hys & _).
    pose proof (tuple_check_ok _ _ _ Hi Hc) as L.
    assert (Hk : all2 kind_ok es items = true).
    { eapply (mapd_res_each (dt_import E) kind_ok); [exact L| |exact Hys].
      rewrite Forall_forall in H. apply Forall_forall. intros d1 Hd x y Hxy. eapply (H d1 Hd); eauto. }
    unfold tuple_check in Hc. destruct (is_str_bytes_dict j) eqn:Es; [discriminate|].
    destruct (kind_ok_tuple es items eq_refl) as [K1 K2].
    destruct (check_is_seq j Es items Hi) as [->| ->]; [rewrite K1|rewrite K2]; exact Hk.
  - intros Hres. apply bind_ok in Hres. destruct Hres as ([] & Hc & Hres).
    pose proof (struct_check_dict _ _ _ _ _ Hc) as Hd. rewrite Hd in Hres. cbn [negb] in Hres.
    destruct j; try discriminate. cbn [dict_items] in Hres.
    apply bind_ok in Hres. destruct Hres as (out & Hout & _).
    change (kind_ok (TStruct ms o c) (PDict kv)) with (forallb (entry_ok kind_ok ms) kv).
    eapply (struct_fold_kind (dt_import E) kind_ok); [|exact Hout].
    rewrite Forall_forall in H. apply Forall_forall. intros m Hm x y Hxy. eapply (H m Hm); eauto.
Qed.

Theorem array_length_preserved : forall e a b v prev items ys,
  py_iter v = Some items -> dt_validate (TArray e a b) v prev = Ok (PTuple ys) -> length ys = length items.
Proof.
  intros e a b v prev items ys Hi. cbn [dt_validate]. intros H.
  apply bind_ok in H. destruct H as ([] & _ & H). rewrite Hi in H.
  destruct (py_truthy prev).
  - destruct (py_iter prev) as [ps|]; [|discriminate].
    apply bind_ok in H. destruct H as (ys' & Hys & H). inversion H; subst. apply wrap_elem_ok in Hys.
    rewrite (map2_res_length _ _ _ _ Hys). rewrite app_length, repeat_length. lia.
  - apply bind_ok in H. destruct H as (ys' & Hys & H). inversion H; subst. apply wrap_elem_ok in Hys.
    apply (map_res_each _ _ _ Hys).
Qed.
