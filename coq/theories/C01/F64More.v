(* C01 — further binary64 facts needed for idempotence of the numeric leaves:
   bit identity is Leibniz equality, x + 0.0, the +-sys.float_info.max clamp, adding / subtracting a non-negative
   tolerance, exact int/float comparison, int -> float -> round. *)
From Coq Require Import ZArith Bool Reals Lra Lia Eqdep_dec.
From Flocq Require Import Core.Zaux Core.Raux Core.Defs Core.Generic_fmt Core.Float_prop Core.FIX Core.FLT
  IEEE754.BinarySingleNaN.
Require Import FV.Base.F64 FV.Base.F64Lemmas FV.C01.IdemDefs.

Local Open Scope R_scope.

(* ------------------------------------------------------------------ bit identity *)
Lemma bool_proof_irrel (b c : bool) (p q : b = c) : p = q.
Proof. apply UIP_dec. apply bool_dec. Qed.

Lemma fsame_refl (a : f64) : fsame a a = true.
Proof.
  destruct a as [[]|[]| |[] m e B]; cbn; try reflexivity;
    rewrite Pos.eqb_refl, Z.eqb_refl; reflexivity.
Qed.

Lemma fsame_eq (a b : f64) : fsame a b = true -> a = b.
Proof.
  destruct a as [s|s| |s m e B], b as [s'|s'| |s' m' e' B']; cbn; try discriminate; intros H.
  - apply eqb_prop in H. subst. reflexivity.
  - apply eqb_prop in H. subst. reflexivity.
  - reflexivity.
  - apply andb_prop in H. destruct H as [H He]. apply andb_prop in H. destruct H as [Hs Hm].
    apply eqb_prop in Hs. apply Pos.eqb_eq in Hm. apply Z.eqb_eq in He. subst.
    rewrite (bool_proof_irrel _ _ B B'). reflexivity.
Qed.

(* ------------------------------------------------------------------ x + 0.0 *)

Lemma fadd_zero_id (a : f64) : is_negzero a = false -> fadd a fzero = a.
Proof. destruct a as [[]|[]| |s m e B]; cbn; intros H; try discriminate; reflexivity. Qed.

Lemma fadd_zero_not_negzero (a : f64) : is_negzero (fadd a fzero) = false.
Proof. destruct a as [[]|[]| |s m e B]; reflexivity. Qed.

(* ------------------------------------------------------------------ signs *)
Definition fsign (a : f64) : bool := Bsign a.

Lemma fsign_fabs (a : f64) : fsign (fabs a) = false.
Proof. destruct a as [s|s| |s m e B]; reflexivity. Qed.

Lemma notnan_fabs (a : f64) : notnan a -> notnan (fabs a).
Proof. destruct a as [s|s| |s m e B]; cbn; auto. Qed.

Lemma flt_sign (a b : f64) : flt a b = true -> fsign a = false -> fsign b = false.
Proof.
  destruct a as [[]|[]| |[] m e B], b as [[]|[]| |[] m' e' B']; cbn; intros H S; try discriminate; reflexivity.
Qed.

Lemma pymax_nonneg (a b : f64) : notnan a -> fsign a = false -> notnan (pymax a b) /\ fsign (pymax a b) = false.
Proof.
  intros Na Sa. unfold pymax. destruct (flt a b) eqn:E; [|auto].
  split; [apply (flt_true_notnan _ _ E)|eapply flt_sign; eauto].
Qed.

(* ------------------------------------------------------------------ sys.float_info.max bounds every finite number *)
Definition fmax_parts (a : f64) : option (bool * positive * Z) :=
  match a with B754_finite s m e _ => Some (s, m, e) | _ => None end.

Lemma fmaxval_shape : exists B, fmaxval = B754_finite false 9007199254740991 971 B.
Proof.
  destruct fmaxval as [s|s| |s m e B] eqn:E;
    pose proof (f_equal fmax_parts E) as P; vm_compute in P; try discriminate.
  inversion P; subst. eexists; reflexivity.
Qed.

Lemma B2R_fmaxval : B2R fmaxval = bpow radix2 emax - bpow radix2 (emax - prec).
Proof.
  destruct fmaxval_shape as [B ->]. cbn [B2R cond_Zopp]. unfold F2R. cbn [Fnum Fexp].
  unfold emax, prec. replace (1024 - 53)%Z with 971%Z by reflexivity.
  replace 1024%Z with (53 + 971)%Z by reflexivity. rewrite bpow_plus.
  replace (bpow radix2 53) with (IZR 9007199254740992) by (cbn; reflexivity).
  rewrite (minus_IZR 9007199254740992 1) || replace (IZR 9007199254740991) with (IZR 9007199254740992 - 1) by (rewrite <- minus_IZR; reflexivity).
  ring.
Qed.

Lemma finite_abs_le_fmax (a : f64) : is_finite a = true -> Rabs (B2R a) <= B2R fmaxval.
Proof.
  rewrite B2R_fmaxval. destruct a as [s|s| |s m e B]; try discriminate; intros _.
  - cbn [B2R]. rewrite Rabs_R0. apply Rle_0_minus. apply bpow_le. unfold emax, prec. lia.
  - cbn [B2R]. rewrite <- F2R_Zabs. rewrite abs_cond_Zopp. cbn [Z.abs].
    apply (bounded_le_emax_minus_prec prec emax _ m e B).
Qed.

Lemma fis_finite_is_finite2 (a : f64) : fis_finite a = is_finite a.
Proof. destruct a; reflexivity. Qed.

Lemma fmaxval_finite : is_finite fmaxval = true.
Proof. destruct fmaxval_shape as [B ->]. reflexivity. Qed.

Lemma notnan_finite (a : f64) : is_finite a = true -> notnan a.
Proof. destruct a; cbn; try discriminate; reflexivity. Qed.

Lemma key_finite (a : f64) : is_finite a = true -> key a = B2R a.
Proof. destruct a; cbn; try discriminate; reflexivity. Qed.

Lemma B2R_fopp (a : f64) : B2R (fopp a) = - B2R a.
Proof. apply B2R_Bopp. Qed.

Lemma finite_between_fmax (a : f64) : fis_finite a = true ->
  fle (fopp fmaxval) a = true /\ fle a fmaxval = true.
Proof.
  rewrite fis_finite_is_finite2. intros Fa.
  pose proof (finite_abs_le_fmax a Fa) as H. pose proof fmaxval_finite as FM.
  assert (FO : is_finite (fopp fmaxval) = true) by (unfold fopp; rewrite is_finite_Bopp; exact FM).
  apply Rabs_le_inv in H.
  split; apply fle_true; try (apply notnan_finite; assumption);
    rewrite !key_finite by assumption; rewrite ?B2R_fopp; lra.
Qed.

Lemma fle_fmax_finite (a : f64) : fle (fopp fmaxval) a = true -> fle a fmaxval = true -> fis_finite a = true.
Proof.
  destruct a as [s|[]| |s m e B]; intros H1 H2; try reflexivity.
  - vm_compute in H1. discriminate.
  - vm_compute in H2. discriminate.
  - vm_compute in H2. discriminate.
Qed.

(* ------------------------------------------------------------------ the median-of-three, by cases *)
Lemma fclamp_cases (lo v hi : f64) :
  notnan lo -> notnan v -> notnan hi -> fle lo hi = true ->
  (flt v lo = true /\ fclamp lo v hi = lo) \/
  (flt hi v = true /\ fclamp lo v hi = hi) \/
  (fle lo v = true /\ fle v hi = true /\ fclamp lo v hi = v).
Proof.
  intros Hlo Hv Hhi Hle.
  unfold fclamp, clamp3, sort3.
  destruct (flt v lo) eqn:E1; destruct (flt hi v) eqn:E2; destruct (flt hi lo) eqn:E3;
    cmp_to_R; cbn.
  all: try (exfalso; lra).
  - left; split; reflexivity.
  - right; left; split; reflexivity.
  - right; right. split; [apply fle_true; [assumption|assumption|lra]|].
    split; [apply fle_true; [assumption|assumption|lra]|reflexivity].
Qed.

Lemma fclamp_nan (lo hi : f64) : fclamp lo fnan hi = fnan.
Proof.
  unfold fclamp, clamp3, sort3.
  assert (A : forall x, flt fnan x = false) by (intros x; destruct x; reflexivity).
  assert (B : forall x, flt x fnan = false) by (intros x; destruct x as [s|s| |s m e B]; reflexivity).
  rewrite A, B. destruct (flt hi lo); reflexivity.
Qed.

(* ------------------------------------------------------------------ subtracting / adding a non-negative number *)
Lemma B2SF_inf (r : f64) s : B2SF r = SpecFloat.S754_infinity s -> r = B754_infinity s.
Proof. destruct r; cbn; intros H; inversion H; reflexivity. Qed.

Lemma fsign_pos_B2R (p : f64) : is_finite p = true -> fsign p = false -> 0 <= B2R p.
Proof.
  destruct p as [s|s| |s m e B]; cbn; intros _ S; try lra. subst s. cbn.
  apply F2R_ge_0. cbn. lia.
Qed.

Lemma fsub_nonneg_le (m p : f64) :
  notnan m -> notnan p -> fsign p = false ->
  (fis_inf m && fis_inf p && negb (fsign m)) = false ->
  fle (fsub m p) m = true.
Proof.
  intros Nm Np Sp Hx.
  destruct (is_finite m) eqn:Fm; [destruct (is_finite p) eqn:Fp|].
  - pose proof (Bminus_correct prec emax _ _ mode_NE m p Fm Fp) as H.
    destruct (Rlt_bool _ _).
    + destruct H as (HR & HF & _).
      apply fle_true; [apply notnan_finite; exact HF|exact Nm|].
      rewrite !key_finite by assumption. unfold fsub. rewrite HR.
      apply round_le_generic; [apply fexp_correct; apply prec_gt_0_64|apply valid_rnd_round_mode|apply generic_format_B2R|].
      pose proof (fsign_pos_B2R p Fp Sp). lra.
    + destruct H as (HS & Hsg). unfold fsign in Sp. rewrite Sp in Hsg. cbn in Hsg. rewrite Hsg in HS.
      cbn in HS. apply B2SF_inf in HS. unfold fsub. rewrite HS.
      destruct m as [s|s| |s m e B]; try discriminate; reflexivity.
  - destruct p as [s|s| |s mp e B]; try discriminate. cbn in Sp. subst s.
    destruct m as [s|s| |s m e B]; try discriminate; reflexivity.
  - destruct m as [s|s| |s m e B]; try discriminate.
    destruct p as [sp|sp| |sp mp ep Bp]; try discriminate; cbn in Sp; subst;
      destruct s; cbn in Hx; try discriminate; reflexivity.
Qed.

Lemma fadd_nonneg_ge (m p : f64) :
  notnan m -> notnan p -> fsign p = false ->
  (fis_inf m && fis_inf p && fsign m) = false ->
  fle m (fadd m p) = true.
Proof.
  intros Nm Np Sp Hx.
  destruct (is_finite m) eqn:Fm; [destruct (is_finite p) eqn:Fp|].
  - pose proof (Bplus_correct prec emax _ _ mode_NE m p Fm Fp) as H.
    destruct (Rlt_bool _ _).
    + destruct H as (HR & HF & _).
      apply fle_true; [exact Nm|apply notnan_finite; exact HF|].
      rewrite !key_finite by assumption. unfold fadd. rewrite HR.
      apply round_ge_generic; [apply fexp_correct; apply prec_gt_0_64|apply valid_rnd_round_mode|apply generic_format_B2R|].
      pose proof (fsign_pos_B2R p Fp Sp). lra.
    + destruct H as (HS & Hsg). unfold fsign in Sp. rewrite Sp in Hsg. rewrite Hsg in HS.
      cbn in HS. apply B2SF_inf in HS. unfold fadd. rewrite HS.
      destruct m as [s|s| |s m e B]; try discriminate; reflexivity.
  - destruct p as [s|s| |s mp e B]; try discriminate. cbn in Sp. subst s.
    destruct m as [s|s| |s m e B]; try discriminate; reflexivity.
  - destruct m as [s|s| |s m e B]; try discriminate.
    destruct p as [sp|sp| |sp mp ep Bp]; try discriminate; cbn in Sp; subst;
      destruct s; cbn in Hx; try discriminate; reflexivity.
Qed.

(* ------------------------------------------------------------------ exact int / float comparison *)
Lemma cmp_Z_f_spec (z : Z) (a : f64) : is_finite a = true -> cmp_Z_f z a = Some (Rcompare (IZR z) (B2R a)).
Proof.
  destruct a as [s|s| |s m e B]; try discriminate; intros _; cbn [cmp_Z_f B2R].
  - rewrite (Rcompare_IZR z 0). reflexivity.
  - f_equal. unfold F2R. cbn [Fnum Fexp]. set (mz := cond_Zopp s (Z.pos m)).
    destruct (0 <=? e)%Z eqn:E.
    + apply Z.leb_le in E. rewrite <- IZR_Zpower by exact E. rewrite <- mult_IZR.
      rewrite Rcompare_IZR. reflexivity.
    + apply Z.leb_gt in E.
      rewrite <- (Rcompare_mult_r (bpow radix2 (- e))) by apply bpow_gt_0.
      rewrite Rmult_assoc, <- bpow_plus. replace (e + - e)%Z with 0%Z by lia. cbn [bpow]. rewrite Rmult_1_r.
      rewrite <- IZR_Zpower by lia. rewrite <- mult_IZR. rewrite Rcompare_IZR. reflexivity.
Qed.

Lemma IZR_FIX0 (z : Z) : generic_format radix2 (FIX_exp 0) (IZR z).
Proof.
  apply generic_format_FIX. exists (Float radix2 z 0); [|reflexivity].
  unfold F2R. cbn. ring.
Qed.

(* a python int converted to float is a whole number *)
Lemma float_of_Z_spec (z : Z) (f : f64) : float_of_Z z = Some f ->
  is_finite f = true /\ B2R f = round radix2 (FLT_exp (3 - emax - prec) prec) (round_mode mode_NE) (IZR z).
Proof.
  unfold float_of_Z. destruct (fis_finite (of_Z z)) eqn:Ff; [|discriminate]. intros H; inversion H; subst f. clear H.
  rewrite fis_finite_is_finite2 in Ff. split; [exact Ff|].
  unfold of_Z, fmk in *.
  pose proof (binary_normalize_correct prec emax _ _ mode_NE z 0 false) as Hn. cbn zeta in Hn.
  assert (E : F2R (Float radix2 z 0) = IZR z) by (unfold F2R; cbn; ring).
  rewrite E in Hn.
  destruct (Rlt_bool _ _).
  - apply Hn.
  - exfalso. cbn in Hn. apply B2SF_inf in Hn. rewrite Hn in Ff. discriminate.
Qed.

Lemma fround_IZR (a : f64) : is_finite a = true -> generic_format radix2 (FIX_exp 0) (B2R a) ->
  IZR (fround a) = B2R a.
Proof.
  intros Fa Ga. unfold fround. set (y := Bnearbyint mode_NE a).
  destruct (Bnearbyint_correct prec emax _ mode_NE a) as (Hy & Fy & _). fold y in Hy, Fy.
  rewrite (Btrunc_correct prec emax _ y).
  rewrite Hy. rewrite (round_generic radix2 (FIX_exp 0) (round_mode mode_NE) (B2R a)) by
    (try apply valid_rnd_round_mode; exact Ga).
  apply round_generic; [apply valid_rnd_ZR|exact Ga].
Qed.

Lemma float_of_Z_whole (z : Z) (f : f64) : float_of_Z z = Some f -> cmp_Z_f (fround f) f = Some Eq.
Proof.
  intros H. destruct (float_of_Z_spec z f H) as [Ff HR].
  rewrite (cmp_Z_f_spec _ f Ff). f_equal. apply Rcompare_Eq.
  apply fround_IZR; [exact Ff|]. rewrite HR.
  apply generic_round_generic; try apply FIX_exp_valid; try (apply fexp_correct; apply prec_gt_0_64);
    try apply valid_rnd_round_mode. apply IZR_FIX0.
Qed.

(* int(x) of a finite float converts back to a float without OverflowError *)
Lemma ftrunc_representable (a : f64) : fis_finite a = true -> exists f, float_of_Z (ftrunc a) = Some f.
Proof.
  rewrite fis_finite_is_finite2. intros Fa. unfold float_of_Z, ftrunc, of_Z, fmk.
  pose proof (Btrunc_correct prec emax _ a) as Ht.
  pose proof (binary_normalize_correct prec emax _ _ mode_NE (Btrunc a) 0 false) as Hn. cbn zeta in Hn.
  assert (E : F2R (Float radix2 (Btrunc a) 0) = IZR (Btrunc a)) by (unfold F2R; cbn; ring).
  rewrite E in Hn.
  assert (Hle : Rabs (IZR (Btrunc a)) <= Rabs (B2R a)).
  { rewrite Ht. rewrite <- round_ZR_abs by apply FIX_exp_valid.
    rewrite round_ZR_DN by (try apply FIX_exp_valid; apply Rabs_pos).
    apply round_DN_pt. apply FIX_exp_valid. }
  rewrite Rlt_bool_true in Hn.
  - destruct Hn as (_ & Hf & _). rewrite fis_finite_is_finite2, Hf. eexists; reflexivity.
  - eapply Rle_lt_trans; [|apply (abs_B2R_lt_emax prec emax a)].
    apply abs_round_le_generic; [apply fexp_correct; apply prec_gt_0_64|apply valid_rnd_round_mode| |exact Hle].
    apply generic_format_abs. apply generic_format_B2R.
Qed.

Lemma float_of_Z_not_negzero (z : Z) (f : f64) : float_of_Z z = Some f -> is_negzero f = false.
Proof.
  unfold float_of_Z. destruct (fis_finite (of_Z z)) eqn:Ff; [|discriminate]. intros H; inversion H; subst f. clear H.
  unfold of_Z, fmk in *.
  pose proof (binary_normalize_correct prec emax _ _ mode_NE z 0 false) as Hn. cbn zeta in Hn.
  assert (E : F2R (Float radix2 z 0) = IZR z) by (unfold F2R; cbn; ring).
  rewrite E in Hn.
  destruct (Rlt_bool _ _).
  - destruct Hn as (HR & _ & HS).
    destruct (binary_normalize prec emax _ _ mode_NE z 0 false) as [[]|s| |s m e B]; try reflexivity.
    exfalso. cbn [Bsign] in HS. cbn [B2R] in HR.
    destruct (Rcompare_spec (IZR z) 0) as [Hlt|Heq|Hgt]; try discriminate.
    assert (Hz : IZR z <= -1) by (apply (IZR_le z (-1)); apply lt_IZR in Hlt; lia).
    assert (Hr : round radix2 (FLT_exp (3 - emax - prec) prec) (round_mode mode_NE) (IZR z) <= -1).
    { apply round_le_generic; [apply fexp_correct; apply prec_gt_0_64|apply valid_rnd_round_mode| |exact Hz].
      apply generic_format_opp. apply generic_format_FLT_1; [apply prec_gt_0_64|unfold emax, prec; lia]. }
    assert (H0 : 0 <= -1) by (eapply Rle_trans; [right; exact HR|exact Hr]). lra.
  - cbn in Hn. apply B2SF_inf in Hn. rewrite Hn. reflexivity.
Qed.
