(* C01 - validation does not look at the flavour (dict / ImmutableDict) of a candidate mapping, at any depth *)
From Coq Require Import ZArith NArith Bool List.
Import ListNotations.
Require Import FV.Base.PyVal FV.C01.Model FV.C01.FlavourDefs.

Section CvalInd.
  Variable P : cval -> Prop.
  Hypothesis HLeaf : forall v, P (CLeaf v).
  Hypothesis HList : forall l, Forall P l -> P (CList l).
  Hypothesis HTuple : forall l, Forall P l -> P (CTuple l).
  Hypothesis HDict : forall b kv, Forall (fun p => P (snd p)) kv -> P (CDict b kv).

  Fixpoint cval_nested_ind (c : cval) : P c :=
    let go := fix go (l : list cval) : Forall P l :=
                match l with
                | [] => Forall_nil P
                | x :: r => Forall_cons x (cval_nested_ind x) (go r)
                end in
    match c with
    | CLeaf v => HLeaf v
    | CList l => HList l (go l)
    | CTuple l => HTuple l (go l)
    | CDict b kv =>
        HDict b kv ((fix gd (l : list (str * cval)) : Forall (fun p => P (snd p)) l :=
                       match l with
                       | [] => Forall_nil _
                       | x :: r => Forall_cons x (cval_nested_ind (snd x)) (gd r)
                       end) kv)
    end.
End CvalInd.

Lemma erase_thaw : forall c, erase (thaw c) = erase c.
Proof.
  induction c using cval_nested_ind; cbn [thaw erase].
  - reflexivity.
  - f_equal. rewrite map_map. apply map_ext_Forall. exact H.
  - f_equal. rewrite map_map. apply map_ext_Forall. exact H.
  - f_equal. rewrite map_map. apply map_ext_Forall.
    eapply Forall_impl; [|exact H]. intros [k x] Hx. cbn in *. now rewrite Hx.
Qed.

(* two candidates that differ only in the flavour of their mappings denote the same value for the model *)
Lemma same_items_erase : forall c1 c2, thaw c1 = thaw c2 -> erase c1 = erase c2.
Proof. intros c1 c2 H. rewrite <- (erase_thaw c1), <- (erase_thaw c2), H. reflexivity. Qed.

Lemma validate_ignores_flavour : forall d c1 c2 prev,
  thaw c1 = thaw c2 -> cv_validate d c1 prev = cv_validate d c2 prev /\ cv_call d c1 = cv_call d c2.
Proof. intros d c1 c2 prev H. unfold cv_validate, cv_call. rewrite (same_items_erase _ _ H). split; reflexivity. Qed.

Lemma validate_frozen_as_plain : forall d kv prev b1 b2,
  cv_validate d (CDict b1 kv) prev = cv_validate d (CDict b2 kv) prev.
Proof. intros. apply validate_ignores_flavour. reflexivity. Qed.

(* a frozen candidate is judged by the same soundness theorem as a plain one: nothing is returned without the
   member loop having validated every member *)
Lemma thaw_no_frozen : forall c, has_frozen (thaw c) = false.
Proof.
  induction c using cval_nested_ind; cbn [thaw has_frozen].
  - reflexivity.
  - induction H; cbn; [reflexivity|]. now rewrite H, IHForall.
  - induction H; cbn; [reflexivity|]. now rewrite H, IHForall.
  - cbn. induction H as [|[k x] r Hx _ IH]; cbn; [reflexivity|]. cbn in Hx. now rewrite Hx, IH.
Qed.
