(* C01 — executable definitions for idempotence and canonical kinds (no proofs; used by Run.v and Idem.v) *)
From Coq Require Import ZArith NArith Bool List.
Import ListNotations.
From Flocq Require Import IEEE754.BinarySingleNaN.
Require Import FV.Base.Util FV.Base.F64 FV.Base.PyVal FV.C01.Model.

Definition is_negzero (a : f64) : bool := match a with B754_zero true => true | _ => false end.

Fixpoint nodup_str (l : list str) : bool :=
  match l with [] => true | k :: r => negb (mem_str k r) && nodup_str r end.
Fixpoint nodup_z (l : list Z) : bool :=
  match l with [] => true | k :: r => negb (existsb (Z.eqb k) r) && nodup_z r end.

(* what the constructors guarantee beyond wf and idempotence needs (pinned by the facts
   float_properties_pass_through_float_call / enum_refuses_duplicates and evaluated on every generated datatype by
   Run.check_case): a limit of a double is not the negative zero (min/max are properties validated by FloatRange(),
   whose conversion adds 0.0), the relative resolution is a finite number (validated by FloatRange(0)), enum values
   are distinct (frappy.lib.enum.Enum refuses duplicates) *)
Fixpoint idem_dt (d : dtype) : bool :=
  match d with
  | TFloat mn mx _ r => negb (is_negzero mn) && negb (is_negzero mx) && fis_finite r
  | TEnum ms => nodup_z (map snd ms)
  | TArray e _ _ => idem_dt e
  | TTuple es => forallb idem_dt es
  | TStruct ms _ _ => forallb (fun m => idem_dt (snd m)) ms
  | _ => true
  end.

Fixpoint stable (d : dtype) (w : pyval) {struct d} : bool :=
  match d with
  | TArray e a b =>
      match w with
      | PTuple l => (a <=? Z.of_nat (length l))%Z && (Z.of_nat (length l) <=? b)%Z && forallb (stable e) l
      | _ => false
      end
  | TTuple es =>
      match w with
      | PTuple l =>
          (fix go (ds : list dtype) (l : list pyval) : bool :=
             match ds, l with
             | [], [] => true
             | d1 :: ds', x :: r => stable d1 x && go ds' r
             | _, _ => false
             end) es l
      | _ => false
      end
  | TStruct ms opt _ =>
      match w with
      | PDict kv =>
          nodup_str (map fst kv) &&
          forallb (fun p : str * pyval =>
                     (fix find (ms : list (str * dtype)) : bool :=
                        match ms with
                        | [] => false
                        | (n, d1) :: ms' => if str_eqb (fst p) n then stable d1 (snd p) else find ms'
                        end) ms) kv &&
          forallb (fun n => mem_str n opt || mem_str n (map fst kv)) (map fst ms)
      | _ => false
      end
  | _ => res_same (dt_validate d w PNone) (Ok w)
  end.

(* the side condition at scaled leaves: the returned grid value is reproduced by the rounding to the grid
   (ScaledInteger.__call__) and lies strictly inside the acceptance window min - scale < value < max + scale.
   Both hold on every grid of realistic size; they fail when the grid index exceeds about 2^52 (Refuted.v) *)
Definition scaled_leaf_ok (s mn mx : f64) (w : pyval) : bool :=
  res_same (scaled_call s w) (Ok w) && f_lt_num (fsub mn s) w && num_lt_f w (fadd mx s).

Fixpoint scaled_ok (d : dtype) (w : pyval) {struct d} : bool :=
  match d with
  | TScaled s mn mx => scaled_leaf_ok s mn mx w
  | TArray e _ _ => match w with PTuple l => forallb (scaled_ok e) l | _ => false end
  | TTuple es =>
      match w with
      | PTuple l =>
          (fix go (ds : list dtype) (l : list pyval) : bool :=
             match ds, l with
             | [], [] => true
             | d1 :: ds', x :: r => scaled_ok d1 x && go ds' r
             | _, _ => false
             end) es l
      | _ => false
      end
  | TStruct ms _ _ =>
      match w with
      | PDict kv =>
          forallb (fun p : str * pyval =>
                     (fix find (ms : list (str * dtype)) : bool :=
                        match ms with
                        | [] => false
                        | (n, d1) :: ms' => if str_eqb (fst p) n then scaled_ok d1 (snd p) else find ms'
                        end) ms) kv
      | _ => false
      end
  | _ => true
  end.

(* canonical representation kind *)
Fixpoint canon (d : dtype) (w : pyval) {struct d} : bool :=
  match d with
  | TFloat _ _ _ _ | TScaled _ _ _ => match w with PFloat _ => true | _ => false end
  | TInt _ _ => match w with PInt _ => true | _ => false end
  | TBool => match w with PBool _ => true | _ => false end
  | TEnum ms =>
      match w with PEnum n z => existsb (fun p => str_eqb n (fst p) && Z.eqb z (snd p)) ms | _ => false end
  | TString _ _ _ => match w with PStr _ => true | _ => false end
  | TBlob _ _ => match w with PBytes _ => true | _ => false end
  | TArray e _ _ => match w with PTuple l => forallb (canon e) l | _ => false end
  | TTuple es =>
      match w with
      | PTuple l =>
          (fix go (ds : list dtype) (l : list pyval) : bool :=
             match ds, l with
             | [], [] => true
             | d1 :: ds', x :: r => canon d1 x && go ds' r
             | _, _ => false
             end) es l
      | _ => false
      end
  | TStruct ms _ _ =>
      match w with
      | PDict kv =>
          nodup_str (map fst kv) &&
          forallb (fun p : str * pyval =>
                     (fix find (ms : list (str * dtype)) : bool :=
                        match ms with
                        | [] => false
                        | (n, d1) :: ms' => if str_eqb (fst p) n then canon d1 (snd p) else find ms'
                        end) ms) kv
      | _ => false
      end
  end.


(* a type without scaled leaves needs no side condition *)
Fixpoint no_scaled (d : dtype) : bool :=
  match d with
  | TScaled _ _ _ => false
  | TArray e _ _ => no_scaled e
  | TTuple es => forallb no_scaled es
  | TStruct ms _ _ => forallb (fun m => no_scaled (snd m)) ms
  | _ => true
  end.


(* grids of realistic size: the scale is a normal number not above 2^900, the limits are finite and at most 2^48
   steps away from zero (the constructors do not guarantee this: Refuted.v has a grid beyond 2^52 steps) *)
Definition scaled_small (s mn mx : f64) : bool :=
  fle (fmk 1 (-1022)) s && fle s (fmk 1 900) && fis_finite mn && fis_finite mx &&
  fle (fabs mn) (fmul (fmk 1 48) s) && fle (fabs mx) (fmul (fmk 1 48) s).

Fixpoint small_grids (d : dtype) : bool :=
  match d with
  | TScaled s mn mx => scaled_small s mn mx
  | TArray e _ _ => small_grids e
  | TTuple es => forallb small_grids es
  | TStruct ms _ _ => forallb (fun m => small_grids (snd m)) ms
  | _ => true
  end.
