(* C01 — correspondence driver *)
From Coq Require Import ZArith NArith Bool List.
Import ListNotations.
Require Import FV.Base.Util FV.Base.F64 FV.Base.PyVal FV.C01.Model FV.C01.IdemDefs FV.C01.FlavourDefs.

Inductive op := OpCall | OpValidate | OpImport | OpWire.

Record case := {
  c_env : pyenv;
  c_d : dtype;
  c_op : op;
  c_v : cval;                      (* the candidate, every mapping with its flavour (dict / ImmutableDict): FlavourDefs.v *)
  c_prev : pyval;
  c_obs : res pyval;               (* what the implementation returned / raised *)
  c_obs2 : option (res pyval);     (* validate(result) once more, when the first call succeeded (validate / wire) *)
}.

Definition model_result (c : case) : res pyval :=
  match c_op c with
  | OpCall => cv_call (c_d c) (c_v c)
  | OpValidate => cv_validate (c_d c) (c_v c) (c_prev c)
  | OpImport => dt_import (c_env c) (c_d c) (erase (c_v c))
  | OpWire => wire (c_env c) (c_d c) (erase (c_v c)) (c_prev c)
  end.

Definition case_in_domain (c : case) : bool :=
  in_domain (c_d c) (erase (c_v c)) &&
  match c_op c with
  | OpWire => match dt_import (c_env c) (c_d c) (erase (c_v c)) with Ok v' => in_domain (c_d c) v' | Err _ => true end
  | _ => true
  end.

(* besides model = implementation: the datatype (built by the real constructors) satisfies idem_dt, the
   assumption of the idempotence theorems about what the constructors guarantee *)
Definition check_case (c : case) : bool :=
  negb (case_in_domain c) ||
  (idem_dt (c_d c) &&
   res_same (model_result c) (c_obs c) &&
   match c_obs2 c, model_result c with
   | Some o2, Ok r => res_same (dt_validate (c_d c) r PNone) o2
   | _, _ => true
   end).
