(* C01 — executable model of frappy/datatypes.py: __call__, validate, import_value of the ten SECoP types.
   Mirrors the code branch by branch, including which exceptions are caught where.  No proofs here. *)
From Coq Require Import ZArith NArith Bool List.
Import ListNotations.
Require Import FV.Base.Util FV.Base.F64 FV.Base.PyVal.

Inductive dtype :=
| TFloat (mn mx absres relres : f64)
| TInt (mn mx : Z)
| TScaled (scale mn mx : f64)
| TBool
| TEnum (members : list (str * Z))
| TString (minc maxc : Z) (utf8 : bool)
| TBlob (minb maxb : Z)
| TArray (elem : dtype) (minlen maxlen : Z)
| TTuple (elems : list dtype)
| TStruct (members : list (str * dtype)) (optional : list str) (client : bool).

(* CPython library behaviour supplied as data with each case: b64decode(<str|bytes>, validate=True).
   Key: (is_bytes, content).  Absent = the call raises binascii.Error.  (int_of is no longer consulted.) *)
Record pyenv := {
  int_of : list (bool * str * Z);
  b64_of : list (bool * str * str);
}.
Fixpoint lookup_sb {A} (b : bool) (s : str) (l : list (bool * str * A)) : option A :=
  match l with
  | [] => None
  | (b', s', a) :: r => if Bool.eqb b b' && str_eqb s s' then Some a else lookup_sb b s r
  end.

(* ------------------------------------------------------------------ leaves *)
Definition float_call (v : pyval) : res pyval :=
  match wrap_wrong (py_add0 v) with                   (* value += 0.0 ; any exception -> WrongTypeError *)
  | Err e => Err e
  | Ok f => Ok (PFloat (fclamp (fopp fmaxval) f fmaxval))
  end.

Definition float_validate (mn mx absres relres : f64) (v : pyval) : res pyval :=
  match float_call v with
  | Ok (PFloat f) =>
      let p := pymax (fabs (fmul f relres)) absres in
      if fle (fsub mn p) f && fle f (fadd mx p) then Ok (PFloat (fclamp mn f mx)) else Err ERange
  | Ok _ => Err EOther
  | Err e => Err e
  end.

(* int(value) for numbers: ValueError for nan, OverflowError for inf *)
Definition py_int_num (v : pyval) : res Z :=
  match v with
  | PBool b => Ok (if b then 1 else 0)%Z
  | PInt z => Ok z
  | PFloat f => if fis_nan f then Err EValue else if fis_inf f then Err EOverflow else Ok (ftrunc f)
  | _ => Err EType
  end.

Definition int_call (v : pyval) : res pyval :=
  match wrap_wrong (py_add0 v >>= fun fv => py_int_num v >>= fun z => Ok (fv, z)) with
  | Err e => Err e
  | Ok (fv, z) =>
      (* if round(fvalue) != fvalue: raise WrongTypeError *)
      match cmp_Z_f (fround fv) fv with
      | Some Eq => Ok (PInt z)
      | _ => Err EWrongType
      end
  end.

Definition int_validate (mn mx : Z) (v : pyval) : res pyval :=
  match int_call v with
  | Ok (PInt z) => if (mn <=? z)%Z && (z <=? mx)%Z then Ok (PInt z) else Err ERange
  | Ok _ => Err EOther
  | Err e => Err e
  end.

(* round(x) of a float: ValueError for nan, OverflowError for inf *)
Definition py_round (f : f64) : res Z :=
  if fis_nan f then Err EValue else if fis_inf f then Err EOverflow else Ok (fround f).

(* int * float *)
Definition py_int_mul_float (z : Z) (f : f64) : res f64 :=
  match float_of_Z z with Some zf => Ok (fmul zf f) | None => Err EOverflow end.

Definition scaled_call (scale : f64) (v : pyval) : res pyval :=
  match wrap_wrong (py_add0 v) with
  | Err e => Err e
  | Ok f =>
      match py_round (fdiv f scale) with
      | Err _ => Err ERange                           (* except (ValueError, OverflowError): raise RangeError *)
      | Ok k => py_int_mul_float k scale >>= fun r => Ok (PFloat r)
      end
  end.

(* a < v for a float a and a number v (Python compares int and float exactly) *)
Definition f_lt_num (a : f64) (v : pyval) : bool :=
  match v with
  | PBool b => match cmp_Z_f (if b then 1 else 0)%Z a with Some Gt => true | _ => false end
  | PInt z => match cmp_Z_f z a with Some Gt => true | _ => false end
  | PFloat f => flt a f
  | _ => false
  end.
Definition num_lt_f (v : pyval) (a : f64) : bool :=
  match v with
  | PBool b => match cmp_Z_f (if b then 1 else 0)%Z a with Some Lt => true | _ => false end
  | PInt z => match cmp_Z_f z a with Some Lt => true | _ => false end
  | PFloat f => flt f a
  | _ => false
  end.

Definition scaled_validate (scale mn mx : f64) (v : pyval) : res pyval :=
  match scaled_call scale v with
  | Ok (PFloat r) =>
      if f_lt_num (fsub mn scale) v && num_lt_f v (fadd mx scale) then
        match scaled_call scale (PFloat mn), scaled_call scale (PFloat mx) with
        | Ok (PFloat lo), Ok (PFloat hi) => Ok (PFloat (fclamp lo r hi))
        | Err e, _ => Err e
        | _, Err e => Err e
        | _, _ => Err EOther
        end
      else Err ERange
  | Ok _ => Err EOther
  | Err e => Err e
  end.

(* ScaledInteger.import_value: a whole-number float is taken as that int; anything that is not an int raises
   TypeError inside the try, an int too large for a float raises OverflowError there: all become WrongTypeError *)
Definition scaled_import (E : pyenv) (scale : f64) (v : pyval) : res pyval :=
  let as_int : res Z :=
    match v with
    | PBool b => Ok (if b then 1 else 0)%Z
    | PInt z => Ok z
    | PFloat f =>
        if fis_finite f then
          match cmp_Z_f (ftrunc f) f with Some Eq => Ok (ftrunc f) | _ => Err EType end
        else Err EType
    | _ => Err EType
    end in
  wrap_wrong (as_int >>= fun z =>
              match float_of_Z z with Some zf => Ok (PFloat (fmul scale zf)) | None => Err EOverflow end).

(* value in (0, 1) *)
Definition bool_call (v : pyval) : res pyval :=
  match v with
  | PBool b => Ok (PBool b)
  | PInt 0 => Ok (PBool false)
  | PInt 1 => Ok (PBool true)
  | PFloat f => if feq f fzero then Ok (PBool false) else if feq f (of_Z 1) then Ok (PBool true) else Err EWrongType
  | PEnum _ 0 => Ok (PBool false)
  | PEnum _ 1 => Ok (PBool true)
  | _ => Err EWrongType
  end.

Fixpoint enum_by_value (z : Z) (ms : list (str * Z)) : option (str * Z) :=
  match ms with [] => None | (n, v) :: r => if Z.eqb z v then Some (n, v) else enum_by_value z r end.
Fixpoint enum_by_name (s : str) (ms : list (str * Z)) : option (str * Z) :=
  match ms with [] => None | (n, v) :: r => if str_eqb s n then Some (n, v) else enum_by_name s r end.

(* hashable in the sense of dict lookup raising TypeError *)
Fixpoint py_hashable (v : pyval) : bool :=
  match v with
  | PList _ | PDict _ => false
  | PTuple l => forallb py_hashable l
  | _ => true
  end.

Definition enum_call (ms : list (str * Z)) (v : pyval) : res pyval :=
  let found (o : option (str * Z)) (is_int_or_str : bool) :=
    match o with
    | Some (n, z) => Ok (PEnum n z)
    | None => if is_int_or_str then Err ERange else Err EWrongType
    end in
  match v with
  | PStr s => found (enum_by_name s ms) true
  | PInt z => found (enum_by_value z ms) true
  | PBool b => found (enum_by_value (if b then 1 else 0)%Z ms) true
  | PFloat f =>
      (* dict lookup with a float key finds the int key it is equal to *)
      if fis_finite f then
        match cmp_Z_f (ftrunc f) f with
        | Some Eq => found (enum_by_value (ftrunc f) ms) false
        | _ => Err EWrongType
        end
      else Err EWrongType
  | PEnum _ z => found (enum_by_value z ms) false
  | _ => Err EWrongType
  end.

Definition string_call (minc maxc : Z) (utf8 : bool) (v : pyval) : res pyval :=
  match v with
  | PStr s =>
      if negb utf8 && negb (forallb (fun c => N.ltb c 128) s) then Err ERange
      else let n := Z.of_nat (length s) in
           if (n <? minc)%Z then Err ERange
           else if (maxc <? n)%Z then Err ERange
           else if existsb (fun c => N.eqb c 0) s then Err ERange
           else Ok (PStr s)
  | _ => Err EWrongType
  end.

Definition blob_call (minb maxb : Z) (v : pyval) : res pyval :=
  match v with
  | PBytes s =>
      let n := Z.of_nat (length s) in
      if (n <? minb)%Z then Err ERange else if (maxb <? n)%Z then Err ERange else Ok (PBytes s)
  | _ => Err EWrongType
  end.

Definition blob_import (E : pyenv) (v : pyval) : res pyval :=
  match v with
  | PStr s => match lookup_sb false s (b64_of E) with Some b => Ok (PBytes b) | None => Err EWrongType end
  | PBytes s => match lookup_sb true s (b64_of E) with Some b => Ok (PBytes b) | None => Err EWrongType end
  | _ => Err EWrongType                               (* TypeError caught by "except Exception" *)
  end.

(* ------------------------------------------------------------------ containers: helpers *)
(* isinstance(value, (str, bytes, dict)) *)
Definition is_str_bytes_dict (v : pyval) : bool :=
  match v with PStr _ | PBytes _ | PDict _ => true | _ => false end.

Definition array_check (minlen maxlen : Z) (v : pyval) : res unit :=
  if is_str_bytes_dict v then Err EWrongType else
  match py_len v with
  | None => Err EWrongType
  | Some n => if (n <? minlen)%Z then Err ERange else if (maxlen <? n)%Z then Err ERange else Ok tt
  end.

Definition tuple_check (n : nat) (v : pyval) : res unit :=
  if is_str_bytes_dict v then Err EWrongType else
  match py_len v with
  | None => Err EWrongType
  | Some k => if Z.eqb k (Z.of_nat n) then Ok tt else Err EWrongType
  end.

Definition struct_check (names optional : list str) (client allow_optional : bool) (v : pyval) : res unit :=
  match v with
  | PDict kv =>
      if existsb (fun p => negb (mem_str (fst p) names)) kv then Err EWrongType   (* superfluous *)
      else
        let present := map fst kv in
        let missing := filter (fun n => negb (mem_str n present)) names in
        let missing := if client || allow_optional then filter (fun n => negb (mem_str n optional)) missing
                       else missing in
        match missing with [] => Ok tt | _ => Err EWrongType end
  | _ => Err EWrongType                               (* if not isinstance(value, dict) *)
  end.

(* check_missing(result, allow_optional): a member given as None counts as missing *)
Definition check_missing (names optional : list str) (allow_optional : bool) (kv : list (str * pyval)) : res unit :=
  let present := map fst kv in
  let missing := filter (fun n => negb (mem_str n present)) names in
  let missing := if allow_optional then filter (fun n => negb (mem_str n optional)) missing else missing in
  match missing with [] => Ok tt | _ => Err EWrongType end.

Definition is_dict (v : pyval) : bool := match v with PDict _ => true | _ => false end.
Definition dict_items (v : pyval) : list (str * pyval) := match v with PDict kv => kv | _ => [] end.

(* ------------------------------------------------------------------ iteration combinators (named, so that
   lemmas about them are stated once); f is always a recursive call on a sub-datatype *)
Definition map_res (f : pyval -> res pyval) : list pyval -> res (list pyval) :=
  fix go (l : list pyval) : res (list pyval) :=
    match l with
    | [] => Ok []
    | x :: r => f x >>= fun y => go r >>= fun ys => Ok (y :: ys)
    end.

(* zip(value, previous) *)
Definition map2_res (f : pyval -> pyval -> res pyval) : list pyval -> list pyval -> res (list pyval) :=
  fix go (l ps : list pyval) : res (list pyval) :=
    match l, ps with
    | x :: r, p :: ps' => f x p >>= fun y => go r ps' >>= fun ys => Ok (y :: ys)
    | _, _ => Ok []
    end.

(* zip(members, value) *)
Definition mapd_res (f : dtype -> pyval -> res pyval) : list dtype -> list pyval -> res (list pyval) :=
  fix go (ds : list dtype) (l : list pyval) : res (list pyval) :=
    match ds, l with
    | d1 :: ds', x :: r => f d1 x >>= fun y => go ds' r >>= fun ys => Ok (y :: ys)
    | _, _ => Ok []
    end.

(* zip(members, value, previous) *)
Definition mapd2_res (f : dtype -> pyval -> pyval -> res pyval)
  : list dtype -> list pyval -> list pyval -> res (list pyval) :=
  fix go (ds : list dtype) (l ps : list pyval) : res (list pyval) :=
    match ds, l, ps with
    | d1 :: ds', x :: r, p :: ps' => f d1 x p >>= fun y => go ds' r ps' >>= fun ys => Ok (y :: ys)
    | _, _, _ => Ok []
    end.

(* self.members[key](val) *)
Definition member_res (f : dtype -> pyval -> res pyval) (k : str) (x : pyval)
  : list (str * dtype) -> res pyval :=
  fix find (ms : list (str * dtype)) : res pyval :=
    match ms with
    | [] => Err EKey
    | (n, d1) :: ms' => if str_eqb k n then f d1 x else find ms'
    end.

(* for key, val in value.items(): result[key] = members[key](val), None values skipped when skip_none *)
Definition struct_fold (f : dtype -> pyval -> res pyval) (skip_none : bool) (members : list (str * dtype))
  : list (str * pyval) -> list (str * pyval) -> res (list (str * pyval)) :=
  fix go (kv acc : list (str * pyval)) : res (list (str * pyval)) :=
    match kv with
    | [] => Ok acc
    | (k, x) :: r =>
        match x, skip_none with
        | PNone, true => go r acc
        | _, _ => member_res f k x members >>= fun y => go r (dict_set k y acc)
        end
    end.

(* ------------------------------------------------------------------ the three entry points *)
Section WithEnv.
Variable E : pyenv.

Fixpoint dt_call (d : dtype) (v : pyval) {struct d} : res pyval :=
  match d with
  | TFloat _ _ _ _ => float_call v
  | TInt _ _ => int_call v
  | TScaled scale _ _ => scaled_call scale v
  | TBool => bool_call v
  | TEnum ms => enum_call ms v
  | TString a b u => string_call a b u v
  | TBlob a b => blob_call a b v
  | TArray elem minlen maxlen =>
      array_check minlen maxlen v >>= fun _ =>
      match py_iter v with
      | None => Err EWrongType
      | Some items => wrap_elem (map_res (dt_call elem) items) >>= fun ys => Ok (PTuple ys)
      end
  | TTuple elems =>
      tuple_check (length elems) v >>= fun _ =>
      match py_iter v with
      | None => Err EWrongType
      | Some items => wrap_elem (mapd_res dt_call elems items) >>= fun ys => Ok (PTuple ys)
      end
  | TStruct members optional client =>
      struct_check (map fst members) optional client false v >>= fun _ =>
      if negb (is_dict v) then Err EOther             (* value.items() fails; the handler then fails on the unbound key *)
      else wrap_elem (struct_fold dt_call true members (dict_items v) []) >>= fun kv =>
           check_missing (map fst members) optional client kv >>= fun _ => Ok (PDict kv)
  end.

Fixpoint dt_validate (d : dtype) (v prev : pyval) {struct d} : res pyval :=
  match d with
  | TFloat mn mx a r => float_validate mn mx a r v
  | TInt mn mx => int_validate mn mx v
  | TScaled scale mn mx => scaled_validate scale mn mx v
  | TBool => bool_call v
  | TEnum ms => enum_call ms v
  | TString a b u => string_call a b u v
  | TBlob a b => blob_call a b v
  | TArray elem minlen maxlen =>
      array_check minlen maxlen v >>= fun _ =>
      match py_iter v with
      | None => Err EWrongType
      | Some items =>
          if py_truthy prev then
            match py_iter prev with
            | None => Err EWrongType                  (* zip(value, previous) raises inside the try *)
            | Some ps =>
                (* previous = tuple(previous) + (None,) * (len(value) - len(previous)) *)
                let ps' := ps ++ repeat PNone (length items - length ps) in
                wrap_elem (map2_res (dt_validate elem) items ps') >>= fun ys => Ok (PTuple ys)
            end
          else wrap_elem (map_res (fun x => dt_validate elem x PNone) items) >>= fun ys => Ok (PTuple ys)
      end
  | TTuple elems =>
      tuple_check (length elems) v >>= fun _ =>
      match py_iter v with
      | None => Err EWrongType
      | Some items =>
          match prev with
          | PNone => wrap_elem (mapd_res (fun d1 x => dt_validate d1 x PNone) elems items) >>= fun ys => Ok (PTuple ys)
          | _ =>
              match py_iter prev with
              | None => Err EWrongType
              | Some ps => wrap_elem (mapd2_res dt_validate elems items ps) >>= fun ys => Ok (PTuple ys)
              end
          end
      end
  | TStruct members optional client =>
      struct_check (map fst members) optional client true v >>= fun _ =>
      match (if py_truthy prev then match prev with PDict kv => Some kv | _ => None end else Some []) with
      | None => Err EOther                            (* dict(previous) of a non-dict: outside the specified use *)
      | Some start =>
          if negb (is_dict v) then Err EOther
          else wrap_elem (struct_fold (fun d1 x => dt_validate d1 x PNone) true members (dict_items v) start)
               >>= fun kv => check_missing (map fst members) optional true kv >>= fun _ => Ok (PDict kv)
      end
  end.

Fixpoint dt_import (d : dtype) (v : pyval) {struct d} : res pyval :=
  match d with
  | TScaled scale _ _ => scaled_import E scale v
  | TBlob _ _ => blob_import E v
  | TArray elem minlen maxlen =>
      array_check minlen maxlen v >>= fun _ =>
      match py_iter v with
      | None => Err EType                             (* unreachable after check_type *)
      | Some items => map_res (dt_import elem) items >>= fun ys => Ok (PTuple ys)
      end
  | TTuple elems =>
      tuple_check (length elems) v >>= fun _ =>
      match py_iter v with
      | None => Err EType                             (* unreachable after check_type *)
      | Some items => mapd_res dt_import elems items >>= fun ys => Ok (PTuple ys)
      end
  | TStruct members optional client =>
      struct_check (map fst members) optional client true v >>= fun _ =>
      if negb (is_dict v) then Err EAttr              (* value.items() of a non-mapping: not caught *)
      else struct_fold dt_import false members (dict_items v) [] >>= fun kv => Ok (PDict kv)
  | _ => dt_call d v                                  (* DataType.import_value: return self(value) *)
  end.

(* what the dispatcher executes for a change request *)
Definition wire (d : dtype) (j prev : pyval) : res pyval :=
  dt_import d j >>= fun v => dt_validate d v prev.

End WithEnv.

(* every modelled Python value is inside the model's domain (kept for the drivers that test it) *)
Definition in_domain (d : dtype) (v : pyval) : bool := true.
