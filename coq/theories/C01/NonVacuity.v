(* C01 — vacuity audit: every theorem of Properties.v that has premises is APPLIED here at one concrete, nested
   instance (a struct with an array of doubles, a scaled leaf, a tuple of int/enum/bool, a string and a blob; an
   offered value, a JSON value with the b64 environment the harness supplies, and a NON-None previous value), with
   every premise discharged by computation.  Goals of the form  f args = Ok r  over binary64 records are never
   proved by reflexivity: ok_ex turns the boolean is_ok (computed in the VM) into the existential. *)
From Coq Require Import ZArith NArith Bool List.
Import ListNotations.
Require Import FV.Gen.C01 FV.Base.F64 FV.Base.PyVal FV.C01.Model FV.C01.IdemDefs FV.C01.Lemmas FV.C01.F64More
  FV.C01.Idem FV.C01.ScaledGrid FV.C01.IdemSmall FV.C01.Refuted FV.C01.Properties.

Definition is_ok {A} (r : res A) : bool := match r with Ok _ => true | Err _ => false end.
Lemma ok_ex {A} (r : res A) : is_ok r = true -> exists x, r = Ok x.
Proof. destruct r; [eauto|discriminate]. Qed.

Definition ka := [97%N]. Definition kb := [98%N]. Definition kc := [99%N]. Definition kd := [100%N].
Definition ke := [101%N].
Definition nv_d : dtype :=
  TStruct [(ka, TArray (TFloat fzero (of_Z 10) fzero (fmk 1 (-20))) 0 3);
           (kb, s01);
           (kc, TTuple [TInt 0 5; TEnum [(ka, 1%Z); (kb, 2%Z)]; TBool]);
           (kd, TString 0 10 false);
           (ke, TBlob 0 10)] [kb; ke] false.
(* offered Python value *)
Definition nv_v : pyval :=
  PDict [(ka, PList [PInt 3; PFloat (fmk 19 (-1))]); (kb, PFloat (fmk 5 (-1)));
         (kc, PList [PInt 2; PStr kb; PBool true]); (kd, PStr [97%N; 98%N])].
(* JSON value of a change request (blob as base64 text, enum by name) *)
Definition nv_j : pyval :=
  PDict [(ka, PList [PInt 3; PFloat (fmk 19 (-1))]); (kb, PInt 4);
         (kc, PList [PInt 2; PStr kb; PBool true]); (kd, PStr [97%N; 98%N]);
         (ke, PStr [89%N; 87%N; 74%N; 113%N])].
(* the value currently held: complete, canonical, not None *)
Definition nv_prev : pyval :=
  PDict [(ka, PTuple [PFloat (of_Z 3)]); (kb, PFloat (fmk 1 (-1)));
         (kc, PTuple [PInt 1; PEnum ka 1%Z; PBool false]); (kd, PStr [97%N])].

Example nv_wf : wf nv_d.
Proof. cbn [nv_d wf snd]. repeat split; vm_compute; reflexivity. Qed.
Example nv_prev_ok : prev_ok nv_d nv_prev.
Proof. right. vm_compute. reflexivity. Qed.
Example nv_prev_st : prev_st nv_d nv_prev.
Proof. right. vm_compute. reflexivity. Qed.
Example nv_prev_canon : prev_canon nv_d nv_prev.
Proof. right. vm_compute. reflexivity. Qed.
Example nv_validate_ok : exists r, dt_validate nv_d nv_v nv_prev = Ok r.
Proof. apply ok_ex. vm_compute. reflexivity. Qed.
Example nv_wire_ok : exists r, wire E0 nv_d nv_j nv_prev = Ok r.
Proof. apply ok_ex. vm_compute. reflexivity. Qed.
Example nv_import_ok : exists r, dt_import E0 nv_d nv_j = Ok r.
Proof. apply ok_ex. vm_compute. reflexivity. Qed.
(* the instance is not a corner: the result differs from the previous value and from the offered value *)
Example nv_result_differs :
  res_same (dt_validate nv_d nv_v nv_prev) (Ok nv_prev) = false /\
  res_same (dt_validate nv_d nv_v nv_prev) (Ok nv_v) = false /\
  res_same (wire E0 nv_d nv_j nv_prev) (dt_validate nv_d nv_v nv_prev) = false.
Proof. repeat split; vm_compute; reflexivity. Qed.

Example C01_validate_sound_applies : exists r, dt_validate nv_d nv_v nv_prev = Ok r /\ in_setb nv_d r = true.
Proof.
  destruct nv_validate_ok as [r Hr]. exists r. split; [exact Hr|].
  exact (C01_validate_sound nv_d nv_wf nv_v nv_prev r nv_prev_ok Hr).
Qed.

Example C01_wire_sound_applies : exists r, wire E0 nv_d nv_j nv_prev = Ok r /\ in_setb nv_d r = true.
Proof.
  destruct nv_wire_ok as [r Hr]. exists r. split; [exact Hr|].
  exact (C01_wire_sound E0 nv_d nv_wf nv_j nv_prev r nv_prev_ok Hr).
Qed.

Example C01_validate_total_applies :
  okbad (dt_validate nv_d nv_v nv_prev) = true /\
  (* an input that is refused, and the guard still holds *)
  okbad (dt_validate nv_d (PDict [(ka, PStr ka)]) nv_prev) = true /\
  res_same (dt_validate nv_d (PDict [(ka, PStr ka)]) nv_prev) (Err EWrongType) = true.
Proof.
  split; [|split].
  - apply C01_validate_total. vm_compute. reflexivity.
  - apply C01_validate_total. vm_compute. reflexivity.
  - vm_compute. reflexivity.
Qed.

Example C01_wire_total_applies : okbad (wire E0 nv_d nv_j nv_prev) = true.
Proof. apply C01_wire_total. vm_compute. reflexivity. Qed.

Example C01_import_kinds_applies : exists v, dt_import E0 nv_d nv_j = Ok v /\ kind_ok nv_d nv_j = true.
Proof.
  destruct nv_import_ok as [v Hv]. exists v. split; [exact Hv|]. exact (C01_import_kinds E0 nv_d nv_j v Hv).
Qed.

(* array with a non-empty previous value of a different length *)
Definition nv_arr := TArray (TInt 0 5) 0 5.
Example C01_array_length_applies : exists ys,
  dt_validate nv_arr (PList [PInt 1; PInt 2; PInt 3]) (PTuple [PInt 1; PInt 2]) = Ok (PTuple ys) /\ length ys = 3.
Proof.
  exists [PInt 1; PInt 2; PInt 3].
  assert (H : dt_validate nv_arr (PList [PInt 1; PInt 2; PInt 3]) (PTuple [PInt 1; PInt 2])
              = Ok (PTuple [PInt 1; PInt 2; PInt 3])) by (vm_compute; reflexivity).
  split; [exact H|].
  exact (C01_array_length (TInt 0 5) 0%Z 5%Z (PList [PInt 1; PInt 2; PInt 3]) (PTuple [PInt 1; PInt 2])
           [PInt 1; PInt 2; PInt 3] [PInt 1; PInt 2; PInt 3] eq_refl H).
Qed.

(* clamp: the three cases (below, inside, above); notnan is a Prop on the record, shown by computation *)
Example C01_clamp_between_applies :
  fle (of_Z 1) (fclamp (of_Z 1) (of_Z 7) (of_Z 5)) = true /\ fle (fclamp (of_Z 1) (of_Z 7) (of_Z 5)) (of_Z 5) = true.
Proof.
  assert (N1 : F64Lemmas.notnan (of_Z 1)) by (vm_compute; try reflexivity; try discriminate; auto).
  assert (N7 : F64Lemmas.notnan (of_Z 7)) by (vm_compute; try reflexivity; try discriminate; auto).
  assert (N5 : F64Lemmas.notnan (of_Z 5)) by (vm_compute; try reflexivity; try discriminate; auto).
  destruct (C01_clamp_between (of_Z 1) (of_Z 7) (of_Z 5) N1 N7 N5 ltac:(vm_compute; reflexivity)) as (A & B & _).
  split; assumption.
Qed.

Example nv_idem_dt : idem_dt nv_d = true. Proof. vm_compute. reflexivity. Qed.
Example nv_small : small_grids nv_d = true. Proof. vm_compute. reflexivity. Qed.

Example C01_validate_idempotent_except_huge_grids_applies : exists w,
  dt_validate nv_d nv_v nv_prev = Ok w /\
  res_same (dt_validate nv_d w PNone) (Ok w) = true /\ res_same (dt_validate nv_d w w) (Ok w) = true /\
  stable nv_d w = true.
Proof.
  destruct nv_validate_ok as [w Hw]. exists w. split; [exact Hw|].
  exact (C01_validate_idempotent_except_huge_grids nv_d nv_wf nv_idem_dt nv_small nv_v nv_prev w nv_prev_st Hw).
Qed.

Example C01_wire_idempotent_except_huge_grids_applies : exists w,
  wire E0 nv_d nv_j nv_prev = Ok w /\
  res_same (dt_validate nv_d w PNone) (Ok w) = true /\ res_same (dt_validate nv_d w w) (Ok w) = true /\
  stable nv_d w = true.
Proof.
  destruct nv_wire_ok as [w Hw]. exists w. split; [exact Hw|].
  exact (C01_wire_idempotent_except_huge_grids E0 nv_d nv_wf nv_idem_dt nv_small nv_j nv_prev w nv_prev_st Hw).
Qed.

(* the value-level variants: the side condition scaled_ok is obtained for the concrete result by computation
   (is_ok_and), not from the small-grid theorem *)
Definition ok_and (r : res pyval) (p : pyval -> bool) : bool := match r with Ok w => p w | Err _ => false end.
Lemma ok_and_ex r p : ok_and r p = true -> exists w, r = Ok w /\ p w = true.
Proof. destruct r; cbn; [eauto|discriminate]. Qed.

Example C01_validate_idempotent_partial_applies : exists w,
  dt_validate nv_d nv_v nv_prev = Ok w /\ scaled_ok nv_d w = true /\
  res_same (dt_validate nv_d w PNone) (Ok w) = true /\ res_same (dt_validate nv_d w w) (Ok w) = true /\
  stable nv_d w = true.
Proof.
  destruct (ok_and_ex (dt_validate nv_d nv_v nv_prev) (scaled_ok nv_d) ltac:(vm_compute; reflexivity)) as (w & Hw & Hs).
  exists w. split; [exact Hw|]. split; [exact Hs|].
  exact (C01_validate_idempotent_partial nv_d nv_wf nv_idem_dt nv_v nv_prev w nv_prev_st Hw Hs).
Qed.

Example C01_wire_idempotent_partial_applies : exists w,
  wire E0 nv_d nv_j nv_prev = Ok w /\ scaled_ok nv_d w = true /\
  res_same (dt_validate nv_d w PNone) (Ok w) = true /\ res_same (dt_validate nv_d w w) (Ok w) = true /\
  stable nv_d w = true.
Proof.
  destruct (ok_and_ex (wire E0 nv_d nv_j nv_prev) (scaled_ok nv_d) ltac:(vm_compute; reflexivity)) as (w & Hw & Hs).
  exists w. split; [exact Hw|]. split; [exact Hs|].
  exact (C01_wire_idempotent_partial E0 nv_d nv_wf nv_idem_dt nv_j nv_prev w nv_prev_st Hw Hs).
Qed.

(* the partial theorem is also usable beyond small grids: a grid of 2^50 steps (scale 1, limits 0 .. 2^50), where
   small_grids is false and the value-level side condition still holds *)
Definition big_d : dtype := TScaled (of_Z 1) fzero (fmk 1 50).
Example C01_validate_idempotent_partial_beyond_small : exists w,
  small_grids big_d = false /\
  dt_validate big_d (PFloat (fmk 1 49)) PNone = Ok w /\
  res_same (dt_validate big_d w PNone) (Ok w) = true.
Proof.
  destruct (ok_and_ex (dt_validate big_d (PFloat (fmk 1 49)) PNone) (scaled_ok big_d) ltac:(vm_compute; reflexivity))
    as (w & Hw & Hs).
  exists w. split; [vm_compute; reflexivity|]. split; [exact Hw|].
  assert (Wf : wf big_d) by (vm_compute; reflexivity).
  exact (proj1 (C01_validate_idempotent_partial big_d Wf eq_refl (PFloat (fmk 1 49)) PNone w (or_introl eq_refl) Hw Hs)).
Qed.

(* scale 0.001, limits -1e6 .. 1e6 (10^9 steps), offered value 1234.5674 (off the grid) *)
Definition sg_s := fmk 1152921504606847 (-60).
Definition sg_mn := fmk (-1000000) 0.
Definition sg_mx := fmk 1000000 0.
Definition sg_v := PFloat (fmk 5429569945743837 (-42)).
Example C01_scaled_small_grid_regular_applies : exists x,
  scaled_validate sg_s sg_mn sg_mx sg_v = Ok x /\ scaled_leaf_ok sg_s sg_mn sg_mx x = true /\
  res_same (Ok x) (Ok sg_v) = false.
Proof.
  destruct (ok_and_ex (scaled_validate sg_s sg_mn sg_mx sg_v) (fun x => negb (res_same (Ok x) (Ok sg_v)))
              ltac:(vm_compute; reflexivity)) as (x & Hx & Hd).
  exists x. split; [exact Hx|]. split.
  - apply (C01_scaled_small_grid_regular sg_s sg_mn sg_mx sg_v x); [vm_compute; reflexivity|vm_compute; reflexivity|exact Hx].
  - apply negb_true_iff in Hd. exact Hd.
Qed.

Example C01_stable_fixed_point_applies :
  res_same (dt_validate nv_d nv_prev PNone) (Ok nv_prev) = true /\
  res_same (dt_validate nv_d nv_prev nv_prev) (Ok nv_prev) = true.
Proof. apply C01_stable_fixed_point. vm_compute. reflexivity. Qed.

Example C01_canonical_kind_applies : exists w, dt_validate nv_d nv_v nv_prev = Ok w /\ canon nv_d w = true.
Proof.
  destruct nv_validate_ok as [w Hw]. exists w. split; [exact Hw|].
  exact (C01_canonical_kind nv_d nv_v nv_prev w nv_prev_canon Hw).
Qed.

Example C01_wire_canonical_kind_applies : exists w, wire E0 nv_d nv_j nv_prev = Ok w /\ canon nv_d w = true.
Proof.
  destruct nv_wire_ok as [w Hw]. exists w. split; [exact Hw|].
  exact (C01_wire_canonical_kind E0 nv_d nv_j nv_prev w nv_prev_canon Hw).
Qed.
