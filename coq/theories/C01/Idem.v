(* C01 — idempotence ("a validated value is a fixed point of validation") and canonical representation kinds,
   for datatype trees of any depth and width.

   stable d w   : w has the canonical shape of d (tuples of the right length, a mapping with distinct declared keys
                  and all mandatory members) and every leaf of w is returned bit-identically by the leaf validation
   stable_fix   : stable d w  ->  validate d w None = Ok w  and  validate d w w = Ok w            (no side condition)
   validate_stable : whatever is offered, with a previous value that is None or stable, a value returned by
                  validate is stable — at scaled leaves provided the leaf is a fixed point (scaled_ok, see Refuted.v
                  for a grid beyond 2^52 steps where it is not)
   validate_canon : the returned value has the canonical representation kind of its type                      *)
From Coq Require Import ZArith NArith Bool List Lia.
Import ListNotations.
From Flocq Require Import IEEE754.BinarySingleNaN.
Require Import FV.Base.Util FV.Base.F64 FV.Base.F64Lemmas FV.Base.PyVal FV.C01.Model FV.C01.IdemDefs FV.C01.Lemmas FV.C01.F64More.

(* ------------------------------------------------------------------ nested induction on python values *)
Section PyvalInd.
  Variable P : pyval -> Prop.
  Hypothesis HNone : P PNone.
  Hypothesis HBool : forall b, P (PBool b).
  Hypothesis HInt : forall z, P (PInt z).
  Hypothesis HFloat : forall f, P (PFloat f).
  Hypothesis HStr : forall s, P (PStr s).
  Hypothesis HBytes : forall s, P (PBytes s).
  Hypothesis HList : forall l, Forall P l -> P (PList l).
  Hypothesis HTuple : forall l, Forall P l -> P (PTuple l).
  Hypothesis HDict : forall kv, Forall (fun p => P (snd p)) kv -> P (PDict kv).
  Hypothesis HEnum : forall n z, P (PEnum n z).
  Hypothesis HOpaque : P POpaque.

  Fixpoint pyval_nested_ind (v : pyval) : P v :=
    let go := fix go (l : list pyval) : Forall P l :=
                match l with
                | [] => Forall_nil P
                | x :: r => Forall_cons x (pyval_nested_ind x) (go r)
                end in
    match v with
    | PNone => HNone
    | PBool b => HBool b
    | PInt z => HInt z
    | PFloat f => HFloat f
    | PStr s => HStr s
    | PBytes s => HBytes s
    | PList l => HList l (go l)
    | PTuple l => HTuple l (go l)
    | PDict kv =>
        HDict kv ((fix gd (l : list (str * pyval)) : Forall (fun p => P (snd p)) l :=
                     match l with
                     | [] => Forall_nil _
                     | x :: r => Forall_cons x (pyval_nested_ind (snd x)) (gd r)
                     end) kv)
    | PEnum n z => HEnum n z
    | POpaque => HOpaque
    end.
End PyvalInd.

(* ------------------------------------------------------------------ bit identity of values is Leibniz equality *)
Fixpoint list_same (x y : list pyval) : bool :=
  match x, y with
  | [], [] => true
  | p :: x', q :: y' => pv_same p q && list_same x' y'
  | _, _ => false
  end.
Fixpoint dict_same (x y : list (str * pyval)) : bool :=
  match x, y with
  | [], [] => true
  | (k, p) :: x', (k', q) :: y' => str_eqb k k' && pv_same p q && dict_same x' y'
  | _, _ => false
  end.

Lemma pv_same_list x y : pv_same (PList x) (PList y) = list_same x y.
Proof. revert y. induction x as [|p x IH]; destruct y as [|q y]; cbn; try reflexivity; try (rewrite <- IH; reflexivity). Qed.
Lemma pv_same_tuple x y : pv_same (PTuple x) (PTuple y) = list_same x y.
Proof. revert y. induction x as [|p x IH]; destruct y as [|q y]; cbn; try reflexivity; try (rewrite <- IH; reflexivity). Qed.
Lemma pv_same_dict x y : pv_same (PDict x) (PDict y) = dict_same x y.
Proof.
  revert y. induction x as [|[k p] x IH]; destruct y as [|[k' q] y]; cbn; try reflexivity; try (rewrite <- IH; reflexivity).
Qed.

Lemma pv_same_refl : forall v, pv_same v v = true.
Proof.
  induction v using pyval_nested_ind.
  - reflexivity.
  - cbn. apply eqb_reflx.
  - cbn. apply Z.eqb_refl.
  - cbn. apply fsame_refl.
  - cbn. apply str_eqb_refl.
  - cbn. apply str_eqb_refl.
  - rewrite pv_same_list. induction H as [|x l Hx Hl IH]; cbn; [reflexivity|]. rewrite Hx, IH. reflexivity.
  - rewrite pv_same_tuple. induction H as [|x l Hx Hl IH]; cbn; [reflexivity|]. rewrite Hx, IH. reflexivity.
  - rewrite pv_same_dict. induction H as [|[k x] l Hx Hl IH]; cbn; [reflexivity|].
    cbn in Hx. rewrite str_eqb_refl, Hx, IH. reflexivity.
  - cbn. rewrite str_eqb_refl, Z.eqb_refl. reflexivity.
  - reflexivity.
Qed.

Lemma list_same_eq x : Forall (fun p => forall q, pv_same p q = true -> p = q) x ->
  forall y, list_same x y = true -> x = y.
Proof.
  induction 1 as [|p x Hp Hx IH]; destruct y as [|q y]; cbn; try discriminate; [reflexivity|].
  intros H. apply andb_prop in H. destruct H as [H1 H2]. f_equal; [apply Hp; exact H1|apply IH; exact H2].
Qed.

Lemma pv_same_eq : forall a other, pv_same a other = true -> a = other.
Proof.
  induction a using pyval_nested_ind; intros other; destruct other; try (cbn; discriminate); intros Hs.
  - reflexivity.
  - cbn in Hs. apply eqb_prop in Hs. congruence.
  - cbn in Hs. apply Z.eqb_eq in Hs. congruence.
  - cbn in Hs. apply fsame_eq in Hs. congruence.
  - cbn in Hs. apply str_eqb_eq in Hs. congruence.
  - cbn in Hs. apply str_eqb_eq in Hs. congruence.
  - rewrite pv_same_list in Hs. f_equal. eapply list_same_eq; eauto.
  - rewrite pv_same_tuple in Hs. f_equal. eapply list_same_eq; eauto.
  - rewrite pv_same_dict in Hs. f_equal. revert kv0 Hs.
    induction H as [|[k p] x Hp Hx IH]; destruct kv0 as [|[k' q] y]; cbn; try discriminate; [reflexivity|].
    intros Hs. apply andb_prop in Hs. destruct Hs as [Hs H3]. apply andb_prop in Hs. destruct Hs as [H1 H2].
    apply str_eqb_eq in H1. cbn in Hp. apply Hp in H2. subst. f_equal. apply IH. exact H3.
  - cbn in Hs. apply andb_prop in Hs. destruct Hs as [H1 H2]. apply str_eqb_eq in H1. apply Z.eqb_eq in H2. congruence.
  - reflexivity.
Qed.

Lemma res_same_ok_eq (r : res pyval) w : res_same r (Ok w) = true -> r = Ok w.
Proof. destruct r as [x|e]; cbn; [|discriminate]. intros H. apply pv_same_eq in H. congruence. Qed.
Lemma res_same_refl_ok w : res_same (Ok w) (Ok w) = true.
Proof. apply pv_same_refl. Qed.

Lemma stable_tuple es l : stable (TTuple es) (PTuple l) = all2 stable es l.
Proof.
  cbn [stable]. revert l. induction es as [|d1 es IH]; destruct l as [|x l]; cbn; try reflexivity.
  rewrite IH. reflexivity.
Qed.
Lemma scaled_ok_tuple es l : scaled_ok (TTuple es) (PTuple l) = all2 scaled_ok es l.
Proof.
  cbn [scaled_ok]. revert l. induction es as [|d1 es IH]; destruct l as [|x l]; cbn; try reflexivity.
  rewrite IH. reflexivity.
Qed.
Lemma canon_tuple es l : canon (TTuple es) (PTuple l) = all2 canon es l.
Proof.
  cbn [canon]. revert l. induction es as [|d1 es IH]; destruct l as [|x l]; cbn; try reflexivity.
  rewrite IH. reflexivity.
Qed.
Lemma stable_struct ms o c kv :
  stable (TStruct ms o c) (PDict kv) =
  nodup_str (map fst kv) && forallb (entry_ok stable ms) kv &&
  forallb (fun n => mem_str n o || mem_str n (map fst kv)) (map fst ms).
Proof. reflexivity. Qed.
Lemma scaled_ok_struct ms o c kv : scaled_ok (TStruct ms o c) (PDict kv) = forallb (entry_ok scaled_ok ms) kv.
Proof. reflexivity. Qed.
Lemma canon_struct ms o c kv :
  canon (TStruct ms o c) (PDict kv) = nodup_str (map fst kv) && forallb (entry_ok canon ms) kv.
Proof. reflexivity. Qed.

(* ------------------------------------------------------------------ leaves *)
Lemma fmax_le : fle (fopp fmaxval) fmaxval = true.
Proof. vm_compute. reflexivity. Qed.
Lemma fmax_notnan : notnan fmaxval /\ notnan (fopp fmaxval).
Proof. split; vm_compute; reflexivity. Qed.

Lemma py_add0_not_negzero v y : py_add0 v = Ok y -> is_negzero y = false.
Proof.
  destruct v as [| b | z | f | | | | | | |]; cbn; try discriminate.
  - destruct b; intros H; inversion H; subst; vm_compute; reflexivity.
  - destruct (float_of_Z z) as [f|] eqn:E; [|discriminate]. intros H; inversion H; subst.
    eapply float_of_Z_not_negzero; eauto.
  - intros H; inversion H; subst. apply fadd_zero_not_negzero.
Qed.

(* FloatRange.__call__ returns a finite number that is not the negative zero, or nan *)
Lemma float_call_props v g : float_call v = Ok (PFloat g) -> notnan g ->
  fis_finite g = true /\ is_negzero g = false.
Proof.
  unfold float_call. destruct (py_add0 v) as [y|e] eqn:Ey; cbn [wrap_wrong]; [|discriminate].
  intros H Ng. assert (Hg : fclamp (fopp fmaxval) y fmaxval = g) by congruence. clear H.
  destruct fmax_notnan as [NM NO]. pose proof fmax_le as LM.
  assert (Ny : notnan y).
  { destruct y as [s|s| |s m e B]; try reflexivity. exfalso.
    change (B754_nan : f64) with fnan in Hg. rewrite fclamp_nan in Hg. subst g. discriminate. }
  destruct (fclamp_between (fopp fmaxval) y fmaxval NO Ny NM LM) as (A & B & _). rewrite Hg in A, B.
  split; [apply fle_fmax_finite; assumption|].
  unfold fclamp in Hg. destruct (clamp3_one_of flt (fopp fmaxval) y fmaxval) as [E|[E|E]]; rewrite E in Hg; subst g.
  - vm_compute. reflexivity.
  - eapply py_add0_not_negzero; eauto.
  - vm_compute. reflexivity.
Qed.

Lemma float_call_fix w : fis_finite w = true -> is_negzero w = false -> float_call (PFloat w) = Ok (PFloat w).
Proof.
  intros Fw Zw. unfold float_call. cbn [py_add0 wrap_wrong]. rewrite (fadd_zero_id w Zw).
  destruct fmax_notnan as [NM NO]. destruct (finite_between_fmax w Fw) as [A B].
  assert (Nw : notnan w) by (apply (fle_true_notnan _ _ B)).
  destruct (fclamp_between (fopp fmaxval) w fmaxval NO Nw NM fmax_le) as (_ & _ & C).
  rewrite (C A B). reflexivity.
Qed.

Lemma fle_inf_finite (w : f64) : fis_finite w = true -> fle (finf false) w = false /\ fle w (finf true) = false.
Proof. destruct w as [s|s| |s m e B]; try discriminate; intros _; split; reflexivity. Qed.

(* a value inside the limits passes the tolerance test and clamps to itself *)
Lemma float_validate_fix mn mx a r w :
  fis_finite r = true -> fis_finite w = true -> is_negzero w = false ->
  fle mn w = true -> fle w mx = true ->
  float_validate mn mx a r (PFloat w) = Ok (PFloat w).
Proof.
  intros Fr Fw Zw L1 L2. unfold float_validate. rewrite (float_call_fix w Fw Zw).
  set (p := pymax (fabs (fmul w r)) a).
  destruct (fle_true_notnan _ _ L1) as [Nmn Nw]. destruct (fle_true_notnan _ _ L2) as [_ Nmx].
  destruct (pymax_nonneg (fabs (fmul w r)) a) as [Np Sp];
    [apply notnan_fabs, fmul_finite_notnan; assumption|apply fsign_fabs|]. fold p in Np, Sp.
  destruct (fle_inf_finite w Fw) as [I1 I2].
  assert (T1 : fle (fsub mn p) w = true).
  { eapply fle_trans; [|exact L1]. apply fsub_nonneg_le; try assumption.
    destruct mn as [s|[]| |s m e B]; try reflexivity; cbn; try (rewrite andb_false_r; reflexivity).
    change (B754_infinity false : f64) with (finf false) in L1. congruence. }
  assert (T2 : fle w (fadd mx p) = true).
  { eapply fle_trans; [exact L2|]. apply fadd_nonneg_ge; try assumption.
    destruct mx as [s|[]| |s m e B]; try reflexivity; cbn; try (rewrite andb_false_r; reflexivity).
    change (B754_infinity true : f64) with (finf true) in L2. congruence. }
  rewrite T1, T2. cbn [andb].
  destruct (fclamp_between mn w mx Nmn Nw Nmx (fle_trans _ _ _ L1 L2)) as (_ & _ & C).
  rewrite (C L1 L2). reflexivity.
Qed.

Lemma flt_inf_false (g : f64) : flt g (finf true) = false /\ flt (finf false) g = false.
Proof. destruct g as [s|[]| |s m e B]; split; reflexivity. Qed.

Lemma fsub_posinf (p g : f64) : fis_finite g = true -> fle (fsub (finf false) p) g = false.
Proof. destruct p as [s|[]| |s m e B], g as [s'|s'| |s' m' e' B']; try discriminate; intros _; reflexivity. Qed.
Lemma fadd_neginf (p g : f64) : fis_finite g = true -> fle g (fadd (finf true) p) = false.
Proof. destruct p as [s|[]| |s m e B], g as [s'|s'| |s' m' e' B']; try discriminate; intros _; reflexivity. Qed.

Lemma notnan_inf_or_finite (a : f64) : notnan a -> a = finf true \/ a = finf false \/ fis_finite a = true.
Proof. destruct a as [s|[]| |s m e B]; cbn; auto; discriminate. Qed.

(* what FloatRange.validate returns *)
Lemma float_validate_out mn mx a r v x :
  fle mn mx = true -> is_negzero mn = false -> is_negzero mx = false ->
  float_validate mn mx a r v = Ok x ->
  exists w, x = PFloat w /\ fis_finite w = true /\ is_negzero w = false /\ fle mn w = true /\ fle w mx = true.
Proof.
  intros Hw Zmn Zmx. unfold float_validate. pose proof (float_call_float v) as F.
  destruct (float_call v) as [y|e] eqn:Ec; [|discriminate]. destruct (F y eq_refl) as [g ->].
  set (p := pymax (fabs (fmul g r)) a).
  destruct (fle (fsub mn p) g && fle g (fadd mx p)) eqn:T; [|discriminate].
  intros H. inversion H. subst x. clear H. eexists; split; [reflexivity|].
  apply andb_prop in T. destruct T as [T1 T2].
  destruct (fle_true_notnan _ _ T1) as [_ Ng]. destruct (fle_true_notnan _ _ Hw) as [Nmn Nmx].
  destruct (float_call_props v g Ec Ng) as [Fg Zg].
  destruct (fclamp_between mn g mx Nmn Ng Nmx Hw) as (A & B & _).
  destruct (flt_inf_false g) as [I1 I2].
  destruct (fclamp_cases mn g mx Nmn Ng Nmx Hw) as [[C E]|[[C E]|(_ & _ & E)]]; rewrite E in *.
  - repeat split; try assumption.
    destruct (notnan_inf_or_finite mn Nmn) as [->|[->|Fm]]; [congruence| |exact Fm].
    rewrite (fsub_posinf p g Fg) in T1. discriminate.
  - repeat split; try assumption.
    destruct (notnan_inf_or_finite mx Nmx) as [->|[->|Fm]]; [|congruence|exact Fm].
    rewrite (fadd_neginf p g Fg) in T2. discriminate.
  - repeat split; assumption.
Qed.

Lemma float_idem mn mx a r v x :
  fle mn mx = true -> is_negzero mn = false -> is_negzero mx = false -> fis_finite r = true ->
  float_validate mn mx a r v = Ok x -> float_validate mn mx a r x = Ok x.
Proof.
  intros Hw Zmn Zmx Fr H.
  destruct (float_validate_out mn mx a r v x Hw Zmn Zmx H) as (w & -> & Fw & Zw & L1 & L2).
  apply float_validate_fix; assumption.
Qed.

(* ---- scaled: the clamp between the converted limits is the only part that holds unconditionally *)
Lemma scaled_idem s mn mx v x :
  wf (TScaled s mn mx) -> scaled_validate s mn mx v = Ok x -> scaled_leaf_ok s mn mx x = true ->
  scaled_validate s mn mx x = Ok x.
Proof.
  intros Hwf H G. pose proof (scaled_validate_sound s mn mx v x Hwf H) as Hin.
  cbn [wf] in Hwf. cbn [in_setb] in Hin. destruct x as [| | | f | | | | | | |]; try discriminate.
  destruct (scaled_call s (PFloat mn)) as [[| | | lo | | | | | | |]|] eqn:Hlo; try discriminate.
  destruct (scaled_call s (PFloat mx)) as [[| | | hi | | | | | | |]|] eqn:Hhi; try discriminate.
  apply andb_prop in Hwf. destruct Hwf as [Hle Fs]. apply andb_prop in Hin. destruct Hin as [L1 L2].
  unfold scaled_leaf_ok in G. apply andb_prop in G. destruct G as [G W2]. apply andb_prop in G. destruct G as [C W1].
  apply res_same_ok_eq in C.
  unfold scaled_validate. rewrite C, W1, W2, Hlo, Hhi. cbn [andb].
  destruct (fle_true_notnan _ _ L1) as [Nlo Nf]. destruct (fle_true_notnan _ _ L2) as [_ Nhi].
  destruct (fclamp_between lo f hi Nlo Nf Nhi Hle) as (_ & _ & K). rewrite (K L1 L2). reflexivity.
Qed.

(* ---- int *)
Lemma int_call_value v z : int_call v = Ok (PInt z) -> py_int_num v = Ok z.
Proof.
  unfold int_call. destruct (py_add0 v) as [fv|e]; cbn [bind wrap_wrong]; [|discriminate].
  destruct (py_int_num v) as [z0|e]; cbn [bind wrap_wrong]; [|discriminate].
  destruct (cmp_Z_f (fround fv) fv) as [[]|]; try discriminate. intros H; inversion H; reflexivity.
Qed.

Lemma int_call_fix v z : int_call v = Ok (PInt z) -> int_call (PInt z) = Ok (PInt z).
Proof.
  intros H. pose proof (int_call_value v z H) as Hz.
  destruct v as [| b | z0 | f | | | | | | |]; try discriminate.
  - destruct b; cbn in Hz; inversion Hz; subst; vm_compute; reflexivity.
  - cbn in Hz. inversion Hz; subst. exact H.
  - cbn in Hz. destruct (fis_nan f) eqn:En; [discriminate|]. destruct (fis_inf f) eqn:Ei; [discriminate|].
    inversion Hz; subst z. clear Hz.
    assert (Ff : fis_finite f = true) by (destruct f; cbn in *; congruence).
    destruct (ftrunc_representable f Ff) as [fv Hfv].
    unfold int_call. cbn [py_add0 py_int_num]. rewrite Hfv. cbn [bind wrap_wrong].
    rewrite (float_of_Z_whole _ _ Hfv). reflexivity.
Qed.

Lemma int_idem mn mx v x : int_validate mn mx v = Ok x -> int_validate mn mx x = Ok x.
Proof.
  unfold int_validate at 1. pose proof (int_call_int v) as F.
  destruct (int_call v) as [y|e] eqn:Ec; [|discriminate]. destruct (F y eq_refl) as [z ->].
  destruct ((mn <=? z)%Z && (z <=? mx)%Z) eqn:T; [|discriminate]. intros H; inversion H; subst x.
  unfold int_validate. rewrite (int_call_fix v z Ec), T. reflexivity.
Qed.

(* ---- bool, string, blob *)
Lemma bool_idem v x : bool_call v = Ok x -> bool_call x = Ok x.
Proof.
  destruct v as [| b | z | f | | | | | | n z |]; cbn; try discriminate.
  - intros H; inversion H; reflexivity.
  - destruct z as [|[]|]; intros H; inversion H; reflexivity.
  - destruct (feq f fzero); [intros H; inversion H; reflexivity|].
    match goal with |- context [if ?c then _ else _] => destruct c end; intros H; inversion H; reflexivity.
  - destruct z as [|[]|]; intros H; inversion H; reflexivity.
Qed.

Lemma string_idem a b u v x : string_call a b u v = Ok x -> string_call a b u x = Ok x.
Proof.
  destruct v; try discriminate. intros H. assert (E : x = PStr s).
  { cbn in H. repeat match type of H with (if ?c then _ else _) = _ => destruct c end; try discriminate.
    inversion H; reflexivity. }
  subst x. exact H.
Qed.

Lemma blob_idem a b v x : blob_call a b v = Ok x -> blob_call a b x = Ok x.
Proof.
  destruct v; try discriminate. intros H. assert (E : x = PBytes b0).
  { cbn in H. repeat match type of H with (if ?c then _ else _) = _ => destruct c end; try discriminate.
    inversion H; reflexivity. }
  subst x. exact H.
Qed.

(* ---- enum *)
Lemma enum_by_value_In z ms n v : enum_by_value z ms = Some (n, v) -> In (n, v) ms.
Proof.
  induction ms as [|[n' v'] ms IH]; cbn; [discriminate|].
  destruct (Z.eqb z v'); [intros H; inversion H; left; reflexivity|intros H; right; auto].
Qed.
Lemma enum_by_name_In s ms n v : enum_by_name s ms = Some (n, v) -> In (n, v) ms.
Proof.
  induction ms as [|[n' v'] ms IH]; cbn; [discriminate|].
  destruct (str_eqb s n'); [intros H; inversion H; left; reflexivity|intros H; right; auto].
Qed.

Lemma enum_by_value_unique ms : nodup_z (map snd ms) = true ->
  forall n z, In (n, z) ms -> enum_by_value z ms = Some (n, z).
Proof.
  induction ms as [|[n' v'] ms IH]; cbn; intros Hd n z Hin; [destruct Hin|].
  apply andb_prop in Hd. destruct Hd as [Hfresh Hd].
  destruct Hin as [E|Hin].
  - inversion E; subst. rewrite Z.eqb_refl. reflexivity.
  - destruct (Z.eqb z v') eqn:Ez.
    + exfalso. apply Z.eqb_eq in Ez. subst v'.
      assert (X : existsb (Z.eqb z) (map snd ms) = true).
      { apply existsb_exists. exists z. split; [|apply Z.eqb_refl].
        change z with (snd (n, z)). apply in_map. exact Hin. }
      rewrite X in Hfresh. discriminate.
    + apply IH; assumption.
Qed.

Lemma enum_call_out ms v x : enum_call ms v = Ok x -> exists n z, x = PEnum n z /\ In (n, z) ms.
Proof.
  assert (Hv : forall (z0 : Z) (b : bool) (x : pyval), (match enum_by_value z0 ms with
                               | Some (n, z) => Ok (PEnum n z)
                               | None => if b then Err ERange else Err EWrongType
                               end) = (Ok x : res pyval) -> exists n z, x = PEnum n z /\ In (n, z) ms).
  { intros z0 b x0. destruct (enum_by_value z0 ms) as [[n z]|] eqn:E.
    - intros H; inversion H; subst. exists n, z. split; [reflexivity|eapply enum_by_value_In; eauto].
    - destruct b; discriminate. }
  destruct v as [| b | z | f | s | | | | | n z |]; cbn; try discriminate.
  - apply (Hv _ true).
  - apply (Hv _ true).
  - destruct (fis_finite f); [|discriminate]. destruct (cmp_Z_f (ftrunc f) f) as [[]|]; try discriminate.
    apply (Hv _ false).
  - destruct (enum_by_name s ms) as [[n z]|] eqn:E; [|discriminate].
    intros H; inversion H; subst. exists n, z. split; [reflexivity|eapply enum_by_name_In; eauto].
  - apply (Hv _ false).
Qed.

Lemma enum_idem ms v x : nodup_z (map snd ms) = true -> enum_call ms v = Ok x -> enum_call ms x = Ok x.
Proof.
  intros Hd H. destruct (enum_call_out ms v x H) as (n & z & -> & Hin).
  cbn. rewrite (enum_by_value_unique ms Hd n z Hin). reflexivity.
Qed.

(* ------------------------------------------------------------------ list and mapping helpers *)
Lemma mem_str_In k l : In k l -> mem_str k l = true.
Proof.
  induction l as [|k' l IH]; cbn; [intros []|]. intros [->|H]; [rewrite str_eqb_refl; reflexivity|].
  rewrite (IH H). apply orb_true_r.
Qed.
Lemma mem_str_true_In k l : mem_str k l = true -> In k l.
Proof.
  induction l as [|k' l IH]; cbn; [discriminate|]. destruct (str_eqb k k') eqn:E; cbn.
  - intros _. left. symmetry. apply str_eqb_eq. exact E.
  - intros H. right. auto.
Qed.
Lemma mem_str_app k l1 l2 : mem_str k (l1 ++ l2) = mem_str k l1 || mem_str k l2.
Proof. induction l1 as [|k' l1 IH]; cbn; [reflexivity|]. rewrite IH. apply orb_assoc. Qed.

Lemma dict_set_fresh {A} k (v : A) acc : mem_str k (map fst acc) = false -> dict_set k v acc = acc ++ [(k, v)].
Proof.
  induction acc as [|[k' v'] acc IH]; cbn; [reflexivity|]. destruct (str_eqb k k'); cbn; [discriminate|].
  intros H. rewrite (IH H). reflexivity.
Qed.

Lemma dict_set_same {A} k (v : A) acc : nodup_str (map fst acc) = true -> In (k, v) acc -> dict_set k v acc = acc.
Proof.
  induction acc as [|[k' v'] acc IH]; cbn; [intros _ []|]. intros Hd Hin.
  apply andb_prop in Hd. destruct Hd as [Hf Hd].
  destruct Hin as [E|Hin].
  - inversion E; subst. rewrite str_eqb_refl. reflexivity.
  - destruct (str_eqb k k') eqn:E.
    + exfalso. apply str_eqb_eq in E. subst k'.
      assert (X : mem_str k (map fst acc) = true).
      { apply mem_str_In. change k with (fst (k, v)). apply in_map. exact Hin. }
      rewrite X in Hf. discriminate.
    + rewrite (IH Hd Hin). reflexivity.
Qed.

Lemma dict_set_keys {A} k (v : A) acc k0 :
  mem_str k0 (map fst (dict_set k v acc)) = mem_str k0 (map fst acc) || str_eqb k0 k.
Proof.
  induction acc as [|[k' v'] acc IH]; cbn; [apply orb_comm|].
  destruct (str_eqb k k') eqn:E; cbn.
  - apply str_eqb_eq in E. subst k'. destruct (str_eqb k0 k); cbn; [reflexivity|]. rewrite orb_false_r. reflexivity.
  - rewrite IH. rewrite orb_assoc. reflexivity.
Qed.

Lemma nodup_dict_set {A} k (v : A) acc :
  nodup_str (map fst acc) = true -> nodup_str (map fst (dict_set k v acc)) = true.
Proof.
  induction acc as [|[k' v'] acc IH]; cbn; [reflexivity|]. intros Hd.
  apply andb_prop in Hd. destruct Hd as [Hf Hd].
  destruct (str_eqb k k') eqn:E; cbn.
  - apply str_eqb_eq in E. subst k'. rewrite Hf, Hd. reflexivity.
  - rewrite (IH Hd). rewrite dict_set_keys. 
    destruct (mem_str k' (map fst acc)); [discriminate|]. cbn.
    destruct (str_eqb k' k) eqn:E2; [|reflexivity].
    apply str_eqb_eq in E2. subst. rewrite str_eqb_refl in E. discriminate.
Qed.

Lemma map_res_id (f : pyval -> res pyval) l : (forall x, In x l -> f x = Ok x) -> map_res f l = Ok l.
Proof.
  induction l as [|x l IH]; intros H; cbn; [reflexivity|].
  rewrite (H x (or_introl eq_refl)). cbn [bind]. rewrite IH by (intros; apply H; right; assumption). reflexivity.
Qed.

Lemma map2_res_id (f : pyval -> pyval -> res pyval) l t :
  (forall x, In x l -> f x x = Ok x) -> map2_res f l (l ++ t) = Ok l.
Proof.
  induction l as [|x l IH]; intros H; cbn; [destruct t; reflexivity|].
  rewrite (H x (or_introl eq_refl)). cbn [bind]. 
  change (map2_res f l (l ++ t)) with (map2_res f l (l ++ t)) in IH.
  fold (map2_res f). rewrite IH by (intros; apply H; right; assumption). reflexivity.
Qed.

Lemma all2_length Q ds l : all2 Q ds l = true -> length l = length ds.
Proof.
  revert l. induction ds as [|d1 ds IH]; destruct l as [|x l]; cbn; try discriminate; [reflexivity|].
  intros H. apply andb_prop in H. destruct H as [_ H]. f_equal. auto.
Qed.

Lemma mapd_res_id (f : dtype -> pyval -> res pyval) (Q : dtype -> pyval -> bool) ds :
  Forall (fun d1 => forall x, Q d1 x = true -> f d1 x = Ok x) ds ->
  forall l, all2 Q ds l = true -> mapd_res f ds l = Ok l.
Proof.
  induction 1 as [|d1 ds H1 HF IH]; destruct l as [|x l]; cbn; try discriminate; [reflexivity|].
  intros H. apply andb_prop in H. destruct H as [Hx Hl].
  rewrite (H1 x Hx). cbn [bind]. fold (mapd_res f). rewrite (IH l Hl). reflexivity.
Qed.

Lemma mapd2_res_id (f : dtype -> pyval -> pyval -> res pyval) (Q : dtype -> pyval -> bool) ds :
  Forall (fun d1 => forall x, Q d1 x = true -> f d1 x x = Ok x) ds ->
  forall l, all2 Q ds l = true -> mapd2_res f ds l l = Ok l.
Proof.
  induction 1 as [|d1 ds H1 HF IH]; destruct l as [|x l]; cbn; try discriminate; [reflexivity|].
  intros H. apply andb_prop in H. destruct H as [Hx Hl].
  rewrite (H1 x Hx). cbn [bind]. fold (mapd2_res f). rewrite (IH l Hl). reflexivity.
Qed.

Lemma entry_ok_cons (Q : dtype -> pyval -> bool) n d1 ms k y :
  entry_ok Q ((n, d1) :: ms) (k, y) = if str_eqb k n then Q d1 y else entry_ok Q ms (k, y).
Proof. reflexivity. Qed.
Lemma member_res_cons (f : dtype -> pyval -> res pyval) k x n d1 ms :
  member_res f k x ((n, d1) :: ms) = if str_eqb k n then f d1 x else member_res f k x ms.
Proof. reflexivity. Qed.

Lemma member_res_of_entry (f : dtype -> pyval -> res pyval) (Q : dtype -> pyval -> bool) k y ms :
  Forall (fun m => forall y, Q (snd m) y = true -> f (snd m) y = Ok y) ms ->
  entry_ok Q ms (k, y) = true -> member_res f k y ms = Ok y.
Proof.
  induction 1 as [|[n d1] ms H1 HF IH]; [discriminate|].
  rewrite entry_ok_cons, member_res_cons. destruct (str_eqb k n); [apply H1|exact IH].
Qed.

Lemma entry_ok_mem (Q : dtype -> pyval -> bool) ms k y : entry_ok Q ms (k, y) = true -> mem_str k (map fst ms) = true.
Proof.
  induction ms as [|[n d1] ms IH]; [discriminate|]. rewrite entry_ok_cons. cbn [map fst mem_str].
  destruct (str_eqb k n); [reflexivity|exact IH].
Qed.

Lemma entry_ok_none (Q : dtype -> pyval -> bool) ms k :
  (forall d, Q d PNone = false) -> entry_ok Q ms (k, PNone) = false.
Proof.
  intros HQ. induction ms as [|[n d1] ms IH]; [reflexivity|]. rewrite entry_ok_cons.
  destruct (str_eqb k n); [apply HQ|exact IH].
Qed.

Lemma entry_ok_mono (Q1 Q2 : dtype -> pyval -> bool) ms p :
  (forall d y, Q1 d y = true -> Q2 d y = true) -> entry_ok Q1 ms p = true -> entry_ok Q2 ms p = true.
Proof.
  intros HQ. destruct p as [k y]. induction ms as [|[n d1] ms IH]; [discriminate|]. rewrite !entry_ok_cons.
  destruct (str_eqb k n); [apply HQ|exact IH].
Qed.

Lemma filter_missing_nil names opt present :
  forallb (fun n => mem_str n opt || mem_str n present) names = true ->
  filter (fun n => negb (mem_str n opt)) (filter (fun n => negb (mem_str n present)) names) = [].
Proof.
  induction names as [|n names IH]; cbn; [reflexivity|]. intros H. apply andb_prop in H. destruct H as [H1 H2].
  destruct (mem_str n present) eqn:Ep; cbn; [apply IH; exact H2|].
  rewrite orb_false_r in H1. rewrite H1. cbn. apply IH. exact H2.
Qed.

Lemma check_missing_pass names opt kv :
  forallb (fun n => mem_str n opt || mem_str n (map fst kv)) names = true -> check_missing names opt true kv = Ok tt.
Proof. intros H. unfold check_missing. rewrite (filter_missing_nil _ _ _ H). reflexivity. Qed.

Lemma struct_check_pass names opt c kv :
  forallb (fun p : str * pyval => mem_str (fst p) names) kv = true ->
  forallb (fun n => mem_str n opt || mem_str n (map fst kv)) names = true ->
  struct_check names opt c true (PDict kv) = Ok tt.
Proof.
  intros H1 H2. unfold struct_check.
  assert (E : existsb (fun p : str * pyval => negb (mem_str (fst p) names)) kv = false).
  { clear H2. induction kv as [|p kv IH]; cbn in *; [reflexivity|].
    apply andb_prop in H1. destruct H1 as [Ha Hb]. rewrite Ha. cbn. apply IH. exact Hb. }
  rewrite E. rewrite orb_true_r. rewrite (filter_missing_nil _ _ _ H2). reflexivity.
Qed.

(* the fold over the items of a mapping with distinct fresh keys appends them in order *)
Lemma struct_fold_append (f : dtype -> pyval -> res pyval) ms kv :
  (forall k y, In (k, y) kv -> y <> PNone /\ member_res f k y ms = Ok y) ->
  nodup_str (map fst kv) = true ->
  forall acc, (forall k, In k (map fst kv) -> mem_str k (map fst acc) = false) ->
  struct_fold f true ms kv acc = Ok (acc ++ kv).
Proof.
  induction kv as [|[k x] kv IH]; intros Hall Hd acc Hfresh; cbn [struct_fold].
  - rewrite app_nil_r. reflexivity.
  - cbn [map fst nodup_str] in Hd. apply andb_prop in Hd. destruct Hd as [Hk Hd].
    destruct (Hall k x (or_introl eq_refl)) as [Hx Hm].
    assert (Hstep : member_res f k x ms >>= (fun y => struct_fold f true ms kv (dict_set k y acc)) = Ok (acc ++ (k, x) :: kv)).
    { rewrite Hm. cbn [bind]. rewrite dict_set_fresh by (apply Hfresh; left; reflexivity).
      rewrite IH.
      - rewrite <- app_assoc. reflexivity.
      - intros; apply Hall; right; assumption.
      - exact Hd.
      - intros k0 Hin. rewrite map_app, mem_str_app. rewrite (Hfresh k0 (or_intror Hin)). cbn.
        rewrite orb_false_r. destruct (str_eqb k0 k) eqn:E; [|reflexivity].
        apply str_eqb_eq in E. subst k0. rewrite (mem_str_In _ _ Hin) in Hk. discriminate. }
    destruct x; try exact Hstep. exfalso. apply Hx. reflexivity.
Qed.

(* the fold over items that are already in the accumulator leaves it unchanged *)
Lemma struct_fold_inplace (f : dtype -> pyval -> res pyval) ms acc :
  nodup_str (map fst acc) = true ->
  forall kv, (forall k y, In (k, y) kv -> y <> PNone /\ member_res f k y ms = Ok y /\ In (k, y) acc) ->
  struct_fold f true ms kv acc = Ok acc.
Proof.
  intros Hd. induction kv as [|[k x] kv IH]; intros Hall; cbn [struct_fold]; [reflexivity|].
  destruct (Hall k x (or_introl eq_refl)) as (Hx & Hm & Hin).
  assert (Hstep : member_res f k x ms >>= (fun y => struct_fold f true ms kv (dict_set k y acc)) = Ok acc).
  { rewrite Hm. cbn [bind]. rewrite (dict_set_same k x acc Hd Hin). apply IH. intros; apply Hall; right; assumption. }
  destruct x; try exact Hstep. exfalso. apply Hx. reflexivity.
Qed.

Lemma stable_none d : stable d PNone = false.
Proof. destruct d; reflexivity. Qed.

(* ------------------------------------------------------------------ a stable value is a fixed point *)
Theorem stable_fix : forall d w, stable d w = true ->
  dt_validate d w PNone = Ok w /\ dt_validate d w w = Ok w.
Proof.
  induction d using dtype_nested_ind; intros w Hs;
    try (cbn [stable] in Hs; apply res_same_ok_eq in Hs; split; exact Hs).
  - (* array *)
    destruct w; try discriminate. cbn [stable] in Hs.
    apply andb_prop in Hs. destruct Hs as [Hs Hall]. apply andb_prop in Hs. destruct Hs as [La Lb].
    assert (Hc : array_check a b (PTuple l) = Ok tt).
    { unfold array_check. cbn [is_str_bytes_dict py_len].
      apply Z.leb_le in La. apply Z.leb_le in Lb.
      destruct (Z.of_nat (length l) <? a)%Z eqn:E1; [apply Z.ltb_lt in E1; lia|].
      destruct (b <? Z.of_nat (length l))%Z eqn:E2; [apply Z.ltb_lt in E2; lia|]. reflexivity. }
    assert (H1 : map_res (fun x => dt_validate d x PNone) l = Ok l).
    { apply map_res_id. intros x Hin. apply IHd. eapply forallb_forall in Hall; eauto. }
    cbn [dt_validate]. rewrite Hc. cbn [bind py_iter py_truthy]. split.
    + rewrite H1. reflexivity.
    + destruct l as [|x0 l0] eqn:El; [reflexivity|]. rewrite <- El in *.
      replace (length l - length l) with 0 by lia. cbn [repeat].
      rewrite map2_res_id; [reflexivity|]. intros x Hin. apply IHd. eapply forallb_forall in Hall; eauto.
  - (* tuple *)
    destruct w; try discriminate. rewrite stable_tuple in Hs.
    assert (Hc : tuple_check (length es) (PTuple l) = Ok tt).
    { unfold tuple_check. cbn [is_str_bytes_dict py_len]. rewrite (all2_length _ _ _ Hs), Z.eqb_refl. reflexivity. }
    cbn [dt_validate]. rewrite Hc. cbn [bind py_iter]. split.
    + rewrite (mapd_res_id (fun d1 x => dt_validate d1 x PNone) stable es); [reflexivity| |exact Hs].
      rewrite Forall_forall in H. apply Forall_forall. intros d1 Hd x Hx. apply (H d1 Hd x Hx).
    + rewrite (mapd2_res_id dt_validate stable es); [reflexivity| |exact Hs].
      rewrite Forall_forall in H. apply Forall_forall. intros d1 Hd x Hx. apply (H d1 Hd x Hx).
  - (* struct *)
    destruct w; try discriminate. rewrite stable_struct in Hs.
    apply andb_prop in Hs. destruct Hs as [Hs Hmand]. apply andb_prop in Hs. destruct Hs as [Hd Hent].
    assert (Hc : struct_check (map fst ms) o c true (PDict kv) = Ok tt).
    { apply struct_check_pass; [|exact Hmand]. apply forallb_forall. intros [k y] Hin. cbn [fst].
      eapply entry_ok_mem. eapply forallb_forall in Hent; eauto. }
    assert (Hmem : forall k y, In (k, y) kv ->
              y <> PNone /\ member_res (fun d1 x => dt_validate d1 x PNone) k y ms = Ok y).
    { intros k y Hin. eapply forallb_forall in Hent; eauto. split.
      - intros ->. rewrite (entry_ok_none stable ms k stable_none) in Hent. discriminate.
      - eapply member_res_of_entry; [|exact Hent].
        rewrite Forall_forall in H. apply Forall_forall. intros m Hm y0 Hy. apply (H m Hm y0 Hy). }
    cbn [dt_validate]. rewrite Hc. cbn [bind is_dict negb dict_items py_truthy]. split.
    + rewrite (struct_fold_append _ ms kv Hmem Hd []) by (intros; reflexivity).
      cbn [app wrap_elem bind]. rewrite (check_missing_pass _ _ _ Hmand). reflexivity.
    + destruct kv as [|p0 kv0] eqn:Ek.
      * cbn. rewrite (check_missing_pass _ _ [] Hmand). reflexivity.
      * rewrite <- Ek in *. rewrite (struct_fold_inplace _ ms kv Hd kv).
        -- cbn [wrap_elem bind]. rewrite (check_missing_pass _ _ _ Hmand). reflexivity.
        -- intros k y Hin. destruct (Hmem k y Hin). auto.
Qed.

(* ------------------------------------------------------------------ a returned value is stable *)
Definition stable_if (d : dtype) (r : pyval) : bool := implb (scaled_ok d r) (stable d r).
Definition prev_st (d : dtype) (p : pyval) : Prop := p = PNone \/ stable d p = true.

Lemma implb_same b : implb b b = true.
Proof. destruct b; reflexivity. Qed.
Lemma stable_stable_if d r : stable d r = true -> stable_if d r = true.
Proof. unfold stable_if. intros ->. destruct (scaled_ok d r); reflexivity. Qed.

Lemma forallb_implb {A} (G Q : A -> bool) l :
  forallb (fun r => implb (G r) (Q r)) l = true -> forallb G l = true -> forallb Q l = true.
Proof.
  induction l as [|x l IH]; cbn; [reflexivity|]. intros H1 H2.
  apply andb_prop in H1. destruct H1 as [A1 B1]. apply andb_prop in H2. destruct H2 as [A2 B2].
  rewrite A2 in A1. cbn in A1. rewrite A1, (IH B1 B2). reflexivity.
Qed.
Lemma all2_implb (G Q : dtype -> pyval -> bool) ds l :
  all2 (fun d r => implb (G d r) (Q d r)) ds l = true -> all2 G ds l = true -> all2 Q ds l = true.
Proof.
  revert l. induction ds as [|d1 ds IH]; destruct l as [|x l]; cbn; try discriminate; [reflexivity|]. intros H1 H2.
  apply andb_prop in H1. destruct H1 as [A1 B1]. apply andb_prop in H2. destruct H2 as [A2 B2].
  rewrite A2 in A1. cbn in A1. rewrite A1, (IH l B1 B2). reflexivity.
Qed.
Lemma entry_ok_implb (G Q : dtype -> pyval -> bool) ms p :
  entry_ok (fun d r => implb (G d r) (Q d r)) ms p = true -> entry_ok G ms p = true -> entry_ok Q ms p = true.
Proof.
  destruct p as [k y]. induction ms as [|[n d1] ms IH]; [discriminate|]. rewrite !entry_ok_cons.
  destruct (str_eqb k n); [|exact IH]. intros H1 H2. rewrite H2 in H1. exact H1.
Qed.

Lemma mapd2_res_sound2 (f : dtype -> pyval -> pyval -> res pyval) (Qp Q : dtype -> pyval -> bool) :
  forall ds items ps ys, length items = length ds -> all2 Qp ds ps = true ->
  Forall (fun d1 => forall x p r, Qp d1 p = true -> f d1 x p = Ok r -> Q d1 r = true) ds ->
  mapd2_res f ds items ps = Ok ys -> all2 Q ds ys = true.
Proof.
  induction ds as [|d1 ds IH]; intros items ps ys L HP HF; cbn.
  - destruct items; [|discriminate]. intros H; inversion H; reflexivity.
  - destruct items as [|x items]; [discriminate|]. destruct ps as [|p ps]; [discriminate|].
    cbn in HP. apply andb_prop in HP. destruct HP as [Hp HP]. inversion HF as [|? ? H1 HF']; subst.
    intros H. apply bind_ok in H. destruct H as (y & Hy & H).
    apply bind_ok in H. destruct H as (ys' & Hys & H). inversion H; subst.
    cbn. rewrite (H1 x p y Hp Hy). cbn. eapply IH; eauto.
Qed.

Lemma struct_fold_nodup (f : dtype -> pyval -> res pyval) skip ms :
  forall kv acc out, nodup_str (map fst acc) = true ->
  struct_fold f skip ms kv acc = Ok out -> nodup_str (map fst out) = true.
Proof.
  induction kv as [|[k x] kv IH]; intros acc out Ha; cbn.
  - intros H; inversion H; subst; exact Ha.
  - assert (Hgen : member_res f k x ms >>= (fun y => struct_fold f skip ms kv (dict_set k y acc)) = Ok out ->
                   nodup_str (map fst out) = true).
    { intros H. apply bind_ok in H. destruct H as (y & Hy & H).
      eapply IH; [|exact H]. apply nodup_dict_set. exact Ha. }
    destruct x; try exact Hgen. destruct skip; [apply IH; exact Ha|exact Hgen].
Qed.

Lemma wf_tuple_In es d1 : wf (TTuple es) -> In d1 es -> wf d1.
Proof. induction es as [|e es IH]; cbn; [intros _ []|]. intros [H1 H2] [->|Hin]; auto. Qed.
Lemma wf_struct_In ms o c m : wf (TStruct ms o c) -> In m ms -> wf (snd m).
Proof. induction ms as [|e ms IH]; cbn; [intros _ []|]. intros [H1 H2] [->|Hin]; auto. Qed.

Theorem validate_stable : forall d, wf d -> idem_dt d = true -> forall v prev r,
  prev_st d prev -> dt_validate d v prev = Ok r -> stable_if d r = true.
Proof.
  induction d using dtype_nested_ind; intros Hwf Hi v prev r Hprev; cbn [dt_validate]; unfold stable_if.
  - (* float *)
    cbn [idem_dt] in Hi. apply andb_prop in Hi. destruct Hi as [Hi Fr]. apply andb_prop in Hi. destruct Hi as [Z1 Z2].
    apply negb_true_iff in Z1. apply negb_true_iff in Z2. cbn [wf] in Hwf.
    intros H. cbn [scaled_ok implb stable dt_validate].
    rewrite (float_idem _ _ _ _ _ _ Hwf Z1 Z2 Fr H). apply res_same_refl_ok.
  - intros H. cbn [scaled_ok implb stable dt_validate]. rewrite (int_idem _ _ _ _ H). apply res_same_refl_ok.
  - intros H. cbn [scaled_ok stable dt_validate]. destruct (scaled_leaf_ok s a b r) eqn:G; [|reflexivity]. cbn [implb].
    rewrite (scaled_idem _ _ _ _ _ Hwf H G). apply res_same_refl_ok.
  - intros H. cbn [scaled_ok implb stable dt_validate]. rewrite (bool_idem _ _ H). apply res_same_refl_ok.
  - intros H. cbn [scaled_ok implb stable dt_validate]. cbn [idem_dt] in Hi.
    rewrite (enum_idem _ _ _ Hi H). apply res_same_refl_ok.
  - intros H. cbn [scaled_ok implb stable dt_validate]. rewrite (string_idem _ _ _ _ _ H). apply res_same_refl_ok.
  - intros H. cbn [scaled_ok implb stable dt_validate]. rewrite (blob_idem _ _ _ _ H). apply res_same_refl_ok.
  - (* array *)
    cbn [wf] in Hwf. cbn [idem_dt] in Hi.
    intros H. apply bind_ok in H. destruct H as ([] & Hc & H).
    destruct (py_iter v) as [items|] eqn:Hit; [|discriminate].
    destruct (array_check_ok _ _ _ _ Hit Hc) as [La Lb].
    assert (Hfin : forall ys, length ys = length items -> forallb (stable_if d) ys = true ->
              implb (scaled_ok (TArray d a b) (PTuple ys)) (stable (TArray d a b) (PTuple ys)) = true).
    { intros ys L F. cbn [scaled_ok stable]. destruct (forallb (scaled_ok d) ys) eqn:G; [|reflexivity]. cbn [implb].
      rewrite L, La, Lb. cbn [andb]. exact (forallb_implb _ _ _ F G). }
    destruct (py_truthy prev) eqn:Ht.
    + destruct Hprev as [->|Hp]; [discriminate|].
      destruct prev; try discriminate. cbn [stable] in Hp.
      apply andb_prop in Hp. destruct Hp as [_ Hall].
      cbn [py_iter] in H. apply bind_ok in H. destruct H as (ys & Hys & H). inversion H; subst.
      apply wrap_elem_ok in Hys.
      destruct (map2_res_sound (dt_validate d) (prev_st d) (stable_if d)) with (items := items)
        (ps := l ++ repeat PNone (length items - length l)) (ys := ys)
        as [L F]; [intros x p r0 Hpp Hr; eapply IHd; [exact Hwf|exact Hi|exact Hpp|exact Hr]
                  | |exact Hys|].
      { apply Forall_app. split.
        - apply Forall_forall. intros p Hin. right. eapply forallb_forall in Hall; eauto.
        - apply Forall_forall. intros p Hin. apply repeat_spec in Hin. left. exact Hin. }
      apply Hfin; [|exact F]. rewrite L, app_length, repeat_length. lia.
    + apply bind_ok in H. destruct H as (ys & Hys & H). inversion H; subst. apply wrap_elem_ok in Hys.
      destruct (map_res_sound (fun x => dt_validate d x PNone) (stable_if d) items ys) as [L F];
        [intros x r0 _ Hr; eapply IHd; [exact Hwf|exact Hi|left; reflexivity|exact Hr]|exact Hys|].
      apply Hfin; assumption.
  - (* tuple *)
    cbn [idem_dt] in Hi.
    intros Hres. apply bind_ok in Hres. destruct Hres as ([] & Hc & Hres).
    destruct (py_iter v) as [items|] eqn:Hit; [|discriminate].
    pose proof (tuple_check_ok _ _ _ Hit Hc) as L.
    assert (HF1 : Forall (fun d1 => forall x r0, dt_validate d1 x PNone = Ok r0 -> stable_if d1 r0 = true) es).
    { rewrite Forall_forall in H. apply Forall_forall. intros d1 Hd x r0 Hr.
      eapply (H d1 Hd); [eapply wf_tuple_In; eauto|eapply forallb_forall in Hi; eauto|left; reflexivity|exact Hr]. }
    assert (HF2 : Forall (fun d1 => forall x p r0, stable d1 p = true -> dt_validate d1 x p = Ok r0 -> stable_if d1 r0 = true) es).
    { rewrite Forall_forall in H. apply Forall_forall. intros d1 Hd x p r0 Hp Hr.
      eapply (H d1 Hd); [eapply wf_tuple_In; eauto|eapply forallb_forall in Hi; eauto|right; exact Hp|exact Hr]. }
    assert (Hfin : forall ys, all2 stable_if es ys = true ->
              implb (scaled_ok (TTuple es) (PTuple ys)) (stable (TTuple es) (PTuple ys)) = true).
    { intros ys F. rewrite scaled_ok_tuple, stable_tuple. destruct (all2 scaled_ok es ys) eqn:G; [|reflexivity].
      cbn [implb]. exact (all2_implb scaled_ok stable es ys F G). }
    destruct prev; try (destruct Hprev as [Hp|Hp]; [discriminate|discriminate]).
    + apply bind_ok in Hres. destruct Hres as (ys & Hys & Hres). inversion Hres; subst. apply wrap_elem_ok in Hys.
      apply Hfin. exact (mapd_res_sound (fun d1 x => dt_validate d1 x PNone) stable_if es items ys L HF1 Hys).
    + destruct Hprev as [Hp|Hp]; [discriminate|]. rewrite stable_tuple in Hp. cbn [py_iter] in Hres.
      apply bind_ok in Hres. destruct Hres as (ys & Hys & Hres). inversion Hres; subst. apply wrap_elem_ok in Hys.
      apply Hfin. exact (mapd2_res_sound2 dt_validate stable stable_if es items l ys L Hp HF2 Hys).
  - (* struct *)
    cbn [idem_dt] in Hi.
    intros Hres. apply bind_ok in Hres. destruct Hres as ([] & Hc & Hres).
    assert (HF : Forall (fun m : str * dtype => forall x r0, dt_validate (snd m) x PNone = Ok r0 -> stable_if (snd m) r0 = true) ms).
    { rewrite Forall_forall in H. apply Forall_forall. intros m Hm x r0 Hr.
      eapply (H m Hm); [eapply wf_struct_In; eauto| |left; reflexivity|exact Hr].
      eapply forallb_forall in Hi; eauto. }
    assert (Hstart : forall start, (if py_truthy prev then match prev with PDict kv => Some kv | _ => None end else Some [])
                                   = Some start ->
                     forallb (entry_ok stable_if ms) start = true /\ nodup_str (map fst start) = true).
    { intros start. destruct (py_truthy prev).
      - destruct Hprev as [->|Hp]; [discriminate|]. destruct prev; try discriminate.
        intros E; inversion E; subst. rewrite stable_struct in Hp.
        apply andb_prop in Hp. destruct Hp as [Hp _]. apply andb_prop in Hp. destruct Hp as [Hd He].
        split; [|exact Hd]. apply forallb_forall. intros p Hin. eapply forallb_forall in He; eauto.
        eapply entry_ok_mono; [|exact He]. apply stable_stable_if.
      - intros E; inversion E. split; reflexivity. }
    destruct (if py_truthy prev then _ else _) as [start|]; [|discriminate].
    destruct (Hstart start eq_refl) as [Hs1 Hs2].
    destruct (negb (is_dict v)); [discriminate|].
    apply bind_ok in Hres. destruct Hres as (kv & Hkv & Hres). apply wrap_elem_ok in Hkv.
    apply bind_ok in Hres. destruct Hres as ([] & Hmiss & Hres). inversion Hres; subst.
    rewrite scaled_ok_struct, stable_struct.
    destruct (forallb (entry_ok scaled_ok ms) kv) eqn:G; [|reflexivity]. cbn [implb].
    pose proof (struct_fold_sound (fun d1 x => dt_validate d1 x PNone) stable_if true ms HF (dict_items v) start kv Hs1 Hkv) as F.
    rewrite (struct_fold_nodup _ _ _ _ _ _ Hs2 Hkv). rewrite (check_missing_present _ _ _ Hmiss).
    rewrite andb_true_r. cbn [andb]. apply forallb_forall. intros p Hin.
    eapply forallb_forall in F; eauto. eapply forallb_forall in G; eauto.
    exact (entry_ok_implb scaled_ok stable ms p F G).
Qed.

(* ------------------------------------------------------------------ canonical representation kinds *)
Definition prev_canon (d : dtype) (p : pyval) : Prop := p = PNone \/ canon d p = true.

Lemma float_validate_kind mn mx a r v x : float_validate mn mx a r v = Ok x -> exists f, x = PFloat f.
Proof.
  unfold float_validate. pose proof (float_call_float v) as F.
  destruct (float_call v) as [y|e]; [|discriminate]. destruct (F y eq_refl) as [g ->].
  match goal with |- context [if ?c then _ else _] => destruct c end; [|discriminate].
  intros H; inversion H; eauto.
Qed.

Lemma scaled_validate_kind s mn mx v x : scaled_validate s mn mx v = Ok x -> exists f, x = PFloat f.
Proof.
  unfold scaled_validate. pose proof (scaled_call_float s v) as F.
  pose proof (scaled_call_float s (PFloat mn)) as F2. pose proof (scaled_call_float s (PFloat mx)) as F3.
  destruct (scaled_call s v) as [y|e]; [|discriminate]. destruct (F y eq_refl) as [g ->].
  match goal with |- context [if ?c then _ else _] => destruct c end; [|discriminate].
  destruct (scaled_call s (PFloat mn)) as [y|e]; [destruct (F2 y eq_refl) as [lo ->]|discriminate].
  destruct (scaled_call s (PFloat mx)) as [y|e]; [destruct (F3 y eq_refl) as [hi ->]|discriminate].
  intros H; inversion H; eauto.
Qed.

Theorem validate_canon : forall d v prev r,
  prev_canon d prev -> dt_validate d v prev = Ok r -> canon d r = true.
Proof.
  induction d using dtype_nested_ind; intros v prev r Hprev; cbn [dt_validate].
  - intros H. destruct (float_validate_kind _ _ _ _ _ _ H) as [f ->]. reflexivity.
  - intros H. apply int_validate_sound in H. destruct r; try discriminate. reflexivity.
  - intros H. destruct (scaled_validate_kind _ _ _ _ _ H) as [f ->]. reflexivity.
  - intros H. apply bool_call_sound in H. destruct r; try discriminate. reflexivity.
  - intros H. apply enum_call_sound in H. destruct r; try discriminate. exact H.
  - intros H. apply string_call_sound in H. destruct r; try discriminate. reflexivity.
  - intros H. apply blob_call_sound in H. destruct r; try discriminate. reflexivity.
  - (* array *)
    intros H. apply bind_ok in H. destruct H as ([] & Hc & H).
    destruct (py_iter v) as [items|] eqn:Hit; [|discriminate].
    destruct (py_truthy prev) eqn:Ht.
    + destruct Hprev as [->|Hp]; [discriminate|].
      destruct prev; try discriminate. cbn [canon] in Hp.
      cbn [py_iter] in H. apply bind_ok in H. destruct H as (ys & Hys & H). inversion H; subst.
      apply wrap_elem_ok in Hys.
      destruct (map2_res_sound (dt_validate d) (prev_canon d) (canon d)) with (items := items)
        (ps := l ++ repeat PNone (length items - length l)) (ys := ys)
        as [L F]; [intros x p r0 Hpp Hr; eapply IHd; [exact Hpp|exact Hr]| |exact Hys|exact F].
      apply Forall_app. split.
      * apply Forall_forall. intros p Hin. right. eapply forallb_forall in Hp; eauto.
      * apply Forall_forall. intros p Hin. apply repeat_spec in Hin. left. exact Hin.
    + apply bind_ok in H. destruct H as (ys & Hys & H). inversion H; subst. apply wrap_elem_ok in Hys.
      destruct (map_res_sound (fun x => dt_validate d x PNone) (canon d) items ys) as [L F];
        [intros x r0 _ Hr; eapply IHd; [left; reflexivity|exact Hr]|exact Hys|exact F].
  - (* tuple *)
    intros Hres. apply bind_ok in Hres. destruct Hres as ([] & Hc & Hres).
    destruct (py_iter v) as [items|] eqn:Hit; [|discriminate].
    pose proof (tuple_check_ok _ _ _ Hit Hc) as L.
    assert (HF1 : Forall (fun d1 => forall x r0, dt_validate d1 x PNone = Ok r0 -> canon d1 r0 = true) es).
    { rewrite Forall_forall in H. apply Forall_forall. intros d1 Hd x r0 Hr.
      eapply (H d1 Hd); [left; reflexivity|exact Hr]. }
    assert (HF2 : Forall (fun d1 => forall x p r0, canon d1 p = true -> dt_validate d1 x p = Ok r0 -> canon d1 r0 = true) es).
    { rewrite Forall_forall in H. apply Forall_forall. intros d1 Hd x p r0 Hp Hr.
      eapply (H d1 Hd); [right; exact Hp|exact Hr]. }
    destruct prev; try (destruct Hprev as [Hp|Hp]; [discriminate|discriminate]).
    + apply bind_ok in Hres. destruct Hres as (ys & Hys & Hres). inversion Hres; subst. apply wrap_elem_ok in Hys.
      rewrite canon_tuple. exact (mapd_res_sound (fun d1 x => dt_validate d1 x PNone) canon es items ys L HF1 Hys).
    + destruct Hprev as [Hp|Hp]; [discriminate|]. rewrite canon_tuple in Hp. cbn [py_iter] in Hres.
      apply bind_ok in Hres. destruct Hres as (ys & Hys & Hres). inversion Hres; subst. apply wrap_elem_ok in Hys.
      rewrite canon_tuple. exact (mapd2_res_sound dt_validate canon es items l ys L Hp HF2 Hys).
  - (* struct *)
    intros Hres. apply bind_ok in Hres. destruct Hres as ([] & Hc & Hres).
    assert (HF : Forall (fun m : str * dtype => forall x r0, dt_validate (snd m) x PNone = Ok r0 -> canon (snd m) r0 = true) ms).
    { rewrite Forall_forall in H. apply Forall_forall. intros m Hm x r0 Hr.
      eapply (H m Hm); [left; reflexivity|exact Hr]. }
    assert (Hstart : forall start, (if py_truthy prev then match prev with PDict kv => Some kv | _ => None end else Some [])
                                   = Some start ->
                     forallb (entry_ok canon ms) start = true /\ nodup_str (map fst start) = true).
    { intros start. destruct (py_truthy prev).
      - destruct Hprev as [->|Hp]; [discriminate|]. destruct prev; try discriminate.
        intros E; inversion E; subst. rewrite canon_struct in Hp.
        apply andb_prop in Hp. destruct Hp as [Hd He]. split; assumption.
      - intros E; inversion E. split; reflexivity. }
    destruct (if py_truthy prev then _ else _) as [start|]; [|discriminate].
    destruct (Hstart start eq_refl) as [Hs1 Hs2].
    destruct (negb (is_dict v)); [discriminate|].
    apply bind_ok in Hres. destruct Hres as (kv & Hkv & Hres). apply wrap_elem_ok in Hkv.
    apply bind_ok in Hres. destruct Hres as ([] & Hmiss & Hres). inversion Hres; subst.
    rewrite canon_struct. rewrite (struct_fold_nodup _ _ _ _ _ _ Hs2 Hkv). cbn [andb].
    exact (struct_fold_sound (fun d1 x => dt_validate d1 x PNone) canon true ms HF (dict_items v) start kv Hs1 Hkv).
Qed.

(* ------------------------------------------------------------------ the statements used in Properties.v *)
Theorem validate_idempotent : forall d, wf d -> idem_dt d = true -> forall v prev w,
  prev_st d prev -> dt_validate d v prev = Ok w -> scaled_ok d w = true ->
  res_same (dt_validate d w PNone) (Ok w) = true /\ res_same (dt_validate d w w) (Ok w) = true /\
  stable d w = true.
Proof.
  intros d Hwf Hi v prev w Hp H G.
  pose proof (validate_stable d Hwf Hi v prev w Hp H) as S. unfold stable_if in S. rewrite G in S. cbn in S.
  destruct (stable_fix d w S) as [A B]. rewrite A, B. repeat split; try apply res_same_refl_ok. exact S.
Qed.

Corollary wire_idempotent E : forall d, wf d -> idem_dt d = true -> forall j prev w,
  prev_st d prev -> wire E d j prev = Ok w -> scaled_ok d w = true ->
  res_same (dt_validate d w PNone) (Ok w) = true /\ res_same (dt_validate d w w) (Ok w) = true /\
  stable d w = true.
Proof.
  intros d Hwf Hi j prev w Hp H G. unfold wire in H. apply bind_ok in H. destruct H as (v & _ & H).
  eapply validate_idempotent; eauto.
Qed.

Corollary wire_canon E : forall d j prev r, prev_canon d prev -> wire E d j prev = Ok r -> canon d r = true.
Proof.
  intros d j prev r Hp H. unfold wire in H. apply bind_ok in H. destruct H as (v & _ & H).
  eapply validate_canon; eauto.
Qed.

Lemma all2_mono (Q1 Q2 : dtype -> pyval -> bool) ds :
  Forall (fun d1 => forall y, Q1 d1 y = true -> Q2 d1 y = true) ds ->
  forall l, all2 Q1 ds l = true -> all2 Q2 ds l = true.
Proof.
  induction 1 as [|d1 ds H1 HF IH]; destruct l as [|x l]; cbn; try discriminate; [reflexivity|].
  intros H. apply andb_prop in H. destruct H as [A B]. rewrite (H1 x A), (IH l B). reflexivity.
Qed.

Lemma entry_ok_mono_in (Q1 Q2 : dtype -> pyval -> bool) ms p :
  Forall (fun m => forall y, Q1 (snd m) y = true -> Q2 (snd m) y = true) ms ->
  entry_ok Q1 ms p = true -> entry_ok Q2 ms p = true.
Proof.
  destruct p as [k y]. induction 1 as [|[n d1] ms H1 HF IH]; [discriminate|]. rewrite !entry_ok_cons.
  destruct (str_eqb k n); [apply H1|exact IH].
Qed.

Lemma stable_canon : forall d w, stable d w = true -> canon d w = true.
Proof.
  induction d using dtype_nested_ind; intros w Hs;
    try (cbn [stable] in Hs; apply res_same_ok_eq in Hs;
         apply (validate_canon _ w PNone w (or_introl eq_refl) Hs)).
  - destruct w; try discriminate. cbn [stable] in Hs. apply andb_prop in Hs. destruct Hs as [_ Hall].
    cbn [canon]. apply forallb_forall. intros x Hin. apply IHd. eapply forallb_forall in Hall; eauto.
  - destruct w; try discriminate. rewrite stable_tuple in Hs. rewrite canon_tuple.
    eapply all2_mono; [|exact Hs]. exact H.
  - destruct w; try discriminate. rewrite stable_struct in Hs. rewrite canon_struct.
    apply andb_prop in Hs. destruct Hs as [Hs _]. apply andb_prop in Hs. destruct Hs as [Hd He].
    rewrite Hd. cbn [andb]. apply forallb_forall. intros p Hin. eapply forallb_forall in He; eauto.
    eapply entry_ok_mono_in; [|exact He]. exact H.
Qed.

Lemma no_scaled_ok : forall d w, no_scaled d = true -> canon d w = true -> scaled_ok d w = true.
Proof.
  induction d using dtype_nested_ind; intros w Hn Hc; try reflexivity; try discriminate.
  - destruct w; try discriminate. cbn [no_scaled] in Hn. cbn [canon] in Hc. cbn [scaled_ok].
    apply forallb_forall. intros x Hin. apply IHd; [exact Hn|]. eapply forallb_forall in Hc; eauto.
  - destruct w; try discriminate. cbn [no_scaled] in Hn. rewrite canon_tuple in Hc. rewrite scaled_ok_tuple.
    eapply all2_mono; [|exact Hc]. rewrite Forall_forall in H. apply Forall_forall. intros d1 Hd y Hy.
    apply (H d1 Hd); [|exact Hy]. eapply forallb_forall in Hn; eauto.
  - destruct w; try discriminate. cbn [no_scaled] in Hn. rewrite canon_struct in Hc. rewrite scaled_ok_struct.
    apply andb_prop in Hc. destruct Hc as [_ He].
    apply forallb_forall. intros p Hin. eapply forallb_forall in He; eauto.
    eapply entry_ok_mono_in; [|exact He]. rewrite Forall_forall in H. apply Forall_forall. intros m Hm y Hy.
    apply (H m Hm); [|exact Hy]. eapply forallb_forall in Hn; eauto.
Qed.

Lemma prev_st_canon d p : prev_st d p -> prev_canon d p.
Proof. intros [->|H]; [left; reflexivity|right; apply stable_canon; exact H]. Qed.

(* idempotence without side condition for every type tree that has no scaled leaf *)
Theorem validate_idempotent_noscaled : forall d, wf d -> idem_dt d = true -> no_scaled d = true ->
  forall v prev w, prev_st d prev -> dt_validate d v prev = Ok w ->
  res_same (dt_validate d w PNone) (Ok w) = true /\ res_same (dt_validate d w w) (Ok w) = true /\
  stable d w = true.
Proof.
  intros d Hwf Hi Hn v prev w Hp H. eapply validate_idempotent; eauto.
  apply no_scaled_ok; [exact Hn|]. eapply validate_canon; [apply prev_st_canon; exact Hp|exact H].
Qed.
