(* C02 - executable model of the value codecs of frappy/datatypes.py on top of the C01 validation model:
   export_value (per type), the JSON kind of the exported form, the client side datatype rebuilt from the
   exported datainfo (get_datatype of export_datatype), the text forms (format_value with unit=False, to_string,
   from_string) at the level of literal syntax trees, and SecopClient.setParameterFromString.
   CPython library behaviour (b64encode, the percent-format of floats, repr, ast.literal_eval on atoms) is a
   record of functions [codec]; the executable instance is tabulated per case by the harness.  No proofs here. *)
From Coq Require Import ZArith NArith Bool List.
Import ListNotations.
Require Import FV.Base.Util FV.Base.F64 FV.Base.PyVal FV.C01.Model.

Record codec := {
  c_b64 : str -> option str;          (* b64encode(b).decode('ascii') *)
  c_fmt : f64 -> option str;          (* '%g' % x   (the default fmtstr) *)
  c_repr : pyval -> option str;       (* repr / str of an atom: int, bool, str, bytes *)
  c_lit : str -> option pyval;        (* ast.literal_eval of an atom text; None = it raises *)
}.

(* ------------------------------------------------------------------ export_value *)
(* float(value) *)
Definition py_float (v : pyval) : res f64 :=
  match v with
  | PBool b => Ok (if b then of_Z 1 else fzero)
  | PInt z | PEnum _ z => match float_of_Z z with Some f => Ok f | None => Err EOverflow end
  | PFloat f => Ok f
  | PStr _ | PBytes _ => Err EOther                   (* float of a text parses it: outside the model *)
  | _ => Err EType
  end.

(* int(value) for the kinds a valid value can have; text is outside the model *)
Definition py_int (v : pyval) : res Z :=
  match v with
  | PEnum _ z => Ok z
  | PStr _ | PBytes _ => Err EOther
  | _ => py_int_num v
  end.

(* value / scale *)
Definition py_div_scale (v : pyval) (scale : f64) : res f64 :=
  match v with
  | PFloat f => Ok (fdiv f scale)
  | PBool b => Ok (fdiv (if b then of_Z 1 else fzero) scale)
  | PInt z | PEnum _ z => match float_of_Z z with Some f => Ok (fdiv f scale) | None => Err EOverflow end
  | _ => Err EType
  end.

Definition float_export (v : pyval) : res pyval := py_float v >>= fun f => Ok (PFloat f).
Definition int_export (v : pyval) : res pyval := py_int v >>= fun z => Ok (PInt z).
Definition scaled_export (scale : f64) (v : pyval) : res pyval :=
  py_div_scale v scale >>= fun q => py_round q >>= fun k => Ok (PInt k).
Definition enum_export (ms : list (str * Z)) (v : pyval) : res pyval :=
  enum_call ms v >>= fun m => match m with PEnum _ z => Ok (PInt z) | _ => Err EOther end.
Definition blob_export (C : codec) (v : pyval) : res pyval :=
  match v with
  | PBytes b => match c_b64 C b with Some s => Ok (PStr s) | None => Err EOther end
  | _ => Err EType
  end.
Definition string_export (v : pyval) : res pyval :=
  match v with PStr s => Ok (PStr s) | _ => Err EOther end.      (* str() of other objects: outside the model *)

Section WithCodec.
Variable C : codec.

Fixpoint dt_export (d : dtype) (v : pyval) {struct d} : res pyval :=
  match d with
  | TFloat _ _ _ _ => float_export v
  | TInt _ _ => int_export v
  | TScaled scale _ _ => scaled_export scale v
  | TBool => bool_call v
  | TEnum ms => enum_export ms v
  | TString _ _ _ => string_export v
  | TBlob _ _ => blob_export C v
  | TArray elem minlen maxlen =>
      array_check minlen maxlen v >>= fun _ =>
      match py_iter v with
      | None => Err EType
      | Some items => map_res (dt_export elem) items >>= fun ys => Ok (PList ys)
      end
  | TTuple elems =>
      tuple_check (length elems) v >>= fun _ =>
      match py_iter v with
      | None => Err EType
      | Some items => mapd_res dt_export elems items >>= fun ys => Ok (PList ys)
      end
  | TStruct members optional client =>
      (* check_type(value, True): a valid value may lack optional members (45926fd) *)
      struct_check (map fst members) optional client true v >>= fun _ =>
      if negb (is_dict v) then Err EAttr
      else struct_fold dt_export false members (dict_items v) [] >>= fun kv => Ok (PDict kv)
  end.

End WithCodec.

(* ------------------------------------------------------------------ JSON kinds *)
Fixpoint strict_json (j : pyval) : bool :=
  match j with
  | PNone | PBool _ | PInt _ | PStr _ => true
  | PFloat f => fis_finite f
  | PList l => forallb strict_json l
  | PDict kv => forallb (fun p => strict_json (snd p)) kv
  | _ => false
  end.

Definition b64_char (c : N) : bool :=
  ((65 <=? c) && (c <=? 90) || (97 <=? c) && (c <=? 122) || (48 <=? c) && (c <=? 57) || (c =? 43) || (c =? 47))%N.
(* RFC 4648 text: groups of four alphabet characters, the last group may end in one or two '=' *)
Fixpoint is_b64_text (s : str) : bool :=
  match s with
  | [] => true
  | [a; b; c; d] =>
      b64_char a && b64_char b &&
      ((b64_char c && (b64_char d || (d =? 61)%N)) || ((c =? 61)%N && (d =? 61)%N))
  | a :: b :: c :: d :: r => b64_char a && b64_char b && b64_char c && b64_char d && is_b64_text r
  | _ => false
  end.

(* the kind SECoP prescribes for the transport form of each type *)
Fixpoint kind_ok (d : dtype) (j : pyval) {struct d} : bool :=
  match d, j with
  | TFloat _ _ _ _, PFloat f => fis_finite f
  | TInt _ _, PInt _ | TScaled _ _ _, PInt _ | TEnum _, PInt _ => true
  | TBool, PBool _ => true
  | TString _ _ _, PStr _ => true
  | TBlob _ _, PStr s => is_b64_text s
  | TArray elem _ _, PList l => forallb (kind_ok elem) l
  | TTuple elems, PList l =>
      (fix go (ds : list dtype) (l : list pyval) : bool :=
         match ds, l with
         | [], [] => true
         | d1 :: ds', x :: r => kind_ok d1 x && go ds' r
         | _, _ => false
         end) elems l
  | TStruct members _ _, PDict kv =>
      forallb (fun p : str * pyval =>
                 (fix find (ms : list (str * dtype)) : bool :=
                    match ms with
                    | [] => false
                    | (n, d1) :: ms' => if str_eqb (fst p) n then kind_ok d1 (snd p) else find ms'
                    end) members) kv
  | _, _ => false
  end.

(* ------------------------------------------------------------------ client side type *)
Definition UNLIMITED : Z := 18446744073709551616.

Fixpoint insert_by_value (m : str * Z) (l : list (str * Z)) : list (str * Z) :=
  match l with
  | [] => [m]
  | m' :: r => if (snd m <? snd m')%Z then m :: l else m' :: insert_by_value m r
  end.
Definition sort_by_value (l : list (str * Z)) : list (str * Z) := fold_right insert_by_value [] l.

Definition same_names (a b : list str) : bool :=
  forallb (fun n => mem_str n b) a && forallb (fun n => mem_str n a) b.

Definition finite_or (f : f64) : res f64 := if fis_finite f then Ok f else Err EOther.

(* get_datatype(json round trip of export_datatype()), as SecopClient._init_descriptive_data does.
   Err EOther: outside the model (a scaled limit that is not finite after the rebuild) *)
Fixpoint client_of (d : dtype) {struct d} : res dtype :=
  match d with
  | TScaled scale mn mx =>
      (* exported: min=int(round(min/scale)); rebuilt: min*scale *)
      py_round (fdiv mn scale) >>= fun k1 => py_round (fdiv mx scale) >>= fun k2 =>
      py_int_mul_float k1 scale >>= finite_or >>= fun a =>
      py_int_mul_float k2 scale >>= finite_or >>= fun b => Ok (TScaled scale a b)
  | TEnum ms => Ok (TEnum (sort_by_value ms))
  | TArray elem a b => client_of elem >>= fun e => Ok (TArray e a b)
  | TTuple elems =>
      (fix go (ds : list dtype) : res (list dtype) :=
         match ds with
         | [] => Ok []
         | d1 :: r => client_of d1 >>= fun c1 => go r >>= fun cs => Ok (c1 :: cs)
         end) elems >>= fun cs => Ok (TTuple cs)
  | TStruct members optional _ =>
      (fix go (ms : list (str * dtype)) : res (list (str * dtype)) :=
         match ms with
         | [] => Ok []
         | (n, d1) :: r => client_of d1 >>= fun c1 => go r >>= fun cs => Ok ((n, c1) :: cs)
         end) members >>= fun cs =>
      let names := map fst members in
      Ok (TStruct cs (if same_names optional names then names else optional) true)
  | _ => Ok d
  end.

Fixpoint dtype_eqb (a b : dtype) {struct a} : bool :=
  match a, b with
  | TFloat a1 a2 a3 a4, TFloat b1 b2 b3 b4 => fsame a1 b1 && fsame a2 b2 && fsame a3 b3 && fsame a4 b4
  | TInt a1 a2, TInt b1 b2 => Z.eqb a1 b1 && Z.eqb a2 b2
  | TScaled a1 a2 a3, TScaled b1 b2 b3 => fsame a1 b1 && fsame a2 b2 && fsame a3 b3
  | TBool, TBool => true
  | TEnum m1, TEnum m2 => list_eqb (pair_eqb str_eqb Z.eqb) m1 m2
  | TString a1 a2 a3, TString b1 b2 b3 => Z.eqb a1 b1 && Z.eqb a2 b2 && Bool.eqb a3 b3
  | TBlob a1 a2, TBlob b1 b2 => Z.eqb a1 b1 && Z.eqb a2 b2
  | TArray e1 a1 a2, TArray e2 b1 b2 => dtype_eqb e1 e2 && Z.eqb a1 b1 && Z.eqb a2 b2
  | TTuple l1, TTuple l2 =>
      (fix go (x y : list dtype) : bool :=
         match x, y with
         | [], [] => true
         | p :: x', q :: y' => dtype_eqb p q && go x' y'
         | _, _ => false
         end) l1 l2
  | TStruct m1 o1 c1, TStruct m2 o2 c2 =>
      (fix go (x y : list (str * dtype)) : bool :=
         match x, y with
         | [], [] => true
         | (k, p) :: x', (k', q) :: y' => str_eqb k k' && dtype_eqb p q && go x' y'
         | _, _ => false
         end) m1 m2 && list_eqb str_eqb o1 o2 && Bool.eqb c1 c2
  | _, _ => false
  end.

(* ------------------------------------------------------------------ text forms *)
(* a text in Python literal syntax, as format_value(unit=False) composes it:
   atoms, [a, b], (a, b), (a,) and {k: a, l: b}; the text itself is [render] of the tree *)
Inductive ptree :=
| PA (s : str)
| PL (l : list ptree)
| PP (l : list ptree)
| PT1 (t : ptree)                      (* (x,) : the python syntax of a tuple with one element *)
| PB (l : list (str * ptree)).

Fixpoint join (sep : str) (l : list str) : str :=
  match l with
  | [] => []
  | [x] => x
  | x :: r => x ++ sep ++ join sep r
  end.

Definition comma_sp : str := [44; 32]%N.
Definition colon_sp : str := [58; 32]%N.

Fixpoint render (t : ptree) : str :=
  match t with
  | PA s => s
  | PL l => [91%N] ++ join comma_sp (map render l) ++ [93%N]
  | PP l => [40%N] ++ join comma_sp (map render l) ++ [41%N]
  | PT1 t => [40%N] ++ render t ++ [44; 41]%N
  | PB l => [123%N] ++ join comma_sp (map (fun p => fst p ++ colon_sp ++ render (snd p)) l) ++ [125%N]
  end.

Fixpoint all_some {A} (l : list (option A)) : option (list A) :=
  match l with
  | [] => Some []
  | Some x :: r => match all_some r with Some xs => Some (x :: xs) | None => None end
  | None :: _ => None
  end.

Section Text.
Variable C : codec.

(* what ast.literal_eval makes of the text of a tree: a parenthesised single expression is that expression,
   not a tuple; () is the empty tuple; a later duplicate key overwrites *)
Fixpoint lit_eval (t : ptree) : option pyval :=
  match t with
  | PA s => c_lit C s
  | PL l => match all_some (map lit_eval l) with Some vs => Some (PList vs) | None => None end
  | PP [x] => lit_eval x
  | PP l => match all_some (map lit_eval l) with Some vs => Some (PTuple vs) | None => None end
  | PT1 x => match lit_eval x with Some v => Some (PTuple [v]) | None => None end
  | PB l =>
      (fix go (l : list (str * ptree)) (acc : list (str * pyval)) : option pyval :=
         match l with
         | [] => Some (PDict acc)
         | (k, x) :: r =>
             match c_lit C k, lit_eval x with
             | Some (PStr k'), Some v => go r (dict_set k' v acc)
             | _, _ => None                           (* non-string keys: outside the model *)
             end
         end) l []
  end.

Definition atom (o : option str) : res ptree :=
  match o with Some s => Ok (PA s) | None => Err EOther end.   (* EOther: not tabulated = outside the model *)

(* format_value(value, unit=False) *)
Fixpoint to_tree (d : dtype) (v : pyval) {struct d} : res ptree :=
  match d with
  | TFloat _ _ _ _ | TScaled _ _ _ =>
      match v with PFloat f => atom (c_fmt C f) | _ => Err EOther end
  | TInt _ _ => match v with PInt _ => atom (c_repr C v) | _ => Err EOther end
  | TEnum _ => match v with PEnum n _ => atom (c_repr C (PStr n)) | _ => Err EAttr end
  | TBool => match v with PBool _ => atom (c_repr C v) | _ => Err EOther end
  | TString _ _ _ => match v with PStr _ => atom (c_repr C v) | _ => Err EOther end
  | TBlob _ _ => match v with PBytes _ => atom (c_repr C v) | _ => Err EOther end
  | TArray elem _ _ =>
      match py_iter v with
      | None => Err EType
      | Some items =>
          (fix go (l : list pyval) : res (list ptree) :=
             match l with
             | [] => Ok []
             | x :: r => to_tree elem x >>= fun y => go r >>= fun ys => Ok (y :: ys)
             end) items >>= fun ts => Ok (PL ts)
      end
  | TTuple elems =>
      match py_iter v with
      | None => Err EType
      | Some items =>
          (fix go (ds : list dtype) (l : list pyval) : res (list ptree) :=
             match ds, l with
             | d1 :: ds', x :: r => to_tree d1 x >>= fun y => go ds' r >>= fun ys => Ok (y :: ys)
             | _, _ => Ok []
             end) elems items >>= fun ts => Ok (match ts with [t] => PT1 t | _ => PP ts end)
      end
  | TStruct members _ _ =>
      if negb (is_dict v) then Err EAttr
      else
        (fix go (kv : list (str * pyval)) : res (list (str * ptree)) :=
           match kv with
           | [] => Ok []
           | (k, x) :: r =>
               match c_repr C (PStr k) with
               | None => Err EOther
               | Some ks =>
                   (fix find (ms : list (str * dtype)) : res (list (str * ptree)) :=
                      match ms with
                      | [] => Err EKey
                      | (n, d1) :: ms' =>
                          if str_eqb k n then to_tree d1 x >>= fun y => go r >>= fun ys => Ok ((ks, y) :: ys)
                          else find ms'
                      end) members
               end
           end) (dict_items v) >>= fun ts => Ok (PB ts)
  end.

(* to_string: format_value(value, False) except for strings (the bare string) and enums (the bare name) *)
Definition to_string (d : dtype) (v : pyval) : res ptree :=
  match d with
  | TString _ _ _ => match v with PStr s => Ok (PA s) | _ => Err EOther end
  | TEnum _ => match v with PEnum n _ => Ok (PA n) | _ => Err EAttr end
  | _ => to_tree d v
  end.

(* str.strip() for the whitespace the model knows (ASCII white space, NEL, NBSP) *)
Definition is_space (c : N) : bool :=
  ((9 <=? c) && (c <=? 13) || (28 <=? c) && (c <=? 32) || (c =? 133) || (c =? 160))%N.
Fixpoint lstrip (s : str) : str := match s with c :: r => if is_space c then lstrip r else s | [] => [] end.
Definition strip (s : str) : str := rev (lstrip (rev (lstrip s))).

Definition ascii (s : list nat) : str := map N.of_nat s.
Definition false_words : list str :=
  [[48]; [70;97;108;115;101]; [102;97;108;115;101]; [110;111]; [111;102;102]]%N.        (* 0 False false no off *)
Definition true_words : list str :=
  [[49]; [84;114;117;101]; [116;114;117;101]; [121;101;115]; [111;110]]%N.              (* 1 True true yes on *)

(* DataType.from_string: literal_eval, then __call__ (not validate) *)
Definition generic_from_string (d : dtype) (t : ptree) : res pyval :=
  match lit_eval t with
  | None => Err EWrongType
  | Some v => dt_call d v
  end.

Definition from_string (d : dtype) (t : ptree) : res pyval :=
  match d with
  | TString a b u => string_call a b u (PStr (render t))
  | TBool =>
      let w := strip (render t) in
      if mem_str w false_words then Ok (PBool false)
      else if mem_str w true_words then Ok (PBool true) else Err EWrongType
  | TEnum ms =>
      match enum_by_name (strip (render t)) ms with
      | Some (n, z) => Ok (PEnum n z)
      | None => generic_from_string d t
      end
  | _ => generic_from_string d t
  end.

End Text.

(* ------------------------------------------------------------------ SecopClient.setParameterFromString *)
(* value = datatype.export_value(datatype.from_string(formatted)); request(WRITEREQUEST, ident, value)
   followed by what the node does with the data: import_value + validate *)
Definition set_from_string (C : codec) (E : pyenv) (dc d : dtype) (t : ptree) : res pyval :=
  from_string C dc t >>= dt_export C dc >>= fun j => wire E d j PNone.
