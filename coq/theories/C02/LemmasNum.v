(* C02 - binary64 facts behind the numeric leaves: an int survives int() / + 0.0 / round() exactly; a finite float
   within its limits is unchanged by export, import (+ 0.0, clamp to +-max) and validate (tolerance test, clamp). *)
From Coq Require Import ZArith Bool Reals Lra Lia List.
From Flocq Require Import Core.Zaux Core.Raux Core.Defs Core.Generic_fmt Core.Float_prop Core.FLT Core.FIX
  IEEE754.BinarySingleNaN.
Import ListNotations.
Require Import FV.Base.Util FV.Base.F64 FV.Base.F64Lemmas FV.Base.PyVal FV.C01.Model FV.C01.Lemmas FV.C02.Model
  FV.C02.Lemmas.

Local Notation fexp64 := (FLT_exp (3 - emax - prec) prec).
Local Notation rNE := (round radix2 fexp64 (round_mode mode_NE)).

Lemma F2R_int z : F2R (Float radix2 z 0) = IZR z.
Proof. unfold F2R. simpl. ring. Qed.

(* rounding an integer to binary64 gives an integer *)
Lemma round_int_is_int z : exists n, rNE (IZR z) = IZR n.
Proof.
  destruct (Z_lt_le_dec (cexp radix2 fexp64 (IZR z)) 0) as [Hc|Hc].
  - exists z. apply round_generic; [apply valid_rnd_round_mode|].
    rewrite <- F2R_int. apply generic_format_F2R. intros _. rewrite F2R_int. lia.
  - exists (round_mode mode_NE (scaled_mantissa radix2 fexp64 (IZR z)) * 2 ^ cexp radix2 fexp64 (IZR z))%Z.
    unfold round, F2R. cbn [Fnum Fexp]. rewrite mult_IZR. f_equal.
    symmetry. apply (IZR_Zpower radix2). exact Hc.
Qed.

Lemma B2SF_inf_not_finite (x : f64) s : B2SF x = SpecFloat.S754_infinity s -> fis_finite x = false.
Proof. destruct x; cbn [B2SF]; intros H; try discriminate; reflexivity. Qed.

Lemma of_Z_integral z : fis_finite (of_Z z) = true -> exists n, B2R (of_Z z) = IZR n.
Proof.
  intros Hf. unfold of_Z, fmk in *.
  pose proof (binary_normalize_correct prec emax _ _ mode_NE z 0 false) as H. cbv zeta in H.
  rewrite F2R_int in H.
  destruct (Rlt_bool _ _).
  - destruct H as (H & _). rewrite H. apply round_int_is_int.
  - unfold binary_overflow in H. cbn [overflow_to_inf] in H.
    rewrite (B2SF_inf_not_finite _ _ H) in Hf. discriminate.
Qed.

Lemma of_Z_small_finite z : (Z.abs z <= 2 ^ 64)%Z -> fis_finite (of_Z z) = true.
Proof.
  intros Hz. unfold of_Z, fmk.
  pose proof (binary_normalize_correct prec emax _ _ mode_NE z 0 false) as H. cbv zeta in H.
  rewrite F2R_int in H.
  rewrite Rlt_bool_true in H.
  - destruct H as (_ & H & _). rewrite fis_finite_is_finite. exact H.
  - apply Rle_lt_trans with (bpow radix2 64); [|apply bpow_lt; unfold emax; lia].
    apply abs_round_le_generic; [apply FLT_exp_valid; exact prec_gt_0_64|apply valid_rnd_round_mode| |].
    + apply generic_format_bpow. unfold SpecFloat.fexp, SpecFloat.emin, emax, prec. lia.
    + rewrite <- abs_IZR, <- (IZR_Zpower radix2 64) by lia. apply IZR_le. exact Hz.
Qed.

(* round() and the exact comparison with an integral float *)
Lemma fround_integral (y : f64) n : B2R y = IZR n -> fround y = n.
Proof.
  intros Hy. unfold fround. apply eq_IZR. rewrite Btrunc_correct.
  destruct (Bnearbyint_correct prec emax _ mode_NE y) as (H & _). rewrite H, Hy.
  rewrite !round_FIX_IZR. rewrite (Zrnd_IZR (round_mode mode_NE)). rewrite (Zrnd_IZR Ztrunc). reflexivity. exact prec_lt_emax_64.
Qed.

Lemma cmp_Z_f_integral (y : f64) n : fis_finite y = true -> B2R y = IZR n -> cmp_Z_f n y = Some Eq.
Proof.
  destruct y as [s|s| |s m e B]; cbn [fis_finite]; try discriminate; intros _ Hy; cbn [cmp_Z_f].
  - cbn in Hy. apply eq_IZR in Hy. subst. reflexivity.
  - cbn [B2R] in Hy. unfold F2R in Hy. cbn [Fnum Fexp] in Hy. f_equal.
    destruct (0 <=? e)%Z eqn:He.
    + apply Z.leb_le in He. apply Z.compare_eq_iff. apply eq_IZR. rewrite <- Hy, mult_IZR.
      f_equal. symmetry. apply (IZR_Zpower radix2). exact He.
    + apply Z.leb_gt in He. apply Z.compare_eq_iff. apply eq_IZR. rewrite mult_IZR.
      rewrite (IZR_Zpower radix2) by lia. rewrite <- Hy. rewrite Rmult_assoc, <- bpow_plus.
      replace (e + - e)%Z with 0%Z by lia. cbn. ring.
Qed.

Lemma int_call_exact z : fis_finite (of_Z z) = true -> int_call (PInt z) = Ok (PInt z).
Proof.
  intros Hf. unfold int_call. cbn [py_add0 py_int_num]. unfold float_of_Z. rewrite Hf. cbn [bind wrap_wrong].
  destruct (of_Z_integral z Hf) as (n & Hn).
  rewrite (fround_integral _ _ Hn), (cmp_Z_f_integral _ _ Hf Hn). reflexivity.
Qed.

Lemma rt_int E C mn mx : (- 2 ^ 64 <= mn)%Z -> (mx <= 2 ^ 64)%Z -> num_rt E C (TInt mn mx).
Proof.
  intros Hmn Hmx v Hv. destruct v; cbn [valid in_setb] in Hv; try discriminate.
  apply andb_prop in Hv. destruct Hv as [H1 H2].
  assert (Hz : (Z.abs z <= 2 ^ 64)%Z) by (apply Z.leb_le in H1; apply Z.leb_le in H2; lia).
  pose proof (int_call_exact z (of_Z_small_finite z Hz)) as Hc.
  exists (PInt z), (PInt z), (PInt z). cbn [dt_export dt_import dt_validate dt_call].
  unfold int_export, int_validate. cbn [py_int py_int_num bind]. rewrite Hc, H1, H2. cbn.
  repeat split; try constructor; discriminate.
Qed.

(* ------------------------------------------------------------------ floats *)
Local Open Scope R_scope.

Lemma finite_notnan (a : f64) : fis_finite a = true -> notnan a.
Proof. destruct a; cbn; try discriminate; reflexivity. Qed.
Lemma finite_key (a : f64) : fis_finite a = true -> key a = B2R a.
Proof. destruct a; cbn; try discriminate; reflexivity. Qed.

(* x + 0.0 keeps the number *)
Lemma fadd_zero (a : f64) : fis_finite a = true -> fis_finite (fadd a fzero) = true /\ B2R (fadd a fzero) = B2R a.
Proof.
  intros Fa. rewrite fis_finite_is_finite in *. unfold fadd, fzero.
  pose proof (Bplus_correct prec emax _ _ mode_NE a (B754_zero false) Fa eq_refl) as H.
  cbn [B2R] in H. rewrite Rplus_0_r in H.
  rewrite round_generic in H; [|apply valid_rnd_round_mode|apply generic_format_B2R].
  rewrite Rlt_bool_true in H by apply abs_B2R_lt_emax.
  destruct H as (H1 & H2 & _). split; [rewrite <- H2; apply fis_finite_is_finite|exact H1].
Qed.

Lemma B2R_fmaxval : B2R fmaxval = bpow radix2 1024 - bpow radix2 971.
Proof.
  assert (H : B2SF fmaxval = SpecFloat.S754_finite false 9007199254740991 971) by (vm_compute; reflexivity).
  destruct fmaxval as [s|s| |s m e B]; cbn in H; try discriminate. inversion H; subst.
  cbn [B2R]. unfold F2R. cbn [Fnum Fexp SpecFloat.cond_Zopp].
  replace 1024%Z with (53 + 971)%Z by reflexivity. rewrite bpow_plus.
  rewrite <- (IZR_Zpower radix2 53) by lia.
  replace (radix2 ^ 53)%Z with (9007199254740991 + 1)%Z by reflexivity. rewrite plus_IZR. ring.
Qed.

(* the clamp to +-sys.float_info.max leaves every finite float alone *)
Lemma clamp_fmax (g : f64) : fis_finite g = true -> fclamp (fopp fmaxval) g fmaxval = g.
Proof.
  intros Fg.
  assert (Fm : fis_finite fmaxval = true) by (vm_compute; reflexivity).
  assert (Fo : fis_finite (fopp fmaxval) = true) by (vm_compute; reflexivity).
  assert (Hb : Rabs (B2R g) <= B2R fmaxval).
  { rewrite B2R_fmaxval. exact (abs_B2R_le_emax_minus_prec prec emax _ g). }
  apply Rabs_le_inv in Hb.
  assert (Ko : key (fopp fmaxval) = - B2R fmaxval).
  { rewrite (finite_key _ Fo). unfold fopp. apply B2R_Bopp. }
  assert (L1 : fle (fopp fmaxval) g = true).
  { apply fle_true; try (apply finite_notnan; assumption). rewrite Ko, (finite_key _ Fg). lra. }
  assert (L2 : fle g fmaxval = true).
  { apply fle_true; try (apply finite_notnan; assumption). rewrite (finite_key _ Fm), (finite_key _ Fg). lra. }
  destruct (fclamp_between (fopp fmaxval) g fmaxval) as (_ & _ & H); try (apply finite_notnan; assumption).
  - eapply fle_trans; eassumption.
  - apply H; assumption.
Qed.

Lemma overflow_NE s : binary_overflow prec emax mode_NE s = SpecFloat.S754_infinity s.
Proof. reflexivity. Qed.
Lemma B2SF_inf (x : f64) s : B2SF x = SpecFloat.S754_infinity s -> x = B754_infinity s.
Proof. destruct x; cbn [B2SF]; intros H; try discriminate. inversion H; reflexivity. Qed.

Lemma nonneg_sign (p : f64) : fis_finite p = true -> 0 <= key p -> Bsign p = false \/ B2R p = 0.
Proof.
  destruct p as [s|s| |s m e B]; cbn [fis_finite]; try discriminate; intros _ H.
  - right; reflexivity.
  - destruct s; [|left; reflexivity]. exfalso. cbn [key B2R] in H.
    assert (F2R (Float radix2 (SpecFloat.cond_Zopp true (Z.pos m)) e) < 0) by (apply F2R_lt_0; cbn; lia). lra.
Qed.

(* a - p <= a and a <= a + p for a finite a and a number p >= 0 (possibly +inf), also when the result overflows *)
Lemma fsub_le (a p : f64) : fis_finite a = true -> notnan p -> 0 <= key p ->
  notnan (fsub a p) /\ key (fsub a p) <= key a.
Proof.
  intros Fa Np Hp. pose proof (finite_key_bound a) as Ka. rewrite <- fis_finite_is_finite in Ka. specialize (Ka Fa).
  destruct (fis_finite p) eqn:Fp.
  - destruct (nonneg_sign p Fp Hp) as [Hs|Hz].
    + pose proof (Bminus_correct prec emax _ _ mode_NE a p) as H.
      rewrite <- !fis_finite_is_finite in H. specialize (H Fa Fp).
      destruct (Rlt_bool _ _).
      * destruct H as (H1 & H2 & _). rewrite <- fis_finite_is_finite in H2. unfold fsub.
        split; [apply finite_notnan; exact H2|]. rewrite (finite_key _ H2), (finite_key _ Fa), H1.
        rewrite <- (round_generic radix2 fexp64 (round_mode mode_NE) (B2R a)) at 2 by apply generic_format_B2R.
        apply round_le; [apply FLT_exp_valid; exact prec_gt_0_64|apply valid_rnd_round_mode|].
        rewrite (finite_key _ Fp) in Hp. lra.
      * destruct H as (H1 & H2). rewrite overflow_NE in H1. apply B2SF_inf in H1. unfold fsub. rewrite H1.
        rewrite H2, Hs. split; [reflexivity|]. change (- BIG <= key a). lra.
    + pose proof (Bminus_correct prec emax _ _ mode_NE a p) as H.
      rewrite <- !fis_finite_is_finite in H. specialize (H Fa Fp).
      rewrite Hz, Rminus_0_r in H.
      rewrite round_generic in H; [|apply valid_rnd_round_mode|apply generic_format_B2R].
      rewrite Rlt_bool_true in H by apply abs_B2R_lt_emax.
      destruct H as (H1 & H2 & _). rewrite <- fis_finite_is_finite in H2. unfold fsub.
      split; [apply finite_notnan; exact H2|]. rewrite (finite_key _ H2), (finite_key _ Fa), H1. lra.
  - destruct p as [s|[|]| |s m e B]; try discriminate.
    + change (0 <= - BIG) in Hp. pose proof BIG_pos. lra.
    + destruct a as [s|s| |s m e B]; try discriminate; (split; [reflexivity|]);
        match goal with |- key _ <= ?k => change (- BIG <= k) end; lra.
Qed.

Lemma fadd_ge (a p : f64) : fis_finite a = true -> notnan p -> 0 <= key p ->
  notnan (fadd a p) /\ key a <= key (fadd a p).
Proof.
  intros Fa Np Hp. pose proof (finite_key_bound a) as Ka. rewrite <- fis_finite_is_finite in Ka. specialize (Ka Fa).
  destruct (fis_finite p) eqn:Fp.
  - destruct (nonneg_sign p Fp Hp) as [Hs|Hz].
    + pose proof (Bplus_correct prec emax _ _ mode_NE a p) as H.
      rewrite <- !fis_finite_is_finite in H. specialize (H Fa Fp).
      destruct (Rlt_bool _ _).
      * destruct H as (H1 & H2 & _). rewrite <- fis_finite_is_finite in H2. unfold fadd.
        split; [apply finite_notnan; exact H2|]. rewrite (finite_key _ H2), (finite_key _ Fa), H1.
        rewrite <- (round_generic radix2 fexp64 (round_mode mode_NE) (B2R a)) at 1 by apply generic_format_B2R.
        apply round_le; [apply FLT_exp_valid; exact prec_gt_0_64|apply valid_rnd_round_mode|].
        rewrite (finite_key _ Fp) in Hp. lra.
      * destruct H as (H1 & H2). rewrite overflow_NE in H1. apply B2SF_inf in H1. unfold fadd. rewrite H1.
        rewrite H2, Hs. split; [reflexivity|]. change (key a <= BIG). lra.
    + pose proof (Bplus_correct prec emax _ _ mode_NE a p) as H.
      rewrite <- !fis_finite_is_finite in H. specialize (H Fa Fp).
      rewrite Hz, Rplus_0_r in H.
      rewrite round_generic in H; [|apply valid_rnd_round_mode|apply generic_format_B2R].
      rewrite Rlt_bool_true in H by apply abs_B2R_lt_emax.
      destruct H as (H1 & H2 & _). rewrite <- fis_finite_is_finite in H2. unfold fadd.
      split; [apply finite_notnan; exact H2|]. rewrite (finite_key _ H2), (finite_key _ Fa), H1. lra.
  - destruct p as [s|[|]| |s m e B]; try discriminate.
    + change (0 <= - BIG) in Hp. pose proof BIG_pos. lra.
    + destruct a as [s|s| |s m e B]; try discriminate; (split; [reflexivity|]);
        match goal with |- ?k <= key _ => change (k <= BIG) end; lra.
Qed.

Lemma feq_same_number (a b : f64) : fis_finite a = true -> fis_finite b = true -> B2R a = B2R b -> feq a b = true.
Proof.
  intros Fa Fb H. rewrite fis_finite_is_finite in Fa, Fb. unfold feq.
  rewrite (Beqb_correct prec emax a b Fa Fb). apply Req_bool_true, H.
Qed.

Lemma fabs_nonneg (y : f64) : notnan y -> notnan (fabs y) /\ 0 <= key (fabs y).
Proof.
  intros Hy. destruct y as [s|s| |s m e B]; try discriminate.
  - split; [reflexivity|]. change (0 <= 0). lra.
  - split; [reflexivity|]. change (0 <= BIG). pose proof BIG_pos. lra.
  - split; [reflexivity|]. change (0 <= B2R (fabs (B754_finite s m e B))). unfold fabs. rewrite B2R_Babs. apply Rabs_pos.
Qed.

Lemma pymax_nonneg (x a : f64) : notnan x -> 0 <= key x -> notnan (pymax x a) /\ 0 <= key (pymax x a).
Proof.
  intros Nx Hx. unfold pymax. destruct (flt x a) eqn:Hl; [|auto].
  destruct (flt_true_notnan _ _ Hl) as [_ Na]. split; [exact Na|]. apply flt_true in Hl; auto. lra.
Qed.

(* import_value (+0.0, clamp to +-max) of a finite float *)
Lemma float_call_finite f : fis_finite f = true ->
  exists g, float_call (PFloat f) = Ok (PFloat g) /\ fis_finite g = true /\ B2R g = B2R f.
Proof.
  intros Ff. destruct (fadd_zero f Ff) as [Fg Hg]. exists (fadd f fzero).
  unfold float_call. cbn [py_add0 wrap_wrong]. rewrite (clamp_fmax _ Fg). auto.
Qed.

(* a finite float within the limits passes validate unchanged (as a number) *)
Lemma float_validate_in_range mn mx a r g :
  fis_finite mn = true -> fis_finite mx = true -> fis_finite r = true -> fis_finite g = true ->
  fle mn g = true -> fle g mx = true ->
  exists g', float_validate mn mx a r (PFloat g) = Ok (PFloat g') /\ fis_finite g' = true /\ B2R g' = B2R g.
Proof.
  intros Fmn Fmx Fr Fg L1 L2.
  destruct (float_call_finite g Fg) as (g2 & Hc & F2 & B2).
  exists g2. unfold float_validate. rewrite Hc.
  pose proof (finite_notnan _ Fmn) as Nmn. pose proof (finite_notnan _ Fmx) as Nmx.
  pose proof (finite_notnan _ Fg) as Ng. pose proof (finite_notnan _ F2) as N2.
  assert (K2 : key g2 = key g) by (rewrite (finite_key _ F2), (finite_key _ Fg); exact B2).
  apply fle_true in L1; auto. apply fle_true in L2; auto.
  destruct (fabs_nonneg _ (fmul_finite_notnan g2 r F2 Fr)) as [Nx Hx].
  destruct (pymax_nonneg _ a Nx Hx) as [Np Hp].
  set (p := pymax (fabs (fmul g2 r)) a) in *.
  destruct (fsub_le mn p Fmn Np Hp) as [Ns Hs]. destruct (fadd_ge mx p Fmx Np Hp) as [Na Ha].
  assert (T1 : fle (fsub mn p) g2 = true) by (apply fle_true; auto; lra).
  assert (T2 : fle g2 (fadd mx p) = true) by (apply fle_true; auto; lra).
  rewrite T1, T2. cbn [andb].
  destruct (fclamp_between mn g2 mx Nmn N2 Nmx) as (_ & _ & Hcl).
  - apply fle_true; auto. lra.
  - rewrite Hcl; [auto| |]; apply fle_true; auto; lra.
Qed.

Lemma rt_float E C mn mx a r :
  fis_finite mn = true -> fis_finite mx = true -> fis_finite r = true -> num_rt E C (TFloat mn mx a r).
Proof.
  intros Fmn Fmx Fr v Hv. destruct v; cbn [valid in_setb] in Hv; try discriminate.
  apply andb_prop in Hv. destruct Hv as [Ff Hv]. apply andb_prop in Hv. destruct Hv as [L1 L2].
  destruct (float_call_finite f Ff) as (g & Hc & Fg & Bg).
  assert (L1' : fle mn g = true).
  { destruct (fle_true_notnan _ _ L1) as [Nm Nf]. apply fle_true in L1; auto.
    apply fle_true; auto using finite_notnan. rewrite (finite_key _ Fg), Bg, <- (finite_key _ Ff). exact L1. }
  assert (L2' : fle g mx = true).
  { destruct (fle_true_notnan _ _ L2) as [Nf Nm]. apply fle_true in L2; auto.
    apply fle_true; auto using finite_notnan. rewrite (finite_key _ Fg), Bg, <- (finite_key _ Ff). exact L2. }
  destruct (float_validate_in_range mn mx a r g Fmn Fmx Fr Fg L1' L2') as (g' & Hv & Fg' & Bg').
  exists (PFloat f), (PFloat g), (PFloat g'). cbn [dt_export dt_import dt_validate dt_call].
  unfold float_export. cbn [py_float bind]. rewrite Hc, Hv.
  repeat split; [|discriminate]. constructor. apply feq_same_number; auto. congruence.
Qed.
