(* C02 - witnesses (evaluated by vm_compute) of the defects of the pinned tree; each corresponds to one open finding *)
From Coq Require Import ZArith NArith Bool List.
Import ListNotations.
Require Import FV.Base.Util FV.Base.F64 FV.Base.PyVal FV.C01.Model FV.C01.Lemmas FV.C02.Model FV.C02.Run FV.C02.Lemmas.

Definition E0 : pyenv := {| int_of := []; b64_of := [] |}.
(* CPython facts used: str(5)="5", "%g"%2.5="2.5", "%g"%-0.0="-0", "%g"%0.0="0", "%g"%1.0="1", repr('a')="'a'",
   literal_eval of those texts *)
Definition T0 : tables :=
  {| t_b64 := [];
     t_fmt := [(fmk 5 (-1), [50;46;53]%N); (fnegzero, [45;48]%N); (fzero, [48]%N); (of_Z 1, [49]%N); (of_Z 2, [50]%N)];
     t_repr := [(PInt 5, [53]%N); (PStr [97%N], [39;97;39]%N)];
     t_lit := [([53]%N, PInt 5); ([50;46;53]%N, PFloat (fmk 5 (-1))); ([45;48]%N, PInt 0); ([48]%N, PInt 0);
               ([39;97;39]%N, PStr [97%N]); ([50]%N, PInt 2)] |}.
Definition C0 : codec := codec_of T0.

(* finding float-negzero-text: the text "-0" of -0.0 maps to 0.0, whose text is "0" *)
Theorem C02_refuted_negzero_text :
  exists d v t w t', valid d v = true /\ to_string C0 d v = Ok t /\ from_string C0 d t = Ok w /\
                     to_string C0 d w = Ok t' /\ str_eqb (render t) (render t') = false.
Proof.
  exists (TFloat (fopp (of_Z 1)) (of_Z 1) fzero fzero), (PFloat fnegzero), (PA [45;48]%N), (PFloat fzero), (PA [48]%N).
  repeat split; vm_compute; reflexivity.
Qed.

(* finding scaled-huge-grid: ScaledInteger(0.1, 0, 5e14): the grid point 4167494598637787*0.1 is exported as ...788 *)
Definition s01 : f64 := fmk 3602879701896397 (-55).
Theorem C02_refuted_scaled_huge :
  exists d k, res_same (dt_export C0 d (PFloat (fmul (of_Z k) s01))) (Ok (PInt (k + 1))) = true /\
              in_setb d (PFloat (fmul (of_Z k) s01)) = true.
Proof.
  exists (TScaled s01 fzero (fmk 500000000000000 0)), 4167494598637787%Z.
  split; vm_compute; reflexivity.
Qed.

(* finding scaled-limit-window: ScaledInteger(0.1558078597897119, 295803178462522.9, ...): the lower limit is not a grid
   point (min/scale = ...871.5), the lowest grid value 1898512558106872 * scale (index about 2^50.75, well below 2^51)
   is exported correctly, but validate refuses it on import: min - scale rounds to the same double as the value, so
   the window test min - scale < value fails *)
Definition sw_s : f64 := fmk 701696219290341 (-52).
Definition sw_mn : f64 := fmk 2366425427700183 (-3).
Definition sw_mx : f64 := fmk 4732850855402859 (-4).
Theorem C02_refuted_scaled_window :
  exists d v k, valid d v = true /\ (Z.abs k <= 2 ^ 51)%Z /\
    res_same (dt_export C0 d v) (Ok (PInt k)) = true /\ res_same (wire E0 d (PInt k) PNone) (Err ERange) = true.
Proof.
  exists (TScaled sw_s sw_mn sw_mx), (PFloat (fmk 1183212713850091 (-2))), 1898512558106872%Z.
  repeat split; vm_compute; try reflexivity; discriminate.
Qed.

(* finding scaled-text-regrid: ScaledInteger(0.3, 0, 300000): the grid value 333334 * 0.3 = 100000.2 has the six digit
   text "100000"; from_string reads 100000 and __call__ puts it on the grid again: 333333 * 0.3 = 99999.9, whose
   text is "99999.9" - not the identical text form (below 10^5 the six digit unit is finer than the grid) *)
Definition s03 : f64 := fmk 5404319552844595 (-54).
Definition T1 : tables :=
  {| t_b64 := [];
     t_fmt := [(fmk 6871961417495347 (-36), [49;48;48;48;48;48]%N); (fmk 3435970400826163 (-35), [57;57;57;57;57;46;57]%N)];
     t_repr := [];
     t_lit := [([49;48;48;48;48;48]%N, PInt 100000)] |}.
Definition C1 : codec := codec_of T1.
Theorem C02_refuted_scaled_text :
  exists d v t w t', valid d v = true /\ to_string C1 d v = Ok t /\ from_string C1 d t = Ok w /\
                     to_string C1 d w = Ok t' /\ str_eqb (render t) (render t') = false.
Proof.
  exists (TScaled s03 fzero (fmk 9375 5)), (PFloat (fmul (of_Z 333334) s03)), (PA [49;48;48;48;48;48]%N),
    (PFloat (fmul (of_Z 333333) s03)), (PA [57;57;57;57;57;46;57]%N).
  repeat split; vm_compute; reflexivity.
Qed.
