(* C02 - the JSON kind of the exported form: whenever export_value of a VALID value returns, the result has the kind
   SECoP prescribes for the type and is strict JSON (no NaN / Infinity); under the guards of the wire round trip the
   export does return.  Conditional variants of the soundness combinators of C01: the member value is known to be
   valid (double leaves need the finiteness of the valid value, the C01 combinators are unconditional in it). *)
From Coq Require Import ZArith NArith Bool List Lia.
Import ListNotations.
Require Import FV.Base.Util FV.Base.F64 FV.Base.PyVal FV.C01.Model FV.C01.Lemmas FV.C02.Model FV.C02.Lemmas
  FV.C02.LemmasScaled.

Local Notation kind_ok := FV.C02.Model.kind_ok.

Lemma kind_ok_tuple es l : kind_ok (TTuple es) (PList l) = all2 kind_ok es l.
Proof.
  cbn [FV.C02.Model.kind_ok]. revert l. induction es as [|d1 es IH]; destruct l as [|x l]; cbn; try reflexivity.
  rewrite IH. reflexivity.
Qed.
Lemma kind_ok_struct ms o c kv : kind_ok (TStruct ms o c) (PDict kv) = forallb (entry_ok kind_ok ms) kv.
Proof. reflexivity. Qed.

(* ------------------------------------------------------------------ the prescribed kind is strict JSON *)
Lemma entry_strict ms : Forall (fun m : str * dtype => forall j, kind_ok (snd m) j = true -> strict_json j = true) ms ->
  forall p, entry_ok kind_ok ms p = true -> strict_json (snd p) = true.
Proof.
  induction ms as [|[n d1] ms IH]; intros HF p; [discriminate|]. inversion HF as [|? ? H1 HF']; subst. cbn [snd] in H1.
  change (entry_ok kind_ok ((n, d1) :: ms) p) with (if str_eqb (fst p) n then kind_ok d1 (snd p) else entry_ok kind_ok ms p).
  destruct (str_eqb (fst p) n); [apply H1|apply IH, HF'].
Qed.

Theorem kind_strict : forall d j, kind_ok d j = true -> strict_json j = true.
Proof.
  induction d as [a b c d|a b|a b c| |ms|a b u|a b|e a b IHe|es IHes|ms o c IHms] using dtype_ind'; intros j H;
    try (destruct j; try discriminate; try reflexivity; exact H).
  - (* array *)
    destruct j; try discriminate. cbn [FV.C02.Model.kind_ok] in H. cbn [strict_json].
    revert H. apply forallb_imp. intros x. apply IHe.
  - (* tuple *)
    destruct j; try discriminate. rewrite kind_ok_tuple in H. cbn [strict_json].
    revert l H. induction IHes as [|d1 es H1 _ IH]; intros [|x l] H; cbn in H; try discriminate; [reflexivity|].
    apply andb_prop in H. destruct H as [Hx Hl]. cbn [forallb]. rewrite (H1 x Hx). cbn [andb]. apply IH, Hl.
  - (* struct *)
    destruct j; try discriminate. rewrite kind_ok_struct in H. cbn [strict_json].
    revert H. apply forallb_imp. intros p. apply entry_strict, IHms.
Qed.

(* ------------------------------------------------------------------ leaves *)
Lemma scaled_export_int s v j : scaled_export s v = Ok j -> exists k, j = PInt k.
Proof.
  unfold scaled_export. intros H. apply bind_ok in H. destruct H as (q & _ & H).
  apply bind_ok in H. destruct H as (k & _ & H). inversion H. eauto.
Qed.

Lemma enum_export_int ms v j : enum_export ms v = Ok j -> exists z, j = PInt z.
Proof.
  unfold enum_export. intros H. apply bind_ok in H. destruct H as (m & _ & H).
  destruct m; try discriminate. inversion H. eauto.
Qed.

Section Kind.
Variable C : codec.

(* what CPython's b64encode contributes: its output is RFC 4648 text.  Stated as "whenever the codec answers", so
   that tabulated codecs can meet it *)
Definition b64_text_law : Prop := forall b s, c_b64 C b = Some s -> is_b64_text s = true.
Hypothesis HT : b64_text_law.

Definition kind_sound (d : dtype) : Prop :=
  forall v j, valid d v = true -> dt_export C d v = Ok j -> kind_ok d j = true.

(* ------------------------------------------------------------------ conditional combinators *)
Lemma map_res_kind e : kind_sound e ->
  forall l js, forallb (valid e) l = true -> map_res (dt_export C e) l = Ok js -> forallb (kind_ok e) js = true.
Proof.
  intros He. induction l as [|x l IH]; intros js Hv H.
  - inversion H. reflexivity.
  - cbn [forallb] in Hv. apply andb_prop in Hv. destruct Hv as [Hx Hl]. rewrite map_res_cons in H.
    apply bind_ok in H. destruct H as (y & Hy & H). apply bind_ok in H. destruct H as (ys & Hys & H).
    inversion H; subst. cbn [forallb]. rewrite (He x y Hx Hy), (IH ys Hl Hys). reflexivity.
Qed.

Lemma mapd_res_kind es : Forall kind_sound es ->
  forall l js, all2 valid es l = true -> mapd_res (dt_export C) es l = Ok js -> all2 kind_ok es js = true.
Proof.
  induction 1 as [|d1 es H1 _ IH]; intros [|x l] js Hv H; cbn in Hv; try discriminate.
  - inversion H. reflexivity.
  - apply andb_prop in Hv. destruct Hv as [Hx Hl]. rewrite mapd_res_cons in H.
    apply bind_ok in H. destruct H as (y & Hy & H). apply bind_ok in H. destruct H as (ys & Hys & H).
    inversion H; subst. cbn [all2]. rewrite (H1 x y Hx Hy), (IH l ys Hl Hys). reflexivity.
Qed.

Lemma member_res_kind_valid ms : Forall (fun m : str * dtype => kind_sound (snd m)) ms ->
  forall k x y, entry_ok valid ms (k, x) = true -> member_res (dt_export C) k x ms = Ok y ->
  entry_ok kind_ok ms (k, y) = true.
Proof.
  induction 1 as [|[n d1] ms H1 _ IH]; intros k x y Hv H; [discriminate|]. cbn [snd] in H1.
  change (entry_ok valid ((n, d1) :: ms) (k, x)) with (if str_eqb k n then valid d1 x else entry_ok valid ms (k, x)) in Hv.
  change (member_res (dt_export C) k x ((n, d1) :: ms))
    with (if str_eqb k n then dt_export C d1 x else member_res (dt_export C) k x ms) in H.
  change (entry_ok kind_ok ((n, d1) :: ms) (k, y)) with (if str_eqb k n then kind_ok d1 y else entry_ok kind_ok ms (k, y)).
  destruct (str_eqb k n); [exact (H1 x y Hv H)|exact (IH k x y Hv H)].
Qed.

Lemma struct_fold_kind_valid ms : Forall (fun m : str * dtype => kind_sound (snd m)) ms ->
  forall kv acc out, forallb (entry_ok valid ms) kv = true -> forallb (entry_ok kind_ok ms) acc = true ->
  struct_fold (dt_export C) false ms kv acc = Ok out -> forallb (entry_ok kind_ok ms) out = true.
Proof.
  intros HF. induction kv as [|[k x] kv IH]; intros acc out Hv Ha H.
  - inversion H; subst. exact Ha.
  - cbn [forallb] in Hv. apply andb_prop in Hv. destruct Hv as [Hx Hv].
    rewrite struct_fold_step in H by (left; reflexivity).
    apply bind_ok in H. destruct H as (y & Hy & H).
    apply (IH (dict_set k y acc) out Hv); [|exact H].
    apply dict_set_ok; [exact Ha|]. exact (member_res_kind_valid ms HF k x y Hx Hy).
Qed.

(* ------------------------------------------------------------------ every datatype tree *)
Theorem export_kind_sound : forall d, kind_sound d.
Proof.
  induction d as [a b c d|a b|a b c| |ms|a b u|a b|e a b IHe|es IHes|ms o c IHms] using dtype_ind'; intros v j Hv H.
  - (* double: the valid value is finite *)
    destruct v; cbn [valid in_setb] in Hv; try discriminate. apply andb_prop in Hv. destruct Hv as [Ff _].
    cbn in H. inversion H; subst. exact Ff.
  - destruct v; cbn [valid in_setb] in Hv; try discriminate. cbn in H. inversion H; subst. reflexivity.
  - cbn [dt_export] in H. destruct (scaled_export_int _ _ _ H) as (k & ->). reflexivity.
  - destruct v; cbn [valid in_setb] in Hv; try discriminate. cbn in H. inversion H; subst. reflexivity.
  - cbn [dt_export] in H. destruct (enum_export_int _ _ _ H) as (z & ->). reflexivity.
  - destruct v; cbn [valid in_setb] in Hv; try discriminate. cbn in H. inversion H; subst. reflexivity.
  - destruct v; cbn [valid in_setb] in Hv; try discriminate. cbn [dt_export blob_export] in H.
    destruct (c_b64 C b0) as [s|] eqn:Eb; [|discriminate]. inversion H; subst. exact (HT b0 s Eb).
  - (* array *)
    destruct v; try discriminate. cbn [valid] in Hv. apply andb_prop in Hv. destruct Hv as [_ Hl].
    cbn [dt_export] in H. apply bind_ok in H. destruct H as (u & _ & H). cbn [py_iter] in H.
    apply bind_ok in H. destruct H as (js & Hjs & H). inversion H; subst.
    exact (map_res_kind e IHe l js Hl Hjs).
  - (* tuple *)
    destruct v; try discriminate. rewrite valid_tuple in Hv.
    cbn [dt_export] in H. apply bind_ok in H. destruct H as (u & _ & H). cbn [py_iter] in H.
    apply bind_ok in H. destruct H as (js & Hjs & H). inversion H; subst.
    rewrite kind_ok_tuple. exact (mapd_res_kind es IHes l js Hv Hjs).
  - (* struct *)
    destruct v; try discriminate. rewrite valid_struct in Hv. apply andb_prop in Hv. destruct Hv as [Hv _].
    apply andb_prop in Hv. destruct Hv as [_ H2].
    cbn [dt_export] in H. apply bind_ok in H. destruct H as (u & _ & H). cbn [is_dict negb dict_items] in H.
    apply bind_ok in H. destruct H as (out & Hout & H). inversion H; subst.
    rewrite kind_ok_struct. exact (struct_fold_kind_valid ms IHms kv [] out H2 eq_refl Hout).
Qed.

Corollary export_strict : forall d v j, valid d v = true -> dt_export C d v = Ok j -> strict_json j = true.
Proof. intros d v j Hv H. apply (kind_strict d). exact (export_kind_sound d v j Hv H). Qed.

(* within the guards of the wire round trip the export exists, hence: *)
Theorem json_kind E : forall d, num_limits_ok d = true -> scaled_grid_small d = true ->
  forall v, valid d v = true -> b64_ok E C d v = true ->
  exists j, dt_export C d v = Ok j /\ kind_ok d j = true /\ strict_json j = true.
Proof.
  intros d H1 H2 v Hv Hb. destruct (wire_roundtrip_all E C d H1 H2 v Hv Hb) as (j & _ & _ & Hj & _).
  exists j. split; [exact Hj|]. split; [exact (export_kind_sound d v j Hv Hj)|exact (export_strict d v j Hv Hj)].
Qed.

End Kind.
