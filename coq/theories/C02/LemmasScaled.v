(* C02 - the scaled leaf: for a normal positive scale s and a grid index k with |k| <= 2^51 the float fl(k*s)
   is exported as k again, round(fl(fl(k*s)/s)) = k (both roundings have relative error <= 2^-53, so the quotient is
   within k*(1 +- (2^-52 + 2^-106)), less than 1/2 away from k; for |k| = 2^51 the product is exact), and the whole
   chain export -> import -> validate returns the same number (rt_scaled).  Stated on the model's own functions.
   The guard of a scaled leaf type contains the window test of validate for its extreme grid values; it is proved from
   indices up to 2^50 (window_small) or from limits on the grid and indices up to 2^51 (window_aligned), and it is
   refuted in general between 2^50.68 and 2^51 (Refuted.v). *)
From Coq Require Import ZArith Bool Reals Lra Lia List.
From Flocq Require Import Core.Zaux Core.Raux Core.Defs Core.Generic_fmt Core.Float_prop Core.FLT Core.FLX Core.FIX
  Core.Round_NE IEEE754.BinarySingleNaN.
From Flocq Require Import Relative.
Import ListNotations.
Require Import FV.Base.Util FV.Base.F64 FV.Base.F64Lemmas FV.Base.PyVal FV.C01.Model FV.C01.Lemmas FV.C02.Model
  FV.C02.Lemmas FV.C02.LemmasNum.

Local Open Scope R_scope.

(* ------------------------------------------------------------------ round to nearest even in binary64, on R *)
Definition fexp64 := FLT_exp (-1074) 53.
Definition rnd (x : R) : R := round radix2 fexp64 ZnearestE x.
Definition fmt (x : R) : Prop := generic_format radix2 fexp64 x.

#[local] Instance p53 : Prec_gt_0 53. Proof. unfold Prec_gt_0. lia. Qed.
#[local] Instance vexp64 : Valid_exp fexp64. Proof. unfold fexp64. apply FLT_exp_valid. exact p53. Qed.

Lemma rnd_le x y : x <= y -> rnd x <= rnd y.
Proof. intros H. unfold rnd. apply round_le; auto with typeclass_instances. Qed.
Lemma rnd_fmt x : fmt x -> rnd x = x.
Proof. intros H. unfold rnd. apply round_generic; auto with typeclass_instances. Qed.
Lemma rnd_0 : rnd 0 = 0.
Proof. unfold rnd. apply round_0. auto with typeclass_instances. Qed.
Lemma fmt_B2R (x : f64) : fmt (B2R x).
Proof. exact (generic_format_B2R prec emax x). Qed.

Definition u53 : R := / 9007199254740992.

Lemma u53_bpow : / 2 * bpow radix2 (- (53) + 1) = u53.
Proof.
  change (- (53) + 1)%Z with (- (52))%Z. rewrite bpow_opp. rewrite <- (IZR_Zpower radix2 52) by lia.
  change (radix2 ^ 52)%Z with 4503599627370496%Z. unfold u53. field.
Qed.

Lemma tiny_le_one : bpow radix2 (-1022) <= / 2.
Proof. change (/ 2) with (bpow radix2 (-1)). apply bpow_le. lia. Qed.

(* relative error of one rounding in the normal range *)
Lemma rnd_rel x : bpow radix2 (-1022) <= Rabs x -> exists e, Rabs e <= u53 /\ rnd x = x * (1 + e).
Proof.
  intros H. destruct (relative_error_N_FLT_ex radix2 (-1074) 53 p53 (fun z => negb (Z.even z)) x) as (e & He & Hr).
  - exact H.
  - exists e. rewrite u53_bpow in He. split; [exact He|exact Hr].
Qed.

(* an integer of at most 53 bits is a binary64 number *)
Lemma fmt_int z : (Z.abs z <= 2 ^ 53)%Z -> fmt (IZR z).
Proof.
  intros Hz. destruct (Z.eq_dec (Z.abs z) (2 ^ 53)) as [E|N].
  - assert (Hc : IZR z = bpow radix2 53 \/ IZR z = - bpow radix2 53).
    { rewrite <- (IZR_Zpower radix2 53) by lia. change (radix2 ^ 53)%Z with (2 ^ 53)%Z. rewrite <- opp_IZR.
      destruct (Z.abs_eq_or_opp z) as [A|A]; [left|right]; f_equal; lia. }
    destruct Hc as [-> | ->]; [|apply generic_format_opp]; apply generic_format_bpow; unfold fexp64, FLT_exp; lia.
  - replace (IZR z) with (F2R (Float radix2 z 0)) by (unfold F2R; cbn; ring).
    apply generic_format_FLT. exists (Float radix2 z 0); [reflexivity| |]; cbn; lia.
Qed.

(* scaling a binary64 number by a power of two (no upper exponent bound on R) *)
Lemma fmt_scale x (e : Z) : (0 <= e)%Z -> fmt x -> fmt (x * bpow radix2 e).
Proof.
  intros He Hx. apply FLT_format_generic in Hx; [|exact p53]. destruct Hx as [f Hf Hm Hx].
  apply generic_format_FLT. exists (Float radix2 (Fnum f) (Fexp f + e)).
  - rewrite Hf. unfold F2R. cbn [Fnum Fexp]. rewrite bpow_plus. ring.
  - exact Hm.
  - cbn [Fexp]. lia.
Qed.

(* the heart: two roundings around a multiplication and a division by s keep the quotient within 1/2 of k *)
Lemma stable_R s k : fmt s -> bpow radix2 (-1022) <= s -> (Z.abs k <= 2 ^ 51)%Z ->
  Rabs (rnd (rnd (IZR k * s) / s) - IZR k) < / 2.
Proof.
  intros Fs Hs Hk. assert (Ht := tiny_le_one). assert (S0 : 0 < s) by (pose proof (bpow_gt_0 radix2 (-1022)); lra).
  destruct (Z.eq_dec k 0) as [->|K0].
  { rewrite Rmult_0_l, rnd_0. unfold Rdiv. rewrite Rmult_0_l, rnd_0, Rminus_0_r, Rabs_R0. lra. }
  destruct (Z.eq_dec (Z.abs k) (2 ^ 51)) as [E|N].
  - (* exact product *)
    assert (Fk : fmt (IZR k * s)).
    { assert (Hc : IZR k = bpow radix2 51 \/ IZR k = - bpow radix2 51).
      { rewrite <- (IZR_Zpower radix2 51) by lia. change (radix2 ^ 51)%Z with (2 ^ 51)%Z. rewrite <- opp_IZR.
        destruct (Z.abs_eq_or_opp k) as [A|A]; [left|right]; f_equal; lia. }
      destruct Hc as [-> | ->].
      - rewrite Rmult_comm. apply fmt_scale; [lia|exact Fs].
      - replace (- bpow radix2 51 * s) with (- (s * bpow radix2 51)) by ring.
        apply generic_format_opp. apply fmt_scale; [lia|exact Fs]. }
    rewrite (rnd_fmt _ Fk). replace (IZR k * s / s) with (IZR k) by (field; lra).
    rewrite (rnd_fmt _ (fmt_int k ltac:(lia))). rewrite Rminus_diag_eq by reflexivity. rewrite Rabs_R0. lra.
  - assert (K1 : 1 <= Rabs (IZR k) <= 2251799813685247).
    { rewrite <- abs_IZR. split; apply IZR_le; lia. }
    set (K := Rabs (IZR k)) in *.
    assert (U : u53 = / 9007199254740992) by reflexivity.
    assert (U0 : 0 < u53) by (rewrite U; lra).
    destruct (rnd_rel (IZR k * s)) as (e1 & He1 & R1).
    { rewrite Rabs_mult, (Rabs_pos_eq s) by lra. fold K.
      apply Rle_trans with (1 * s); [lra|]. apply Rmult_le_compat_r; lra. }
    rewrite R1. replace (IZR k * s * (1 + e1) / s) with (IZR k * (1 + e1)) by (field; lra).
    apply Rabs_le_inv in He1.
    destruct (rnd_rel (IZR k * (1 + e1))) as (e2 & He2 & R2).
    { rewrite Rabs_mult. fold K. rewrite (Rabs_pos_eq (1 + e1)) by lra.
      apply Rle_trans with (1 * (1 - u53)); [rewrite U; lra|]. apply Rmult_le_compat; lra. }
    rewrite R2. apply Rabs_le_inv in He2.
    replace (IZR k * (1 + e1) * (1 + e2) - IZR k) with (IZR k * (e1 + e2 + e1 * e2)) by ring.
    rewrite Rabs_mult. fold K.
    assert (B : Rabs (e1 + e2 + e1 * e2) <= 2 * u53 + u53 * u53).
    { apply Rabs_le. assert (P : - (u53 * u53) <= e1 * e2 <= u53 * u53).
      { apply Rabs_le_inv. rewrite Rabs_mult. apply Rmult_le_compat; try apply Rabs_pos; apply Rabs_le; lra. }
      lra. }
    apply Rle_lt_trans with (2251799813685247 * (2 * u53 + u53 * u53)).
    + apply Rmult_le_compat; try apply Rabs_pos; [lra|exact B].
    + rewrite U. lra.
Qed.

(* ------------------------------------------------------------------ the model's float operations, as numbers *)
Local Notation BIG64 := (bpow radix2 1024).

Lemma fround_nearest (y : f64) : fround y = ZnearestE (B2R y).
Proof.
  unfold fround. apply eq_IZR. rewrite Btrunc_correct.
  destruct (Bnearbyint_correct prec emax prec_lt_emax_64 mode_NE y) as (H & _). rewrite H.
  rewrite !round_FIX_IZR. rewrite (Zrnd_IZR Ztrunc). reflexivity. exact prec_lt_emax_64.
Qed.

Lemma fdiv_val (f s : f64) : fis_finite f = true -> fis_finite s = true -> B2R s <> 0 ->
  Rabs (rnd (B2R f / B2R s)) < BIG64 ->
  fis_finite (fdiv f s) = true /\ B2R (fdiv f s) = rnd (B2R f / B2R s).
Proof.
  intros Ff Fs Hs Hb. pose proof (Bdiv_correct prec emax prec_gt_0_64 prec_lt_emax_64 mode_NE f s Hs) as H.
  change (round radix2 (SpecFloat.fexp prec emax) (round_mode mode_NE) (B2R f / B2R s)) with (rnd (B2R f / B2R s)) in H.
  change (bpow radix2 emax) with BIG64 in H.
  rewrite Rlt_bool_true in H by exact Hb. destruct H as (H1 & H2 & _).
  unfold fdiv. split; [rewrite fis_finite_is_finite, H2, <- fis_finite_is_finite; exact Ff|exact H1].
Qed.

Lemma fmul_val (a b : f64) : fis_finite a = true -> fis_finite b = true ->
  Rabs (rnd (B2R a * B2R b)) < BIG64 ->
  fis_finite (fmul a b) = true /\ B2R (fmul a b) = rnd (B2R a * B2R b).
Proof.
  intros Fa Fb Hb. pose proof (Bmult_correct prec emax prec_gt_0_64 prec_lt_emax_64 mode_NE a b) as H.
  change (round radix2 (SpecFloat.fexp prec emax) (round_mode mode_NE) (B2R a * B2R b)) with (rnd (B2R a * B2R b)) in H.
  change (bpow radix2 emax) with BIG64 in H.
  rewrite Rlt_bool_true in H by exact Hb. destruct H as (H1 & H2 & _).
  unfold fmul. split; [|exact H1].
  rewrite fis_finite_is_finite in Fa, Fb. rewrite fis_finite_is_finite, H2, Fa, Fb. reflexivity.
Qed.

Lemma fmk_val m e : (Z.abs m < 2 ^ 53)%Z -> (-1074 <= e)%Z -> (e <= 971)%Z ->
  fis_finite (fmk m e) = true /\ B2R (fmk m e) = F2R (Float radix2 m e).
Proof.
  intros Hm He1 He2. pose proof (binary_normalize_correct prec emax prec_gt_0_64 prec_lt_emax_64 mode_NE m e false) as H. cbv zeta in H.
  change (round radix2 (SpecFloat.fexp prec emax) (round_mode mode_NE) (F2R (Float radix2 m e)))
    with (rnd (F2R (Float radix2 m e))) in H.
  assert (G : fmt (F2R (Float radix2 m e))).
  { apply generic_format_FLT. exists (Float radix2 m e); [reflexivity|exact Hm|exact He1]. }
  rewrite (rnd_fmt _ G) in H.
  rewrite Rlt_bool_true in H.
  - destruct H as (H1 & H2 & _). unfold fmk. rewrite fis_finite_is_finite. split; assumption.
  - apply F2R_lt_bpow. cbn [Fnum Fexp]. apply Z.lt_le_trans with (2 ^ 53)%Z; [exact Hm|].
    change (radix2 ^ (emax - e))%Z with (2 ^ (emax - e))%Z. apply Z.pow_le_mono_r; unfold emax; lia.
Qed.

Lemma of_Z_val k : (Z.abs k < 2 ^ 53)%Z -> fis_finite (of_Z k) = true /\ B2R (of_Z k) = IZR k.
Proof.
  intros Hk. destruct (fmk_val k 0 Hk ltac:(lia) ltac:(lia)) as [H1 H2]. unfold of_Z. split; [exact H1|].
  rewrite H2. unfold F2R. cbn. ring.
Qed.

(* ------------------------------------------------------------------ scales: positive, normal, at most 2^970 *)
Definition scale_ok (s : f64) : bool := fis_finite s && fle (fmk 1 (-1022)) s && fle s (fmk 1 970).

Lemma scale_ok_R s : scale_ok s = true ->
  fis_finite s = true /\ bpow radix2 (-1022) <= B2R s <= bpow radix2 970.
Proof.
  unfold scale_ok. intros H. apply andb_prop in H. destruct H as [H H3]. apply andb_prop in H. destruct H as [H1 H2].
  destruct (fmk_val 1 (-1022) ltac:(cbn; lia) ltac:(lia) ltac:(lia)) as [Fa Ba].
  destruct (fmk_val 1 970 ltac:(cbn; lia) ltac:(lia) ltac:(lia)) as [Fb Bb].
  rewrite F2R_bpow in Ba, Bb.
  apply fle_true in H2; try (apply finite_notnan; assumption).
  apply fle_true in H3; try (apply finite_notnan; assumption).
  rewrite !finite_key in * by assumption. rewrite Ba in H2. rewrite Bb in H3. auto.
Qed.

(* the number fl(k * s) *)
Definition grid (s : f64) (k : Z) : R := rnd (IZR k * B2R s).

Lemma grid_bound s k : scale_ok s = true -> (Z.abs k <= 2 ^ 51)%Z -> Rabs (grid s k) <= bpow radix2 1021.
Proof.
  intros Hs Hk. destruct (scale_ok_R s Hs) as (_ & S1 & S2). pose proof (bpow_gt_0 radix2 (-1022)) as P.
  unfold grid, rnd. apply abs_round_le_generic; auto with typeclass_instances.
  - apply generic_format_bpow. unfold fexp64, FLT_exp. lia.
  - rewrite Rabs_mult, (Rabs_pos_eq (B2R s)) by lra. change 1021%Z with (51 + 970)%Z. rewrite bpow_plus.
    apply Rmult_le_compat; [apply Rabs_pos|lra| |exact S2].
    rewrite <- abs_IZR, <- (IZR_Zpower radix2 51) by lia. apply IZR_le. exact Hk.
Qed.

Lemma lt_big x : Rabs x <= bpow radix2 1021 -> Rabs x < BIG64.
Proof. intros H. apply Rle_lt_trans with (1 := H). apply bpow_lt. lia. Qed.

(* k * scale and scale * k as the model computes them *)
Lemma grid_floats s k : scale_ok s = true -> (Z.abs k <= 2 ^ 51)%Z ->
  float_of_Z k = Some (of_Z k) /\
  fis_finite (fmul (of_Z k) s) = true /\ B2R (fmul (of_Z k) s) = grid s k /\
  fis_finite (fmul s (of_Z k)) = true /\ B2R (fmul s (of_Z k)) = grid s k.
Proof.
  intros Hs Hk. destruct (scale_ok_R s Hs) as (Fs & _).
  destruct (of_Z_val k ltac:(lia)) as [Fk Bk].
  pose proof (lt_big _ (grid_bound s k Hs Hk)) as Hb. unfold grid in Hb.
  split; [unfold float_of_Z; rewrite Fk; reflexivity|].
  destruct (fmul_val (of_Z k) s Fk Fs) as [A1 A2]; [rewrite Bk; exact Hb|].
  destruct (fmul_val s (of_Z k) Fs Fk) as [B1 B2]; [rewrite Bk, Rmult_comm; exact Hb|].
  rewrite Bk in A2, B2. rewrite (Rmult_comm (B2R s)) in B2. unfold grid. auto.
Qed.

(* export of a grid value: round(f / scale) = k *)
Theorem scaled_grid_stable s f k : scale_ok s = true -> (Z.abs k <= 2 ^ 51)%Z ->
  fis_finite f = true -> B2R f = grid s k ->
  fis_finite (fdiv f s) = true /\ fround (fdiv f s) = k.
Proof.
  intros Hs Hk Ff Bf. destruct (scale_ok_R s Hs) as (Fs & S1 & S2). pose proof (bpow_gt_0 radix2 (-1022)) as P.
  pose proof (stable_R (B2R s) k (fmt_B2R s) S1 Hk) as St. fold (grid s k) in St. rewrite <- Bf in St.
  assert (Kb : Rabs (IZR k) <= 2251799813685248).
  { rewrite <- abs_IZR. apply IZR_le. exact Hk. }
  destruct (fdiv_val f s Ff Fs) as [F1 B1]; [lra| |].
  - apply Rlt_trans with (bpow radix2 52); [|apply bpow_lt; lia].
    rewrite <- (IZR_Zpower radix2 52) by lia. change (radix2 ^ 52)%Z with 4503599627370496%Z.
    apply Rabs_lt_inv in St. apply Rabs_le_inv in Kb. apply Rabs_lt. lra.
  - split; [exact F1|]. rewrite fround_nearest, B1. apply Znearest_imp. exact St.
Qed.

(* a number between two grid values has its index between theirs *)
Lemma index_between s f k1 k2 : scale_ok s = true -> (Z.abs k1 <= 2 ^ 51)%Z -> (Z.abs k2 <= 2 ^ 51)%Z ->
  fis_finite f = true -> grid s k1 <= B2R f <= grid s k2 ->
  fis_finite (fdiv f s) = true /\ (k1 <= fround (fdiv f s) <= k2)%Z.
Proof.
  intros Hs H1 H2 Ff [L1 L2]. destruct (scale_ok_R s Hs) as (Fs & S1 & S2). pose proof (bpow_gt_0 radix2 (-1022)) as P.
  pose proof (stable_R (B2R s) k1 (fmt_B2R s) S1 H1) as St1. fold (grid s k1) in St1.
  pose proof (stable_R (B2R s) k2 (fmt_B2R s) S1 H2) as St2. fold (grid s k2) in St2.
  assert (I0 : 0 < / B2R s) by (apply Rinv_0_lt_compat; lra).
  assert (M1 : rnd (grid s k1 / B2R s) <= rnd (B2R f / B2R s)).
  { apply rnd_le. unfold Rdiv. apply Rmult_le_compat_r; lra. }
  assert (M2 : rnd (B2R f / B2R s) <= rnd (grid s k2 / B2R s)).
  { apply rnd_le. unfold Rdiv. apply Rmult_le_compat_r; lra. }
  set (z := rnd (B2R f / B2R s)) in *.
  apply Rabs_lt_inv in St1. apply Rabs_lt_inv in St2.
  assert (Kb1 : Rabs (IZR k1) <= 2251799813685248) by (rewrite <- abs_IZR; apply IZR_le; exact H1).
  assert (Kb2 : Rabs (IZR k2) <= 2251799813685248) by (rewrite <- abs_IZR; apply IZR_le; exact H2).
  apply Rabs_le_inv in Kb1. apply Rabs_le_inv in Kb2.
  destruct (fdiv_val f s Ff Fs) as [F1 B1]; [lra| |].
  - apply Rlt_trans with (bpow radix2 52); [|apply bpow_lt; lia].
    rewrite <- (IZR_Zpower radix2 52) by lia. change (radix2 ^ 52)%Z with 4503599627370496%Z.
    fold z. apply Rabs_lt. lra.
  - split; [exact F1|]. rewrite fround_nearest, B1. fold z.
    pose proof (Znearest_half (fun x => negb (Z.even x)) z) as Hh. apply Rabs_le_inv in Hh.
    change (Znearest (fun x => negb (Z.even x)) z) with (ZnearestE z) in Hh.
    split.
    + assert (IZR k1 - 1 < IZR (ZnearestE z)) by lra. rewrite <- minus_IZR in H. apply lt_IZR in H. lia.
    + assert (IZR (ZnearestE z) < IZR k2 + 1) by lra. rewrite <- plus_IZR in H. apply lt_IZR in H. lia.
Qed.

(* ------------------------------------------------------------------ the scaled leaf type *)
(* the grid index of a limit, as __call__ computes it: round((x + 0.0) / scale) *)
Definition scaled_k (s x : f64) : Z := fround (fdiv (fadd x fzero) s).

(* guard of a scaled leaf type: the scale is a positive normal number not above 2^970, the grid indices of both limits
   are at most 2^51 in magnitude, and the lowest and the highest grid value pass the window test of validate
   (min - scale < value < max + scale; implied by the index bound when the limits lie on the grid, see the notes) *)
Definition scaled_leaf_small (s mn mx : f64) : bool :=
  scale_ok s && (Z.abs (scaled_k s mn) <=? 2 ^ 51)%Z && (Z.abs (scaled_k s mx) <=? 2 ^ 51)%Z &&
  match scaled_call s (PFloat mn), scaled_call s (PFloat mx) with
  | Ok (PFloat lo), Ok (PFloat hi) => flt (fsub mn s) lo && flt hi (fadd mx s)
  | _, _ => false
  end.

Lemma finite_flags (a : f64) : fis_finite a = true -> fis_nan a = false /\ fis_inf a = false.
Proof. destruct a; cbn; try discriminate; auto. Qed.

Lemma scaled_call_shape s x lo : scaled_call s (PFloat x) = Ok (PFloat lo) -> lo = fmul (of_Z (scaled_k s x)) s.
Proof.
  unfold scaled_call, scaled_k. cbn [py_add0 wrap_wrong]. unfold py_round.
  destruct (fis_nan _); [discriminate|]. destruct (fis_inf _); [discriminate|].
  unfold py_int_mul_float, float_of_Z. destruct (fis_finite (of_Z _)); cbn; intros H; inversion H. reflexivity.
Qed.

(* __call__ of a grid value returns k * scale *)
Lemma scaled_call_grid s f k : scale_ok s = true -> (Z.abs k <= 2 ^ 51)%Z -> fis_finite f = true -> B2R f = grid s k ->
  scaled_call s (PFloat f) = Ok (PFloat (fmul (of_Z k) s)).
Proof.
  intros Hs Hk Ff Bf. destruct (fadd_zero f Ff) as [F0 B0]. rewrite Bf in B0.
  destruct (scaled_grid_stable s _ k Hs Hk F0 B0) as [Fq Hq]. destruct (finite_flags _ Fq) as [N I].
  destruct (grid_floats s k Hs Hk) as (Hz & _).
  unfold scaled_call. cbn [py_add0 wrap_wrong]. unfold py_round. rewrite N, I, Hq.
  unfold py_int_mul_float. rewrite Hz. reflexivity.
Qed.

Lemma finite_between (lo f hi : f64) : fis_finite lo = true -> fis_finite hi = true ->
  fle lo f = true -> fle f hi = true -> fis_finite f = true /\ B2R lo <= B2R f <= B2R hi.
Proof.
  intros Fl Fh L1 L2. destruct (fle_true_notnan _ _ L1) as [Nl Nf]. destruct (fle_true_notnan _ _ L2) as [_ Nh].
  apply fle_true in L1; auto. apply fle_true in L2; auto.
  pose proof (finite_key_bound lo) as Kl. rewrite <- fis_finite_is_finite in Kl. specialize (Kl Fl).
  pose proof (finite_key_bound hi) as Kh. rewrite <- fis_finite_is_finite in Kh. specialize (Kh Fh).
  rewrite (finite_key _ Fl) in *. rewrite (finite_key _ Fh) in *.
  destruct f as [b|[|]| |b m e B]; try discriminate; cbn [key] in L1, L2; cbn [fis_finite]; try (split; [reflexivity|lra]);
    exfalso; lra.
Qed.

Lemma feq_finite_R (a b : f64) : fis_finite a = true -> fis_finite b = true -> feq a b = true -> B2R a = B2R b.
Proof.
  intros Fa Fb. rewrite fis_finite_is_finite in Fa, Fb. unfold feq. rewrite (Beqb_correct prec emax a b Fa Fb).
  case Req_bool_spec; [auto|discriminate].
Qed.

Lemma feq_finite_l (a b : f64) : fis_finite b = true -> feq a b = true -> fis_finite a = true.
Proof.
  destruct a as [x|x| |x m e B]; try reflexivity; destruct b as [y|y| |y m' e' B']; cbn; try discriminate;
    destruct x; discriminate.
Qed.

(* export_value of a grid value *)
Lemma scaled_export_grid s k kf f : scale_ok s = true -> (Z.abs k <= 2 ^ 51)%Z ->
  float_of_Z k = Some kf -> feq f (fmul kf s) = true -> scaled_export s (PFloat f) = Ok (PInt k).
Proof.
  intros Hs Hk Hz He. destruct (grid_floats s k Hs Hk) as (Hz' & Fr & Br & _).
  rewrite Hz in Hz'. inversion Hz'. subst kf.
  pose proof (feq_finite_l _ _ Fr He) as Ff. pose proof (feq_finite_R _ _ Ff Fr He) as Bf. rewrite Br in Bf.
  destruct (scaled_grid_stable s f k Hs Hk Ff Bf) as [Fq Hq]. destruct (finite_flags _ Fq) as [N I].
  unfold scaled_export. cbn [py_div_scale bind]. unfold py_round. rewrite N, I, Hq. reflexivity.
Qed.

Theorem rt_scaled E C s mn mx : scaled_leaf_small s mn mx = true -> num_rt E C (TScaled s mn mx).
Proof.
  intros G v Hv. unfold scaled_leaf_small in G.
  apply andb_prop in G. destruct G as [G W]. apply andb_prop in G. destruct G as [G K2].
  apply andb_prop in G. destruct G as [Hs K1]. apply Z.leb_le in K1. apply Z.leb_le in K2.
  destruct v; cbn [valid in_setb] in Hv; try discriminate.
  apply andb_prop in Hv. destruct Hv as [Hv Hg].
  destruct (scaled_call s (PFloat mn)) as [[| | | lo | | | | | | |]|] eqn:Hlo; try discriminate.
  destruct (scaled_call s (PFloat mx)) as [[| | | hi | | | | | | |]|] eqn:Hhi; try discriminate.
  apply andb_prop in Hv. destruct Hv as [L1 L2]. apply andb_prop in W. destruct W as [W1 W2].
  pose proof (scaled_call_shape _ _ _ Hlo) as Elo. pose proof (scaled_call_shape _ _ _ Hhi) as Ehi.
  set (kmin := scaled_k s mn) in *. set (kmax := scaled_k s mx) in *.
  destruct (grid_floats s kmin Hs K1) as (_ & Flo & Blo & _). rewrite <- Elo in Flo, Blo.
  destruct (grid_floats s kmax Hs K2) as (_ & Fhi & Bhi & _). rewrite <- Ehi in Fhi, Bhi.
  destruct (finite_between lo f hi Flo Fhi L1 L2) as [Ff Bf]. rewrite Blo, Bhi in Bf.
  destruct (index_between s f kmin kmax Hs K1 K2 Ff Bf) as [Fq Kq].
  set (k := fround (fdiv f s)) in *.
  assert (Hk : (Z.abs k <= 2 ^ 51)%Z) by lia.
  destruct (grid_floats s k Hs Hk) as (Hz & Fr & Br & Fw & Bw).
  unfold on_grid in Hg. fold k in Hg. rewrite Hz in Hg.
  pose proof (feq_finite_R _ _ Fr Ff Hg) as Efr. rewrite Br in Efr. symmetry in Efr.
  destruct (finite_flags _ Fq) as [Nq Iq].
  (* export, import *)
  exists (PInt k), (PFloat (fmul s (of_Z k))), (PFloat (fmul (of_Z k) s)).
  cbn [dt_export dt_import dt_validate]. unfold scaled_export. cbn [py_div_scale bind]. unfold py_round.
  rewrite Nq, Iq. fold k. cbn [bind]. split; [reflexivity|].
  unfold scaled_import. cbn [bind]. rewrite Hz. cbn [wrap_wrong]. split; [reflexivity|].
  (* validate *)
  unfold scaled_validate. rewrite (scaled_call_grid s _ k Hs Hk Fw Bw). cbn [f_lt_num num_lt_f].
  pose proof (finite_notnan _ Flo) as Nlo. pose proof (finite_notnan _ Fhi) as Nhi.
  pose proof (finite_notnan _ Fw) as Nw. pose proof (finite_notnan _ Fr) as Nr.
  destruct (flt_true_notnan _ _ W1) as [Na _]. destruct (flt_true_notnan _ _ W2) as [_ Nb].
  apply flt_true in W1; auto. apply flt_true in W2; auto.
  rewrite (finite_key _ Flo) in W1. rewrite (finite_key _ Fhi) in W2.
  assert (T1 : flt (fsub mn s) (fmul s (of_Z k)) = true).
  { apply flt_true; auto. rewrite (finite_key _ Fw), Bw. lra. }
  assert (T2 : flt (fmul s (of_Z k)) (fadd mx s) = true).
  { apply flt_true; auto. rewrite (finite_key _ Fw), Bw. lra. }
  rewrite T1, T2. cbn [andb]. rewrite Hlo, Hhi.
  destruct (fclamp_between lo (fmul (of_Z k) s) hi Nlo Nr Nhi) as (_ & _ & Hcl).
  { apply fle_true; auto. rewrite (finite_key _ Flo), (finite_key _ Fhi). lra. }
  rewrite Hcl.
  - split; [reflexivity|]. split; [|discriminate]. constructor.
    apply feq_same_number; auto. rewrite Br. exact Efr.
  - apply fle_true; auto. rewrite (finite_key _ Flo), (finite_key _ Fr), Br. lra.
  - apply fle_true; auto. rewrite (finite_key _ Fhi), (finite_key _ Fr), Br. lra.
Qed.

(* ------------------------------------------------------------------ the window test for indices up to 2^50 *)
Definition eta : R := bpow radix2 (-1075).

Lemma rnd_err x : Rabs (rnd x - x) <= u53 * Rabs x + eta.
Proof.
  destruct (error_N_FLT radix2 (-1074) 53 ltac:(lia) (fun z => negb (Z.even z)) x) as (e & h & He & Hh & _ & Hr).
  rewrite u53_bpow in He. unfold rnd, fexp64. change ZnearestE with (Znearest (fun z => negb (Z.even z))). rewrite Hr.
  replace (x * (1 + e) + h - x) with (e * x + h) by ring.
  eapply Rle_trans; [apply Rabs_triang|]. rewrite Rabs_mult. apply Rplus_le_compat.
  - apply Rmult_le_compat_r; [apply Rabs_pos|exact He].
  - unfold eta. change (-1075)%Z with (-1 + -1074)%Z. rewrite bpow_plus. exact Hh.
Qed.

Lemma eta_small s : bpow radix2 (-1022) <= s -> 0 < eta /\ eta <= u53 * s /\ eta <= u53.
Proof.
  intros Hs. unfold eta. split; [apply bpow_gt_0|].
  assert (U : u53 = bpow radix2 (-53)).
  { unfold u53. change (-53)%Z with (- (53))%Z. rewrite bpow_opp. rewrite <- (IZR_Zpower radix2 53) by lia. reflexivity. }
  rewrite U. split.
  - change (-1075)%Z with (-53 + -1022)%Z. rewrite bpow_plus. apply Rmult_le_compat_l; [apply bpow_ge_0|exact Hs].
  - apply bpow_le. lia.
Qed.

Lemma window_R s x k : bpow radix2 (-1022) <= s ->
  Rabs (IZR k - rnd (x / s)) <= / 2 -> Rabs (IZR k) <= 1125899906842624 ->
  rnd (x - s) < rnd (IZR k * s) < rnd (x + s).
Proof.
  intros Hs Hk Kb. pose proof (bpow_gt_0 radix2 (-1022)) as P. assert (S0 : 0 < s) by lra.
  destruct (eta_small s Hs) as (E0 & E1 & E2).
  assert (U : u53 = / 9007199254740992) by reflexivity.
  set (qa := rnd (x / s)) in *.
  assert (Hx : Rabs (x / s) = Rabs x / s).
  { unfold Rdiv. rewrite Rabs_mult, Rabs_inv, (Rabs_pos_eq s) by lra. reflexivity. }
  assert (H1 : Rabs (qa * s - x) <= u53 * Rabs x + u53 * s).
  { replace (qa * s - x) with (s * (qa - x / s)) by (field; lra).
    rewrite Rabs_mult, (Rabs_pos_eq s) by lra.
    pose proof (rnd_err (x / s)) as He. fold qa in He. rewrite Hx in He.
    apply Rle_trans with (s * (u53 * (Rabs x / s) + eta)).
    - apply Rmult_le_compat_l; lra.
    - replace (s * (u53 * (Rabs x / s) + eta)) with (u53 * Rabs x + eta * s) by (field; lra).
      apply Rplus_le_compat_l. apply Rmult_le_compat_r; lra. }
  assert (H2 : Rabs (IZR k * s - qa * s) <= s / 2).
  { replace (IZR k * s - qa * s) with (s * (IZR k - qa)) by ring.
    rewrite Rabs_mult, (Rabs_pos_eq s) by lra. unfold Rdiv. apply Rmult_le_compat_l; lra. }
  assert (H3 : Rabs (IZR k * s) <= 1125899906842624 * s).
  { rewrite Rabs_mult, (Rabs_pos_eq s) by lra. apply Rmult_le_compat_r; lra. }
  pose proof (rnd_err (IZR k * s)) as H4. pose proof (rnd_err (x - s)) as H5. pose proof (rnd_err (x + s)) as H6.
  set (a := qa * s) in *. set (b := IZR k * s) in *.
  rewrite U in *.
  apply Rabs_le_inv in H1. apply Rabs_le_inv in H2. apply Rabs_le_inv in H4. apply Rabs_le_inv in H5.
  apply Rabs_le_inv in H6. clear Hk Kb Hx.
  unfold Rabs in *.
  destruct (Rcase_abs x); destruct (Rcase_abs b); destruct (Rcase_abs (x - s)); destruct (Rcase_abs (x + s)); lra.
Qed.

Lemma fsub_val (a b : f64) : fis_finite a = true -> fis_finite b = true ->
  Rabs (rnd (B2R a - B2R b)) < BIG64 ->
  fis_finite (fsub a b) = true /\ B2R (fsub a b) = rnd (B2R a - B2R b).
Proof.
  intros Fa Fb Hb. rewrite fis_finite_is_finite in Fa, Fb.
  pose proof (Bminus_correct prec emax prec_gt_0_64 prec_lt_emax_64 mode_NE a b Fa Fb) as H.
  change (round radix2 (SpecFloat.fexp prec emax) (round_mode mode_NE) (B2R a - B2R b)) with (rnd (B2R a - B2R b)) in H.
  change (bpow radix2 emax) with BIG64 in H.
  rewrite Rlt_bool_true in H by exact Hb. destruct H as (H1 & H2 & _).
  unfold fsub. rewrite fis_finite_is_finite. split; assumption.
Qed.

Lemma fadd_val (a b : f64) : fis_finite a = true -> fis_finite b = true ->
  Rabs (rnd (B2R a + B2R b)) < BIG64 ->
  fis_finite (fadd a b) = true /\ B2R (fadd a b) = rnd (B2R a + B2R b).
Proof.
  intros Fa Fb Hb. rewrite fis_finite_is_finite in Fa, Fb.
  pose proof (Bplus_correct prec emax prec_gt_0_64 prec_lt_emax_64 mode_NE a b Fa Fb) as H.
  change (round radix2 (SpecFloat.fexp prec emax) (round_mode mode_NE) (B2R a + B2R b)) with (rnd (B2R a + B2R b)) in H.
  change (bpow radix2 emax) with BIG64 in H.
  rewrite Rlt_bool_true in H by exact Hb. destruct H as (H1 & H2 & _).
  unfold fadd. rewrite fis_finite_is_finite. split; assumption.
Qed.

Lemma fdiv_finite_val (f s : f64) : fis_finite f = true -> fis_finite s = true -> B2R s <> 0 ->
  fis_finite (fdiv f s) = true -> B2R (fdiv f s) = rnd (B2R f / B2R s).
Proof.
  intros Ff Fs Hs Fq. pose proof (Bdiv_correct prec emax prec_gt_0_64 prec_lt_emax_64 mode_NE f s Hs) as H.
  change (round radix2 (SpecFloat.fexp prec emax) (round_mode mode_NE) (B2R f / B2R s)) with (rnd (B2R f / B2R s)) in H.
  destruct (Rlt_bool _ _).
  - apply H.
  - rewrite overflow_NE in H. unfold fdiv in Fq. rewrite (B2SF_inf_not_finite _ _ H) in Fq. discriminate.
Qed.

Lemma flags_finite (a : f64) : fis_nan a = false -> fis_inf a = false -> fis_finite a = true.
Proof. destruct a; cbn; try discriminate; auto. Qed.

Lemma fmt_bpow e : (-1074 <= e)%Z -> fmt (bpow radix2 e).
Proof. intros He. apply generic_format_bpow. unfold fexp64, FLT_exp. lia. Qed.

(* the window test of validate holds for the value __call__ makes of any finite x whose index is at most 2^50 *)
Lemma window_small s x lo : scale_ok s = true -> fis_finite x = true ->
  scaled_call s (PFloat x) = Ok (PFloat lo) -> (Z.abs (scaled_k s x) <= 2 ^ 50)%Z ->
  flt (fsub x s) lo = true /\ flt lo (fadd x s) = true.
Proof.
  intros Hs Fx Hc Hk. destruct (scale_ok_R s Hs) as (Fs & S1 & S2). pose proof (bpow_gt_0 radix2 (-1022)) as P.
  pose proof (scaled_call_shape _ _ _ Hc) as Elo.
  destruct (fadd_zero x Fx) as [F0 B0].
  unfold scaled_call in Hc. cbn [py_add0 wrap_wrong] in Hc. unfold py_round in Hc.
  destruct (fis_nan (fdiv (fadd x fzero) s)) eqn:N; [discriminate|].
  destruct (fis_inf (fdiv (fadd x fzero) s)) eqn:I; [discriminate|]. clear Hc.
  pose proof (flags_finite _ N I) as Fq.
  pose proof (fdiv_finite_val _ s F0 Fs ltac:(lra) Fq) as Bq. rewrite B0 in Bq.
  set (k := scaled_k s x) in *.
  assert (Ek : k = ZnearestE (rnd (B2R x / B2R s))).
  { unfold k, scaled_k. rewrite fround_nearest, Bq. reflexivity. }
  assert (Hh : Rabs (IZR k - rnd (B2R x / B2R s)) <= / 2).
  { rewrite Ek, Rabs_minus_sym. apply Znearest_half. }
  assert (Kb : Rabs (IZR k) <= 1125899906842624).
  { rewrite <- abs_IZR. apply IZR_le. exact Hk. }
  destruct (window_R (B2R s) (B2R x) k S1 Hh Kb) as [W1 W2].
  assert (Hk' : (Z.abs k <= 2 ^ 51)%Z) by lia.
  destruct (grid_floats s k Hs Hk') as (_ & Flo & Blo & _). rewrite <- Elo in Flo, Blo. unfold grid in Blo.
  pose proof (grid_bound s k Hs Hk') as Gb. unfold grid in Gb. apply Rabs_le_inv in Gb.
  assert (B970 : bpow radix2 970 * 2 <= bpow radix2 1021).
  { change 2 with (bpow radix2 1). rewrite <- bpow_plus. apply bpow_le. lia. }
  assert (B1022 : bpow radix2 1021 * 2 = bpow radix2 1022).
  { change 2 with (bpow radix2 1). rewrite <- bpow_plus. reflexivity. }
  assert (Lx : - bpow radix2 1021 <= B2R x + B2R s).
  { destruct (Rle_lt_dec (- bpow radix2 1021) (B2R x + B2R s)) as [H|H]; [exact H|exfalso].
    assert (rnd (B2R x + B2R s) <= - bpow radix2 1021).
    { rewrite <- (rnd_fmt (- bpow radix2 1021)) by (apply generic_format_opp, fmt_bpow; lia). apply rnd_le. lra. }
    lra. }
  assert (Ux : B2R x - B2R s <= bpow radix2 1021).
  { destruct (Rle_lt_dec (B2R x - B2R s) (bpow radix2 1021)) as [H|H]; [exact H|exfalso].
    assert (bpow radix2 1021 <= rnd (B2R x - B2R s)).
    { rewrite <- (rnd_fmt (bpow radix2 1021)) at 1 by (apply fmt_bpow; lia). apply rnd_le. lra. }
    lra. }
  assert (R1 : Rabs (rnd (B2R x - B2R s)) <= bpow radix2 1022).
  { unfold rnd. apply abs_round_le_generic; auto with typeclass_instances; [apply fmt_bpow; lia|]. apply Rabs_le. lra. }
  assert (R2 : Rabs (rnd (B2R x + B2R s)) <= bpow radix2 1022).
  { unfold rnd. apply abs_round_le_generic; auto with typeclass_instances; [apply fmt_bpow; lia|]. apply Rabs_le. lra. }
  assert (Lt : bpow radix2 1022 < BIG64) by (apply bpow_lt; lia).
  destruct (fsub_val x s Fx Fs) as [Fa Ba]; [lra|]. destruct (fadd_val x s Fx Fs) as [Fb Bb]; [lra|].
  split; apply flt_true; try (apply finite_notnan; assumption); rewrite !finite_key by assumption; lra.
Qed.

(* ------------------------------------------------------------------ the window test for limits on the grid, indices up to 2^51 *)
Lemma window_R_aligned s k : bpow radix2 (-1022) <= s -> Rabs (IZR k) <= 2251799813685248 ->
  rnd (rnd (IZR k * s) - s) < rnd (IZR k * s) < rnd (rnd (IZR k * s) + s).
Proof.
  intros Hs Kb. pose proof (bpow_gt_0 radix2 (-1022)) as P. assert (S0 : 0 < s) by lra.
  destruct (eta_small s Hs) as (E0 & E1 & E2).
  assert (U : u53 = / 9007199254740992) by reflexivity.
  assert (H3 : Rabs (IZR k * s) <= 2251799813685248 * s).
  { rewrite Rabs_mult, (Rabs_pos_eq s) by lra. apply Rmult_le_compat_r; lra. }
  pose proof (rnd_err (IZR k * s)) as H4. set (g := rnd (IZR k * s)) in *.
  pose proof (rnd_err (g - s)) as H5. pose proof (rnd_err (g + s)) as H6.
  set (b := IZR k * s) in *. rewrite U in *.
  apply Rabs_le_inv in H4. apply Rabs_le_inv in H5. apply Rabs_le_inv in H6. clear Kb.
  unfold Rabs in *.
  destruct (Rcase_abs b); destruct (Rcase_abs (g - s)); destruct (Rcase_abs (g + s)); lra.
Qed.

Lemma window_aligned s x k lo : scale_ok s = true -> fis_finite x = true -> (Z.abs k <= 2 ^ 51)%Z ->
  B2R x = grid s k -> scaled_call s (PFloat x) = Ok (PFloat lo) ->
  flt (fsub x s) lo = true /\ flt lo (fadd x s) = true.
Proof.
  intros Hs Fx Hk Bx Hc. destruct (scale_ok_R s Hs) as (Fs & S1 & S2). pose proof (bpow_gt_0 radix2 (-1022)) as P.
  rewrite (scaled_call_grid s x k Hs Hk Fx Bx) in Hc. inversion Hc. subst lo. clear Hc.
  destruct (grid_floats s k Hs Hk) as (_ & Flo & Blo & _).
  assert (Kb : Rabs (IZR k) <= 2251799813685248).
  { rewrite <- abs_IZR. apply IZR_le. exact Hk. }
  destruct (window_R_aligned (B2R s) k S1 Kb) as [W1 W2]. fold (grid s k) in W1, W2. rewrite <- Bx in W1, W2.
  pose proof (grid_bound s k Hs Hk) as Gb. rewrite <- Bx in Gb. apply Rabs_le_inv in Gb.
  assert (B970 : bpow radix2 970 * 2 <= bpow radix2 1021).
  { change 2 with (bpow radix2 1). rewrite <- bpow_plus. apply bpow_le. lia. }
  assert (B1022 : bpow radix2 1021 * 2 = bpow radix2 1022).
  { change 2 with (bpow radix2 1). rewrite <- bpow_plus. reflexivity. }
  assert (R1 : Rabs (rnd (B2R x - B2R s)) <= bpow radix2 1022).
  { unfold rnd. apply abs_round_le_generic; auto with typeclass_instances; [apply fmt_bpow; lia|]. apply Rabs_le. lra. }
  assert (R2 : Rabs (rnd (B2R x + B2R s)) <= bpow radix2 1022).
  { unfold rnd. apply abs_round_le_generic; auto with typeclass_instances; [apply fmt_bpow; lia|]. apply Rabs_le. lra. }
  assert (Lt : bpow radix2 1022 < BIG64) by (apply bpow_lt; lia).
  destruct (fsub_val x s Fx Fs) as [Fa Ba]; [lra|]. destruct (fadd_val x s Fx Fs) as [Fb Bb]; [lra|].
  split; apply flt_true; try (apply finite_notnan; assumption); rewrite !finite_key by assumption; rewrite Blo, <- Bx; lra.
Qed.

(* ------------------------------------------------------------------ the round trip, every numeric leaf discharged *)
Local Close Scope R_scope.

(* a simpler sufficient guard: indices up to 2^50, whatever the limits are *)
Definition scaled_leaf_simple (s mn mx : f64) : bool :=
  scale_ok s && fis_finite mn && fis_finite mx &&
  (Z.abs (scaled_k s mn) <=? 2 ^ 50)%Z && (Z.abs (scaled_k s mx) <=? 2 ^ 50)%Z &&
  match scaled_call s (PFloat mn), scaled_call s (PFloat mx) with
  | Ok (PFloat _), Ok (PFloat _) => true
  | _, _ => false
  end.

Theorem scaled_leaf_simple_small s mn mx : scaled_leaf_simple s mn mx = true -> scaled_leaf_small s mn mx = true.
Proof.
  unfold scaled_leaf_simple, scaled_leaf_small. intros H.
  apply andb_prop in H. destruct H as [H W]. apply andb_prop in H. destruct H as [H K2].
  apply andb_prop in H. destruct H as [H K1]. apply andb_prop in H. destruct H as [H F2].
  apply andb_prop in H. destruct H as [Hs F1].
  destruct (scaled_call s (PFloat mn)) as [[| | | lo | | | | | | |]|] eqn:Hlo; try discriminate.
  destruct (scaled_call s (PFloat mx)) as [[| | | hi | | | | | | |]|] eqn:Hhi; try discriminate.
  pose proof K1 as K1'. pose proof K2 as K2'. apply Z.leb_le in K1'. apply Z.leb_le in K2'.
  destruct (window_small s mn lo Hs F1 Hlo K1') as [A _]. destruct (window_small s mx hi Hs F2 Hhi K2') as [_ B].
  rewrite Hs, A, B. cbn [andb].
  assert (E1 : (Z.abs (scaled_k s mn) <=? 2 ^ 51)%Z = true) by (apply Z.leb_le; lia).
  assert (E2 : (Z.abs (scaled_k s mx) <=? 2 ^ 51)%Z = true) by (apply Z.leb_le; lia).
  rewrite E1, E2. reflexivity.
Qed.



(* limits that are grid values with indices up to 2^51 (what every client side type has): also sufficient *)
Definition scaled_leaf_aligned (s mn mx : f64) : bool :=
  scale_ok s && fis_finite mn && fis_finite mx &&
  (Z.abs (scaled_k s mn) <=? 2 ^ 51)%Z && (Z.abs (scaled_k s mx) <=? 2 ^ 51)%Z &&
  match float_of_Z (scaled_k s mn), float_of_Z (scaled_k s mx) with
  | Some a, Some b => feq (fmul a s) mn && feq (fmul b s) mx
  | _, _ => false
  end.

Theorem scaled_leaf_aligned_small s mn mx : scaled_leaf_aligned s mn mx = true -> scaled_leaf_small s mn mx = true.
Proof.
  unfold scaled_leaf_aligned, scaled_leaf_small. intros H.
  apply andb_prop in H. destruct H as [H W]. apply andb_prop in H. destruct H as [H K2].
  apply andb_prop in H. destruct H as [H K1]. apply andb_prop in H. destruct H as [H F2].
  apply andb_prop in H. destruct H as [Hs F1].
  pose proof K1 as K1'. pose proof K2 as K2'. apply Z.leb_le in K1'. apply Z.leb_le in K2'.
  destruct (grid_floats s _ Hs K1') as (Z1 & Fl & Bl & _). destruct (grid_floats s _ Hs K2') as (Z2 & Fh & Bh & _).
  rewrite Z1, Z2 in W. apply andb_prop in W. destruct W as [E1 E2].
  pose proof (feq_finite_R _ _ Fl F1 E1) as B1. pose proof (feq_finite_R _ _ Fh F2 E2) as B2.
  rewrite Bl in B1. rewrite Bh in B2. symmetry in B1, B2.
  pose proof (scaled_call_grid s mn _ Hs K1' F1 B1) as C1. pose proof (scaled_call_grid s mx _ Hs K2' F2 B2) as C2.
  rewrite C1, C2.
  destruct (window_aligned s mn _ _ Hs F1 K1' B1 C1) as [A _]. destruct (window_aligned s mx _ _ Hs F2 K2' B2 C2) as [_ B].
  rewrite Hs, K1, K2, A, B. reflexivity.
Qed.

(* what the constructors guarantee of double and int leaf types: limits and resolution are finite floats, int limits
   lie within +-UNLIMITED = 2^64 *)
Definition limits_okb (d : dtype) : bool :=
  match d with
  | TFloat mn mx _ r => fis_finite mn && fis_finite mx && fis_finite r
  | TInt mn mx => (- 2 ^ 64 <=? mn)%Z && (mx <=? 2 ^ 64)%Z
  | _ => true
  end.
Definition scaled_okb (d : dtype) : bool :=
  match d with TScaled s mn mx => scaled_leaf_small s mn mx | _ => true end.

(* p holds of every numeric leaf type of the tree *)
Fixpoint leavesb (p : dtype -> bool) (d : dtype) {struct d} : bool :=
  match d with
  | TFloat _ _ _ _ | TInt _ _ | TScaled _ _ _ => p d
  | TArray e _ _ => leavesb p e
  | TTuple es => forallb (leavesb p) es
  | TStruct ms _ _ => forallb (fun m => leavesb p (snd m)) ms
  | _ => true
  end.

Definition num_limits_ok (d : dtype) : bool := leavesb limits_okb d.
Definition scaled_grid_small (d : dtype) : bool := leavesb scaled_okb d.

Lemma guards_num_rt E C : forall d, num_limits_ok d = true -> scaled_grid_small d = true -> num_leaves (num_rt E C) d.
Proof.
  unfold num_limits_ok, scaled_grid_small.
  induction d as [a b c d|a b|a b c| |ms|a b u|a b|e a b IHe|es IHes|ms o c IHms] using dtype_ind'; intros H1 H2;
    try exact I.
  - cbn in H1. apply andb_prop in H1. destruct H1 as [H1 H3]. apply andb_prop in H1. destruct H1 as [H1 H4].
    apply rt_float; assumption.
  - cbn in H1. apply andb_prop in H1. destruct H1 as [H1 H3]. apply Z.leb_le in H1. apply Z.leb_le in H3.
    apply rt_int; assumption.
  - apply rt_scaled. exact H2.
  - apply IHe; assumption.
  - apply num_leaves_tuple. cbn [leavesb] in H1, H2.
    induction es as [|x es IH]; constructor; inversion IHes; subst; cbn in H1, H2;
      apply andb_prop in H1; apply andb_prop in H2; destruct H1, H2; auto.
  - apply num_leaves_struct. cbn [leavesb] in H1, H2.
    induction ms as [|x ms IH]; constructor; inversion IHms; subst; cbn in H1, H2;
      apply andb_prop in H1; apply andb_prop in H2; destruct H1, H2; auto.
Qed.

Theorem wire_roundtrip_all E C :
  forall d, num_limits_ok d = true -> scaled_grid_small d = true ->
  forall v, valid d v = true -> b64_ok E C d v = true -> rt E C d v.
Proof. intros d H1 H2. apply wire_roundtrip. apply guards_num_rt; assumption. Qed.

Theorem setparam_roundtrip_all C E d t w :
  num_limits_ok d = true -> scaled_grid_small d = true ->
  from_string C d t = Ok w -> valid d w = true -> b64_ok E C d w = true ->
  exists v', set_from_string C E d d t = Ok v' /\ py_eq w v'.
Proof. intros H1 H2. apply setparam_roundtrip. apply guards_num_rt; assumption. Qed.

(* simpler guards on trees: every scaled leaf has indices up to 2^50, or limits on the grid and indices up to 2^51;
   they imply scaled_grid_small *)
Definition scaled_easy_okb (d : dtype) : bool :=
  match d with TScaled s mn mx => scaled_leaf_simple s mn mx || scaled_leaf_aligned s mn mx | _ => true end.
Definition scaled_grid_easy (d : dtype) : bool := leavesb scaled_easy_okb d.

Lemma leavesb_imp (p q : dtype -> bool) : (forall d, p d = true -> q d = true) ->
  forall d, leavesb p d = true -> leavesb q d = true.
Proof.
  intros Hpq. induction d as [a b c d|a b|a b c| |ms|a b u|a b|e a b IHe|es IHes|ms o c IHms] using dtype_ind';
    cbn [leavesb]; intros H; try reflexivity; try (apply Hpq; exact H).
  - apply IHe, H.
  - induction es as [|x es IH]; [reflexivity|]. inversion IHes; subst. cbn in *. apply andb_prop in H. destruct H.
    apply andb_true_intro. split; auto.
  - induction ms as [|x ms IH]; [reflexivity|]. inversion IHms; subst. cbn in *. apply andb_prop in H. destruct H.
    apply andb_true_intro. split; auto.
Qed.

Theorem scaled_grid_easy_small d : scaled_grid_easy d = true -> scaled_grid_small d = true.
Proof.
  apply leavesb_imp. intros [a b c e|a b|s mn mx| |ms|a b u|a b|e a b|es|ms o c]; cbn; auto.
  intros H. apply orb_prop in H. destruct H as [H|H]; [apply scaled_leaf_simple_small|apply scaled_leaf_aligned_small]; exact H.
Qed.
