(* C02 - correspondence driver: one case = one datatype, one valid value, and everything the implementation did
   with it (export, JSON round trip, import on node and client, text forms, setParameterFromString). *)
From Coq Require Import ZArith NArith Bool List.
Import ListNotations.
Require Import FV.Base.Util FV.Base.F64 FV.Base.PyVal FV.C01.Model FV.C02.Model.

(* CPython library behaviour tabulated by the harness for the atoms of the case *)
Record tables := {
  t_b64 : list (str * str);
  t_fmt : list (f64 * str);
  t_repr : list (pyval * str);
  t_lit : list (str * pyval);
}.

Fixpoint lookup_by {A B} (eqb : A -> A -> bool) (k : A) (l : list (A * B)) : option B :=
  match l with [] => None | (k', v) :: r => if eqb k k' then Some v else lookup_by eqb k r end.

Definition codec_of (T : tables) : codec :=
  {| c_b64 := fun b => lookup_by str_eqb b (t_b64 T);
     c_fmt := fun f => lookup_by fsame f (t_fmt T);
     c_repr := fun v => lookup_by pv_same v (t_repr T);
     c_lit := fun s => lookup_by str_eqb s (t_lit T) |}.

Record case := {
  c_env : pyenv;
  c_tab : tables;
  c_d : dtype;                       (* the node's datatype *)
  c_dc : option dtype;               (* the client's datatype as really rebuilt; None = the rebuild raised *)
  c_side : bool;                     (* true: the client type exports (setParameter); false: the node exports (update) *)
  c_v : pyval;                       (* a valid value of the exporting type *)
  c_exp : res pyval;                 (* export_value(v) *)
  c_j2 : option pyval;               (* json.loads(json.dumps(exported)) *)
  c_wire : option (res pyval);       (* node: validate(import_value(j2)) *)
  c_cimp : option (res pyval);       (* client: import_value(j2) *)
  c_text : res str;                  (* to_string(v) *)
  c_back : option (res pyval);       (* from_string(text) *)
  c_text2 : option (res str);        (* to_string(from_string(text)) *)
  c_set : option (res pyval);        (* setParameterFromString(str(CacheItem)) as received and validated by the node *)
}.

Definition res_str_same (a b : res str) : bool :=
  match a, b with
  | Ok x, Ok y => str_eqb x y
  | Err e, Err e' => exc_eqb e e'
  | _, _ => false
  end.

Definition opt_res_same (m : res pyval) (o : option (res pyval)) : bool :=
  match o with Some r => res_same m r | None => false end.

Definition rendered (r : res ptree) : res str := match r with Ok t => Ok (render t) | Err e => Err e end.

Record model_out := {
  m_dc : res dtype;
  m_exp : res pyval;
  m_wire : option (res pyval);
  m_cimp : option (res pyval);
  m_text : res str;
  m_back : option (res pyval);
  m_text2 : option (res str);
  m_set : option (res pyval);
}.

Definition model_result (c : case) : model_out :=
  let C := codec_of (c_tab c) in
  let E := c_env c in
  let d := c_d c in
  let dcm := client_of d in
  let dc := match c_dc c with Some o => o | None => d end in
  let dx := if c_side c then dc else d in
  let ex := dt_export C dx (c_v c) in
  let tx := to_string C dx (c_v c) in
  let bk := match tx with Ok t => Some (from_string C dx t) | Err _ => None end in
  {| m_dc := dcm;
     m_exp := ex;
     m_wire := match ex with Ok j => Some (wire E d j PNone) | Err _ => None end;
     m_cimp := match ex with Ok j => Some (dt_import E dc j) | Err _ => None end;
     m_text := rendered tx;
     m_back := bk;
     m_text2 := match bk with Some (Ok w) => Some (rendered (to_string C dx w)) | _ => None end;
     m_set := match ex with
              | Ok j => match dt_import E dc j with
                        | Ok w => match to_string C dc w with
                                  | Ok t => Some (set_from_string C E dc d t)
                                  | Err _ => None
                                  end
                        | Err _ => None
                        end
              | Err _ => None
              end |}.

Definition opt_same {A} (same : A -> A -> bool) (a b : option A) : bool :=
  match a, b with
  | Some x, Some y => same x y
  | None, None => true
  | _, _ => false
  end.

Definition check_case (c : case) : bool :=
  let m := model_result c in
  match m_dc m, c_dc c with
  | Ok dc, Some o => dtype_eqb dc o
  | Ok _, None => false
  | Err _, _ => true
  end
  && res_same (m_exp m) (c_exp c)
  (* the exported form of the model has the JSON kind prescribed for the type and is strict JSON *)
  && match m_exp m with
     | Ok j => kind_ok (if c_side c then match c_dc c with Some o => o | None => c_d c end else c_d c) j && strict_json j
     | Err _ => true
     end
  && match c_exp c, c_j2 c with Ok j, Some j2 => pv_same j j2 | Ok _, None => false | Err _, _ => true end
  && opt_same res_same (m_wire m) (c_wire c)
  && opt_same res_same (m_cimp m) (c_cimp c)
  && res_str_same (m_text m) (c_text c)
  && opt_same res_same (m_back m) (c_back c)
  && opt_same res_str_same (m_text2 m) (c_text2 c)
  && opt_same res_same (m_set m) (c_set c).
