(* C02 - named list combinators and the equations that rewrite the anonymous loops of the models
   (dt_call / dt_validate / dt_import of C01, dt_export / to_tree / client_of of C02) into them. *)
From Coq Require Import ZArith NArith Bool List Lia.
Import ListNotations.
Require Import FV.Base.Util FV.Base.F64 FV.Base.PyVal FV.C01.Model FV.C02.Model.

Lemma dtype_ind' (P : dtype -> Prop) :
  (forall a b c d, P (TFloat a b c d)) -> (forall a b, P (TInt a b)) -> (forall a b c, P (TScaled a b c)) ->
  P TBool -> (forall ms, P (TEnum ms)) -> (forall a b u, P (TString a b u)) -> (forall a b, P (TBlob a b)) ->
  (forall e a b, P e -> P (TArray e a b)) ->
  (forall l, Forall P l -> P (TTuple l)) ->
  (forall ms o c, Forall (fun p => P (snd p)) ms -> P (TStruct ms o c)) ->
  forall d, P d.
Proof.
  intros Hf Hi Hs Hb He Hst Hbl Ha Ht Hstr.
  fix IH 1. intros [a b c d|a b|a b c| |ms|a b u|a b|e a b|l|ms o c];
    [apply Hf|apply Hi|apply Hs|apply Hb|apply He|apply Hst|apply Hbl| | |].
  - apply Ha, IH.
  - apply Ht. induction l as [|x l IHl]; constructor; [apply IH|exact IHl].
  - apply Hstr. induction ms as [|[n x] ms IHms]; constructor; [apply IH|exact IHms].
Qed.

(* ------------------------------------------------------------------ combinators *)
Section Comb.
Context {A B : Type}.

Fixpoint map_res (F : A -> res B) (l : list A) : res (list B) :=
  match l with
  | [] => Ok []
  | x :: r => F x >>= fun y => map_res F r >>= fun ys => Ok (y :: ys)
  end.

Fixpoint zip_res {D} (F : D -> A -> res B) (ds : list D) (l : list A) : res (list B) :=
  match ds, l with
  | d1 :: ds', x :: r => F d1 x >>= fun y => zip_res F ds' r >>= fun ys => Ok (y :: ys)
  | _, _ => Ok []
  end.

Lemma map_res_ok F l ys : map_res F l = Ok ys <-> Forall2 (fun x y => F x = Ok y) l ys.
Proof.
  revert ys; induction l as [|x l IH]; intros ys; cbn.
  - split; intros H. inversion H; constructor. inversion H; reflexivity.
  - destruct (F x) as [y|e] eqn:Ex; cbn.
    + destruct (map_res F l) as [zs|e] eqn:El; cbn.
      * split; intros H.
        -- inversion H; subst. constructor; [exact Ex|]. apply IH. reflexivity.
        -- inversion H; subst. rewrite Ex in H2. inversion H2; subst. apply IH in H4. inversion H4; subst. reflexivity.
      * split; intros H; [discriminate|]. inversion H; subst. apply IH in H4. discriminate.
    + split; intros H; [discriminate|]. inversion H; subst. rewrite Ex in H2. discriminate.
Qed.

Lemma zip_res_ok {D} (F : D -> A -> res B) ds l ys : length ds = length l ->
  (zip_res F ds l = Ok ys <-> Forall2 (fun p y => F (fst p) (snd p) = Ok y) (combine ds l) ys).
Proof.
  revert l ys; induction ds as [|d1 ds IH]; intros [|x l] ys Hlen; cbn in *; try discriminate.
  - split; intros H. inversion H; constructor. inversion H; reflexivity.
  - injection Hlen as Hlen.
    destruct (F d1 x) as [y|e] eqn:Ex; cbn.
    + destruct (zip_res F ds l) as [zs|e] eqn:El; cbn.
      * split; intros H.
        -- inversion H; subst. constructor; [exact Ex|]. apply (IH l zs Hlen). exact El.
        -- inversion H as [|p y' l0 l' H2 H4]; subst. cbn in H2. rewrite Ex in H2.
           apply (IH l _ Hlen) in H4. rewrite El in H4. congruence.
      * split; intros H; [discriminate|]. inversion H as [|p y' l0 l' H2 H4]; subst.
        apply (IH l _ Hlen) in H4. rewrite El in H4. discriminate.
    + split; intros H; [discriminate|]. inversion H as [|p y' l0 l' H2 H4]; subst. cbn in H2. rewrite Ex in H2. discriminate.
Qed.

End Comb.

(* the loop over the items of a struct value: look the member type up, convert, store *)
Fixpoint find_member {T} (k : str) (ms : list (str * T)) : option T :=
  match ms with [] => None | (n, d1) :: r => if str_eqb k n then Some d1 else find_member k r end.

Fixpoint struct_loop (F : dtype -> pyval -> res pyval) (ms : list (str * dtype)) (skip_none : bool)
  (kv acc : list (str * pyval)) : res (list (str * pyval)) :=
  match kv with
  | [] => Ok acc
  | (k, x) :: r =>
      if skip_none && match x with PNone => true | _ => false end then struct_loop F ms skip_none r acc
      else match find_member k ms with
           | None => Err EKey
           | Some d1 => F d1 x >>= fun y => struct_loop F ms skip_none r (dict_set k y acc)
           end
  end.

(* ------------------------------------------------------------------ equations *)
Section Eq.
Variable E : pyenv.
Variable C : codec.

Lemma dt_export_array e a b v :
  dt_export C (TArray e a b) v =
  array_check a b v >>= fun _ =>
  match py_iter v with
  | None => Err EType
  | Some items => map_res (dt_export C e) items >>= fun ys => Ok (PList ys)
  end.
Proof.
  cbn. destruct (array_check a b v); cbn; [|reflexivity]. destruct (py_iter v) as [items|]; [|reflexivity].
  f_equal. induction items as [|x r IH]; cbn; [reflexivity|]. rewrite IH. reflexivity.
Qed.

Lemma dt_export_tuple ds v :
  dt_export C (TTuple ds) v =
  tuple_check (length ds) v >>= fun _ =>
  match py_iter v with
  | None => Err EType
  | Some items => zip_res (dt_export C) ds items >>= fun ys => Ok (PList ys)
  end.
Proof.
  cbn. destruct (tuple_check (length ds) v); cbn; [|reflexivity]. destruct (py_iter v) as [items|]; [|reflexivity].
  f_equal. revert items. induction ds as [|d1 ds IH]; intros [|x r]; cbn; try reflexivity. rewrite IH. reflexivity.
Qed.

Lemma dt_export_struct ms o c v :
  dt_export C (TStruct ms o c) v =
  struct_check (map fst ms) o c false v >>= fun _ =>
  if negb (is_dict v) then Err EAttr
  else struct_loop (dt_export C) ms false (dict_items v) [] >>= fun kv => Ok (PDict kv).
Proof.
  cbn. destruct (struct_check (map fst ms) o c false v); cbn; [|reflexivity]. destruct (negb (is_dict v)); [reflexivity|].
  f_equal. generalize (@nil (str * pyval)) as acc. induction (dict_items v) as [|[k x] r IH]; intros acc; cbn; [reflexivity|].
  assert (Hf : forall l,
    (fix find (ms0 : list (str * dtype)) : res (list (str * pyval)) :=
       match ms0 with
       | [] => Err EKey
       | (n, d1) :: ms' =>
           if str_eqb k n
           then dt_export C d1 x >>= fun y =>
                (fix go (kv : list (str * pyval)) (acc0 : list (str * pyval)) {struct kv} : res (list (str * pyval)) :=
                   match kv with
                   | [] => Ok acc0
                   | (k0, x0) :: r0 =>
                       (fix find0 (ms1 : list (str * dtype)) : res (list (str * pyval)) :=
                          match ms1 with
                          | [] => Err EKey
                          | (n0, d2) :: ms'0 =>
                              if str_eqb k0 n0 then dt_export C d2 x0 >>= fun y0 => go r0 (dict_set k0 y0 acc0)
                              else find0 ms'0
                          end) ms
                   end) r (dict_set k y acc)
           else find ms'
       end) l =
    match find_member k l with
    | None => Err EKey
    | Some d1 => dt_export C d1 x >>= fun y => struct_loop (dt_export C) ms false r (dict_set k y acc)
    end).
  { induction l as [|[n d1] l IHl]; [reflexivity|]. cbn. destruct (str_eqb k n); [|apply IHl].
    destruct (dt_export C d1 x); cbn; [apply IH|reflexivity]. }
  apply Hf.
Qed.


Ltac find_eq F skip k x r acc IH :=
  match goal with |- (?find ?ms) = _ =>
    let Hf := fresh "Hf" in
    assert (Hf : forall l, find l = match find_member k l with
                                    | None => Err EKey
                                    | Some d1 => F d1 x >>= fun y => struct_loop F ms skip r (dict_set k y acc)
                                    end);
    [ let l := fresh "l" in
      induction l as [|[? ?] ? ?];
      [ reflexivity
      | cbn; destruct (str_eqb k _); [|assumption];
        match goal with |- (?t >>= _) = _ => destruct t; cbn; [apply IH|reflexivity] end ]
    | apply Hf ]
  end.

Lemma dt_import_array e a b v :
  dt_import E (TArray e a b) v =
  match py_iter v with
  | None => Err EType
  | Some items => map_res (dt_import E e) items >>= fun ys => Ok (PTuple ys)
  end.
Proof.
  cbn. destruct (py_iter v) as [items|]; [|reflexivity].
  f_equal. induction items as [|x r IH]; cbn; [reflexivity|]. rewrite IH. reflexivity.
Qed.

Lemma dt_import_tuple ds v :
  dt_import E (TTuple ds) v =
  match py_iter v with
  | None => Err EType
  | Some items => zip_res (dt_import E) ds items >>= fun ys => Ok (PTuple ys)
  end.
Proof.
  cbn. destruct (py_iter v) as [items|]; [|reflexivity].
  f_equal. revert items. induction ds as [|d1 ds IH]; intros [|x r]; cbn; try reflexivity. rewrite IH. reflexivity.
Qed.

Lemma dt_import_struct ms o c v :
  dt_import E (TStruct ms o c) v =
  struct_check (map fst ms) o c true v >>= fun _ =>
  if negb (is_dict v) then Err EAttr
  else struct_loop (dt_import E) ms false (dict_items v) [] >>= fun kv => Ok (PDict kv).
Proof.
  cbn. destruct (struct_check (map fst ms) o c true v); cbn; [|reflexivity]. destruct (negb (is_dict v)); [reflexivity|].
  f_equal. generalize (@nil (str * pyval)) as acc. induction (dict_items v) as [|[k x] r IH]; intros acc; cbn; [reflexivity|].
  find_eq (dt_import E) false k x r acc IH.
Qed.

Definition validate0 (d : dtype) (v : pyval) : res pyval := dt_validate d v PNone.

Lemma dt_validate_array e a b v :
  dt_validate (TArray e a b) v PNone =
  array_check a b v >>= fun _ =>
  match py_iter v with
  | None => Err EWrongType
  | Some items => wrap_elem (map_res (validate0 e) items) >>= fun ys => Ok (PTuple ys)
  end.
Proof.
  cbn. destruct (array_check a b v); cbn; [|reflexivity]. destruct (py_iter v) as [items|]; [|reflexivity].
  f_equal. f_equal. induction items as [|x r IH]; cbn; [reflexivity|]. unfold validate0 at 1. rewrite IH. reflexivity.
Qed.

Lemma dt_validate_tuple ds v :
  dt_validate (TTuple ds) v PNone =
  tuple_check (length ds) v >>= fun _ =>
  match py_iter v with
  | None => Err EWrongType
  | Some items => wrap_elem (zip_res validate0 ds items) >>= fun ys => Ok (PTuple ys)
  end.
Proof.
  cbn. destruct (tuple_check (length ds) v); cbn; [|reflexivity]. destruct (py_iter v) as [items|]; [|reflexivity].
  f_equal. f_equal. revert items. induction ds as [|d1 ds IH]; intros [|x r]; cbn; try reflexivity.
  unfold validate0 at 1. rewrite IH. reflexivity.
Qed.

Lemma dt_validate_struct ms o c v :
  dt_validate (TStruct ms o c) v PNone =
  struct_check (map fst ms) o c true v >>= fun _ =>
  if negb (is_dict v) then Err EOther
  else wrap_elem (struct_loop validate0 ms true (dict_items v) []) >>= fun kv => Ok (PDict kv).
Proof.
  cbn. destruct (struct_check (map fst ms) o c true v); cbn; [|reflexivity]. destruct (negb (is_dict v)); [reflexivity|].
  f_equal. f_equal. generalize (@nil (str * pyval)) as acc.
  induction (dict_items v) as [|[k x] r IH]; intros acc; [reflexivity|].
  destruct x; cbn; try apply IH; find_eq validate0 true k ltac:(match goal with |- context [dict_set k _ _] => idtac end; exact PNone) r acc IH.
Qed.

End Eq.
