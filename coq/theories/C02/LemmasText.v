(* C02 - the text encoding: format_value(unit=False) / to_string followed by from_string gives a value with the identical
   text form, equal to the original on every non-float leaf.  Tree-level grammar of Model.v (the text itself is [render]
   of the tree); CPython's repr, the percent-g format and ast.literal_eval of atoms enter as the codec C with the laws
   stated as Section hypotheses.  Excluded by the boolean guard [text_ok]: -0.0 (finding float-negzero-text), scaled
   values whose six digit text denotes a number that is re-gridded to a different text (finding scaled-text-regrid),
   structs lacking optional members on a node side type (from_string is __call__ there), enum names with surrounding
   white space or duplicates. *)
From Coq Require Import ZArith NArith Bool List Lia.
Import ListNotations.
Require Import FV.Base.Util FV.Base.F64 FV.Base.F64Lemmas FV.Base.PyVal FV.C01.Model FV.C01.Lemmas FV.C02.Model
  FV.C02.Lemmas FV.C02.LemmasNum FV.C02.LemmasScaled.

(* ------------------------------------------------------------------ equality except on float leaves *)
Definition member_type (k : str) : list (str * dtype) -> option dtype :=
  fix find (ms : list (str * dtype)) : option dtype :=
    match ms with
    | [] => None
    | (n, d1) :: ms' => if str_eqb k n then Some d1 else find ms'
    end.

(* python == on every leaf that is not a double or scaled leaf, same shape everywhere *)
Inductive eq_nf : dtype -> pyval -> pyval -> Prop :=
| EN_float mn mx a r f g : eq_nf (TFloat mn mx a r) (PFloat f) (PFloat g)
| EN_scaled s mn mx f g : eq_nf (TScaled s mn mx) (PFloat f) (PFloat g)
| EN_int mn mx z : eq_nf (TInt mn mx) (PInt z) (PInt z)
| EN_bool b : eq_nf TBool (PBool b) (PBool b)
| EN_enum ms n z : eq_nf (TEnum ms) (PEnum n z) (PEnum n z)
| EN_string a b u s : eq_nf (TString a b u) (PStr s) (PStr s)
| EN_blob a b s : eq_nf (TBlob a b) (PBytes s) (PBytes s)
| EN_array e a b l l' : Forall2 (eq_nf e) l l' -> eq_nf (TArray e a b) (PTuple l) (PTuple l')
| EN_tuple es l l' : eq_nfs es l l' -> eq_nf (TTuple es) (PTuple l) (PTuple l')
| EN_struct ms o c kv kw :
    Forall2 (fun p q => fst p = fst q /\ exists d1, member_type (fst p) ms = Some d1 /\ eq_nf d1 (snd p) (snd q)) kv kw ->
    eq_nf (TStruct ms o c) (PDict kv) (PDict kw)
with eq_nfs : list dtype -> list pyval -> list pyval -> Prop :=
| ENS_nil : eq_nfs [] [] []
| ENS_cons d ds x y l l' : eq_nf d x y -> eq_nfs ds l l' -> eq_nfs (d :: ds) (x :: l) (y :: l').

Definition enum_names_ok (ms : list (str * Z)) : bool :=
  forallb (fun m => str_eqb (strip (fst m)) (fst m)) ms && keys_nodup (map fst ms).

Section TextLaws.
Variable C : codec.

(* the six digit text of a scaled value, read back and put on the grid again, prints the same *)
Definition scaled_text_ok (s f : f64) : bool :=
  match c_fmt C f with
  | Some t =>
      match c_lit C t with
      | Some n =>
          match scaled_call s n with
          | Ok (PFloat g) => match c_fmt C g with Some t' => str_eqb t t' | None => false end
          | _ => false
          end
      | None => false
      end
  | None => false
  end.

(* the guard of the text round trip, on a type and one of its values *)
Fixpoint text_ok (d : dtype) (v : pyval) {struct d} : bool :=
  match d, v with
  | TFloat _ _ _ _, PFloat f => negb (fsame f fnegzero)
  | TScaled s _ _, PFloat f => scaled_text_ok s f
  | TEnum ms, _ => enum_names_ok ms
  | TArray e _ _, PTuple l => forallb (text_ok e) l
  | TTuple es, PTuple l =>
      (fix go (ds : list dtype) (l : list pyval) : bool :=
         match ds, l with
         | [], [] => true
         | d1 :: ds', x :: r => text_ok d1 x && go ds' r
         | _, _ => false
         end) es l
  | TStruct ms _ client, PDict kv =>
      (client || forallb (fun n => mem_str n (map fst kv)) (map fst ms)) &&
      forallb (fun p : str * pyval =>
                 (fix find (ms : list (str * dtype)) : bool :=
                    match ms with
                    | [] => false
                    | (n, d1) :: ms' => if str_eqb (fst p) n then text_ok d1 (snd p) else find ms'
                    end) ms) kv
  | _, _ => true
  end.

Lemma text_ok_tuple es l : text_ok (TTuple es) (PTuple l) = all2 text_ok es l.
Proof.
  cbn [text_ok]. revert l. induction es as [|d1 es IH]; destruct l as [|x l]; cbn; try reflexivity.
  rewrite IH. reflexivity.
Qed.
Lemma text_ok_struct ms o c kv : text_ok (TStruct ms o c) (PDict kv) =
  (c || forallb (fun n => mem_str n (map fst kv)) (map fst ms)) && forallb (entry_ok text_ok ms) kv.
Proof. reflexivity. Qed.

(* ---------------------------------------------------------------- laws of CPython (hypotheses on the codec) *)
(* literal_eval(repr(x)) == x for int, bool, str, bytes; repr(True) and repr(False) are the words True and False *)
Hypothesis L_int : forall z s, c_repr C (PInt z) = Some s -> c_lit C s = Some (PInt z).
Hypothesis L_bool : forall b s, c_repr C (PBool b) = Some s -> c_lit C s = Some (PBool b).
Hypothesis L_true : forall s, c_repr C (PBool true) = Some s -> s = [84; 114; 117; 101]%N.
Hypothesis L_false : forall s, c_repr C (PBool false) = Some s -> s = [70; 97; 108; 115; 101]%N.
Hypothesis L_str : forall x s, c_repr C (PStr x) = Some s -> c_lit C s = Some (PStr x).
Hypothesis L_bytes : forall x s, c_repr C (PBytes x) = Some s -> c_lit C s = Some (PBytes x).
(* the percent-g text of a finite float other than -0.0 is a literal denoting a number n, n + 0.0 is a finite float and
   its percent-g text is the same text *)
Hypothesis L_float : forall f s, fis_finite f = true -> fsame f fnegzero = false -> c_fmt C f = Some s ->
  exists n g, c_lit C s = Some n /\ py_add0 n = Ok g /\ fis_finite g = true /\ c_fmt C g = Some s.

(* ---------------------------------------------------------------- the generic path: literal_eval, then __call__ *)
Definition gen_ok (d : dtype) : Prop := forall v t,
  valid d v = true -> text_ok d v = true -> to_tree C d v = Ok t ->
  exists n w, lit_eval C t = Some n /\ n <> PNone /\ dt_call d n = Ok w /\ to_tree C d w = Ok t /\ eq_nf d v w.

Lemma atom_inv o t : atom o = Ok t -> exists s, o = Some s /\ t = PA s.
Proof. destruct o as [s|]; cbn; intros H; inversion H. eauto. Qed.

Lemma gen_float mn mx a r : gen_ok (TFloat mn mx a r).
Proof.
  intros v t Hv Hg Ht. destruct v; cbn [valid] in Hv; try discriminate.
  apply andb_prop in Hv. destruct Hv as [Ff _]. cbn [text_ok] in Hg. apply negb_true_iff in Hg.
  cbn [to_tree] in Ht. destruct (atom_inv _ _ Ht) as (s & Hs & ->).
  destruct (L_float f s Ff Hg Hs) as (n & g & H1 & H2 & H3 & H4).
  exists n, (PFloat g). cbn [lit_eval]. split; [exact H1|]. split; [intros ->; discriminate|].
  cbn [dt_call]. unfold float_call. rewrite H2. cbn [wrap_wrong]. rewrite (clamp_fmax g H3).
  split; [reflexivity|]. cbn [to_tree]. rewrite H4. split; [reflexivity|constructor].
Qed.

Lemma gen_scaled s mn mx : gen_ok (TScaled s mn mx).
Proof.
  intros v t Hv Hg Ht. destruct v; cbn [valid in_setb] in Hv; try discriminate.
  cbn [text_ok] in Hg. unfold scaled_text_ok in Hg. cbn [to_tree] in Ht.
  destruct (atom_inv _ _ Ht) as (s0 & Hs & ->). rewrite Hs in Hg.
  destruct (c_lit C s0) as [n|] eqn:Hn; [|discriminate].
  destruct (scaled_call s n) as [[| | | g | | | | | | |]|] eqn:Hc; try discriminate.
  destruct (c_fmt C g) as [t'|] eqn:Hg'; [|discriminate]. apply str_eqb_eq in Hg. subst t'.
  exists n, (PFloat g). cbn [lit_eval]. split; [exact Hn|]. split; [intros ->; discriminate|].
  cbn [dt_call]. split; [exact Hc|]. cbn [to_tree]. rewrite Hg'. split; [reflexivity|constructor].
Qed.

Lemma gen_int mn mx : (- 2 ^ 64 <= mn)%Z -> (mx <= 2 ^ 64)%Z -> gen_ok (TInt mn mx).
Proof.
  intros Hmn Hmx v t Hv _ Ht. destruct v; cbn [valid in_setb] in Hv; try discriminate.
  apply andb_prop in Hv. destruct Hv as [H1 H2]. apply Z.leb_le in H1. apply Z.leb_le in H2.
  cbn [to_tree] in Ht. destruct (atom_inv _ _ Ht) as (s & Hs & ->).
  exists (PInt z), (PInt z). cbn [lit_eval]. split; [exact (L_int z s Hs)|]. split; [discriminate|].
  cbn [dt_call]. rewrite (int_call_exact z (of_Z_small_finite z ltac:(lia))).
  split; [reflexivity|]. cbn [to_tree]. rewrite Hs. split; [reflexivity|constructor].
Qed.

Lemma gen_bool : gen_ok TBool.
Proof.
  intros v t Hv _ Ht. destruct v; cbn [valid in_setb] in Hv; try discriminate.
  cbn [to_tree] in Ht. destruct (atom_inv _ _ Ht) as (s & Hs & ->).
  exists (PBool b), (PBool b). cbn [lit_eval]. split; [exact (L_bool b s Hs)|]. split; [discriminate|].
  cbn [dt_call bool_call]. split; [reflexivity|]. cbn [to_tree]. rewrite Hs. split; [reflexivity|constructor].
Qed.

Lemma mem_str_names n z ms :
  existsb (fun p : str * Z => str_eqb n (fst p) && Z.eqb z (snd p)) ms = true -> mem_str n (map fst ms) = true.
Proof.
  induction ms as [|[n1 z1] ms IH]; cbn; [discriminate|]. intros H. apply orb_prop in H. destruct H as [H|H].
  - apply andb_prop in H. destruct H as [H _]. rewrite H. reflexivity.
  - rewrite (IH H). apply orb_true_r.
Qed.

Lemma enum_by_name_found n z ms : keys_nodup (map fst ms) = true ->
  existsb (fun p : str * Z => str_eqb n (fst p) && Z.eqb z (snd p)) ms = true -> enum_by_name n ms = Some (n, z).
Proof.
  induction ms as [|[n1 z1] ms IH]; cbn; [discriminate|]. intros Hn H.
  apply andb_prop in Hn. destruct Hn as [Hf Hn]. apply negb_true_iff in Hf.
  destruct (str_eqb n n1) eqn:E.
  - apply str_eqb_eq in E. subst n1. cbn in H. destruct (Z.eqb z z1) eqn:Ez.
    + apply Z.eqb_eq in Ez. subst. reflexivity.
    + cbn in H. apply mem_str_names in H. congruence.
  - cbn in H. apply IH; assumption.
Qed.

Lemma gen_enum ms : gen_ok (TEnum ms).
Proof.
  intros v t Hv Hg Ht. destruct v as [| | | | | | | | |n v|]; cbn [valid in_setb] in Hv; try discriminate.
  cbn [text_ok] in Hg. unfold enum_names_ok in Hg. apply andb_prop in Hg. destruct Hg as [_ Hg].
  cbn [to_tree] in Ht. destruct (atom_inv _ _ Ht) as (s & Hs & ->).
  exists (PStr n), (PEnum n v). cbn [lit_eval]. split; [exact (L_str n s Hs)|]. split; [discriminate|].
  cbn [dt_call enum_call]. rewrite (enum_by_name_found n v ms Hg Hv).
  split; [reflexivity|]. cbn [to_tree]. rewrite Hs. split; [reflexivity|constructor].
Qed.

Lemma gen_string a b u : gen_ok (TString a b u).
Proof.
  intros v t Hv _ Ht. destruct v; cbn [valid in_setb] in Hv; try discriminate.
  cbn [to_tree] in Ht. destruct (atom_inv _ _ Ht) as (r & Hs & ->).
  exists (PStr s), (PStr s). cbn [lit_eval]. split; [exact (L_str s r Hs)|]. split; [discriminate|].
  cbn [dt_call]. rewrite (string_call_ok _ _ _ _ Hv).
  split; [reflexivity|]. cbn [to_tree]. rewrite Hs. split; [reflexivity|constructor].
Qed.

Lemma blob_call_ok a b s : (a <=? Z.of_nat (length s))%Z && (Z.of_nat (length s) <=? b)%Z = true ->
  blob_call a b (PBytes s) = Ok (PBytes s).
Proof.
  intros H. apply andb_prop in H. destruct H as [Ha Hb]. unfold blob_call. rewrite !Z.ltb_antisym, Ha, Hb. reflexivity.
Qed.

Lemma gen_blob a b : gen_ok (TBlob a b).
Proof.
  intros v t Hv _ Ht. destruct v; cbn [valid in_setb] in Hv; try discriminate.
  cbn [to_tree] in Ht. destruct (atom_inv _ _ Ht) as (r & Hs & ->).
  exists (PBytes b0), (PBytes b0). cbn [lit_eval]. split; [exact (L_bytes b0 r Hs)|]. split; [discriminate|].
  cbn [dt_call]. rewrite (blob_call_ok _ _ _ Hv).
  split; [reflexivity|]. cbn [to_tree]. rewrite Hs. split; [reflexivity|constructor].
Qed.

(* ---------------------------------------------------------------- arrays *)
Definition tree_list (f : pyval -> res ptree) : list pyval -> res (list ptree) :=
  fix go (l : list pyval) : res (list ptree) :=
    match l with
    | [] => Ok []
    | x :: r => f x >>= fun y => go r >>= fun ys => Ok (y :: ys)
    end.
Lemma tree_list_cons f x r : tree_list f (x :: r) = (f x >>= fun y => tree_list f r >>= fun ys => Ok (y :: ys)).
Proof. reflexivity. Qed.
Lemma to_tree_array e a b v : to_tree C (TArray e a b) v =
  match py_iter v with None => Err EType | Some items => tree_list (to_tree C e) items >>= fun ts => Ok (PL ts) end.
Proof. reflexivity. Qed.

Lemma list_chain e : gen_ok e -> forall l, forallb (valid e) l = true -> forallb (text_ok e) l = true ->
  forall ts, tree_list (to_tree C e) l = Ok ts ->
  exists ns ws, all_some (map (lit_eval C) ts) = Some ns /\ map_res (dt_call e) ns = Ok ws /\
    tree_list (to_tree C e) ws = Ok ts /\ Forall2 (eq_nf e) l ws /\ length ns = length l.
Proof.
  intros IH. induction l as [|x l IHl]; intros Hv Hg ts Ht.
  - cbn in Ht. inversion Ht. exists [], []. cbn. repeat split; constructor.
  - cbn in Hv, Hg. apply andb_prop in Hv. destruct Hv as [Hx Hl]. apply andb_prop in Hg. destruct Hg as [Gx Gl].
    rewrite tree_list_cons in Ht. destruct (to_tree C e x) as [y|] eqn:Ex; [|discriminate]. cbn [bind] in Ht.
    destruct (tree_list (to_tree C e) l) as [ys|] eqn:El; [|discriminate]. cbn in Ht. inversion Ht. subst ts.
    destruct (IH x y Hx Gx Ex) as (n & w & A1 & _ & A3 & A4 & A5).
    destruct (IHl Hl Gl ys eq_refl) as (ns & ws & B1 & B2 & B3 & B4 & B5).
    exists (n :: ns), (w :: ws). cbn [map all_some]. rewrite A1, B1. rewrite map_res_cons, A3, B2. cbn [bind].
    rewrite tree_list_cons, A4, B3. cbn. repeat split; [constructor; assumption|congruence].
Qed.

Lemma gen_array e a b : gen_ok e -> gen_ok (TArray e a b).
Proof.
  intros IH v t Hv Hg Ht. destruct v; cbn [valid] in Hv; try discriminate.
  apply andb_prop in Hv. destruct Hv as [Hv Hl]. apply andb_prop in Hv. destruct Hv as [H1 H2].
  cbn [text_ok] in Hg. rewrite to_tree_array in Ht. cbn [py_iter] in Ht.
  destruct (tree_list (to_tree C e) l) as [ts|] eqn:El; [|discriminate]. cbn in Ht. inversion Ht. subst t.
  destruct (list_chain e IH l Hl Hg ts El) as (ns & ws & B1 & B2 & B3 & B4 & B5).
  exists (PList ns), (PTuple ws). cbn [lit_eval]. rewrite B1. split; [reflexivity|]. split; [discriminate|].
  cbn [dt_call]. rewrite array_check_len_list by (rewrite B5; assumption). cbn [bind py_iter]. rewrite B2.
  cbn [wrap_elem bind]. split; [reflexivity|]. rewrite to_tree_array. cbn [py_iter]. rewrite B3.
  split; [reflexivity|constructor; exact B4].
Qed.

(* ---------------------------------------------------------------- tuples *)
Definition tree_zip (f : dtype -> pyval -> res ptree) : list dtype -> list pyval -> res (list ptree) :=
  fix go (ds : list dtype) (l : list pyval) : res (list ptree) :=
    match ds, l with
    | d1 :: ds', x :: r => f d1 x >>= fun y => go ds' r >>= fun ys => Ok (y :: ys)
    | _, _ => Ok []
    end.
Definition tuple_tree (ts : list ptree) : ptree := match ts with [t] => PT1 t | _ => PP ts end.
Lemma tree_zip_cons f d1 ds x r :
  tree_zip f (d1 :: ds) (x :: r) = (f d1 x >>= fun y => tree_zip f ds r >>= fun ys => Ok (y :: ys)).
Proof. reflexivity. Qed.
Lemma to_tree_tuple es v : to_tree C (TTuple es) v =
  match py_iter v with None => Err EType | Some items => tree_zip (to_tree C) es items >>= fun ts => Ok (tuple_tree ts) end.
Proof. reflexivity. Qed.

Lemma lit_eval_tuple_tree ts ns : all_some (map (lit_eval C) ts) = Some ns -> lit_eval C (tuple_tree ts) = Some (PTuple ns).
Proof.
  destruct ts as [|t1 [|t2 r]]; cbn [tuple_tree lit_eval]; intros H; try (rewrite H; reflexivity).
  cbn in H. destruct (lit_eval C t1); inversion H. reflexivity.
Qed.

Lemma zip_chain es : Forall gen_ok es -> forall l, all2 valid es l = true -> all2 text_ok es l = true ->
  forall ts, tree_zip (to_tree C) es l = Ok ts ->
  exists ns ws, all_some (map (lit_eval C) ts) = Some ns /\ mapd_res dt_call es ns = Ok ws /\
    tree_zip (to_tree C) es ws = Ok ts /\ eq_nfs es l ws /\ length ns = length es.
Proof.
  induction es as [|d1 es IHes]; intros HF [|x l] Hv Hg ts Ht; cbn in Hv; try discriminate.
  - cbn in Ht. inversion Ht. exists [], []. cbn. repeat split; constructor.
  - cbn in Hg. apply andb_prop in Hv. destruct Hv as [Hx Hl]. apply andb_prop in Hg. destruct Hg as [Gx Gl].
    inversion HF as [|? ? Hd HF']; subst.
    rewrite tree_zip_cons in Ht. destruct (to_tree C d1 x) as [y|] eqn:Ex; [|discriminate]. cbn [bind] in Ht.
    destruct (tree_zip (to_tree C) es l) as [ys|] eqn:El; [|discriminate]. cbn in Ht. inversion Ht. subst ts.
    destruct (Hd x y Hx Gx Ex) as (n & w & A1 & _ & A3 & A4 & A5).
    destruct (IHes HF' l Hl Gl ys El) as (ns & ws & B1 & B2 & B3 & B4 & B5).
    exists (n :: ns), (w :: ws). cbn [map all_some]. rewrite A1, B1. rewrite mapd_res_cons, A3, B2. cbn [bind].
    rewrite tree_zip_cons, A4, B3. cbn. repeat split; [constructor; assumption|congruence].
Qed.

Lemma gen_tuple es : Forall gen_ok es -> gen_ok (TTuple es).
Proof.
  intros IH v t Hv Hg Ht. destruct v; try discriminate. rewrite valid_tuple in Hv. rewrite text_ok_tuple in Hg.
  rewrite to_tree_tuple in Ht. cbn [py_iter] in Ht.
  destruct (tree_zip (to_tree C) es l) as [ts|] eqn:El; [|discriminate]. cbn in Ht. inversion Ht. subst t.
  destruct (zip_chain es IH l Hv Hg ts El) as (ns & ws & B1 & B2 & B3 & B4 & B5).
  exists (PTuple ns), (PTuple ws). split; [exact (lit_eval_tuple_tree ts ns B1)|]. split; [discriminate|].
  cbn [dt_call]. rewrite tuple_check_len by exact B5. cbn [bind py_iter]. rewrite B2.
  cbn [wrap_elem bind]. split; [reflexivity|]. rewrite to_tree_tuple. cbn [py_iter]. rewrite B3.
  split; [reflexivity|constructor; exact B4].
Qed.

(* ---------------------------------------------------------------- structs *)
Fixpoint tree_struct (ms : list (str * dtype)) (kv : list (str * pyval)) : res (list (str * ptree)) :=
  match kv with
  | [] => Ok []
  | (k, x) :: r =>
      match c_repr C (PStr k) with
      | None => Err EOther
      | Some ks =>
          match member_type k ms with
          | None => Err EKey
          | Some d1 => to_tree C d1 x >>= fun y => tree_struct ms r >>= fun ys => Ok ((ks, y) :: ys)
          end
      end
  end.

Lemma find_member {A} k (F : dtype -> res A) ms :
  (fix find (ms0 : list (str * dtype)) : res A :=
     match ms0 with
     | [] => Err EKey
     | (n, d1) :: ms' => if str_eqb k n then F d1 else find ms'
     end) ms
  = match member_type k ms with None => Err EKey | Some d1 => F d1 end.
Proof. induction ms as [|[n d1] ms IH]; cbn; [reflexivity|]. destruct (str_eqb k n); [reflexivity|exact IH]. Qed.

Lemma to_tree_struct ms o c kv : to_tree C (TStruct ms o c) (PDict kv) = (tree_struct ms kv >>= fun ts => Ok (PB ts)).
Proof.
  cbn [to_tree is_dict negb dict_items]. f_equal.
  induction kv as [|[k x] r IH]; [reflexivity|].
  cbn [tree_struct]. rewrite <- IH. destruct (c_repr C (PStr k)) as [ks|]; [|reflexivity].
  rewrite find_member. reflexivity.
Qed.

Definition lit_struct : list (str * ptree) -> list (str * pyval) -> option pyval :=
  fix go (l : list (str * ptree)) (acc : list (str * pyval)) : option pyval :=
    match l with
    | [] => Some (PDict acc)
    | (k, x) :: r =>
        match c_lit C k, lit_eval C x with
        | Some (PStr k'), Some v => go r (dict_set k' v acc)
        | _, _ => None
        end
    end.
Lemma lit_eval_PB l : lit_eval C (PB l) = lit_struct l [].
Proof. reflexivity. Qed.

Lemma member_res_type f k x ms :
  member_res f k x ms = match member_type k ms with None => Err EKey | Some d1 => f d1 x end.
Proof. induction ms as [|[n d1] ms IH]; cbn; [reflexivity|]. destruct (str_eqb k n); [reflexivity|exact IH]. Qed.

Lemma entry_ok_type Q ms k x :
  entry_ok Q ms (k, x) = match member_type k ms with None => false | Some d1 => Q d1 x end.
Proof.
  induction ms as [|[n d1] ms IH]; [reflexivity|].
  change (entry_ok Q ((n, d1) :: ms) (k, x)) with (if str_eqb k n then Q d1 x else entry_ok Q ms (k, x)).
  change (member_type k ((n, d1) :: ms)) with (if str_eqb k n then Some d1 else member_type k ms).
  destruct (str_eqb k n); [reflexivity|exact IH].
Qed.

Lemma member_type_Forall (P : dtype -> Prop) ms k d1 :
  Forall (fun m => P (snd m)) ms -> member_type k ms = Some d1 -> P d1.
Proof.
  induction 1 as [|[n d0] ms H _ IH]; [discriminate|].
  change (member_type k ((n, d0) :: ms)) with (if str_eqb k n then Some d0 else member_type k ms).
  destruct (str_eqb k n); [|exact IH].
  intros E. inversion E. subst. exact H.
Qed.

Definition entry_eq (ms : list (str * dtype)) (p q : str * pyval) : Prop :=
  fst p = fst q /\ exists d1, member_type (fst p) ms = Some d1 /\ eq_nf d1 (snd p) (snd q).

Lemma struct_text_chain ms : Forall (fun m => gen_ok (snd m)) ms ->
  forall kv a1 a2, forallb (entry_ok valid ms) kv = true -> forallb (entry_ok text_ok ms) kv = true ->
  keys_nodup (keys kv) = true -> keys a1 = keys a2 ->
  (forall k, mem_str k (keys kv) = true -> mem_str k (keys a1) = false) ->
  forall ts, tree_struct ms kv = Ok ts ->
  exists kn kw, lit_struct ts a1 = Some (PDict (a1 ++ kn)) /\
    struct_fold dt_call true ms kn a2 = Ok (a2 ++ kw) /\
    tree_struct ms kw = Ok ts /\ Forall2 (entry_eq ms) kv kw /\ keys kn = keys kv /\ keys kw = keys kv.
Proof.
  intros HF. induction kv as [|[k x] kv IH]; intros a1 a2 Hv Hg Hn K12 Hd ts Ht.
  - cbn in Ht. inversion Ht. exists [], []. cbn. rewrite !app_nil_r. repeat split; constructor.
  - cbn [forallb] in Hv, Hg. apply andb_prop in Hv. destruct Hv as [Hx Hv]. apply andb_prop in Hg. destruct Hg as [Gx Hg].
    cbn in Hn. apply andb_prop in Hn. destruct Hn as [Hk Hn]. apply negb_true_iff in Hk.
    rewrite entry_ok_type in Hx, Gx. cbn [tree_struct] in Ht.
    destruct (c_repr C (PStr k)) as [ks|] eqn:Ek; [|discriminate].
    destruct (member_type k ms) as [d1|] eqn:Em; [|discriminate].
    destruct (to_tree C d1 x) as [y|] eqn:Ey; [|discriminate]. cbn [bind] in Ht.
    destruct (tree_struct ms kv) as [ys|] eqn:Eys; [|discriminate]. cbn in Ht. inversion Ht. subst ts.
    destruct (member_type_Forall gen_ok ms k d1 HF Em x y Hx Gx Ey) as (n & w & A1 & A2 & A3 & A4 & A5).
    assert (Hf1 : mem_str k (keys a1) = false).
    { apply Hd. cbn. rewrite str_eqb_refl. reflexivity. }
    assert (Hf2 : mem_str k (keys a2) = false) by (rewrite <- K12; exact Hf1).
    destruct (IH (a1 ++ [(k, n)]) (a2 ++ [(k, w)]) Hv Hg Hn) with (ts := ys) as (kn & kw & G1 & G2 & G3 & G4 & G5 & G6).
    { unfold keys. rewrite !map_app. cbn. f_equal. exact K12. }
    { intros k0 Hk0. unfold keys in *. rewrite map_app, mem_str_app. cbn. rewrite orb_false_r.
      rewrite (Hd k0) by (cbn; rewrite Hk0; apply orb_true_r). cbn.
      destruct (str_eqb k0 k) eqn:Ek0; [|reflexivity]. apply str_eqb_eq in Ek0. subst. congruence. }
    { reflexivity. }
    exists ((k, n) :: kn), ((k, w) :: kw).
    cbn [lit_struct]. rewrite (L_str k ks Ek), A1. fold lit_struct. rewrite (dict_set_fresh k n a1 Hf1), G1.
    rewrite struct_fold_step by (right; exact A2). rewrite member_res_type, Em, A3. cbn [bind].
    rewrite (dict_set_fresh k w a2 Hf2), G2, <- !app_assoc. cbn [app].
    split; [reflexivity|]. split; [reflexivity|].
    cbn [tree_struct]. rewrite Ek, Em, A4. cbn [bind]. rewrite G3. cbn [bind].
    split; [reflexivity|]. split.
    + constructor; [|exact G4]. split; [reflexivity|]. exists d1. split; [exact Em|exact A5].
    + unfold keys in *. cbn. split; f_equal; assumption.
Qed.

Lemma check_missing_flag (ms : list (str * dtype)) o (flag : bool) (kv : list (str * pyval)) :
  forallb (fun n => mem_str n (map fst kv) || (flag && mem_str n o)) (map fst ms) = true ->
  check_missing (map fst ms) o flag kv = Ok tt.
Proof. intros H. unfold check_missing. rewrite (missing_nil flag o _ _ H). reflexivity. Qed.

Lemma gen_struct ms o c : Forall (fun m => gen_ok (snd m)) ms -> gen_ok (TStruct ms o c).
Proof.
  intros IH v t Hv Hg Ht. destruct v; try discriminate. rewrite valid_struct in Hv. rewrite text_ok_struct in Hg.
  apply andb_prop in Hv. destruct Hv as [Hv H3]. apply andb_prop in Hv. destruct Hv as [H1 H2].
  apply andb_prop in Hg. destruct Hg as [Gc Gm].
  rewrite to_tree_struct in Ht. destruct (tree_struct ms kv) as [ts|] eqn:Ets; [|discriminate].
  cbn in Ht. inversion Ht. subst t.
  destruct (struct_text_chain ms IH kv [] [] H2 Gm H1 eq_refl (fun _ _ => eq_refl) ts Ets)
    as (kn & kw & G1 & G2 & G3 & G4 & G5 & G6).
  cbn [app] in *.
  assert (Hdecl : forall l : list (str * pyval), keys l = keys kv -> forallb (fun p => mem_str (fst p) (map fst ms)) l = true).
  { intros l0 Hk. assert (Hall : forallb (fun k => mem_str k (map fst ms)) (keys kv) = true).
    { clear - H2. induction kv as [|p kv IH]; cbn; [reflexivity|]. cbn in H2. apply andb_prop in H2.
      destruct H2 as [Hp H2]. rewrite (entry_ok_declared _ _ _ Hp). apply IH, H2. }
    rewrite <- Hk in Hall. clear - Hall. induction l0 as [|p l0 IH]; cbn in *; [reflexivity|].
    apply andb_prop in Hall. destruct Hall as [Hp Hall]. rewrite Hp. apply IH, Hall. }
  assert (Hreq : forall (l : list (str * pyval)), keys l = keys kv ->
            forallb (fun n => mem_str n (map fst l) || (c && mem_str n o)) (map fst ms) = true).
  { intros l0 Hk. unfold keys in Hk. rewrite Hk. destruct c; cbn [orb andb] in *.
    - revert H3. apply forallb_imp. intros n Hn. exact Hn.
    - revert Gc. apply forallb_imp. intros n Hn. rewrite Hn. reflexivity. }
  exists (PDict kn), (PDict kw). rewrite lit_eval_PB, G1. split; [reflexivity|]. split; [discriminate|].
  cbn [dt_call].
  rewrite (struct_check_valid ms o c false kn).
  - cbn [bind is_dict negb dict_items]. rewrite G2. cbn [wrap_elem bind].
    rewrite (check_missing_flag ms o c kw (Hreq kw G6)). cbn [bind].
    split; [reflexivity|]. rewrite to_tree_struct, G3. split; [reflexivity|]. constructor. exact G4.
  - apply Hdecl, G5.
  - rewrite orb_false_r. apply Hreq, G5.
Qed.

(* ---------------------------------------------------------------- all trees *)
Theorem gen_all : forall d, num_limits_ok d = true -> gen_ok d.
Proof.
  unfold num_limits_ok.
  induction d as [a b c d|a b|a b c| |ms|a b u|a b|e a b IHe|es IHes|ms o c IHms] using dtype_ind'; intros H.
  - apply gen_float.
  - cbn in H. apply andb_prop in H. destruct H as [H1 H2]. apply Z.leb_le in H1. apply Z.leb_le in H2.
    apply gen_int; assumption.
  - apply gen_scaled.
  - apply gen_bool.
  - apply gen_enum.
  - apply gen_string.
  - apply gen_blob.
  - apply gen_array, IHe, H.
  - apply gen_tuple. cbn [leavesb] in H.
    induction es as [|x es IH]; constructor; inversion IHes; subst; cbn in H; apply andb_prop in H; destruct H; auto.
  - apply gen_struct. cbn [leavesb] in H.
    induction ms as [|x ms IH]; constructor; inversion IHms; subst; cbn in H; apply andb_prop in H; destruct H; auto.
Qed.

(* ---------------------------------------------------------------- to_string / from_string *)
Lemma enum_name_stripped n z (ms : list (str * Z)) :
  forallb (fun m : str * Z => str_eqb (strip (fst m)) (fst m)) ms = true ->
  existsb (fun p : str * Z => str_eqb n (fst p) && Z.eqb z (snd p)) ms = true -> strip n = n.
Proof.
  induction ms as [|[n1 z1] ms IH]; cbn [forallb existsb fst snd]; [discriminate|]. intros Hs H.
  apply andb_prop in Hs. destruct Hs as [H1 Hs]. apply orb_prop in H. destruct H as [H|H].
  - apply andb_prop in H. destruct H as [H _]. apply str_eqb_eq in H. subst n1. apply str_eqb_eq, H1.
  - apply IH; assumption.
Qed.

Theorem text_roundtrip : forall d v t, num_limits_ok d = true -> valid d v = true -> text_ok d v = true ->
  to_string C d v = Ok t ->
  exists w, from_string C d t = Ok w /\ to_string C d w = Ok t /\ eq_nf d v w.
Proof.
  intros d v t HL Hv Hg Ht.
  assert (Gen : to_string C d v = to_tree C d v -> (forall w, to_string C d w = to_tree C d w) ->
                from_string C d t = generic_from_string C d t ->
                exists w, from_string C d t = Ok w /\ to_string C d w = Ok t /\ eq_nf d v w).
  { intros E1 E2 E3. rewrite E1 in Ht. destruct (gen_all d HL v t Hv Hg Ht) as (n & w & A1 & _ & A3 & A4 & A5).
    exists w. rewrite E3, E2. unfold generic_from_string. rewrite A1. auto. }
  destruct d as [a b c d|a b|a b c| |ms|a b u|a b|e a b|es|ms o c]; try (apply Gen; intros; reflexivity); clear Gen.
  - (* bool: the words True and False *)
    destruct v; cbn [valid in_setb] in Hv; try discriminate. cbn [to_string to_tree] in Ht.
    destruct (atom_inv _ _ Ht) as (s & Hs & ->). exists (PBool b). destruct b.
    + pose proof (L_true s Hs) as Es. subst s. split; [vm_compute; reflexivity|]. cbn [to_string to_tree]. rewrite Hs.
      split; [reflexivity|constructor].
    + pose proof (L_false s Hs) as Es. subst s. split; [vm_compute; reflexivity|]. cbn [to_string to_tree]. rewrite Hs.
      split; [reflexivity|constructor].
  - (* enum: the bare name *)
    destruct v as [| | | | | | | | |n z|]; cbn [valid in_setb] in Hv; try discriminate.
    cbn [text_ok] in Hg. unfold enum_names_ok in Hg. apply andb_prop in Hg. destruct Hg as [G1 G2].
    cbn [to_string] in Ht. inversion Ht. subst t. exists (PEnum n z).
    cbn [from_string render]. rewrite (enum_name_stripped n z ms G1 Hv), (enum_by_name_found n z ms G2 Hv).
    split; [reflexivity|]. split; [reflexivity|constructor].
  - (* string: the bare text *)
    destruct v; cbn [valid in_setb] in Hv; try discriminate.
    cbn [to_string] in Ht. inversion Ht. subst t. exists (PStr s).
    cbn [from_string render]. rewrite (string_call_ok _ _ _ _ Hv).
    split; [reflexivity|]. split; [reflexivity|constructor].
Qed.

End TextLaws.

(* the laws of CPython as one predicate on a codec *)
Record codec_laws (C : codec) : Prop := {
  law_int : forall z s, c_repr C (PInt z) = Some s -> c_lit C s = Some (PInt z);
  law_bool : forall b s, c_repr C (PBool b) = Some s -> c_lit C s = Some (PBool b);
  law_true : forall s, c_repr C (PBool true) = Some s -> s = [84; 114; 117; 101]%N;
  law_false : forall s, c_repr C (PBool false) = Some s -> s = [70; 97; 108; 115; 101]%N;
  law_str : forall x s, c_repr C (PStr x) = Some s -> c_lit C s = Some (PStr x);
  law_bytes : forall x s, c_repr C (PBytes x) = Some s -> c_lit C s = Some (PBytes x);
  law_float : forall f s, fis_finite f = true -> fsame f fnegzero = false -> c_fmt C f = Some s ->
    exists n g, c_lit C s = Some n /\ py_add0 n = Ok g /\ fis_finite g = true /\ c_fmt C g = Some s
}.

Theorem text_roundtrip_laws C : codec_laws C ->
  forall d v t, num_limits_ok d = true -> valid d v = true -> text_ok C d v = true -> to_string C d v = Ok t ->
  exists w, from_string C d t = Ok w /\ to_string C d w = Ok t /\ eq_nf d v w.
Proof. intros [L1 L2 L3 L4 L5 L6 L7]. exact (text_roundtrip C L1 L2 L3 L4 L5 L6 L7). Qed.
