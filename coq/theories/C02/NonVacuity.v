(* C02 — vacuity audit: the theorems of Properties.v that were not yet applied to a concrete instance by C02_demo /
   C02_kind_demo / C02_text_demo are APPLIED here with every premise discharged by computation, on codecs and
   b64decode tables of the shape the harness builds (codec_of of finite tables, a finite b64_of list).
   Equalities  f args = Ok r  over binary64 records are obtained from booleans computed in the VM (ok_ex, ok_and_ex),
   never by reflexivity on float records. *)
From Coq Require Import ZArith NArith Bool List Lia.
Import ListNotations.
Require Import FV.Gen.C02 FV.Base.F64 FV.Base.PyVal FV.C01.Model FV.C01.Lemmas FV.C02.Model FV.C02.Run FV.C02.Lemmas
  FV.C02.LemmasNum FV.C02.LemmasScaled FV.C02.LemmasText FV.C02.LemmasClient FV.C02.LemmasKind
  FV.C02.LemmasClientGuards FV.C02.LemmasClientSide FV.C02.Refuted FV.C02.Properties.

Definition is_ok {A} (r : res A) : bool := match r with Ok _ => true | Err _ => false end.
Lemma ok_ex {A} (r : res A) : is_ok r = true -> exists x, r = Ok x.
Proof. destruct r; [eauto|discriminate]. Qed.
Definition ok_and {A} (r : res A) (p : A -> bool) : bool := match r with Ok w => p w | Err _ => false end.
Lemma ok_and_ex {A} (r : res A) p : ok_and r p = true -> exists w, r = Ok w /\ p w = true.
Proof. destruct r; cbn; [eauto|discriminate]. Qed.

(* the client side type as a term that computes *)
Definition dc_of (d : dtype) : dtype := match client_of d with Ok dc => dc | Err _ => d end.
Lemma client_of_dc_of d : is_ok (client_of d) = true -> client_of d = Ok (dc_of d).
Proof. unfold dc_of. destruct (client_of d); [reflexivity|discriminate]. Qed.

(* the instance for the client theorems: kind_d (blob, struct with enum array, tuple, scaled 0.1 on 0 .. 100) extended by
   a scaled leaf whose lower limit 0.25 is not a grid value (the client rebuilds it as 2 * 0.1) and a node side struct
   (rebuilt as a client side struct), so that the rebuilt type differs from the node's type *)
Definition cl_d : dtype :=
  TTuple [TBlob 0 10; demo_d; TScaled s01' (fmk 1 (-2)) (of_Z 100); TStruct [([97%N], TInt 0 5)] [] false].
Definition cl_v : pyval :=
  PTuple [PBytes [104;105]%N; demo_v; PFloat (fmul (of_Z 500) s01'); PDict [([97%N], PInt 3)]].
Lemma cl_H1 : valid cl_d cl_v = true. Proof. vm_compute. reflexivity. Qed.
Lemma cl_H2 : num_limits_ok cl_d = true. Proof. vm_compute. reflexivity. Qed.
Lemma cl_H3 : scaled_grid_small cl_d = true. Proof. vm_compute. reflexivity. Qed.
Lemma cl_H4 : b64_ok EB CB cl_d cl_v = true. Proof. vm_compute. reflexivity. Qed.
Lemma cl_HS : enums_sorted cl_d. Proof. cbn. repeat split; reflexivity. Qed.
Lemma cl_Hc : client_of cl_d = Ok (dc_of cl_d). Proof. apply client_of_dc_of. vm_compute. reflexivity. Qed.
Example cl_dc_differs : dtype_eqb (dc_of cl_d) cl_d = false /\ dtype_eqb cl_d cl_d = true.
Proof. split; vm_compute; reflexivity. Qed.

Lemma kind_H1 : valid kind_d kind_v = true. Proof. vm_compute. reflexivity. Qed.
Lemma kind_H2 : num_limits_ok kind_d = true. Proof. vm_compute. reflexivity. Qed.
Lemma kind_H3 : scaled_grid_small kind_d = true. Proof. vm_compute. reflexivity. Qed.
Lemma kind_H4 : b64_ok EB CB kind_d kind_v = true. Proof. vm_compute. reflexivity. Qed.

(* ---- C02_export_kind_sound, applied directly *)
Example C02_export_kind_sound_applies : exists j,
  dt_export CB kind_d kind_v = Ok j /\ kind_ok kind_d j = true /\ strict_json j = true.
Proof.
  destruct (ok_ex (dt_export CB kind_d kind_v) ltac:(vm_compute; reflexivity)) as [j Hj].
  exists j. split; [exact Hj|]. exact (C02_export_kind_sound CB CB_text_law kind_d kind_v j kind_H1 Hj).
Qed.

(* ---- C02_kind_is_strict_json: a form with a double leaf *)
Example C02_kind_is_strict_json_applies :
  strict_json (PList [PFloat (fmk 5 (-1)); PInt 3; PList [PBool true; PStr [97%N]]]) = true.
Proof.
  apply (C02_kind_is_strict_json
           (TTuple [TFloat fzero (of_Z 10) fzero fzero; TInt 0 5; TTuple [TBool; TString 0 5 false]])).
  vm_compute. reflexivity.
Qed.

(* ---- C02_scaled_grid_stable: scale 0.1, index 2^51 - 1 (far from zero), the float fl(k * 0.1) *)
Definition kbig : Z := (2 ^ 51 - 1)%Z.
Definition kbig_f : f64 := match float_of_Z kbig with Some x => x | None => fzero end.
Lemma kbig_float : float_of_Z kbig = Some kbig_f.
Proof.
  unfold kbig_f. destruct (float_of_Z kbig) eqn:E; [reflexivity|].
  assert (H : (match float_of_Z kbig with Some _ => true | None => false end) = true) by (vm_compute; reflexivity).
  rewrite E in H. discriminate.
Qed.
Example C02_scaled_grid_stable_applies :
  scaled_export s01' (PFloat (fmul kbig_f s01')) = Ok (PInt kbig).
Proof.
  apply (C02_scaled_grid_stable s01' kbig kbig_f (fmul kbig_f s01')).
  - vm_compute. reflexivity.
  - unfold kbig. lia.
  - exact kbig_float.
  - vm_compute. reflexivity.
Qed.

Example C02_int_leaf_exact_applies : int_call (PInt (2 ^ 63 + 12345)) = Ok (PInt (2 ^ 63 + 12345)).
Proof. apply C02_int_leaf_exact. lia. Qed.

Example C02_float_leaf_unchanged_applies : exists g',
  float_validate fzero (of_Z 10) (fmk 1 (-3)) (fmk 1 (-20)) (PFloat (fmk 5 (-1))) = Ok (PFloat g') /\
  fis_finite g' = true.
Proof.
  destruct (C02_float_leaf_unchanged fzero (of_Z 10) (fmk 1 (-3)) (fmk 1 (-20)) (fmk 5 (-1)))
    as (g' & A & B & _); try (vm_compute; reflexivity).
  exists g'. split; assumption.
Qed.

Example C02_scaled_guard_easy_applies : scaled_grid_small kind_d = true.
Proof. apply C02_scaled_guard_easy. vm_compute. reflexivity. Qed.

(* ---- C02_one_tuple_text_accepted with the tabulated codec CX *)
Example C02_one_tuple_text_accepted_applies : exists t1,
  to_string CX (TTuple [TInt 0 5]) (PTuple [PInt 5]) = Ok t1 /\
  from_string CX (TTuple [TInt 0 5]) t1 = Ok (PTuple [PInt 5]).
Proof.
  apply (C02_one_tuple_text_accepted CX (TInt 0 5) (PInt 5) (PA [53]%N) (PInt 5) (PInt 5)); vm_compute; reflexivity.
Qed.

(* ---- C02_setparam_roundtrip: one codec with text tables and base64, a struct of a tuple with int, double, string,
   bool, scaled and blob; the text {'a': (5, 2.5, 'a', True, 2.5, b'hi')} *)
Definition bhi : str := [98; 39; 104; 105; 39]%N.
Definition TXB : tables :=
  {| t_b64 := [([104;105]%N, [97;71;107;61]%N)];
     t_fmt := t_fmt TX;
     t_repr := (PBytes [104;105]%N, bhi) :: t_repr TX;
     t_lit := (bhi, PBytes [104;105]%N) :: t_lit TX |}.
Definition CXB : codec := codec_of TXB.
Definition ns_d : dtype :=
  TStruct [([97%N], TTuple [TInt 0 5; TFloat fzero (of_Z 10) fzero fzero; TString 0 5 false; TBool;
                           TScaled (fmk 1 (-1)) fzero (of_Z 10); TBlob 0 10])] [] false.
Definition ns_t : ptree :=
  PB [([39;97;39]%N, PP [PA [53]%N; PA [50;46;53]%N; PA [39;97;39]%N; PA [84;114;117;101]%N; PA [50;46;53]%N; PA bhi])].
Example C02_setparam_roundtrip_applies : exists w v',
  from_string CXB ns_d ns_t = Ok w /\ set_from_string CXB EB ns_d ns_d ns_t = Ok v' /\ py_eq w v'.
Proof.
  destruct (ok_and_ex (from_string CXB ns_d ns_t) (fun w => valid ns_d w && b64_ok EB CXB ns_d w)
              ltac:(vm_compute; reflexivity)) as (w & Hw & Hp).
  apply andb_prop in Hp. destruct Hp as [Hv Hb].
  destruct (C02_setparam_roundtrip CXB EB ns_d ns_t w ltac:(vm_compute; reflexivity) ltac:(vm_compute; reflexivity)
              Hw Hv Hb) as (v' & A & B).
  exists w, v'. repeat split; assumption.
Qed.
(* the blob really takes part: the b64 premise is false with the empty decode table *)
Example ns_b64_matters :
  ok_and (from_string CXB ns_d ns_t) (fun w => b64_ok {| int_of := []; b64_of := [] |} CXB ns_d w) = false.
Proof. vm_compute. reflexivity. Qed.

(* ---- the client theorems at cl_d (blob, enum array, tuple, scaled 0.1), client type dc_of cl_d *)
Example C02_client_imports_like_node_applies : forall j, dt_import EB (dc_of cl_d) j = dt_import EB cl_d j.
Proof. exact (C02_client_imports_like_node EB cl_d cl_HS (dc_of cl_d) cl_Hc). Qed.

Example C02_client_same_values_applies : forall v, valid (dc_of cl_d) v = valid cl_d v.
Proof. exact (C02_client_same_values cl_d cl_H3 cl_HS (dc_of cl_d) cl_Hc). Qed.

Example C02_client_roundtrip_applies : exists j w v',
  dt_export CB cl_d cl_v = Ok j /\ dt_import EB (dc_of cl_d) j = Ok w /\ dt_import EB cl_d j = Ok w /\
  dt_validate cl_d w PNone = Ok v' /\ py_eq cl_v v'.
Proof.
  destruct (C02_client_roundtrip EB CB cl_d cl_H2 cl_H3 cl_HS) as (dc & Hc & _ & _ & _ & H).
  assert (Hd : dc = dc_of cl_d) by (rewrite cl_Hc in Hc; inversion Hc; reflexivity). subst dc.
  exact (H cl_v cl_H1 cl_H4).
Qed.

Example C02_client_side_roundtrip_applies :
  valid cl_d cl_v = true /\
  exists j w v', dt_export CB (dc_of cl_d) cl_v = Ok j /\ dt_import EB cl_d j = Ok w /\
                 dt_validate cl_d w PNone = Ok v' /\ py_eq cl_v v'.
Proof.
  destruct (C02_client_side_roundtrip EB CB cl_d cl_H2 cl_H3 cl_HS) as (dc & Hc & H).
  assert (Hd : dc = dc_of cl_d) by (rewrite cl_Hc in Hc; inversion Hc; reflexivity). subst dc.
  apply H; vm_compute; reflexivity.
Qed.

(* ---- the text theorem once more with a blob leaf and the combined codec: codec_laws holds for CXB *)
Lemma CXB_laws : codec_laws CXB.
Proof.
  constructor.
  - intros z s. cbn [CXB codec_of TXB TX c_repr c_lit t_repr t_lit lookup_by pv_same].
    destruct (Z.eqb z 5) eqn:E; intros H; inversion H. apply Z.eqb_eq in E. subst. vm_compute. reflexivity.
  - intros b s. destruct b; cbn [CXB codec_of TXB TX c_repr c_lit t_repr t_lit lookup_by pv_same Bool.eqb];
      intros H; inversion H; vm_compute; reflexivity.
  - intros s. cbn [CXB codec_of TXB TX c_repr c_lit t_repr t_lit lookup_by pv_same Bool.eqb]. intros H. inversion H. reflexivity.
  - intros s. cbn [CXB codec_of TXB TX c_repr c_lit t_repr t_lit lookup_by pv_same Bool.eqb]. intros H. inversion H. reflexivity.
  - intros x s. cbn [CXB codec_of TXB TX c_repr c_lit t_repr t_lit lookup_by pv_same].
    destruct (str_eqb x [97%N]) eqn:E; intros H; inversion H. apply str_eqb_eq in E. subst. vm_compute. reflexivity.
  - intros x s. cbn [CXB codec_of TXB TX c_repr c_lit t_repr t_lit lookup_by pv_same].
    destruct (str_eqb x [104;105]%N) eqn:E; intros H; inversion H. apply str_eqb_eq in E. subst. vm_compute. reflexivity.
  - intros f s _ _. cbn [CXB codec_of TXB TX c_fmt t_fmt lookup_by].
    destruct (fsame f f25); intros H; inversion H.
    exists (PFloat f25), (fadd f25 fzero). repeat split; vm_compute; reflexivity.
Qed.
Definition ns_v : pyval :=
  PDict [([97%N], PTuple [PInt 5; PFloat f25; PStr [97%N]; PBool true; PFloat f25; PBytes [104;105]%N])].
Example C02_text_roundtrip_applies_with_blob : exists w,
  from_string CXB ns_d ns_t = Ok w /\ to_string CXB ns_d w = Ok ns_t /\ eq_nf ns_d ns_v w.
Proof.
  apply (C02_text_roundtrip CXB CXB_laws ns_d ns_v ns_t); vm_compute; reflexivity.
Qed.

(* ---- REMARK (not a vacuity): codec_laws is a law of the CPython functions; a per-case table of the shape the harness
   builds (atoms of the values of the case only) need not satisfy law_float when a scaled leaf has a non-dyadic scale:
   the grid value 3 * 0.1 = 0.30000000000000004 prints as 0.3, the literal 0.3 is another float which from_string puts
   on the grid again, so the float 0.3 itself is never an atom of the case and has no percent-g entry.  The text theorem
   speaks about codecs that obey the laws (the real functions, or tables closed under re-reading such as CX, CXB). *)
Definition f3g : f64 := fmul (of_Z 3) s01'.                         (* 0.30000000000000004 *)
Definition f03 : f64 := fmk 5404319552844595 (-54).                 (* 0.3 *)
Definition TH : tables :=
  {| t_b64 := []; t_fmt := [(f3g, [48;46;51]%N)]; t_repr := []; t_lit := [([48;46;51]%N, PFloat f03)] |}.
Example C02_case_table_need_not_obey_law_float :
  fsame f3g f03 = false /\ scaled_text_ok (codec_of TH) s01' f3g = true /\ ~ codec_laws (codec_of TH).
Proof.
  split; [vm_compute; reflexivity|]. split; [vm_compute; reflexivity|].
  intros [_ _ _ _ _ _ L].
  destruct (L f3g [48;46;51]%N ltac:(vm_compute; reflexivity) ltac:(vm_compute; reflexivity)) as (n & g & A & B & _ & D).
  - cbn [codec_of c_fmt t_fmt TH lookup_by]. replace (fsame f3g f3g) with true by (vm_compute; reflexivity). reflexivity.
  - cbn [codec_of c_lit t_lit TH lookup_by] in A.
    replace (str_eqb [48;46;51]%N [48;46;51]%N) with true in A by reflexivity.
    inversion A; subst n. cbn [py_add0] in B. inversion B; subst g.
    cbn [codec_of c_fmt t_fmt TH lookup_by] in D.
    replace (fsame (fadd f03 fzero) f3g) with false in D by (vm_compute; reflexivity). discriminate.
Qed.
