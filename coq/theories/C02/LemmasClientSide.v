(* C02 - the client side datatype as the exporting side (setParameter direction): for a tree within the guards whose
   enums are sorted, the rebuilt type has the same valid values, exports every value to the same JSON and demands the
   same base64 facts as the node's type; hence a valid value of the client side type, exported by the client,
   survives import_value + validate on the node. *)
From Coq Require Import ZArith NArith Bool List Lia.
Import ListNotations.
Require Import FV.Base.Util FV.Base.F64 FV.Base.PyVal FV.C01.Model FV.C01.Lemmas FV.C02.Model FV.C02.Lemmas
  FV.C02.LemmasScaled FV.C02.LemmasClient FV.C02.LemmasClientGuards.

Lemma forallb_ext_in {A} (f g : A -> bool) l : (forall x, In x l -> f x = g x) -> forallb f l = forallb g l.
Proof.
  induction l as [|x l IH]; intros H; [reflexivity|]. cbn. rewrite (H x (or_introl eq_refl)), IH; [reflexivity|].
  intros y Hy. apply H. right. exact Hy.
Qed.

Lemma all2_ext2 (Q : dtype -> pyval -> bool) es cs :
  Forall2 (fun d c => forall x, Q c x = Q d x) es cs -> forall l, all2 Q cs l = all2 Q es l.
Proof.
  induction 1 as [|d c es cs H _ IH]; intros [|x l]; cbn; try reflexivity. rewrite H, IH. reflexivity.
Qed.

Lemma entry_ok_ext2 (Q : dtype -> pyval -> bool) ms cs :
  Forall2 (fun m c : str * dtype => fst c = fst m /\ forall y, Q (snd c) y = Q (snd m) y) ms cs ->
  forall p, entry_ok Q cs p = entry_ok Q ms p.
Proof.
  induction 1 as [|[n d] [n' c] ms cs [Hn H] _ IH]; intros p; [reflexivity|]. cbn in Hn, H. subst n'.
  change (entry_ok Q ((n, c) :: cs) p) with (if str_eqb (fst p) n then Q c (snd p) else entry_ok Q cs p).
  change (entry_ok Q ((n, d) :: ms) p) with (if str_eqb (fst p) n then Q d (snd p) else entry_ok Q ms p).
  rewrite H, IH. reflexivity.
Qed.

Lemma client_names ms cs :
  Forall2 (fun m c : str * dtype => fst c = fst m /\ client_of (snd m) = Ok (snd c)) ms cs -> map fst cs = map fst ms.
Proof. induction 1 as [|m c0 ms cs [H _] _ IH]; cbn; [reflexivity|]. rewrite H, IH. reflexivity. Qed.

(* the optional list of the rebuilt struct admits the same key sets *)
Lemma required_same (o names present : list str) :
  forallb (fun n => mem_str n present || mem_str n (if same_names o names then names else o)) names =
  forallb (fun n => mem_str n present || mem_str n o) names.
Proof.
  destruct (same_names o names) eqn:Hs; [|reflexivity].
  unfold same_names in Hs. apply andb_prop in Hs. destruct Hs as [_ Hs].
  apply forallb_ext_in. intros n Hn. rewrite (mem_str_refl n names Hn), (forallb_In _ _ n Hs Hn). reflexivity.
Qed.

(* ------------------------------------------------------------------ the same valid values *)
Theorem client_valid_same : forall d, scaled_grid_small d = true -> enums_sorted d ->
  forall dc, client_of d = Ok dc -> forall v, valid dc v = valid d v.
Proof.
  induction d as [a b c d|a b|s mn mx| |ms|a b u|a b|e a b IHe|es IHes|ms o c IHms] using dtype_ind';
    intros S HS dc Hc v; try (cbn in Hc; inversion Hc; subst; reflexivity).
  - (* scaled: the rebuilt limits have the same lowest and highest grid value *)
    destruct (client_scaled_aligned s mn mx S) as (a & b & H1 & _ & _ & _ & C1 & C2).
    rewrite H1 in Hc. inversion Hc; subst. destruct v; try reflexivity.
    cbn [valid in_setb]. rewrite C1, C2. reflexivity.
  - (* enum *)
    cbn in Hc, HS. rewrite HS in Hc. inversion Hc; subst. reflexivity.
  - (* array *)
    cbn [client_of] in Hc. apply bind_ok in Hc. destruct Hc as (ec & He & Hc). inversion Hc; subst.
    destruct v; try reflexivity. cbn [valid]. f_equal. apply forallb_ext_in. intros x _. apply IHe; assumption.
  - (* tuple *)
    cbn [client_of] in Hc. apply bind_ok in Hc. destruct Hc as (cs & Hcs & Hc). inversion Hc; subst.
    apply client_list in Hcs. apply enums_sorted_tuple in HS.
    destruct v; try reflexivity. rewrite !valid_tuple. apply all2_ext2.
    unfold scaled_grid_small in S. cbn [leavesb] in S.
    clear - IHes HS Hcs S. induction Hcs as [|d c es cs H _ IH]; constructor;
      inversion IHes; inversion HS; subst; cbn [forallb] in S; apply andb_prop in S; destruct S as [S1 S2].
    + intros x. auto.
    + auto.
  - (* struct *)
    cbn [client_of] in Hc. apply bind_ok in Hc. destruct Hc as (cs & Hcs & Hc). inversion Hc; subst.
    apply client_members in Hcs. apply enums_sorted_struct in HS. pose proof (client_names _ _ Hcs) as Hn.
    destruct v; try reflexivity. rewrite !valid_struct, Hn, required_same.
    f_equal. f_equal. apply forallb_ext_in. intros p _. apply entry_ok_ext2.
    unfold scaled_grid_small in S. cbn [leavesb] in S.
    clear - IHms HS Hcs S. induction Hcs as [|m c0 ms cs [H1 H2] _ IH]; constructor;
      inversion IHms; inversion HS; subst; cbn [forallb] in S; apply andb_prop in S; destruct S as [S1 S2].
    + split; [exact H1|]. intros y. auto.
    + auto.
Qed.

(* ------------------------------------------------------------------ the same base64 obligations *)
Theorem client_b64_same E C : forall d dc, client_of d = Ok dc -> forall v, b64_ok E C dc v = b64_ok E C d v.
Proof.
  induction d as [a b c d|a b|s mn mx| |ms|a b u|a b|e a b IHe|es IHes|ms o c IHms] using dtype_ind';
    intros dc Hc v; try (cbn in Hc; inversion Hc; subst; reflexivity).
  - cbn [client_of] in Hc. repeat (apply bind_ok in Hc; destruct Hc as (? & _ & Hc)). inversion Hc; subst. reflexivity.
  - cbn [client_of] in Hc. apply bind_ok in Hc. destruct Hc as (ec & He & Hc). inversion Hc; subst.
    destruct v; try reflexivity. cbn [b64_ok]. apply forallb_ext_in. intros x _. apply IHe; assumption.
  - cbn [client_of] in Hc. apply bind_ok in Hc. destruct Hc as (cs & Hcs & Hc). inversion Hc; subst.
    apply client_list in Hcs. destruct v; try reflexivity. rewrite !b64_ok_tuple. apply all2_ext2.
    clear - IHes Hcs. induction Hcs as [|d c es cs H _ IH]; constructor; inversion IHes; subst; auto.
  - cbn [client_of] in Hc. apply bind_ok in Hc. destruct Hc as (cs & Hcs & Hc). inversion Hc; subst.
    apply client_members in Hcs. destruct v; try reflexivity. rewrite !b64_ok_struct.
    apply forallb_ext_in. intros p _. apply entry_ok_ext2.
    clear - IHms Hcs. induction Hcs as [|m c0 ms cs [H1 H2] _ IH]; constructor; inversion IHms; subst; auto.
Qed.

(* ------------------------------------------------------------------ the same exported form *)
Theorem client_export_same C : forall d, enums_sorted d -> forall dc, client_of d = Ok dc ->
  forall v, dt_export C dc v = dt_export C d v.
Proof.
  induction d as [a b c d|a b|s mn mx| |ms|a b u|a b|e a b IHe|es IHes|ms o c IHms] using dtype_ind';
    intros HS dc Hc v; try (cbn in Hc; inversion Hc; subst; reflexivity).
  - cbn [client_of] in Hc. repeat (apply bind_ok in Hc; destruct Hc as (? & _ & Hc)). inversion Hc; subst. reflexivity.
  - cbn in Hc, HS. rewrite HS in Hc. inversion Hc; subst. reflexivity.
  - cbn [client_of] in Hc. apply bind_ok in Hc. destruct Hc as (ec & He & Hc). inversion Hc; subst.
    cbn [dt_export]. destruct (array_check a b v); [|reflexivity]. cbn [bind].
    destruct (py_iter v) as [items|]; [|reflexivity].
    rewrite (map_res_ext (dt_export C ec) (dt_export C e)); [reflexivity|]. intros x. apply IHe; assumption.
  - cbn [client_of] in Hc. apply bind_ok in Hc. destruct Hc as (cs & Hcs & Hc). inversion Hc; subst.
    apply client_list in Hcs. apply enums_sorted_tuple in HS.
    cbn [dt_export]. rewrite <- (Forall2_length _ _ _ Hcs).
    destruct (tuple_check (length es) v); [|reflexivity]. cbn [bind].
    destruct (py_iter v) as [items|]; [|reflexivity].
    rewrite (mapd_res_ext2 (dt_export C) es cs); [reflexivity|].
    clear - IHes HS Hcs. induction Hcs as [|d c es cs H _ IH]; constructor.
    + inversion IHes; inversion HS; subst. intros x. auto.
    + inversion IHes; inversion HS; subst. auto.
  - cbn [client_of] in Hc. apply bind_ok in Hc. destruct Hc as (cs & Hcs & Hc). inversion Hc; subst.
    apply client_members in Hcs. apply enums_sorted_struct in HS. pose proof (client_names _ _ Hcs) as Hn.
    cbn [dt_export]. rewrite Hn, (struct_check_client (map fst ms) o c v).
    destruct (struct_check (map fst ms) o c true v); [|reflexivity]. cbn [bind].
    destruct (negb (is_dict v)); [reflexivity|].
    rewrite (struct_fold_ext2 (dt_export C) false ms cs); [reflexivity|].
    clear - IHms HS Hcs. induction Hcs as [|m c0 ms cs [H1 H2] _ IH]; constructor.
    + inversion IHms; inversion HS; subst. split; [exact H1|]. intros y. auto.
    + inversion IHms; inversion HS; subst. auto.
Qed.

(* ------------------------------------------------------------------ the client exports, the node imports *)
Theorem client_side_roundtrip E C :
  forall d, num_limits_ok d = true -> scaled_grid_small d = true -> enums_sorted d ->
  exists dc, client_of d = Ok dc /\
  forall v, valid dc v = true -> b64_ok E C dc v = true ->
  valid d v = true /\
  exists j w v', dt_export C dc v = Ok j /\ dt_import E d j = Ok w /\ dt_validate d w PNone = Ok v' /\ py_eq v v'.
Proof.
  intros d H1 H2 HS. destruct (client_of_within_guards d H1 H2) as (dc & Hc & _). exists dc. split; [exact Hc|].
  intros v Hv Hb. rewrite (client_valid_same d H2 HS dc Hc v) in Hv. rewrite (client_b64_same E C d dc Hc v) in Hb.
  split; [exact Hv|].
  destruct (wire_roundtrip_all E C d H1 H2 v Hv Hb) as (j & w & v' & A1 & A2 & A3 & A4 & _).
  exists j, w, v'. rewrite (client_export_same C d HS dc Hc v). auto.
Qed.
