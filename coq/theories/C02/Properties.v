(* C02 - Valid values survive the wire encoding and the text encoding unchanged: property theorems.
   d ranges over ALL datatype trees (any depth/width), v over all valid values (Lemmas.valid: the C01 value set in
   canonical form, finite floats, scaled values on the grid of their scale, distinct struct keys, required members
   present), C over every codec (CPython's b64encode / "%g" / repr / literal_eval as functions), E over every
   tabulation of b64decode.

   (wire)  C02_wire_roundtrip: export succeeds and import_value+validate on the node gives back a value equal
           (python ==) to v, for all trees satisfying the two boolean guards
             num_limits_ok d      double leaves have finite limits/resolution, int leaves limits within +-2^64
                                  (what the constructors guarantee), and
             scaled_grid_small d  every scaled leaf has a positive normal scale <= 2^970, the grid indices
                                  round(min/scale), round(max/scale) are at most 2^51 in magnitude and its extreme grid
                                  values pass the window test of validate (min - scale < value < max + scale).
           The scaled leaf is C02_scaled_grid_stable (Flocq: two roundings of relative error 2^-53 keep
           fl(fl(k*s)/s) within 1/2 of k; exact for |k| = 2^51).  Beyond 2^51 the export is refuted
           (C02_refuted_scaled_huge); the window conjunct can fail for limits that are not grid points once the index
           exceeds about 2^50.68 (C02_refuted_scaled_window, new finding) - it is a decidable condition on the type,
           and C02_scaled_guard_easy proves it from either of two plain conditions: indices up to 2^50 with
           arbitrary finite limits, or indices up to 2^51 with limits on the grid (every client side type).
   (b64)   CPython's base64 codec enters per value: b64_ok E C d v says that every blob inside v is encoded by the codec
           C to a text that the table E decodes back to it (boolean; examples compute it).  A law for ALL byte strings
           cannot be met by a finite table, the theorems would be vacuous - it was replaced.
   (json kind)  C02_export_kind_sound: whenever export_value of a valid value returns (any tree, no guard), the result
           has the JSON kind SECoP prescribes (number for double - finite, hence strict JSON -, integer for
           int/scaled/enum, true/false, string, RFC 4648 text for blob - under the law that b64encode produces such
           text -, array, object over member names); C02_json_kind adds that within the guards it does return.
           Also checked on every case by Run.check_case and by the oracle.
   (client type)  C02_client_of_within_guards: the type rebuilt from the exported datainfo of a tree within the guards
           exists and is within the guards (scaled limits are rebuilt as grid values with the same indices), so the
           client theorems carry hypotheses on the node's tree only.  C02_client_same_values: the rebuilt type has
           the same valid values; C02_client_side_roundtrip: a value exported by the client side type (setParameter)
           survives import_value + validate on the node.
   (client) C02_client_imports_like_node - for every tree whose enums list their members by ascending code,
           import_value of the rebuilt type equals import_value of the node's type on EVERY json value; hence
           C02_client_roundtrip: the client obtains from the exported form the very value the node obtains, which
           validates to a value == v.
   (text)  C02_text_roundtrip (LemmasText.v): the text form is accepted back and maps to a value with the identical
           text form, equal to v on every non-float leaf, under the listed CPython codec laws, excluding by the
           boolean guard text_ok: -0.0 (C02_refuted_negzero_text), scaled values whose six digit text is re-gridded to
           a different text (C02_refuted_scaled_text, new finding), structs lacking optional members on a node side
           type.  setParameterFromString is from_string followed by the wire round trip: C02_setparam_roundtrip. *)
From Coq Require Import ZArith NArith Bool List.
Import ListNotations.
Require Import FV.Gen.C02 FV.Base.F64 FV.Base.PyVal FV.C01.Model FV.C01.Lemmas FV.C02.Model FV.C02.Run FV.C02.Lemmas
  FV.C02.LemmasNum FV.C02.LemmasScaled FV.C02.LemmasText FV.C02.LemmasClient FV.C02.LemmasKind
  FV.C02.LemmasClientGuards FV.C02.LemmasClientSide FV.C02.Refuted.

(* obligations on the facts regenerated from /repo (Gen/C02.v) *)
Theorem C02_source_facts :
  leaf_exports = true /\ container_exports = true /\ leaf_imports = true /\ container_imports = true /\
  generic_text_forms = true /\ leaf_text_forms = true /\ container_text_forms = true /\
  bool_false_words = false_words /\ bool_true_words = true_words /\ rebuild_rows = true /\
  string_maxchars_default = true /\ rebuilt_type_is_client = true /\ set_parameter_exports = true /\
  set_parameter_from_string_exports = true /\ client_update_imports = true /\
  cache_item_str_is_to_string = true /\ frames_are_plain_json = true.
Proof. repeat split; reflexivity. Qed.
Print Assumptions C02_source_facts.

Theorem C02_wire_roundtrip : forall E C,
  forall d, num_limits_ok d = true -> scaled_grid_small d = true ->
  forall v, valid d v = true -> b64_ok E C d v = true ->
  exists j w v', dt_export C d v = Ok j /\ dt_import E d j = Ok w /\ dt_validate d w PNone = Ok v' /\ py_eq v v' /\
                 w <> PNone.
Proof. exact wire_roundtrip_all. Qed.
Print Assumptions C02_wire_roundtrip.

(* the JSON kind, no guard on the tree: whenever export_value of a valid value returns, the result is of the kind
   prescribed for the type, and strict JSON (a valid double is finite, so neither NaN nor Infinity is exported;
   the open finding C06/nan-constant concerns constants of the description, not validated values).
   b64_text_law C: whatever b64encode answers is RFC 4648 text (a statement about CPython only) *)
Theorem C02_export_kind_sound : forall C, b64_text_law C ->
  forall d v j, valid d v = true -> dt_export C d v = Ok j -> kind_ok d j = true /\ strict_json j = true.
Proof.
  intros C HT d v j Hv H. split; [exact (export_kind_sound C HT d v j Hv H)|exact (export_strict C HT d v j Hv H)].
Qed.
Print Assumptions C02_export_kind_sound.

(* ... and within the guards of the wire round trip the exported form exists *)
Theorem C02_json_kind : forall E C, b64_text_law C ->
  forall d, num_limits_ok d = true -> scaled_grid_small d = true ->
  forall v, valid d v = true -> b64_ok E C d v = true ->
  exists j, dt_export C d v = Ok j /\ kind_ok d j = true /\ strict_json j = true.
Proof. intros E C HT. exact (json_kind C HT E). Qed.
Print Assumptions C02_json_kind.

(* the prescribed kind alone excludes NaN / Infinity *)
Theorem C02_kind_is_strict_json : forall d j, kind_ok d j = true -> strict_json j = true.
Proof. exact kind_strict. Qed.
Print Assumptions C02_kind_is_strict_json.

(* the scaled leaf in the model's own functions: for a positive normal scale s <= 2^970 and a grid index k with
   |k| <= 2^51, every float f that is numerically fl(k * s) is exported as k: round(f / s) = k *)
Theorem C02_scaled_grid_stable : forall s k kf f, scale_ok s = true -> (Z.abs k <= 2 ^ 51)%Z ->
  float_of_Z k = Some kf -> feq f (fmul kf s) = true ->
  scaled_export s (PFloat f) = Ok (PInt k).
Proof. exact scaled_export_grid. Qed.
Print Assumptions C02_scaled_grid_stable.

(* the two numeric leaf facts on their own *)
Theorem C02_int_leaf_exact : forall z, (Z.abs z <= 2 ^ 64)%Z -> int_call (PInt z) = Ok (PInt z).
Proof. intros z Hz. apply int_call_exact, of_Z_small_finite, Hz. Qed.
Print Assumptions C02_int_leaf_exact.

Theorem C02_float_leaf_unchanged : forall mn mx a r g,
  fis_finite mn = true -> fis_finite mx = true -> fis_finite r = true -> fis_finite g = true ->
  fle mn g = true -> fle g mx = true ->
  exists g', float_validate mn mx a r (PFloat g) = Ok (PFloat g') /\ fis_finite g' = true /\
             BinarySingleNaN.B2R g' = BinarySingleNaN.B2R g.
Proof. exact float_validate_in_range. Qed.
Print Assumptions C02_float_leaf_unchanged.

(* two simpler sufficient conditions for the scaled guard, per scaled leaf: (a) positive normal scale <= 2^970, finite
   limits and indices round(min/scale), round(max/scale) of magnitude at most 2^50, whatever the limits are; or
   (b) indices up to 2^51 and limits that are grid values themselves (every client side type) *)
Theorem C02_scaled_guard_easy : forall d, scaled_grid_easy d = true -> scaled_grid_small d = true.
Proof. exact scaled_grid_easy_small. Qed.
Print Assumptions C02_scaled_guard_easy.

(* setParameterFromString(text) = from_string, export_value, node import_value + validate: an accepted text with a valid
   value w leaves the node with a value equal to w *)
Theorem C02_setparam_roundtrip : forall C E d t w,
  num_limits_ok d = true -> scaled_grid_small d = true -> from_string C d t = Ok w -> valid d w = true ->
  b64_ok E C d w = true ->
  exists v', set_from_string C E d d t = Ok v' /\ py_eq w v'.
Proof. exact setparam_roundtrip_all. Qed.
Print Assumptions C02_setparam_roundtrip.

(* a tuple with one member is written (x,) and read back as a 1-tuple whose member is what __call__ makes of x *)
Theorem C02_one_tuple_text_accepted : forall C d1 x t w y,
  to_tree C d1 x = Ok t -> lit_eval C t = Some w -> dt_call d1 w = Ok y ->
  exists t1, to_string C (TTuple [d1]) (PTuple [x]) = Ok t1 /\ from_string C (TTuple [d1]) t1 = Ok (PTuple [y]).
Proof.
  intros C d1 x t w y H1 H2 H3. exists (PT1 t). split.
  - exact (one_tuple_to_tree C d1 x t H1).
  - exact (one_tuple_text_accepted C d1 t w y H2 H3).
Qed.
Print Assumptions C02_one_tuple_text_accepted.

(* the text encoding: for every codec obeying the listed laws of CPython (literal_eval(repr(x)) == x for int, bool, str,
   bytes; repr(True) = "True", repr(False) = "False"; the percent-g text of a finite float other than -0.0 denotes a
   number whose percent-g text is that text again), every tree with int limits within +-2^64, every valid value within
   the guard text_ok (no -0.0 leaf; scaled leaves whose six digit text re-grids to the same text; enum names without
   surrounding blanks or duplicates; no struct lacking optional members on a node side type): whenever the text form t
   exists, from_string accepts it, the value it returns has the identical text form (the same tree t, hence the same
   rendered text) and is equal to v on every leaf that is not a double or scaled leaf *)
Theorem C02_text_roundtrip : forall C, codec_laws C ->
  forall d v t, num_limits_ok d = true -> valid d v = true -> text_ok C d v = true -> to_string C d v = Ok t ->
  exists w, from_string C d t = Ok w /\ to_string C d w = Ok t /\ eq_nf d v w.
Proof. exact text_roundtrip_laws. Qed.
Print Assumptions C02_text_roundtrip.

(* the client side of every string type is the string type itself (limits included) *)
Theorem C02_client_string_faithful : forall minc maxc u, client_of (TString minc maxc u) = Ok (TString minc maxc u).
Proof. reflexivity. Qed.
Print Assumptions C02_client_string_faithful.

(* get_datatype(export_datatype()) imports exactly like the original, for every offered json value *)
Theorem C02_client_imports_like_node : forall E d, enums_sorted d -> forall dc, client_of d = Ok dc ->
  forall j, dt_import E dc j = dt_import E d j.
Proof. exact client_import_same. Qed.
Print Assumptions C02_client_imports_like_node.

(* the type the client rebuilds from the exported datainfo of a tree within the guards exists and is itself within
   every guard: scaled limits are rebuilt as round(limit/scale)*scale, grid values with the same indices
   (scaled_grid_aligned, which implies scaled_grid_easy and scaled_grid_small); sorted enums stay sorted *)
Theorem C02_client_of_within_guards : forall d, num_limits_ok d = true -> scaled_grid_small d = true ->
  exists dc, client_of d = Ok dc /\ num_limits_ok dc = true /\ scaled_grid_small dc = true /\
             scaled_grid_easy dc = true /\ scaled_grid_aligned dc = true /\ (enums_sorted d -> enums_sorted dc).
Proof. exact client_of_within_guards. Qed.
Print Assumptions C02_client_of_within_guards.

(* hypotheses on the node's tree only: the client side type exists, is within the guards, and the client obtains from
   the exported form of every valid value the very value w the node obtains, which validates to a value == v *)
Theorem C02_client_roundtrip : forall E C,
  forall d, num_limits_ok d = true -> scaled_grid_small d = true -> enums_sorted d ->
  exists dc, client_of d = Ok dc /\ num_limits_ok dc = true /\ scaled_grid_small dc = true /\ enums_sorted dc /\
  forall v, valid d v = true -> b64_ok E C d v = true ->
  exists j w v', dt_export C d v = Ok j /\ dt_import E dc j = Ok w /\ dt_import E d j = Ok w /\
                 dt_validate d w PNone = Ok v' /\ py_eq v v'.
Proof.
  intros E C d H1 H2 HS.
  destruct (client_of_within_guards d H1 H2) as (dc & Hc & G1 & G2 & _ & _ & G3).
  exists dc. repeat split; auto. intros v Hv Hb.
  destruct (wire_roundtrip_all E C d H1 H2 v Hv Hb) as (j & w & v' & A1 & A2 & A3 & A4 & _).
  exists j, w, v'. rewrite (client_import_same E d HS dc Hc j). auto.
Qed.
Print Assumptions C02_client_roundtrip.

(* the rebuilt type has exactly the valid values of the node's type (the regridded scaled limits select the same lowest
   and highest grid value; an optional list that names every member is written as "all members") *)
Theorem C02_client_same_values : forall d, scaled_grid_small d = true -> enums_sorted d ->
  forall dc, client_of d = Ok dc -> forall v, valid dc v = valid d v.
Proof. exact client_valid_same. Qed.
Print Assumptions C02_client_same_values.

(* the other direction (setParameter): a valid value of the client side type is a valid value of the node's type; exported
   by the client side type and handed to import_value + validate of the node it arrives as a value == v.  Hypotheses on
   the node's tree only *)
Theorem C02_client_side_roundtrip : forall E C,
  forall d, num_limits_ok d = true -> scaled_grid_small d = true -> enums_sorted d ->
  exists dc, client_of d = Ok dc /\
  forall v, valid dc v = true -> b64_ok E C dc v = true ->
  valid d v = true /\
  exists j w v', dt_export C dc v = Ok j /\ dt_import E d j = Ok w /\ dt_validate d w PNone = Ok v' /\ py_eq v v'.
Proof. exact client_side_roundtrip. Qed.
Print Assumptions C02_client_side_roundtrip.

(* non-vacuity: a nested type with enum, bool, string, int, double and scaled leaves (decimal scale 0.1, limits 0 and
   100 - the upper limit is not bit-identical to 1000 * 0.1) satisfies every guard, and a value with a grid point far
   from zero is valid *)
Definition s01' : f64 := fmk 3602879701896397 (-55).          (* 0.1 *)
Definition demo_d : dtype :=
  TStruct [([97%N], TArray (TEnum [([120%N], 1%Z); ([121%N], 2%Z)]) 0 3);
           ([98%N], TTuple [TBool; TString 0 5 false; TInt 0 5; TFloat fzero (of_Z 10) fzero fzero]);
           ([99%N], TScaled s01' fzero (of_Z 100))]
          [[98%N]] true.
Definition demo_v : pyval :=
  PDict [([97%N], PTuple [PEnum [121%N] 2; PEnum [120%N] 1]); ([99%N], PFloat (fmul (of_Z 997) s01'))].
Example C02_demo : valid demo_d demo_v = true /\ num_limits_ok demo_d = true /\ scaled_grid_small demo_d = true /\
  scaled_grid_easy demo_d = true /\
  res_same (dt_export C0 demo_d demo_v) (Ok (PDict [([97%N], PList [PInt 2; PInt 1]); ([99%N], PInt 997)])) = true.
Proof. repeat split; vm_compute; reflexivity. Qed.

(* non-vacuity of the per-value base64 hypothesis, of the b64encode law and of the JSON kind theorem: a codec and a
   b64decode table that know the blob b'hi' <-> 'aGk=', a tuple of a blob and the nested demo value; every hypothesis
   of C02_wire_roundtrip, C02_json_kind and C02_client_roundtrip computes to true, and the instantiated theorems give
   the exported form (of the prescribed kind, strict JSON) and the client side type (within the guards) *)
Definition TB : tables := {| t_b64 := [([104;105]%N, [97;71;107;61]%N)]; t_fmt := []; t_repr := []; t_lit := [] |}.
Definition CB : codec := codec_of TB.
Definition EB : pyenv := {| int_of := []; b64_of := [(false, [97;71;107;61]%N, [104;105]%N)] |}.
Lemma CB_text_law : b64_text_law CB.
Proof.
  intros b s. cbn [CB codec_of TB c_b64 t_b64 lookup_by].
  destruct (str_eqb b [104;105]%N); intros H; inversion H. vm_compute. reflexivity.
Qed.
Definition kind_d : dtype := TTuple [TBlob 0 10; demo_d].
Definition kind_v : pyval := PTuple [PBytes [104;105]%N; demo_v].
Example C02_kind_demo :
  valid kind_d kind_v = true /\ num_limits_ok kind_d = true /\ scaled_grid_small kind_d = true /\
  b64_ok EB CB kind_d kind_v = true /\ enums_sorted kind_d /\
  res_same (dt_export CB kind_d kind_v)
           (Ok (PList [PStr [97;71;107;61]%N; PDict [([97%N], PList [PInt 2; PInt 1]); ([99%N], PInt 997)]])) = true /\
  (exists j, dt_export CB kind_d kind_v = Ok j /\ kind_ok kind_d j = true /\ strict_json j = true) /\
  (exists j w v', dt_export CB kind_d kind_v = Ok j /\ dt_import EB kind_d j = Ok w /\
                  dt_validate kind_d w PNone = Ok v' /\ py_eq kind_v v' /\ w <> PNone) /\
  (exists dc, client_of kind_d = Ok dc /\ num_limits_ok dc = true /\ scaled_grid_small dc = true /\
              scaled_grid_easy dc = true /\ scaled_grid_aligned dc = true /\ (enums_sorted kind_d -> enums_sorted dc)).
Proof.
  assert (H1 : valid kind_d kind_v = true) by (vm_compute; reflexivity).
  assert (H2 : num_limits_ok kind_d = true) by (vm_compute; reflexivity).
  assert (H3 : scaled_grid_small kind_d = true) by (vm_compute; reflexivity).
  assert (H4 : b64_ok EB CB kind_d kind_v = true) by (vm_compute; reflexivity).
  split; [exact H1|]. split; [exact H2|]. split; [exact H3|]. split; [exact H4|].
  split; [cbn; repeat split; reflexivity|]. split; [vm_compute; reflexivity|].
  split; [exact (C02_json_kind EB CB CB_text_law kind_d H2 H3 kind_v H1 H4)|].
  split; [exact (C02_wire_roundtrip EB CB kind_d H2 H3 kind_v H1 H4)|].
  exact (C02_client_of_within_guards kind_d H2 H3).
Qed.

(* a valid value may not be NaN: the double leaf demands a finite value, so the strictness part of the kind theorem is
   about values that passed validation; nan itself is not valid for any double type *)
Example C02_nan_not_valid : forall mn mx a r, valid (TFloat mn mx a r) (PFloat fnan) = false.
Proof. intros. reflexivity. Qed.

(* the guard is sharp in both of its arithmetic conjuncts: the type of C02_refuted_scaled_window has a good scale and
   indices below 2^51 but fails the window conjunct; far_d has indices up to 2^51 and satisfies the guard *)
Example C02_guard_window_needed :
  scale_ok sw_s = true /\ (Z.abs (scaled_k sw_s sw_mn) <=? 2 ^ 51)%Z = true /\
  (Z.abs (scaled_k sw_s sw_mx) <=? 2 ^ 51)%Z = true /\ scaled_leaf_small sw_s sw_mn sw_mx = false.
Proof. repeat split; vm_compute; reflexivity. Qed.
Definition far_d : dtype := TScaled s01' (fmul (of_Z (2 ^ 51 - 1000)) s01') (fmul (of_Z (2 ^ 51)) s01').
Example C02_guard_reaches_2_51 :
  scaled_grid_small far_d = true /\ scaled_grid_easy far_d = true /\ valid far_d (PFloat (fmul (of_Z (2 ^ 51 - 1)) s01')) = true.
Proof. repeat split; vm_compute; reflexivity. Qed.

(* non-vacuity of the text theorem: a tabulated codec that satisfies every law, and a nested value (struct, tuple, int,
   double, string, bool, scaled) within all guards whose text is {'a': (5, 2.5, 'a', True, 2.5)} *)
Definition f25 : f64 := fmk 5 (-1).
Definition TX : tables :=
  {| t_b64 := [];
     t_fmt := [(f25, [50;46;53]%N)];
     t_repr := [(PInt 5, [53]%N); (PStr [97%N], [39;97;39]%N); (PBool true, [84;114;117;101]%N);
                (PBool false, [70;97;108;115;101]%N)];
     t_lit := [([53]%N, PInt 5); ([39;97;39]%N, PStr [97%N]); ([84;114;117;101]%N, PBool true);
               ([70;97;108;115;101]%N, PBool false); ([50;46;53]%N, PFloat f25)] |}.
Definition CX : codec := codec_of TX.

Lemma CX_laws : codec_laws CX.
Proof.
  constructor.
  - intros z s. cbn [CX codec_of TX c_repr c_lit t_repr t_lit lookup_by pv_same].
    destruct (Z.eqb z 5) eqn:E; intros H; inversion H. apply Z.eqb_eq in E. subst. vm_compute. reflexivity.
  - intros b s. destruct b; cbn [CX codec_of TX c_repr c_lit t_repr t_lit lookup_by pv_same Bool.eqb];
      intros H; inversion H; vm_compute; reflexivity.
  - intros s. cbn [CX codec_of TX c_repr c_lit t_repr t_lit lookup_by pv_same Bool.eqb]. intros H. inversion H. reflexivity.
  - intros s. cbn [CX codec_of TX c_repr c_lit t_repr t_lit lookup_by pv_same Bool.eqb]. intros H. inversion H. reflexivity.
  - intros x s. cbn [CX codec_of TX c_repr c_lit t_repr t_lit lookup_by pv_same].
    destruct (str_eqb x [97%N]) eqn:E; intros H; inversion H. apply str_eqb_eq in E. subst. vm_compute. reflexivity.
  - intros x s. cbn [CX codec_of TX c_repr c_lit t_repr t_lit lookup_by pv_same]. discriminate.
  - intros f s _ _. cbn [CX codec_of TX c_fmt t_fmt lookup_by].
    destruct (fsame f f25); intros H; inversion H.
    exists (PFloat f25), (fadd f25 fzero). repeat split; vm_compute; reflexivity.
Qed.

Definition text_d : dtype :=
  TStruct [([97%N], TTuple [TInt 0 5; TFloat fzero (of_Z 10) fzero fzero; TString 0 5 false; TBool;
                           TScaled (fmk 1 (-1)) fzero (of_Z 10)])] [] false.
Definition text_v : pyval := PDict [([97%N], PTuple [PInt 5; PFloat f25; PStr [97%N]; PBool true; PFloat f25])].
Definition text_t : ptree :=
  PB [([39;97;39]%N, PP [PA [53]%N; PA [50;46;53]%N; PA [39;97;39]%N; PA [84;114;117;101]%N; PA [50;46;53]%N])].
Example C02_text_demo :
  num_limits_ok text_d = true /\ scaled_grid_small text_d = true /\ valid text_d text_v = true /\
  text_ok CX text_d text_v = true /\
  (exists w, from_string CX text_d text_t = Ok w /\ to_string CX text_d w = Ok text_t /\ eq_nf text_d text_v w).
Proof.
  assert (H1 : num_limits_ok text_d = true) by (vm_compute; reflexivity).
  assert (H2 : valid text_d text_v = true) by (vm_compute; reflexivity).
  assert (H3 : text_ok CX text_d text_v = true) by (vm_compute; reflexivity).
  assert (H4 : to_string CX text_d text_v = Ok text_t) by (vm_compute; reflexivity).
  split; [exact H1|]. split; [vm_compute; reflexivity|]. split; [exact H2|]. split; [exact H3|].
  exact (C02_text_roundtrip CX CX_laws text_d text_v text_t H1 H2 H3 H4).
Qed.
