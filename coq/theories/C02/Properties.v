(* C02 - Valid values survive the wire encoding and the text encoding unchanged: property theorems.
   d ranges over ALL datatype trees (any depth/width), v over all valid values (Lemmas.valid: the C01 value set in
   canonical form, finite floats, distinct struct keys, required members present), C over every codec (CPython's
   b64encode / "%g" / repr / literal_eval as functions), E over every tabulation of b64decode.

   Full statement and what is proved here:
   (wire)  export succeeds and import_value+validate on the node gives back a value equal (python ==) to v
           -- C02_wire_roundtrip_except_scaled: proved for all trees whose double leaves have finite limits and
              resolution and whose int leaves have limits within +-2^64 (what the constructors guarantee); bool, enum,
              string, blob, int and double leaves and all containers (arrays, tuples, structs incl. the partial structs
              of the client side) are proved, the double/int leaves through Flocq (x+0.0, clamp to +-max, tolerance
              test, clamp to the limits keep an in-range number; int -> float -> round is exact).  Only for SCALED
              leaf types the arithmetic fact (every grid value round-trips) remains the hypothesis num_rt: it is false
              beyond 2^51 (C02_refuted_scaled_huge, open finding) and exercised by the correspondence.
   (json kind)  checked by Run.check_case (kind_ok, strict_json on the model's export) and by the oracle; no theorem.
   (client) the client side type (string rebuild repaired by 414a5ee): C02_client_imports_like_node - for every tree
           whose enums list their members by ascending code, import_value of the rebuilt type equals import_value of
           the node's type on EVERY json value; hence C02_client_roundtrip_except_scaled: the client obtains from the
           exported form the very value the node obtains, which validates to a value == v.
   (text)  refuted for -0.0 (C02_refuted_negzero_text); 1-tuples (repaired by 5f8afed) are written (x,) and accepted
           back: C02_one_tuple_text_accepted; otherwise correspondence + oracle only.  setParameterFromString (repaired by 7a693b7: it now exports) is from_string
           followed by the wire round trip: C02_setparam_roundtrip_except_scaled. *)
From Coq Require Import ZArith NArith Bool List.
Import ListNotations.
Require Import FV.Gen.C02 FV.Base.F64 FV.Base.PyVal FV.C01.Model FV.C01.Lemmas FV.C02.Model FV.C02.Run FV.C02.Lemmas
  FV.C02.LemmasNum FV.C02.LemmasClient FV.C02.Refuted.

(* obligations on the facts regenerated from /repo (Gen/C02.v) *)
Theorem C02_source_facts :
  leaf_exports = true /\ container_exports = true /\ leaf_imports = true /\ container_imports = true /\
  generic_text_forms = true /\ leaf_text_forms = true /\ container_text_forms = true /\
  bool_false_words = false_words /\ bool_true_words = true_words /\ rebuild_rows = true /\
  string_maxchars_default = true /\ rebuilt_type_is_client = true /\ set_parameter_exports = true /\
  set_parameter_from_string_exports = true /\ client_update_imports = true /\
  cache_item_str_is_to_string = true /\ frames_are_plain_json = true.
Proof. repeat split; reflexivity. Qed.
Print Assumptions C02_source_facts.

Theorem C02_wire_roundtrip_except_scaled : forall E C, b64_law E C ->
  forall d, num_leaves (leaf_ok E C) d -> forall v, valid d v = true ->
  exists j w v', dt_export C d v = Ok j /\ dt_import E d j = Ok w /\ dt_validate d w PNone = Ok v' /\ py_eq v v' /\
                 w <> PNone.
Proof. exact wire_roundtrip_except_scaled. Qed.
Print Assumptions C02_wire_roundtrip_except_scaled.

(* the two numeric leaf facts on their own *)
Theorem C02_int_leaf_exact : forall z, (Z.abs z <= 2 ^ 64)%Z -> int_call (PInt z) = Ok (PInt z).
Proof. intros z Hz. apply int_call_exact, of_Z_small_finite, Hz. Qed.
Print Assumptions C02_int_leaf_exact.

Theorem C02_float_leaf_unchanged : forall mn mx a r g,
  fis_finite mn = true -> fis_finite mx = true -> fis_finite r = true -> fis_finite g = true ->
  fle mn g = true -> fle g mx = true ->
  exists g', float_validate mn mx a r (PFloat g) = Ok (PFloat g') /\ fis_finite g' = true /\
             BinarySingleNaN.B2R g' = BinarySingleNaN.B2R g.
Proof. exact float_validate_in_range. Qed.
Print Assumptions C02_float_leaf_unchanged.

(* setParameterFromString(text) = from_string, export_value, node import_value + validate: an accepted text with a valid
   value w leaves the node with a value equal to w *)
Theorem C02_setparam_roundtrip_except_scaled : forall C E d t w,
  b64_law E C -> num_leaves (leaf_ok E C) d -> from_string C d t = Ok w -> valid d w = true ->
  exists v', set_from_string C E d d t = Ok v' /\ py_eq w v'.
Proof. exact setparam_roundtrip_except_scaled. Qed.
Print Assumptions C02_setparam_roundtrip_except_scaled.

(* a tuple with one member is written (x,) and read back as a 1-tuple whose member is what __call__ makes of x *)
Theorem C02_one_tuple_text_accepted : forall C d1 x t w y,
  to_tree C d1 x = Ok t -> lit_eval C t = Some w -> dt_call d1 w = Ok y ->
  exists t1, to_string C (TTuple [d1]) (PTuple [x]) = Ok t1 /\ from_string C (TTuple [d1]) t1 = Ok (PTuple [y]).
Proof.
  intros C d1 x t w y H1 H2 H3. exists (PT1 t). split.
  - exact (one_tuple_to_tree C d1 x t H1).
  - exact (one_tuple_text_accepted C d1 t w y H2 H3).
Qed.
Print Assumptions C02_one_tuple_text_accepted.

(* the client side of every string type is the string type itself (limits included) *)
Theorem C02_client_string_faithful : forall minc maxc u, client_of (TString minc maxc u) = Ok (TString minc maxc u).
Proof. reflexivity. Qed.
Print Assumptions C02_client_string_faithful.

(* get_datatype(export_datatype()) imports exactly like the original, for every offered json value *)
Theorem C02_client_imports_like_node : forall E d, enums_sorted d -> forall dc, client_of d = Ok dc ->
  forall j, dt_import E dc j = dt_import E d j.
Proof. exact client_import_same. Qed.
Print Assumptions C02_client_imports_like_node.

Theorem C02_client_roundtrip_except_scaled : forall E C, b64_law E C ->
  forall d dc, num_leaves (leaf_ok E C) d -> enums_sorted d -> client_of d = Ok dc -> forall v, valid d v = true ->
  exists j w v', dt_export C d v = Ok j /\ dt_import E dc j = Ok w /\ dt_import E d j = Ok w /\
                 dt_validate d w PNone = Ok v' /\ py_eq v v'.
Proof.
  intros E C HB d dc HL HS Hc v Hv.
  destruct (wire_roundtrip_except_scaled E C HB d HL v Hv) as (j & w & v' & H1 & H2 & H3 & H4 & _).
  exists j, w, v'. rewrite (client_import_same E d HS dc Hc j). auto.
Qed.
Print Assumptions C02_client_roundtrip_except_scaled.

(* non-vacuity: a nested type with int and double leaves satisfies every hypothesis of the round trip *)
Definition demo_d : dtype :=
  TStruct [([97%N], TArray (TEnum [([120%N], 1%Z); ([121%N], 2%Z)]) 0 3);
           ([98%N], TTuple [TBool; TString 0 5 false; TInt 0 5; TFloat fzero (of_Z 10) fzero fzero])]
          [[98%N]] true.
Definition demo_v : pyval := PDict [([97%N], PTuple [PEnum [121%N] 2; PEnum [120%N] 1])].
Example C02_demo : valid demo_d demo_v = true /\ num_leaves (leaf_ok E0 C0) demo_d /\
  res_same (dt_export C0 demo_d demo_v) (Ok (PDict [([97%N], PList [PInt 2; PInt 1])])) = true.
Proof.
  split; [vm_compute; reflexivity|]. split; [|vm_compute; reflexivity].
  cbn [num_leaves demo_d snd leaf_ok]. repeat split; try reflexivity; vm_compute; discriminate.
Qed.
