(* C02 - Valid values survive the wire encoding and the text encoding unchanged: property theorems.
   d ranges over ALL datatype trees (any depth/width), v over all valid values (Lemmas.valid: the C01 value set in
   canonical form, finite floats, distinct struct keys, required members present), C over every codec (CPython's
   b64encode / "%g" / repr / literal_eval as functions), E over every tabulation of b64decode.

   Full statement and what is proved here:
   (wire)  export succeeds and import_value+validate on the node gives back a value equal (python ==) to v
           -- C02_wire_roundtrip_partial: proved for all trees; the binary64 arithmetic of the numeric LEAF types
              (double, int, scaled) enters as the hypothesis num_leaves num_rt (round trip of every valid value of each
              numeric leaf type); it is false for scaled grids beyond 2^51 (C02_refuted_scaled_huge) and is exercised
              by the correspondence on every generated case.  bool, enum, string, blob leaves and all containers
              (arrays, tuples, structs incl. partial structs of the client side) are proved.
   (json kind)  checked by Run.check_case (kind_ok, strict_json on the model's export) and by the oracle; no theorem.
   (client) the client side type: refuted for strings with minchars>0 and no maxchars (C02_client_string_collapses,
           C02_refuted_client_string); otherwise correspondence + oracle only.
   (text)  refuted for 1-tuples (C02_one_tuple_text_refused), -0.0 (C02_refuted_negzero_text) and through
           setParameterFromString for enum/blob/scaled (the C02_setparam theorems); otherwise correspondence + oracle only;
           C02_setparam_exported_roundtrip shows that with export_value the text path reduces to the wire round trip. *)
From Coq Require Import ZArith NArith Bool List.
Import ListNotations.
Require Import FV.Gen.C02 FV.Base.F64 FV.Base.PyVal FV.C01.Model FV.C01.Lemmas FV.C02.Model FV.C02.Run FV.C02.Lemmas
  FV.C02.Refuted.

(* obligations on the facts regenerated from /repo (Gen/C02.v) *)
Theorem C02_source_facts :
  leaf_exports = true /\ container_exports = true /\ leaf_imports = true /\ container_imports = true /\
  generic_text_forms = true /\ leaf_text_forms = true /\ container_text_forms = true /\
  bool_false_words = false_words /\ bool_true_words = true_words /\ rebuild_rows = true /\
  string_maxchars_default = true /\ rebuilt_type_is_client = true /\ set_parameter_exports = true /\
  set_parameter_from_string_exports = false /\ client_update_imports = true /\
  cache_item_str_is_to_string = true /\ frames_are_plain_json = true.
Proof. repeat split; reflexivity. Qed.
Print Assumptions C02_source_facts.

Theorem C02_wire_roundtrip_partial : forall E C, b64_law E C ->
  forall d, num_leaves (num_rt E C) d -> forall v, valid d v = true ->
  exists j w v', dt_export C d v = Ok j /\ dt_import E d j = Ok w /\ dt_validate d w PNone = Ok v' /\ py_eq v v' /\
                 w <> PNone.
Proof. exact wire_roundtrip. Qed.
Print Assumptions C02_wire_roundtrip_partial.

Theorem C02_setparam_exported_roundtrip : forall C E d t w,
  b64_law E C -> num_leaves (num_rt E C) d -> from_string C d t = Ok w -> valid d w = true ->
  exists v', set_from_string_exported C E d d t = Ok v' /\ py_eq w v'.
Proof. exact setparam_exported_roundtrip. Qed.
Print Assumptions C02_setparam_exported_roundtrip.

Theorem C02_one_tuple_text_refused : forall C d1 t w,
  lit_eval C t = Some w -> py_len w = None -> from_string C (TTuple [d1]) (PP [t]) = Err EWrongType.
Proof. exact one_tuple_text_refused. Qed.
Print Assumptions C02_one_tuple_text_refused.

Theorem C02_setparam_enum_unserialisable : forall C E dc d t n z,
  from_string C dc t = Ok (PEnum n z) -> set_from_string C E dc d t = Err EType.
Proof. exact setparam_enum_unserialisable. Qed.
Print Assumptions C02_setparam_enum_unserialisable.

Theorem C02_setparam_bytes_unserialisable : forall C E dc d t b,
  from_string C dc t = Ok (PBytes b) -> set_from_string C E dc d t = Err EType.
Proof. exact setparam_bytes_unserialisable. Qed.
Print Assumptions C02_setparam_bytes_unserialisable.

Theorem C02_setparam_scaled_truncates : forall C E dc s mn mx t f,
  from_string C dc t = Ok (PFloat f) ->
  set_from_string C E dc (TScaled s mn mx) t = scaled_import E s (PFloat f) >>= fun v => scaled_validate s mn mx v.
Proof. exact setparam_scaled_truncates. Qed.
Print Assumptions C02_setparam_scaled_truncates.

Theorem C02_client_string_collapses : forall minc u, minc <> 0%Z ->
  client_of (TString minc UNLIMITED u) = Ok (TString minc minc u).
Proof. exact client_string_collapses. Qed.
Print Assumptions C02_client_string_collapses.

(* non-vacuity: a nested type without numeric leaves satisfies every hypothesis of the round trip *)
Definition demo_d : dtype :=
  TStruct [([97%N], TArray (TEnum [([120%N], 1%Z); ([121%N], 2%Z)]) 0 3); ([98%N], TTuple [TBool; TString 0 5 false])]
          [[98%N]] true.
Definition demo_v : pyval := PDict [([97%N], PTuple [PEnum [121%N] 2; PEnum [120%N] 1])].
Example C02_demo : valid demo_d demo_v = true /\ num_leaves (num_rt E0 C0) demo_d /\
  res_same (dt_export C0 demo_d demo_v) (Ok (PDict [([97%N], PList [PInt 2; PInt 1])])) = true.
Proof. split; [vm_compute; reflexivity|]. split; [cbn; tauto|vm_compute; reflexivity]. Qed.
