From Coq Require Import List ZArith NArith Bool.
Import ListNotations.
Require Import FV.Gen.C02 FV.Base.PyVal FV.C01.Model FV.C02.Model.

Theorem C02_source_facts :
  leaf_exports = true /\ container_exports = true /\ leaf_imports = true /\ container_imports = true /\
  generic_text_forms = true /\ leaf_text_forms = true /\ container_text_forms = true /\
  bool_false_words = false_words /\ bool_true_words = true_words /\ rebuild_rows = true /\
  string_maxchars_default = true /\ rebuilt_type_is_client = true /\ set_parameter_exports = true /\
  set_parameter_from_string_exports = false /\ client_update_imports = true /\
  cache_item_str_is_to_string = true /\ frames_are_plain_json = true.
Proof. repeat split; reflexivity. Qed.
Print Assumptions C02_source_facts.
