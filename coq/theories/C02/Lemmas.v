(* C02 - value set, equality of values, and the round trip through the wire encoding:
   structural induction over all datatype trees; the binary64 arithmetic of the numeric leaves enters through
   the predicate num_rt (proved for nothing here, validated by the correspondence; refuted for huge scaled grids). *)
From Coq Require Import ZArith NArith Bool List Lia.
Import ListNotations.
Require Import FV.Base.Util FV.Base.F64 FV.Base.PyVal FV.C01.Model FV.C01.Lemmas FV.C02.Model.

Lemma dtype_ind' (P : dtype -> Prop) :
  (forall a b c d, P (TFloat a b c d)) -> (forall a b, P (TInt a b)) -> (forall a b c, P (TScaled a b c)) ->
  P TBool -> (forall ms, P (TEnum ms)) -> (forall a b u, P (TString a b u)) -> (forall a b, P (TBlob a b)) ->
  (forall e a b, P e -> P (TArray e a b)) ->
  (forall l, Forall P l -> P (TTuple l)) ->
  (forall ms o c, Forall (fun p => P (snd p)) ms -> P (TStruct ms o c)) ->
  forall d, P d.
Proof.
  intros Hf Hi Hs Hb He Hst Hbl Ha Ht Hstr.
  fix IH 1. intros [a b c d|a b|a b c| |ms|a b u|a b|e a b|l|ms o c];
    [apply Hf|apply Hi|apply Hs|apply Hb|apply He|apply Hst|apply Hbl| | |].
  - apply Ha, IH.
  - apply Ht. induction l as [|x l IHl]; constructor; [apply IH|exact IHl].
  - apply Hstr. induction ms as [|[n x] ms IHms]; constructor; [apply IH|exact IHms].
Qed.

(* ------------------------------------------------------------------ the valid values (specification side) *)
Fixpoint keys_nodup (l : list str) : bool :=
  match l with [] => true | k :: r => negb (mem_str k r) && keys_nodup r end.

(* a value of a scaled type lies on the grid of its scale: it is (numerically) k * scale for the integer
   k = round(value / scale) *)
Definition on_grid (s f : f64) : bool :=
  match float_of_Z (fround (fdiv f s)) with
  | Some kf => feq (fmul kf s) f
  | None => false
  end.

(* the value set of C01 (limits, lengths, membership, element-wise) in canonical internal form, plus: floats are
   finite, scaled values are grid points, struct keys are distinct, and the mandatory members of a struct are present
   (optional members may be missing, on the node as well as on the client: validate accepts and export_value
   transports such values) *)
Fixpoint valid (d : dtype) (v : pyval) {struct d} : bool :=
  match d, v with
  | TFloat mn mx _ _, PFloat f => fis_finite f && in_setb d v
  | TScaled s _ _, PFloat f => in_setb d v && on_grid s f
  | TArray e a b, PTuple l =>
      (a <=? Z.of_nat (length l))%Z && (Z.of_nat (length l) <=? b)%Z && forallb (valid e) l
  | TTuple es, PTuple l =>
      (fix go (ds : list dtype) (l : list pyval) : bool :=
         match ds, l with
         | [], [] => true
         | d1 :: ds', x :: r => valid d1 x && go ds' r
         | _, _ => false
         end) es l
  | TStruct ms opt client, PDict kv =>
      keys_nodup (map fst kv) &&
      forallb (fun p : str * pyval =>
                 (fix find (ms : list (str * dtype)) : bool :=
                    match ms with
                    | [] => false
                    | (n, d1) :: ms' => if str_eqb (fst p) n then valid d1 (snd p) else find ms'
                    end) ms) kv &&
      forallb (fun n => mem_str n (map fst kv) || mem_str n opt) (map fst ms)
  | TArray _ _ _, _ | TTuple _, _ | TStruct _ _ _, _ => false
  | _, _ => in_setb d v
  end.

Lemma valid_tuple es l : valid (TTuple es) (PTuple l) = all2 valid es l.
Proof.
  cbn [valid]. revert l. induction es as [|d1 es IH]; destruct l as [|x l]; cbn; try reflexivity.
  rewrite IH. reflexivity.
Qed.
Lemma valid_struct ms o c kv : valid (TStruct ms o c) (PDict kv) =
  keys_nodup (map fst kv) && forallb (entry_ok valid ms) kv &&
  forallb (fun n => mem_str n (map fst kv) || mem_str n o) (map fst ms).
Proof. reflexivity. Qed.

(* python == on canonical values *)
Inductive py_eq : pyval -> pyval -> Prop :=
| PE_float a b : feq a b = true -> py_eq (PFloat a) (PFloat b)
| PE_int z : py_eq (PInt z) (PInt z)
| PE_bool b : py_eq (PBool b) (PBool b)
| PE_str s : py_eq (PStr s) (PStr s)
| PE_bytes s : py_eq (PBytes s) (PBytes s)
| PE_enum n n' z : py_eq (PEnum n z) (PEnum n' z)        (* EnumMember.__eq__ compares the codes *)
| PE_tuple l l' : Forall2 py_eq l l' -> py_eq (PTuple l) (PTuple l')
| PE_dict kv kv' : Forall2 (fun p q => fst p = fst q /\ py_eq (snd p) (snd q)) kv kv' -> py_eq (PDict kv) (PDict kv').

Lemma py_eq_not_none v w : py_eq v w -> w <> PNone.
Proof. intros H; inversion H; discriminate. Qed.

(* types of the numeric leaves of a type tree satisfy L *)
Fixpoint num_leaves (L : dtype -> Prop) (d : dtype) : Prop :=
  match d with
  | TFloat _ _ _ _ | TInt _ _ | TScaled _ _ _ => L d
  | TArray e _ _ => num_leaves L e
  | TTuple es => (fix go (l : list dtype) : Prop := match l with [] => True | x :: r => num_leaves L x /\ go r end) es
  | TStruct ms _ _ =>
      (fix go (l : list (str * dtype)) : Prop := match l with [] => True | x :: r => num_leaves L (snd x) /\ go r end) ms
  | _ => True
  end.

Lemma num_leaves_tuple L es : num_leaves L (TTuple es) <-> Forall (num_leaves L) es.
Proof.
  cbn. induction es as [|x r IH].
  - split; intros; [constructor|exact I].
  - split; intros H.
    + destruct H as [H1 H2]. constructor; [exact H1|apply IH, H2].
    + inversion H; subst. split; [assumption|apply IH; assumption].
Qed.
Lemma num_leaves_struct L ms o c : num_leaves L (TStruct ms o c) <-> Forall (fun p => num_leaves L (snd p)) ms.
Proof.
  cbn. induction ms as [|x r IH].
  - split; intros; [constructor|exact I].
  - split; intros H.
    + destruct H as [H1 H2]. constructor; [exact H1|apply IH, H2].
    + inversion H; subst. split; [assumption|apply IH; assumption].
Qed.

Section RT.
Variable E : pyenv.
Variable C : codec.

(* the round trip of one value through export, import on the node and validation *)
Definition rt (d : dtype) (v : pyval) : Prop :=
  exists j w v', dt_export C d v = Ok j /\ dt_import E d j = Ok w /\ dt_validate d w PNone = Ok v' /\ py_eq v v' /\ w <> PNone.

(* ... for every valid value of a (numeric leaf) type: a fact of binary64 arithmetic *)
Definition num_rt (d : dtype) : Prop := forall v, valid d v = true -> rt d v.

(* what CPython's base64 codec contributes, stated per value (a statement for ALL byte strings could not be met by
   the finite table E, it would make every theorem below vacuous): decoding (as tabulated in E) inverts the
   encoding of every blob that occurs in the value.  Boolean, so that examples discharge it by computation. *)
Definition b64_rt (b : str) : bool :=
  match c_b64 C b with
  | Some s => match lookup_sb false s (b64_of E) with Some b' => str_eqb b' b | None => false end
  | None => false
  end.

Fixpoint b64_ok (d : dtype) (v : pyval) {struct d} : bool :=
  match d, v with
  | TBlob _ _, PBytes b => b64_rt b
  | TArray e _ _, PTuple l => forallb (b64_ok e) l
  | TTuple es, PTuple l =>
      (fix go (ds : list dtype) (l : list pyval) : bool :=
         match ds, l with
         | [], [] => true
         | d1 :: ds', x :: r => b64_ok d1 x && go ds' r
         | _, _ => false
         end) es l
  | TStruct ms _ _, PDict kv =>
      forallb (fun p : str * pyval =>
                 (fix find (ms : list (str * dtype)) : bool :=
                    match ms with
                    | [] => false
                    | (n, d1) :: ms' => if str_eqb (fst p) n then b64_ok d1 (snd p) else find ms'
                    end) ms) kv
  | _, _ => true
  end.

Lemma b64_ok_tuple es l : b64_ok (TTuple es) (PTuple l) = all2 b64_ok es l.
Proof.
  cbn [b64_ok]. revert l. induction es as [|d1 es IH]; destruct l as [|x l]; cbn; try reflexivity.
  rewrite IH. reflexivity.
Qed.
Lemma b64_ok_struct ms o c kv : b64_ok (TStruct ms o c) (PDict kv) = forallb (entry_ok b64_ok ms) kv.
Proof. reflexivity. Qed.

Lemma b64_rt_law b : b64_rt b = true -> exists s, c_b64 C b = Some s /\ lookup_sb false s (b64_of E) = Some b.
Proof.
  unfold b64_rt. destruct (c_b64 C b) as [s|]; [|discriminate].
  destruct (lookup_sb false s (b64_of E)) as [b'|] eqn:L; [|discriminate].
  intros H. apply str_eqb_eq in H. subst. eauto.
Qed.

(* the values the round trip is stated for: valid, and every blob inside obeys the base64 law *)
Definition vb (d : dtype) (v : pyval) : bool := valid d v && b64_ok d v.

Lemma forallb_andb {A} (f g : A -> bool) l :
  forallb f l = true -> forallb g l = true -> forallb (fun x => f x && g x) l = true.
Proof.
  induction l as [|x l IH]; cbn; [reflexivity|]. intros H1 H2. apply andb_prop in H1. apply andb_prop in H2.
  destruct H1 as [A1 A2], H2 as [B1 B2]. rewrite A1, B1. cbn. auto.
Qed.
Lemma all2_andb (P Q : dtype -> pyval -> bool) es : forall l,
  all2 P es l = true -> all2 Q es l = true -> all2 (fun d v => P d v && Q d v) es l = true.
Proof.
  induction es as [|d1 es IH]; intros [|x l]; cbn; try discriminate; [reflexivity|]. intros H1 H2.
  apply andb_prop in H1. apply andb_prop in H2. destruct H1 as [A1 A2], H2 as [B1 B2]. rewrite A1, B1. cbn. auto.
Qed.
Lemma entry_ok_andb (P Q : dtype -> pyval -> bool) ms p :
  entry_ok P ms p = true -> entry_ok Q ms p = true -> entry_ok (fun d v => P d v && Q d v) ms p = true.
Proof.
  induction ms as [|[n d1] ms IH]; [discriminate|].
  change (entry_ok P ((n, d1) :: ms) p) with (if str_eqb (fst p) n then P d1 (snd p) else entry_ok P ms p).
  change (entry_ok Q ((n, d1) :: ms) p) with (if str_eqb (fst p) n then Q d1 (snd p) else entry_ok Q ms p).
  change (entry_ok (fun d v => P d v && Q d v) ((n, d1) :: ms) p)
    with (if str_eqb (fst p) n then P d1 (snd p) && Q d1 (snd p) else entry_ok (fun d v => P d v && Q d v) ms p).
  destruct (str_eqb (fst p) n); [intros H1 H2; rewrite H1, H2; reflexivity|exact IH].
Qed.

(* ---------------------------------------------------------------- combinator steps *)
Lemma map_res_cons f x r : map_res f (x :: r) = (f x >>= fun y => map_res f r >>= fun ys => Ok (y :: ys)).
Proof. reflexivity. Qed.
Lemma mapd_res_cons f d1 ds x r :
  mapd_res f (d1 :: ds) (x :: r) = (f d1 x >>= fun y => mapd_res f ds r >>= fun ys => Ok (y :: ys)).
Proof. reflexivity. Qed.

Lemma map_chain e l : forallb (vb e) l = true -> (forall v, vb e v = true -> rt e v) ->
  exists js ws vs, map_res (dt_export C e) l = Ok js /\ map_res (dt_import E e) js = Ok ws /\
    map_res (fun x => dt_validate e x PNone) ws = Ok vs /\ Forall2 py_eq l vs /\ length ws = length l /\
    length js = length l.
Proof.
  intros Hv IH. induction l as [|x l IHl].
  - exists [], [], []. repeat split; constructor.
  - cbn in Hv. apply andb_prop in Hv. destruct Hv as [Hx Hl].
    destruct (IH x Hx) as (j & w & v' & H1 & H2 & H3 & H4 & H5).
    destruct (IHl Hl) as (js & ws & vs & G1 & G2 & G3 & G4 & G5 & G6).
    exists (j :: js), (w :: ws), (v' :: vs). rewrite !map_res_cons, H1, H2, H3, G1, G2, G3. cbn.
    repeat split; [constructor; assumption|congruence|congruence].
Qed.

Lemma mapd_chain es : Forall (fun d => forall v, vb d v = true -> rt d v) es ->
  forall l, all2 vb es l = true ->
  exists js ws vs, mapd_res (dt_export C) es l = Ok js /\ mapd_res (dt_import E) es js = Ok ws /\
    mapd_res (fun d x => dt_validate d x PNone) es ws = Ok vs /\ Forall2 py_eq l vs /\
    length ws = length l /\ length js = length l.
Proof.
  induction es as [|d1 es IHes]; intros HF [|x l] Hv; cbn in Hv; try discriminate.
  - exists [], [], []. repeat split; constructor.
  - apply andb_prop in Hv. destruct Hv as [Hx Hl]. inversion HF as [|? ? Hd HF']; subst.
    destruct (Hd x Hx) as (j & w & v' & H1 & H2 & H3 & H4 & H5).
    destruct (IHes HF' l Hl) as (js & ws & vs & G1 & G2 & G3 & G4 & G5 & G6).
    exists (j :: js), (w :: ws), (v' :: vs). rewrite !mapd_res_cons, H1, H2, H3, G1, G2, G3. cbn.
    repeat split; [constructor; assumption|congruence|congruence].
Qed.

(* ---------------------------------------------------------------- structs *)
Definition keys {A} (l : list (str * A)) : list str := map fst l.

Lemma mem_str_eq k l : mem_str k l = true <-> exists k', In k' l /\ str_eqb k k' = true.
Proof.
  induction l as [|x l IH]; cbn.
  - split; [discriminate|intros (k' & [] & _)].
  - rewrite orb_true_iff, IH. split.
    + intros [H|(k' & Hi & He)]; [exists x; auto|exists k'; auto].
    + intros (k' & [Hx|Hi] & He); [subst; auto|right; exists k'; auto].
Qed.

Lemma dict_set_fresh {A} k (y : A) acc : mem_str k (keys acc) = false -> dict_set k y acc = acc ++ [(k, y)].
Proof.
  induction acc as [|[k' v'] acc IH]; cbn; [reflexivity|]. intros H. apply orb_false_elim in H. destruct H as [H1 H2].
  rewrite H1, (IH H2). reflexivity.
Qed.

Lemma mem_str_app k a b : mem_str k (a ++ b) = mem_str k a || mem_str k b.
Proof. induction a as [|x a IH]; cbn; [reflexivity|]. rewrite IH, orb_assoc. reflexivity. Qed.

(* one entry: member lookup, then the three conversions *)
Lemma member_chain ms : Forall (fun m => forall v, vb (snd m) v = true -> rt (snd m) v) ms ->
  forall k x, entry_ok vb ms (k, x) = true ->
  exists j w v', member_res (dt_export C) k x ms = Ok j /\ member_res (dt_import E) k j ms = Ok w /\
    member_res (fun d y => dt_validate d y PNone) k w ms = Ok v' /\ py_eq x v' /\ w <> PNone.
Proof.
  induction ms as [|[n d1] ms IH]; intros HF k x Hk; [discriminate|].
  inversion HF as [|? ? H1 HF']; subst. cbn [snd] in H1.
  change (entry_ok vb ((n, d1) :: ms) (k, x)) with (if str_eqb k n then vb d1 x else entry_ok vb ms (k, x)) in Hk.
  cbn [member_res]. destruct (str_eqb k n).
  - destruct (H1 x Hk) as (j & w & v' & G). exists j, w, v'. exact G.
  - apply IH; assumption.
Qed.

Lemma struct_fold_step f skip ms k x r acc :
  (skip = false \/ x <> PNone) ->
  struct_fold f skip ms ((k, x) :: r) acc = (member_res f k x ms >>= fun y => struct_fold f skip ms r (dict_set k y acc)).
Proof. intros [H|H]; [subst; destruct x; reflexivity|destruct x; try reflexivity; congruence]. Qed.

Lemma struct_chain ms : Forall (fun m => forall v, vb (snd m) v = true -> rt (snd m) v) ms ->
  forall kv a1 a2 a3, forallb (entry_ok vb ms) kv = true -> keys_nodup (keys kv) = true ->
  keys a1 = keys a2 -> keys a2 = keys a3 -> (forall k, mem_str k (keys kv) = true -> mem_str k (keys a1) = false) ->
  exists js ws vs, struct_fold (dt_export C) false ms kv a1 = Ok (a1 ++ js) /\
    struct_fold (dt_import E) false ms js a2 = Ok (a2 ++ ws) /\
    struct_fold (fun d y => dt_validate d y PNone) true ms ws a3 = Ok (a3 ++ vs) /\
    Forall2 (fun p q => fst p = fst q /\ py_eq (snd p) (snd q)) kv vs /\ keys js = keys kv /\ keys ws = keys kv.
Proof.
  intros HF. induction kv as [|[k x] kv IH]; intros a1 a2 a3 Hv Hn K12 K23 Hd.
  - exists [], [], []. cbn. rewrite !app_nil_r. repeat split; constructor.
  - cbn in Hv. apply andb_prop in Hv. destruct Hv as [Hx Hv]. cbn in Hn. apply andb_prop in Hn. destruct Hn as [Hk Hn].
    apply negb_true_iff in Hk.
    destruct (member_chain ms HF k x Hx) as (j & w & v' & M1 & M2 & M3 & M4 & M5).
    assert (Hf1 : mem_str k (keys a1) = false).
    { apply Hd. cbn. rewrite str_eqb_refl. reflexivity. }
    assert (Hf2 : mem_str k (keys a2) = false) by (rewrite <- K12; exact Hf1).
    assert (Hf3 : mem_str k (keys a3) = false) by (rewrite <- K23; exact Hf2).
    destruct (IH (a1 ++ [(k, j)]) (a2 ++ [(k, w)]) (a3 ++ [(k, v')]) Hv Hn) as (js & ws & vs & G1 & G2 & G3 & G4 & G5 & G6).
    { unfold keys. rewrite !map_app. cbn. f_equal. exact K12. }
    { unfold keys. rewrite !map_app. cbn. f_equal. exact K23. }
    { intros k0 Hk0. unfold keys in *. rewrite map_app, mem_str_app. cbn. rewrite orb_false_r.
      rewrite (Hd k0) by (cbn; rewrite Hk0; apply orb_true_r). cbn.
      destruct (str_eqb k0 k) eqn:Ek; [|reflexivity]. apply str_eqb_eq in Ek. subst. congruence. }
    exists ((k, j) :: js), ((k, w) :: ws), ((k, v') :: vs).
    rewrite !struct_fold_step by (first [left; reflexivity | right; exact M5]).
    rewrite M1, M2, M3. cbn [bind]. rewrite !dict_set_fresh by assumption.
    rewrite G1, G2, G3, <- !app_assoc. cbn.
    split; [reflexivity|]. split; [reflexivity|]. split; [reflexivity|].
    split; [constructor; [split; [reflexivity|exact M4]|exact G4]|].
    unfold keys in *. cbn. split; f_equal; assumption.
Qed.


(* ---------------------------------------------------------------- leaves that need no float arithmetic *)
Lemma enum_value_found n z ms :
  existsb (fun p => str_eqb n (fst p) && Z.eqb z (snd p)) ms = true -> exists n', enum_by_value z ms = Some (n', z).
Proof.
  induction ms as [|[n1 z1] ms IH]; cbn; [discriminate|]. intros H.
  destruct (Z.eqb z z1) eqn:Ez.
  - apply Z.eqb_eq in Ez. subst. eauto.
  - rewrite andb_false_r in H. cbn in H. apply IH, H.
Qed.

Lemma rt_bool v : valid TBool v = true -> rt TBool v.
Proof.
  destruct v; cbn; try discriminate. intros _. exists (PBool b), (PBool b), (PBool b).
  destruct b; cbn; repeat split; try constructor; discriminate.
Qed.

Lemma rt_enum ms v : valid (TEnum ms) v = true -> rt (TEnum ms) v.
Proof.
  destruct v; cbn; try discriminate. intros H. destruct (enum_value_found _ _ _ H) as (n' & Hn).
  exists (PInt v), (PEnum n' v), (PEnum n' v). cbn. unfold enum_export. cbn. rewrite Hn. cbn.
  repeat split; try constructor; discriminate.
Qed.

Lemma string_call_ok a b u s : str_ok a b u s = true -> string_call a b u (PStr s) = Ok (PStr s).
Proof.
  unfold str_ok, string_call. intros H. apply andb_prop in H. destruct H as [H H4]. apply andb_prop in H.
  destruct H as [H H3]. apply andb_prop in H. destruct H as [H1 H2]. apply negb_true_iff in H4.
  rewrite !Z.ltb_antisym, H2, H3, H4. cbn.
  destruct u; cbn in *; [reflexivity|]. rewrite H1. reflexivity.
Qed.

Lemma rt_string a b u v : valid (TString a b u) v = true -> rt (TString a b u) v.
Proof.
  destruct v; cbn [valid in_setb]; try discriminate. intros H. exists (PStr s), (PStr s), (PStr s).
  cbn [dt_export dt_import dt_validate dt_call string_export].
  rewrite (string_call_ok _ _ _ _ H). repeat split; try constructor; discriminate.
Qed.

Lemma rt_blob a b v : b64_ok (TBlob a b) v = true -> valid (TBlob a b) v = true -> rt (TBlob a b) v.
Proof.
  intros HB. destruct v; cbn [valid in_setb]; try discriminate. intros H. cbn [b64_ok] in HB.
  destruct (b64_rt_law b0 HB) as (s & H1 & H2).
  exists (PStr s), (PBytes b0), (PBytes b0). cbn [dt_export dt_import dt_validate dt_call blob_export blob_import blob_call].
  rewrite H1, H2.
  apply andb_prop in H. destruct H as [Ha Hb]. rewrite !Z.ltb_antisym, Ha, Hb. cbn.
  repeat split; try constructor; discriminate.
Qed.

Lemma array_check_len a b l :
  (a <=? Z.of_nat (length l))%Z = true -> (Z.of_nat (length l) <=? b)%Z = true -> array_check a b (PTuple l) = Ok tt.
Proof. intros H1 H2. unfold array_check. cbn. rewrite !Z.ltb_antisym, H1, H2. reflexivity. Qed.

Lemma array_check_len_list a b l :
  (a <=? Z.of_nat (length l))%Z = true -> (Z.of_nat (length l) <=? b)%Z = true -> array_check a b (PList l) = Ok tt.
Proof. intros H1 H2. unfold array_check. cbn. rewrite !Z.ltb_antisym, H1, H2. reflexivity. Qed.

Lemma tuple_check_len n l : length l = n -> tuple_check n (PTuple l) = Ok tt.
Proof. intros H. unfold tuple_check. cbn. rewrite H, Z.eqb_refl. reflexivity. Qed.
Lemma tuple_check_len_list n l : length l = n -> tuple_check n (PList l) = Ok tt.
Proof. intros H. unfold tuple_check. cbn. rewrite H, Z.eqb_refl. reflexivity. Qed.

Lemma missing_nil (flag : bool) o (present names : list str) :
  forallb (fun n => mem_str n present || (flag && mem_str n o)) names = true ->
  (if flag then filter (fun n => negb (mem_str n o)) (filter (fun n => negb (mem_str n present)) names)
   else filter (fun n => negb (mem_str n present)) names) = [].
Proof.
  induction names as [|n names IH]; intros H2; [destruct flag; reflexivity|].
  cbn in H2. apply andb_prop in H2. destruct H2 as [Hn H2]. specialize (IH H2).
  cbn. destruct (mem_str n present); cbn; [exact IH|].
  cbn in Hn. destruct flag; cbn in *; [|discriminate]. rewrite Hn. cbn. exact IH.
Qed.

Lemma check_missing_valid (ms : list (str * dtype)) o (kv : list (str * pyval)) :
  forallb (fun n => mem_str n (map fst kv) || (true && mem_str n o)) (map fst ms) = true ->
  check_missing (map fst ms) o true kv = Ok tt.
Proof. intros H. unfold check_missing. rewrite (missing_nil true o _ _ H). reflexivity. Qed.

Lemma all2_length {Q} es l : all2 Q es l = true -> length l = length es.
Proof.
  revert l; induction es as [|d es IH]; intros [|x l]; cbn; try discriminate; auto.
  intros H. apply andb_prop in H. destruct H as [_ H]. f_equal. apply IH, H.
Qed.

(* struct_check accepts a dict whose keys are declared and that carries the members it must *)
Lemma struct_check_valid (ms : list (str * dtype)) o c allow (kv : list (str * pyval)) :
  forallb (fun p : str * pyval => mem_str (fst p) (map fst ms)) kv = true ->
  forallb (fun n => mem_str n (map fst kv) || ((c || allow) && mem_str n o)) (map fst ms) = true ->
  struct_check (map fst ms) o c allow (PDict kv) = Ok tt.
Proof.
  intros H1 H2. unfold struct_check.
  assert (Hs : existsb (fun p => negb (mem_str (fst p) (map fst ms))) kv = false).
  { clear H2. induction kv as [|p kv IH]; cbn; [reflexivity|]. cbn in H1. apply andb_prop in H1. destruct H1 as [Hp H1].
    rewrite Hp. cbn. apply IH, H1. }
  rewrite Hs, (missing_nil (c || allow) o _ _ H2). reflexivity.
Qed.

Lemma forallb_imp {A} (f g : A -> bool) l :
  (forall x, f x = true -> g x = true) -> forallb f l = true -> forallb g l = true.
Proof.
  intros H. induction l as [|x l IH]; cbn; [reflexivity|]. intros H1. apply andb_prop in H1. destruct H1 as [Hx Hl].
  rewrite (H x Hx). apply IH, Hl.
Qed.

Lemma entry_ok_declared Q ms p : entry_ok Q ms p = true -> mem_str (fst p) (map fst ms) = true.
Proof.
  induction ms as [|[n d1] ms IH]; [discriminate|].
  change (entry_ok Q ((n, d1) :: ms) p) with (if str_eqb (fst p) n then Q d1 (snd p) else entry_ok Q ms p).
  cbn. destruct (str_eqb (fst p) n); cbn; auto.
Qed.

(* ---------------------------------------------------------------- the round trip, all datatype trees *)
Lemma wire_roundtrip_vb : forall d, num_leaves num_rt d -> forall v, vb d v = true -> rt d v.
Proof.
  induction d as [a b c d|a b|a b c| |ms|a b u|a b|e a b IHe|es IHes|ms o c IHms] using dtype_ind';
    intros HL v Hvb; unfold vb in Hvb; apply andb_prop in Hvb; destruct Hvb as [Hv Hb].
  - apply HL, Hv.
  - apply HL, Hv.
  - apply HL, Hv.
  - apply rt_bool, Hv.
  - apply rt_enum, Hv.
  - apply rt_string, Hv.
  - apply rt_blob; assumption.
  - (* array *)
    destruct v; try discriminate. cbn [valid] in Hv. apply andb_prop in Hv. destruct Hv as [Hv Hl].
    cbn [b64_ok] in Hb. pose proof (forallb_andb _ _ _ Hl Hb) as Hlb. clear Hl. rename Hlb into Hl.
    apply andb_prop in Hv. destruct Hv as [H1 H2].
    destruct (map_chain e l Hl (IHe HL)) as (js & ws & vs & G1 & G2 & G3 & G4 & G5 & G6).
    exists (PList js), (PTuple ws), (PTuple vs). cbn [dt_export dt_import dt_validate].
    rewrite (array_check_len _ _ _ H1 H2). cbn [bind py_iter]. rewrite G1. cbn [bind py_iter].
    rewrite array_check_len_list by (rewrite G6; assumption). cbn [bind py_iter]. rewrite G2.
    cbn [bind py_iter py_truthy]. rewrite array_check_len by (rewrite G5; assumption). cbn [bind py_iter]. rewrite G3. cbn.
    repeat split; [constructor; exact G4|discriminate].
  - (* tuple *)
    destruct v; try discriminate. rewrite valid_tuple in Hv. rewrite b64_ok_tuple in Hb.
    pose proof (all2_andb _ _ _ _ Hv Hb) as Hvb. clear Hb. pose proof (all2_length _ _ Hv) as Hlen0. clear Hv. rename Hvb into Hv.
    apply num_leaves_tuple in HL.
    assert (HF : Forall (fun d => forall v, vb d v = true -> rt d v) es).
    { clear Hv Hlen0. induction es as [|d1 es IH]; constructor.
      - inversion IHes; subst. inversion HL; subst. auto.
      - inversion IHes; subst. inversion HL; subst. auto. }
    destruct (mapd_chain es HF l Hv) as (js & ws & vs & G1 & G2 & G3 & G4 & G5 & G6).
    pose proof (all2_length _ _ Hv) as Hlen.
    exists (PList js), (PTuple ws), (PTuple vs). cbn [dt_export dt_import dt_validate].
    rewrite (tuple_check_len _ _ Hlen). cbn [bind py_iter]. rewrite G1. cbn [bind py_iter].
    rewrite tuple_check_len_list by congruence. cbn [bind py_iter]. rewrite G2.
    cbn [bind py_iter]. rewrite tuple_check_len by congruence. cbn [bind py_iter]. rewrite G3. cbn.
    repeat split; [constructor; exact G4|discriminate].
  - (* struct *)
    destruct v; try discriminate. rewrite valid_struct in Hv. apply andb_prop in Hv. destruct Hv as [Hv H3].
    apply andb_prop in Hv. destruct Hv as [H1 H2]. rewrite b64_ok_struct in Hb.
    pose proof (forallb_andb _ _ _ H2 Hb) as H2b. clear H2 Hb.
    assert (H2 : forallb (entry_ok vb ms) kv = true).
    { clear - H2b. induction kv as [|p kv IH]; cbn [forallb] in *; [reflexivity|]. apply andb_prop in H2b. destruct H2b as [A B].
      apply andb_prop in A. destruct A as [A1 A2]. pose proof (entry_ok_andb _ _ _ _ A1 A2) as Hx.
      change (entry_ok vb ms p = true) in Hx. rewrite Hx. cbn [andb]. exact (IH B). }
    clear H2b.
    apply num_leaves_struct in HL.
    assert (HF : Forall (fun m => forall v, vb (snd m) v = true -> rt (snd m) v) ms).
    { clear H2 H3. induction ms as [|m ms IH]; constructor.
      - inversion IHms; subst. inversion HL; subst. auto.
      - inversion IHms; subst. inversion HL; subst. auto. }
    destruct (struct_chain ms HF kv [] [] [] H2 H1 eq_refl eq_refl (fun _ _ => eq_refl))
      as (js & ws & vs & G1 & G2 & G3 & G4 & G5 & G6).
    cbn [app] in *.
    assert (Hdecl : forall l : list (str * pyval), keys l = keys kv -> forallb (fun p => mem_str (fst p) (map fst ms)) l = true).
    { intros l0 Hk. assert (Hall : forallb (fun k => mem_str k (map fst ms)) (keys kv) = true).
      { clear - H2. induction kv as [|p kv IH]; cbn; [reflexivity|]. cbn in H2. apply andb_prop in H2.
        destruct H2 as [Hp H2]. rewrite (entry_ok_declared _ _ _ Hp). apply IH, H2. }
      rewrite <- Hk in Hall. clear - Hall. induction l0 as [|p l0 IH]; cbn in *; [reflexivity|].
      apply andb_prop in Hall. destruct Hall as [Hp Hall]. rewrite Hp. apply IH, Hall. }
    exists (PDict js), (PDict ws), (PDict vs). cbn [dt_export dt_import dt_validate].
    assert (Hreq : forall (l : list (str * pyval)), keys l = keys kv ->
              forallb (fun n => mem_str n (map fst l) || ((c || true) && mem_str n o)) (map fst ms) = true).
    { intros l0 Hk. unfold keys in Hk. rewrite Hk. revert H3. apply forallb_imp. intros n Hn.
      apply orb_prop in Hn. destruct Hn as [Hn|Hn]; [rewrite Hn; reflexivity|].
      rewrite Hn, orb_true_r. cbn. apply orb_true_r. }
    rewrite (struct_check_valid ms o c true kv) by (auto using Hdecl, Hreq).
    cbn [bind is_dict negb dict_items]. rewrite G1. cbn [bind].
    rewrite (struct_check_valid ms o c true js) by (auto using Hdecl, Hreq).
    cbn [bind is_dict negb dict_items]. rewrite G2. cbn [bind py_truthy].
    rewrite (struct_check_valid ms o c true ws) by (auto using Hdecl, Hreq).
    cbn [bind is_dict negb dict_items]. rewrite G3. cbn [bind wrap_elem].
    assert (Kvs : map fst vs = map fst kv).
    { clear - G4. induction G4 as [|p q kv0 vs0 [Hpq _] _ IH]; cbn; [reflexivity|f_equal; [symmetry; exact Hpq|exact IH]]. }
    assert (Hm : forallb (fun n => mem_str n (map fst vs) || (true && mem_str n o)) (map fst ms) = true).
    { rewrite Kvs. revert H3. apply forallb_imp. intros n Hn. apply orb_prop in Hn.
      destruct Hn as [Hn|Hn]; [rewrite Hn; reflexivity|].
      rewrite Hn. cbn. apply orb_true_r. }
    rewrite (check_missing_valid ms o vs Hm).
    cbn. repeat split; [constructor; exact G4|discriminate].
Qed.

Theorem wire_roundtrip : forall d, num_leaves num_rt d -> forall v, valid d v = true -> b64_ok d v = true -> rt d v.
Proof. intros d HL v Hv Hb. apply wire_roundtrip_vb; [exact HL|]. unfold vb. rewrite Hv, Hb. reflexivity. Qed.

End RT.

(* ------------------------------------------------------------------ general forms of the defects of the pinned tree *)
(* a one-member tuple is written (x,): python reads it back as a 1-tuple, and from_string hands it to __call__ *)
Lemma one_tuple_text_accepted C d1 t w y :
  lit_eval C t = Some w -> dt_call d1 w = Ok y -> from_string C (TTuple [d1]) (PT1 t) = Ok (PTuple [y]).
Proof.
  intros H1 H2. unfold from_string, generic_from_string. cbn [lit_eval]. rewrite H1.
  cbn [dt_call length]. unfold tuple_check. cbn. rewrite H2. reflexivity.
Qed.

Lemma one_tuple_to_tree C d1 x t : to_tree C d1 x = Ok t -> to_tree C (TTuple [d1]) (PTuple [x]) = Ok (PT1 t).
Proof. intros H. cbn. rewrite H. reflexivity. Qed.

(* setParameterFromString(text): from_string, export_value, then the node's import_value + validate: whenever the text
   is accepted with a valid value w, the node ends up with a value equal to w *)
Lemma setparam_roundtrip C E d t w :
  num_leaves (num_rt E C) d -> from_string C d t = Ok w -> valid d w = true -> b64_ok E C d w = true ->
  exists v', set_from_string C E d d t = Ok v' /\ py_eq w v'.
Proof.
  intros HL H Hv HB. destruct (wire_roundtrip E C d HL w Hv HB) as (j & w' & v' & H1 & H2 & H3 & H4 & _).
  exists v'. unfold set_from_string, wire. rewrite H. cbn. rewrite H1. cbn. rewrite H2. cbn. auto.
Qed.
