(* C02 - the client side datatype (get_datatype of the exported datainfo) imports exactly like the node's datatype *)
From Coq Require Import ZArith NArith Bool List Lia.
Import ListNotations.
Require Import FV.Base.Util FV.Base.F64 FV.Base.PyVal FV.C01.Model FV.C01.Lemmas FV.C02.Model FV.C02.Lemmas.

(* the members of every enum are listed by ascending code (as frappy.lib.enum.Enum keeps them) *)
Fixpoint enums_sorted (d : dtype) : Prop :=
  match d with
  | TEnum ms => sort_by_value ms = ms
  | TArray e _ _ => enums_sorted e
  | TTuple es => (fix go (l : list dtype) : Prop := match l with [] => True | x :: r => enums_sorted x /\ go r end) es
  | TStruct ms _ _ =>
      (fix go (l : list (str * dtype)) : Prop := match l with [] => True | x :: r => enums_sorted (snd x) /\ go r end) ms
  | _ => True
  end.

Lemma enums_sorted_tuple es : enums_sorted (TTuple es) <-> Forall enums_sorted es.
Proof.
  cbn. induction es as [|x r IH].
  - split; intros; [constructor|exact I].
  - split; intros H.
    + destruct H as [H1 H2]. constructor; [exact H1|apply IH, H2].
    + inversion H; subst. split; [assumption|apply IH; assumption].
Qed.
Lemma enums_sorted_struct ms o c : enums_sorted (TStruct ms o c) <-> Forall (fun p => enums_sorted (snd p)) ms.
Proof.
  cbn. induction ms as [|x r IH].
  - split; intros; [constructor|exact I].
  - split; intros H.
    + destruct H as [H1 H2]. constructor; [exact H1|apply IH, H2].
    + inversion H; subst. split; [assumption|apply IH; assumption].
Qed.

Lemma map_res_ext f g l : (forall x, f x = g x) -> map_res f l = map_res g l.
Proof. intros H. induction l as [|x l IH]; [reflexivity|]. cbn. rewrite H. fold (map_res f l) (map_res g l). rewrite IH. reflexivity. Qed.

Lemma mapd_res_ext2 (f : dtype -> pyval -> res pyval) es cs :
  Forall2 (fun d c => forall x, f c x = f d x) es cs -> forall l, mapd_res f cs l = mapd_res f es l.
Proof.
  induction 1 as [|d c es cs H _ IH]; intros l; [reflexivity|]. destruct l as [|x l]; [reflexivity|].
  cbn. rewrite H. fold (mapd_res f cs l) (mapd_res f es l). rewrite IH. reflexivity.
Qed.

Lemma member_res_ext2 (f : dtype -> pyval -> res pyval) k x ms cs :
  Forall2 (fun m c => fst c = fst m /\ forall y, f (snd c) y = f (snd m) y) ms cs ->
  member_res f k x cs = member_res f k x ms.
Proof.
  induction 1 as [|[n d] [n' c] ms cs [Hn H] _ IH]; [reflexivity|]. cbn in Hn, H. subst n'.
  cbn. destruct (str_eqb k n); [apply H|]. exact IH.
Qed.

Lemma struct_fold_ext2 (f : dtype -> pyval -> res pyval) skip ms cs :
  Forall2 (fun m c => fst c = fst m /\ forall y, f (snd c) y = f (snd m) y) ms cs ->
  forall kv acc, struct_fold f skip cs kv acc = struct_fold f skip ms kv acc.
Proof.
  intros HF. induction kv as [|[k x] kv IH]; intros acc; [reflexivity|].
  cbn. rewrite (member_res_ext2 f k x ms cs HF).
  fold (struct_fold f skip cs kv) (struct_fold f skip ms kv).
  destruct x; try (destruct skip); rewrite ?IH; try reflexivity;
    destruct (member_res f k _ ms); cbn; rewrite ?IH; reflexivity.
Qed.

Lemma mem_str_refl n l : In n l -> mem_str n l = true.
Proof. intros H. apply mem_str_eq. exists n. split; [exact H|apply str_eqb_refl]. Qed.

Lemma forallb_In {A} (f : A -> bool) l x : forallb f l = true -> In x l -> f x = true.
Proof. intros H Hi. rewrite forallb_forall in H. apply H, Hi. Qed.

Lemma filter_none {A} (p : A -> bool) l : (forall x, In x l -> p x = false) -> filter p l = [].
Proof.
  induction l as [|x l IH]; intros H; [reflexivity|]. cbn. rewrite (H x) by (left; reflexivity).
  apply IH. intros; apply H; right; assumption.
Qed.

(* struct_check with the client's optional list and client flag, allow_optional = True *)
Lemma struct_check_client names o c j :
  struct_check names (if same_names o names then names else o) true true j = struct_check names o c true j.
Proof.
  unfold struct_check. destruct j; try reflexivity. replace (c || true) with true by (symmetry; apply orb_true_r). cbn [orb].
  destruct (same_names o names) eqn:Hs; [|reflexivity].
  destruct (existsb _ kv); [reflexivity|].
  unfold same_names in Hs. apply andb_prop in Hs. destruct Hs as [_ Hs].
  set (missing := filter (fun n => negb (mem_str n (map fst kv))) names).
  assert (Hsub : forall n, In n missing -> In n names) by (intros n Hn; apply filter_In in Hn; tauto).
  assert (H1 : filter (fun n => negb (mem_str n names)) missing = []).
  { apply filter_none. intros n Hn. rewrite mem_str_refl by (apply Hsub, Hn). reflexivity. }
  assert (H2 : filter (fun n => negb (mem_str n o)) missing = []).
  { apply filter_none. intros n Hn. rewrite (forallb_In _ _ n Hs) by (apply Hsub, Hn). reflexivity. }
  rewrite H1, H2. reflexivity.
Qed.

Section Client.
Variable E : pyenv.

Lemma client_list es : forall cs,
  (fix go (ds : list dtype) : res (list dtype) :=
     match ds with
     | [] => Ok []
     | d1 :: r => client_of d1 >>= fun c1 => go r >>= fun cs => Ok (c1 :: cs)
     end) es = Ok cs -> Forall2 (fun d c => client_of d = Ok c) es cs.
Proof.
  induction es as [|d es IH]; intros cs H.
  - inversion H; constructor.
  - apply bind_ok in H. destruct H as (c & Hc & H). apply bind_ok in H. destruct H as (cs' & Hcs & H).
    inversion H; subst. constructor; [exact Hc|apply IH, Hcs].
Qed.

Lemma client_members ms : forall cs,
  (fix go (ms : list (str * dtype)) : res (list (str * dtype)) :=
     match ms with
     | [] => Ok []
     | (n, d1) :: r => client_of d1 >>= fun c1 => go r >>= fun cs => Ok ((n, c1) :: cs)
     end) ms = Ok cs -> Forall2 (fun m c => fst c = fst m /\ client_of (snd m) = Ok (snd c)) ms cs.
Proof.
  induction ms as [|[n d] ms IH]; intros cs H.
  - inversion H; constructor.
  - apply bind_ok in H. destruct H as (c & Hc & H). apply bind_ok in H. destruct H as (cs' & Hcs & H).
    inversion H; subst. constructor; [split; [reflexivity|exact Hc]|apply IH, Hcs].
Qed.

Lemma Forall2_length {A B} (R : A -> B -> Prop) l l' : Forall2 R l l' -> length l = length l'.
Proof. induction 1; cbn; congruence. Qed.

Theorem client_import_same : forall d, enums_sorted d -> forall dc, client_of d = Ok dc ->
  forall j, dt_import E dc j = dt_import E d j.
Proof.
  induction d as [a b c d|a b|a b c| |ms|a b u|a b|e a b IHe|es IHes|ms o c IHms] using dtype_ind';
    intros HS dc Hc j; try (cbn in Hc; inversion Hc; subst; reflexivity).
  - (* scaled *)
    cbn [client_of] in Hc. repeat (apply bind_ok in Hc; destruct Hc as (? & _ & Hc)).
    inversion Hc; subst. reflexivity.
  - (* enum *)
    cbn in Hc, HS. rewrite HS in Hc. inversion Hc; subst. reflexivity.
  - (* array *)
    cbn [client_of] in Hc. apply bind_ok in Hc. destruct Hc as (ec & He & Hc). inversion Hc; subst.
    cbn [dt_import]. destruct (array_check a b j); [|reflexivity]. cbn [bind].
    destruct (py_iter j) as [items|]; [|reflexivity].
    rewrite (map_res_ext (dt_import E ec) (dt_import E e)); [reflexivity|]. intros x. apply IHe; assumption.
  - (* tuple *)
    cbn [client_of] in Hc. apply bind_ok in Hc. destruct Hc as (cs & Hcs & Hc). inversion Hc; subst.
    apply client_list in Hcs. apply enums_sorted_tuple in HS.
    cbn [dt_import]. rewrite <- (Forall2_length _ _ _ Hcs).
    destruct (tuple_check (length es) j); [|reflexivity]. cbn [bind].
    destruct (py_iter j) as [items|]; [|reflexivity].
    rewrite (mapd_res_ext2 (dt_import E) es cs); [reflexivity|].
    clear - IHes HS Hcs. induction Hcs as [|d c es cs H _ IH]; constructor.
    + inversion IHes; inversion HS; subst. intros x. auto.
    + inversion IHes; inversion HS; subst. auto.
  - (* struct *)
    cbn [client_of] in Hc. apply bind_ok in Hc. destruct Hc as (cs & Hcs & Hc). inversion Hc; subst.
    apply client_members in Hcs. apply enums_sorted_struct in HS.
    assert (Hn : map fst cs = map fst ms).
    { clear - Hcs. induction Hcs as [|m c0 ms cs [H _] _ IH]; cbn; [reflexivity|]. rewrite H, IH. reflexivity. }
    cbn [dt_import]. rewrite Hn, (struct_check_client (map fst ms) o c j).
    destruct (struct_check (map fst ms) o c true j); [|reflexivity]. cbn [bind].
    destruct (negb (is_dict j)); [reflexivity|].
    rewrite (struct_fold_ext2 (dt_import E) false ms cs); [reflexivity|].
    clear - IHms HS Hcs. induction Hcs as [|m c0 ms cs [H1 H2] _ IH]; constructor.
    + inversion IHms; inversion HS; subst. split; [exact H1|]. intros y. auto.
    + inversion IHms; inversion HS; subst. auto.
Qed.

End Client.
