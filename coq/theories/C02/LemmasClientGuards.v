(* C02 - the client side datatype (get_datatype of the exported datainfo) of a tree within the guards of the wire
   round trip exists and is again within the guards: its scaled leaves have both limits on the grid
   (round(min/scale)*scale) with the same grid indices, every other leaf is unchanged. *)
From Coq Require Import ZArith NArith Bool List Lia Reals.
From Flocq Require Import IEEE754.BinarySingleNaN.
Import ListNotations.
Require Import FV.Base.Util FV.Base.F64 FV.Base.F64Lemmas FV.Base.PyVal FV.C01.Model FV.C01.Lemmas FV.C02.Model
  FV.C02.Lemmas FV.C02.LemmasNum FV.C02.LemmasScaled FV.C02.LemmasClient.

(* ------------------------------------------------------------------ the scaled leaf *)
(* __call__ of an infinite or nan limit raises (round() of inf / nan): a limit accepted by __call__ is finite *)
Lemma scaled_call_finite s x lo : fis_finite s = true -> scaled_call s (PFloat x) = Ok (PFloat lo) -> fis_finite x = true.
Proof.
  intros Fs H. destruct x as [b|b| |b m e B]; try reflexivity; exfalso;
    destruct s as [c|c| |c m' e' B']; try discriminate; cbn in H; discriminate.
Qed.

(* min/scale as export_datatype divides (no + 0.0) rounds like (min + 0.0)/scale as __call__ divides *)
Lemma round_limit s x : fis_finite s = true -> fis_finite x = true ->
  py_round (fdiv x s) = py_round (fdiv (fadd x fzero) s).
Proof.
  intros Fs Fx. destruct x as [b|b| |b m e B]; try discriminate.
  - destruct s as [c|c| |c m' e' B']; try discriminate; destruct b, c; reflexivity.
  - reflexivity.
Qed.

Lemma scaled_call_index s x lo : scaled_call s (PFloat x) = Ok (PFloat lo) ->
  py_round (fdiv (fadd x fzero) s) = Ok (scaled_k s x).
Proof.
  unfold scaled_call, scaled_k. cbn [py_add0 wrap_wrong]. unfold py_round.
  destruct (fis_nan _); [discriminate|]. destruct (fis_inf _); [discriminate|]. reflexivity.
Qed.

Lemma feq_refl_finite (a : f64) : fis_finite a = true -> feq a a = true.
Proof. intros Fa. apply feq_same_number; auto. Qed.

(* the rebuilt limit k * scale of a grid index up to 2^51 is a grid value with that very index *)
Lemma regrid_index s k : scale_ok s = true -> (Z.abs k <= 2 ^ 51)%Z -> scaled_k s (fmul (of_Z k) s) = k.
Proof.
  intros Hs Hk. destruct (grid_floats s k Hs Hk) as (_ & Fa & Ba & _).
  destruct (fadd_zero _ Fa) as [F0 B0]. rewrite Ba in B0.
  unfold scaled_k. exact (proj2 (scaled_grid_stable s _ k Hs Hk F0 B0)).
Qed.

Theorem client_scaled_aligned s mn mx : scaled_leaf_small s mn mx = true ->
  exists a b, client_of (TScaled s mn mx) = Ok (TScaled s a b) /\ scaled_leaf_aligned s a b = true /\
              scaled_k s a = scaled_k s mn /\ scaled_k s b = scaled_k s mx /\
              scaled_call s (PFloat a) = scaled_call s (PFloat mn) /\
              scaled_call s (PFloat b) = scaled_call s (PFloat mx).
Proof.
  intros G. unfold scaled_leaf_small in G.
  apply andb_prop in G. destruct G as [G W]. apply andb_prop in G. destruct G as [G K2].
  apply andb_prop in G. destruct G as [Hs K1].
  destruct (scaled_call s (PFloat mn)) as [[| | | lo | | | | | | |]|] eqn:Hlo; try discriminate.
  destruct (scaled_call s (PFloat mx)) as [[| | | hi | | | | | | |]|] eqn:Hhi; try discriminate.
  clear W. destruct (scale_ok_R s Hs) as (Fs & _).
  pose proof (scaled_call_finite _ _ _ Fs Hlo) as F1. pose proof (scaled_call_finite _ _ _ Fs Hhi) as F2.
  pose proof (scaled_call_index _ _ _ Hlo) as R1. pose proof (scaled_call_index _ _ _ Hhi) as R2.
  rewrite <- (round_limit s mn Fs F1) in R1. rewrite <- (round_limit s mx Fs F2) in R2.
  set (k1 := scaled_k s mn) in *. set (k2 := scaled_k s mx) in *.
  pose proof K1 as K1'. pose proof K2 as K2'. apply Z.leb_le in K1'. apply Z.leb_le in K2'.
  destruct (grid_floats s k1 Hs K1') as (Z1 & Fa & Ba & _). destruct (grid_floats s k2 Hs K2') as (Z2 & Fb & Bb & _).
  exists (fmul (of_Z k1) s), (fmul (of_Z k2) s).
  pose proof (regrid_index s k1 Hs K1') as I1. pose proof (regrid_index s k2 Hs K2') as I2.
  pose proof (scaled_call_grid s _ k1 Hs K1' Fa Ba) as C1. pose proof (scaled_call_grid s _ k2 Hs K2' Fb Bb) as C2.
  rewrite C1, C2, (scaled_call_shape _ _ _ Hlo), (scaled_call_shape _ _ _ Hhi). fold k1 k2.
  split; [|split; [|repeat split; assumption]].
  - cbn [client_of]. rewrite R1, R2. cbn [bind]. unfold py_int_mul_float. rewrite Z1, Z2. cbn [bind].
    unfold finite_or. rewrite Fa, Fb. reflexivity.
  - unfold scaled_leaf_aligned. rewrite Hs, Fa, Fb, I1, I2, K1, K2, Z1, Z2.
    rewrite (feq_refl_finite _ Fa), (feq_refl_finite _ Fb). reflexivity.
Qed.

(* ------------------------------------------------------------------ trees *)
Definition scaled_aligned_okb (d : dtype) : bool :=
  match d with TScaled s mn mx => scaled_leaf_aligned s mn mx | _ => true end.
(* every scaled leaf has both limits on the grid of its scale and grid indices up to 2^51 *)
Definition scaled_grid_aligned (d : dtype) : bool := leavesb scaled_aligned_okb d.

Lemma scaled_grid_aligned_easy d : scaled_grid_aligned d = true -> scaled_grid_easy d = true.
Proof.
  apply leavesb_imp. intros [a b c e|a b|s mn mx| |ms|a b u|a b|e a b|es|ms o c]; cbn; auto.
  intros H. rewrite H. apply orb_true_r.
Qed.

Definition client_list_of : list dtype -> res (list dtype) :=
  fix go (ds : list dtype) : res (list dtype) :=
    match ds with
    | [] => Ok []
    | d1 :: r => client_of d1 >>= fun c1 => go r >>= fun cs => Ok (c1 :: cs)
    end.
Definition client_members_of : list (str * dtype) -> res (list (str * dtype)) :=
  fix go (ms : list (str * dtype)) : res (list (str * dtype)) :=
    match ms with
    | [] => Ok []
    | (n, d1) :: r => client_of d1 >>= fun c1 => go r >>= fun cs => Ok ((n, c1) :: cs)
    end.

Lemma client_of_tuple es : client_of (TTuple es) = (client_list_of es >>= fun cs => Ok (TTuple cs)).
Proof. reflexivity. Qed.
Lemma client_of_struct ms o c : client_of (TStruct ms o c) =
  (client_members_of ms >>= fun cs =>
   Ok (TStruct cs (if same_names o (map fst ms) then map fst ms else o) true)).
Proof. reflexivity. Qed.

(* what is shown of the client side type of d *)
Definition client_within (d : dtype) : Prop :=
  num_limits_ok d = true -> scaled_grid_small d = true ->
  exists dc, client_of d = Ok dc /\ num_limits_ok dc = true /\ scaled_grid_aligned dc = true /\
             (enums_sorted d -> enums_sorted dc).

Lemma client_list_within es : Forall client_within es ->
  forallb (leavesb limits_okb) es = true -> forallb (leavesb scaled_okb) es = true ->
  exists cs, client_list_of es = Ok cs /\ forallb (leavesb limits_okb) cs = true /\
             forallb (leavesb scaled_aligned_okb) cs = true /\ (Forall enums_sorted es -> Forall enums_sorted cs).
Proof.
  induction 1 as [|d1 es H1 _ IH]; intros L S.
  - exists []. repeat split; auto.
  - cbn [forallb] in L, S. apply andb_prop in L. apply andb_prop in S. destruct L as [L1 L], S as [S1 S].
    destruct (H1 L1 S1) as (c1 & C1 & A1 & B1 & E1). destruct (IH L S) as (cs & Cs & A & B & E).
    exists (c1 :: cs). cbn [client_list_of]. fold client_list_of. rewrite C1, Cs. cbn [bind forallb].
    unfold num_limits_ok in A1. unfold scaled_grid_aligned in B1. rewrite A1, B1, A, B.
    repeat split; auto. intros HF. inversion HF; subst. constructor; auto.
Qed.

Lemma client_members_within ms : Forall (fun m : str * dtype => client_within (snd m)) ms ->
  forallb (fun m => leavesb limits_okb (snd m)) ms = true -> forallb (fun m => leavesb scaled_okb (snd m)) ms = true ->
  exists cs, client_members_of ms = Ok cs /\ forallb (fun m => leavesb limits_okb (snd m)) cs = true /\
             forallb (fun m => leavesb scaled_aligned_okb (snd m)) cs = true /\
             (Forall (fun m => enums_sorted (snd m)) ms -> Forall (fun m => enums_sorted (snd m)) cs).
Proof.
  induction 1 as [|[n d1] ms H1 _ IH]; intros L S.
  - exists []. repeat split; auto.
  - cbn [forallb snd] in L, S. apply andb_prop in L. apply andb_prop in S. destruct L as [L1 L], S as [S1 S].
    cbn [snd] in H1.
    destruct (H1 L1 S1) as (c1 & C1 & A1 & B1 & E1). destruct (IH L S) as (cs & Cs & A & B & E).
    exists ((n, c1) :: cs). cbn [client_members_of]. fold client_members_of. rewrite C1, Cs. cbn [bind forallb snd].
    unfold num_limits_ok in A1. unfold scaled_grid_aligned in B1. rewrite A1, B1, A, B.
    repeat split; auto. intros HF. inversion HF; subst. constructor; auto.
Qed.

Theorem client_of_within : forall d, client_within d.
Proof.
  induction d as [a b c d|a b|s mn mx| |ms|a b u|a b|e a b IHe|es IHes|ms o c IHms] using dtype_ind';
    intros L S; try (eexists; split; [reflexivity|]; split; [exact L|]; split; [reflexivity|]; auto; fail).
  - (* scaled *)
    destruct (client_scaled_aligned s mn mx S) as (a & b & H1 & H2 & _).
    exists (TScaled s a b). repeat split; auto.
  - (* enum *)
    exists (TEnum (sort_by_value ms)). repeat split; auto. cbn. intros H. rewrite H. exact H.
  - (* array *)
    destruct (IHe L S) as (ec & H1 & H2 & H3 & H4).
    exists (TArray ec a b). cbn [client_of]. rewrite H1. repeat split; auto.
  - (* tuple *)
    destruct (client_list_within es IHes L S) as (cs & H1 & H2 & H3 & H4).
    exists (TTuple cs). rewrite client_of_tuple, H1. repeat split; auto.
    intros HS. apply enums_sorted_tuple. apply H4. apply enums_sorted_tuple. exact HS.
  - (* struct *)
    destruct (client_members_within ms IHms L S) as (cs & H1 & H2 & H3 & H4).
    eexists. rewrite client_of_struct, H1. cbn [bind]. repeat split; auto.
    intros HS. apply enums_sorted_struct. apply H4. apply (enums_sorted_struct ms o c). exact HS.
Qed.

(* the statement used by Properties.v: the client side type exists and satisfies every guard of the round trip
   theorems (and the simpler sufficient guard scaled_grid_easy) *)
Theorem client_of_within_guards d : num_limits_ok d = true -> scaled_grid_small d = true ->
  exists dc, client_of d = Ok dc /\ num_limits_ok dc = true /\ scaled_grid_small dc = true /\
             scaled_grid_easy dc = true /\ scaled_grid_aligned dc = true /\ (enums_sorted d -> enums_sorted dc).
Proof.
  intros L S. destruct (client_of_within d L S) as (dc & H1 & H2 & H3 & H4). exists dc.
  pose proof (scaled_grid_aligned_easy dc H3) as H5. pose proof (scaled_grid_easy_small dc H5) as H6.
  repeat split; assumption.
Qed.
