(* C15 — lemmas, part 7: exactly once, in order, on EVERY graph (Pinata initialisations during create_modules,
   automatically created communicators and lazily created modules included): as long as no error is recorded the
   number of earlyInit events of a module is the number of its frames that are past earlyInit plus one if it is marked
   (same for initModule), and an initModule event is always preceded by the earlyInit event of the same module.
   With the invariant of LemmasGlobal.v (a finished frame is the only frame of its module, every module is marked at the
   end): when no error is recorded every module of the node got exactly one earlyInit and exactly one initModule, in
   this order, and nothing else got any. *)
From Coq Require Import List Arith Bool Lia.
Import ListNotations.
Require Import FV.C15.Model FV.C15.Lemmas FV.C15.LemmasInit FV.C15.LemmasSort FV.C15.LemmasWf FV.C15.LemmasGlobal.

Definition b2n (b : bool) : nat := if b then 1 else 0.
Definition sum_e (m : name) (stk : list frame) : nat :=
  list_sum (map (fun fr => if Nat.eqb (f_mod fr) m then exp_e (f_ops fr) else 0) stk).
Definition sum_i (m : name) (stk : list frame) : nat :=
  list_sum (map (fun fr => if Nat.eqb (f_mod fr) m then exp_i (f_ops fr) else 0) stk).

Definition early_first (tr : list event) : Prop :=
  forall l1 m l2, tr = l1 ++ EInit m :: l2 -> In (EEarly m) l2.

Record CI (mods : list (name * inst)) (tr : list event) (stk : list frame) : Prop := {
  ci_shape : Forall (fun fr => shape (f_ops fr)) stk;
  ci_e : forall m, ce m tr = sum_e m stk + b2n (isinit_m mods m);
  ci_i : forall m, ci m tr = sum_i m stk + b2n (isinit_m mods m);
  ci_ord : early_first tr;
}.
Definition CInv (st : node) : Prop := CI (modules st) (trace st) (stack st).

Lemma sum_e_cons m fr rest : sum_e m (fr :: rest) = (if Nat.eqb (f_mod fr) m then exp_e (f_ops fr) else 0) + sum_e m rest.
Proof. reflexivity. Qed.
Lemma sum_i_cons m fr rest : sum_i m (fr :: rest) = (if Nat.eqb (f_mod fr) m then exp_i (f_ops fr) else 0) + sum_i m rest.
Proof. reflexivity. Qed.

Lemma early_first_other e tr : (forall m, e <> EInit m) -> early_first tr -> early_first (e :: tr).
Proof.
  intros N O l1 m l2 E. destruct l1 as [|x l1]; simpl in E; inversion E; subst; [exfalso; eapply N; eauto|].
  eapply O; eauto.
Qed.

(* the table changes, the flags do not *)
Lemma CI_flags mods mods' tr stk : (forall m, isinit_m mods' m = isinit_m mods m) -> CI mods tr stk -> CI mods' tr stk.
Proof. intros H [A B C D]. constructor; auto; intros m; rewrite H; auto. Qed.

Lemma extends_flags m m' : extends m m' -> forall k, isinit_m m' k = isinit_m m k.
Proof.
  intros E k. destruct (has_key k m) eqn:K; [apply extends_isinit; auto|].
  rewrite (extends_new_isinit m m' k E K). unfold isinit_m, has_key in *. destruct (find k m); [discriminate|reflexivity].
Qed.

(* going on in the top frame behind an operation that is not an event of its own *)
Lemma CI_cont mods tr tr' fr rest o ops :
  CI mods tr (fr :: rest) -> f_ops fr = o :: ops -> is_ev o = false ->
  (forall m, ce m tr' = ce m tr /\ ci m tr' = ci m tr) -> early_first tr' ->
  CI mods tr' ({| f_mod := f_mod fr; f_ops := ops |} :: rest).
Proof.
  intros [A B C D] Ho EV T O. inversion A as [|? ? SH A']; subst. rewrite Ho in SH.
  destruct (shape_tail o ops EV SH) as [L XI].
  assert (LT : late (o :: ops)) by (destruct SH as [[r [Hr _]]|Q]; [inversion Hr; subst; discriminate|exact Q]).
  constructor; auto.
  - constructor; auto. right. exact L.
  - intros m. destruct (T m) as [T1 _]. rewrite T1, B, !sum_e_cons, Ho. simpl f_mod. simpl f_ops.
    rewrite (late_exp_e _ L), (late_exp_e _ LT). reflexivity.
  - intros m. destruct (T m) as [_ T2]. rewrite T2, C, !sum_i_cons, Ho. simpl f_mod. simpl f_ops. rewrite XI. reflexivity.
Qed.

Lemma see_counts u idx t ok tr m : ce m (ESee u idx t ok :: tr) = ce m tr /\ ci m (ESee u idx t ok :: tr) = ci m tr.
Proof. rewrite ce_cons, ci_cons. simpl. auto. Qed.

Lemma create_trace st b d : trace (fst (create st b d)) = trace st.
Proof.
  unfold create. destruct (negb (creatable d)); simpl; auto.
  destruct (d_kind d) as [|[|u|m]|]; simpl; rewrite ?trace_add_module; auto.
  destruct (find u (iodict st)); simpl; rewrite ?trace_add_module; simpl; rewrite ?trace_add_module; auto.
Qed.

Lemma get_instance_trace st b : trace (fst (get_instance st b)) = trace st.
Proof.
  unfold get_instance. destruct (has_key b (modules st)); auto. destruct (find b (avail st)); auto. apply create_trace.
Qed.

Lemma step_CI limit st : GInv st -> CInv st -> errors (step limit st) = [] -> CInv (step limit st).
Proof.
  intros [G SA] CIV NE. unfold CInv in *. unfold step in *. destruct (stack st) as [|fr rest] eqn:Hs; [rewrite Hs; auto|].
  pose proof G as [SM B _ _ _ _]. inversion B as [|? ? FI0 B']; subst.
  destruct FI0 as [K0 [I0 _]].
  pose proof CIV as [A CE CN OR]. inversion A as [|? ? SH A']; subst.
  destruct (f_ops fr) as [|o ops] eqn:Ho.
  - (* the frame is finished *)
    simpl. fold (mark (f_mod fr) (modules st)). constructor; auto.
    + intros m. rewrite CE, sum_e_cons, Ho, mark_isinit. destruct (Nat.eqb (f_mod fr) m) eqn:E.
      * apply Nat.eqb_eq in E. subst m. rewrite Nat.eqb_refl, K0, I0. simpl. lia.
      * rewrite Nat.eqb_sym, E. reflexivity.
    + intros m. rewrite CN, sum_i_cons, Ho, mark_isinit. destruct (Nat.eqb (f_mod fr) m) eqn:E.
      * apply Nat.eqb_eq in E. subst m. rewrite Nat.eqb_refl, K0, I0. simpl. lia.
      * rewrite Nat.eqb_sym, E. reflexivity.
  - assert (SEE : forall mods' t ok idx0, (forall m, isinit_m mods' m = isinit_m (modules st) m) -> is_ev o = false ->
              CI mods' (ESee (f_mod fr) idx0 t ok :: trace st) ({| f_mod := f_mod fr; f_ops := ops |} :: rest)).
    { intros mods' t ok idx0 FL EV. apply (CI_flags (modules st)); auto.
      apply (CI_cont _ (trace st) _ fr rest o ops CIV Ho EV); [intros m; apply see_counts|].
      apply early_first_other; auto. intros m; discriminate. }
    destruct o; simpl.
    + (* OEarlyEv *)
      try rewrite Ho in SH. destruct SH as [[r [Hr Er]]|L]; [|destruct L as [L|L]; unfold evs_of in L; simpl in L; discriminate].
      inversion Hr; subst r. assert (L : late ops) by (left; exact Er).
      constructor.
      * constructor; auto. right; exact L.
      * intros m. rewrite ce_cons, CE, !sum_e_cons, Ho. simpl f_mod. simpl f_ops. simpl is_early.
        rewrite (late_exp_e _ L). rewrite (Nat.eqb_sym (f_mod fr) m). destruct (Nat.eqb m (f_mod fr)); simpl; lia.
      * intros m. rewrite ci_cons, CN, !sum_i_cons, Ho. simpl f_mod. simpl f_ops. simpl is_initev.
        unfold exp_i. simpl evs_of. fold (evs_of ops). rewrite Er. reflexivity.
      * apply early_first_other; auto. intros m; discriminate.
    + (* OInitEv *)
      try rewrite Ho in SH.
      assert (Er : evs_of ops = []).
      { destruct SH as [[r [Hr _]]|[L|L]]; [discriminate| |]; unfold evs_of in L; simpl in L; [inversion L; auto|discriminate]. }
      assert (L : late ops) by (right; exact Er).
      assert (LT : late (OInitEv :: ops)) by (left; unfold evs_of; simpl; fold (evs_of ops); rewrite Er; reflexivity).
      constructor.
      * constructor; auto. right; exact L.
      * intros m. rewrite ce_cons, CE, !sum_e_cons, Ho. simpl f_mod. simpl f_ops. simpl is_early.
        rewrite (late_exp_e _ L), (late_exp_e _ LT). reflexivity.
      * intros m. rewrite ci_cons, CN, !sum_i_cons, Ho. simpl f_mod. simpl f_ops. simpl is_initev.
        unfold exp_i. simpl evs_of. fold (evs_of ops). rewrite Er.
        rewrite (Nat.eqb_sym (f_mod fr) m). destruct (Nat.eqb m (f_mod fr)); simpl; lia.
      * intros l1 m l2 E. destruct l1 as [|x l1]; simpl in E; inversion E; subst; [|eapply OR; eauto].
        apply ce_In. rewrite CE, sum_e_cons, Ho, Nat.eqb_refl, (late_exp_e _ LT). lia.
    + (* OAccess *)
      destruct (find idx (attached_of st (f_mod fr))); [apply SEE; auto|].
      destruct (a_target a) as [b|] eqn:TA; [|apply SEE; auto].
      pose proof (get_instance_spec st b SM SA) as [SP _].
      destruct (get_instance st b) as [st1 r] eqn:GE; simpl in *.
      destruct r; try (simpl in NE; discriminate).
      pose proof (get_instance_trace st b) as TR1. rewrite GE in TR1. simpl in TR1.
      assert (EX : extends (modules st) (modules st1)).
      { destruct SP as [[K E]|[K [E1 _]]]; [subst st1; auto using extends_refl|exact E1]. }
      pose proof (extends_flags _ _ EX) as FL.
      set (fr2 := {| f_mod := f_mod fr; f_ops := ORet idx a b :: ops |}) in *.
      assert (C2 : CI (modules st1) (trace st1) (fr2 :: rest)).
      { rewrite TR1. apply (CI_flags (modules st)); auto.
        assert (LT : late (OAccess idx a :: ops)).
        { try rewrite Ho in SH. destruct SH as [[r [Hr _]]|Q]; [discriminate|exact Q]. }
        assert (LT2 : late (ORet idx a b :: ops)) by (unfold late, evs_of in *; simpl in *; exact LT).
        constructor; auto.
        - constructor; auto. right; exact LT2.
        - intros m. rewrite CE, !sum_e_cons, Ho. simpl. reflexivity.
        - intros m. rewrite CN, !sum_i_cons, Ho. simpl. reflexivity. }
      change (isinit (set_stack st1 (fr2 :: rest)) b) with (isinit_m (modules st1) b) in *.
      destruct (isinit_m (modules st1) b); [exact C2|].
      simpl length in *. destruct (Nat.leb limit (S (length rest))); [simpl in NE; discriminate|].
      rewrite push_ops. simpl. destruct C2 as [A2 CE2 CN2 OR2].
      destruct (frame_ops_shape (decl_of (set_stack st1 (fr2 :: rest)) b) (io_of (set_stack st1 (fr2 :: rest)) b)) as [r0 [HR0 ER0]].
      assert (OPS : ops_m (modules st1) b = OEarlyEv :: r0).
      { unfold ops_m. unfold decl_of, io_of in HR0. simpl in HR0. destruct (find b (modules st1)); exact HR0. }
      constructor; auto.
      * constructor; auto. rewrite OPS. left. exists r0. auto.
      * intros m. rewrite CE2, (sum_e_cons m _ (fr2 :: rest)). simpl f_mod. simpl f_ops. rewrite OPS. simpl exp_e.
        destruct (Nat.eqb b m); reflexivity.
      * intros m. rewrite CN2, (sum_i_cons m _ (fr2 :: rest)). simpl f_mod. simpl f_ops. rewrite OPS.
        unfold exp_i at 1. simpl evs_of. fold (evs_of r0). rewrite ER0. destruct (Nat.eqb b m); reflexivity.
    + (* ORet *)
      destruct (want_ok _ _); [|simpl in NE; discriminate]. simpl.
      apply SEE; auto. intros m. apply isinit_m_upd_keep. intros i; reflexivity.
    + simpl in NE. discriminate.
    + (* ORegister *)
      assert (EV : is_ev ORegister = false) by reflexivity.
      unfold register. destruct (_ || _); simpl.
      * apply (CI_flags (modules st)); [intros m; apply isinit_m_upd_keep; intros i; reflexivity|].
        apply (CI_cont _ (trace st) _ fr rest ORegister ops CIV Ho EV); auto.
      * apply (CI_cont _ (trace st) _ fr rest ORegister ops CIV Ho EV); auto.
Qed.

(* ---------------------------------------------------------------- whole runs *)
Lemma run_gm_CI limit fuel : forall st, GInv st -> CInv st -> errors (run_gm limit fuel st) = [] ->
  CInv (run_gm limit fuel st).
Proof.
  induction fuel as [|fuel IH]; intros st G C NE; simpl in *; destruct (stack st) as [|fr rest] eqn:Hs; auto.
  assert (NE1 : errors (step limit st) = []) by (eapply errs_back; [apply run_gm_ext|exact NE]).
  apply IH; auto; [apply step_GI|apply step_CI]; auto.
Qed.

Lemma CI_push mods tr b : CI mods tr [] -> CI mods tr [{| f_mod := b; f_ops := ops_m mods b |}].
Proof.
  intros [A CE CN OR].
  assert (SH : exists r0, ops_m mods b = OEarlyEv :: r0 /\ evs_of r0 = [OInitEv]).
  { unfold ops_m. destruct (find b mods); apply frame_ops_shape. }
  destruct SH as [r0 [OPS ER0]]. constructor; auto.
  - constructor; auto. simpl. rewrite OPS. left. exists r0. auto.
  - intros m. rewrite CE, sum_e_cons. simpl f_mod. simpl f_ops. rewrite OPS. simpl exp_e. destruct (Nat.eqb b m); reflexivity.
  - intros m. rewrite CN, sum_i_cons. simpl f_mod. simpl f_ops. rewrite OPS. unfold exp_i at 1. simpl evs_of.
    fold (evs_of r0). rewrite ER0. destruct (Nat.eqb b m); reflexivity.
Qed.

(* get_module_instance from outside of any initialisation *)
Lemma get_instance_GC st b : GInv st -> CInv st -> stack st = [] ->
  errors (fst (get_instance st b)) = [] ->
  GInv (fst (get_instance st b)) /\ CInv (fst (get_instance st b)) /\ stack (fst (get_instance st b)) = [] /\
  (snd (get_instance st b) = IOk -> has_key b (modules (fst (get_instance st b))) = true).
Proof.
  intros [G SA] C Hs NE. pose proof G as [SM _ _ _ _ _].
  pose proof (get_instance_spec st b SM SA) as [SP [AV1 ST1]]. pose proof (get_instance_trace st b) as TR.
  pose proof (get_instance_ok_key st b) as OK.
  destruct (get_instance st b) as [st1 r]; simpl in *.
  assert (SAME : st1 = st -> GInv st1 /\ CInv st1 /\ stack st1 = [] /\ (r = IOk -> has_key b (modules st1) = true)).
  { intros E. subst st1. split; [split; assumption|split; [exact C|split; [exact Hs|exact OK]]]. }
  destruct r; try (destruct SP as [E|E]; [apply SAME; exact E|contradiction]).
  destruct SP as [[K E]|[K [E1 [E2 [E3 _]]]]]; [apply SAME; exact E|].
  split; [|split; [|split; [rewrite ST1; exact Hs|auto]]].
  - split; [|rewrite AV1; exact SA]. rewrite ST1. eapply GI_ext; eauto.
  - unfold CInv in *. rewrite TR, ST1. apply (CI_flags (modules st)); auto. apply extends_flags. exact E1.
Qed.

Lemma gm_top_CI limit fuel st b : GInv st -> CInv st -> stack st = [] ->
  errors (gm_top limit fuel st b) = [] -> CInv (gm_top limit fuel st b).
Proof.
  intros G C Hs NE. unfold gm_top in *.
  pose proof (get_instance_GC st b G C Hs) as H. pose proof (get_instance_ext st b) as EXT.
  destruct (get_instance st b) as [st1 r]; simpl in *.
  assert (NE1 : errors st1 = []).
  { destruct r; auto; destruct (isinit st1 b); auto.
    eapply errs_back; [|exact NE]. eapply ext_trans; [|apply run_gm_ext]. apply ext_same; reflexivity. }
  destruct (H NE1) as [G1 [C1 [S1 K1]]].
  destruct r; auto. change (isinit st1 b) with (isinit_m (modules st1) b) in *.
  destruct (isinit_m (modules st1) b) eqn:IB; auto.
  apply run_gm_CI; auto.
  - destruct G1 as [G1 SA1]. unfold GInv. rewrite push_ops. simpl. rewrite S1. split; [|exact SA1].
    rewrite S1 in G1. apply GI_push; auto.
  - unfold CInv in *. rewrite push_ops. simpl. rewrite S1 in *. apply CI_push. exact C1.
Qed.

Definition GC (P : name -> Prop) (st : node) : Prop := II P st /\ CInv st.

Lemma gm_top_GC P limit fuel st b : GC P st ->
  errors (gm_top limit fuel st b) = [] -> stuck (gm_top limit fuel st b) = false ->
  GC (fun m => P m /\ m <> b) (gm_top limit fuel st b).
Proof.
  intros [I C] NE NS. split; [apply gm_top_II; auto|]. destruct I as [G [Hs _]]. apply gm_top_CI; auto.
Qed.

Lemma GC_weaken (P Q : name -> Prop) st : (forall m, P m -> Q m) -> GC P st -> GC Q st.
Proof. intros H [I C]. split; [eapply II_weaken; eauto|exact C]. Qed.

Lemma fold_GC limit fuel : forall names P st, GC P st ->
  errors (fold_left (fun acc b => gm_top limit fuel acc b) names st) = [] ->
  stuck (fold_left (fun acc b => gm_top limit fuel acc b) names st) = false ->
  GC (fun m => P m /\ ~ In m names) (fold_left (fun acc b => gm_top limit fuel acc b) names st).
Proof.
  induction names as [|b r IH]; intros P st H NE NS; simpl in *.
  - eapply GC_weaken; [|exact H]. intros m X. auto.
  - assert (NE1 : errors (gm_top limit fuel st b) = []) by (eapply errs_back; [apply fold_gm_ext|exact NE]).
    assert (NS1 : stuck (gm_top limit fuel st b) = false).
    { destruct (stuck (gm_top limit fuel st b)) eqn:Q; auto. rewrite (fold_sticky limit fuel r _ Q) in NS. discriminate. }
    pose proof (IH _ _ (gm_top_GC P limit fuel st b H NE1 NS1) NE NS) as H2.
    eapply GC_weaken; [|exact H2]. simpl. intros m [[X Y] Z]. split; auto. intros [Q|Q]; auto.
Qed.

Lemma gm_top_GC_any limit fuel st b : GC anyname st ->
  errors (gm_top limit fuel st b) = [] -> stuck (gm_top limit fuel st b) = false ->
  GC anyname (gm_top limit fuel st b).
Proof.
  intros H NE NS. eapply GC_weaken; [|apply (gm_top_GC anyname limit fuel st b H NE NS)]. intros m _. exact I.
Qed.

Lemma init_loop_GC limit fuel : forall n i st, GC anyname st ->
  errors (init_loop limit fuel n i st) = [] -> stuck (init_loop limit fuel n i st) = false ->
  GC anyname (init_loop limit fuel n i st).
Proof.
  induction n as [|n IH]; intros i st H NE NS; simpl in *; auto.
  destruct (nth_error (export st) i) as [b|]; auto.
  assert (NE1 : errors (gm_top limit fuel st b) = []) by (eapply errs_back; [apply init_loop_ext|exact NE]).
  assert (NS1 : stuck (gm_top limit fuel st b) = false).
  { destruct (stuck (gm_top limit fuel st b)) eqn:Q; auto. rewrite (init_loop_sticky limit fuel n (S i) _ Q) in NS. discriminate. }
  apply IH; auto. apply gm_top_GC_any; auto.
Qed.

Lemma create_loop_GC limit fuel dyn : small_av dyn -> forall n todos st, small_av todos -> GC anyname st ->
  errors (create_loop limit fuel n dyn todos st) = [] -> stuck (create_loop limit fuel n dyn todos st) = false ->
  GC anyname (create_loop limit fuel n dyn todos st).
Proof.
  intros SD. induction n as [|n IH]; intros todos st ST H NE NS; simpl in *; auto.
  destruct todos as [|[b d] rest]; auto.
  assert (SR : small_av rest) by (intros x y X; apply ST; right; exact X).
  destruct (has_key b (modules st)); [apply IH; auto|].
  destruct H as [[[G SA] [Hs CV]] C].
  set (st0 := set_avail st (set_assoc b d (avail st))) in *.
  assert (SA0 : small_av (avail st0)).
  { intros x y X. simpl in X. apply In_set_assoc in X. destruct X as [E|X]; [inversion E; subst; apply ST; left; reflexivity|auto]. }
  assert (G0 : GInv st0) by (split; [exact G|exact SA0]).
  assert (C0 : CInv st0) by exact C.
  pose proof (get_instance_GC st0 b G0 C0 Hs) as H1. pose proof (get_instance_stuck st0 b) as STK.
  destruct (get_instance st0 b) as [st1 r] eqn:GE; simpl in *.
  assert (NE1 : errors st1 = []).
  { destruct r; try (eapply errs_back; [apply create_loop_ext|exact NE]).
    destruct (d_kind d); try (eapply errs_back; [apply create_loop_ext|exact NE]).
    eapply errs_back; [apply gm_top_ext|]. eapply errs_back; [apply create_loop_ext|exact NE]. }
  destruct (H1 NE1) as [G1 [C1 [S1 K1]]].
  assert (GC1 : GC anyname st1).
  { split; [split; [exact G1|split; [exact S1|intros m K; left; exact I]]|exact C1]. }
  destruct r; try (apply IH; auto).
  destruct (d_kind d) eqn:DK; try (apply IH; auto).
  - intros x y X. apply in_app_or in X. destruct X as [X|X]; [auto|]. apply SD. eapply lookup_all_In; eauto.
  - assert (NE2 : errors (gm_top limit fuel st1 b) = []) by (eapply errs_back; [apply create_loop_ext|exact NE]).
    assert (NS2 : stuck (gm_top limit fuel st1 b) = false).
    { destruct (stuck (gm_top limit fuel st1 b)) eqn:Q; auto.
      rewrite (create_loop_sticky limit fuel dyn n _ _ Q) in NS. discriminate. }
    apply gm_top_GC_any; auto.
Qed.

Lemma node0_GC av : small_av av -> GC anyname (node0 av).
Proof.
  intros SA. split; [apply node0_II; exact SA|]. unfold CInv. simpl. constructor; auto.
  intros l1 m l2 E. destruct l1; discriminate.
Qed.

(* no recorded error: every module of the node got exactly one earlyInit and exactly one initModule, earlyInit
   first; what is not a module of the node got none *)
Theorem initialised_once limit fuel c : cfg_small c ->
  errors (initialised limit fuel c) = [] -> stuck (initialised limit fuel c) = false ->
  let st := initialised limit fuel c in
  (forall m, has_key m (modules st) = true -> ce m (trace st) = 1 /\ ci m (trace st) = 1) /\
  (forall m, has_key m (modules st) = false -> ce m (trace st) = 0 /\ ci m (trace st) = 0) /\
  early_first (trace st).
Proof.
  intros CS NE NS. destruct (initialised_II limit fuel c CS NE NS) as [_ [HS ALL]].
  destruct CS as [S1 S2]. unfold initialised, init_phase, init_rest, init_all, create_all in *.
  set (st0 := create_loop limit fuel _ (c_dyn c) (c_static c) (node0 (c_static c))) in *.
  set (st1 := init_loop limit fuel _ 0 st0) in *.
  assert (NE1 : errors st1 = []) by (eapply errs_back; [apply fold_gm_ext|exact NE]).
  assert (NS1 : stuck st1 = false) by (eapply fold_stuck_back; eauto).
  assert (NE0 : errors st0 = []) by (eapply errs_back; [apply init_loop_ext|exact NE1]).
  assert (NS0 : stuck st0 = false) by (eapply init_loop_stuck_back; eauto).
  assert (H0 : GC anyname st0) by (apply create_loop_GC; auto; apply node0_GC; exact S1).
  assert (H1 : GC anyname st1) by (apply init_loop_GC; auto).
  destruct (fold_GC limit fuel (map fst (modules st1)) _ st1 H1 NE NS) as [_ [A CE CN OR]].
  rewrite HS in CE, CN. split; [|split; [|exact OR]].
  - intros m K. specialize (ALL m K). unfold isinit in ALL. fold (isinit_m (modules (fold_left (fun acc b => gm_top limit fuel acc b) (map fst (modules st1)) st1)) m) in ALL.
    rewrite CE, CN, ALL. auto.
  - intros m K. assert (IF : isinit_m (modules (fold_left (fun acc b => gm_top limit fuel acc b) (map fst (modules st1)) st1)) m = false).
    { unfold isinit_m, has_key in *. destruct (find m _); [discriminate|reflexivity]. }
    rewrite CE, CN, IF. auto.
Qed.

(* ---------------------------------------------------------------- startModule: once per module, after the initialisation *)
Definition is_start (e : event) : bool := match e with EStart _ => true | _ => false end.
Definition starts (tr : list event) : list event := filter is_start tr.

Lemma starts_init_ev tr : Forall init_ev tr -> starts tr = [].
Proof.
  induction tr as [|e r IH]; intros F; simpl; auto. inversion F; subst. destruct e; simpl in *; try contradiction; auto.
Qed.

Lemma thread_step_starts st th : starts (trace (fst (thread_step st th))) = starts (trace st).
Proof.
  unfold thread_step. destruct (t_hung th); simpl; auto.
  destruct (t_prog th) as [|e r]; simpl; auto.
  destruct e; simpl; auto. destruct (d_hang _); simpl; auto.
Qed.

Lemma threads_step_starts t : forall ths st, starts (trace (fst (threads_step st t ths))) = starts (trace st).
Proof.
  induction ths as [|th r IH]; intros st; simpl; auto.
  destruct (Nat.eqb (t_id th) t).
  - pose proof (thread_step_starts st th) as H. destruct (thread_step st th); simpl in *. exact H.
  - specialize (IH st). destruct (threads_step st t r); simpl in *. exact IH.
Qed.

(* names: the modules of the node in the order of secnode.modules; the calls of startModule made so far are those
   of a prefix of it, in this order *)
Definition start_inv (names : list name) (s : sys) : Prop :=
  match s_pc s with
  | MStart rest => exists done, names = done ++ rest /\ rest <> [] /\ starts (trace (s_node s)) = rev (map EStart done)
  | _ => starts (trace (s_node s)) = rev (map EStart names)
  end.

Lemma pc_after_start_inv names st done rest :
  names = done ++ rest -> starts (trace st) = rev (map EStart done) ->
  start_inv names {| s_node := fst (pc_after st rest); s_threads := []; s_pc := snd (pc_after st rest) |}.
Proof.
  intros E S. unfold pc_after, finish_start, start_inv. destruct rest as [|m r]; simpl.
  - rewrite app_nil_r in E. subst done. destruct (errors st); simpl; exact S.
  - exists done. split; [exact E|split; [discriminate|exact S]].
Qed.

Lemma cstep_start_inv names s it : start_inv names s -> start_inv names (cstep s it).
Proof.
  intros H. destruct s as [st ths pc]. unfold start_inv in *. simpl in *.
  destruct it; simpl.
  - destruct pc as [[|m rest]| | |]; simpl.
    + exact H.
    + destruct H as [done [E [_ S]]].
      assert (S1 : starts (trace (emit (EStart m) st)) = rev (map EStart (done ++ [m]))).
      { simpl. rewrite S, map_app, rev_app_distr. reflexivity. }
      assert (E1 : names = (done ++ [m]) ++ rest) by (rewrite <- app_assoc; exact E).
      pose proof (pc_after_start_inv names (emit (EStart m) st) (done ++ [m]) rest E1 S1) as Q.
      unfold start_inv in Q. simpl in Q. destruct (pc_after (emit (EStart m) st) rest) as [st2 pc2]; simpl in *. exact Q.
    + destruct (all_done ths); simpl; exact H.
    + exact H.
    + exact H.
  - destruct pc as [rest| | |]; simpl.
    + pose proof (threads_step_starts t ths st) as Q. destruct (threads_step st t ths); simpl in *. rewrite Q. exact H.
    + pose proof (threads_step_starts t ths st) as Q. destruct (threads_step st t ths); simpl in *. rewrite Q. exact H.
    + exact H.
    + exact H.
  - destruct pc as [rest| | |]; simpl; try exact H. destruct (all_done ths); simpl; exact H.
Qed.

Lemma run_sched_start_inv names sched : forall s, start_inv names s -> start_inv names (run_sched s sched).
Proof.
  unfold run_sched. induction sched as [|it r IH]; intros s H; simpl; auto. apply IH. apply cstep_start_inv. exact H.
Qed.

(* when the node reports ready: startModule was called exactly once for every module, in the order of the node *)
Theorem ready_started_once limit fuel c sched : s_pc (started limit fuel c sched) = MRun ->
  starts (trace (s_node (started limit fuel c sched))) =
  rev (map EStart (map fst (modules (initialised limit fuel c)))).
Proof.
  intros PC. set (st := initialised limit fuel c). set (names := map fst (modules st)).
  assert (H0 : start_inv names (sys0 st)).
  { unfold sys0. pose proof (pc_after_start_inv names st [] names eq_refl) as Q.
    assert (S0 : starts (trace st) = rev (map EStart [])) by (apply starts_init_ev; apply initialised_trace).
    specialize (Q S0).
    unfold start_inv in *. simpl in *. fold names. destruct (pc_after st names); simpl in *. exact Q. }
  pose proof (run_sched_start_inv names sched _ H0) as H. unfold start_inv in H.
  change (run_sched (sys0 st) sched) with (started limit fuel c sched) in H. rewrite PC in H. exact H.
Qed.

(* ... and every one of these calls comes after the whole initialisation: the trace at any point of the start phase
   is the trace of the initialisation phase with later events in front *)
Lemma cstep_trace_ext s it : exists evs, trace (s_node (cstep s it)) = evs ++ trace (s_node s).
Proof.
  destruct s as [st ths pc]. destruct it; simpl.
  - destruct pc as [[|m rest]| | |]; simpl; try (exists []; reflexivity).
    + unfold pc_after, finish_start. destruct rest; simpl; [destruct (errors st); simpl|];
        try (exists [EStart m]; reflexivity). exists [EExit; EStart m]. reflexivity.
    + destruct (all_done ths); simpl; [exists [EReady true]|exists []]; reflexivity.
  - destruct pc; simpl; try (exists []; reflexivity);
      (pose proof (threads_step_frame t ths st) as [_ [_ [Q|[e [Q _]]]]]; destruct (threads_step st t ths); simpl in *;
       rewrite Q; [exists []|exists [e]]; reflexivity).
  - destruct pc; simpl; try (exists []; reflexivity). destruct (all_done ths); simpl; [exists []|exists [EReady false]]; reflexivity.
Qed.

Theorem started_trace_ext limit fuel c sched :
  exists evs, trace (s_node (started limit fuel c sched)) = evs ++ trace (initialised limit fuel c).
Proof.
  unfold started, run_sched.
  assert (H : forall sched s, exists evs, trace (s_node (fold_left cstep sched s)) = evs ++ trace (s_node s)).
  { induction sched0 as [|it r IH]; intros s; simpl; [exists []; reflexivity|].
    destruct (IH (cstep s it)) as [e1 E1]. destruct (cstep_trace_ext s it) as [e2 E2].
    exists (e1 ++ e2). rewrite E1, E2, app_assoc. reflexivity. }
  destruct (H sched (sys0 (initialised limit fuel c))) as [evs E]. rewrite E.
  unfold sys0, pc_after, finish_start. destruct (map fst (modules (initialised limit fuel c))); simpl.
  - destruct (errors (initialised limit fuel c)); simpl; [exists evs; reflexivity|].
    exists (evs ++ [EExit]). rewrite <- app_assoc. reflexivity.
  - exists evs. reflexivity.
Qed.

(* the events of the start phase are no initialisation events *)
Definition later_ev (e : event) : Prop :=
  match e with EEarly _ | EInit _ | ESee _ _ _ _ => False | _ => True end.

Lemma thread_step_later st th :
  trace (fst (thread_step st th)) = trace st \/
  exists e, trace (fst (thread_step st th)) = e :: trace st /\ later_ev e.
Proof.
  unfold thread_step. destruct (t_hung th); simpl; auto.
  destruct (t_prog th) as [|e r]; simpl; auto.
  destruct e; simpl; auto; try (right; eexists; split; [reflexivity|exact I]).
  destruct (d_hang _); simpl; auto. right; eexists; split; [reflexivity|exact I].
Qed.

Lemma threads_step_later t : forall ths st,
  trace (fst (threads_step st t ths)) = trace st \/
  exists e, trace (fst (threads_step st t ths)) = e :: trace st /\ later_ev e.
Proof.
  induction ths as [|th r IH]; intros st; simpl; auto.
  destruct (Nat.eqb (t_id th) t).
  - pose proof (thread_step_later st th) as H. destruct (thread_step st th); simpl in *. exact H.
  - specialize (IH st). destruct (threads_step st t r); simpl in *. exact IH.
Qed.

Lemma cstep_later s it : exists evs, trace (s_node (cstep s it)) = evs ++ trace (s_node s) /\ Forall later_ev evs.
Proof.
  destruct s as [st ths pc]. destruct it; simpl.
  - destruct pc as [[|m rest]| | |]; simpl; try (exists []; split; [reflexivity|constructor]).
    + unfold pc_after, finish_start. destruct rest; simpl; [destruct (errors st); simpl|].
      * exists [EStart m]. split; [reflexivity|repeat constructor].
      * exists [EExit; EStart m]. split; [reflexivity|repeat constructor].
      * exists [EStart m]. split; [reflexivity|repeat constructor].
    + destruct (all_done ths); simpl; [exists [EReady true]|exists []]; split; try reflexivity; repeat constructor.
  - destruct pc; simpl; try (exists []; split; [reflexivity|constructor]);
      (pose proof (threads_step_later t ths st) as [Q|[e [Q L]]]; destruct (threads_step st t ths); simpl in *;
       rewrite Q; [exists []|exists [e]]; split; try reflexivity; repeat constructor; auto).
  - destruct pc; simpl; try (exists []; split; [reflexivity|constructor]).
    destruct (all_done ths); simpl; [exists []|exists [EReady false]]; split; try reflexivity; repeat constructor.
Qed.

Lemma started_later limit fuel c sched :
  exists evs, trace (s_node (started limit fuel c sched)) = evs ++ trace (initialised limit fuel c) /\
              Forall later_ev evs.
Proof.
  unfold started, run_sched.
  assert (H : forall sched s, exists evs, trace (s_node (fold_left cstep sched s)) = evs ++ trace (s_node s) /\ Forall later_ev evs).
  { induction sched0 as [|it r IH]; intros s; simpl; [exists []; split; [reflexivity|constructor]|].
    destruct (IH (cstep s it)) as [e1 [E1 F1]]. destruct (cstep_later s it) as [e2 [E2 F2]].
    exists (e1 ++ e2). rewrite E1, E2, app_assoc. split; [reflexivity|apply Forall_app; auto]. }
  destruct (H sched (sys0 (initialised limit fuel c))) as [evs [E F]]. rewrite E.
  unfold sys0, pc_after, finish_start. destruct (map fst (modules (initialised limit fuel c))); simpl.
  - destruct (errors (initialised limit fuel c)); simpl; [exists evs; auto|].
    exists (evs ++ [EExit]). rewrite <- app_assoc. split; [reflexivity|]. apply Forall_app. split; auto. repeat constructor.
  - exists evs. auto.
Qed.

Lemma later_counts evs tr m : Forall later_ev evs -> ce m (evs ++ tr) = ce m tr /\ ci m (evs ++ tr) = ci m tr.
Proof.
  induction evs as [|e r IH]; intros F; simpl; auto. inversion F; subst. destruct (IH H2) as [A B].
  rewrite ce_cons, ci_cons, A, B. destruct e; simpl in *; try contradiction; auto.
Qed.

Lemma later_early_first evs tr : Forall later_ev evs -> early_first tr -> early_first (evs ++ tr).
Proof.
  induction evs as [|e r IH]; intros F O; simpl; auto. inversion F; subst.
  apply early_first_other; auto. intros m E. subst e. simpl in H1. contradiction.
Qed.

(* the whole first clause of the property at the ready point, for every configuration with small names, every
   declaration order, every schedule: every module of the node got exactly one earlyInit, exactly one initModule and
   exactly one startModule, in this order; nothing else got any *)
Theorem ready_lifecycle_once limit fuel c sched : cfg_small c -> stuck (initialised limit fuel c) = false ->
  s_pc (started limit fuel c sched) = MRun ->
  let st := s_node (started limit fuel c sched) in
  (forall m, has_key m (modules st) = true -> ce m (trace st) = 1 /\ ci m (trace st) = 1) /\
  (forall m, has_key m (modules st) = false -> ce m (trace st) = 0 /\ ci m (trace st) = 0) /\
  early_first (trace st) /\
  starts (trace st) = rev (map EStart (map fst (modules st))) /\
  (exists evs, trace st = evs ++ trace (initialised limit fuel c) /\ starts (trace (initialised limit fuel c)) = []).
Proof.
  intros CS NS PC st. pose proof (running_no_errors limit fuel c sched PC) as NE.
  destruct (initialised_once limit fuel c CS NE NS) as [A [B O]].
  destruct (started_later limit fuel c sched) as [evs [E F]].
  subst st. rewrite started_modules. rewrite E.
  split; [|split; [|split; [|split]]].
  - intros m K. destruct (later_counts evs (trace (initialised limit fuel c)) m F) as [X Y]. rewrite X, Y. auto.
  - intros m K. destruct (later_counts evs (trace (initialised limit fuel c)) m F) as [X Y]. rewrite X, Y. auto.
  - apply later_early_first; auto.
  - rewrite <- E. apply ready_started_once. exact PC.
  - exists evs. split; [reflexivity|]. apply starts_init_ev. apply initialised_trace.
Qed.
