(* C15 — lemmas, part 2: the initialisation machine (get_module / Attached.__get__) on an acyclic attachment graph:
   no module is re-entered, earlyInit and initModule run at most once per module and exactly once (earlyInit) for
   every module that is marked as initialised.  Acyclicity is given by a rank function that decreases along every
   attachment.  The node is closed: every configured module that can be created has been created (this is the
   state after create_modules when no Pinata is involved). *)
From Coq Require Import List Arith Bool Lia Sorted.
Import ListNotations.
Require Import FV.C15.Model FV.C15.Lemmas.

(* ---------------------------------------------------------------- association lists *)
Lemma find_upd {A} k k' (f : A -> A) : forall l,
  find k' (upd k f l) = if Nat.eqb k' k then option_map f (find k' l) else find k' l.
Proof.
  induction l as [|[k0 v] r IH]; simpl.
  - destruct (Nat.eqb k' k); reflexivity.
  - destruct (Nat.eqb k k0) eqn:E1; simpl.
    + apply Nat.eqb_eq in E1. subst k0. destruct (Nat.eqb k' k) eqn:E2; simpl; auto.
    + destruct (Nat.eqb k' k0) eqn:E2; simpl; [|exact IH].
      apply Nat.eqb_eq in E2. subst k0. rewrite Nat.eqb_sym in E1. rewrite E1. reflexivity.
Qed.

(* the part of the state the invariant talks about *)
Definition isinit_m (mods : list (name * inst)) (b : name) : bool :=
  match find b mods with Some i => i_isinit i | None => false end.
Definition ops_m (mods : list (name * inst)) (b : name) : list op :=
  match find b mods with Some i => frame_ops (i_decl i) (i_io i) | None => frame_ops io_decl None end.

Lemma isinit_eq st b : isinit st b = isinit_m (modules st) b. Proof. reflexivity. Qed.
Lemma push_ops st b : stack (push b st) = {| f_mod := b; f_ops := ops_m (modules st) b |} :: stack st.
Proof. unfold push, ops_m, decl_of, io_of. simpl. destruct (find b (modules st)); reflexivity. Qed.

(* updates that keep declaration and io of every instance *)
Definition keeps (f : inst -> inst) : Prop := forall i, i_decl (f i) = i_decl i /\ i_io (f i) = i_io i.

Lemma has_key_upd {A} k k' (f : A -> A) l : has_key k' (upd k f l) = has_key k' l.
Proof. unfold has_key. rewrite find_upd. destruct (Nat.eqb k' k); auto. destruct (find k' l); reflexivity. Qed.

Lemma ops_m_upd k f mods b : keeps f -> ops_m (upd k f mods) b = ops_m mods b.
Proof.
  intros K. unfold ops_m. rewrite find_upd. destruct (Nat.eqb b k); auto.
  destruct (find b mods); simpl; auto. destruct (K i) as [D I]. rewrite D, I. reflexivity.
Qed.

Lemma isinit_m_upd_keep k f mods b : (forall i, i_isinit (f i) = i_isinit i) -> isinit_m (upd k f mods) b = isinit_m mods b.
Proof.
  intros K. unfold isinit_m. rewrite find_upd. destruct (Nat.eqb b k); auto. destruct (find b mods); simpl; auto.
Qed.

Lemma isinit_m_mark u mods b :
  isinit_m (upd u (fun i => {| i_decl := i_decl i; i_io := i_io i; i_isinit := true;
                                i_attached := i_attached i; i_polled := i_polled i |}) mods) b =
  if Nat.eqb b u then has_key b mods else isinit_m mods b.
Proof.
  unfold isinit_m, has_key. rewrite find_upd. destruct (Nat.eqb b u); auto. destruct (find b mods); reflexivity.
Qed.

(* ---------------------------------------------------------------- counting events *)
Definition is_early (m : name) (e : event) : bool := match e with EEarly n => Nat.eqb n m | _ => false end.
Definition is_initev (m : name) (e : event) : bool := match e with EInit n => Nat.eqb n m | _ => false end.
Definition ce (m : name) (tr : list event) : nat := length (filter (is_early m) tr).
Definition ci (m : name) (tr : list event) : nat := length (filter (is_initev m) tr).

(* ---------------------------------------------------------------- shape of the remaining operations of a frame *)
Definition is_ev (o : op) : bool := match o with OEarlyEv | OInitEv => true | _ => false end.
Definition evs_of (ops : list op) : list op := filter is_ev ops.
Definition late (ops : list op) : Prop := evs_of ops = [OInitEv] \/ evs_of ops = [].
Definition shape (ops : list op) : Prop := (exists r, ops = OEarlyEv :: r /\ evs_of r = [OInitEv]) \/ late ops.
Definition exp_e (ops : list op) : nat := match ops with OEarlyEv :: _ => 0 | _ => 1 end.
Definition exp_i (ops : list op) : nat := match evs_of ops with [] => 1 | _ => 0 end.

Lemma late_exp_e ops : late ops -> exp_e ops = 1.
Proof. intros [H|H]; destruct ops as [|[] r]; simpl in *; auto; discriminate. Qed.

Lemma evs_accesses p d : evs_of (accesses p d) = [].
Proof. unfold accesses, evs_of. induction (filter _ (indexed_atts d)); simpl; auto. Qed.

Lemma evs_app a b : evs_of (a ++ b) = evs_of a ++ evs_of b.
Proof. apply filter_app. Qed.

Lemma frame_ops_shape d io : exists r, frame_ops d io = OEarlyEv :: r /\ evs_of r = [OInitEv].
Proof.
  unfold frame_ops. eexists. split; [reflexivity|].
  rewrite !evs_app, !evs_accesses.
  destruct (d_fail_early d), (is_hasio d), (d_fail_init d), (is_some io); reflexivity.
Qed.

(* ---------------------------------------------------------------- ranks *)
Section Ranked.
Variable rank : name -> nat.

Definition op_ranked (u : name) (o : op) : Prop :=
  match o with
  | OAccess _ a => forall t, a_target a = Some t -> rank t < rank u
  | ORet _ _ b => rank b < rank u
  | _ => True
  end.
Definition frame_ranked (fr : frame) : Prop := Forall (op_ranked (f_mod fr)) (f_ops fr).

Definition closed_m (mods : list (name * inst)) (av : list (name * decl)) : Prop :=
  forall b d, find b av = Some d -> has_key b mods = false -> creatable d = false.

Definition frame_ok (mods : list (name * inst)) (tr : list event) (fr : frame) : Prop :=
  has_key (f_mod fr) mods = true /\ isinit_m mods (f_mod fr) = false /\ shape (f_ops fr) /\
  ce (f_mod fr) tr = exp_e (f_ops fr) /\ ci (f_mod fr) tr = exp_i (f_ops fr) /\ frame_ranked fr.

Definition rank_lt (f g : frame) : Prop := rank (f_mod f) < rank (f_mod g).

Record LI (mods : list (name * inst)) (tr : list event) (stk : list frame) (av : list (name * decl)) : Prop := {
  li_sorted : StronglySorted rank_lt stk;
  li_frames : Forall (frame_ok mods tr) stk;
  li_insts : forall b, has_key b mods = true -> frame_ranked {| f_mod := b; f_ops := ops_m mods b |};
  li_rest : forall m, ~ In m (map f_mod stk) ->
            (isinit_m mods m = false -> ce m tr = 0 /\ ci m tr = 0) /\
            (isinit_m mods m = true -> ce m tr = 1 /\ ci m tr <= 1);
  li_closed : closed_m mods av;
}.

Definition LInv (st : node) : Prop := LI (modules st) (trace st) (stack st) (avail st).

(* under a closed configuration get_module_instance creates nothing *)
Lemma get_instance_closed st b : closed_m (modules st) (avail st) ->
  modules (fst (get_instance st b)) = modules st /\ trace (fst (get_instance st b)) = trace st /\
  stack (fst (get_instance st b)) = stack st /\ avail (fst (get_instance st b)) = avail st /\
  (snd (get_instance st b) = IOk -> has_key b (modules st) = true).
Proof.
  intros C. unfold get_instance. destruct (has_key b (modules st)) eqn:K; simpl; auto.
  destruct (find b (avail st)) as [d|] eqn:F; simpl.
  - unfold create. rewrite (C b d F K). simpl. repeat split; auto. discriminate.
  - repeat split; auto. discriminate.
Qed.

Lemma sorted_notin u fr rest : StronglySorted rank_lt (fr :: rest) -> f_mod fr = u -> ~ In u (map f_mod rest).
Proof.
  intros S E I. inversion S as [|? ? _ F]; subst. rewrite Forall_forall in F. apply in_map_iff in I.
  destruct I as [g [G I]]. apply F in I. unfold rank_lt in I. rewrite G in I. lia.
Qed.

Lemma ce_cons m e tr : ce m (e :: tr) = (if is_early m e then 1 else 0) + ce m tr.
Proof. unfold ce. simpl. destruct (is_early m e); reflexivity. Qed.
Lemma ci_cons m e tr : ci m (e :: tr) = (if is_initev m e then 1 else 0) + ci m tr.
Proof. unfold ci. simpl. destruct (is_initev m e); reflexivity. Qed.

(* frames below the top are not affected by a step that only concerns the module u of the top frame *)
Lemma frames_keep mods mods' tr tr' u rest :
  ~ In u (map f_mod rest) ->
  (forall m, m <> u -> has_key m mods' = has_key m mods /\ isinit_m mods' m = isinit_m mods m) ->
  (forall m, m <> u -> ce m tr' = ce m tr /\ ci m tr' = ci m tr) ->
  Forall (frame_ok mods tr) rest -> Forall (frame_ok mods' tr') rest.
Proof.
  intros N HM HT F. rewrite Forall_forall in *. intros fr I.
  assert (Q : f_mod fr <> u) by (intros E; apply N; apply in_map_iff; eauto).
  destruct (F fr I) as [K [II [Sh [E1 [E2 R]]]]]. destruct (HM _ Q) as [K' I']. destruct (HT _ Q) as [C1 C2].
  unfold frame_ok. rewrite K', I', C1, C2. repeat split; auto.
Qed.

Lemma rest_keep mods mods' tr tr' (stk : list frame) u :
  In u (map f_mod stk) ->
  (forall m, m <> u -> isinit_m mods' m = isinit_m mods m) ->
  (forall m, m <> u -> ce m tr' = ce m tr /\ ci m tr' = ci m tr) ->
  (forall m, ~ In m (map f_mod stk) ->
     (isinit_m mods m = false -> ce m tr = 0 /\ ci m tr = 0) /\ (isinit_m mods m = true -> ce m tr = 1 /\ ci m tr <= 1)) ->
  (forall m, ~ In m (map f_mod stk) ->
     (isinit_m mods' m = false -> ce m tr' = 0 /\ ci m tr' = 0) /\ (isinit_m mods' m = true -> ce m tr' = 1 /\ ci m tr' <= 1)).
Proof.
  intros U HM HT R m N. assert (Q : m <> u) by (intros E; subst; contradiction).
  rewrite (HM _ Q). destruct (HT _ Q) as [C1 C2]. rewrite C1, C2. apply R; auto.
Qed.

(* the top frame is finished, normally or by an exception: its module is marked, the frame is removed *)
Lemma pop_marked mods tr fr rest av :
  LI mods tr (fr :: rest) av -> late (f_ops fr) ->
  LI (upd (f_mod fr) (fun i => {| i_decl := i_decl i; i_io := i_io i; i_isinit := true;
                                   i_attached := i_attached i; i_polled := i_polled i |}) mods) tr rest av.
Proof.
  intros [S F I R C] L. set (u := f_mod fr). set (mods' := upd u _ mods).
  assert (N : ~ In u (map f_mod rest)) by (eapply sorted_notin; eauto).
  inversion F as [|? ? [K [II [Sh [E1 [E2 FR]]]]] F']; subst.
  assert (HM : forall m, m <> u -> has_key m mods' = has_key m mods /\ isinit_m mods' m = isinit_m mods m).
  { intros m Q. subst mods'. rewrite has_key_upd, isinit_m_mark. apply Nat.eqb_neq in Q. rewrite Q. auto. }
  constructor.
  - inversion S; auto.
  - eapply frames_keep; eauto.
  - intros b Kb. subst mods'. rewrite has_key_upd in Kb. rewrite ops_m_upd; [auto|]. intros i; simpl; auto.
  - intros m Nm. destruct (Nat.eq_dec m u) as [E|Q].
    + subst m. subst mods'. rewrite isinit_m_mark, Nat.eqb_refl. fold u in K. rewrite K.
      split; [discriminate|]. intros _. fold u in E1, E2. rewrite E1, E2, (late_exp_e _ L). split; auto.
      unfold exp_i. destruct (evs_of (f_ops fr)); auto.
    + destruct (HM m Q) as [_ IM]. rewrite IM. apply R. simpl. intros [X|X]; [apply Q; symmetry; exact X|contradiction].
  - intros b d Fb Kb. subst mods'. rewrite has_key_upd in Kb. eauto.
Qed.

(* the top frame goes on with the operations ops' (its module, the instances and the trace counts as given) *)
Lemma continue_top mods mods' tr tr' fr rest av ops' :
  LI mods tr (fr :: rest) av ->
  (forall m, has_key m mods' = has_key m mods /\ isinit_m mods' m = isinit_m mods m /\ ops_m mods' m = ops_m mods m) ->
  (forall m, m <> f_mod fr -> ce m tr' = ce m tr /\ ci m tr' = ci m tr) ->
  shape ops' -> ce (f_mod fr) tr' = exp_e ops' -> ci (f_mod fr) tr' = exp_i ops' ->
  Forall (op_ranked (f_mod fr)) ops' ->
  LI mods' tr' ({| f_mod := f_mod fr; f_ops := ops' |} :: rest) av.
Proof.
  intros [S F I R C] HM HT Sh E1 E2 FR. set (u := f_mod fr).
  assert (N : ~ In u (map f_mod rest)) by (eapply sorted_notin; eauto).
  inversion F as [|? ? [K [II _]] F']; subst.
  constructor.
  - inversion S as [|? ? S' FS]; subst. constructor; auto.
  - constructor.
    + unfold frame_ok; simpl. destruct (HM u) as [K' [I' _]]. fold u in K, II. rewrite K', I'. repeat split; auto.
    + apply (frames_keep mods mods' tr tr' u rest); auto. intros m _. destruct (HM m) as [A [B _]]. auto.
  - intros b Kb. destruct (HM b) as [K' [_ O']]. rewrite K' in Kb. rewrite O'. auto.
  - apply (rest_keep mods mods' tr tr' ({| f_mod := u; f_ops := ops' |} :: rest) u); simpl; auto.
    intros m _. destruct (HM m) as [_ [B _]]. auto.
  - intros b d Fb Kb. destruct (HM b) as [K' _]. rewrite K' in Kb. eauto.
Qed.

Lemma shape_tail o r : is_ev o = false -> shape (o :: r) -> late r /\ exp_i r = exp_i (o :: r).
Proof.
  intros E [[r' [H _]]|L].
  - inversion H; subst. discriminate.
  - unfold late, exp_i, evs_of in *. simpl in *. rewrite E in *. auto.
Qed.

Lemma ce_other m u tr : m <> u -> ce m (EEarly u :: tr) = ce m tr /\ ci m (EEarly u :: tr) = ci m tr.
Proof. intros Q. rewrite ce_cons, ci_cons. simpl. apply Nat.eqb_neq in Q. rewrite Nat.eqb_sym in Q. rewrite Q. auto. Qed.
Lemma ci_other m u tr : m <> u -> ce m (EInit u :: tr) = ce m tr /\ ci m (EInit u :: tr) = ci m tr.
Proof. intros Q. rewrite ce_cons, ci_cons. simpl. apply Nat.eqb_neq in Q. rewrite Nat.eqb_sym in Q. rewrite Q. auto. Qed.

Lemma keeps_same f mods : keeps f -> (forall i, i_isinit (f i) = i_isinit i) -> forall k m,
  has_key m (upd k f mods) = has_key m mods /\ isinit_m (upd k f mods) m = isinit_m mods m /\
  ops_m (upd k f mods) m = ops_m mods m.
Proof. intros K I k m. rewrite has_key_upd, isinit_m_upd_keep, ops_m_upd; auto. Qed.

Lemma LI_same_stack mods tr stk stk' av : stk = stk' -> LI mods tr stk av -> LI mods tr stk' av.
Proof. intros; subst; auto. Qed.

Ltac fin L E1 E2 XI :=
  auto; try (right; exact L);
  try (rewrite ?ce_cons; simpl; rewrite E1, (late_exp_e _ L); reflexivity);
  try (rewrite ?ci_cons; simpl; rewrite E2, XI; reflexivity).

(* one step of the machine keeps the invariant *)
Lemma step_LInv limit st : LInv st -> LInv (step limit st).
Proof.
  unfold LInv. intros H. unfold step. destruct (stack st) as [|fr rest] eqn:Hs; [rewrite Hs; exact H|].
  pose proof H as H0. destruct H0 as [S F I R C].
  inversion F as [|? ? [K [II [Sh [E1 [E2 FR]]]]] F']; subst.
  destruct (f_ops fr) as [|o ops] eqn:Ho.
  - (* the frame is finished *)
    simpl. apply pop_marked; auto. rewrite Ho. right; reflexivity.
  - assert (RAISE : late (f_ops fr) -> forall st', modules st' = modules st -> trace st' = trace st ->
              avail st' = avail st -> LInv (raise_top st' (f_mod fr) rest)).
    { intros L st' M T A. unfold LInv, raise_top. simpl. rewrite M, T, A. apply pop_marked; auto. }
    unfold frame_ranked in FR. rewrite Ho in FR. inversion FR as [|? ? RO RT]; subst.
    destruct o.
    + (* OEarlyEv *)
      destruct Sh as [[r [Hr Er]]|L]; [|destruct L as [L|L]; unfold evs_of in L; simpl in L; discriminate].
      inversion Hr; subst r. simpl.
      apply (continue_top (modules st) (modules st) (trace st) (EEarly (f_mod fr) :: trace st) fr rest); auto.
      * intros m Q. apply ce_other; auto.
      * right. left. exact Er.
      * rewrite ce_cons. simpl. rewrite Nat.eqb_refl, E1. simpl. symmetry. apply late_exp_e. left; exact Er.
      * rewrite ci_cons. simpl. rewrite E2. unfold exp_i. simpl. rewrite Er. reflexivity.
    + (* OInitEv *)
      assert (Er : evs_of ops = []).
      { destruct Sh as [[r [Hr _]]|[L|L]]; [discriminate| |]; unfold evs_of in L; simpl in L; [inversion L; auto|discriminate]. }
      simpl.
      apply (continue_top (modules st) (modules st) (trace st) (EInit (f_mod fr) :: trace st) fr rest); auto.
      * intros m Q. apply ci_other; auto.
      * right. right. exact Er.
      * rewrite ce_cons. simpl. rewrite E1. simpl. symmetry. apply late_exp_e. right; exact Er.
      * rewrite ci_cons. simpl. rewrite Nat.eqb_refl, E2. unfold exp_i. simpl. rewrite Er. reflexivity.
    + (* OAccess *)
      destruct (shape_tail (OAccess idx a) ops eq_refl Sh) as [L XI].
      assert (LT : late (f_ops fr)).
      { rewrite Ho. destruct Sh as [[r [Hr _]]|Q]; [discriminate|exact Q]. }
      assert (SEE : forall t ok, LI (modules st) (ESee (f_mod fr) idx t ok :: trace st)
                                    ({| f_mod := f_mod fr; f_ops := ops |} :: rest) (avail st)).
      { intros t ok. apply (continue_top (modules st) (modules st) (trace st) _ fr rest); fin L E1 E2 XI. }
      destruct (find idx (attached_of st (f_mod fr))); [apply SEE|].
      destruct (a_target a) as [b|] eqn:TA; [|apply SEE].
      pose proof (get_instance_closed st b C) as [GM [GT [GS [GA GK]]]].
      destruct (get_instance st b) as [st1 r]; simpl in *.
      destruct r; try (apply RAISE; auto; rewrite Ho; exact LT).
      specialize (GK eq_refl).
      assert (RB : rank b < rank (f_mod fr)) by (apply RO; exact TA).
      assert (ST2 : LI (modules st) (trace st) ({| f_mod := f_mod fr; f_ops := ORet idx a b :: ops |} :: rest) (avail st)).
      { apply (continue_top (modules st) (modules st) (trace st) (trace st) fr rest); auto;
          try (right; unfold late, evs_of in *; simpl; exact L); try (rewrite E1; reflexivity);
          try (rewrite E2; unfold exp_i, evs_of; simpl; reflexivity); try (constructor; auto). }
      assert (EQ : isinit (set_stack st1 ({| f_mod := f_mod fr; f_ops := ORet idx a b :: ops |} :: rest)) b =
                   isinit_m (modules st) b) by (unfold isinit; simpl; rewrite GM; reflexivity).
      rewrite EQ.
      destruct (isinit_m (modules st) b) eqn:IB.
      * simpl. rewrite GM, GT, GA. exact ST2.
      * destruct (Nat.leb _ _).
        -- apply RAISE; simpl; auto; rewrite Ho; exact LT.
        -- (* a new frame for b *)
           unfold LInv. rewrite push_ops. simpl. rewrite GM, GT, GA.
           destruct ST2 as [S2 F2 I2 R2 C2].
           assert (NB : ~ In b (map f_mod ({| f_mod := f_mod fr; f_ops := ORet idx a b :: ops |} :: rest))).
           { simpl. intros [X|X]; [rewrite X in RB; lia|]. inversion S as [|? ? _ FS]; subst. rewrite Forall_forall in FS.
             apply in_map_iff in X. destruct X as [g [G X]]. apply FS in X. unfold rank_lt in X. rewrite G in X. lia. }
           destruct (R2 b NB) as [RB0 _]. destruct (RB0 IB) as [CE CI].
           destruct (frame_ops_shape (decl_of st b) (io_of st b)) as [r0 [HR0 ER0]].
           assert (OPS : ops_m (modules st) b = OEarlyEv :: r0).
           { unfold ops_m. unfold decl_of, io_of in HR0. destruct (find b (modules st)); exact HR0. }
           constructor; auto.
           ++ constructor; auto. rewrite Forall_forall. intros g G. simpl in G. destruct G as [G|G].
              ** subst g. unfold rank_lt; simpl. exact RB.
              ** inversion S as [|? ? _ FS]; subst. rewrite Forall_forall in FS. apply FS in G.
                 unfold rank_lt in *. simpl. lia.
           ++ constructor; auto. unfold frame_ok; simpl. rewrite OPS.
              assert (IR : frame_ranked {| f_mod := b; f_ops := OEarlyEv :: r0 |}).
              { pose proof (I2 b GK) as IR. unfold frame_ranked in *. simpl in *. rewrite OPS in IR. exact IR. }
              repeat split; auto. left. exists r0; auto.
           ++ intros m Nm. apply R2. intros X. apply Nm. right. exact X.
    + (* ORet *)
      destruct (shape_tail (ORet idx a b) ops eq_refl Sh) as [L XI].
      assert (LT : late (f_ops fr)).
      { rewrite Ho. destruct Sh as [[r [Hr _]]|Q]; [discriminate|exact Q]. }
      destruct (want_ok _ _); [|apply RAISE; auto; rewrite Ho; exact LT].
      simpl.
      apply (continue_top (modules st) _ (trace st) _ fr rest); fin L E1 E2 XI.
      intros m. apply keeps_same; intros i; simpl; auto.
    + (* ORaise *)
      apply RAISE; auto. rewrite Ho. destruct Sh as [[r [Hr _]]|Q]; [discriminate|exact Q].
    + (* ORegister *)
      destruct (shape_tail ORegister ops eq_refl Sh) as [L XI].
      unfold register. destruct (_ || _); simpl.
      * apply (continue_top (modules st) _ (trace st) _ fr rest); fin L E1 E2 XI.
        intros m. apply keeps_same; intros i; simpl; auto.
      * apply (continue_top (modules st) _ (trace st) _ fr rest); fin L E1 E2 XI.
Qed.

Lemma run_gm_LInv limit fuel : forall st, LInv st -> LInv (run_gm limit fuel st).
Proof.
  induction fuel; intros st H; simpl; destruct (stack st) eqn:Hs; auto.
  apply IHfuel. apply step_LInv. exact H.
Qed.

Lemma gm_top_LInv limit fuel st b : LInv st -> stack st = [] -> LInv (gm_top limit fuel st b).
Proof.
  intros H Hs. unfold gm_top. pose proof H as H0. destruct H0 as [S F I R C].
  pose proof (get_instance_closed st b C) as [GM [GT [GS [GA GK]]]].
  destruct (get_instance st b) as [st1 r]; simpl in *.
  assert (H1 : LInv st1) by (unfold LInv; rewrite GM, GT, GS, GA; exact H).
  destruct r; auto. specialize (GK eq_refl).
  unfold isinit. rewrite GM. fold (isinit_m (modules st) b). destruct (isinit_m (modules st) b) eqn:IB; auto.
  apply run_gm_LInv. unfold LInv. rewrite push_ops. simpl. rewrite GM, GT, GS, GA, Hs.
  rewrite Hs in R. destruct (R b (fun x => x)) as [RB0 _]. destruct (RB0 IB) as [CE CI].
  destruct (frame_ops_shape (decl_of st b) (io_of st b)) as [r0 [HR0 ER0]].
  assert (OPS : ops_m (modules st) b = OEarlyEv :: r0).
  { unfold ops_m. unfold decl_of, io_of in HR0. destruct (find b (modules st)); exact HR0. }
  assert (FK : frame_ok (modules st) (trace st) {| f_mod := b; f_ops := ops_m (modules st) b |}).
  { unfold frame_ok; simpl. rewrite OPS.
    assert (IR : frame_ranked {| f_mod := b; f_ops := OEarlyEv :: r0 |}).
    { pose proof (I b GK) as IR. unfold frame_ranked in *. simpl in *. rewrite OPS in IR. exact IR. }
    repeat split; auto. left. exists r0; auto. }
  constructor; auto; try (constructor; constructor); try (intros m Nm; apply R; intros []).
Qed.

Lemma run_gm_stack limit fuel : forall st, stuck (run_gm limit fuel st) = false -> stack (run_gm limit fuel st) = [].
Proof.
  induction fuel; intros st; simpl; destruct (stack st) eqn:Hs; auto; try discriminate.
Qed.

Ltac crush_if := repeat (match goal with
  | |- context [if ?c then _ else _] => destruct c; simpl
  | |- context [match ?x with _ => _ end] => destruct x; simpl
  end); try reflexivity.

Lemma create_stack_stuck st b d : stack (fst (create st b d)) = stack st /\ stuck (fst (create st b d)) = stuck st.
Proof.
  unfold create. destruct (negb (creatable d)); simpl; auto.
  destruct (d_kind d) as [|[|u|m]|]; simpl; unfold add_module; simpl;
    try (destruct (find u (iodict st)); simpl);
    repeat (match goal with |- context [if ?c then _ else _] => destruct c; simpl end); auto.
Qed.

Lemma get_instance_stack st b : stack (fst (get_instance st b)) = stack st.
Proof.
  unfold get_instance. destruct (has_key b (modules st)); auto. destruct (find b (avail st)); auto.
  apply create_stack_stuck.
Qed.

Lemma gm_top_stack limit fuel st b : stack st = [] -> stuck (gm_top limit fuel st b) = false ->
  stack (gm_top limit fuel st b) = [].
Proof.
  intros Hs. unfold gm_top. pose proof (get_instance_stack st b) as G.
  destruct (get_instance st b) as [st1 r]; simpl in G. rewrite Hs in G.
  destruct r; auto. destruct (isinit st1 b); auto. apply run_gm_stack.
Qed.

(* the stuck flag is never reset *)
Lemma get_instance_stuck st b : stuck (fst (get_instance st b)) = stuck st.
Proof.
  unfold get_instance. destruct (has_key b (modules st)); auto. destruct (find b (avail st)); auto.
  apply create_stack_stuck.
Qed.

Lemma step_stuck limit st : stuck (step limit st) = stuck st.
Proof.
  unfold step. destruct (stack st) as [|fr rest]; auto. destruct (f_ops fr) as [|o ops]; auto.
  destruct o; simpl; auto.
  - destruct (find idx _); auto. destruct (a_target a) as [b|]; auto.
    pose proof (get_instance_stuck st b) as G. destruct (get_instance st b) as [st1 r]; simpl in G.
    destruct r; simpl; auto. destruct (isinit _ b); simpl; auto. destruct (Nat.leb _ _); simpl; auto.
  - destruct (want_ok _ _); auto.
  - unfold register. destruct (_ || _); auto.
Qed.

Lemma run_gm_sticky limit fuel : forall st, stuck st = true -> stuck (run_gm limit fuel st) = true.
Proof.
  induction fuel; intros st H; simpl; destruct (stack st); auto. apply IHfuel. rewrite step_stuck. exact H.
Qed.

Lemma gm_top_sticky limit fuel st b : stuck st = true -> stuck (gm_top limit fuel st b) = true.
Proof.
  intros H. unfold gm_top. pose proof (get_instance_stuck st b) as G.
  destruct (get_instance st b) as [st1 r]; simpl in G. rewrite H in G.
  destruct r; auto. destruct (isinit st1 b); auto. apply run_gm_sticky. exact G.
Qed.

Lemma init_loop_sticky limit fuel : forall n i st, stuck st = true -> stuck (init_loop limit fuel n i st) = true.
Proof.
  induction n; intros i st H; simpl; auto. destruct (nth_error (export st) i); auto.
  apply IHn. apply gm_top_sticky. exact H.
Qed.

(* the whole initialisation loop of get_descriptive_data *)
Lemma init_loop_LInv limit fuel : forall n i st, LInv st -> stack st = [] ->
  stuck (init_loop limit fuel n i st) = false ->
  LInv (init_loop limit fuel n i st) /\ stack (init_loop limit fuel n i st) = [].
Proof.
  induction n; intros i st H Hs NS; simpl in *; auto.
  destruct (nth_error (export st) i) as [b|]; auto.
  assert (NS1 : stuck (gm_top limit fuel st b) = false).
  { destruct (stuck (gm_top limit fuel st b)) eqn:Q; auto.
    rewrite (init_loop_sticky limit fuel n (S i) _ Q) in NS. discriminate. }
  apply IHn; auto using gm_top_LInv, gm_top_stack.
Qed.

(* what the invariant says once no initialisation is in progress *)
Theorem init_once_when_idle st : LInv st -> stack st = [] -> forall m,
  (isinit st m = false -> ce m (trace st) = 0 /\ ci m (trace st) = 0) /\
  (isinit st m = true -> ce m (trace st) = 1 /\ ci m (trace st) <= 1).
Proof. intros [_ _ _ R _] Hs m. rewrite Hs in R. apply R. intros []. Qed.

(* a node in which nothing was initialised yet *)
Definition fresh (st : node) : Prop :=
  stack st = [] /\ trace st = [] /\ (forall m, isinit st m = false) /\
  closed_m (modules st) (avail st) /\
  (forall b, has_key b (modules st) = true -> frame_ranked {| f_mod := b; f_ops := ops_m (modules st) b |}).

Lemma fresh_LInv st : fresh st -> LInv st.
Proof.
  intros [Hs [T [I [C R]]]]. unfold LInv. rewrite Hs, T. constructor; auto.
  - constructor.
  - intros m _. split; [intros _; auto|]. intros Q. rewrite <- isinit_eq, I in Q. discriminate.
Qed.

Theorem init_all_once limit fuel st : fresh st -> stuck (init_all limit fuel st) = false ->
  forall m, let st' := init_all limit fuel st in
  (isinit st' m = false -> ce m (trace st') = 0 /\ ci m (trace st') = 0) /\
  (isinit st' m = true -> ce m (trace st') = 1 /\ ci m (trace st') <= 1).
Proof.
  intros F NS m st'. pose proof F as [Hs _].
  destruct (init_loop_LInv limit fuel _ 0 st (fresh_LInv st F) Hs NS) as [L E].
  apply init_once_when_idle; auto.
Qed.

(* ---------------------------------------------------------------- every module of the node is initialised
   (Server._processCfg fetches every module with get_module after get_descriptive_data) *)
Lemma has_key_set_assoc {A} k k' (v : A) : forall l, has_key k' l = true -> has_key k' (set_assoc k v l) = true.
Proof.
  unfold has_key. induction l as [|[k0 v0] r IH]; simpl; [discriminate|].
  destruct (Nat.eqb k k0) eqn:E1; simpl.
  - apply Nat.eqb_eq in E1. subst k0. destruct (Nat.eqb k' k); auto.
  - destruct (Nat.eqb k' k0); auto.
Qed.

Lemma has_key_In {A} k : forall (l : list (nat * A)), has_key k l = true -> In k (map fst l).
Proof.
  unfold has_key. induction l as [|[k0 v0] r IH]; simpl; [discriminate|].
  destruct (Nat.eqb k k0) eqn:E; [apply Nat.eqb_eq in E; auto|auto].
Qed.

Definition keys_mono (st st' : node) : Prop :=
  forall b, has_key b (modules st) = true -> has_key b (modules st') = true.

Lemma km_refl st : keys_mono st st. Proof. intros b H; exact H. Qed.
Lemma km_trans a b c : keys_mono a b -> keys_mono b c -> keys_mono a c.
Proof. intros H1 H2 k K. auto. Qed.
Lemma km_same st st' : modules st' = modules st -> keys_mono st st'.
Proof. intros E b H. rewrite E. exact H. Qed.
Lemma km_upd st st' k f : modules st' = upd k f (modules st) -> keys_mono st st'.
Proof. intros E b H. rewrite E, has_key_upd. exact H. Qed.

Lemma add_module_keys n i st : keys_mono st (add_module n i st).
Proof. intros b H. unfold add_module. destruct (d_export (i_decl i)); simpl; apply has_key_set_assoc; exact H. Qed.

Lemma create_keys st b d : keys_mono st (fst (create st b d)).
Proof.
  unfold create. destruct (negb (creatable d)); simpl; [apply km_same; reflexivity|].
  destruct (d_kind d) as [|[|u|m]|]; simpl; try apply add_module_keys.
  destruct (find u (iodict st)); simpl; [apply add_module_keys|].
  eapply km_trans; [|apply add_module_keys]. eapply km_trans; [apply (add_module_keys (io_name b) (new_inst io_decl None))|].
  apply km_same. reflexivity.
Qed.

Lemma get_instance_keys st b : keys_mono st (fst (get_instance st b)).
Proof.
  unfold get_instance. destruct (has_key b (modules st)); simpl; [apply km_refl|].
  destruct (find b (avail st)); simpl; [apply create_keys|apply km_refl].
Qed.

Lemma step_keys limit st : keys_mono st (step limit st).
Proof.
  unfold step. destruct (stack st) as [|fr rest]; [apply km_refl|].
  destruct (f_ops fr) as [|o ops]; [eapply km_upd; reflexivity|].
  destruct o; try (apply km_same; reflexivity).
  - destruct (find idx (attached_of st (f_mod fr))); [apply km_same; reflexivity|].
    destruct (a_target a) as [b|]; [|apply km_same; reflexivity].
    pose proof (get_instance_keys st b) as G. destruct (get_instance st b) as [st1 r]; simpl in G.
    destruct r; try (eapply km_trans; [exact G|eapply km_upd; reflexivity]).
    destruct (isinit _ b); [eapply km_trans; [exact G|apply km_same; reflexivity]|].
    destruct (Nat.leb _ _); eapply km_trans; try exact G; [eapply km_upd; reflexivity|apply km_same; reflexivity].
  - destruct (want_ok _ _); eapply km_upd; reflexivity.
  - eapply km_upd; reflexivity.
  - unfold register. destruct (_ || _); [eapply km_upd; reflexivity|apply km_same; reflexivity].
Qed.

Lemma run_gm_keys limit fuel : forall st, keys_mono st (run_gm limit fuel st).
Proof.
  induction fuel; intros st; simpl; destruct (stack st); try apply km_refl.
  - apply km_same; reflexivity.
  - eapply km_trans; [apply step_keys|apply IHfuel].
Qed.

Lemma gm_top_keys limit fuel st b : keys_mono st (gm_top limit fuel st b).
Proof.
  unfold gm_top. pose proof (get_instance_keys st b) as G. destruct (get_instance st b) as [st1 r]; simpl in G.
  destruct r; auto. destruct (isinit st1 b); auto.
  eapply km_trans; [exact G|]. eapply km_trans; [|apply run_gm_keys]. apply km_same; reflexivity.
Qed.

Lemma init_loop_keys limit fuel : forall n i st, keys_mono st (init_loop limit fuel n i st).
Proof.
  induction n; intros i st; simpl; [apply km_refl|]. destruct (nth_error (export st) i); [|apply km_refl].
  eapply km_trans; [apply gm_top_keys|apply IHn].
Qed.

Lemma In_ce b : forall tr, In (EEarly b) tr -> 1 <= ce b tr.
Proof.
  induction tr as [|e r IH]; simpl; [contradiction|]. intros [E|I]; rewrite ce_cons.
  - subst e. simpl. rewrite Nat.eqb_refl. lia.
  - specialize (IH I). lia.
Qed.

Lemma ce_In b : forall tr, 1 <= ce b tr -> In (EEarly b) tr.
Proof.
  induction tr as [|e r IH]; [unfold ce; simpl; lia|]. rewrite ce_cons. destruct (is_early b e) eqn:E.
  - intros _. left. destruct e; try discriminate. simpl in E. apply Nat.eqb_eq in E. subst; reflexivity.
  - intros H. right. apply IH. lia.
Qed.

Lemma ext_In st st' e : ext st st' -> In e (trace st) -> In e (trace st').
Proof. intros [[evs [T _]] _] I. rewrite T. apply in_or_app. right. exact I. Qed.

(* get_module of an existing module: afterwards its earlyInit has run (now or earlier) *)
Lemma gm_top_early limit fuel st b : has_key b (modules st) = true -> stuck (gm_top limit fuel st b) = false ->
  isinit st b = true \/ In (EEarly b) (trace (gm_top limit fuel st b)).
Proof.
  intros K. unfold gm_top, get_instance. rewrite K. simpl. destruct (isinit st b) eqn:I; auto. intros NS. right.
  destruct (frame_ops_shape (decl_of st b) (io_of st b)) as [r0 [HR _]].
  assert (P : push b st = set_stack st ({| f_mod := b; f_ops := OEarlyEv :: r0 |} :: stack st))
    by (unfold push; rewrite HR; reflexivity).
  rewrite P in *. destruct fuel; simpl in *; [discriminate|].
  match goal with |- In _ (trace (run_gm limit fuel ?s)) => set (st2 := s) in * end.
  assert (T2 : trace st2 = EEarly b :: trace st) by reflexivity.
  apply (ext_In st2); [apply run_gm_ext|]. rewrite T2. left; reflexivity.
Qed.

Lemma fold_sticky limit fuel : forall names st, stuck st = true ->
  stuck (fold_left (fun acc b => gm_top limit fuel acc b) names st) = true.
Proof. induction names; intros st H; simpl; auto. apply IHnames. apply gm_top_sticky. exact H. Qed.

Lemma fold_all limit fuel : forall names st, LInv st -> stack st = [] ->
  stuck (fold_left (fun acc b => gm_top limit fuel acc b) names st) = false ->
  let st' := fold_left (fun acc b => gm_top limit fuel acc b) names st in
  LInv st' /\ stack st' = [] /\
  (forall b, In b names -> has_key b (modules st) = true -> In (EEarly b) (trace st')).
Proof.
  induction names as [|b r IH]; intros st L Hs NS; simpl in *.
  - split; [exact L|split; [exact Hs|intros b F; contradiction]].
  - assert (NS1 : stuck (gm_top limit fuel st b) = false).
    { destruct (stuck (gm_top limit fuel st b)) eqn:Q; auto.
      rewrite (fold_sticky limit fuel r _ Q) in NS. discriminate. }
    pose proof (gm_top_LInv limit fuel st b L Hs) as L1. pose proof (gm_top_stack limit fuel st b Hs NS1) as Hs1.
    destruct (IH _ L1 Hs1 NS) as [L2 [Hs2 E2]]. split; [exact L2|split; [exact Hs2|]].
    intros x [X|X] K.
    + subst x. apply (ext_In (gm_top limit fuel st b)); [apply fold_gm_ext|].
      destruct (gm_top_early limit fuel st b K NS1) as [I|I]; auto.
      apply (ext_In st); [apply gm_top_ext|]. apply ce_In.
      destruct (init_once_when_idle st L Hs b) as [_ R]. destruct (R I) as [C _]. lia.
    + apply E2; auto. apply (gm_top_keys limit fuel st b). exact K.
Qed.

Theorem init_phase_every_module limit fuel st : fresh st -> stuck (init_phase limit fuel st) = false ->
  forall m, let st' := init_phase limit fuel st in
  (has_key m (modules st) = true -> isinit st' m = true /\ ce m (trace st') = 1 /\ ci m (trace st') <= 1) /\
  (isinit st' m = false -> ce m (trace st') = 0 /\ ci m (trace st') = 0).
Proof.
  intros F NS m st'. pose proof F as [Hs _]. unfold init_phase, init_rest in *.
  set (st1 := init_all limit fuel st) in *.
  assert (NS1 : stuck st1 = false).
  { destruct (stuck st1) eqn:Q; auto. rewrite (fold_sticky limit fuel _ _ Q) in NS. discriminate. }
  destruct (init_loop_LInv limit fuel _ 0 st (fresh_LInv st F) Hs NS1) as [L1 Hs1]. fold st1 in L1, Hs1.
  destruct (fold_all limit fuel (map fst (modules st1)) st1 L1 Hs1 NS) as [L2 [Hs2 E2]].
  destruct (init_once_when_idle _ L2 Hs2 m) as [R0 R1]. split; [|exact R0].
  intros K. assert (K1 : has_key m (modules st1) = true) by (apply (init_loop_keys limit fuel _ 0 st); exact K).
  pose proof (E2 m (has_key_In m _ K1) K1) as I. apply In_ce in I.
  unfold st' in *. clear st'.
  match goal with |- isinit ?s m = true /\ _ => destruct (isinit s m) eqn:Q end.
  - split; auto.
  - destruct (R0 eq_refl) as [C _]. rewrite C in I. lia.
Qed.

End Ranked.
