(* C15 — witnesses of genuine defects of the tree, reproduced by the faithful model.
   (The witness for unexported, unattached modules is gone: repaired by 68acea7, see C15_init_once_acyclic.) *)
From Coq Require Import List Arith Bool.
Import ListNotations.
Require Import FV.C15.Model.

Definition plain (export : bool) (atts : list att) (writes : list nat) : decl :=
  {| d_kind := KPlain; d_tag := 0; d_export := export; d_atts := atts; d_poll := true; d_writes := writes;
     d_fail_early := false; d_fail_init := false; d_hang := false; d_cfail := CFNone |}.
Definition pinata (atts : list att) (scan : list name) : decl :=
  {| d_kind := KPinata scan; d_tag := 0; d_export := false; d_atts := atts; d_poll := true; d_writes := [];
     d_fail_early := false; d_fail_init := false; d_hang := false; d_cfail := CFNone |}.
Definition to (t : name) : att := {| a_target := Some t; a_mand := true; a_want := None; a_phase := PInit |}.

(* finding C15/pinata-created-through-attachment-not-scanned: the same two Pinata modules in both declaration
   orders; module 5 found by Pinata 1 exists only if Pinata 1 is declared before Pinata 0 that attaches it *)
Definition cfg_pinata (first_user : bool) : cfg :=
  let p0 := (0, pinata [to 1] []) in
  let p1 := (1, pinata [] [5]) in
  {| c_static := if first_user then [p0; p1] else [p1; p0]; c_dyn := [(5, plain true [] [])] |}.

Theorem C15_refuted_pinata_order_dependent :
  exists c1 c2,
    (forall x, In x (c_static c1) <-> In x (c_static c2)) /\ c_dyn c1 = c_dyn c2 /\
    errors (initialised 40 2000 c1) = [] /\ errors (initialised 40 2000 c2) = [] /\
    has_key 5 (modules (initialised 40 2000 c1)) = false /\
    has_key 5 (modules (initialised 40 2000 c2)) = true.
Proof.
  exists (cfg_pinata true), (cfg_pinata false). split.
  - intros x; simpl; tauto.
  - vm_compute. repeat split; reflexivity.
Qed.

(* finding C15/later-modules-skipped-after-comm-failure: modules 0 and 1 share the communicator 100 (uri 0), so the
   poll thread of 100 serves [100; 0; 1]; initialReads of module 0 raises CommunicationFailedError.  Module 1 has the
   configured value x0.  Under the schedule below the node reports ready, the trace contains doPoll of module 1
   and never a write of module 1 - and the program of the thread does not contain that write at all. *)
Definition hasio (u : nat) (writes : list nat) (f : cfault) : decl :=
  {| d_kind := KHasIO (IoUri u); d_tag := 0; d_export := true; d_atts := []; d_poll := true; d_writes := writes;
     d_fail_early := false; d_fail_init := false; d_hang := false; d_cfail := f |}.
Definition cfg_comm : cfg :=
  {| c_static := [(0, hasio 0 [] CFIReads); (1, hasio 0 [0] CFNone)]; c_dyn := [] |}.
Definition sched_comm : list sitem :=
  [SMain; SMain; SMain; SThread 100; SThread 100; SThread 100; SThread 100; SThread 100; SThread 100; SThread 100;
   SMain].

Theorem C15_refuted_writes_before_first_poll_after_comm_failure :
  exists c sched t m k,
    let st := initialised 40 2000 c in
    let s := started 40 2000 c sched in
    errors st = [] /\ In m (polled_of st t) /\ In k (d_writes (decl_of st m)) /\
    In (EDoPoll m) (thread_prog st t) /\ ~ In (EWrite m k) (thread_prog st t) /\
    s_pc s = MRun /\ In (EReady true) (trace (s_node s)) /\
    In (EDoPoll m) (trace (s_node s)) /\ ~ In (EWrite m k) (trace (s_node s)).
Proof.
  exists cfg_comm, sched_comm, 100, 1, 0. vm_compute.
  repeat split; auto 20;
    try (intros H; repeat (destruct H as [H|H]; [discriminate|]); exact H).
Qed.
