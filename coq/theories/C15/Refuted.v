(* C15 — witnesses of genuine defects of the tree, reproduced by the faithful model.
   (The witness for unexported, unattached modules is gone: repaired by 68acea7, see C15_init_once_acyclic.) *)
From Coq Require Import List Arith Bool.
Import ListNotations.
Require Import FV.C15.Model.

Definition plain (export : bool) (atts : list att) (writes : list nat) : decl :=
  {| d_kind := KPlain; d_tag := 0; d_export := export; d_atts := atts; d_poll := true; d_writes := writes;
     d_fail_early := false; d_fail_init := false; d_hang := false |}.
Definition pinata (atts : list att) (scan : list name) : decl :=
  {| d_kind := KPinata scan; d_tag := 0; d_export := false; d_atts := atts; d_poll := true; d_writes := [];
     d_fail_early := false; d_fail_init := false; d_hang := false |}.
Definition to (t : name) : att := {| a_target := Some t; a_mand := true; a_want := None; a_phase := PInit |}.

(* finding C15/pinata-created-through-attachment-not-scanned: the same two Pinata modules in both declaration
   orders; module 5 found by Pinata 1 exists only if Pinata 1 is declared before Pinata 0 that attaches it *)
Definition cfg_pinata (first_user : bool) : cfg :=
  let p0 := (0, pinata [to 1] []) in
  let p1 := (1, pinata [] [5]) in
  {| c_static := if first_user then [p0; p1] else [p1; p0]; c_dyn := [(5, plain true [] [])] |}.

Theorem C15_refuted_pinata_order_dependent :
  exists c1 c2,
    (forall x, In x (c_static c1) <-> In x (c_static c2)) /\ c_dyn c1 = c_dyn c2 /\
    errors (initialised 40 2000 c1) = [] /\ errors (initialised 40 2000 c2) = [] /\
    has_key 5 (modules (initialised 40 2000 c1)) = false /\
    has_key 5 (modules (initialised 40 2000 c2)) = true.
Proof.
  exists (cfg_pinata true), (cfg_pinata false). split.
  - intros x; simpl; tauto.
  - vm_compute. repeat split; reflexivity.
Qed.
