(* C15 — lemmas, part 9: nodes that end WITH an error.  For every configuration with small names whose references
   (attachments, io) decrease along a rank function - an acyclic configuration - in every declaration order, with lazy
   creation through attachments, automatically created communicators, Pinata initialisations during create_modules
   and dynamically scanned modules: whatever goes wrong (missing or wrongly typed attachment, mandatory attachment
   without value, failing earlyInit / initModule, HasIO without uri and io, depth limit), every module gets AT MOST one
   earlyInit and at most one initModule, initModule only after earlyInit, and nothing that is not marked as
   initialised got any.  (On a cyclic configuration the code repeats the initialisations until the RecursionError -
   observed, about 250 times - so the rank hypothesis is necessary.)
   The invariant is LI of LemmasInit.v with an empty closure list (nothing has to exist in advance) plus the facts
   that make a lazily created module ranked. *)
From Coq Require Import List Arith Bool Lia Sorting.Sorted.
Import ListNotations.
Require Import FV.C15.Model FV.C15.Lemmas FV.C15.LemmasInit FV.C15.LemmasSort FV.C15.LemmasWf FV.C15.LemmasGlobal
  FV.C15.LemmasOnce.

Section RankedErr.
Variable rank : name -> nat.

Definition decl_ranked (b : name) (d : decl) : Prop :=
  (forall a t, In a (d_atts d) -> a_target a = Some t -> rank t < rank b) /\
  (forall m, d_kind d = KHasIO (IoMod m) -> rank m < rank b) /\
  (forall u n, d_kind d = KHasIO (IoUri u) -> 100 <= n -> rank n < rank b).
Definition av_ranked (av : list (name * decl)) : Prop := forall b d, In (b, d) av -> decl_ranked b d.
Definition iod_ok (iod : list (nat * name)) : Prop := forall u n, find u iod = Some n -> 100 <= n.
Definition insts_ranked (mods : list (name * inst)) : Prop :=
  forall b, has_key b mods = true -> frame_ranked rank {| f_mod := b; f_ops := ops_m mods b |}.

Record Side (st : node) : Prop := {
  sd_sm : small_m (modules st);
  sd_sa : small_av (avail st);
  sd_ar : av_ranked (avail st);
  sd_io : iod_ok (iodict st);
}.

Record RI (st : node) : Prop := {
  ri_li : LI rank (modules st) (trace st) (stack st) [];
  ri_side : Side st;
  ri_ord : early_first (trace st);
}.

Lemma accesses_ranked b p d : decl_ranked b d -> Forall (op_ranked rank b) (accesses p d).
Proof.
  intros [A _]. unfold accesses. rewrite Forall_forall. intros o I. apply in_map_iff in I.
  destruct I as [[i a] [E I]]. subst o. apply filter_In in I. destruct I as [I _]. unfold indexed_atts in I.
  apply in_combine_r in I. simpl. intros t T. eapply A; eauto.
Qed.

Lemma frame_ops_ranked b d io : decl_ranked b d -> (forall n, io = Some n -> rank n < rank b) ->
  Forall (op_ranked rank b) (frame_ops d io).
Proof.
  intros D IO. unfold frame_ops. repeat (apply Forall_app; split); try apply accesses_ranked; auto;
    try (destruct (d_fail_early d)); try (destruct (d_fail_init d)); try (destruct (is_hasio d && negb (is_some io)));
    try (destruct (is_hasio d)); repeat constructor; simpl; auto.
Qed.

Lemma io_decl_ranked b : decl_ranked b io_decl.
Proof. split; [intros a t []|split; intros; discriminate]. Qed.

(* ---------------------------------------------------------------- lazy creation *)
Lemma ext_LI mods mods1 tr stk : LI rank mods tr stk [] -> extends mods mods1 -> insts_ranked mods1 ->
  LI rank mods1 tr stk [].
Proof.
  intros [S F I R C] E IR. constructor; auto.
  - rewrite Forall_forall in *. intros fr X. destruct (F fr X) as [K [II [Sh [E1 [E2 FR]]]]].
    unfold frame_ok. rewrite (extends_key _ _ _ E K), (extends_isinit _ _ _ E K). repeat split; auto.
  - intros m N. rewrite (extends_flags _ _ E m). apply R. exact N.
  - intros b d Fb. discriminate.
Qed.

Lemma insts_set_assoc mods b d io : insts_ranked mods -> decl_ranked b d -> (forall n, io = Some n -> rank n < rank b) ->
  insts_ranked (set_assoc b (new_inst d io) mods).
Proof.
  intros IR D IO k K. unfold frame_ranked, ops_m. simpl. rewrite find_set_assoc. destruct (Nat.eqb k b) eqn:E.
  - apply Nat.eqb_eq in E. subst k. simpl. apply frame_ops_ranked; auto.
  - rewrite has_key_set_assoc_iff, E in K. simpl in K. apply (IR k K).
Qed.

Lemma iodict_add_module n i st : iodict (add_module n i st) = iodict st.
Proof. unfold add_module. destruct (d_export _); reflexivity. Qed.
Lemma stack_add_module n i st : stack (add_module n i st) = stack st.
Proof. unfold add_module. destruct (d_export _); reflexivity. Qed.

Lemma find_app {A} k : forall (l l' : list (nat * A)),
  find k (l ++ l') = match find k l with Some v => Some v | None => find k l' end.
Proof. induction l as [|[k0 v0] r IH]; intros l'; simpl; auto. destruct (Nat.eqb k k0); auto. Qed.

Lemma iod_ok_app iod u n : iod_ok iod -> 100 <= n -> iod_ok (iod ++ [(u, n)]).
Proof.
  intros IO L u0 n0 F. rewrite find_app in F. destruct (find u0 iod) eqn:E.
  - inversion F; subst. eapply IO; eauto.
  - simpl in F. destruct (Nat.eqb u0 u); [inversion F; subst; exact L|discriminate].
Qed.

Lemma create_side st b d : Side st -> insts_ranked (modules st) -> b < 100 -> small_decl d -> decl_ranked b d ->
  has_key b (modules st) = false ->
  Side (fst (create st b d)) /\ insts_ranked (modules (fst (create st b d))) /\
  extends (modules st) (modules (fst (create st b d))) /\
  (snd (create st b d) = IOk -> has_key b (modules (fst (create st b d))) = true).
Proof.
  intros [SM SA AR IO] IR L SD DR K. pose proof (create_spec st b d SM L SD K) as [SP [AV _]].
  assert (X : insts_ranked (modules (fst (create st b d))) /\ iod_ok (iodict (fst (create st b d)))).
  { unfold create. destruct (negb (creatable d)); simpl; [split; assumption|].
    pose proof DR as [D1 [D2 D3]].
    destruct (d_kind d) as [|[|u|m]|] eqn:DK; simpl; rewrite ?modules_add_module, ?iodict_add_module.
    - split; [apply insts_set_assoc; auto; intros n Q; discriminate|exact IO].
    - split; [apply insts_set_assoc; auto; intros n Q; discriminate|exact IO].
    - destruct (find u (iodict st)) as [n|] eqn:FU; simpl; rewrite ?modules_add_module, ?iodict_add_module; simpl;
        rewrite ?modules_add_module, ?iodict_add_module.
      + split; [|exact IO]. apply insts_set_assoc; auto.
        intros n0 Q. inversion Q; subst n0. apply (D3 u n eq_refl). eapply IO; eauto.
      + split.
        * apply insts_set_assoc; [apply insts_set_assoc; auto; [apply io_decl_ranked|intros n Q; discriminate]|exact DR|].
          intros n0 Q. inversion Q; subst n0. apply (D3 u _ eq_refl). unfold io_name. lia.
        * apply iod_ok_app; auto. unfold io_name. lia.
    - split; [apply insts_set_assoc; auto; intros n Q; inversion Q; subst; apply D2; reflexivity|exact IO].
    - split; [apply insts_set_assoc; auto; intros n Q; discriminate|exact IO]. }
  destruct X as [X1 X2].
  destruct (snd (create st b d)) eqn:R.
  - destruct SP as [E [KB [SM1 _]]]. split; [constructor; auto; rewrite AV; auto|]. split; [exact X1|]. split; auto.
  - destruct SP as [M _]. split; [constructor; auto; rewrite ?M, ?AV; auto|]. split; [exact X1|]. rewrite M.
    split; [apply extends_refl|discriminate].
  - destruct SP as [M _]. split; [constructor; auto; rewrite ?M, ?AV; auto|]. split; [exact X1|]. rewrite M.
    split; [apply extends_refl|discriminate].
Qed.

Lemma get_instance_side st b : Side st -> insts_ranked (modules st) ->
  Side (fst (get_instance st b)) /\ insts_ranked (modules (fst (get_instance st b))) /\
  extends (modules st) (modules (fst (get_instance st b))) /\
  (snd (get_instance st b) = IOk -> has_key b (modules (fst (get_instance st b))) = true).
Proof.
  intros SD IR. unfold get_instance. destruct (has_key b (modules st)) eqn:K; simpl.
  - split; [exact SD|split; [exact IR|split; [apply extends_refl|auto]]].
  - destruct (find b (avail st)) as [d|] eqn:F; simpl.
    + pose proof SD as [SM SA AR IO]. apply find_In in F. destruct (SA b d F) as [L SDD].
      apply create_side; auto.
    + split; [exact SD|split; [exact IR|split; [apply extends_refl|discriminate]]].
Qed.

Lemma LI_insts mods tr stk : LI rank mods tr stk [] -> insts_ranked mods.
Proof. intros [_ _ I _ _]. exact I. Qed.

(* ---------------------------------------------------------------- one step *)
Ltac fin L E1 E2 XI :=
  auto; try (right; exact L);
  try (rewrite ?ce_cons; simpl; rewrite E1, (late_exp_e _ L); reflexivity);
  try (rewrite ?ci_cons; simpl; rewrite E2, XI; reflexivity).

Lemma step_LI limit st : LI rank (modules st) (trace st) (stack st) [] -> Side st ->
  LI rank (modules (step limit st)) (trace (step limit st)) (stack (step limit st)) [].
Proof.
  intros H SD. unfold step. destruct (stack st) as [|fr rest] eqn:Hs; [rewrite Hs; exact H|].
  pose proof H as H0. destruct H0 as [S F I R C].
  inversion F as [|? ? [K [II [Sh [E1 [E2 FR]]]]] F']; subst.
  destruct (f_ops fr) as [|o ops] eqn:Ho.
  - simpl. apply pop_marked; auto. rewrite Ho. right; reflexivity.
  - assert (RAISE : late (f_ops fr) -> forall st', modules st' = modules st -> trace st' = trace st ->
              LI rank (modules (raise_top st' (f_mod fr) rest)) (trace (raise_top st' (f_mod fr) rest))
                 (stack (raise_top st' (f_mod fr) rest)) []).
    { intros L st' M T. unfold raise_top. simpl. rewrite M, T. apply pop_marked; auto. }
    unfold frame_ranked in FR. rewrite Ho in FR. inversion FR as [|? ? RO RT]; subst.
    destruct o.
    + destruct Sh as [[r [Hr Er]]|L]; [|destruct L as [L|L]; unfold evs_of in L; simpl in L; discriminate].
      inversion Hr; subst r. simpl.
      apply (continue_top rank (modules st) (modules st) (trace st) (EEarly (f_mod fr) :: trace st) fr rest); auto.
      * intros m Q. apply ce_other; auto.
      * right. left. exact Er.
      * rewrite ce_cons. simpl. rewrite Nat.eqb_refl, E1. simpl. symmetry. apply late_exp_e. left; exact Er.
      * rewrite ci_cons. simpl. rewrite E2. unfold exp_i. simpl. rewrite Er. reflexivity.
    + assert (Er : evs_of ops = []).
      { destruct Sh as [[r [Hr _]]|[L|L]]; [discriminate| |]; unfold evs_of in L; simpl in L; [inversion L; auto|discriminate]. }
      simpl.
      apply (continue_top rank (modules st) (modules st) (trace st) (EInit (f_mod fr) :: trace st) fr rest); auto.
      * intros m Q. apply ci_other; auto.
      * right. right. exact Er.
      * rewrite ce_cons. simpl. rewrite E1. simpl. symmetry. apply late_exp_e. right; exact Er.
      * rewrite ci_cons. simpl. rewrite Nat.eqb_refl, E2. unfold exp_i. simpl. rewrite Er. reflexivity.
    + (* OAccess: the target may be created on the way *)
      destruct (shape_tail (OAccess idx a) ops eq_refl Sh) as [L XI].
      assert (LT : late (f_ops fr)).
      { rewrite Ho. destruct Sh as [[r [Hr _]]|Q]; [discriminate|exact Q]. }
      assert (SEE : forall t ok, LI rank (modules st) (ESee (f_mod fr) idx t ok :: trace st)
                                    ({| f_mod := f_mod fr; f_ops := ops |} :: rest) []).
      { intros t ok. apply (continue_top rank (modules st) (modules st) (trace st) _ fr rest); fin L E1 E2 XI. }
      destruct (find idx (attached_of st (f_mod fr))); [apply SEE|].
      destruct (a_target a) as [b|] eqn:TA; [|apply SEE].
      pose proof (get_instance_side st b SD I) as [SD1 [IR1 [EX GK]]].
      pose proof (get_instance_trace st b) as GT. pose proof (get_instance_stack st b) as GS.
      destruct (get_instance st b) as [st1 r]; simpl in *.
      assert (H1 : LI rank (modules st1) (trace st) (fr :: rest) []) by (apply (ext_LI (modules st)); auto).
      clear H S F I R C K II F'. pose proof H1 as [S F I R C].
      inversion F as [|? ? [K [II _]] F']; subst.
      assert (RAISE1 : LI rank (modules (raise_top st1 (f_mod fr) rest)) (trace (raise_top st1 (f_mod fr) rest))
                          (stack (raise_top st1 (f_mod fr) rest)) []).
      { unfold raise_top. simpl. rewrite GT. apply pop_marked; auto. }
      destruct r; try exact RAISE1.
      specialize (GK eq_refl).
      assert (RB : rank b < rank (f_mod fr)) by (apply RO; exact TA).
      assert (ST2 : LI rank (modules st1) (trace st) ({| f_mod := f_mod fr; f_ops := ORet idx a b :: ops |} :: rest) []).
      { apply (continue_top rank (modules st1) (modules st1) (trace st) (trace st) fr rest); auto;
          try (right; unfold late, evs_of in *; simpl; exact L); try (rewrite E1; reflexivity);
          try (rewrite E2; unfold exp_i, evs_of; simpl; reflexivity); try (constructor; auto). }
      assert (EQ : isinit (set_stack st1 ({| f_mod := f_mod fr; f_ops := ORet idx a b :: ops |} :: rest)) b =
                   isinit_m (modules st1) b) by reflexivity.
      rewrite EQ.
      destruct (isinit_m (modules st1) b) eqn:IB.
      * simpl. rewrite GT. exact ST2.
      * destruct (Nat.leb _ _).
        -- unfold raise_top. simpl. rewrite GT. apply pop_marked; auto.
        -- rewrite push_ops. simpl. rewrite GT.
           destruct ST2 as [S2 F2 I2 R2 C2].
           assert (NB : ~ In b (map f_mod ({| f_mod := f_mod fr; f_ops := ORet idx a b :: ops |} :: rest))).
           { simpl. intros [X|X]; [rewrite X in RB; lia|]. inversion S as [|? ? _ FS]; subst. rewrite Forall_forall in FS.
             apply in_map_iff in X. destruct X as [g [G X]]. apply FS in X. unfold rank_lt in X. rewrite G in X. lia. }
           destruct (R2 b NB) as [RB0 _]. destruct (RB0 IB) as [CE CI].
           destruct (frame_ops_shape (decl_of st1 b) (io_of st1 b)) as [r0 [HR0 ER0]].
           assert (OPS : ops_m (modules st1) b = OEarlyEv :: r0).
           { unfold ops_m. unfold decl_of, io_of in HR0. destruct (find b (modules st1)); exact HR0. }
           constructor; auto.
           ++ constructor; auto. rewrite Forall_forall. intros g G. simpl in G. destruct G as [G|G].
              ** subst g. unfold rank_lt; simpl. exact RB.
              ** inversion S as [|? ? _ FS]; subst. rewrite Forall_forall in FS. apply FS in G.
                 unfold rank_lt in *. simpl. lia.
           ++ constructor; auto. unfold frame_ok; simpl. rewrite OPS.
              assert (IR : frame_ranked rank {| f_mod := b; f_ops := OEarlyEv :: r0 |}).
              { pose proof (I2 b GK) as IR. unfold frame_ranked in *. simpl in *. rewrite OPS in IR. exact IR. }
              repeat split; auto. left. exists r0; auto.
           ++ intros m Nm. apply R2. intros X. apply Nm. right. exact X.
    + destruct (shape_tail (ORet idx a b) ops eq_refl Sh) as [L XI].
      assert (LT : late (f_ops fr)).
      { rewrite Ho. destruct Sh as [[r [Hr _]]|Q]; [discriminate|exact Q]. }
      destruct (want_ok _ _); [|apply RAISE; auto; rewrite Ho; exact LT].
      simpl.
      apply (continue_top rank (modules st) _ (trace st) _ fr rest); fin L E1 E2 XI.
      intros m. apply keeps_same; intros i; simpl; auto.
    + apply RAISE; auto. rewrite Ho. destruct Sh as [[r [Hr _]]|Q]; [discriminate|exact Q].
    + destruct (shape_tail ORegister ops eq_refl Sh) as [L XI].
      unfold register. destruct (_ || _); simpl.
      * apply (continue_top rank (modules st) _ (trace st) _ fr rest); fin L E1 E2 XI.
        intros m. apply keeps_same; intros i; simpl; auto.
      * apply (continue_top rank (modules st) _ (trace st) _ fr rest); fin L E1 E2 XI.
Qed.

Lemma side_upd st st' : Side st -> avail st' = avail st -> iodict st' = iodict st ->
  (modules st' = modules st \/ exists k f, keeps f /\ modules st' = upd k f (modules st)) -> Side st'.
Proof.
  intros [SM SA AR IO] A D M. constructor; rewrite ?A, ?D; auto.
  destruct M as [M|[k [f [KF M]]]]; rewrite M; auto. apply small_m_upd; auto.
Qed.

Ltac side_same st := apply (side_upd st); [assumption|reflexivity|reflexivity|left; reflexivity].
Ltac side_mark st := apply (side_upd st); [assumption|reflexivity|reflexivity|
  right; eexists; eexists; split; [|reflexivity]; intros i; simpl; auto].

Lemma step_side limit st : Side st -> insts_ranked (modules st) -> Side (step limit st).
Proof.
  intros SD IR. unfold step. destruct (stack st) as [|fr rest]; [exact SD|].
  destruct (f_ops fr) as [|o ops]; [side_mark st|].
  destruct o.
  - side_same st.
  - side_same st.
  - destruct (find idx (attached_of st (f_mod fr))); [side_same st|].
    destruct (a_target a) as [b|]; [|side_same st].
    pose proof (get_instance_side st b SD IR) as [SD1 _].
    destruct (get_instance st b) as [st1 r]; simpl in *.
    destruct r; try (side_mark st1).
    destruct (isinit _ b); [side_same st1|]. destruct (Nat.leb _ _); [side_mark st1|side_same st1].
  - destruct (want_ok _ _); [side_mark st|side_mark st].
  - side_mark st.
  - unfold register. destruct (_ || _); [side_mark st|side_same st].
Qed.

Lemma step_ord limit st : LI rank (modules st) (trace st) (stack st) [] -> early_first (trace st) ->
  early_first (trace (step limit st)).
Proof.
  intros H O. unfold step. destruct (stack st) as [|fr rest] eqn:Hs; [exact O|].
  destruct H as [_ F _ _ _]. inversion F as [|? ? [_ [_ [Sh [E1 _]]]] _]; subst.
  destruct (f_ops fr) as [|o ops] eqn:Ho; [exact O|].
  assert (OTH : forall e, (forall m, e <> EInit m) -> early_first (e :: trace st)) by (intros; apply early_first_other; auto).
  destruct o; simpl.
  - apply OTH; intros; discriminate.
  - intros l1 m l2 E. destruct l1 as [|x l1]; simpl in E; inversion E; subst.
    + apply ce_In. rewrite E1. simpl. lia.
    + eapply O; eauto.
  - destruct (find idx (attached_of st (f_mod fr))); [apply OTH; intros; discriminate|].
    destruct (a_target a) as [b|]; [|apply OTH; intros; discriminate].
    pose proof (get_instance_trace st b) as GT. destruct (get_instance st b) as [st1 r]; simpl in *.
    destruct r; simpl; rewrite ?GT; auto.
    destruct (isinit _ b); simpl; rewrite ?GT; auto. destruct (Nat.leb _ _); simpl; rewrite ?GT; auto.
  - destruct (want_ok _ _); simpl; [apply OTH; intros; discriminate|exact O].
  - exact O.
  - unfold register. destruct (_ || _); exact O.
Qed.

Lemma step_RI limit st : RI st -> RI (step limit st).
Proof.
  intros [L SD O]. constructor.
  - apply step_LI; auto.
  - apply step_side; auto. eapply LI_insts; eauto.
  - apply step_ord; auto.
Qed.

Lemma RI_stuck st : RI st -> RI (set_stuck st).
Proof. intros [L [A B C D] O]. constructor; [exact L|constructor; assumption|exact O]. Qed.

Lemma run_gm_RI limit fuel : forall st, RI st -> RI (run_gm limit fuel st).
Proof.
  induction fuel; intros st H; simpl; destruct (stack st) eqn:Hs; auto using RI_stuck.
  apply IHfuel. apply step_RI. exact H.
Qed.

Lemma gm_top_RI limit fuel st b : RI st -> stack st = [] -> RI (gm_top limit fuel st b).
Proof.
  intros [L SD O] Hs. unfold gm_top.
  pose proof (get_instance_side st b SD (LI_insts _ _ _ L)) as [SD1 [IR1 [EX GK]]].
  pose proof (get_instance_trace st b) as GT. pose proof (get_instance_stack st b) as GS.
  destruct (get_instance st b) as [st1 r]; simpl in *.
  assert (L1 : LI rank (modules st1) (trace st1) (stack st1) []).
  { rewrite GT, GS. apply (ext_LI (modules st)); auto. }
  assert (H1 : RI st1) by (constructor; auto; rewrite GT; exact O).
  destruct r; auto. specialize (GK eq_refl).
  unfold isinit. fold (isinit_m (modules st1) b). destruct (isinit_m (modules st1) b) eqn:IB; auto.
  apply run_gm_RI. constructor; [|side_same st1|simpl; rewrite GT; exact O].
  rewrite push_ops. simpl. rewrite GS, Hs. rewrite GS, Hs in L1. pose proof L1 as [S F I R C].
  destruct (R b (fun x => x)) as [RB0 _]. destruct (RB0 IB) as [CE CI].
  destruct (frame_ops_shape (decl_of st1 b) (io_of st1 b)) as [r0 [HR0 ER0]].
  assert (OPS : ops_m (modules st1) b = OEarlyEv :: r0).
  { unfold ops_m. unfold decl_of, io_of in HR0. destruct (find b (modules st1)); exact HR0. }
  assert (FK : frame_ok rank (modules st1) (trace st1) {| f_mod := b; f_ops := ops_m (modules st1) b |}).
  { unfold frame_ok; simpl. rewrite OPS.
    assert (IRB : frame_ranked rank {| f_mod := b; f_ops := OEarlyEv :: r0 |}).
    { pose proof (I b GK) as IRB. unfold frame_ranked in *. simpl in *. rewrite OPS in IRB. exact IRB. }
    repeat split; auto. left. exists r0; auto. }
  constructor; auto; try (constructor; constructor); try (intros m Nm; apply R; intros []).
Qed.

Lemma get_instance_RI st b : RI st ->
  RI (fst (get_instance st b)) /\ stack (fst (get_instance st b)) = stack st /\
  (snd (get_instance st b) = IOk -> has_key b (modules (fst (get_instance st b))) = true).
Proof.
  intros [L SD O]. pose proof (get_instance_side st b SD (LI_insts _ _ _ L)) as [SD1 [IR1 [EX GK]]].
  pose proof (get_instance_trace st b) as GT. pose proof (get_instance_stack st b) as GS.
  destruct (get_instance st b) as [st1 r]; simpl in *. split; [|split; auto].
  constructor; auto; rewrite ?GT, ?GS; auto. apply (ext_LI (modules st)); auto.
Qed.

Lemma init_loop_RI limit fuel : forall n i st, RI st -> stack st = [] ->
  stuck (init_loop limit fuel n i st) = false ->
  RI (init_loop limit fuel n i st) /\ stack (init_loop limit fuel n i st) = [].
Proof.
  induction n; intros i st H Hs NS; simpl in *; auto.
  destruct (nth_error (export st) i) as [b|]; auto.
  assert (NS1 : stuck (gm_top limit fuel st b) = false).
  { destruct (stuck (gm_top limit fuel st b)) eqn:Q; auto.
    rewrite (init_loop_sticky limit fuel n (S i) _ Q) in NS. discriminate. }
  apply IHn; auto using gm_top_RI, gm_top_stack.
Qed.

Lemma fold_RI limit fuel : forall names st, RI st -> stack st = [] ->
  stuck (fold_left (fun acc b => gm_top limit fuel acc b) names st) = false ->
  RI (fold_left (fun acc b => gm_top limit fuel acc b) names st) /\
  stack (fold_left (fun acc b => gm_top limit fuel acc b) names st) = [].
Proof.
  induction names as [|b r IH]; intros st H Hs NS; simpl in *; auto.
  assert (NS1 : stuck (gm_top limit fuel st b) = false).
  { destruct (stuck (gm_top limit fuel st b)) eqn:Q; auto. rewrite (fold_sticky limit fuel r _ Q) in NS. discriminate. }
  apply IH; auto using gm_top_RI, gm_top_stack.
Qed.

Lemma create_loop_RI limit fuel dyn : small_av dyn -> av_ranked dyn -> forall n todos st,
  small_av todos -> av_ranked todos -> RI st -> stack st = [] ->
  stuck (create_loop limit fuel n dyn todos st) = false ->
  RI (create_loop limit fuel n dyn todos st) /\ stack (create_loop limit fuel n dyn todos st) = [].
Proof.
  intros SD AD. induction n as [|n IH]; intros todos st ST AT H Hs NS; simpl in *; auto.
  destruct todos as [|[b d] rest]; auto.
  assert (SR : small_av rest) by (intros x y X; apply ST; right; exact X).
  assert (AR : av_ranked rest) by (intros x y X; apply AT; right; exact X).
  destruct (has_key b (modules st)); [apply IH; auto|].
  set (st0 := set_avail st (set_assoc b d (avail st))) in *.
  assert (H0 : RI st0).
  { destruct H as [L [SM SA AV IO] O]. constructor; [exact L| |exact O]. constructor; auto.
    - intros x y X. simpl in X. apply In_set_assoc in X. destruct X as [E|X]; [inversion E; subst; apply ST; left; reflexivity|auto].
    - intros x y X. simpl in X. apply In_set_assoc in X. destruct X as [E|X]; [inversion E; subst; apply AT; left; reflexivity|auto]. }
  pose proof (get_instance_RI st0 b H0) as [H1 [GS _]]. pose proof (get_instance_stuck st0 b) as STK.
  destruct (get_instance st0 b) as [st1 r]; simpl in *.
  assert (Hs1 : stack st1 = []) by (rewrite GS; exact Hs).
  destruct r; try (apply IH; auto; fail).
  destruct (d_kind d) eqn:DK; try (apply IH; auto; fail).
  assert (NS1 : stuck (gm_top limit fuel st1 b) = false).
  { destruct (stuck (gm_top limit fuel st1 b)) eqn:Q; auto.
    rewrite (create_loop_sticky limit fuel dyn n _ _ Q) in NS. discriminate. }
  assert (S2 : small_av (rest ++ lookup_all scan dyn)).
  { intros x y X. apply in_app_or in X. destruct X as [X|X]; [auto|]. apply SD. eapply lookup_all_In; eauto. }
  assert (A2 : av_ranked (rest ++ lookup_all scan dyn)).
  { intros x y X. apply in_app_or in X. destruct X as [X|X]; [auto|]. apply AD. eapply lookup_all_In; eauto. }
  apply IH; auto using gm_top_RI, gm_top_stack.
Qed.

Lemma node0_RI av : small_av av -> av_ranked av -> RI (node0 av).
Proof.
  intros SA AR. constructor; simpl.
  - apply Build_LI.
    + apply SSorted_nil.
    + apply Forall_nil.
    + intros x K. discriminate K.
    + intros m _. split; [intros _; auto|intros Q; discriminate Q].
    + intros x d F. discriminate F.
  - apply Build_Side; simpl; auto.
    + split; [intros k H; discriminate H|intros k i H; discriminate H].
    + intros u n F. discriminate F.
  - intros l1 m l2 E. destruct l1; discriminate E.
Qed.

Definition cfg_ranked (c : cfg) : Prop := av_ranked (c_static c) /\ av_ranked (c_dyn c).

Theorem initialised_RI limit fuel c : cfg_small c -> cfg_ranked c -> stuck (initialised limit fuel c) = false ->
  RI (initialised limit fuel c) /\ stack (initialised limit fuel c) = [].
Proof.
  intros [S1 S2] [A1 A2] NS. unfold initialised, init_phase, init_rest, init_all, create_all in *.
  set (st0 := create_loop _ _ _ _ _ _) in *.
  set (st1 := init_loop _ _ _ _ st0) in *.
  assert (NS1 : stuck st1 = false) by (eapply fold_stuck_back; eauto).
  assert (NS0 : stuck st0 = false) by (eapply init_loop_stuck_back; eauto).
  destruct (create_loop_RI limit fuel (c_dyn c) S2 A2 _ (c_static c) (node0 (c_static c)) S1 A1
              (node0_RI _ S1 A1) eq_refl NS0) as [H0 Hs0].
  fold st0 in H0, Hs0.
  destruct (init_loop_RI limit fuel _ 0 st0 H0 Hs0 NS1) as [H1 Hs1]. fold st1 in H1, Hs1.
  apply fold_RI; auto.
Qed.

(* at most once, in order, nothing for what is not marked - with or without recorded errors *)
Theorem initialised_at_most_once limit fuel c : cfg_small c -> cfg_ranked c -> stuck (initialised limit fuel c) = false ->
  let st := initialised limit fuel c in
  (forall m, (isinit st m = false -> ce m (trace st) = 0 /\ ci m (trace st) = 0) /\
             (isinit st m = true -> ce m (trace st) = 1 /\ ci m (trace st) <= 1)) /\
  early_first (trace st).
Proof.
  intros CS CR NS st. destruct (initialised_RI limit fuel c CS CR NS) as [[L _ O] Hs]. fold st in L, O, Hs.
  split; [|exact O]. intros m. destruct L as [_ _ _ R _]. rewrite Hs in R. apply R. intros [].
Qed.

End RankedErr.

(* the start phase adds no initialisation events; startModule is called for a prefix of the modules, in order *)
Lemma started_start_inv limit fuel c sched :
  start_inv (map fst (modules (initialised limit fuel c))) (started limit fuel c sched).
Proof.
  set (st := initialised limit fuel c). set (names := map fst (modules st)).
  assert (H0 : start_inv names (sys0 st)).
  { unfold sys0. pose proof (pc_after_start_inv names st [] names eq_refl) as Q.
    assert (S0 : starts (trace st) = rev (map EStart [])) by (apply starts_init_ev; apply initialised_trace).
    specialize (Q S0).
    unfold start_inv in *. simpl in *. fold names. destruct (pc_after st names); simpl in *. exact Q. }
  exact (run_sched_start_inv names sched _ H0).
Qed.

Theorem lifecycle_at_most_once (rank : name -> nat) limit fuel c sched :
  cfg_small c -> cfg_ranked rank c -> stuck (initialised limit fuel c) = false ->
  let st := s_node (started limit fuel c sched) in
  (forall m, ce m (trace st) <= 1 /\ ci m (trace st) <= ce m (trace st)) /\
  (forall m, isinit st m = false -> ce m (trace st) = 0 /\ ci m (trace st) = 0) /\
  early_first (trace st) /\
  (exists done rest, map fst (modules st) = done ++ rest /\ starts (trace st) = rev (map EStart done)) /\
  (exists evs, trace st = evs ++ trace (initialised limit fuel c) /\ starts (trace (initialised limit fuel c)) = []).
Proof.
  intros CS CR NS st. destruct (initialised_at_most_once rank limit fuel c CS CR NS) as [R O].
  destruct (started_later limit fuel c sched) as [evs [E F]].
  assert (M : modules st = modules (initialised limit fuel c)) by (apply started_modules).
  assert (CNT : forall m, ce m (trace st) = ce m (trace (initialised limit fuel c)) /\
                          ci m (trace st) = ci m (trace (initialised limit fuel c))).
  { intros m. unfold st. rewrite E. apply later_counts; exact F. }
  split; [|split; [|split; [|split]]].
  - intros m. destruct (CNT m) as [X Y]. rewrite X, Y. destruct (R m) as [R0 R1].
    destruct (isinit (initialised limit fuel c) m); [destruct (R1 eq_refl); lia|destruct (R0 eq_refl); lia].
  - intros m I. destruct (CNT m) as [X Y]. rewrite X, Y. apply R. unfold isinit in *. rewrite <- M. exact I.
  - unfold st. rewrite E. apply later_early_first; auto.
  - pose proof (started_start_inv limit fuel c sched) as SI. unfold start_inv in SI. fold st in SI. rewrite M.
    destruct (s_pc (started limit fuel c sched)) as [rest| | |].
    + destruct SI as [done [EQ [_ S]]]. exists done, rest. auto.
    + exists (map fst (modules (initialised limit fuel c))), []. rewrite app_nil_r. auto.
    + exists (map fst (modules (initialised limit fuel c))), []. rewrite app_nil_r. auto.
    + exists (map fst (modules (initialised limit fuel c))), []. rewrite app_nil_r. auto.
  - exists evs. split; [exact E|]. apply starts_init_ev. apply initialised_trace.
Qed.
