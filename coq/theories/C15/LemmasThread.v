(* C15 — lemmas, part 10: a poll thread emits its program in order.  For every configuration and EVERY schedule, at
   every point of the start phase: what a poll thread has emitted so far is a prefix of its program (thread_prog), and
   these events stand in the trace of the node in program order (as a subsequence: events of the main thread and of
   other poll threads lie in between).  So when the started callback of a thread is in the trace, its whole first
   round - the executed part of the start-up sequence, all of it when no communication failure occurred - stands
   before it; with ready_after_first_round: before the node reports ready. *)
From Coq Require Import List Arith Bool Lia.
Import ListNotations.
Require Import FV.C15.Model FV.C15.Lemmas FV.C15.LemmasInit FV.C15.LemmasWf.

Inductive Sub {A : Type} : list A -> list A -> Prop :=
| sub_nil l : Sub [] l
| sub_cons x l1 l2 : Sub l1 l2 -> Sub (x :: l1) (x :: l2)
| sub_skip x l1 l2 : Sub l1 l2 -> Sub l1 (x :: l2).

Lemma Sub_app_l {A} (evs : list A) : forall l tr, Sub l tr -> Sub l (evs ++ tr).
Proof. induction evs; intros l tr H; simpl; auto. apply sub_skip. auto. Qed.

Lemma Sub_In {A} (l tr : list A) : Sub l tr -> forall x, In x l -> In x tr.
Proof.
  induction 1; intros y I; simpl in *; [contradiction| |right; auto].
  destruct I as [I|I]; [left; exact I|right; auto].
Qed.

(* l1 ++ x :: l2 as a subsequence: x is found, what stood before x in the list stands after... (lists are newest first) *)
Lemma Sub_split {A} (x : A) : forall l1 l2 tr, Sub (l1 ++ x :: l2) tr ->
  exists t1 t2, tr = t1 ++ x :: t2 /\ Sub l2 t2.
Proof.
  intros l1 l2 tr H. remember (l1 ++ x :: l2) as l eqn:E. revert l1 E.
  induction H as [tr|y a b H IH|y a b H IH]; intros l1 E.
  - destruct l1; discriminate.
  - destruct l1 as [|z l1]; simpl in E; inversion E; subst.
    + exists [], b. split; [reflexivity|exact H].
    + destruct (IH l1 eq_refl) as [t1 [t2 [E1 S]]]. exists (z :: t1), t2. split; [rewrite E1; reflexivity|exact S].
  - destruct (IH l1 E) as [t1 [t2 [E1 S]]]. exists (y :: t1), t2. split; [rewrite E1; reflexivity|exact S].
Qed.

Definition poll_ev (e : event) : Prop :=
  match e with EWrite _ _ | EIReads _ | ERead _ _ | EStarted _ | ECWait _ | EDoPoll _ => True | _ => False end.

Lemma cut_at_sub f : forall l e, In e (fst (cut_at f l)) -> In e l.
Proof.
  induction l as [|a r IH]; simpl; intros e I; [contradiction|].
  destruct (f a); simpl in I.
  - destruct I as [I|[]]. left; exact I.
  - destruct (cut_at f r) as [p b]; simpl in *. destruct I as [I|I]; [left; exact I|right; apply IH; exact I].
Qed.

Lemma startup_prog_events st t e : In e (startup_prog st t) ->
  (exists m k, e = EWrite m k) \/ (exists m, e = EIReads m) \/ (exists m k, e = ERead m k).
Proof.
  intros I. destruct (startup_prog_shape st t) as [A [B [E [HA [HB _]]]]]. rewrite E in I.
  apply in_app_or in I. destruct I as [I|I].
  - destruct (HA _ I) as [m [k [Q|Q]]]; [left; eauto|right; left; eauto].
  - destruct (HB _ I) as [m [k Q]]. right; right; eauto.
Qed.

(* the program of thread t: only poll thread events, and its only started callback is the one of t *)
Lemma thread_prog_events st t e : In e (thread_prog st t) -> poll_ev e /\ (forall x, e = EStarted x -> x = t).
Proof.
  unfold thread_prog. intros I.
  assert (P : forall x, In x (fst (cut_at (fails_at st) (startup_prog st t))) -> poll_ev x /\ forall y, x <> EStarted y).
  { intros x X. apply cut_at_sub in X. destruct (startup_prog_events st t x X) as [[m [k Q]]|[[m Q]|[m [k Q]]]]; subst x;
      (split; [exact I0|intros; discriminate]) || (split; [simpl; auto|intros; discriminate]). }
  destruct (cut_at (fails_at st) (startup_prog st t)) as [pre ab]; simpl in *.
  apply in_app_or in I. destruct I as [I|I].
  - destruct (P e I) as [Q N]. split; [exact Q|]. intros x E. exfalso. eapply N; eauto.
  - unfold after_startup in I. simpl in I. destruct I as [I|I].
    + subst e. split; [exact Logic.I|]. intros x E. inversion E; reflexivity.
    + apply in_app_or in I. destruct I as [I|I].
      * destruct ab; simpl in I; [destruct I as [I|[]]; subst e; split; [exact Logic.I|intros; discriminate]|contradiction].
      * apply in_map_iff in I. destruct I as [m [E _]]. subst e. split; [exact Logic.I|intros; discriminate].
Qed.

Lemma thread_prog_modules st st' t : modules st' = modules st -> thread_prog st' t = thread_prog st t.
Proof.
  intros M. unfold thread_prog, startup_prog, after_startup, fails_at, polled_of, decl_of. rewrite M. reflexivity.
Qed.

(* ---------------------------------------------------------------- the invariant of one thread *)
Definition th_ok (st : node) (th : thread) : Prop :=
  exists emitted, thread_prog st (t_id th) = emitted ++ t_prog th /\ Sub (rev emitted) (trace st) /\
                  (t_done th = true -> In (EStarted (t_id th)) emitted).

Lemma th_ok_mono st st' th : modules st' = modules st -> (exists evs, trace st' = evs ++ trace st) ->
  th_ok st th -> th_ok st' th.
Proof.
  intros M [evs T] [em [E [S D]]]. exists em. rewrite (thread_prog_modules st st' _ M), T.
  split; [exact E|split; [apply Sub_app_l; exact S|exact D]].
Qed.

Lemma thread_step_ok st th : th_ok st th ->
  th_ok (fst (thread_step st th)) (snd (thread_step st th)).
Proof.
  intros [em [E [S D]]]. unfold thread_step. destruct (t_hung th); simpl; [exists em; auto|].
  destruct (t_prog th) as [|e rest] eqn:P; simpl; [exists em; rewrite P; auto|].
  assert (IE : In e (thread_prog st (t_id th))) by (rewrite E; apply in_or_app; right; left; reflexivity).
  destruct (thread_prog_events st (t_id th) e IE) as [PE ST].
  assert (EMIT : forall d, (d = true -> e = EStarted (t_id th) \/ t_done th = true) ->
            th_ok (emit e st) {| t_id := t_id th; t_prog := rest; t_hung := false; t_done := d |}).
  { intros d HD. exists (em ++ [e]). simpl.
    rewrite (thread_prog_modules st (emit e st) _ eq_refl). rewrite E, <- app_assoc. simpl.
    split; [reflexivity|]. split; [rewrite rev_app_distr; simpl; apply sub_cons; exact S|].
    intros Q. apply in_or_app. destruct (HD Q) as [X|X]; [right; left; exact X|left; auto]. }
  destruct e; simpl in PE; try contradiction.
  - apply EMIT. intros Q. right; exact Q.
  - destruct (d_hang _); simpl; [exists em; simpl; auto|]. apply EMIT. intros Q. right; exact Q.
  - apply EMIT. intros Q. right; exact Q.
  - pose proof (ST t eq_refl) as Q. subst t. apply EMIT. intros _. left. reflexivity.
  - apply EMIT. intros Q. right; exact Q.
  - apply EMIT. intros Q. right; exact Q.
Qed.

Lemma threads_step_ok t : forall ths st, Forall (th_ok st) ths ->
  Forall (th_ok (fst (threads_step st t ths))) (snd (threads_step st t ths)).
Proof.
  induction ths as [|th r IH]; intros st F; simpl; [constructor|].
  inversion F as [|? ? H F']; subst.
  destruct (Nat.eqb (t_id th) t).
  - pose proof (thread_step_ok st th H) as H1. pose proof (thread_step_frame st th) as [_ [M TR]].
    destruct (thread_step st th) as [st1 th1]; simpl in *. constructor; [exact H1|].
    rewrite Forall_forall in *. intros x X. apply (th_ok_mono st); auto.
    destruct TR as [TR|[e [TR _]]]; [exists []|exists [e]]; rewrite TR; reflexivity.
  - pose proof (IH st F') as H1. pose proof (threads_step_frame t r st) as [_ [M TR]].
    destruct (threads_step st t r) as [st1 r1]; simpl in *. constructor; [|exact H1].
    apply (th_ok_mono st); auto.
    destruct TR as [TR|[e [TR _]]]; [exists []|exists [e]]; rewrite TR; reflexivity.
Qed.

Definition threads_ok (s : sys) : Prop := Forall (th_ok (s_node s)) (s_threads s).

Lemma all_mono st st' ths : modules st' = modules st -> (exists evs, trace st' = evs ++ trace st) ->
  Forall (th_ok st) ths -> Forall (th_ok st') ths.
Proof. intros M T F. rewrite Forall_forall in *. intros x X. apply (th_ok_mono st); auto. Qed.

Lemma cstep_threads_ok s it : threads_ok s -> threads_ok (cstep s it).
Proof.
  unfold threads_ok. destruct s as [st ths pc]. simpl. intros F. destruct it; simpl.
  - destruct pc as [[|m rest]| | |]; simpl; auto.
    + set (st1 := emit (EStart m) st).
      assert (F1 : Forall (th_ok st1) (match polled_of st1 m with
                     | [] => ths
                     | _ :: _ => ths ++ [{| t_id := m; t_prog := thread_prog st1 m; t_hung := false; t_done := false |}]
                     end)).
      { assert (F0 : Forall (th_ok st1) ths) by (apply (all_mono st); auto; exists [EStart m]; reflexivity).
        destruct (polled_of st1 m); [exact F0|]. apply Forall_app. split; [exact F0|]. constructor; [|constructor].
        exists []. simpl. split; [reflexivity|split; [constructor|discriminate]]. }
      unfold pc_after, finish_start. destruct rest; simpl; [|exact F1].
      destruct (errors st); simpl; [exact F1|].
      apply (all_mono st1); auto. exists [EExit]. reflexivity.
    + destruct (all_done ths); simpl; [|exact F]. apply (all_mono st); auto. exists [EReady true]. reflexivity.
  - destruct pc; simpl; auto;
      (pose proof (threads_step_ok t ths st F) as Q; destruct (threads_step st t ths); simpl in *; exact Q).
  - destruct pc; simpl; auto. destruct (all_done ths); simpl; [exact F|].
    apply (all_mono st); auto. exists [EReady false]. reflexivity.
Qed.

Lemma run_sched_threads_ok sched : forall s, threads_ok s -> threads_ok (run_sched s sched).
Proof. unfold run_sched. induction sched as [|it r IH]; intros s H; simpl; auto. apply IH. apply cstep_threads_ok. exact H. Qed.

Lemma sys0_threads_ok st : threads_ok (sys0 st).
Proof. unfold threads_ok, sys0. destruct (pc_after st (map fst (modules st))); simpl. constructor. Qed.

(* a prefix X of P = pre ++ e :: post that contains e, where e is not in pre, contains pre ++ [e] *)
Lemma prefix_with {A} (e : A) : forall pre X Y post, X ++ Y = pre ++ e :: post -> In e X -> ~ In e pre ->
  exists X', X = pre ++ e :: X'.
Proof.
  induction pre as [|p pre IH]; intros X Y post E I N; simpl in *.
  - destruct X as [|x X]; [contradiction|]. simpl in E. inversion E; subst. exists X. reflexivity.
  - destruct X as [|x X]; [contradiction|]. simpl in E. inversion E; subst.
    destruct I as [I|I]; [exfalso; apply N; left; exact I|].
    destruct (IH X Y post H1 I) as [X' Q]; [intros Q; apply N; right; exact Q|]. exists X'. rewrite Q. reflexivity.
Qed.

(* every schedule, every point of the start phase, every poll thread whose started callback was called: the trace is
   l1 ++ EStarted t :: l2 (newest first) and the whole executed part [pre] of the start-up sequence of the thread stands
   in l2, in program order.  [pre] is the prefix of startup_prog described by thread_prog_general: all of it unless its
   last event raised CommunicationFailedError. *)
Theorem started_means_round_done limit fuel c sched :
  let s := started limit fuel c sched in
  forall th, In th (s_threads s) -> t_done th = true ->
  exists pre suf aborted l1 l2,
    startup_prog (s_node s) (t_id th) = pre ++ suf /\ (aborted = false -> suf = []) /\
    (aborted = true -> exists p e, pre = p ++ [e] /\ fails_at (s_node s) e = true) /\
    trace (s_node s) = l1 ++ EStarted (t_id th) :: l2 /\ Sub (rev pre) l2 /\ (forall e, In e pre -> In e l2) /\
    (exists post, thread_prog (s_node s) (t_id th) = pre ++ EStarted (t_id th) :: post) /\
    ~ In (EStarted (t_id th)) pre.
Proof.
  intros s th I D.
  assert (TK : threads_ok s) by (apply run_sched_threads_ok; apply sys0_threads_ok).
  unfold threads_ok in TK. rewrite Forall_forall in TK. destruct (TK th I) as [em [E [S DD]]].
  specialize (DD D).
  destruct (thread_prog_general (s_node s) (t_id th)) as [pre [suf [ab [E1 [E2 [A1 [A2 _]]]]]]].
  assert (NP : ~ In (EStarted (t_id th)) pre).
  { intros Q. assert (Q1 : In (EStarted (t_id th)) (startup_prog (s_node s) (t_id th))) by (rewrite E1; apply in_or_app; left; exact Q).
    destruct (startup_prog_events _ _ _ Q1) as [[m [k X]]|[[m X]|[m [k X]]]]; discriminate. }
  rewrite E2 in E. simpl in E.
  destruct (prefix_with (EStarted (t_id th)) pre em (t_prog th) _ (eq_sym E) DD NP) as [X' EX].
  rewrite EX in S. rewrite rev_app_distr in S. simpl in S. rewrite <- app_assoc in S. simpl in S.
  destruct (Sub_split (EStarted (t_id th)) (rev X') (rev pre) _ S) as [l1 [l2 [T S2]]].
  exists pre, suf, ab, l1, l2. split; [exact E1|]. split; [exact A1|]. split; [exact A2|]. split; [exact T|].
  split; [exact S2|]. split; [|split; [|exact NP]].
  - intros e Q. apply (Sub_In _ _ S2). apply in_rev in Q. exact Q.
  - rewrite E2. simpl. eexists. reflexivity.
Qed.

(* the first occurrence of e splits a list in one way only *)
Lemma split_unique {A} (e : A) : forall l1 l2 r1 r2, l1 ++ e :: r1 = l2 ++ e :: r2 -> ~ In e l1 -> ~ In e l2 -> l1 = l2.
Proof.
  induction l1 as [|a l1 IH]; intros l2 r1 r2 E N1 N2; destruct l2 as [|b l2]; simpl in *; auto.
  - inversion E; subst. exfalso. apply N2. left; reflexivity.
  - inversion E; subst. exfalso. apply N1. left; reflexivity.
  - inversion E; subst. f_equal. eapply IH; eauto.
Qed.

(* once the node has reported ready without time-out, every poll thread is done *)
Definition ready_done (s : sys) : Prop :=
  match s_pc s with
  | MRun => forall pre, trace (s_node s) = EReady true :: pre -> all_done (s_threads s) = true
  | _ => True
  end.

Lemma cstep_ready_done s it : ready_done s -> ready_done (cstep s it).
Proof.
  unfold ready_done. destruct s as [st ths pc]. simpl. intros H. destruct it; simpl.
  - destruct pc as [[|m rest]| | |]; simpl; auto.
    + unfold pc_after, finish_start. destruct rest; simpl; auto. destruct (errors st); simpl; auto.
    + destruct (all_done ths) eqn:AD; simpl; auto.
  - destruct pc; simpl; auto; destruct (threads_step st t ths); simpl; auto.
  - destruct pc; simpl; auto. destruct (all_done ths); simpl; auto. intros pre E. discriminate.
Qed.

Lemma started_ready_done limit fuel c sched : ready_done (started limit fuel c sched).
Proof.
  unfold started, run_sched.
  assert (H : forall sched s, ready_done s -> ready_done (fold_left cstep sched s)).
  { induction sched0 as [|it r IH]; intros s Q; simpl; auto. apply IH. apply cstep_ready_done. exact Q. }
  apply H. unfold ready_done, sys0, pc_after, finish_start.
  destruct (map fst (modules (initialised limit fuel c))); simpl; auto. destruct (errors _); simpl; auto.
Qed.

Lemma no_fault_fails st t : (forall m, In m (polled_of st t) -> d_cfail (decl_of st m) = CFNone) ->
  forall e, In e (startup_prog st t) -> fails_at st e = false.
Proof.
  intros NF e I. rewrite startup_prog_eq in I. apply in_app_or in I. destruct I as [I|I].
  - apply in_flat_map in I. destruct I as [x [X I]]. apply in_app_or in I. destruct I as [I|[I|[]]].
    + apply in_map_iff in I. destruct I as [y [I _]]. subst e. reflexivity.
    + subst e. simpl. rewrite (NF x X). reflexivity.
  - apply in_flat_map in I. destruct I as [x [X I]]. unfold polled_on in X. apply filter_In in X. destruct X as [X _].
    simpl in I. destruct I as [I|[I|[]]]; subst e; simpl; rewrite (NF x X); reflexivity.
Qed.

Lemma no_fault_prog st t : (forall m, In m (polled_of st t) -> d_cfail (decl_of st m) = CFNone) ->
  thread_prog st t = startup_prog st t ++ EStarted t :: map EDoPoll (polled_on st t).
Proof. intros NF. unfold thread_prog. rewrite cut_at_none; [reflexivity|apply no_fault_fails; exact NF]. Qed.

(* the clause "configured start values are written before the first poll and the node reports ready only after every poll
   thread finished its first round" on the TRACE of the node, every configuration, every schedule: when the node
   reports ready (no time-out), for every poll thread without scripted communication failure the trace reads
   (newest first) EReady true :: l1 ++ EStarted t :: l2 where l2 contains the write of every configured value of every
   module the thread serves - and nothing that the thread emitted before its started callback is missing: its whole
   start-up sequence is a subsequence of l2 in program order *)
Theorem ready_values_written limit fuel c sched :
  let s := started limit fuel c sched in
  forall pre0, s_pc s = MRun -> trace (s_node s) = EReady true :: pre0 ->
  forall th, In th (s_threads s) ->
    (forall m, In m (polled_of (s_node s) (t_id th)) -> d_cfail (decl_of (s_node s) m) = CFNone) ->
    exists l1 l2, pre0 = l1 ++ EStarted (t_id th) :: l2 /\ Sub (rev (startup_prog (s_node s) (t_id th))) l2 /\
      (forall m k, In m (polled_of (s_node s) (t_id th)) -> In k (d_writes (decl_of (s_node s) m)) -> In (EWrite m k) l2).
Proof.
  intros s pre0 PC T th I NF.
  pose proof (started_ready_done limit fuel c sched) as RD. unfold ready_done in RD. fold s in RD. rewrite PC in RD.
  pose proof (all_done_spec _ (RD pre0 T) th I) as D.
  destruct (started_means_round_done limit fuel c sched th I D)
    as [pre [suf [ab [l1 [l2 [E1 [A1 [A2 [TR [S2 [IN [[post TP] NP]]]]]]]]]]]].
  fold s in E1, A2, TR, TP.
  assert (NS : ~ In (EStarted (t_id th)) (startup_prog (s_node s) (t_id th))).
  { intros Q. destruct (startup_prog_events _ _ _ Q) as [[m [k X]]|[[m X]|[m [k X]]]]; discriminate. }
  assert (EQ : pre = startup_prog (s_node s) (t_id th)).
  { apply (split_unique (EStarted (t_id th)) _ _ post (map EDoPoll (polled_on (s_node s) (t_id th)))); auto.
    rewrite <- TP. apply no_fault_prog. exact NF. }
  subst pre.
  destruct l1 as [|x l1]; simpl in TR; rewrite T in TR; inversion TR; subst.
  exists l1, l2. split; [reflexivity|]. split; [exact S2|].
  intros m k M K. apply IN. destruct (startup_prog_shape (s_node s) (t_id th)) as [A [B [E [_ [_ [_ W2]]]]]].
  rewrite E. apply in_or_app. left. apply W2; auto.
Qed.
