(* C15 — property theorems (stub while the correspondence is being established) *)
From Coq Require Import List Arith Bool.
Import ListNotations.
Require Import FV.Gen.C15 FV.C15.Model.

Theorem C15_source_facts :
  get_module_early_then_init_then_flag = true /\ processcfg_order = true /\
  descriptive_data_initialises_exported = true /\ shutdown_stops_pollers_first = true /\
  sorted_modules_reversed_postorder = true /\ pollthread_writes_then_reads_then_started = true /\
  startmodule_starts_thread_iff_polled = true /\ initmodule_registers_at_io = true /\
  attached_get_checks = true /\ hasio_creates_io_once_per_uri = true /\
  multievent_set_only_when_all_triggered = true /\ 0 < start_timeout.
Proof. repeat split; try reflexivity; apply Nat.ltb_lt; reflexivity. Qed.
Print Assumptions C15_source_facts.
