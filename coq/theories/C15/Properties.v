(* C15 — property theorems only; each is closed by a lemma of Lemmas.v / LemmasInit.v / Refuted.v.
   c ranges over every configuration (declared and dynamically scanned modules, kinds, attachments, flags) in every
   declaration order, sched over every interleaving of startModule calls, poll thread steps and the time-out,
   limit over every depth bound of the interpreter, fuel over every step budget of the model. *)
From Coq Require Import List Arith Bool Lia.
Import ListNotations.
Require Import FV.Gen.C15 FV.C15.Model FV.C15.Lemmas FV.C15.LemmasInit FV.C15.Refuted.

(* obligations on the facts regenerated from /repo (Gen/C15.v) *)
Theorem C15_source_facts :
  get_module_early_then_init_then_flag = true /\ processcfg_order = true /\
  processcfg_initialises_every_module = true /\
  descriptive_data_initialises_exported = true /\ shutdown_stops_pollers_first = true /\
  sorted_modules_reversed_postorder = true /\ pollthread_writes_then_reads_then_started = true /\
  writeinitparams_absorbs_write_errors = true /\
  startmodule_starts_thread_iff_polled = true /\ initmodule_registers_at_io = true /\
  attached_get_checks = true /\ hasio_creates_io_once_per_uri = true /\
  multievent_set_only_when_all_triggered = true /\ 0 < start_timeout.
Proof. repeat split; try reflexivity; apply Nat.ltb_lt; reflexivity. Qed.

(* every module of the node is early-initialised exactly once and initialised at most once (exactly once unless
   its earlyInit raised), and is marked as initialised: for every acyclic attachment graph (rank decreases along
   every attachment and io reference) on a node whose creatable modules have all been created and nothing is
   initialised yet (fresh: the state after create_modules without Pinata), every depth limit, every step budget.
   Whatever is not a module of the node gets nothing.  (Since fix 68acea7 this holds without the former exception
   for modules that are neither exported nor attached.) *)
Theorem C15_init_once_acyclic :
  forall (rank : name -> nat) limit fuel st,
    fresh rank st -> stuck (init_phase limit fuel st) = false ->
    forall m, let st' := init_phase limit fuel st in
      (has_key m (modules st) = true ->
         isinit st' m = true /\ ce m (trace st') = 1 /\ ci m (trace st') <= 1) /\
      (isinit st' m = false -> ce m (trace st') = 0 /\ ci m (trace st') = 0).
Proof. intros rank limit fuel st F NS m. exact (init_phase_every_module rank limit fuel st F NS m). Qed.

(* the same as an invariant of every single step of the get_module / Attached.__get__ machine: no module is
   re-entered (the stack of active initialisations is strictly ordered by rank), counts as above *)
Theorem C15_no_reentry_acyclic :
  forall (rank : name -> nat) limit st, LInv rank st -> LInv rank (step limit st).
Proof. intros; apply step_LInv; assumption. Qed.

(* a missing attached module, a wrongly typed one and an attachment chain deeper than the interpreter allows
   (what a cyclic attachment runs into) are each recorded as an error of the module being initialised, which is
   then left; errors are never removed by a later step *)
Theorem C15_bad_attachment_recorded :
  (forall limit st fr rest idx a ops b,
     stack st = fr :: rest -> f_ops fr = OAccess idx a :: ops ->
     find idx (attached_of st (f_mod fr)) = None -> a_target a = Some b ->
     has_key b (modules st) = false -> find b (avail st) = None ->
     errors (step limit st) = ErrInit (f_mod fr) :: errors st /\ stack (step limit st) = rest) /\
  (forall limit st fr rest idx a ops b,
     stack st = fr :: rest -> f_ops fr = ORet idx a b :: ops ->
     want_ok (a_want a) (d_tag (decl_of st b)) = false ->
     errors (step limit st) = ErrInit (f_mod fr) :: errors st /\ stack (step limit st) = rest) /\
  (forall limit st fr rest idx a ops b,
     stack st = fr :: rest -> f_ops fr = OAccess idx a :: ops ->
     find idx (attached_of st (f_mod fr)) = None -> a_target a = Some b ->
     has_key b (modules st) = true -> isinit st b = false -> limit <= length (stack st) ->
     errors (step limit st) = ErrInit (f_mod fr) :: errors st /\ overflow (step limit st) = true) /\
  (forall limit st, exists errs, errors (step limit st) = errs ++ errors st).
Proof.
  split; [|split; [|split]].
  - intros. edestruct step_missing_reported as [A [B _]]; eauto.
  - intros. eapply step_wrong_type_reported; eauto.
  - intros. eapply step_depth_reported; eauto.
  - intros. apply step_errors_monotone.
Qed.

(* a reported error is a configuration error instead of a half-started node: under every schedule the node never
   reports ready, never waits for the start events, and is either still calling startModule or has exited *)
Theorem C15_errors_never_ready :
  forall limit fuel c sched,
    errors (initialised limit fuel c) <> [] ->
    let s := started limit fuel c sched in
    no_ready (trace (s_node s)) /\ s_pc s <> MRun /\ s_pc s <> MWait /\
    (s_pc s = MExited \/ exists m rest, s_pc s = MStart (m :: rest)).
Proof. intros; apply errors_never_ready; assumption. Qed.

(* the node reports ready only after every poll thread called its started callback (ready = true), or after the
   time-out while some poll thread had not finished its first round (ready = false); nothing is reported twice *)
Theorem C15_ready_after_first_round :
  forall limit fuel c sched,
    let s := started limit fuel c sched in
    s_pc s = MRun ->
    exists b pre, trace (s_node s) = EReady b :: pre /\ no_ready pre /\
      (b = true -> forall th, In th (s_threads s) -> In (EStarted (t_id th)) pre) /\
      (b = false -> exists th, In th (s_threads s) /\ t_done th = false).
Proof. intros; apply ready_after_first_round; assumption. Qed.

(* the first round of a poll thread: every configured start value of every module it serves is written (and
   initialReads called) before the first read of any of them, the started callback comes last *)
Theorem C15_writes_before_first_poll :
  forall st t, exists A B,
    thread_prog st t = A ++ B ++ [EStarted t] /\
    (forall m k, ~ In (ERead m k) A) /\ (forall e, In e B -> exists m k, e = ERead m k) /\
    (forall m k, In (EWrite m k) A -> In m (polled_of st t) /\ In k (d_writes (decl_of st m))) /\
    (forall m, In m (polled_of st t) -> forall k, In k (d_writes (decl_of st m)) -> In (EWrite m k) A).
Proof. intros; apply thread_prog_shape. Qed.

(* shutdown: every poll thread is asked to stop (twice: stopPollThread, joinPollThread) before the first
   shutdownModule, all of it after ready; a node that never became ready is not shut down by this path *)
Theorem C15_shutdown_stops_pollers_first :
  forall s order,
    (s_pc s = MRun ->
     trace (shutdown s order) =
       rev (map EShutdown (sorted_modules (s_node s) order)) ++
       rev (map EStop (stops_of s ++ stops_of s)) ++ trace (s_node s)) /\
    (s_pc s <> MRun -> shutdown s order = s_node s).
Proof. intros; split; [apply shutdown_trace|apply shutdown_not_running]. Qed.

(* non-vacuity: user declared before the module it attaches; shared poll-free run to completion *)
Definition demo_cfg : cfg :=
  {| c_static := [(0, plain true [to 1] [0; 1]); (1, plain true [] [])]; c_dyn := [] |}.
Example C15_demo :
  rev (trace (lifecycle 40 2000 demo_cfg
                [SMain; SThread 0; SThread 0; SMain; SThread 0; SThread 0; SThread 0; SThread 0;
                 SThread 1; SThread 1; SThread 1; SThread 1; SMain] [0; 1])) =
  [EEarly 0; EInit 0; EEarly 1; EInit 1; ESee 0 0 (Some 1) true; EStart 0; EWrite 0 0; EWrite 0 1; EStart 1;
   EIReads 0; ERead 0 0; ERead 0 1; EStarted 0; EIReads 1; ERead 1 0; ERead 1 1; EStarted 1; EReady true;
   EStop 0; EStop 1; EStop 0; EStop 1; EShutdown 0; EShutdown 1].
Proof. vm_compute. reflexivity. Qed.

(* non-vacuity of the hypotheses of C15_init_once_acyclic *)
Definition demo_rank (n : name) : nat := match n with 0 => 1 | _ => 0 end.
Example C15_fresh_demo : fresh demo_rank (create_all 40 2000 demo_cfg) /\
  stuck (init_phase 40 2000 (create_all 40 2000 demo_cfg)) = false /\
  isinit (init_phase 40 2000 (create_all 40 2000 demo_cfg)) 0 = true.
Proof.
  split; [|split; vm_compute; reflexivity].
  unfold fresh. split; [vm_compute; reflexivity|]. split; [vm_compute; reflexivity|]. split; [|split].
  - intros [|[|m]]; vm_compute; reflexivity.
  - intros [|[|b]] d; vm_compute; intros F K; try discriminate.
  - intros [|[|b]]; vm_compute; intros K; try discriminate;
    repeat (apply Forall_cons; [first [exact I | intros t E; inversion E; subst; vm_compute; lia]|]); apply Forall_nil.
Qed.

(* the former finding: module 0 has export = False, nobody attaches it, it has a configured start value; it is now
   initialised, its value is written in the first round of its poll thread, before the node reports ready *)
Definition cfg_unexported : cfg :=
  {| c_static := [(0, plain false [] [0]); (1, plain true [] [])]; c_dyn := [] |}.
Example C15_unexported_module_initialised :
  rev (trace (lifecycle 40 2000 cfg_unexported
                [SMain; SMain; SThread 0; SThread 0; SThread 0; SThread 0; SThread 0;
                 SThread 1; SThread 1; SThread 1; SThread 1; SMain] [0; 1])) =
  [EEarly 1; EInit 1; EEarly 0; EInit 0; EStart 0; EStart 1;
   EWrite 0 0; EIReads 0; ERead 0 0; ERead 0 1; EStarted 0; EIReads 1; ERead 1 0; ERead 1 1; EStarted 1;
   EReady true; EStop 0; EStop 1; EStop 0; EStop 1; EShutdown 1; EShutdown 0].
Proof. vm_compute. reflexivity. Qed.

Print Assumptions C15_source_facts.
Print Assumptions C15_init_once_acyclic.
Print Assumptions C15_no_reentry_acyclic.
Print Assumptions C15_bad_attachment_recorded.
Print Assumptions C15_errors_never_ready.
Print Assumptions C15_ready_after_first_round.
Print Assumptions C15_writes_before_first_poll.
Print Assumptions C15_shutdown_stops_pollers_first.
Print Assumptions C15_refuted_pinata_order_dependent.
