(* C15 — property theorems only; each is closed by a lemma of Lemmas.v / LemmasInit.v / Refuted.v.
   c ranges over every configuration (declared and dynamically scanned modules, kinds, attachments, flags) in every
   declaration order, sched over every interleaving of startModule calls, poll thread steps and the time-out,
   limit over every depth bound of the interpreter, fuel over every step budget of the model. *)
From Coq Require Import List Arith Bool Lia Permutation.
Import ListNotations.
Require Import FV.Gen.C15 FV.C15.Model FV.C15.Lemmas FV.C15.LemmasInit FV.C15.LemmasSort FV.C15.LemmasWf
  FV.C15.LemmasGlobal FV.C15.LemmasTerm FV.C15.LemmasOnce FV.C15.Refuted FV.C15.Run FV.C15.LemmasRun FV.C15.LemmasErr FV.C15.LemmasThread.

(* obligations on the facts regenerated from /repo (Gen/C15.v) *)
Theorem C15_source_facts :
  get_module_early_then_init_then_flag = true /\ processcfg_order = true /\
  processcfg_initialises_every_module = true /\
  descriptive_data_initialises_exported = true /\ shutdown_stops_pollers_first = true /\
  sorted_modules_reversed_postorder = true /\ pollthread_writes_then_reads_then_started = true /\
  writeinitparams_absorbs_write_errors = true /\ pollthread_comm_failure_abandons_startup = true /\
  callpollfunc_reraises_only_comm_failure = true /\ regular_loop_first_pass_polls_every_module = true /\
  startmodule_starts_thread_iff_polled = true /\ initmodule_registers_at_io = true /\
  attached_get_checks = true /\ hasio_creates_io_once_per_uri = true /\
  multievent_set_only_when_all_triggered = true /\ 0 < start_timeout.
Proof. repeat split; try reflexivity; apply Nat.ltb_lt; reflexivity. Qed.

(* every module of the node is early-initialised exactly once and initialised at most once (exactly once unless
   its earlyInit raised), and is marked as initialised: for every acyclic attachment graph (rank decreases along
   every attachment and io reference) on a node whose creatable modules have all been created and nothing is
   initialised yet (fresh: the state after create_modules without Pinata), every depth limit, every step budget.
   Whatever is not a module of the node gets nothing.  (Since fix 68acea7 this holds without the former exception
   for modules that are neither exported nor attached.) *)
Theorem C15_init_once_acyclic :
  forall (rank : name -> nat) limit fuel st,
    fresh rank st -> stuck (init_phase limit fuel st) = false ->
    forall m, let st' := init_phase limit fuel st in
      (has_key m (modules st) = true ->
         isinit st' m = true /\ ce m (trace st') = 1 /\ ci m (trace st') <= 1) /\
      (isinit st' m = false -> ce m (trace st') = 0 /\ ci m (trace st') = 0).
Proof. intros rank limit fuel st F NS m. exact (init_phase_every_module rank limit fuel st F NS m). Qed.

(* the same as an invariant of every single step of the get_module / Attached.__get__ machine: no module is
   re-entered (the stack of active initialisations is strictly ordered by rank), counts as above *)
Theorem C15_no_reentry_acyclic :
  forall (rank : name -> nat) limit st, LInv rank st -> LInv rank (step limit st).
Proof. intros; apply step_LInv; assumption. Qed.

(* a missing attached module, a wrongly typed one and an attachment chain deeper than the interpreter allows
   (what a cyclic attachment runs into) are each recorded as an error of the module being initialised, which is
   then left; errors are never removed by a later step *)
Theorem C15_bad_attachment_recorded :
  (forall limit st fr rest idx a ops b,
     stack st = fr :: rest -> f_ops fr = OAccess idx a :: ops ->
     find idx (attached_of st (f_mod fr)) = None -> a_target a = Some b ->
     has_key b (modules st) = false -> find b (avail st) = None ->
     errors (step limit st) = ErrInit (f_mod fr) :: errors st /\ stack (step limit st) = rest) /\
  (forall limit st fr rest idx a ops b,
     stack st = fr :: rest -> f_ops fr = ORet idx a b :: ops ->
     want_ok (a_want a) (d_tag (decl_of st b)) = false ->
     errors (step limit st) = ErrInit (f_mod fr) :: errors st /\ stack (step limit st) = rest) /\
  (forall limit st fr rest idx a ops b,
     stack st = fr :: rest -> f_ops fr = OAccess idx a :: ops ->
     find idx (attached_of st (f_mod fr)) = None -> a_target a = Some b ->
     has_key b (modules st) = true -> isinit st b = false -> limit <= length (stack st) ->
     errors (step limit st) = ErrInit (f_mod fr) :: errors st /\ overflow (step limit st) = true) /\
  (forall limit st, exists errs, errors (step limit st) = errs ++ errors st).
Proof.
  split; [|split; [|split]].
  - intros. edestruct step_missing_reported as [A [B _]]; eauto.
  - intros. eapply step_wrong_type_reported; eauto.
  - intros. eapply step_depth_reported; eauto.
  - intros. apply step_errors_monotone.
Qed.

(* a reported error is a configuration error instead of a half-started node: under every schedule the node never
   reports ready, never waits for the start events, and is either still calling startModule or has exited *)
Theorem C15_errors_never_ready :
  forall limit fuel c sched,
    errors (initialised limit fuel c) <> [] ->
    let s := started limit fuel c sched in
    no_ready (trace (s_node s)) /\ s_pc s <> MRun /\ s_pc s <> MWait /\
    (s_pc s = MExited \/ exists m rest, s_pc s = MStart (m :: rest)).
Proof. intros; apply errors_never_ready; assumption. Qed.

(* the node reports ready only after every poll thread called its started callback (ready = true), or after the
   time-out while some poll thread had not finished its first round (ready = false); nothing is reported twice *)
Theorem C15_ready_after_first_round :
  forall limit fuel c sched,
    let s := started limit fuel c sched in
    s_pc s = MRun ->
    exists b pre, trace (s_node s) = EReady b :: pre /\ no_ready pre /\
      (b = true -> forall th, In th (s_threads s) -> In (EStarted (t_id th)) pre) /\
      (b = false -> exists th, In th (s_threads s) /\ t_done th = false).
Proof. intros; apply ready_after_first_round; assumption. Qed.

(* the first round of a poll thread without communication failure (no CommunicationFailedError scripted for
   initialReads or a first read of a module it serves; failing writes and every other exception are absorbed and are
   covered): every configured start value of every module it serves is written (and initialReads called) before the
   first read of any of them, then the started callback, then the first pass of the regular loop (doPoll) *)
Theorem C15_writes_before_first_poll :
  forall st t,
    (forall m, In m (polled_of st t) -> d_cfail (decl_of st m) = CFNone) ->
    exists A B,
    thread_prog st t = A ++ B ++ [EStarted t] ++ map EDoPoll (polled_on st t) /\
    (forall m k, ~ In (ERead m k) A) /\ (forall m, ~ In (EDoPoll m) A) /\
    (forall e, In e B -> exists m k, e = ERead m k) /\
    (forall m k, In (EWrite m k) A -> In m (polled_of st t) /\ In k (d_writes (decl_of st m))) /\
    (forall m, In m (polled_of st t) -> forall k, In k (d_writes (decl_of st m)) -> In (EWrite m k) A).
Proof. intros; apply thread_prog_shape; assumption. Qed.

(* histories WITH communication failures.  Full statement (does NOT hold, see
   C15_refuted_writes_before_first_poll_after_comm_failure, finding C15/later-modules-skipped-after-comm-failure):
     forall st t m k, In m (polled_of st t) -> In k (d_writes (decl_of st m)) ->
       exists P1 P2, thread_prog st t = P1 ++ EWrite m k :: P2 /\ no read, doPoll or started callback in P1.
   Proved under the exact guard the code supports: initialReads of no module served EARLIER by the same thread raises
   CommunicationFailedError (a failure in initialReads of m itself or of a later module, in any first read, in any
   write is allowed).  Then every configured value of m is written, and everything the thread did before is a write
   or an initialReads call - no read function, no doPoll, no started callback. *)
Theorem C15_writes_before_first_poll_with_comm_failure_partial :
  forall st t L1 m L2 k,
    polled_of st t = L1 ++ m :: L2 ->
    (forall x, In x L1 -> d_cfail (decl_of st x) <> CFIReads) ->
    In k (d_writes (decl_of st m)) ->
    exists P1 P2, thread_prog st t = P1 ++ EWrite m k :: P2 /\
      (forall e, In e P1 -> exists x j, e = EWrite x j \/ e = EIReads x).
Proof. intros; eapply writes_before_poll_comm; eauto. Qed.

(* every history: what a poll thread does is a prefix of the start-up sequence (writes and initialReads of every served
   module, then the first reads) - all of it unless the last event of the prefix raised CommunicationFailedError -,
   then the started callback (once, so with C15_ready_after_first_round: ready only after every thread finished or
   abandoned its first round, or timed out), after a failure the short wait, then the first pass of the regular loop *)
Theorem C15_first_round_with_comm_failure :
  forall st t, exists (pre suf : list event) (aborted : bool),
    startup_prog st t = pre ++ suf /\
    thread_prog st t = pre ++ [EStarted t] ++ (if aborted then [ECWait t] else []) ++ map EDoPoll (polled_on st t) /\
    (aborted = false -> suf = []) /\
    (aborted = true -> exists p e, pre = p ++ [e] /\ fails_at st e = true) /\
    (forall e, In e (removelast pre) -> fails_at st e = false).
Proof. intros; apply thread_prog_general. Qed.

(* ---- a poll thread emits its program in order (closes the former cut (d)): every configuration, EVERY schedule,
   every point of the start phase, every poll thread whose started callback was called: the trace of the node is
   l1 ++ EStarted t :: l2 (newest first) and the whole executed part [pre] of the start-up sequence of the thread - all of
   it unless its last event raised CommunicationFailedError - is a subsequence of l2 in program order (events of the main
   thread and of other poll threads lie in between) *)
Theorem C15_started_callback_after_whole_round :
  forall limit fuel c sched,
    let s := started limit fuel c sched in
    forall th, In th (s_threads s) -> t_done th = true ->
    exists pre suf aborted l1 l2,
      startup_prog (s_node s) (t_id th) = pre ++ suf /\ (aborted = false -> suf = []) /\
      (aborted = true -> exists p e, pre = p ++ [e] /\ fails_at (s_node s) e = true) /\
      trace (s_node s) = l1 ++ EStarted (t_id th) :: l2 /\ Sub (rev pre) l2 /\ (forall e, In e pre -> In e l2) /\
      (exists post, thread_prog (s_node s) (t_id th) = pre ++ EStarted (t_id th) :: post) /\
      ~ In (EStarted (t_id th)) pre.
Proof. intros; apply started_means_round_done; assumption. Qed.

(* ---- the clause "configured start values are written before the first poll and the node reports ready only after
   every poll thread finished its first round" on the TRACE of the node: every configuration, every schedule; when the
   node reports ready (no time-out), for every poll thread without scripted communication failure the trace reads
   (newest first) EReady true :: l1 ++ EStarted t :: l2, where the whole start-up sequence of the thread is a
   subsequence of l2 in program order; in particular l2 contains the write of every configured value of every module
   the thread serves (failing writes included: the attempt is the event) *)
Theorem C15_ready_values_written :
  forall limit fuel c sched,
    let s := started limit fuel c sched in
    forall pre0, s_pc s = MRun -> trace (s_node s) = EReady true :: pre0 ->
    forall th, In th (s_threads s) ->
      (forall m, In m (polled_of (s_node s) (t_id th)) -> d_cfail (decl_of (s_node s) m) = CFNone) ->
      exists l1 l2, pre0 = l1 ++ EStarted (t_id th) :: l2 /\ Sub (rev (startup_prog (s_node s) (t_id th))) l2 /\
        (forall m k, In m (polled_of (s_node s) (t_id th)) -> In k (d_writes (decl_of (s_node s) m)) ->
           In (EWrite m k) l2).
Proof. intros; apply ready_values_written; assumption. Qed.

(* shutdown: every poll thread is asked to stop (twice: stopPollThread, joinPollThread) before the first
   shutdownModule, all of it after ready; a node that never became ready is not shut down by this path *)
Theorem C15_shutdown_stops_pollers_first :
  forall s order,
    (s_pc s = MRun ->
     trace (shutdown s order) =
       rev (map EShutdown (sorted_modules (s_node s) order)) ++
       rev (map EStop (stops_of s ++ stops_of s)) ++ trace (s_node s)) /\
    (s_pc s <> MRun -> shutdown s order = s_node s).
Proof. intros; split; [apply shutdown_trace|apply shutdown_not_running]. Qed.


(* ---- shutdown order (SecNode._getSortedModules), every configuration, every schedule, every pop order of the set:
   the order is a permutation of the modules of the node - with C15_shutdown_stops_pollers_first: every module is
   shut down exactly once.  This holds for EVERY graph of cached attachments (also for a cyclic one, where the
   function gives up and appends the visited and the unmarked names). *)
Theorem C15_shutdown_every_module_once :
  forall limit fuel c sched order,
    let st := s_node (started limit fuel c sched) in
    Permutation (sorted_modules st order) (map fst (modules st)) /\ NoDup (sorted_modules st order).
Proof. intros; apply shutdown_order_permutation. Qed.

(* acyclic graph of cached attachments (rank decreases along every attachment that was resolved), pop order that
   enumerates the modules: every module stands BEFORE every module it is attached to - users are shut down first *)
Theorem C15_shutdown_users_before_attached :
  forall limit fuel c sched order (rank : name -> nat),
    let st := s_node (started limit fuel c sched) in
    (forall x, In x (map fst (modules st)) -> In x order) ->
    (forall u i b, In (i, b) (attached_of st u) -> rank b < rank u) ->
    forall u i b, In (i, b) (attached_of st u) ->
      exists l1 l2, sorted_modules st order = l1 ++ u :: l2 /\ In b l2.
Proof. intros limit fuel c sched order rank st COV R u i b I. eapply shutdown_order_users_first; eauto. Qed.

(* ... and the rank exists whenever the node reports ready (small names, see cfg_small): no hypothesis on the graph *)
Theorem C15_shutdown_users_before_attached_when_ready :
  forall limit fuel c sched order,
    cfg_small c -> enough_fuel limit c <= fuel -> s_pc (started limit fuel c sched) = MRun ->
    let st := s_node (started limit fuel c sched) in
    (forall x, In x (map fst (modules st)) -> In x order) ->
    forall u i b, In (i, b) (attached_of st u) ->
      exists l1 l2, sorted_modules st order = l1 ++ u :: l2 /\ In b l2.
Proof. intros; eapply ready_shutdown_users_first; eauto using initialised_terminates. Qed.

(* ---- global: a cycle that get_module can follow (attachments read in earlyInit / initModule, io) among the
   modules of the node ALWAYS ends with a recorded error (so, by C15_errors_never_ready, the node never reports
   ready) - for every configuration with small names, every declaration order, every depth limit *)
Theorem C15_cyclic_attachment_is_an_error :
  forall limit fuel c u,
    cfg_small c -> enough_fuel limit c <= fuel ->
    reaches (initialised limit fuel c) u u -> errors (initialised limit fuel c) <> [].
Proof. intros; eapply cycle_is_error; eauto using initialised_terminates. Qed.

(* the same, positively: no recorded error => the graph followed by get_module has a rank function *)
Theorem C15_no_error_acyclic :
  forall limit fuel c,
    cfg_small c -> errors (initialised limit fuel c) = [] -> enough_fuel limit c <= fuel ->
    let st := initialised limit fuel c in
    exists rank : name -> nat, forall u t, has_key u (modules st) = true ->
      In t (targets_of (ops_m (modules st) u)) -> rank t < rank u.
Proof. intros; apply no_error_rank; auto using initialised_terminates. Qed.

(* ---- liveness of the initialisation: when the node reports ready, EVERY module of the node (declared, created
   through an attachment, automatically created communicator, dynamically scanned) is marked as initialised *)
Theorem C15_ready_all_initialised :
  forall limit fuel c sched,
    cfg_small c -> enough_fuel limit c <= fuel -> s_pc (started limit fuel c sched) = MRun ->
    forall m, has_key m (modules (s_node (started limit fuel c sched))) = true ->
      isinit (s_node (started limit fuel c sched)) m = true.
Proof. intros; eapply ready_all_initialised; eauto using initialised_terminates. Qed.

(* ---- get_module never loops: for EVERY configuration (cyclic ones included, no hypothesis on names), every
   declaration order and every depth limit, the step budget enough_fuel limit c (linear in the depth limit times the
   number of configured modules, see LemmasTerm.v) is never exhausted - every get_module call of create_modules,
   get_descriptive_data and _processCfg returns, at the latest through the depth limit (recorded as an error).
   With it the model-side hypothesis [stuck = false] disappears from the theorems above. *)
Theorem C15_get_module_never_loops :
  forall limit fuel c, enough_fuel limit c <= fuel -> stuck (initialised limit fuel c) = false.
Proof. intros; apply initialised_terminates; assumption. Qed.

(* the correspondence driver uses exactly that budget (Run.step_fuel c = enough_fuel depth_limit c): for EVERY case -
   configuration, schedule, pop order, and whatever the implementation is said to have done - the model run behind
   check_case never exhausts its step budget; the conjunct [negb (stuck st)] of check_case is implied *)
Theorem C15_correspondence_never_stuck :
  forall c : case, enough_fuel depth_limit (c_cfg c) <= step_fuel (c_cfg c) /\
                   stuck (model_final c) = false /\ stuck (s_node (model_run c)) = false.
Proof. intros c. split; [apply step_fuel_is_enough|apply model_never_stuck]. Qed.

(* one step of the machine strictly decreases the measure behind it *)
Theorem C15_step_measure_decreases :
  forall C limit st, DB C st -> stack st <> [] -> length (stack st) <= S limit ->
    measure C (S limit) (step limit st) < measure C (S limit) st.
Proof. intros C limit st D N L. apply decr_measure. apply (step_decr C limit st D N L). Qed.

(* ---- the first clause of the property at the ready point, on EVERY graph (Pinata initialisations during
   create_modules, lazily created modules and automatically created communicators included): every module of the node
   got exactly one earlyInit (ce), exactly one initModule (ci) and exactly one startModule, earlyInit before
   initModule (early_first), every startModule after the whole initialisation (the trace is the initialisation trace
   with later events in front, and the initialisation trace contains no startModule), in the order of secnode.modules;
   what is not a module of the node got nothing *)
Theorem C15_ready_lifecycle_exactly_once :
  forall limit fuel c sched,
    cfg_small c -> enough_fuel limit c <= fuel -> s_pc (started limit fuel c sched) = MRun ->
    let st := s_node (started limit fuel c sched) in
    (forall m, has_key m (modules st) = true -> ce m (trace st) = 1 /\ ci m (trace st) = 1) /\
    (forall m, has_key m (modules st) = false -> ce m (trace st) = 0 /\ ci m (trace st) = 0) /\
    early_first (trace st) /\
    starts (trace st) = rev (map EStart (map fst (modules st))) /\
    (exists evs, trace st = evs ++ trace (initialised limit fuel c) /\ starts (trace (initialised limit fuel c)) = []).
Proof. intros; apply ready_lifecycle_once; auto using initialised_terminates. Qed.

(* ---- nodes that end WITH an error (or are still starting, or report ready): at most once each, in order.
   For every configuration with small names whose references decrease along a rank function (cfg_ranked: every
   configured attachment target, every io module, every automatically created communicator has a smaller rank than
   its user - an acyclic configuration; missing, wrongly typed, unconfigured mandatory attachments, failing
   earlyInit / initModule, HasIO without uri and io, the depth limit are all allowed), every declaration order, every
   depth limit, every schedule, at EVERY point of the start phase (so also at sys.exit): every module got at most one
   earlyInit and no more initModule than earlyInit calls (hence at most one), initModule only after earlyInit of the
   same module, a module that is not marked as initialised got none; startModule was called for a prefix of
   secnode.modules, once each, in that order, after the whole initialisation.
   (The rank hypothesis is necessary: on a cyclic configuration the code repeats earlyInit / initModule until the
   RecursionError, about 250 times - observed, DESIGN.md section 7; exactly once at the ready point needs no rank:
   C15_ready_lifecycle_exactly_once.) *)
Theorem C15_lifecycle_at_most_once_with_errors :
  forall (rank : name -> nat) limit fuel c sched,
    cfg_small c -> cfg_ranked rank c -> enough_fuel limit c <= fuel ->
    let st := s_node (started limit fuel c sched) in
    (forall m, ce m (trace st) <= 1 /\ ci m (trace st) <= ce m (trace st)) /\
    (forall m, isinit st m = false -> ce m (trace st) = 0 /\ ci m (trace st) = 0) /\
    early_first (trace st) /\
    (exists done rest, map fst (modules st) = done ++ rest /\ starts (trace st) = rev (map EStart done)) /\
    (exists evs, trace st = evs ++ trace (initialised limit fuel c) /\ starts (trace (initialised limit fuel c)) = []).
Proof. intros; apply (lifecycle_at_most_once rank); auto using initialised_terminates. Qed.

(* the invariant behind it is kept by every step of the get_module machine, with lazy creation and with errors *)
Theorem C15_at_most_once_step :
  forall (rank : name -> nat) limit st, RI rank st -> RI rank (step limit st).
Proof. intros; apply step_RI; assumption. Qed.

(* the counting invariant behind it, one step: earlyInit events of a module = its frames past earlyInit + 1 if marked *)
Theorem C15_counts_while_no_error :
  forall limit st, GInv st -> CInv st -> errors (step limit st) = [] -> CInv (step limit st).
Proof. intros; apply step_CI; assumption. Qed.

(* the invariant behind the three theorems above, as long as no error is recorded: every active get_module call
   belongs to a module that is not yet marked (no re-entry, also on cyclic graphs before the error), the targets of
   the accesses it has already executed are marked *)
Theorem C15_no_reentry_while_no_error :
  forall limit st, GInv st -> errors (step limit st) = [] -> GInv (step limit st).
Proof. intros; apply step_GI; assumption. Qed.

(* non-vacuity: user declared before the module it attaches; shared poll-free run to completion *)
Definition demo_cfg : cfg :=
  {| c_static := [(0, plain true [to 1] [0; 1]); (1, plain true [] [])]; c_dyn := [] |}.
Example C15_demo :
  rev (trace (lifecycle 40 2000 demo_cfg
                [SMain; SThread 0; SThread 0; SMain; SThread 0; SThread 0; SThread 0; SThread 0;
                 SThread 1; SThread 1; SThread 1; SThread 1; SMain] [0; 1])) =
  [EEarly 0; EInit 0; EEarly 1; EInit 1; ESee 0 0 (Some 1) true; EStart 0; EWrite 0 0; EWrite 0 1; EStart 1;
   EIReads 0; ERead 0 0; ERead 0 1; EStarted 0; EIReads 1; ERead 1 0; ERead 1 1; EStarted 1; EReady true;
   EStop 0; EStop 1; EStop 0; EStop 1; EShutdown 0; EShutdown 1].
Proof. vm_compute. reflexivity. Qed.

(* non-vacuity of the hypotheses of C15_init_once_acyclic *)
Definition demo_rank (n : name) : nat := match n with 0 => 1 | _ => 0 end.
Example C15_fresh_demo : fresh demo_rank (create_all 40 2000 demo_cfg) /\
  stuck (init_phase 40 2000 (create_all 40 2000 demo_cfg)) = false /\
  isinit (init_phase 40 2000 (create_all 40 2000 demo_cfg)) 0 = true.
Proof.
  split; [|split; vm_compute; reflexivity].
  unfold fresh. split; [vm_compute; reflexivity|]. split; [vm_compute; reflexivity|]. split; [|split].
  - intros [|[|m]]; vm_compute; reflexivity.
  - intros [|[|b]] d; vm_compute; intros F K; try discriminate.
  - intros [|[|b]]; vm_compute; intros K; try discriminate;
    repeat (apply Forall_cons; [first [exact I | intros t E; inversion E; subst; vm_compute; lia]|]); apply Forall_nil.
Qed.

(* non-vacuity of the global theorems: demo_cfg has small names and reports ready (so its hypotheses hold); the
   two-module cycle 0 <-> 1 is reachable by get_module and is reported *)
Example C15_small_demo : cfg_small demo_cfg /\ enough_fuel 40 demo_cfg <= (7 * 1000) /\
  errors (initialised 40 (7 * 1000) demo_cfg) = [] /\
  sorted_modules (initialised 40 (7 * 1000) demo_cfg) [1; 0] = [0; 1].
Proof.
  split; [|split; [vm_compute; lia|vm_compute; auto]].
  split; intros b d I; simpl in I; repeat (destruct I as [I|I]; [inversion I; subst; split; [lia|vm_compute; lia]|]);
    contradiction.
Qed.

Definition cyc_cfg : cfg :=
  {| c_static := [(0, plain true [to 1] []); (1, plain true [to 0] [])]; c_dyn := [] |}.
Example C15_cycle_demo : cfg_small cyc_cfg /\ enough_fuel 40 cyc_cfg <= (7 * 1000) /\
  reaches (initialised 40 (7 * 1000) cyc_cfg) 0 0 /\ errors (initialised 40 (7 * 1000) cyc_cfg) <> [].
Proof.
  split; [|split; [vm_compute; lia|split]].
  - split; intros b d I; simpl in I; repeat (destruct I as [I|I]; [inversion I; subst; split; [lia|vm_compute; lia]|]);
      contradiction.
  - apply (reach_more _ 0 1 0); [|apply reach_one]; split; vm_compute; auto.
  - vm_compute. discriminate.
Qed.

(* non-vacuity of C15_lifecycle_at_most_once_with_errors: module 0 attaches the missing module 99; the configuration
   is small and ranked, the initialisation ends with a recorded error, the node exits *)
Definition err_cfg : cfg :=
  {| c_static := [(0, plain true [to 99] [0]); (1, plain true [to 0] [])]; c_dyn := [] |}.
Definition err_rank (n : name) : nat := match n with 0 => 1 | 1 => 2 | _ => 0 end.
Example C15_error_demo : cfg_small err_cfg /\ cfg_ranked err_rank err_cfg /\ enough_fuel 40 err_cfg <= (7 * 1000) /\
  errors (initialised 40 (7 * 1000) err_cfg) <> [] /\
  s_pc (started 40 (7 * 1000) err_cfg [SMain; SMain]) = MExited.
Proof.
  split; [|split; [|split; [vm_compute; lia|split; [vm_compute; discriminate|vm_compute; reflexivity]]]].
  - split; intros b d I; simpl in I; repeat (destruct I as [I|I]; [inversion I; subst; split; [lia|vm_compute; lia]|]);
      contradiction.
  - split; intros b d I; simpl in I;
      repeat (destruct I as [I|I]; [inversion I; subst; split; [|split]; simpl;
                                     [intros a t [A|[]] T; subst a; inversion T; subst; vm_compute; lia
                                     |intros; discriminate|intros; discriminate]|]);
      contradiction.
Qed.

(* the communication failure path (finding C15/later-modules-skipped-after-comm-failure), whole lifecycle: modules 0 and 1
   share the communicator 100; initialReads of module 0 raises CommunicationFailedError: early started callback, the
   short wait, then doPoll of module 1 whose configured value x0 was never written; the node reports ready *)
Example C15_comm_failure_demo :
  rev (trace (lifecycle 40 2000 cfg_comm sched_comm [0; 1; 100])) =
  [EEarly 100; EInit 100; EEarly 0; EInit 0; ESee 0 99 (Some 100) true; EEarly 1; EInit 1; ESee 1 99 (Some 100) true;
   EStart 100; EStart 0; EStart 1; EIReads 100; EIReads 0; EStarted 100; ECWait 100; EDoPoll 100; EDoPoll 0; EDoPoll 1;
   EReady true; EStop 100; EStop 100; EShutdown 1; EShutdown 0; EShutdown 100].
Proof. vm_compute. reflexivity. Qed.

(* the former finding: module 0 has export = False, nobody attaches it, it has a configured start value; it is now
   initialised, its value is written in the first round of its poll thread, before the node reports ready *)
Definition cfg_unexported : cfg :=
  {| c_static := [(0, plain false [] [0]); (1, plain true [] [])]; c_dyn := [] |}.
Example C15_unexported_module_initialised :
  rev (trace (lifecycle 40 2000 cfg_unexported
                [SMain; SMain; SThread 0; SThread 0; SThread 0; SThread 0; SThread 0;
                 SThread 1; SThread 1; SThread 1; SThread 1; SMain] [0; 1])) =
  [EEarly 1; EInit 1; EEarly 0; EInit 0; EStart 0; EStart 1;
   EWrite 0 0; EIReads 0; ERead 0 0; ERead 0 1; EStarted 0; EIReads 1; ERead 1 0; ERead 1 1; EStarted 1;
   EReady true; EStop 0; EStop 1; EStop 0; EStop 1; EShutdown 1; EShutdown 0].
Proof. vm_compute. reflexivity. Qed.

Print Assumptions C15_source_facts.
Print Assumptions C15_init_once_acyclic.
Print Assumptions C15_no_reentry_acyclic.
Print Assumptions C15_bad_attachment_recorded.
Print Assumptions C15_errors_never_ready.
Print Assumptions C15_ready_after_first_round.
Print Assumptions C15_writes_before_first_poll.
Print Assumptions C15_writes_before_first_poll_with_comm_failure_partial.
Print Assumptions C15_first_round_with_comm_failure.
Print Assumptions C15_started_callback_after_whole_round.
Print Assumptions C15_ready_values_written.
Print Assumptions C15_shutdown_stops_pollers_first.
Print Assumptions C15_shutdown_every_module_once.
Print Assumptions C15_shutdown_users_before_attached.
Print Assumptions C15_shutdown_users_before_attached_when_ready.
Print Assumptions C15_cyclic_attachment_is_an_error.
Print Assumptions C15_no_error_acyclic.
Print Assumptions C15_ready_all_initialised.
Print Assumptions C15_no_reentry_while_no_error.
Print Assumptions C15_ready_lifecycle_exactly_once.
Print Assumptions C15_counts_while_no_error.
Print Assumptions C15_lifecycle_at_most_once_with_errors.
Print Assumptions C15_at_most_once_step.
Print Assumptions C15_get_module_never_loops.
Print Assumptions C15_step_measure_decreases.
Print Assumptions C15_correspondence_never_stuck.
Print Assumptions C15_refuted_pinata_order_dependent.
Print Assumptions C15_refuted_writes_before_first_poll_after_comm_failure.
