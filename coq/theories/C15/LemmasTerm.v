(* C15 — lemmas, part 6: the get_module / Attached.__get__ machine never loops: for EVERY configuration (cyclic
   ones included) a measure built from the number of modules that are not yet marked, the room left under the depth
   limit, the number of frames whose module is already marked and the operations left in the frames decreases with
   every step.  So a step budget that is linear in (depth limit x number of configured modules) is never exhausted:
   the flag stuck of the model stays false, the recursion always comes back (at the latest through the depth limit,
   which is recorded as an error). *)
From Coq Require Import List Arith Bool Lia.
Import ListNotations.
Require Import FV.C15.Model FV.C15.Lemmas FV.C15.LemmasInit FV.C15.LemmasWf FV.C15.LemmasGlobal.

(* ---------------------------------------------------------------- counting *)
Definition uninit_e (e : name * inst) : bool := negb (i_isinit (snd e)).
Definition unk (mods : list (name * inst)) (m : name) : bool :=
  match find m mods with Some i => negb (i_isinit i) | None => false end.
Definition notkey (mods : list (name * inst)) (bd : name * decl) : bool := negb (has_key (fst bd) mods).
Definition nU (mods : list (name * inst)) (av : list (name * decl)) : nat :=
  length (filter uninit_e mods) + 2 * length (filter (notkey mods) av).
Definition zomb (mods : list (name * inst)) (fr : frame) : bool := negb (unk mods (f_mod fr)).
Definition nZ (mods : list (name * inst)) (stk : list frame) : nat := length (filter (zomb mods) stk).
Definition wop (o : op) : nat := match o with OAccess _ _ => 2 | _ => 1 end.
Definition wops (ops : list op) : nat := list_sum (map wop ops).
Definition nW (stk : list frame) : nat := list_sum (map (fun fr => 1 + wops (f_ops fr)) stk).
Definition nB (L : nat) (mods : list (name * inst)) (av : list (name * decl)) (stk : list frame) : nat :=
  (L + 1) * nU mods av + (L - length stk) + nZ mods stk.
Definition measure (C L : nat) (st : node) : nat :=
  C * nB L (modules st) (avail st) (stack st) + nW (stack st).

Lemma filter_len_mono {A} (p q : A -> bool) : forall l,
  (forall x, In x l -> p x = true -> q x = true) -> length (filter p l) <= length (filter q l).
Proof.
  induction l as [|x r IH]; simpl; intros H; auto.
  assert (IH' : length (filter p r) <= length (filter q r)) by (apply IH; intros y Y; apply H; right; exact Y).
  destruct (p x) eqn:P.
  - rewrite (H x (or_introl eq_refl) P). simpl. lia.
  - destruct (q x); simpl; lia.
Qed.

Lemma filter_len_strict {A} (p q : A -> bool) : forall l,
  (forall x, In x l -> p x = true -> q x = true) -> (exists x, In x l /\ p x = false /\ q x = true) ->
  length (filter p l) < length (filter q l).
Proof.
  induction l as [|x r IH]; simpl; intros H [y [Y [P Q]]]; [contradiction|].
  assert (M : length (filter p r) <= length (filter q r)) by (apply filter_len_mono; intros z Z; apply H; right; exact Z).
  destruct Y as [E|Y].
  - subst y. rewrite P, Q. simpl. lia.
  - assert (S : length (filter p r) < length (filter q r)).
    { apply IH; [intros z Z; apply H; right; exact Z|exists y; auto]. }
    destruct (p x) eqn:PX.
    + rewrite (H x (or_introl eq_refl) PX). simpl. lia.
    + destruct (q x); simpl; lia.
Qed.

Lemma filter_len_le {A} (p : A -> bool) l : length (filter p l) <= length l.
Proof. induction l as [|x r IH]; simpl; auto. destruct (p x); simpl; lia. Qed.

Lemma uninit_cons k i r :
  length (filter uninit_e ((k, i) :: r)) = (if i_isinit i then 0 else 1) + length (filter uninit_e r).
Proof. simpl. unfold uninit_e at 1. simpl. destruct (i_isinit i); reflexivity. Qed.

(* ---- an update that keeps the flags *)
Lemma uninit_upd_keep k f : (forall i, i_isinit (f i) = i_isinit i) -> forall mods,
  length (filter uninit_e (upd k f mods)) = length (filter uninit_e mods).
Proof.
  intros H. induction mods as [|[k0 i0] r IH]; [reflexivity|]. cbn [upd].
  destruct (Nat.eqb k k0); rewrite !uninit_cons; [rewrite H; reflexivity|rewrite IH; reflexivity].
Qed.

Lemma unk_upd_keep k f mods m : (forall i, i_isinit (f i) = i_isinit i) -> unk (upd k f mods) m = unk mods m.
Proof.
  intros H. unfold unk. rewrite find_upd. destruct (Nat.eqb m k); auto. destruct (find m mods); simpl; auto.
  rewrite H. reflexivity.
Qed.

Lemma notkey_upd k (f : inst -> inst) mods bd : notkey (upd k f mods) bd = notkey mods bd.
Proof. unfold notkey. rewrite has_key_upd. reflexivity. Qed.

Lemma nU_upd_keep k f mods av : (forall i, i_isinit (f i) = i_isinit i) -> nU (upd k f mods) av = nU mods av.
Proof.
  intros H. unfold nU. rewrite (uninit_upd_keep k f H).
  rewrite (filter_ext (notkey (upd k f mods)) (notkey mods)); [reflexivity|]. intros bd. apply notkey_upd.
Qed.

Lemma nZ_upd_keep k f mods stk : (forall i, i_isinit (f i) = i_isinit i) -> nZ (upd k f mods) stk = nZ mods stk.
Proof.
  intros H. unfold nZ. rewrite (filter_ext (zomb (upd k f mods)) (zomb mods)); [reflexivity|].
  intros fr. unfold zomb. rewrite unk_upd_keep; auto.
Qed.

(* ---- marking a module *)
Lemma uninit_mark u : forall mods,
  length (filter uninit_e (mark u mods)) + (if unk mods u then 1 else 0) = length (filter uninit_e mods).
Proof.
  unfold mark, unk. induction mods as [|[k0 i0] r IH]; [reflexivity|]. cbn [upd find].
  destruct (Nat.eqb u k0) eqn:E; rewrite !uninit_cons; cbn [i_isinit].
  - destruct (i_isinit i0); simpl; lia.
  - lia.
Qed.

Lemma unk_mark u mods m : unk (mark u mods) m = if Nat.eqb m u then false else unk mods m.
Proof.
  unfold unk, mark. rewrite find_upd. destruct (Nat.eqb m u); auto. destruct (find m mods); reflexivity.
Qed.

Lemma nU_mark u mods av : nU (mark u mods) av + (if unk mods u then 1 else 0) = nU mods av.
Proof.
  unfold nU. pose proof (uninit_mark u mods) as H.
  rewrite (filter_ext (notkey (mark u mods)) (notkey mods)); [lia|]. intros bd. apply notkey_upd.
Qed.

Lemma nZ_mark_same u mods stk : unk mods u = false -> nZ (mark u mods) stk = nZ mods stk.
Proof.
  intros H. unfold nZ. rewrite (filter_ext (zomb (mark u mods)) (zomb mods)); [reflexivity|].
  intros fr. unfold zomb. rewrite unk_mark. destruct (Nat.eqb (f_mod fr) u) eqn:E; auto.
  apply Nat.eqb_eq in E. rewrite E, H. reflexivity.
Qed.

Lemma nZ_cons mods fr rest : nZ mods (fr :: rest) = (if unk mods (f_mod fr) then 0 else 1) + nZ mods rest.
Proof. unfold nZ. simpl. unfold zomb at 1. destruct (unk mods (f_mod fr)); reflexivity. Qed.

Lemma nB_pop L mods av fr rest : S (length rest) <= L ->
  nB L (mark (f_mod fr) mods) av rest <= nB L mods av (fr :: rest).
Proof.
  intros D. unfold nB. pose proof (nU_mark (f_mod fr) mods av) as HU. simpl length.
  destruct (unk mods (f_mod fr)) eqn:K.
  - assert (Z1 : nZ (mark (f_mod fr) mods) rest <= length rest) by apply filter_len_le.
    assert (U1 : nU mods av = S (nU (mark (f_mod fr) mods) av)) by lia. rewrite U1. nia.
  - rewrite (nZ_mark_same _ _ rest K). rewrite nZ_cons, K.
    assert (U1 : nU mods av = nU (mark (f_mod fr) mods) av) by lia. rewrite U1. lia.
Qed.

(* ---- a new instance *)
Lemma uninit_set_assoc n d io : forall mods,
  length (filter uninit_e (set_assoc n (new_inst d io) mods)) <= S (length (filter uninit_e mods)).
Proof.
  induction mods as [|[k0 i0] r IH]; [simpl; lia|]. cbn [set_assoc].
  destruct (Nat.eqb n k0); rewrite !uninit_cons; cbn [new_inst i_isinit].
  - destruct (i_isinit i0); simpl; lia.
  - lia.
Qed.

Lemma unk_set_assoc n d io mods m :
  unk (set_assoc n (new_inst d io) mods) m = if Nat.eqb m n then true else unk mods m.
Proof. unfold unk. rewrite find_set_assoc. destruct (Nat.eqb m n); reflexivity. Qed.

Lemma nZ_set_assoc n d io mods stk : nZ (set_assoc n (new_inst d io) mods) stk <= nZ mods stk.
Proof.
  unfold nZ. apply filter_len_mono. intros fr _. unfold zomb. rewrite unk_set_assoc.
  destruct (Nat.eqb (f_mod fr) n); [discriminate|auto].
Qed.

Lemma notkey_set_assoc_mono n (v : inst) mods av :
  length (filter (notkey (set_assoc n v mods)) av) <= length (filter (notkey mods) av).
Proof.
  apply filter_len_mono. intros bd _. unfold notkey. rewrite has_key_set_assoc_iff.
  destruct (Nat.eqb (fst bd) n); simpl; [discriminate|auto].
Qed.

Lemma notkey_set_assoc_strict n (v : inst) mods av d :
  In (n, d) av -> has_key n mods = false ->
  length (filter (notkey (set_assoc n v mods)) av) < length (filter (notkey mods) av).
Proof.
  intros I K. apply filter_len_strict.
  - intros bd _. unfold notkey. rewrite has_key_set_assoc_iff. destruct (Nat.eqb (fst bd) n); simpl; [discriminate|auto].
  - exists (n, d). split; [exact I|]. unfold notkey. simpl. rewrite has_key_set_assoc_iff, Nat.eqb_refl, K. auto.
Qed.

(* ---------------------------------------------------------------- the bound on the size of a frame *)
Definition DB (C : nat) (st : node) : Prop :=
  (forall k i, find k (modules st) = Some i -> wops (frame_ops (i_decl i) (i_io i)) + 2 <= C) /\
  (forall b d io, In (b, d) (avail st) -> wops (frame_ops d io) + 2 <= C) /\
  wops (frame_ops io_decl None) + 2 <= C.

Lemma DB_ops C st b : DB C st -> wops (frame_ops (decl_of st b) (io_of st b)) + 2 <= C.
Proof.
  intros [A [_ B]]. unfold decl_of, io_of. destruct (find b (modules st)) as [i|] eqn:F; [eapply A; eauto|exact B].
Qed.

Lemma DB_upd C st st' k f : keeps f -> modules st' = upd k f (modules st) -> avail st' = avail st -> DB C st -> DB C st'.
Proof.
  intros KF M AV [A [B D]]. split; [|split; [rewrite AV; exact B|exact D]]. intros x i F. rewrite M, find_upd in F.
  destruct (Nat.eqb x k); [|eauto]. destruct (find x (modules st)) as [i0|] eqn:E; simpl in F; [|discriminate].
  inversion F; subst. destruct (KF i0) as [H1 H2]. rewrite H1, H2. eauto.
Qed.

Lemma DB_same C st st' : modules st' = modules st -> avail st' = avail st -> DB C st -> DB C st'.
Proof. intros M AV [A [B D]]. split; [rewrite M; exact A|split; [rewrite AV; exact B|exact D]]. Qed.

(* what get_module_instance does to the counters *)
Record gi_eff (C : nat) (st st' : node) : Prop := {
  ge_U : nU (modules st') (avail st') <= nU (modules st) (avail st);
  ge_Z : forall stk, nZ (modules st') stk <= nZ (modules st) stk;
  ge_av : avail st' = avail st;
  ge_stack : stack st' = stack st;
  ge_DB : DB C st';
}.

Lemma gi_eff_refl C st : DB C st -> gi_eff C st st.
Proof. intros D. constructor; auto. Qed.

Lemma add_module_eff n d io st :
  modules (add_module n (new_inst d io) st) = set_assoc n (new_inst d io) (modules st) /\
  avail (add_module n (new_inst d io) st) = avail st /\ stack (add_module n (new_inst d io) st) = stack st.
Proof. unfold add_module. destruct (d_export _); simpl; auto. Qed.

Lemma create_eff C st b d : DB C st -> find b (avail st) = Some d -> has_key b (modules st) = false ->
  gi_eff C st (fst (create st b d)).
Proof.
  intros DBS F K. pose proof (find_In _ _ _ F) as IN. unfold create.
  destruct (negb (creatable d)); simpl; [constructor; auto|].
  destruct DBS as [DA [DV DI]].
  (* adding the module itself *)
  assert (ONE : forall io s, avail s = avail st -> stack s = stack st -> has_key b (modules s) = false ->
            nU (modules s) (avail st) <= S (nU (modules st) (avail st)) ->
            (forall stk, nZ (modules s) stk <= nZ (modules st) stk) -> DB C s ->
            gi_eff C st (add_module b (new_inst d io) s)).
  { intros io s AV SK KS US ZS DS. destruct (add_module_eff b d io s) as [M [A S0]].
    constructor; rewrite ?M, ?A, ?S0; auto.
    - rewrite AV. unfold nU in *. pose proof (uninit_set_assoc b d io (modules s)).
      pose proof (notkey_set_assoc_strict b (new_inst d io) (modules s) (avail st) d IN KS). lia.
    - intros stk. eapply Nat.le_trans; [apply nZ_set_assoc|apply ZS].
    - destruct DS as [A1 [B1 D1]]. split; [|split; [rewrite A, AV; exact DV|exact DI]].
      intros k i FK. rewrite M, find_set_assoc in FK. destruct (Nat.eqb k b); [|eauto].
      inversion FK; subst. simpl. eapply DV; eauto. }
  assert (SELF : forall io, gi_eff C st (add_module b (new_inst d io) st)).
  { intros io. apply ONE; auto. split; [exact DA|split; [exact DV|exact DI]]. }
  destruct (d_kind d) as [|[|u|m]|]; simpl; try apply SELF.
  destruct (find u (iodict st)); simpl; [apply SELF|].
  (* a new communicator first *)
  set (n := io_name b). destruct (add_module_eff n io_decl None st) as [M1 [A1 S1]].
  assert (NB : Nat.eqb b n = false) by (apply Nat.eqb_neq; unfold n, io_name; lia).
  apply ONE.
  - simpl. reflexivity || exact A1.
  - simpl. reflexivity || exact S1.
  - simpl. rewrite ?M1, has_key_set_assoc_iff, NB, K. reflexivity.
  - simpl. rewrite ?M1. unfold nU. pose proof (uninit_set_assoc n io_decl None (modules st)).
    pose proof (notkey_set_assoc_mono n (new_inst io_decl None) (modules st) (avail st)). lia.
  - intros stk. simpl. rewrite ?M1. apply nZ_set_assoc.
  - split; [|split; [simpl; rewrite ?A1; exact DV|exact DI]]. intros k i FK. simpl in FK. rewrite ?M1, find_set_assoc in FK.
    destruct (Nat.eqb k n); [inversion FK; subst; simpl; exact DI|eauto].
Qed.

Lemma get_instance_eff C st b : DB C st -> gi_eff C st (fst (get_instance st b)).
Proof.
  intros D. unfold get_instance. destruct (has_key b (modules st)) eqn:K; simpl; [apply gi_eff_refl; exact D|].
  destruct (find b (avail st)) as [d|] eqn:F; simpl; [apply create_eff; auto|apply gi_eff_refl; exact D].
Qed.

(* ---------------------------------------------------------------- every step decreases the measure *)
Definition decr (C L : nat) (st st' : node) : Prop :=
  (nB L (modules st') (avail st') (stack st') <= nB L (modules st) (avail st) (stack st) /\ nW (stack st') < nW (stack st)) \/
  (nB L (modules st') (avail st') (stack st') < nB L (modules st) (avail st) (stack st) /\ nW (stack st') < nW (stack st) + C).

Lemma decr_measure C L st st' : decr C L st st' -> measure C L st' < measure C L st.
Proof. unfold measure. intros [[A B]|[A B]]; nia. Qed.

Lemma nW_cons fr rest : nW (fr :: rest) = 1 + wops (f_ops fr) + nW rest.
Proof. reflexivity. Qed.

Lemma wops_cons o ops : wops (o :: ops) = wop o + wops ops.
Proof. reflexivity. Qed.

Lemma wop_pos o : 1 <= wop o. Proof. destruct o; simpl; lia. Qed.

Lemma nZ_same_mod mods fr fr' rest : f_mod fr' = f_mod fr -> nZ mods (fr' :: rest) = nZ mods (fr :: rest).
Proof. intros E. rewrite !nZ_cons, E. reflexivity. Qed.

Lemma step_decr C limit st : DB C st -> stack st <> [] -> length (stack st) <= S limit ->
  decr C (S limit) st (step limit st) /\ DB C (step limit st) /\ length (stack (step limit st)) <= S limit /\
  nU (modules (step limit st)) (avail (step limit st)) <= nU (modules st) (avail st).
Proof.
  intros DBS NE LEN. unfold step. destruct (stack st) as [|fr rest] eqn:Hs; [contradiction|]. clear NE.
  set (L := S limit) in *. simpl in LEN.
  (* leaving the top frame from a state with the same stack and possibly more modules *)
  assert (POP : forall st0 st', gi_eff C st st0 -> modules st' = mark (f_mod fr) (modules st0) ->
            avail st' = avail st0 -> stack st' = rest ->
            decr C L st st' /\ DB C st' /\ length (stack st') <= L /\
            nU (modules st') (avail st') <= nU (modules st) (avail st)).
  { intros st0 st' [GU GZ GA GS GD] M AV SK. split; [|split; [|split]].
    - left. rewrite M, AV, SK, Hs. split.
      + eapply Nat.le_trans; [apply (nB_pop L (modules st0) (avail st0) fr rest LEN)|].
        unfold nB. specialize (GZ (fr :: rest)). nia.
      + rewrite nW_cons. lia.
    - eapply (DB_upd C st0 st'); eauto. intros i; simpl; auto.
    - rewrite SK. lia.
    - rewrite M, AV. pose proof (nU_mark (f_mod fr) (modules st0) (avail st0)). lia. }
  destruct (f_ops fr) as [|o ops] eqn:Ho.
  - apply (POP st); auto using gi_eff_refl.
  - assert (RAISE : forall st0 s, gi_eff C st st0 -> modules s = modules st0 -> avail s = avail st0 ->
              decr C L st (raise_top s (f_mod fr) rest) /\ DB C (raise_top s (f_mod fr) rest) /\
              length (stack (raise_top s (f_mod fr) rest)) <= L /\
              nU (modules (raise_top s (f_mod fr) rest)) (avail (raise_top s (f_mod fr) rest)) <= nU (modules st) (avail st)).
    { intros st0 s G M AV. apply (POP st0); auto. simpl. unfold mark. rewrite M. reflexivity. }
    (* going on in the top frame behind o; the modules keep their flags *)
    assert (CONT : forall s, (nU (modules s) (avail s) = nU (modules st) (avail st)) ->
              (forall stk, nZ (modules s) stk = nZ (modules st) stk) -> DB C s ->
              decr C L st (set_stack s ({| f_mod := f_mod fr; f_ops := ops |} :: rest)) /\
              DB C (set_stack s ({| f_mod := f_mod fr; f_ops := ops |} :: rest)) /\
              length (stack (set_stack s ({| f_mod := f_mod fr; f_ops := ops |} :: rest))) <= L /\
              nU (modules (set_stack s ({| f_mod := f_mod fr; f_ops := ops |} :: rest)))
                 (avail (set_stack s ({| f_mod := f_mod fr; f_ops := ops |} :: rest))) <= nU (modules st) (avail st)).
    { intros s HU HZ HD. split; [|split; [eapply DB_same; eauto; reflexivity|split; [simpl; lia|simpl; lia]]].
      left. simpl. rewrite Hs. split.
      - unfold nB. rewrite HU, HZ. simpl length.
        rewrite (nZ_same_mod (modules st) fr {| f_mod := f_mod fr; f_ops := ops |} rest eq_refl). lia.
      - rewrite !nW_cons, Ho, wops_cons. simpl f_ops. pose proof (wop_pos o). lia. }
    destruct o.
    + apply CONT; auto.
    + apply CONT; auto.
    + (* OAccess *)
      destruct (find idx (attached_of st (f_mod fr))); [apply CONT; auto|].
      destruct (a_target a) as [b|]; [|apply CONT; auto].
      pose proof (get_instance_eff C st b DBS) as G1. pose proof (get_instance_ok_key st b) as OK.
      destruct (get_instance st b) as [st1 r]; simpl in *.
      destruct r; try (apply (RAISE st1 st1); auto).
      specialize (OK eq_refl). pose proof G1 as [GU GZ GA GS GD].
      set (fr2 := {| f_mod := f_mod fr; f_ops := ORet idx a b :: ops |}).
      assert (WAIT : nB L (modules st1) (avail st1) (fr2 :: rest) <= nB L (modules st) (avail st) (fr :: rest) /\
                     nW (fr2 :: rest) < nW (fr :: rest)).
      { split.
        - unfold nB. simpl length. specialize (GZ (fr :: rest)).
          rewrite (nZ_same_mod (modules st1) fr fr2 rest eq_refl). nia.
        - rewrite !nW_cons, Ho. unfold fr2. simpl f_ops. rewrite !wops_cons. simpl. lia. }
      change (isinit (set_stack st1 (fr2 :: rest)) b) with (isinit_m (modules st1) b).
      destruct (isinit_m (modules st1) b) eqn:IB.
      { split; [left; simpl; rewrite Hs; exact WAIT|split; [eapply DB_same; eauto; reflexivity|split; [simpl; lia|simpl; exact GU]]]. }
      simpl length. destruct (Nat.leb limit (S (length rest))) eqn:LIM.
      { apply (RAISE st1 (set_overflow (set_stack st1 (fr2 :: rest)))); auto. }
      apply Nat.leb_gt in LIM.
      split; [|split; [eapply DB_same; eauto; reflexivity|split; [simpl; lia|simpl; exact GU]]].
      right. rewrite Hs. destruct WAIT as [WB WW]. unfold push. cbn [modules avail stack set_stack].
      set (bf := {| f_mod := b; f_ops := frame_ops (decl_of (set_stack st1 (fr2 :: rest)) b) (io_of (set_stack st1 (fr2 :: rest)) b) |}).
      assert (UB : unk (modules st1) b = true).
      { unfold unk, isinit_m, has_key in *. destruct (find b (modules st1)); [rewrite IB; reflexivity|discriminate]. }
      split.
      * unfold nB in *. simpl length in *. rewrite (nZ_cons (modules st1) bf). unfold bf at 1. simpl f_mod. rewrite UB.
        unfold L in *. lia.
      * rewrite (nW_cons bf). unfold bf. simpl f_ops.
        pose proof (DB_ops C (set_stack st1 (fr2 :: rest)) b (DB_same C st1 _ eq_refl eq_refl GD)). lia.
    + (* ORet *)
      destruct (want_ok _ _); [|apply (RAISE st st); auto using gi_eff_refl].
      apply CONT.
      * simpl. apply nU_upd_keep. intros i; reflexivity.
      * intros stk. simpl. apply nZ_upd_keep. intros i; reflexivity.
      * eapply (DB_upd C st); eauto; try reflexivity. intros i; simpl; auto.
    + apply (RAISE st st); auto using gi_eff_refl.
    + (* ORegister *)
      unfold register. destruct (_ || _); [|apply CONT; auto].
      apply CONT.
      * simpl. apply nU_upd_keep. intros i; reflexivity.
      * intros stk. simpl. apply nZ_upd_keep. intros i; reflexivity.
      * eapply (DB_upd C st); eauto; try reflexivity. intros i; simpl; auto.
Qed.

(* ---------------------------------------------------------------- runs *)
Lemma nW_pos fr rest : 1 <= nW (fr :: rest).
Proof. rewrite nW_cons. lia. Qed.

Lemma run_gm_terminates C limit : forall fuel st, DB C st -> length (stack st) <= S limit ->
  measure C (S limit) st <= fuel ->
  stuck (run_gm limit fuel st) = stuck st /\ DB C (run_gm limit fuel st) /\
  nU (modules (run_gm limit fuel st)) (avail (run_gm limit fuel st)) <= nU (modules st) (avail st).
Proof.
  induction fuel as [|fuel IH]; intros st D LEN M; simpl; destruct (stack st) as [|fr rest] eqn:Hs; auto.
  - exfalso. unfold measure in M. rewrite Hs in M. pose proof (nW_pos fr rest). lia.
  - assert (NE : stack st <> []) by (rewrite Hs; discriminate). rewrite <- Hs in LEN.
    destruct (step_decr C limit st D NE LEN) as [DE [D1 [L1 U1]]]. apply decr_measure in DE.
    destruct (IH (step limit st) D1 L1) as [S2 [D2 U2]]; [lia|].
    rewrite S2, step_stuck. split; [reflexivity|]. split; [exact D2|lia].
Qed.

(* an idle node: bound on the frames, bound U on the modules that are not yet marked *)
Definition TI (C U : nat) (st : node) : Prop :=
  DB C st /\ stack st = [] /\ nU (modules st) (avail st) <= U.

Definition fuel_for (C limit U : nat) : nat := C * ((S limit + 1) * U + S limit + 1).

Lemma measure_push C L st b : stack st = [] ->
  measure C L (push b st) =
  C * ((L + 1) * nU (modules st) (avail st) + (L - 1) + (if unk (modules st) b then 0 else 1)) +
  (1 + wops (frame_ops (decl_of st b) (io_of st b))).
Proof.
  intros Hs. unfold measure, push. cbn [modules avail stack set_stack]. rewrite Hs. unfold nB.
  rewrite nZ_cons, nW_cons. cbn [f_mod f_ops length].
  change (nZ (modules st) []) with 0. change (nW []) with 0. rewrite !Nat.add_0_r. reflexivity.
Qed.

Lemma gm_top_terminates C U limit fuel st b : TI C U st -> fuel_for C limit U <= fuel ->
  stuck (gm_top limit fuel st b) = stuck st /\ (stuck st = false -> TI C U (gm_top limit fuel st b)).
Proof.
  intros [D [Hs UB]] F. unfold gm_top.
  pose proof (get_instance_eff C st b D) as [GU GZ GA GS GD]. pose proof (get_instance_stuck st b) as STK.
  destruct (get_instance st b) as [st1 r]; simpl in *.
  assert (T1 : TI C U st1) by (split; [exact GD|split; [rewrite GS; exact Hs|lia]]).
  destruct r; try (split; [exact STK|intros _; exact T1]).
  destruct (isinit st1 b); [split; [exact STK|intros _; exact T1]|].
  assert (DP : DB C (push b st1)) by (eapply DB_same; eauto; reflexivity).
  assert (LP : length (stack (push b st1)) <= S limit) by (unfold push; simpl; rewrite GS, Hs; simpl; lia).
  assert (MP : measure C (S limit) (push b st1) <= fuel).
  { rewrite measure_push by (rewrite GS; exact Hs).
    pose proof (DB_ops C st1 b GD) as HW. unfold fuel_for in F.
    assert (UU : nU (modules st1) (avail st1) <= U) by lia.
    remember (nU (modules st1) (avail st1)) as u1. remember (wops (frame_ops (decl_of st1 b) (io_of st1 b))) as w.
    assert (Z1 : (if unk (modules st1) b then 0 else 1) <= 1) by (destruct (unk _ _); lia).
    remember (if unk (modules st1) b then 0 else 1) as z.
    assert (E1 : C * ((S limit + 1) * u1 + (S limit - 1) + z) <= C * ((S limit + 1) * U + S limit)).
    { apply Nat.mul_le_mono_l. assert ((S limit + 1) * u1 <= (S limit + 1) * U) by (apply Nat.mul_le_mono_l; exact UU). lia. }
    assert (E2 : C * ((S limit + 1) * U + S limit + 1) = C * ((S limit + 1) * U + S limit) + C) by lia.
    lia. }
  destruct (run_gm_terminates C limit fuel (push b st1) DP LP MP) as [S2 [D2 U2]].
  split; [rewrite S2; exact STK|]. intros NS. split; [exact D2|]. split.
  - apply run_gm_stack. rewrite S2. simpl. rewrite STK. exact NS.
  - simpl in U2. lia.
Qed.

Lemma fold_terminates C U limit fuel : fuel_for C limit U <= fuel -> forall names st, TI C U st -> stuck st = false ->
  stuck (fold_left (fun acc b => gm_top limit fuel acc b) names st) = false /\
  TI C U (fold_left (fun acc b => gm_top limit fuel acc b) names st).
Proof.
  intros F. induction names as [|b r IH]; intros st T NS; simpl; auto.
  destruct (gm_top_terminates C U limit fuel st b T F) as [S1 T1]. apply IH; [apply T1; exact NS|rewrite S1; exact NS].
Qed.

Lemma init_loop_terminates C U limit fuel : fuel_for C limit U <= fuel -> forall n i st, TI C U st -> stuck st = false ->
  stuck (init_loop limit fuel n i st) = false /\ TI C U (init_loop limit fuel n i st).
Proof.
  intros F. induction n as [|n IH]; intros i st T NS; simpl; auto.
  destruct (nth_error (export st) i) as [b|]; auto.
  destruct (gm_top_terminates C U limit fuel st b T F) as [S1 T1]. apply IH; [apply T1; exact NS|rewrite S1; exact NS].
Qed.

(* create_modules: every pass of the loop may make one more name available *)
Definition wsmall (C : nat) (l : list (name * decl)) : Prop := forall b d io, In (b, d) l -> wops (frame_ops d io) + 2 <= C.

Lemma notkey_avail_set_assoc mods b d : forall av,
  length (filter (notkey mods) (set_assoc b d av)) <= S (length (filter (notkey mods) av)).
Proof.
  induction av as [|[b0 d0] r IH]; simpl.
  - destruct (notkey mods (b, d)); simpl; lia.
  - destruct (Nat.eqb b b0) eqn:E; simpl.
    + apply Nat.eqb_eq in E. subst b0. change (notkey mods (b, d)) with (negb (has_key b mods)).
      change (notkey mods (b, d0)) with (negb (has_key b mods)). destruct (negb (has_key b mods)); simpl; lia.
    + destruct (notkey mods (b0, d0)); simpl; lia.
Qed.

Lemma create_loop_terminates C limit fuel dyn U0 : wsmall C dyn ->
  forall n todos st U, wsmall C todos -> TI C U st -> U + 2 * n <= U0 -> fuel_for C limit U0 <= fuel -> stuck st = false ->
  stuck (create_loop limit fuel n dyn todos st) = false /\ TI C U0 (create_loop limit fuel n dyn todos st).
Proof.
  intros WD. induction n as [|n IH]; intros todos st U WT T LE F NS; simpl.
  { split; [exact NS|]. destruct T as [D [Hs UB]]. split; [exact D|split; [exact Hs|lia]]. }
  assert (WEAK : TI C U0 st) by (destruct T as [D [Hs UB]]; split; [exact D|split; [exact Hs|lia]]).
  destruct todos as [|[b d] rest]; [auto|].
  assert (WR : wsmall C rest) by (intros x y io X; eapply WT; right; exact X).
  destruct (has_key b (modules st)); [apply (IH rest st U); auto; lia|].
  destruct T as [D [Hs UB]].
  set (st0 := set_avail st (set_assoc b d (avail st))).
  assert (D0 : DB C st0).
  { destruct D as [A [B I0]]. split; [exact A|split; [|exact I0]]. intros x y io X. simpl in X.
    apply In_set_assoc in X. destruct X as [E|X]; [inversion E; subst; eapply WT; left; reflexivity|eauto]. }
  assert (U0' : nU (modules st0) (avail st0) <= U + 2).
  { unfold nU in *. simpl. pose proof (notkey_avail_set_assoc (modules st) b d (avail st)). lia. }
  pose proof (get_instance_eff C st0 b D0) as [GU GZ GA GS GD]. pose proof (get_instance_stuck st0 b) as STK.
  destruct (get_instance st0 b) as [st1 r]; simpl in *.
  assert (T1 : TI C (U + 2) st1) by (split; [exact GD|split; [rewrite GS; exact Hs|lia]]).
  assert (NS1 : stuck st1 = false) by (rewrite STK; exact NS).
  assert (REST : forall t, wsmall C t -> stuck (create_loop limit fuel n dyn t st1) = false /\
                                         TI C U0 (create_loop limit fuel n dyn t st1)).
  { intros t WT'. apply (IH t st1 (U + 2)); auto. lia. }
  destruct r; try (apply REST; exact WR).
  destruct (d_kind d) eqn:DK; try (apply REST; exact WR).
  assert (FU : fuel_for C limit (U + 2) <= fuel).
  { unfold fuel_for in *. assert (U + 2 <= U0) by lia. nia. }
  destruct (gm_top_terminates C (U + 2) limit fuel st1 b T1 FU) as [S2 T2].
  apply (IH _ _ (U + 2)); auto; try lia.
  - intros x y io X. apply in_app_or in X. destruct X as [X|X]; [eapply WR; eauto|].
    eapply WD. eapply lookup_all_In; eauto.
  - rewrite S2. exact NS1.
Qed.

(* ---------------------------------------------------------------- the bound for a configuration *)
Definition wbound (d : decl) : nat := 4 * length (d_atts d) + 9.
Definition Cof (c : cfg) : nat :=
  S (S (fold_right Nat.max 9 (map (fun bd => wbound (snd bd)) (c_static c ++ c_dyn c)))).
Definition Uof (c : cfg) : nat := 2 * length (c_static c) + 2 * S (length (c_static c) + length (c_dyn c)).
Definition enough_fuel (limit : nat) (c : cfg) : nat := fuel_for (Cof c) limit (Uof c).

Lemma wops_app a b : wops (a ++ b) = wops a + wops b.
Proof. unfold wops. rewrite map_app, list_sum_app. reflexivity. Qed.

Lemma wops_accesses p d : wops (accesses p d) <= 2 * length (d_atts d).
Proof.
  unfold accesses, indexed_atts.
  assert (H : forall l : list (nat * att), wops (map (fun ia => OAccess (fst ia) (snd ia)) l) = 2 * length l).
  { induction l as [|x r IH]; simpl; auto. unfold wops in *. simpl. rewrite IH. lia. }
  rewrite H. pose proof (filter_len_le (fun ia : nat * att => phase_eqb (a_phase (snd ia)) p)
                                        (combine (seq 0 (length (d_atts d))) (d_atts d))) as Q.
  rewrite combine_length, seq_length, Nat.min_id in Q. lia.
Qed.

Lemma wops_frame_ops d io : wops (frame_ops d io) <= wbound d.
Proof.
  unfold frame_ops, wbound. rewrite !wops_app.
  pose proof (wops_accesses PEarly d). pose proof (wops_accesses PInit d).
  destruct (d_fail_early d), (is_hasio d), (d_fail_init d), (negb (is_some io)); simpl; unfold wops in *; simpl; lia.
Qed.

Lemma fold_max_ge (l : list nat) k x : In x l -> x <= fold_right Nat.max k l.
Proof. induction l as [|y r IH]; simpl; [contradiction|]. intros [E|I]; [subst; lia|specialize (IH I); lia]. Qed.

Lemma fold_max_base (l : list nat) k : k <= fold_right Nat.max k l.
Proof. induction l as [|y r IH]; simpl; lia. Qed.

Lemma Cof_wsmall c l : (forall x, In x l -> In x (c_static c ++ c_dyn c)) -> wsmall (Cof c) l.
Proof.
  intros SUB b d io I. unfold Cof. pose proof (wops_frame_ops d io).
  assert (wbound d <= fold_right Nat.max 9 (map (fun bd => wbound (snd bd)) (c_static c ++ c_dyn c))).
  { apply fold_max_ge. apply in_map_iff. exists (b, d). split; auto. }
  lia.
Qed.

(* for EVERY configuration and every depth limit: with the step budget enough_fuel the model never gets stuck, i.e.
   every get_module call returns - get_module cannot loop, also not on cyclic attachments *)
Theorem initialised_terminates limit fuel c : enough_fuel limit c <= fuel -> stuck (initialised limit fuel c) = false.
Proof.
  intros F. unfold initialised, init_phase, init_rest, init_all, create_all.
  set (C := Cof c) in *. set (U := Uof c) in *.
  assert (W1 : wsmall C (c_static c)) by (apply Cof_wsmall; intros x X; apply in_or_app; left; exact X).
  assert (W2 : wsmall C (c_dyn c)) by (apply Cof_wsmall; intros x X; apply in_or_app; right; exact X).
  assert (T0 : TI C (2 * length (c_static c)) (node0 (c_static c))).
  { split; [|split; [reflexivity|]].
    - split; [intros k i H; discriminate|split; [exact W1|]]. unfold C, Cof.
      pose proof (wops_frame_ops io_decl None). unfold wbound in H. simpl in H.
      pose proof (fold_max_base (map (fun bd => wbound (snd bd)) (c_static c ++ c_dyn c)) 9). lia.
    - unfold nU. simpl. pose proof (filter_len_le (notkey []) (c_static c)). lia. }
  assert (LE : 2 * length (c_static c) + 2 * S (length (c_static c) + length (c_dyn c)) <= U) by (unfold U, Uof; lia).
  destruct (create_loop_terminates C limit fuel (c_dyn c) U W2 (S (length (c_static c) + length (c_dyn c)))
              (c_static c) (node0 (c_static c)) (2 * length (c_static c)) W1 T0 LE F eq_refl) as [S1 T1].
  match goal with |- stuck (fold_left _ _ ?s) = false => set (st1 := s) end.
  destruct (init_loop_terminates C U limit fuel F (S (length (export (create_loop limit fuel (S (length (c_static c) + length (c_dyn c))) (c_dyn c) (c_static c) (node0 (c_static c)))) + 2 * length (avail (create_loop limit fuel (S (length (c_static c) + length (c_dyn c))) (c_dyn c) (c_static c) (node0 (c_static c)))))) 0 _ T1 S1) as [S2 T2].
  fold st1 in S2, T2.
  destruct (fold_terminates C U limit fuel F (map fst (modules st1)) st1 T2 S2) as [S3 _]. exact S3.
Qed.
