(* C15 — lemmas, part 4: well-formedness of every reachable node (module names are distinct, every cached attachment
   points to a module of the node) and the theorems about the shutdown order of _getSortedModules on such a node. *)
From Coq Require Import List Arith Bool Lia Permutation.
Import ListNotations.
Require Import FV.C15.Model FV.C15.Lemmas FV.C15.LemmasInit FV.C15.LemmasSort.

(* ---------------------------------------------------------------- association lists *)
Lemma keys_upd {A} k (f : A -> A) : forall l, map fst (upd k f l) = map fst l.
Proof.
  induction l as [|[k0 v] r IH]; simpl; auto. destruct (Nat.eqb k k0); simpl; [reflexivity|rewrite IH; reflexivity].
Qed.

Lemma keys_set_assoc {A} k (v : A) : forall l,
  map fst (set_assoc k v l) = if has_key k l then map fst l else map fst l ++ [k].
Proof.
  unfold has_key. induction l as [|[k0 v0] r IH]; simpl; auto.
  destruct (Nat.eqb k k0) eqn:E; simpl.
  - apply Nat.eqb_eq in E. subst. reflexivity.
  - rewrite IH. destruct (find k r); reflexivity.
Qed.

Lemma has_key_false_notin {A} k : forall (l : list (nat * A)), has_key k l = false -> ~ In k (map fst l).
Proof.
  unfold has_key. induction l as [|[k0 v0] r IH]; simpl; [auto|].
  destruct (Nat.eqb k k0) eqn:E; [discriminate|]. intros H [X|X]; [subst; rewrite Nat.eqb_refl in E; discriminate|].
  exact (IH H X).
Qed.

Lemma In_has_key {A} k : forall (l : list (nat * A)), In k (map fst l) -> has_key k l = true.
Proof.
  intros l I. destruct (has_key k l) eqn:H; auto. exfalso. exact (has_key_false_notin k l H I).
Qed.

Lemma nodup_snoc {A} (x : A) : forall l, NoDup l -> ~ In x l -> NoDup (l ++ [x]).
Proof.
  induction l as [|y r IH]; simpl; intros N I; [constructor; auto; constructor|].
  inversion N; subst. constructor.
  - rewrite in_app_iff. intros [H|[H|[]]]; [contradiction|]. subst. apply I. left; reflexivity.
  - apply IH; auto.
Qed.

Lemma nodup_set_assoc {A} k (v : A) l : NoDup (map fst l) -> NoDup (map fst (set_assoc k v l)).
Proof.
  intros N. rewrite keys_set_assoc. destruct (has_key k l) eqn:H; auto.
  apply nodup_snoc; auto. apply has_key_false_notin. exact H.
Qed.

Lemma find_set_assoc {A} k k' (v : A) : forall l,
  find k' (set_assoc k v l) = if Nat.eqb k' k then Some v else find k' l.
Proof.
  induction l as [|[k0 v0] r IH]; simpl.
  - destruct (Nat.eqb k' k); reflexivity.
  - destruct (Nat.eqb k k0) eqn:E; simpl.
    + apply Nat.eqb_eq in E. subst. destruct (Nat.eqb k' k0); reflexivity.
    + rewrite IH. destruct (Nat.eqb k' k0) eqn:E2; auto.
      apply Nat.eqb_eq in E2. subst. rewrite Nat.eqb_sym in E. rewrite E. reflexivity.
Qed.

Lemma In_set_assoc {A} k (v : A) x : forall l, In x (set_assoc k v l) -> x = (k, v) \/ In x l.
Proof.
  induction l as [|[k0 v0] r IH]; simpl.
  - intros [H|[]]; auto.
  - destruct (Nat.eqb k k0); simpl; intros [H|H]; auto. destruct (IH H); auto.
Qed.

(* ---------------------------------------------------------------- the invariant *)
Definition att_ok (mods : list (name * inst)) : Prop :=
  forall u iu i b, find u mods = Some iu -> In (i, b) (i_attached iu) -> has_key b mods = true.
Definition ret_ok (mods : list (name * inst)) (stk : list frame) : Prop :=
  forall fr idx a b, In fr stk -> In (ORet idx a b) (f_ops fr) -> has_key b mods = true.

Record Wf (st : node) : Prop := {
  wf_nodup : NoDup (map fst (modules st));
  wf_att : att_ok (modules st);
  wf_ret : ret_ok (modules st) (stack st);
}.

Lemma Wf_same st st' : Wf st -> modules st' = modules st -> stack st' = stack st -> Wf st'.
Proof. intros [A B C] M S. constructor; rewrite ?M, ?S; auto. Qed.

(* an update of one instance that keeps its cached attachments (or adds one that points to a module) *)
Lemma att_ok_upd mods k f :
  att_ok mods ->
  (forall i x b, In (x, b) (i_attached (f i)) -> In (x, b) (i_attached i) \/ has_key b mods = true) ->
  att_ok (upd k f mods).
Proof.
  intros A F u iu i b Fu I. rewrite has_key_upd. rewrite find_upd in Fu.
  destruct (Nat.eqb u k).
  - destruct (find u mods) as [i0|] eqn:E; simpl in Fu; [|discriminate]. inversion Fu; subst.
    destruct (F _ _ _ I) as [H|H]; auto. eapply A; eauto.
  - eapply A; eauto.
Qed.

Lemma Wf_upd st st' k f :
  modules st' = upd k f (modules st) -> stack st' = stack st ->
  (forall i x b, In (x, b) (i_attached (f i)) -> In (x, b) (i_attached i) \/ has_key b (modules st) = true) ->
  Wf st -> Wf st'.
Proof.
  intros M S F [A B C]. constructor; rewrite ?M, ?S.
  - rewrite keys_upd. exact A.
  - apply att_ok_upd; auto.
  - intros fr idx a b I O. rewrite has_key_upd. eapply C; eauto.
Qed.

Lemma Wf_add_module n d io st : Wf st -> Wf (add_module n (new_inst d io) st).
Proof.
  intros [A B C].
  assert (M : modules (add_module n (new_inst d io) st) = set_assoc n (new_inst d io) (modules st)).
  { unfold add_module. destruct (d_export _); reflexivity. }
  assert (S : stack (add_module n (new_inst d io) st) = stack st).
  { unfold add_module. destruct (d_export _); reflexivity. }
  constructor; rewrite ?M, ?S.
  - apply nodup_set_assoc. exact A.
  - intros u iu i b Fu I. apply has_key_set_assoc. rewrite find_set_assoc in Fu.
    destruct (Nat.eqb u n).
    + inversion Fu; subst. simpl in I. contradiction.
    + eapply B; eauto.
  - intros fr idx a b I O. apply has_key_set_assoc. eapply C; eauto.
Qed.

Lemma Wf_create st b d : Wf st -> Wf (fst (create st b d)).
Proof.
  intros W. unfold create. destruct (negb (creatable d)); simpl; [apply (Wf_same st _ W); reflexivity|].
  destruct (d_kind d) as [|[|u|m]|]; simpl; try (apply Wf_add_module; exact W).
  destruct (find u (iodict st)); simpl; [apply Wf_add_module; exact W|].
  apply Wf_add_module. apply (Wf_same _ _ (Wf_add_module (io_name b) io_decl None st W)); reflexivity.
Qed.

Lemma Wf_get_instance st b : Wf st -> Wf (fst (get_instance st b)).
Proof.
  intros W. unfold get_instance. destruct (has_key b (modules st)); auto.
  destruct (find b (avail st)); auto. apply Wf_create. exact W.
Qed.

Lemma create_ok_key st b d : snd (create st b d) = IOk -> has_key b (modules (fst (create st b d))) = true.
Proof.
  unfold create. destruct (negb (creatable d)); simpl; [discriminate|]. intros _.
  assert (H : forall n i s, has_key n (modules (add_module n i s)) = true).
  { intros n i s. unfold add_module, has_key. destruct (d_export _); simpl; rewrite find_set_assoc, Nat.eqb_refl; reflexivity. }
  destruct (d_kind d) as [|[|u|m]|]; simpl; try apply H. destruct (find u (iodict st)); simpl; apply H.
Qed.

Lemma get_instance_ok_key st b : snd (get_instance st b) = IOk -> has_key b (modules (fst (get_instance st b))) = true.
Proof.
  unfold get_instance. destruct (has_key b (modules st)) eqn:K; simpl; auto.
  destruct (find b (avail st)); simpl; [apply create_ok_key|discriminate].
Qed.

Lemma ret_ok_tail mods u o ops rest :
  ret_ok mods ({| f_mod := u; f_ops := o :: ops |} :: rest) -> ret_ok mods ({| f_mod := u; f_ops := ops |} :: rest).
Proof.
  intros C fr idx a b [E|I] O; [subst fr; simpl in O|]; eapply C; try (right; exact I); try (left; reflexivity); eauto.
  simpl. right. exact O.
Qed.

Lemma ret_ok_rest mods fr rest : ret_ok mods (fr :: rest) -> ret_ok mods rest.
Proof. intros C f idx a b I O. eapply C; eauto. right; exact I. Qed.

Lemma frame_ops_no_ret d io idx a b : ~ In (ORet idx a b) (frame_ops d io).
Proof.
  unfold frame_ops, accesses. rewrite !in_app_iff. simpl.
  assert (H : forall l, ~ In (ORet idx a b) (map (fun ia : nat * att => OAccess (fst ia) (snd ia)) l)).
  { intros l I. apply in_map_iff in I. destruct I as [x [X _]]. discriminate. }
  destruct (d_fail_early d), (is_hasio d), (d_fail_init d), (negb (is_some io)); simpl;
    intros Q; repeat (destruct Q as [Q|Q]; try discriminate; try (apply H in Q; exact Q); try contradiction).
Qed.

Lemma Wf_step limit st : Wf st -> Wf (step limit st).
Proof.
  intros W. unfold step. destruct (stack st) as [|fr rest] eqn:Hs; [exact W|].
  pose proof W as [A B C]. rewrite Hs in C.
  assert (POP : forall st0, modules st0 = modules st -> Wf st0 ->
            Wf (set_stack (mark_init (f_mod fr) st0) rest) /\ True).
  { intros st0 M W0. split; auto. destruct W0 as [A0 B0 C0]. constructor; simpl.
    - rewrite keys_upd. exact A0.
    - apply att_ok_upd; auto.
    - intros f idx a b I O. rewrite has_key_upd, M. eapply C; eauto. right; exact I. }
  assert (RAISE : forall st0, modules st0 = modules st -> Wf st0 -> Wf (raise_top st0 (f_mod fr) rest)).
  { intros st0 M W0. unfold raise_top. apply (POP (add_error (ErrInit (f_mod fr)) st0)); auto.
    apply (Wf_same st0 _ W0); reflexivity. }
  destruct (f_ops fr) as [|o ops] eqn:Ho.
  - apply (POP st); auto.
  - assert (FR : fr = {| f_mod := f_mod fr; f_ops := o :: ops |}) by (destruct fr; simpl in *; subst; reflexivity).
    assert (CT : ret_ok (modules st) ({| f_mod := f_mod fr; f_ops := ops |} :: rest)).
    { apply (ret_ok_tail _ _ o). rewrite <- FR. exact C. }
    assert (CONT : forall st0, modules st0 = modules st -> Wf st0 ->
              Wf (set_stack st0 ({| f_mod := f_mod fr; f_ops := ops |} :: rest))).
    { intros st0 M [A0 B0 C0]. constructor; simpl; auto. rewrite M. exact CT. }
    destruct o.
    + apply CONT; auto. apply (Wf_same st _ W); reflexivity.
    + apply CONT; auto. apply (Wf_same st _ W); reflexivity.
    + (* OAccess *)
      destruct (find idx (attached_of st (f_mod fr))); [apply CONT; auto; apply (Wf_same st _ W); reflexivity|].
      destruct (a_target a) as [b|]; [|apply CONT; auto; apply (Wf_same st _ W); reflexivity].
      pose proof (Wf_get_instance st b W) as W1. pose proof (get_instance_keys st b) as KM.
      pose proof (get_instance_ok_key st b) as OK. pose proof (get_instance_stack st b) as GS.
      destruct (get_instance st b) as [st1 r]; simpl in *.
      assert (REST1 : ret_ok (modules st1) rest).
      { intros f i0 a0 b0 I O. apply KM. eapply C; eauto. right; exact I. }
      assert (RAISE1 : forall st0, modules st0 = modules st1 -> Wf (raise_top st0 (f_mod fr) rest)).
      { intros st0 M. destruct W1 as [A1 B1 C1]. unfold raise_top. constructor; simpl; rewrite ?M.
        - rewrite keys_upd. exact A1.
        - apply att_ok_upd; auto.
        - intros f i0 a0 b0 I O. rewrite has_key_upd. eapply REST1; eauto. }
      destruct r; try (apply RAISE1; reflexivity).
      specialize (OK eq_refl).
      assert (W2 : Wf (set_stack st1 ({| f_mod := f_mod fr; f_ops := ORet idx a b :: ops |} :: rest))).
      { destruct W1 as [A1 B1 C1]. constructor; simpl; auto.
        intros f i0 a0 b0 [E|I] O.
        - subst f. simpl in O. destruct O as [O|O]; [inversion O; subst; exact OK|].
          apply KM. eapply CT; [left; reflexivity|exact O].
        - eapply REST1; eauto. }
      destruct (isinit _ b); [exact W2|].
      destruct (Nat.leb _ _); [apply RAISE1; reflexivity|].
      destruct W2 as [A2 B2 C2]. unfold push. constructor; simpl; auto.
      intros f i0 a0 b0 [E|I] O; [subst f; simpl in O; exfalso; exact (frame_ops_no_ret _ _ _ _ _ O)|].
      eapply C2; eauto.
    + (* ORet *)
      destruct (want_ok _ _); [|apply RAISE; auto].
      assert (KB : has_key b (modules st) = true).
      { eapply C; [left; reflexivity|]. rewrite Ho. left; reflexivity. }
      constructor; simpl.
      * rewrite keys_upd. exact A.
      * apply att_ok_upd; auto. intros i x b0 I. simpl in I. apply In_set_assoc in I. destruct I as [E|I]; auto.
        inversion E; subst. right. exact KB.
      * intros f i0 a0 b0 I O. rewrite has_key_upd. eapply CT; eauto.
    + apply RAISE; auto.
    + (* ORegister *)
      unfold register. destruct (_ || _); [|apply CONT; auto].
      constructor; simpl.
      * rewrite keys_upd. exact A.
      * apply att_ok_upd; auto.
      * intros f i0 a0 b0 I O. rewrite has_key_upd. eapply CT; eauto.
Qed.

Lemma Wf_run_gm limit fuel : forall st, Wf st -> Wf (run_gm limit fuel st).
Proof.
  induction fuel; intros st W; simpl; destruct (stack st) eqn:S; auto.
  - apply (Wf_same st _ W); reflexivity.
  - apply IHfuel. apply Wf_step. exact W.
Qed.

Lemma Wf_push b st : Wf st -> Wf (push b st).
Proof.
  intros [A B C]. unfold push. constructor; simpl; auto.
  intros f i0 a0 b0 [E|I] O; [subst f; simpl in O; exfalso; exact (frame_ops_no_ret _ _ _ _ _ O)|]. eapply C; eauto.
Qed.

Lemma Wf_gm_top limit fuel st b : Wf st -> Wf (gm_top limit fuel st b).
Proof.
  intros W. unfold gm_top. pose proof (Wf_get_instance st b W) as W1.
  destruct (get_instance st b) as [st1 r]; simpl in *. destruct r; auto.
  destruct (isinit st1 b); auto. apply Wf_run_gm. apply Wf_push. exact W1.
Qed.

Lemma Wf_create_loop limit fuel dyn : forall n todos st, Wf st -> Wf (create_loop limit fuel n dyn todos st).
Proof.
  induction n; intros todos st W; simpl; auto. destruct todos as [|[b d] rest]; auto.
  destruct (has_key b (modules st)); auto.
  assert (W0 : Wf (set_avail st (set_assoc b d (avail st)))) by (apply (Wf_same st _ W); reflexivity).
  pose proof (Wf_get_instance _ b W0) as W1. destruct (get_instance _ b) as [st1 r]; simpl in *.
  destruct r; auto. destruct (d_kind d); auto. apply IHn. apply Wf_gm_top. exact W1.
Qed.

Lemma Wf_init_loop limit fuel : forall n i st, Wf st -> Wf (init_loop limit fuel n i st).
Proof.
  induction n; intros i st W; simpl; auto. destruct (nth_error (export st) i); auto.
  apply IHn. apply Wf_gm_top. exact W.
Qed.

Lemma Wf_fold limit fuel : forall names st, Wf st -> Wf (fold_left (fun acc b => gm_top limit fuel acc b) names st).
Proof. induction names; intros st W; simpl; auto. apply IHnames. apply Wf_gm_top. exact W. Qed.

Lemma Wf_initialised limit fuel c : Wf (initialised limit fuel c).
Proof.
  unfold initialised, init_phase, init_rest, init_all, create_all.
  apply Wf_fold. apply Wf_init_loop. apply Wf_create_loop.
  constructor; simpl; [constructor|intros u iu i b F; discriminate|intros fr idx a b []].
Qed.

(* the start phase does not touch the modules *)
Lemma pc_after_modules st rest : modules (fst (pc_after st rest)) = modules st.
Proof. unfold pc_after, finish_start. destruct rest; simpl; auto. destruct (errors st); reflexivity. Qed.

Lemma cstep_modules s it : modules (s_node (cstep s it)) = modules (s_node s).
Proof.
  destruct it; simpl.
  - destruct (s_pc s) as [[|m rest]| | |]; simpl; auto.
    + pose proof (pc_after_modules (emit (EStart m) (s_node s)) rest) as H.
      destruct (pc_after _ rest); simpl in *. exact H.
    + destruct (all_done _); reflexivity.
  - destruct (s_pc s); simpl; auto.
    + pose proof (threads_step_frame t (s_threads s) (s_node s)) as [_ [H _]]. destruct (threads_step _ t _); exact H.
    + pose proof (threads_step_frame t (s_threads s) (s_node s)) as [_ [H _]]. destruct (threads_step _ t _); exact H.
  - destruct (s_pc s); simpl; auto. destruct (all_done _); reflexivity.
Qed.

Lemma run_sched_modules sched : forall s, modules (s_node (run_sched s sched)) = modules (s_node s).
Proof.
  unfold run_sched. induction sched as [|it r IH]; intros s; simpl; auto. rewrite IH. apply cstep_modules.
Qed.

Lemma sys0_modules st : modules (s_node (sys0 st)) = modules st.
Proof.
  unfold sys0. pose proof (pc_after_modules st (map fst (modules st))) as H.
  destruct (pc_after st _); simpl in *. exact H.
Qed.

Lemma started_modules limit fuel c sched :
  modules (s_node (started limit fuel c sched)) = modules (initialised limit fuel c).
Proof. unfold started. rewrite run_sched_modules. apply sys0_modules. Qed.

(* ---------------------------------------------------------------- _getSortedModules on a well-formed node *)
Definition att_graph (st : node) (n : name) : list name := map snd (attached_of st n).
Definition mod_names (st : node) : list name := map fst (modules st).

Lemma att_graph_closed st : att_ok (modules st) ->
  forall u b, In u (mod_names st) -> In b (att_graph st u) -> In b (mod_names st).
Proof.
  intros A u b _ I. unfold att_graph, attached_of in I. destruct (find u (modules st)) as [iu|] eqn:F; [|contradiction].
  apply in_map_iff in I. destruct I as [[i b'] [E I]]. simpl in E. subst b'.
  apply has_key_In. eapply A; eauto.
Qed.

Lemma sorted_modules_eq st order :
  sorted_modules st order =
  sort_loop (S (length (mod_names st))) (S (length (mod_names st))) (att_graph st) order
            {| g_done := []; g_visited := []; g_unmarked := mod_names st; g_l := [] |}.
Proof. reflexivity. Qed.

(* every graph of cached attachments, every pop order: a permutation of the modules *)
Theorem sorted_modules_perm st order : NoDup (mod_names st) -> att_ok (modules st) ->
  Permutation (sorted_modules st order) (mod_names st).
Proof.
  intros N A. rewrite sorted_modules_eq.
  apply (sort_loop_perm (mod_names st) (att_graph st) N (att_graph_closed st A)).
  - split; simpl; auto.
  - reflexivity.
Qed.

Definition before (l : list name) (u b : name) : Prop := exists l1 l2, l = l1 ++ u :: l2 /\ In b l2.

(* every acyclic graph of cached attachments, every pop order that enumerates the modules: users first *)
Theorem sorted_modules_users_first st order (rank : name -> nat) : NoDup (mod_names st) -> att_ok (modules st) ->
  (forall x, In x (mod_names st) -> In x order) ->
  (forall u b, In u (mod_names st) -> In b (att_graph st u) -> rank b < rank u) ->
  forall u b, In u (mod_names st) -> In b (att_graph st u) -> before (sorted_modules st order) u b.
Proof.
  intros N A COV R u b U B.
  pose proof (sorted_modules_perm st order N A) as P.
  assert (O : Ord (att_graph st) (sorted_modules st order)).
  { rewrite sorted_modules_eq.
    apply (sort_loop_topo (mod_names st) (att_graph st) N (att_graph_closed st A) rank R _ order COV); simpl; auto.
    - split; simpl; auto.
    - intros l1 x l2 E. destruct l1; discriminate. }
  assert (I : In u (sorted_modules st order)) by (apply (Permutation_in _ (Permutation_sym P)); exact U).
  apply in_split in I. destruct I as [l1 [l2 E]]. exists l1, l2. split; [exact E|]. eapply O; eauto.
Qed.

(* the node at any point of the start phase (every configuration, every schedule) *)
Lemma started_wf limit fuel c sched :
  let st := s_node (started limit fuel c sched) in NoDup (mod_names st) /\ att_ok (modules st).
Proof.
  simpl. unfold mod_names. rewrite started_modules. destruct (Wf_initialised limit fuel c) as [A B _]. auto.
Qed.

Theorem shutdown_order_permutation limit fuel c sched order :
  let st := s_node (started limit fuel c sched) in
  Permutation (sorted_modules st order) (map fst (modules st)) /\ NoDup (sorted_modules st order).
Proof.
  intros st. destruct (started_wf limit fuel c sched) as [N A]. fold st in N, A.
  pose proof (sorted_modules_perm st order N A) as P. split; [exact P|].
  eapply Permutation_NoDup; [apply Permutation_sym; exact P|exact N].
Qed.

Theorem shutdown_order_users_first limit fuel c sched order (rank : name -> nat) :
  let st := s_node (started limit fuel c sched) in
  (forall x, In x (map fst (modules st)) -> In x order) ->
  (forall u i b, In (i, b) (attached_of st u) -> rank b < rank u) ->
  forall u i b, In (i, b) (attached_of st u) ->
    exists l1 l2, sorted_modules st order = l1 ++ u :: l2 /\ In b l2.
Proof.
  intros st COV R u i b I. destruct (started_wf limit fuel c sched) as [N A]. fold st in N, A.
  assert (U : In u (mod_names st)).
  { unfold attached_of in I. destruct (find u (modules st)) eqn:F; [|contradiction].
    apply has_key_In. unfold has_key. rewrite F. reflexivity. }
  assert (R' : forall x y, In x (mod_names st) -> In y (att_graph st x) -> rank y < rank x).
  { intros x y _ Y. unfold att_graph in Y. apply in_map_iff in Y. destruct Y as [[j y'] [E Y]]. simpl in E. subst y'.
    eapply R; eauto. }
  apply (sorted_modules_users_first st order rank N A COV R' u b U).
  unfold att_graph. apply in_map_iff. exists (i, b). auto.
Qed.
