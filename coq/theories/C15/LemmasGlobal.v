(* C15 — lemmas, part 5: global statements about EVERY configuration (cyclic ones included), proved with an
   invariant of the get_module / Attached.__get__ machine that holds as long as no error has been recorded:
     - every frame of the stack belongs to a module that is not yet marked, the targets of the accesses it has
       already executed are marked (so: no module is entered twice, nothing is re-initialised),
     - the modules that are marked can be listed in the order in which they were completed, and everything a module
       refers to (attachments, io) stands earlier in that list: the graph followed by get_module is acyclic,
     - every module of the node is marked, or is on its way (on the stack, target of a module on the stack, or in
       the list of names that the initialisation loop has not yet reached).
   Consequences: a cycle reachable by get_module always ends in a recorded error (contrapositive: no error implies
   a rank function), and at the ready point every module of the node is marked as initialised.
   Names: configured names are below 100 (the names 100+b are those of automatically created communicators) and a
   module has at most 99 attachments (index 99 is the io attribute) - the hypothesis cfg_small. *)
From Coq Require Import List Arith Bool Lia.
Import ListNotations.
Require Import FV.C15.Model FV.C15.Lemmas FV.C15.LemmasInit FV.C15.LemmasSort FV.C15.LemmasWf.

(* ---------------------------------------------------------------- views of the module table *)
Definition cached_m (mods : list (name * inst)) (u idx : nat) : option name :=
  match find u mods with Some i => find idx (i_attached i) | None => None end.

Lemma cached_eq st u idx : find idx (attached_of st u) = cached_m (modules st) u idx.
Proof. unfold attached_of, cached_m. destruct (find u (modules st)); reflexivity. Qed.

Definition cached_in (mods : list (name * inst)) (u idx : nat) (b : name) : Prop :=
  match find u mods with Some i => In (idx, b) (i_attached i) | None => False end.

Lemma isinit_m_key mods b : isinit_m mods b = true -> has_key b mods = true.
Proof. unfold isinit_m, has_key. destruct (find b mods); auto. Qed.

Lemma find_In {A} k (v : A) : forall l, find k l = Some v -> In (k, v) l.
Proof.
  induction l as [|[k0 v0] r IH]; simpl; [discriminate|]. destruct (Nat.eqb k k0) eqn:E.
  - apply Nat.eqb_eq in E. subst. intros H. inversion H. left; reflexivity.
  - intros H. right. auto.
Qed.

(* the new table keeps every instance of the old one; what is new is not initialised and has no cached attachment *)
Definition extends (m m' : list (name * inst)) : Prop :=
  (forall k, has_key k m = true -> find k m' = find k m) /\
  (forall k i, has_key k m = false -> find k m' = Some i -> i_isinit i = false /\ i_attached i = []).

Lemma extends_refl m : extends m m.
Proof.
  split; auto. intros k i H F. unfold has_key in H. rewrite F in H. discriminate.
Qed.

Lemma extends_key m m' k : extends m m' -> has_key k m = true -> has_key k m' = true.
Proof. intros [E _] H. unfold has_key in *. rewrite (E k H). exact H. Qed.

Lemma extends_trans a b c : extends a b -> extends b c -> extends a c.
Proof.
  intros E1 E2. split.
  - intros k H. destruct E1 as [A1 _]. destruct E2 as [A2 _]. rewrite A2, A1; auto.
    unfold has_key in *. rewrite A1; auto.
  - intros k i H F. destruct (has_key k b) eqn:HB.
    + destruct E2 as [A2 _]. rewrite (A2 k HB) in F. destruct E1 as [_ B1]. eapply B1; eauto.
    + destruct E2 as [_ B2]. eapply B2; eauto.
Qed.

Lemma extends_isinit m m' k : extends m m' -> has_key k m = true -> isinit_m m' k = isinit_m m k.
Proof. intros [E _] H. unfold isinit_m. rewrite (E k H). reflexivity. Qed.
Lemma extends_ops m m' k : extends m m' -> has_key k m = true -> ops_m m' k = ops_m m k.
Proof. intros [E _] H. unfold ops_m. rewrite (E k H). reflexivity. Qed.
Lemma extends_cached m m' k idx b : extends m m' -> has_key k m = true -> cached_in m' k idx b = cached_in m k idx b.
Proof. intros [E _] H. unfold cached_in. rewrite (E k H). reflexivity. Qed.
Lemma extends_new_isinit m m' k : extends m m' -> has_key k m = false -> isinit_m m' k = false.
Proof.
  intros [_ E] H. unfold isinit_m. destruct (find k m') as [i|] eqn:F; auto. destruct (E k i H F) as [A _]. exact A.
Qed.
Lemma extends_new_cached m m' k idx b : extends m m' -> has_key k m = false -> cached_in m' k idx b -> False.
Proof.
  intros [_ E] H. unfold cached_in. destruct (find k m') as [i|] eqn:F; auto. destruct (E k i H F) as [_ A].
  rewrite A. simpl. auto.
Qed.
Lemma extends_isinit_true m m' k : extends m m' -> isinit_m m k = true -> isinit_m m' k = true.
Proof. intros E H. rewrite (extends_isinit m m' k E); auto. apply isinit_m_key. exact H. Qed.
Lemma extends_isinit_back m m' k : extends m m' -> isinit_m m' k = true -> isinit_m m k = true.
Proof.
  intros E H. destruct (has_key k m) eqn:K.
  - rewrite <- (extends_isinit m m' k E K). exact H.
  - rewrite (extends_new_isinit m m' k E K) in H. discriminate.
Qed.

Lemma extends_set_assoc m n d io : has_key n m = false -> extends m (set_assoc n (new_inst d io) m).
Proof.
  intros H. split.
  - intros k K. rewrite find_set_assoc. destruct (Nat.eqb k n) eqn:E; auto.
    apply Nat.eqb_eq in E. subst. rewrite K in H. discriminate.
  - intros k i K F. rewrite find_set_assoc in F. destruct (Nat.eqb k n).
    + inversion F; subst. simpl. auto.
    + unfold has_key in K. rewrite F in K. discriminate.
Qed.

(* ---------------------------------------------------------------- small names, small modules *)
Definition small_decl (d : decl) : Prop := length (d_atts d) <= 99.
Definition small_av (av : list (name * decl)) : Prop := forall b d, In (b, d) av -> b < 100 /\ small_decl d.
Definition small_m (mods : list (name * inst)) : Prop :=
  (forall k, has_key k mods = true -> k < 100 \/ exists b, k = io_name b /\ has_key b mods = true) /\
  (forall k i, find k mods = Some i -> small_decl (i_decl i)).

Lemma small_io_fresh mods b : small_m mods -> b < 100 -> has_key b mods = false -> has_key (io_name b) mods = false.
Proof.
  intros [S _] L H. destruct (has_key (io_name b) mods) eqn:K; auto.
  destruct (S _ K) as [X|[b' [E K']]]; unfold io_name in *; [lia|].
  assert (b = b') by lia. subst. rewrite K' in H. discriminate.
Qed.

Lemma small_m_upd mods k f : keeps f -> small_m mods -> small_m (upd k f mods).
Proof.
  intros KF [A B]. split.
  - intros x H. rewrite has_key_upd in H. destruct (A x H) as [L|[b [E K]]]; auto. right. exists b.
    rewrite has_key_upd. auto.
  - intros x i F. rewrite find_upd in F. destruct (Nat.eqb x k); [|eauto].
    destruct (find x mods) as [i0|] eqn:E; simpl in F; [|discriminate]. inversion F; subst.
    destruct (KF i0) as [D _]. rewrite D. eauto.
Qed.

Lemma has_key_set_assoc_iff {A} k k' (v : A) l :
  has_key k' (set_assoc k v l) = (Nat.eqb k' k || has_key k' l).
Proof. unfold has_key. rewrite find_set_assoc. destruct (Nat.eqb k' k); reflexivity. Qed.

Lemma modules_add_module n i st : modules (add_module n i st) = set_assoc n i (modules st).
Proof. unfold add_module. destruct (d_export _); reflexivity. Qed.
Lemma avail_add_module n i st : avail (add_module n i st) = avail st.
Proof. unfold add_module. destruct (d_export _); reflexivity. Qed.
Lemma errors_add_module' n i st : errors (add_module n i st) = errors st.
Proof. unfold add_module. destruct (d_export _); reflexivity. Qed.

(* ---------------------------------------------------------------- targets of operations *)
Definition tgt (o : op) : list name :=
  match o with OAccess _ a => match a_target a with Some t => [t] | None => [] end | _ => [] end.
Definition targets_of (ops : list op) : list name := flat_map tgt ops.
Definition orig (ops : list op) : list op :=
  match ops with ORet idx a b :: r => OAccess idx a :: r | _ => ops end.
Definition no_ret (ops : list op) : Prop := forall idx a b, ~ In (ORet idx a b) ops.

Lemma targets_app a b : targets_of (a ++ b) = targets_of a ++ targets_of b.
Proof. apply flat_map_app. Qed.

Lemma frame_ops_no_ret' d io : no_ret (frame_ops d io).
Proof. intros idx a b. apply frame_ops_no_ret. Qed.

Lemma no_ret_orig ops : no_ret ops -> orig ops = ops.
Proof. intros N. destruct ops as [|[] r]; auto. exfalso. eapply N. left; reflexivity. Qed.

Lemma no_ret_app_r a b : no_ret (a ++ b) -> no_ret b.
Proof. intros N idx x y I. eapply N. apply in_or_app. right; exact I. Qed.

Lemma no_ret_cons o r : no_ret (o :: r) -> no_ret r.
Proof. intros N idx x y I. eapply N. right; exact I. Qed.

Lemma ops_m_no_ret mods u : no_ret (ops_m mods u).
Proof. unfold ops_m. destruct (find u mods); apply frame_ops_no_ret'. Qed.

(* indices of the accesses of a frame are distinct *)
Lemma combine_seq_nth {A} (l : list A) : forall s i a, In (i, a) (combine (seq s (length l)) l) ->
  s <= i /\ nth_error l (i - s) = Some a.
Proof.
  induction l as [|x r IH]; simpl; intros s i a I; [contradiction|]. destruct I as [E|I].
  - inversion E; subst. rewrite Nat.sub_diag. auto.
  - destruct (IH _ _ _ I) as [L N]. split; [lia|]. replace (i - s) with (S (i - S s)) by lia. exact N.
Qed.

Lemma accesses_nth p d i a : In (OAccess i a) (accesses p d) -> nth_error (d_atts d) i = Some a.
Proof.
  unfold accesses, indexed_atts. intros I. apply in_map_iff in I. destruct I as [[i' a'] [E I]]. simpl in E.
  inversion E; subst. apply filter_In in I. destruct I as [I _].
  destruct (combine_seq_nth _ _ _ _ I) as [_ N]. rewrite Nat.sub_0_r in N. exact N.
Qed.

Lemma frame_ops_access d io i a : In (OAccess i a) (frame_ops d io) ->
  nth_error (d_atts d) i = Some a \/ (i = io_idx /\ a = io_att io /\ is_hasio d = true).
Proof.
  unfold frame_ops. rewrite !in_app_iff. simpl.
  intros [H|[H|[H|[H|[H|[H|[H|[H|H]]]]]]]].
  - destruct H as [H|[]]; discriminate.
  - left. eapply accesses_nth; eauto.
  - destruct (d_fail_early d); simpl in H; [destruct H as [H|[]]; discriminate|contradiction].
  - destruct H as [H|[]]; discriminate.
  - destruct (is_hasio d) eqn:HI; simpl in H; [|contradiction]. destruct H as [H|[]]. inversion H; subst. right. auto.
  - left. eapply accesses_nth; eauto.
  - destruct (d_fail_init d); simpl in H; [destruct H as [H|[]]; discriminate|contradiction].
  - destruct (is_hasio d && negb (is_some io)); simpl in H; [destruct H as [H|[]]; discriminate|contradiction].
  - destruct H as [H|[]]; discriminate.
Qed.

Lemma frame_ops_idx_unique d io i a1 a2 : small_decl d ->
  In (OAccess i a1) (frame_ops d io) -> In (OAccess i a2) (frame_ops d io) -> a1 = a2.
Proof.
  intros S I1 I2. apply frame_ops_access in I1. apply frame_ops_access in I2.
  assert (N : forall a, nth_error (d_atts d) io_idx = Some a -> False).
  { intros a H. assert (Q : nth_error (d_atts d) io_idx <> None) by congruence.
    apply nth_error_Some in Q. unfold small_decl, io_idx in *. lia. }
  destruct I1 as [H1|[E1 [A1 _]]], I2 as [H2|[E2 [A2 _]]]; subst; try congruence; exfalso; eauto.
Qed.

Lemma frame_ops_io_target d n : is_hasio d = true -> In n (targets_of (frame_ops d (Some n))).
Proof.
  intros H. unfold frame_ops. rewrite H. rewrite !targets_app. rewrite !in_app_iff.
  right. right. right. right. left. simpl. left. reflexivity.
Qed.

(* ---------------------------------------------------------------- get_module_instance on small names *)
Lemma small_m_add mods b d io :
  small_m mods -> b < 100 -> small_decl d -> small_m (set_assoc b (new_inst d io) mods).
Proof.
  intros [A B] L S. split.
  - intros k H. rewrite has_key_set_assoc_iff in H. destruct (Nat.eqb k b) eqn:E.
    + apply Nat.eqb_eq in E. subst. left; exact L.
    + simpl in H. destruct (A k H) as [X|[b' [E' K]]]; auto. right. exists b'. split; auto.
      rewrite has_key_set_assoc_iff, K. apply orb_true_r.
  - intros k i F. rewrite find_set_assoc in F. destruct (Nat.eqb k b); [inversion F; subst; exact S|eauto].
Qed.

Lemma find_new b d io mods : find b (set_assoc b (new_inst d io) mods) = Some (new_inst d io).
Proof. rewrite find_set_assoc, Nat.eqb_refl. reflexivity. Qed.

Definition create_ok (st st' : node) (b : name) : Prop :=
  extends (modules st) (modules st') /\ has_key b (modules st') = true /\ small_m (modules st') /\
  isinit_m (modules st') b = false /\
  (forall k, has_key k (modules st') = true ->
     has_key k (modules st) = true \/ k = b \/ In k (targets_of (ops_m (modules st') b))) /\
  errors st' = errors st.

Lemma create_spec st b d :
  small_m (modules st) -> b < 100 -> small_decl d -> has_key b (modules st) = false ->
  match snd (create st b d) with
  | IOk => create_ok st (fst (create st b d)) b
  | _ => modules (fst (create st b d)) = modules st /\ errors (fst (create st b d)) <> []
  end /\ avail (fst (create st b d)) = avail st /\ stack (fst (create st b d)) = stack st.
Proof.
  intros SM L SD K. unfold create. destruct (negb (creatable d)); simpl.
  { split; [split; [reflexivity|discriminate]|split; reflexivity]. }
  assert (ONE : forall io, let st' := add_module b (new_inst d io) st in
            create_ok st st' b /\ avail st' = avail st /\ stack st' = stack st).
  { intros io st'. subst st'. unfold create_ok. rewrite modules_add_module, avail_add_module, errors_add_module'.
    split; [|split; [reflexivity|unfold add_module; destruct (d_export _); reflexivity]].
    split; [apply extends_set_assoc; exact K|].
    split; [rewrite has_key_set_assoc_iff, Nat.eqb_refl; reflexivity|].
    split; [apply small_m_add; auto|].
    split; [unfold isinit_m; rewrite find_new; reflexivity|].
    split; [|reflexivity].
    intros k H. rewrite has_key_set_assoc_iff in H. destruct (Nat.eqb k b) eqn:E.
    - apply Nat.eqb_eq in E. auto.
    - simpl in H. auto. }
  destruct (d_kind d) as [|[|u|m]|] eqn:DK; simpl; try apply ONE.
  destruct (find u (iodict st)) as [n|]; simpl; [apply ONE|].
  (* a new communicator io_name b is registered first *)
  set (n := io_name b).
  assert (KN : has_key n (modules st) = false) by (apply small_io_fresh; auto).
  assert (NB : Nat.eqb b n = false) by (apply Nat.eqb_neq; unfold n, io_name; lia).
  assert (NB' : Nat.eqb n b = false) by (rewrite Nat.eqb_sym; exact NB).
  unfold create_ok. rewrite !modules_add_module, !avail_add_module, !errors_add_module'. simpl.
  rewrite ?modules_add_module.
  set (m1 := set_assoc n (new_inst io_decl None) (modules st)).
  assert (K1 : has_key b m1 = false).
  { unfold m1. rewrite has_key_set_assoc_iff, NB, K. reflexivity. }
  assert (HI : is_hasio d = true) by (unfold is_hasio; rewrite DK; reflexivity).
  split; [|split; [reflexivity|unfold add_module; simpl; destruct (d_export d); simpl; destruct (d_export io_decl); reflexivity]].
  split; [eapply extends_trans; [apply extends_set_assoc; exact KN|apply extends_set_assoc; exact K1]|].
  split; [rewrite has_key_set_assoc_iff, Nat.eqb_refl; reflexivity|].
  split.
  { destruct SM as [A B]. split.
    - intros k H. rewrite has_key_set_assoc_iff in H. unfold m1 in H. rewrite has_key_set_assoc_iff in H.
      destruct (Nat.eqb k b) eqn:E1; [apply Nat.eqb_eq in E1; subst; left; exact L|].
      destruct (Nat.eqb k n) eqn:E2.
      + apply Nat.eqb_eq in E2. subst k. right. exists b. split; [reflexivity|].
        rewrite has_key_set_assoc_iff, Nat.eqb_refl. reflexivity.
      + simpl in H. destruct (A k H) as [X|[b' [E' K']]]; auto. right. exists b'. split; auto.
        rewrite has_key_set_assoc_iff. unfold m1. rewrite has_key_set_assoc_iff, K'. rewrite !orb_true_r. reflexivity.
    - intros k i F. rewrite find_set_assoc in F. destruct (Nat.eqb k b); [inversion F; subst; exact SD|].
      unfold m1 in F. rewrite find_set_assoc in F. destruct (Nat.eqb k n); [inversion F; subst; unfold small_decl; simpl; lia|eauto]. }
  split; [unfold isinit_m; rewrite find_new; reflexivity|].
  split; [|reflexivity].
  intros k H. rewrite has_key_set_assoc_iff in H. unfold m1 in H. rewrite has_key_set_assoc_iff in H.
  destruct (Nat.eqb k b) eqn:E1; [apply Nat.eqb_eq in E1; auto|].
  destruct (Nat.eqb k n) eqn:E2; [|simpl in H; auto].
  apply Nat.eqb_eq in E2. subst k. right. right. unfold ops_m. rewrite find_new. simpl.
  apply frame_ops_io_target. exact HI.
Qed.

Lemma get_instance_spec st b :
  small_m (modules st) -> small_av (avail st) ->
  match snd (get_instance st b) with
  | IOk => (has_key b (modules st) = true /\ fst (get_instance st b) = st) \/
           (has_key b (modules st) = false /\ create_ok st (fst (get_instance st b)) b)
  | _ => fst (get_instance st b) = st \/ errors (fst (get_instance st b)) <> []
  end /\ avail (fst (get_instance st b)) = avail st /\ stack (fst (get_instance st b)) = stack st.
Proof.
  intros SM SA. unfold get_instance. destruct (has_key b (modules st)) eqn:K; simpl; [auto|].
  destruct (find b (avail st)) as [d|] eqn:F; simpl; [|auto].
  destruct (SA b d (find_In _ _ _ F)) as [L SD].
  pose proof (create_spec st b d SM L SD K) as [H R]. split; [|exact R].
  destruct (snd (create st b d)); auto; right; apply H.
Qed.

(* ---------------------------------------------------------------- the invariant (while no error is recorded) *)
Definition frame_inv (mods : list (name * inst)) (fr : frame) : Prop :=
  has_key (f_mod fr) mods = true /\ isinit_m mods (f_mod fr) = false /\
  exists pre, ops_m mods (f_mod fr) = pre ++ orig (f_ops fr) /\
              (forall t, In t (targets_of pre) -> isinit_m mods t = true) /\
              (forall idx a b r, f_ops fr = ORet idx a b :: r -> a_target a = Some b).

(* a frame below the top waits for the module of the frame above it *)
Fixpoint chain (stk : list frame) : Prop :=
  match stk with
  | f0 :: r => match r with
               | f1 :: _ => (exists idx a ops, f_ops f1 = ORet idx a (f_mod f0) :: ops) /\ chain r
               | [] => True
               end
  | [] => True
  end.

Definition top_ok (mods : list (name * inst)) (stk : list frame) : Prop :=
  match stk with
  | f0 :: _ => forall idx a b r, f_ops f0 = ORet idx a b :: r -> isinit_m mods b = true
  | [] => True
  end.

Definition cache_ok (mods : list (name * inst)) : Prop :=
  forall u idx b, cached_in mods u idx b ->
    isinit_m mods b = true /\ (forall a, In (OAccess idx a) (ops_m mods u) -> a_target a = Some b) /\
    In b (targets_of (ops_m mods u)).

(* ord: the marked modules, the one completed last first *)
Definition ord_ok (mods : list (name * inst)) (ord : list name) : Prop :=
  NoDup ord /\ (forall m, In m ord <-> isinit_m mods m = true) /\
  (forall l1 m l2, ord = l1 ++ m :: l2 -> forall t, In t (targets_of (ops_m mods m)) -> In t l2).

Record GI (mods : list (name * inst)) (stk : list frame) : Prop := {
  gi_small : small_m mods;
  gi_frames : Forall (frame_inv mods) stk;
  gi_chain : chain stk;
  gi_top : top_ok mods stk;
  gi_cache : cache_ok mods;
  gi_ord : exists ord, ord_ok mods ord;
}.

Definition GInv (st : node) : Prop := GI (modules st) (stack st) /\ small_av (avail st).

Definition agree (m m' : list (name * inst)) : Prop :=
  forall k, has_key k m' = has_key k m /\ isinit_m m' k = isinit_m m k /\ ops_m m' k = ops_m m k.

Lemma agree_refl m : agree m m. Proof. intros k; auto. Qed.

Lemma frame_inv_agree m m' fr : agree m m' -> frame_inv m fr -> frame_inv m' fr.
Proof.
  intros A [K [I [pre [O [T R]]]]]. destruct (A (f_mod fr)) as [A1 [A2 A3]].
  split; [rewrite A1; exact K|]. split; [rewrite A2; exact I|]. exists pre. rewrite A3.
  split; [exact O|]. split; [|exact R]. intros t X. destruct (A t) as [_ [B _]]. rewrite B. auto.
Qed.

Lemma ord_ok_agree m m' ord : agree m m' -> ord_ok m ord -> ord_ok m' ord.
Proof.
  intros A [N [I T]]. split; [exact N|]. split.
  - intros x. destruct (A x) as [_ [B _]]. rewrite B. apply I.
  - intros l1 x l2 E t X. destruct (A x) as [_ [_ B]]. rewrite B in X. eauto.
Qed.

Lemma frame_inv_ext m m' fr : extends m m' -> frame_inv m fr -> frame_inv m' fr.
Proof.
  intros E [K [I [pre [O [T R]]]]].
  split; [eapply extends_key; eauto|]. split; [rewrite (extends_isinit m m' _ E K); exact I|].
  exists pre. rewrite (extends_ops m m' _ E K). split; [exact O|]. split; [|exact R].
  intros t X. eapply extends_isinit_true; eauto.
Qed.

Lemma cache_ok_ext m m' : extends m m' -> cache_ok m -> cache_ok m'.
Proof.
  intros E C u idx b H. destruct (has_key u m) eqn:K.
  - rewrite (extends_cached m m' u idx b E K) in H. destruct (C u idx b H) as [I A]. split.
    + eapply extends_isinit_true; eauto.
    + rewrite (extends_ops m m' u E K). exact A.
  - exfalso. eapply extends_new_cached; eauto.
Qed.

Lemma ord_ok_ext m m' ord : extends m m' -> ord_ok m ord -> ord_ok m' ord.
Proof.
  intros E [N [I T]]. split; [exact N|]. split.
  - intros x. rewrite I. split; [apply extends_isinit_true; exact E|apply extends_isinit_back; exact E].
  - intros l1 x l2 Q t X. assert (K : has_key x m = true).
    { apply isinit_m_key. apply I. rewrite Q. apply in_or_app. right. left. reflexivity. }
    rewrite (extends_ops m m' x E K) in X. eauto.
Qed.

Lemma top_ok_ext m m' stk : extends m m' -> top_ok m stk -> top_ok m' stk.
Proof.
  intros E T. destruct stk as [|f0 r]; simpl in *; auto. intros idx a b r0 H. eapply extends_isinit_true; eauto.
Qed.

Lemma GI_ext m m' stk : extends m m' -> small_m m' -> GI m stk -> GI m' stk.
Proof.
  intros E S [A B C D F [ord O]]. constructor.
  - exact S.
  - eapply Forall_impl; [|exact B]. intros fr. apply frame_inv_ext. exact E.
  - exact C.
  - eapply top_ok_ext; eauto.
  - eapply cache_ok_ext; eauto.
  - exists ord. eapply ord_ok_ext; eauto.
Qed.

Lemma chain_same_mod fr fr' rest : f_mod fr' = f_mod fr -> chain (fr :: rest) -> chain (fr' :: rest).
Proof. intros E C. destruct rest as [|f1 r]; simpl in *; auto. rewrite E. exact C. Qed.

Lemma chain_tail fr rest : chain (fr :: rest) -> chain rest.
Proof. destruct rest as [|f1 r]; simpl; auto. intros [_ C]. exact C. Qed.

Definition orig1 (o : op) : op := match o with ORet idx a b => OAccess idx a | _ => o end.

Lemma orig_cons o ops : no_ret ops -> orig (o :: ops) = orig1 o :: ops.
Proof. intros _. destruct o; reflexivity. Qed.

(* the top frame goes on behind its first operation *)
Lemma GI_cont m m' fr rest o ops :
  GI m (fr :: rest) -> f_ops fr = o :: ops -> agree m m' -> small_m m' -> cache_ok m' ->
  (forall t, In t (tgt (orig1 o)) -> isinit_m m t = true) ->
  GI m' ({| f_mod := f_mod fr; f_ops := ops |} :: rest).
Proof.
  intros [A B C D F [ord O]] Ho AG S CO TG.
  inversion B as [|? ? [K [I [pre [OP [T R]]]]] B']; subst.
  assert (NR : no_ret ops).
  { pose proof (ops_m_no_ret m (f_mod fr)) as N. rewrite OP, Ho in N. apply no_ret_app_r in N.
    destruct o; simpl in N; eapply no_ret_cons; eauto. }
  constructor.
  - exact S.
  - constructor.
    + apply (frame_inv_agree m m'); auto. split; [exact K|]. split; [exact I|]. simpl.
      exists (pre ++ [orig1 o]). split.
      * rewrite OP, Ho, (orig_cons o ops NR), (no_ret_orig ops NR), <- app_assoc. reflexivity.
      * split.
        -- intros t X. rewrite targets_app in X. apply in_app_or in X. destruct X as [X|X]; auto.
           simpl in X. rewrite app_nil_r in X. auto.
        -- intros idx a b r E. exfalso. eapply NR. rewrite E. left; reflexivity.
    + eapply Forall_impl; [|exact B']. intros f. apply frame_inv_agree. exact AG.
  - exact (chain_same_mod fr {| f_mod := f_mod fr; f_ops := ops |} rest eq_refl C).
  - simpl. intros idx a b r E. exfalso. eapply NR. rewrite E. left; reflexivity.
  - exact CO.
  - exists ord. eapply ord_ok_agree; eauto.
Qed.

Lemma agree_upd m k f : keeps f -> (forall i, i_isinit (f i) = i_isinit i) -> agree m (upd k f m).
Proof. intros K I x. apply keeps_same; auto. Qed.

Lemma cached_upd_other m k f u idx b : (forall i, i_attached (f i) = i_attached i) ->
  cached_in (upd k f m) u idx b = cached_in m u idx b.
Proof.
  intros H. unfold cached_in. rewrite find_upd. destruct (Nat.eqb u k); auto.
  destruct (find u m); simpl; auto. rewrite H. reflexivity.
Qed.

Lemma cached_m_in m u idx b : cached_m m u idx = Some b -> cached_in m u idx b.
Proof. unfold cached_m, cached_in. destruct (find u m); [apply find_In|discriminate]. Qed.

Lemma cache_ok_agree m m' : agree m m' -> (forall u idx b, cached_in m' u idx b = cached_in m u idx b) ->
  cache_ok m -> cache_ok m'.
Proof.
  intros A E C u idx b H. rewrite E in H. destruct (C u idx b H) as [I Q]. destruct (A b) as [_ [B _]].
  destruct (A u) as [_ [_ O]]. rewrite B, O. auto.
Qed.

(* the top frame is finished: its module is marked *)
Definition mark (u : name) (m : list (name * inst)) : list (name * inst) :=
  upd u (fun i => {| i_decl := i_decl i; i_io := i_io i; i_isinit := true;
                     i_attached := i_attached i; i_polled := i_polled i |}) m.

Lemma mark_ops u m k : ops_m (mark u m) k = ops_m m k.
Proof. apply ops_m_upd. intros i; simpl; auto. Qed.
Lemma mark_key u m k : has_key k (mark u m) = has_key k m.
Proof. apply has_key_upd. Qed.
Lemma mark_isinit u m k : isinit_m (mark u m) k = if Nat.eqb k u then has_key k m else isinit_m m k.
Proof. apply isinit_m_mark. Qed.
Lemma mark_cached u m k idx b : cached_in (mark u m) k idx b = cached_in m k idx b.
Proof. apply cached_upd_other. intros i; reflexivity. Qed.
Lemma mark_mono u m k : isinit_m m k = true -> isinit_m (mark u m) k = true.
Proof.
  intros H. rewrite mark_isinit. destruct (Nat.eqb k u) eqn:E; auto. apply isinit_m_key. exact H.
Qed.

Lemma tgt_in_targets o ops t : In o ops -> In t (tgt o) -> In t (targets_of ops).
Proof. intros I T. unfold targets_of. apply in_flat_map. exists o. auto. Qed.

(* every frame below the top waits for a module that is not marked *)
Lemma chain_waits m : forall rest fr, chain (fr :: rest) -> isinit_m m (f_mod fr) = false ->
  Forall (frame_inv m) rest ->
  forall f, In f rest -> exists idx a ops b, f_ops f = ORet idx a b :: ops /\ isinit_m m b = false.
Proof.
  induction rest as [|f1 r IH]; intros fr C I B f IN; [contradiction|].
  simpl in C. destruct C as [[idx [a [ops E]]] C']. destruct IN as [X|X].
  - subst f1. exists idx, a, ops, (f_mod fr). auto.
  - inversion B as [|? ? [_ [I1 _]] B2]; subst. apply (IH f1 C' I1 B2 f X).
Qed.

Lemma GI_pop m fr rest : GI m (fr :: rest) -> f_ops fr = [] -> GI (mark (f_mod fr) m) rest.
Proof.
  intros [A B C D F [ord O]] Ho. set (u := f_mod fr).
  inversion B as [|? ? [K [I [pre [OP [T R]]]]] B']; subst.
  rewrite Ho in OP. simpl in OP. rewrite app_nil_r in OP.
  (* no other frame of the same module: it would wait for a module that is not marked, while every target of
     the finished frame is marked *)
  assert (NODUP : forall f, In f rest -> f_mod f <> u).
  { intros f IN EU.
    destruct (chain_waits m rest fr C I B' f IN) as [idx [a [ops [b [E NI]]]]].
    rewrite Forall_forall in B'. destruct (B' f IN) as [_ [_ [pre' [OP' [_ R']]]]].
    rewrite E in OP'. simpl in OP'. rewrite EU in OP'. fold u in OP. rewrite OP in OP'.
    assert (TB : In b (targets_of pre)).
    { rewrite OP'. rewrite targets_app. apply in_or_app. right. simpl. rewrite (R' _ _ _ _ E). left; reflexivity. }
    rewrite (T b TB) in NI. discriminate. }
  constructor.
  - apply small_m_upd; auto. intros i; simpl; auto.
  - rewrite Forall_forall in *. intros f IN. destruct (B' f IN) as [K' [I' [pre' [OP' [T' R']]]]].
    split; [rewrite mark_key; exact K'|]. split.
    + rewrite mark_isinit. destruct (Nat.eqb (f_mod f) u) eqn:E; [apply Nat.eqb_eq in E; exfalso; eapply NODUP; eauto|exact I'].
    + exists pre'. rewrite mark_ops. split; [exact OP'|]. split; [|exact R']. intros t X. apply mark_mono. auto.
  - exact (chain_tail fr rest C).
  - destruct rest as [|f1 r]; simpl; auto. simpl in C. destruct C as [[idx [a [ops E]]] _].
    intros idx' a' b' r' E'. rewrite E in E'. inversion E'; subst. rewrite mark_isinit, Nat.eqb_refl. exact K.
  - intros x idx b H. rewrite mark_cached in H. destruct (F x idx b H) as [IB Q]. split; [apply mark_mono; exact IB|].
    rewrite mark_ops. exact Q.
  - exists (u :: ord). destruct O as [N [IO TO]]. split; [|split].
    + constructor; auto. intros X. apply IO in X. fold u in I. rewrite X in I. discriminate.
    + intros x. rewrite mark_isinit. simpl. destruct (Nat.eqb x u) eqn:E.
      * apply Nat.eqb_eq in E. subst x. split; auto.
      * rewrite <- IO. apply Nat.eqb_neq in E. split; [intros [X|X]; [congruence|exact X]|auto].
    + intros l1 x l2 Q t X. rewrite mark_ops in X. destruct l1 as [|y l1]; simpl in Q; inversion Q; subst.
      * apply IO. apply T. exact X.
      * eapply TO; eauto.
Qed.

(* ---------------------------------------------------------------- one step of the machine *)
Lemma frame_inv_access m fr idx a ops :
  frame_inv m fr -> f_ops fr = OAccess idx a :: ops -> In (OAccess idx a) (ops_m m (f_mod fr)).
Proof.
  intros [_ [_ [pre [OP _]]]] Ho. rewrite OP, Ho. simpl. apply in_or_app. right. left. reflexivity.
Qed.

Lemma frame_inv_ret m fr idx a b ops :
  frame_inv m fr -> f_ops fr = ORet idx a b :: ops ->
  In (OAccess idx a) (ops_m m (f_mod fr)) /\ a_target a = Some b.
Proof.
  intros [_ [_ [pre [OP [_ R]]]]] Ho. split; [|eapply R; eauto]. rewrite OP, Ho. simpl. apply in_or_app. right. left. reflexivity.
Qed.

(* the top frame starts to wait for module b *)
Lemma frames_wait m fr rest idx a b ops :
  Forall (frame_inv m) (fr :: rest) -> chain (fr :: rest) -> f_ops fr = OAccess idx a :: ops -> a_target a = Some b ->
  Forall (frame_inv m) ({| f_mod := f_mod fr; f_ops := ORet idx a b :: ops |} :: rest) /\
  chain ({| f_mod := f_mod fr; f_ops := ORet idx a b :: ops |} :: rest).
Proof.
  intros B C Ho TA. inversion B as [|? ? [K [I [pre [OP [T R]]]]] B']; subst. split.
  - constructor; auto. split; [exact K|]. split; [exact I|]. exists pre. simpl. rewrite Ho in OP. simpl in OP.
    split; [exact OP|]. split; [exact T|]. intros i0 a0 b0 r E. inversion E; subst. exact TA.
  - exact (chain_same_mod fr _ rest eq_refl C).
Qed.

Lemma frame_inv_new m b : has_key b m = true -> isinit_m m b = false ->
  frame_inv m {| f_mod := b; f_ops := ops_m m b |}.
Proof.
  intros K I. split; [exact K|]. split; [exact I|]. exists []. simpl.
  pose proof (ops_m_no_ret m b) as N. split; [symmetry; apply no_ret_orig; exact N|].
  split; [intros t []|]. intros idx a b0 r E. exfalso. eapply N. rewrite E. left; reflexivity.
Qed.

Lemma ops_m_small m u : small_m m -> has_key u m = true ->
  exists d io, ops_m m u = frame_ops d io /\ small_decl d.
Proof.
  intros [_ S] K. unfold ops_m, has_key in *. destruct (find u m) as [i|] eqn:F; [|discriminate].
  exists (i_decl i), (i_io i). split; auto. eapply S; eauto.
Qed.

Lemma step_GI limit st : GInv st -> errors (step limit st) = [] -> GInv (step limit st).
Proof.
  intros [G SA] NE. unfold GInv in *. unfold step in *. destruct (stack st) as [|fr rest] eqn:Hs; [rewrite Hs; auto|].
  pose proof G as [SM B C D F [ord O]].
  inversion B as [|? ? FI0 B']; subst.
  destruct (f_ops fr) as [|o ops] eqn:Ho.
  - simpl. split; [|exact SA]. apply (GI_pop (modules st) fr rest G Ho).
  - assert (CONT : forall st' , modules st' = modules st -> avail st' = avail st ->
              (forall t, In t (tgt (orig1 o)) -> isinit_m (modules st) t = true) ->
              GI (modules (set_stack st' ({| f_mod := f_mod fr; f_ops := ops |} :: rest)))
                 (stack (set_stack st' ({| f_mod := f_mod fr; f_ops := ops |} :: rest))) /\
              small_av (avail (set_stack st' ({| f_mod := f_mod fr; f_ops := ops |} :: rest)))).
    { intros st' M AV TG. simpl. rewrite M, AV. split; [|exact SA].
      apply (GI_cont (modules st) (modules st) fr rest o ops G Ho (agree_refl _) SM F TG). }
    destruct o.
    + apply CONT; auto; try (intros t []).
    + apply CONT; auto; try (intros t []).
    + (* OAccess *)
      pose proof (frame_inv_access _ _ _ _ _ FI0 Ho) as INA.
      rewrite cached_eq in *. destruct (cached_m (modules st) (f_mod fr) idx) as [b0|] eqn:CA.
      { apply CONT; auto. simpl. destruct (F _ _ _ (cached_m_in _ _ _ _ CA)) as [IB [QA _]]. rewrite (QA a INA). intros t [E|[]]. subst. exact IB. }
      destruct (a_target a) as [b|] eqn:TA.
      2:{ apply CONT; auto. simpl. rewrite TA. intros t []. }
      pose proof (get_instance_spec st b SM SA) as [SP [AV1 ST1]].
      destruct (get_instance st b) as [st1 r] eqn:GE; simpl in *.
      destruct r; try (simpl in NE; discriminate).
      assert (EX : extends (modules st) (modules st1) /\ small_m (modules st1) /\ has_key b (modules st1) = true).
      { destruct SP as [[K E]|[K [E1 [E2 [E3 _]]]]]; [subst st1; auto using extends_refl|auto]. }
      destruct EX as [EX [SM1 KB]].
      pose proof (GI_ext _ _ _ EX SM1 G) as [_ B1 C1 _ F1 [ord1 O1]].
      destruct (frames_wait _ _ _ _ _ _ _ B1 C1 Ho TA) as [B2 C2].
      set (fr2 := {| f_mod := f_mod fr; f_ops := ORet idx a b :: ops |}) in *.
      change (isinit (set_stack st1 (fr2 :: rest)) b) with (isinit_m (modules st1) b) in *.
      destruct (isinit_m (modules st1) b) eqn:IB.
      { simpl. rewrite AV1. split; [|exact SA]. constructor; auto.
        - simpl. intros i0 a0 b1 r0 E. inversion E; subst. exact IB.
        - exists ord1. exact O1. }
      simpl length in *. destruct (Nat.leb limit (S (length rest))); [simpl in NE; discriminate|].
      rewrite push_ops. simpl. rewrite AV1. split; [|exact SA]. constructor; auto.
      * constructor; [apply frame_inv_new; auto|exact B2].
      * simpl. split; [|exact C2]. exists idx, a, ops. reflexivity.
      * simpl. intros i0 a0 b1 r0 E. exfalso. eapply (ops_m_no_ret (modules st1) b). rewrite E. left; reflexivity.
      * exists ord1. exact O1.
    + (* ORet *)
      destruct (frame_inv_ret _ _ _ _ _ _ FI0 Ho) as [INA TA].
      assert (IB : isinit_m (modules st) b = true) by (simpl in D; eapply D; eauto).
      destruct (want_ok _ _); [|simpl in NE; discriminate].
      simpl. split; [|exact SA].
      set (f := fun i => {| i_decl := i_decl i; i_io := i_io i; i_isinit := i_isinit i;
                            i_attached := set_assoc idx b (i_attached i); i_polled := i_polled i |}).
      assert (AG : agree (modules st) (upd (f_mod fr) f (modules st))).
      { apply agree_upd; intros i; simpl; auto. }
      apply (GI_cont (modules st) _ fr rest (ORet idx a b) ops G Ho AG).
      * apply small_m_upd; auto. intros i; simpl; auto.
      * intros u i0 b0 H. destruct (AG b0) as [_ [AB _]]. destruct (AG u) as [_ [_ AO]]. rewrite AB, AO.
        unfold cached_in in H. rewrite find_upd in H. destruct (Nat.eqb u (f_mod fr)) eqn:EU.
        -- apply Nat.eqb_eq in EU. subst u. destruct (find (f_mod fr) (modules st)) as [iu|] eqn:FU; simpl in H; [|contradiction].
           apply In_set_assoc in H. destruct H as [H|H].
           ++ inversion H; subst i0 b0. split; [exact IB|].
              split; [|apply (tgt_in_targets (OAccess idx a)); [exact INA|simpl; rewrite TA; left; reflexivity]].
              intros a' IA'. destruct FI0 as [K0 _].
              destruct (ops_m_small _ _ SM K0) as [d [io [OPS SD]]]. rewrite OPS in *.
              rewrite (frame_ops_idx_unique d io idx a' a SD IA' INA). exact TA.
           ++ apply (F (f_mod fr) i0 b0). unfold cached_in. rewrite FU. exact H.
        -- apply (F u i0 b0). exact H.
      * simpl. rewrite TA. intros t [E|[]]. subst. exact IB.
    + simpl in NE. discriminate.
    + (* ORegister *)
      unfold register. destruct (_ || _).
      * simpl. split; [|exact SA].
        match goal with |- GI (upd ?k ?f _) _ => set (owner := k); set (g := f) end.
        assert (AG : agree (modules st) (upd owner g (modules st))).
        { apply agree_upd; intros i; simpl; auto. }
        apply (GI_cont (modules st) _ fr rest ORegister ops G Ho AG).
        -- apply small_m_upd; auto. intros i; simpl; auto.
        -- apply (cache_ok_agree _ _ AG); auto. intros u i0 b0. apply cached_upd_other. intros i; reflexivity.
        -- intros t [].
      * apply CONT; auto; try (intros t []).
Qed.

(* ---------------------------------------------------------------- every module is marked or on its way *)
Definition cover (base : name -> Prop) (mods : list (name * inst)) (act : list name) : Prop :=
  forall m, has_key m mods = true ->
    base m \/ isinit_m mods m = true \/ In m act \/
    exists u, In u act /\ In m (targets_of (ops_m mods u)).

Lemma cover_agree base m m' act : agree m m' -> cover base m act -> cover base m' act.
Proof.
  intros A C x K. destruct (A x) as [A1 [A2 _]]. rewrite A1 in K. rewrite A2.
  destruct (C x K) as [H|[H|[H|[u [U H]]]]]; auto. right. right. right. exists u. destruct (A u) as [_ [_ A3]].
  rewrite A3. auto.
Qed.

Lemma act_keys m stk : Forall (frame_inv m) stk -> forall u, In u (map f_mod stk) -> has_key u m = true.
Proof.
  intros B u I. apply in_map_iff in I. destruct I as [fr [E I]]. rewrite Forall_forall in B.
  destruct (B fr I) as [K _]. subst. exact K.
Qed.

(* an old module stays covered when the table is extended and the active modules stay *)
Lemma cover_old base m m' act act' x : extends m m' -> (forall u, In u act -> has_key u m = true) ->
  (forall u, In u act -> In u act') -> cover base m act -> has_key x m = true ->
  base x \/ isinit_m m' x = true \/ In x act' \/ exists u, In u act' /\ In x (targets_of (ops_m m' u)).
Proof.
  intros E AK SUB C K. destruct (C x K) as [H|[H|[H|[u [U H]]]]]; auto.
  - right. left. eapply extends_isinit_true; eauto.
  - right. right. right. exists u. split; auto. rewrite (extends_ops m m' u E (AK u U)). exact H.
Qed.

Lemma step_cover base limit st : GInv st -> errors (step limit st) = [] ->
  cover base (modules st) (map f_mod (stack st)) ->
  cover base (modules (step limit st)) (map f_mod (stack (step limit st))).
Proof.
  intros [G SA] NE CV. unfold step in *. destruct (stack st) as [|fr rest] eqn:Hs; [rewrite Hs; auto|].
  pose proof G as [SM B C D F [ord O]].
  inversion B as [|? ? FI0 B']; subst.
  destruct (f_ops fr) as [|o ops] eqn:Ho.
  - (* the frame is finished *)
    simpl. fold (mark (f_mod fr) (modules st)). intros x K. rewrite mark_key in K.
    destruct FI0 as [K0 [I0 [pre [OP [T _]]]]]. rewrite Ho in OP. simpl in OP. rewrite app_nil_r in OP.
    destruct (CV x K) as [H|[H|[H|[u [U H]]]]]; auto.
    + right. left. apply mark_mono. exact H.
    + simpl in H. destruct H as [H|H]; [|auto]. subst x. right. left. rewrite mark_isinit, Nat.eqb_refl. exact K.
    + simpl in U. destruct U as [U|U].
      * subst u. right. left. apply mark_mono. apply T. rewrite <- OP. exact H.
      * right. right. right. exists u. rewrite mark_ops. auto.
  - assert (CONT : forall m', agree (modules st) m' -> cover base m' (f_mod fr :: map f_mod rest)).
    { intros m' A. eapply cover_agree; eauto. }
    destruct o; simpl.
    + apply CONT, agree_refl.
    + apply CONT, agree_refl.
    + (* OAccess *)
      destruct (find idx (attached_of st (f_mod fr))); [apply CONT, agree_refl|].
      destruct (a_target a) as [b|] eqn:TA; [|apply CONT, agree_refl].
      pose proof (get_instance_spec st b SM SA) as [SP [AV1 ST1]].
      destruct (get_instance st b) as [st1 r] eqn:GE; simpl in *.
      destruct r; try (simpl in NE; discriminate).
      set (fr2 := {| f_mod := f_mod fr; f_ops := ORet idx a b :: ops |}) in *.
      change (isinit (set_stack st1 (fr2 :: rest)) b) with (isinit_m (modules st1) b) in *.
      assert (AK : forall u, In u (f_mod fr :: map f_mod rest) -> has_key u (modules st) = true).
      { intros u U. apply (act_keys (modules st) (fr :: rest) B u). exact U. }
      destruct SP as [[K E]|[K [E1 [E2 [E3 [E4 [E5 E6]]]]]]].
      * subst st1. destruct (isinit_m (modules st) b).
        -- exact CV.
        -- simpl length in *. destruct (Nat.leb limit (S (length rest))); [simpl in NE; discriminate|].
           rewrite push_ops. simpl. intros x KX.
           destruct (CV x KX) as [H|[H|[H|[u [U H]]]]]; auto.
           ++ right. right. left. right. exact H.
           ++ right. right. right. exists u. split; auto. right. exact U.
      * rewrite E4 in *. simpl length in *. destruct (Nat.leb limit (S (length rest))); [simpl in NE; discriminate|].
        rewrite push_ops. simpl. intros x KX. destruct (has_key x (modules st)) eqn:KO.
        -- apply (cover_old base (modules st) (modules st1) (f_mod fr :: map f_mod rest)); auto.
           intros u U. right. exact U.
        -- destruct (E5 x KX) as [H|[H|H]]; [congruence| |].
           ++ subst x. right. right. left. left. reflexivity.
           ++ right. right. right. exists b. split; [left; reflexivity|exact H].
    + (* ORet *)
      destruct (want_ok _ _); [|simpl in NE; discriminate]. simpl.
      apply CONT. apply agree_upd; intros i; simpl; auto.
    + simpl in NE. discriminate.
    + unfold register. destruct (_ || _); simpl; [|apply CONT, agree_refl].
      apply CONT. apply agree_upd; intros i; simpl; auto.
Qed.

(* ---------------------------------------------------------------- whole runs *)
Lemma errs_back st st' : ext st st' -> errors st' = [] -> errors st = [].
Proof. intros [_ [errs E]] H. rewrite E in H. apply app_eq_nil in H. tauto. Qed.

Lemma run_gm_GI base limit fuel : forall st, GInv st -> cover base (modules st) (map f_mod (stack st)) ->
  errors (run_gm limit fuel st) = [] ->
  GInv (run_gm limit fuel st) /\
  cover base (modules (run_gm limit fuel st)) (map f_mod (stack (run_gm limit fuel st))).
Proof.
  induction fuel as [|fuel IH]; intros st G CV NE; simpl in *; destruct (stack st) as [|fr rest] eqn:Hs.
  - rewrite Hs. auto.
  - split; [exact G|]. simpl. rewrite Hs. exact CV.
  - rewrite Hs. auto.
  - assert (NE1 : errors (step limit st) = []) by (eapply errs_back; [apply run_gm_ext|exact NE]).
    apply IH; auto.
    + apply step_GI; auto.
    + apply step_cover; auto. rewrite Hs. exact CV.
Qed.

(* between two calls of get_module from outside: nothing is active *)
Definition II (P : name -> Prop) (st : node) : Prop :=
  GInv st /\ stack st = [] /\ cover P (modules st) [].

Lemma II_weaken (P Q : name -> Prop) st : (forall m, P m -> Q m) -> II P st -> II Q st.
Proof.
  intros H [G [S C]]. split; [exact G|]. split; [exact S|]. intros m K.
  destruct (C m K) as [X|[X|[X|X]]]; auto.
Qed.

Lemma cover_idle P mods m : cover P mods [] -> has_key m mods = true -> P m \/ isinit_m mods m = true.
Proof. intros C K. destruct (C m K) as [X|[X|[[]|[u [[] _]]]]]; auto. Qed.

Lemma GI_push m b : GI m [] -> has_key b m = true -> isinit_m m b = false ->
  GI m [{| f_mod := b; f_ops := ops_m m b |}].
Proof.
  intros [A _ _ _ F O] K I. constructor; auto.
  - constructor; [apply frame_inv_new; auto|constructor].
  - simpl. auto.
  - simpl. intros idx a b0 r E. exfalso. eapply (ops_m_no_ret m b). rewrite E. left; reflexivity.
Qed.

Lemma gm_top_II P limit fuel st b : II P st ->
  errors (gm_top limit fuel st b) = [] -> stuck (gm_top limit fuel st b) = false ->
  II (fun m => P m /\ m <> b) (gm_top limit fuel st b).
Proof.
  intros [[G SA] [Hs CV]] NE NS. pose proof G as [SM _ _ _ _ _].
  pose proof (gm_top_stack limit fuel st b Hs NS) as HS'.
  assert (G0 : GI (modules st) []) by (rewrite <- Hs; exact G).
  unfold gm_top in *.
  pose proof (get_instance_spec st b SM SA) as [SP [AV1 ST1]].
  destruct (get_instance st b) as [st1 r] eqn:GE; simpl in *.
  assert (SAME : st1 = st -> has_key b (modules st) = false -> II (fun m => P m /\ m <> b) st).
  { intros _ KB. split; [split; assumption|]. split; [exact Hs|]. intros m K.
    destruct (cover_idle P _ m CV K) as [X|X]; auto. left. split; auto. intros E. subst. congruence. }
  assert (KB' : r <> IOk -> has_key b (modules st) = false).
  { intros R. unfold get_instance in GE. destruct (has_key b (modules st)); auto. inversion GE; subst. congruence. }
  destruct r.
  2:{ destruct SP as [E|E]; [subst st1; apply SAME; auto; apply KB'; discriminate|contradiction]. }
  2:{ destruct SP as [E|E]; [subst st1; apply SAME; auto; apply KB'; discriminate|contradiction]. }
  change (isinit st1 b) with (isinit_m (modules st1) b) in *.
  assert (RUN : forall st2, modules st2 = modules st1 -> avail st2 = avail st -> stack st2 = [] ->
            GI (modules st1) [] -> has_key b (modules st1) = true -> isinit_m (modules st1) b = false ->
            cover (fun m => P m /\ m <> b) (modules st1) [b] ->
            errors (run_gm limit fuel (push b st2)) = [] -> stack (run_gm limit fuel (push b st2)) = [] ->
            II (fun m => P m /\ m <> b) (run_gm limit fuel (push b st2))).
  { intros st2 M AV S2 G1 K1 I1 C1 NE2 HS2.
    assert (GP : GInv (push b st2)).
    { unfold GInv. rewrite push_ops. simpl. rewrite M, AV, S2. split; [apply GI_push; auto|exact SA]. }
    assert (CP : cover (fun m => P m /\ m <> b) (modules (push b st2)) (map f_mod (stack (push b st2)))).
    { rewrite push_ops. simpl. rewrite M, S2. exact C1. }
    destruct (run_gm_GI _ limit fuel _ GP CP NE2) as [G3 C3]. split; [exact G3|]. split; [exact HS2|].
    rewrite HS2 in C3. exact C3. }
  destruct SP as [[K E]|[K [E1 [E2 [E3 [E4 [E5 E6]]]]]]].
  - subst st1. destruct (isinit_m (modules st) b) eqn:IB.
    + split; [split; assumption|]. split; [exact Hs|]. intros m KM.
      destruct (cover_idle P _ m CV KM) as [X|X]; auto.
      destruct (Nat.eq_dec m b) as [Q|Q]; [subst; auto|]. left. auto.
    + apply RUN; auto.
      intros m KM. destruct (cover_idle P _ m CV KM) as [X|X]; auto.
        destruct (Nat.eq_dec m b) as [Q|Q]; [subst; right; right; left; left; reflexivity|]. left. auto.
  - rewrite E4 in *.
    apply RUN; [reflexivity|exact AV1|rewrite ST1; exact Hs|eapply GI_ext; eauto|exact E2|reflexivity| |exact NE|exact HS'].
    intros m KM. destruct (has_key m (modules st)) eqn:KO.
    + destruct (cover_idle P _ m CV KO) as [X|X].
      * left. split; auto. intros Q. subst. congruence.
      * right. left. eapply extends_isinit_true; eauto.
    + destruct (E5 m KM) as [H|[H|H]]; [congruence| |].
      * subst. right. right. left. left. reflexivity.
      * right. right. right. exists b. split; [left; reflexivity|exact H].
Qed.

Lemma fold_II limit fuel : forall names P st, II P st ->
  errors (fold_left (fun acc b => gm_top limit fuel acc b) names st) = [] ->
  stuck (fold_left (fun acc b => gm_top limit fuel acc b) names st) = false ->
  II (fun m => P m /\ ~ In m names) (fold_left (fun acc b => gm_top limit fuel acc b) names st).
Proof.
  induction names as [|b r IH]; intros P st H NE NS; simpl in *.
  - eapply II_weaken; [|exact H]. intros m X. auto.
  - assert (NE1 : errors (gm_top limit fuel st b) = []) by (eapply errs_back; [apply fold_gm_ext|exact NE]).
    assert (NS1 : stuck (gm_top limit fuel st b) = false).
    { destruct (stuck (gm_top limit fuel st b)) eqn:Q; auto. rewrite (fold_sticky limit fuel r _ Q) in NS. discriminate. }
    pose proof (IH _ _ (gm_top_II P limit fuel st b H NE1 NS1) NE NS) as H2.
    eapply II_weaken; [|exact H2]. simpl. intros m [[X Y] Z]. split; auto. intros [Q|Q]; auto.
Qed.

Definition anyname (m : name) : Prop := True.

Lemma gm_top_II_any limit fuel st b : II anyname st ->
  errors (gm_top limit fuel st b) = [] -> stuck (gm_top limit fuel st b) = false ->
  II anyname (gm_top limit fuel st b).
Proof.
  intros H NE NS. eapply II_weaken; [|apply (gm_top_II anyname limit fuel st b H NE NS)]. intros m _. exact I.
Qed.

Lemma init_loop_II limit fuel : forall n i st, II anyname st ->
  errors (init_loop limit fuel n i st) = [] -> stuck (init_loop limit fuel n i st) = false ->
  II anyname (init_loop limit fuel n i st).
Proof.
  induction n as [|n IH]; intros i st H NE NS; simpl in *; auto.
  destruct (nth_error (export st) i) as [b|]; auto.
  assert (NE1 : errors (gm_top limit fuel st b) = []) by (eapply errs_back; [apply init_loop_ext|exact NE]).
  assert (NS1 : stuck (gm_top limit fuel st b) = false).
  { destruct (stuck (gm_top limit fuel st b)) eqn:Q; auto. rewrite (init_loop_sticky limit fuel n (S i) _ Q) in NS. discriminate. }
  apply IH; auto. apply gm_top_II_any; auto.
Qed.

Lemma create_loop_sticky limit fuel dyn : forall n todos st, stuck st = true ->
  stuck (create_loop limit fuel n dyn todos st) = true.
Proof.
  induction n as [|n IH]; intros todos st H; simpl; auto. destruct todos as [|[b d] rest]; auto.
  destruct (has_key b (modules st)); auto.
  pose proof (get_instance_stuck (set_avail st (set_assoc b d (avail st))) b) as GS.
  destruct (get_instance _ b) as [st1 r]; simpl in GS. assert (S1 : stuck st1 = true) by (rewrite GS; exact H).
  destruct r; auto. destruct (d_kind d); auto. apply IH. apply gm_top_sticky. exact S1.
Qed.

Lemma lookup_all_In pool : forall ns b d, In (b, d) (lookup_all ns pool) -> In (b, d) pool.
Proof.
  induction ns as [|n r IH]; simpl; intros b d I; [contradiction|].
  destruct (find n pool) as [d0|] eqn:F; [|auto]. destruct I as [E|I]; [|auto].
  inversion E; subst. apply find_In. exact F.
Qed.

Lemma create_loop_II limit fuel dyn : small_av dyn -> forall n todos st, small_av todos -> II anyname st ->
  errors (create_loop limit fuel n dyn todos st) = [] -> stuck (create_loop limit fuel n dyn todos st) = false ->
  II anyname (create_loop limit fuel n dyn todos st).
Proof.
  intros SD. induction n as [|n IH]; intros todos st ST H NE NS; simpl in *; auto.
  destruct todos as [|[b d] rest]; auto.
  assert (SR : small_av rest) by (intros x y X; apply ST; right; exact X).
  destruct (has_key b (modules st)); [apply IH; auto|].
  destruct H as [[G SA] [Hs CV]]. pose proof G as [SM _ _ _ _ _].
  set (st0 := set_avail st (set_assoc b d (avail st))) in *.
  assert (SA0 : small_av (avail st0)).
  { intros x y X. simpl in X. apply In_set_assoc in X. destruct X as [E|X]; [inversion E; subst; apply ST; left; reflexivity|auto]. }
  pose proof (get_instance_spec st0 b SM SA0) as [SP [AV1 ST1]].
  pose proof (get_instance_ext st0 b) as EXT. pose proof (get_instance_stuck st0 b) as STK.
  destruct (get_instance st0 b) as [st1 r] eqn:GE; simpl in *.
  assert (H0 : II anyname st0) by (split; [split; assumption|split; [exact Hs|intros m K; left; exact I]]).
  assert (TRIV : forall s, cover anyname (modules s) []) by (intros s m K; left; exact I).
  assert (H1 : r = IOk -> II anyname st1).
  { intros R. subst r. destruct SP as [[K E]|[K [E1 [E2 [E3 _]]]]]; [subst st1; exact H0|].
    split; [split; [|rewrite AV1; exact SA0]|split; [rewrite ST1; exact Hs|apply TRIV]].
    rewrite ST1. simpl. eapply GI_ext; eauto. }
  destruct r.
  - specialize (H1 eq_refl). destruct (d_kind d) eqn:DK; try (apply IH; auto).
    + intros x y X. apply in_app_or in X. destruct X as [X|X]; [auto|]. apply SD. eapply lookup_all_In; eauto.
    + assert (NE1 : errors (gm_top limit fuel st1 b) = []) by (eapply errs_back; [apply create_loop_ext|exact NE]).
      assert (NS1 : stuck (gm_top limit fuel st1 b) = false).
      { destruct (stuck (gm_top limit fuel st1 b)) eqn:Q; auto.
        rewrite (create_loop_sticky limit fuel dyn n _ _ Q) in NS. discriminate. }
      apply gm_top_II_any; auto.
  - assert (E1 : errors st1 = []) by (eapply errs_back; [apply create_loop_ext|exact NE]).
    destruct SP as [E|E]; [subst st1; apply IH; auto|contradiction].
  - assert (E1 : errors st1 = []) by (eapply errs_back; [apply create_loop_ext|exact NE]).
    destruct SP as [E|E]; [subst st1; apply IH; auto|contradiction].
Qed.

Lemma node0_II av : small_av av -> II anyname (node0 av).
Proof.
  intros SA. split; [split; [|exact SA]|split; [reflexivity|intros m K; left; exact I]]. simpl. constructor.
  - split; [intros k H; discriminate|intros k i H; discriminate].
  - constructor.
  - exact I.
  - exact I.
  - intros u idx b H. contradiction.
  - exists []. split; [constructor|]. split.
    + intros m. split; [intros []|intros H; discriminate].
    + intros l1 m l2 E. destruct l1; discriminate.
Qed.

Definition cfg_small (c : cfg) : Prop := small_av (c_static c) /\ small_av (c_dyn c).

Lemma fold_stuck_back limit fuel names st :
  stuck (fold_left (fun acc b => gm_top limit fuel acc b) names st) = false -> stuck st = false.
Proof. intros H. destruct (stuck st) eqn:Q; auto. rewrite (fold_sticky limit fuel names st Q) in H. discriminate. Qed.

Lemma init_loop_stuck_back limit fuel n i st : stuck (init_loop limit fuel n i st) = false -> stuck st = false.
Proof. intros H. destruct (stuck st) eqn:Q; auto. rewrite (init_loop_sticky limit fuel n i st Q) in H. discriminate. Qed.

(* the node after create_modules, get_descriptive_data and the loop of _processCfg over all modules *)
Theorem initialised_II limit fuel c : cfg_small c ->
  errors (initialised limit fuel c) = [] -> stuck (initialised limit fuel c) = false ->
  let st := initialised limit fuel c in
  GInv st /\ stack st = [] /\ forall m, has_key m (modules st) = true -> isinit st m = true.
Proof.
  intros [S1 S2] NE NS. unfold initialised, init_phase, init_rest, init_all, create_all in *.
  set (st0 := create_loop limit fuel _ (c_dyn c) (c_static c) (node0 (c_static c))) in *.
  set (st1 := init_loop limit fuel _ 0 st0) in *.
  assert (NE1 : errors st1 = []) by (eapply errs_back; [apply fold_gm_ext|exact NE]).
  assert (NS1 : stuck st1 = false) by (eapply fold_stuck_back; eauto).
  assert (NE0 : errors st0 = []) by (eapply errs_back; [apply init_loop_ext|exact NE1]).
  assert (NS0 : stuck st0 = false) by (eapply init_loop_stuck_back; eauto).
  assert (H0 : II anyname st0) by (apply create_loop_II; auto; apply node0_II; exact S1).
  assert (H1 : II anyname st1) by (apply init_loop_II; auto).
  set (names := map fst (modules st1)) in *.
  assert (H1' : II (fun m => In m names) st1).
  { destruct H1 as [G [Hs _]]. split; [exact G|split; [exact Hs|]]. intros m K. left. apply has_key_In. exact K. }
  destruct (fold_II limit fuel names _ st1 H1' NE NS) as [G [Hs CV]].
  split; [exact G|split; [exact Hs|]]. intros m K.
  destruct (cover_idle _ _ m CV K) as [[X Y]|X]; [contradiction|exact X].
Qed.

(* ---------------------------------------------------------------- no error recorded: a rank function exists *)
Fixpoint after (x : nat) (l : list nat) : nat :=
  match l with [] => 0 | y :: r => if Nat.eqb y x then S (length r) else after x r end.

Lemma after_le x l : after x l <= length l.
Proof. induction l as [|y r IH]; simpl; auto. destruct (Nat.eqb y x); lia. Qed.

Lemma after_app_notin x l1 l2 : ~ In x l1 -> after x (l1 ++ l2) = after x l2.
Proof.
  induction l1 as [|y r IH]; simpl; auto. intros N. destruct (Nat.eqb y x) eqn:E.
  - apply Nat.eqb_eq in E. subst. exfalso. apply N. left; reflexivity.
  - apply IH. intros X. apply N. right; exact X.
Qed.

Lemma nodup_mid_notin {A} (l1 : list A) x l2 : NoDup (l1 ++ x :: l2) -> ~ In x l1 /\ ~ In x l2.
Proof.
  intros N. apply NoDup_remove_2 in N. split; intros H; apply N; apply in_or_app; auto.
Qed.

Theorem no_error_rank limit fuel c : cfg_small c ->
  errors (initialised limit fuel c) = [] -> stuck (initialised limit fuel c) = false ->
  let st := initialised limit fuel c in
  exists rank : name -> nat, forall u t, has_key u (modules st) = true ->
    In t (targets_of (ops_m (modules st) u)) -> rank t < rank u.
Proof.
  intros CS NE NS st. destruct (initialised_II limit fuel c CS NE NS) as [[G _] [_ ALL]]. fold st in G, ALL.
  destruct G as [_ _ _ _ _ [ord [N [IO TO]]]]. exists (fun x => after x ord). intros u t K T.
  assert (IU : In u ord) by (apply IO; apply ALL; exact K).
  apply in_split in IU. destruct IU as [l1 [l2 E]]. pose proof (TO l1 u l2 E t T) as TL.
  rewrite E in N. destruct (nodup_mid_notin l1 u l2 N) as [N1 N2].
  assert (NT : ~ In t (l1 ++ [u])).
  { intros X. apply in_app_or in X. destruct X as [X|[X|[]]].
    - apply (nodup_app_disj l1 (u :: l2) t N X). right. exact TL.
    - subst. contradiction. }
  assert (AU : after u ord = S (length l2)).
  { rewrite E. rewrite (after_app_notin u l1 (u :: l2) N1). simpl. rewrite Nat.eqb_refl. reflexivity. }
  assert (AT : after t ord = after t l2).
  { rewrite E. replace (l1 ++ u :: l2) with ((l1 ++ [u]) ++ l2) by (rewrite <- app_assoc; reflexivity).
    apply (after_app_notin t _ l2 NT). }
  rewrite AU, AT. pose proof (after_le t l2). lia.
Qed.

(* ---------------------------------------------------------------- cycles *)
(* u refers to t: t is the target of an attachment that earlyInit / initModule of u reads, or the io of u *)
Definition refers (st : node) (u t : name) : Prop :=
  has_key u (modules st) = true /\ In t (targets_of (ops_m (modules st) u)).

Inductive reaches (st : node) : name -> name -> Prop :=
| reach_one u t : refers st u t -> reaches st u t
| reach_more u t v : refers st u t -> reaches st t v -> reaches st u v.

Lemma reaches_rank st (rank : name -> nat) :
  (forall u t, has_key u (modules st) = true -> In t (targets_of (ops_m (modules st) u)) -> rank t < rank u) ->
  forall u v, reaches st u v -> rank v < rank u.
Proof.
  intros R u v H. induction H as [u t [K T]|u t v [K T] _ IH].
  - apply R; auto.
  - specialize (R u t K T). lia.
Qed.

(* a cycle among the modules of the node that get_module can follow always ends with a recorded error *)
Theorem cycle_is_error limit fuel c u : cfg_small c -> stuck (initialised limit fuel c) = false ->
  reaches (initialised limit fuel c) u u -> errors (initialised limit fuel c) <> [].
Proof.
  intros CS NS CY NE. destruct (no_error_rank limit fuel c CS NE NS) as [rank R].
  pose proof (reaches_rank _ rank R u u CY). lia.
Qed.

(* ---------------------------------------------------------------- the ready point *)
Lemma running_no_errors limit fuel c sched :
  s_pc (started limit fuel c sched) = MRun -> errors (initialised limit fuel c) = [].
Proof.
  intros PC. destruct (errors (initialised limit fuel c)) as [|e r] eqn:E; auto.
  assert (NE : errors (initialised limit fuel c) <> []) by (rewrite E; discriminate).
  destruct (errors_never_ready limit fuel c sched NE) as [_ [H _]]. contradiction.
Qed.

Theorem ready_all_initialised limit fuel c sched : cfg_small c -> stuck (initialised limit fuel c) = false ->
  s_pc (started limit fuel c sched) = MRun ->
  forall m, has_key m (modules (s_node (started limit fuel c sched))) = true ->
    isinit (s_node (started limit fuel c sched)) m = true.
Proof.
  intros CS NS PC m K. pose proof (running_no_errors limit fuel c sched PC) as NE.
  destruct (initialised_II limit fuel c CS NE NS) as [_ [_ ALL]].
  unfold isinit in *. rewrite started_modules in *. apply ALL. exact K.
Qed.

(* the cached attachments of a node that reports ready follow the rank: shutdown in the order of
   _getSortedModules shuts every user down before the modules it is attached to *)
Theorem ready_shutdown_users_first limit fuel c sched order : cfg_small c ->
  stuck (initialised limit fuel c) = false -> s_pc (started limit fuel c sched) = MRun ->
  let st := s_node (started limit fuel c sched) in
  (forall x, In x (map fst (modules st)) -> In x order) ->
  forall u i b, In (i, b) (attached_of st u) ->
    exists l1 l2, sorted_modules st order = l1 ++ u :: l2 /\ In b l2.
Proof.
  intros CS NS PC st COV u i b I. pose proof (running_no_errors limit fuel c sched PC) as NE.
  destruct (no_error_rank limit fuel c CS NE NS) as [rank R].
  destruct (initialised_II limit fuel c CS NE NS) as [[G _] _].
  destruct G as [_ _ _ _ F _].
  apply (fun R' => shutdown_order_users_first limit fuel c sched order rank COV R' u i b I).
  intros x j y J. fold st in J. unfold attached_of in J. subst st. rewrite started_modules in J.
  destruct (find x (modules (initialised limit fuel c))) as [ix|] eqn:FX; [|contradiction].
  assert (CI : cached_in (modules (initialised limit fuel c)) x j y) by (unfold cached_in; rewrite FX; exact J).
  destruct (F x j y CI) as [_ [_ TG]].
  apply R; auto. unfold has_key. rewrite FX. reflexivity.
Qed.
