(* C15 — correspondence driver: a case carries the configuration, the effective schedule, the pop order of the
   python set and everything the implementation did; check_case re-runs the model and compares. *)
From Coq Require Import List Arith Bool.
Import ListNotations.
Require Import FV.Base.Util FV.Gen.C15 FV.C15.Model.

Definition depth_limit : nat := 40.
(* step budget of every get_module call of the model: the bound proved sufficient for EVERY configuration
   (LemmasTerm.enough_fuel, theorem C15_get_module_never_loops), written out here because this file does not depend
   on lemma files; LemmasRun.step_fuel_is_enough proves that it is that bound, C15_correspondence_never_stuck that
   the flag stuck of the model is never set in a correspondence run.  About 25000 for the generated sizes. *)
Definition step_fuel (c : cfg) : nat :=
  let C := S (S (fold_right Nat.max 9 (map (fun bd => 4 * length (d_atts (snd bd)) + 9) (c_static c ++ c_dyn c)))) in
  let U := 2 * length (c_static c) + 2 * S (length (c_static c) + length (c_dyn c)) in
  C * ((S depth_limit + 1) * U + S depth_limit + 1).

Definition event_eqb (a b : event) : bool :=
  match a, b with
  | EEarly m, EEarly n | EInit m, EInit n | EStart m, EStart n | EIReads m, EIReads n
  | EStarted m, EStarted n | EStop m, EStop n | EShutdown m, EShutdown n
  | ECWait m, ECWait n | EDoPoll m, EDoPoll n => Nat.eqb m n
  | ESee u i t ok, ESee u' i' t' ok' => Nat.eqb u u' && Nat.eqb i i' && opt_eqb Nat.eqb t t' && Bool.eqb ok ok'
  | EWrite m k, EWrite n j | ERead m k, ERead n j => Nat.eqb m n && Nat.eqb k j
  | EReady a, EReady b => Bool.eqb a b
  | EExit, EExit => true
  | _, _ => false
  end.

Definition err_eqb (a b : err) : bool :=
  match a, b with
  | ErrCreate m, ErrCreate n | ErrInit m, ErrInit n => Nat.eqb m n
  | _, _ => false
  end.

Record case := {
  c_cfg : cfg;
  c_sched : list sitem;
  c_order : list name;
  c_recursion : bool;        (* the implementation reported a RecursionError *)
  c_log : list event;        (* chronological *)
  c_errors : list err;       (* chronological *)
  c_modules : list name;
  c_export : list name;
  c_outcome : nat;           (* 0 ready, 1 ready after time-out, 2 exit with errors, 3 anything else *)
}.

Definition outcome_of (s : sys) : nat :=
  match s_pc s with
  | MRun => match trace (s_node s) with EReady false :: _ => 1 | _ => 0 end
  | MExited => 2
  | _ => 3
  end.

Definition model_run (c : case) : sys := started depth_limit (step_fuel (c_cfg c)) (c_cfg c) (c_sched c).
Definition model_final (c : case) : node := shutdown (model_run c) (c_order c).

Definition check_case (c : case) : bool :=
  let s := model_run c in
  let st := model_final c in
  negb (stuck st) && Bool.eqb (overflow st) (c_recursion c) &&
  Nat.eqb (outcome_of s) (c_outcome c) &&
  if overflow st
  then negb (match errors st with [] => true | _ => false end) && negb (match c_errors c with [] => true | _ => false end)
  else list_eqb event_eqb (rev (trace st)) (c_log c) &&
       list_eqb err_eqb (rev (errors st)) (c_errors c) &&
       list_eqb Nat.eqb (map fst (modules st)) (c_modules c) &&
       list_eqb Nat.eqb (export st) (c_export c).

(* for diagnosis in replay files *)
Definition model_result (c : case) :=
  let st := model_final c in
  (rev (trace st), rev (errors st), map fst (modules st), export st, (overflow st, stuck st, outcome_of (model_run c))).
