(* C15 - vacuity audit: the property theorems with premises are applied at one concrete configuration that reports
   ready (a user attached to a HasIO module, two HasIO modules sharing an automatically created communicator, one of
   them with a scripted communication failure in a first read, configured start values, an unexported module) and at
   concrete states of the get_module machine (missing / wrongly typed / too deep attachment). *)
From Coq Require Import List Arith Bool Lia Permutation.
Import ListNotations.
Require Import FV.Gen.C15 FV.C15.Model FV.C15.Lemmas FV.C15.LemmasInit FV.C15.LemmasSort FV.C15.LemmasWf
  FV.C15.LemmasGlobal FV.C15.LemmasTerm FV.C15.LemmasOnce FV.C15.Refuted FV.C15.Run FV.C15.LemmasRun FV.C15.LemmasErr
  FV.C15.LemmasThread FV.C15.Properties.

Definition nv_cfg : cfg :=
  {| c_static := [(0, plain true [to 2] [0; 1]); (1, hasio 0 [3] CFNone); (2, hasio 0 [0] (CFRead 0));
                  (3, plain false [] [])];
     c_dyn := [] |}.
Definition nv_sched : list sitem :=
  repeat SMain 6 ++ repeat (SThread 0) 12 ++ repeat (SThread 101) 20 ++ repeat (SThread 3) 8 ++ [SMain; SMain].
Notation nv_s := (started 40 12000 nv_cfg nv_sched).
Notation nv_st := (s_node (started 40 12000 nv_cfg nv_sched)).

Lemma nv_small : cfg_small nv_cfg.
Proof.
  split; intros b d I; simpl in I; repeat (destruct I as [I|I]; [inversion I; subst; split; [lia|vm_compute; lia]|]);
    contradiction.
Qed.
Lemma nv_fuel : enough_fuel 40 nv_cfg <= 12000.
Proof. apply Nat.leb_le. vm_compute. reflexivity. Qed.
Lemma nv_run : s_pc nv_s = MRun.
Proof. vm_compute. reflexivity. Qed.

Example C15_nonvacuous_ready_state :
  map (fun m => (fst m, i_attached (snd m), i_polled (snd m))) (modules nv_st) =
    [(0, [(0, 2)], [0]); (101, [], [101; 2; 1]); (1, [(99, 101)], []); (2, [(99, 101)], []); (3, [], [3])] /\
  map (fun th => (t_id th, t_done th)) (s_threads nv_s) = [(0, true); (101, true); (3, true)] /\
  errors nv_st = [].
Proof. vm_compute. repeat split; reflexivity. Qed.

Definition C15_ready_all_initialised_applies :
  forall m, has_key m (modules nv_st) = true -> isinit nv_st m = true :=
  C15_ready_all_initialised 40 12000 nv_cfg nv_sched nv_small nv_fuel nv_run.

Example C15_ready_lifecycle_applies :
  (forall m, has_key m (modules nv_st) = true -> ce m (trace nv_st) = 1 /\ ci m (trace nv_st) = 1) /\
  starts (trace nv_st) = rev (map EStart (map fst (modules nv_st))).
Proof.
  destruct (C15_ready_lifecycle_exactly_once 40 12000 nv_cfg nv_sched nv_small nv_fuel nv_run) as (A & _ & _ & D & _).
  split; [exact A|exact D].
Qed.

Example C15_shutdown_users_when_ready_applies :
  exists l1 l2, sorted_modules nv_st [3; 2; 1; 0; 101] = l1 ++ 0 :: l2 /\ In 2 l2.
Proof.
  apply (C15_shutdown_users_before_attached_when_ready 40 12000 nv_cfg nv_sched [3; 2; 1; 0; 101]
           nv_small nv_fuel nv_run) with (i := 0).
  - intros x H. vm_compute in H. simpl. tauto.
  - vm_compute. left; reflexivity.
Qed.

Example C15_shutdown_every_module_once_applies :
  Permutation (sorted_modules nv_st [3; 2; 1; 0; 101]) (map fst (modules nv_st)) /\
  sorted_modules nv_st [3; 2; 1; 0; 101] = [0; 1; 2; 101; 3].
Proof.
  split; [apply (C15_shutdown_every_module_once 40 12000 nv_cfg nv_sched [3; 2; 1; 0; 101])|vm_compute; reflexivity].
Qed.

Example C15_ready_after_first_round_applies :
  exists b pre, trace nv_st = EReady b :: pre /\ no_ready pre /\
    (b = true -> forall th, In th (s_threads nv_s) -> In (EStarted (t_id th)) pre).
Proof.
  destruct (C15_ready_after_first_round 40 12000 nv_cfg nv_sched nv_run) as (b & pre & A & B & C & _).
  exists b, pre. repeat split; assumption.
Qed.

Definition nv_th0 : thread := {| t_id := 0; t_prog := []; t_hung := false; t_done := true |}.
Definition nv_th101 : thread := {| t_id := 101; t_prog := []; t_hung := false; t_done := true |}.
Lemma nv_th0_in : In nv_th0 (s_threads nv_s).
Proof. vm_compute. left; reflexivity. Qed.
Lemma nv_th101_in : In nv_th101 (s_threads nv_s).
Proof. vm_compute. right; left; reflexivity. Qed.

(* ready (no time-out): the configured values 0 and 1 of module 0 were written before its started callback *)
Example C15_ready_values_written_applies :
  exists l1 l2, tl (trace nv_st) = l1 ++ EStarted 0 :: l2 /\ In (EWrite 0 0) l2 /\ In (EWrite 0 1) l2.
Proof.
  destruct (C15_ready_values_written 40 12000 nv_cfg nv_sched (tl (trace nv_st)) nv_run) with (th := nv_th0)
    as (l1 & l2 & A & _ & C).
  - vm_compute. reflexivity.
  - exact nv_th0_in.
  - intros m H. vm_compute in H. destruct H as [<-|[]]. vm_compute. reflexivity.
  - exists l1, l2. split; [exact A|]. split; apply C; vm_compute; tauto.
Qed.

(* the thread of the communicator abandoned its start-up at the failing first read of module 2 *)
Example C15_started_callback_applies :
  exists pre suf aborted l1 l2,
    startup_prog nv_st 101 = pre ++ suf /\ (aborted = false -> suf = []) /\
    trace nv_st = l1 ++ EStarted 101 :: l2 /\ Sub (rev pre) l2 /\ ~ In (EStarted 101) pre.
Proof.
  destruct (C15_started_callback_after_whole_round 40 12000 nv_cfg nv_sched nv_th101 nv_th101_in eq_refl)
    as (pre & suf & ab & l1 & l2 & A & B & _ & D & E & _ & _ & H).
  exists pre, suf, ab, l1, l2. repeat split; assumption.
Qed.

Example C15_writes_before_first_poll_applies :
  d_writes (decl_of nv_st 0) = [0; 1] /\
  exists A B, thread_prog nv_st 0 = A ++ B ++ [EStarted 0] ++ map EDoPoll (polled_on nv_st 0) /\
    (forall m k, ~ In (ERead m k) A) /\ In (EWrite 0 0) A /\ In (EWrite 0 1) A.
Proof.
  split; [reflexivity|].
  destruct (C15_writes_before_first_poll nv_st 0) as (A & B & E & R & _ & _ & _ & W).
  - intros m H. vm_compute in H. destruct H as [<-|[]]. vm_compute. reflexivity.
  - exists A, B. split; [exact E|]. split; [exact R|]. split; apply W; vm_compute; tauto.
Qed.

(* with a communication failure in the thread (first read of module 2), module 1 served after module 2 *)
Example C15_writes_with_comm_failure_applies :
  fails_at nv_st (ERead 2 0) = true /\ In (ERead 2 0) (thread_prog nv_st 101) /\
  exists P1 P2, thread_prog nv_st 101 = P1 ++ EWrite 1 3 :: P2 /\
    (forall e, In e P1 -> exists x j, e = EWrite x j \/ e = EIReads x).
Proof.
  split; [vm_compute; reflexivity|]. split; [vm_compute; tauto|].
  apply (C15_writes_before_first_poll_with_comm_failure_partial nv_st 101 [101; 2] 1 [] 3).
  - vm_compute. reflexivity.
  - intros x [<-|[<-|[]]]; vm_compute; discriminate.
  - vm_compute. left; reflexivity.
Qed.

Example C15_shutdown_stops_pollers_first_applies :
  trace (shutdown nv_s [3; 2; 1; 0; 101]) =
    rev (map EShutdown [0; 1; 2; 101; 3]) ++ rev (map EStop ([0; 101; 3] ++ [0; 101; 3])) ++ trace nv_st.
Proof.
  rewrite (proj1 (C15_shutdown_stops_pollers_first nv_s [3; 2; 1; 0; 101]) nv_run). vm_compute. reflexivity.
Qed.

(* ------------------------------------------------------------------ bad attachments, single steps *)
(* (1) missing module: err_cfg, get_module(0) after earlyInit and the initModule event *)
Definition nv_e0 : node := Nat.iter 2 (step 40) (push 0 (create_all 40 7000 err_cfg)).
Example C15_missing_attachment_applies :
  errors (step 40 nv_e0) = ErrInit 0 :: errors nv_e0 /\ stack (step 40 nv_e0) = [].
Proof.
  refine (proj1 C15_bad_attachment_recorded 40 nv_e0 {| f_mod := 0; f_ops := [OAccess 0 (to 99); ORegister] |} []
            0 (to 99) [ORegister] 99 _ _ _ _ _ _); vm_compute; reflexivity.
Qed.
(* (2) wrongly typed module: module 0 wants tag 5, module 1 has tag 0; the state after get_module(1) returned *)
Definition wt_cfg : cfg :=
  {| c_static := [(0, plain true [{| a_target := Some 1; a_mand := true; a_want := Some 5; a_phase := PInit |}] []);
                  (1, plain true [] [])]; c_dyn := [] |}.
Definition wt_att : att := {| a_target := Some 1; a_mand := true; a_want := Some 5; a_phase := PInit |}.
Definition nv_w0 : node := Nat.iter 7 (step 40) (push 0 (create_all 40 7000 wt_cfg)).
Example C15_wrong_type_applies :
  errors (step 40 nv_w0) = ErrInit 0 :: errors nv_w0 /\ stack (step 40 nv_w0) = [].
Proof.
  refine (proj1 (proj2 C15_bad_attachment_recorded) 40 nv_w0 {| f_mod := 0; f_ops := [ORet 0 wt_att 1; ORegister] |} []
            0 wt_att [ORegister] 1 _ _ _); vm_compute; reflexivity.
Qed.
(* (3) depth limit 1: the access of module 0 to the not yet initialised module 1 *)
Definition nv_d0 : node := Nat.iter 2 (step 1) (push 0 (create_all 1 7000 demo_cfg)).
Example C15_depth_limit_applies :
  errors (step 1 nv_d0) = ErrInit 0 :: errors nv_d0 /\ overflow (step 1 nv_d0) = true.
Proof.
  refine (proj1 (proj2 (proj2 C15_bad_attachment_recorded)) 1 nv_d0
            {| f_mod := 0; f_ops := [OAccess 0 (to 1); ORegister] |} [] 0 (to 1) [ORegister] 1 _ _ _ _ _ _ _);
    vm_compute; try reflexivity; lia.
Qed.

(* errors: never ready *)
Example C15_errors_never_ready_applies :
  let s := started 40 7000 err_cfg [SMain; SMain; SThread 0; SMain; STimeout; SMain] in
  no_ready (trace (s_node s)) /\ s_pc s = MExited.
Proof.
  intro s. destruct (C15_errors_never_ready 40 7000 err_cfg [SMain; SMain; SThread 0; SMain; STimeout; SMain])
    as (A & _).
  - vm_compute. discriminate.
  - split; [exact A|vm_compute; reflexivity].
Qed.
