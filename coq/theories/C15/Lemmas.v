(* C15 — lemmas, part 1: frame lemmas, monotonicity of the error list, the start/ready phase under every schedule,
   the shape of the shutdown trace *)
From Coq Require Import List Arith Bool Lia.
Import ListNotations.
Require Import FV.C15.Model.

(* ---------------------------------------------------------------- projections of the primitive updates *)
Lemma trace_set_modules st v : trace (set_modules st v) = trace st. Proof. reflexivity. Qed.
Lemma trace_set_export st v : trace (set_export st v) = trace st. Proof. reflexivity. Qed.
Lemma trace_set_avail st v : trace (set_avail st v) = trace st. Proof. reflexivity. Qed.
Lemma trace_set_iodict st v : trace (set_iodict st v) = trace st. Proof. reflexivity. Qed.
Lemma trace_add_error st e : trace (add_error e st) = trace st. Proof. reflexivity. Qed.
Lemma trace_set_stack st v : trace (set_stack st v) = trace st. Proof. reflexivity. Qed.
Lemma trace_set_overflow st : trace (set_overflow st) = trace st. Proof. reflexivity. Qed.
Lemma trace_set_stuck st : trace (set_stuck st) = trace st. Proof. reflexivity. Qed.
Lemma trace_emit st e : trace (emit e st) = e :: trace st. Proof. reflexivity. Qed.
Lemma errors_set_modules st v : errors (set_modules st v) = errors st. Proof. reflexivity. Qed.
Lemma errors_set_export st v : errors (set_export st v) = errors st. Proof. reflexivity. Qed.
Lemma errors_set_avail st v : errors (set_avail st v) = errors st. Proof. reflexivity. Qed.
Lemma errors_set_iodict st v : errors (set_iodict st v) = errors st. Proof. reflexivity. Qed.
Lemma errors_add_error st e : errors (add_error e st) = e :: errors st. Proof. reflexivity. Qed.
Lemma errors_set_stack st v : errors (set_stack st v) = errors st. Proof. reflexivity. Qed.
Lemma errors_set_overflow st : errors (set_overflow st) = errors st. Proof. reflexivity. Qed.
Lemma errors_set_stuck st : errors (set_stuck st) = errors st. Proof. reflexivity. Qed.
Lemma errors_emit st e : errors (emit e st) = errors st. Proof. reflexivity. Qed.
Lemma modules_emit st e : modules (emit e st) = modules st. Proof. reflexivity. Qed.
Lemma trace_mark_init u st : trace (mark_init u st) = trace st. Proof. reflexivity. Qed.
Lemma trace_attach u i b st : trace (attach u i b st) = trace st. Proof. reflexivity. Qed.
Lemma trace_add_polled o u st : trace (add_polled o u st) = trace st. Proof. reflexivity. Qed.
Lemma errors_mark_init u st : errors (mark_init u st) = errors st. Proof. reflexivity. Qed.
Lemma errors_attach u i b st : errors (attach u i b st) = errors st. Proof. reflexivity. Qed.
Lemma errors_add_polled o u st : errors (add_polled o u st) = errors st. Proof. reflexivity. Qed.

Lemma trace_add_module n i st : trace (add_module n i st) = trace st.
Proof. unfold add_module. destruct (d_export (i_decl i)); reflexivity. Qed.
Lemma errors_add_module n i st : errors (add_module n i st) = errors st.
Proof. unfold add_module. destruct (d_export (i_decl i)); reflexivity. Qed.
Lemma trace_register u st : trace (register u st) = trace st.
Proof. unfold register. destruct (_ || _); reflexivity. Qed.
Lemma errors_register u st : errors (register u st) = errors st.
Proof. unfold register. destruct (_ || _); reflexivity. Qed.
Lemma trace_push b st : trace (push b st) = trace st. Proof. reflexivity. Qed.
Lemma errors_push b st : errors (push b st) = errors st. Proof. reflexivity. Qed.
Lemma trace_raise_top st u r : trace (raise_top st u r) = trace st. Proof. reflexivity. Qed.
Lemma errors_raise_top st u r : errors (raise_top st u r) = ErrInit u :: errors st. Proof. reflexivity. Qed.

(* ---------------------------------------------------------------- extension: the trace grows by initialisation events
   only, the error list only grows *)
Definition init_ev (e : event) : Prop :=
  match e with EEarly _ | EInit _ | ESee _ _ _ _ => True | _ => False end.

Definition ext (st st' : node) : Prop :=
  (exists evs, trace st' = evs ++ trace st /\ Forall init_ev evs) /\
  (exists errs, errors st' = errs ++ errors st).

Lemma ext_refl st : ext st st.
Proof. split; [exists []|exists []]; simpl; auto. Qed.

Lemma ext_trans a b c : ext a b -> ext b c -> ext a c.
Proof.
  intros [[e1 [H1 F1]] [r1 R1]] [[e2 [H2 F2]] [r2 R2]]. split.
  - exists (e2 ++ e1). rewrite H2, H1, app_assoc. split; auto. apply Forall_app; auto.
  - exists (r2 ++ r1). rewrite R2, R1, app_assoc. reflexivity.
Qed.

Lemma ext_same st st' : trace st' = trace st -> errors st' = errors st -> ext st st'.
Proof. intros H1 H2. split; [exists []|exists []]; simpl; auto. Qed.

Lemma ext_emit st e : init_ev e -> ext st (emit e st).
Proof. intros H. split; [exists [e]|exists []]; simpl; auto. Qed.

Lemma ext_err st st' e : trace st' = trace st -> errors st' = e :: errors st -> ext st st'.
Proof. intros H1 H2. split; [exists []|exists [e]]; simpl; auto. Qed.

Lemma create_ext st b d : ext st (fst (create st b d)).
Proof.
  unfold create. destruct (negb (creatable d)); simpl.
  - apply ext_err with (e := ErrCreate b); reflexivity.
  - destruct (d_kind d) as [|[|u|m]|]; simpl; try (apply ext_same; [apply trace_add_module|apply errors_add_module]).
    destruct (find u (iodict st)); simpl; apply ext_same;
      rewrite ?trace_add_module, ?errors_add_module, ?trace_set_iodict, ?errors_set_iodict,
              ?trace_add_module, ?errors_add_module; reflexivity.
Qed.

Lemma get_instance_ext st b : ext st (fst (get_instance st b)).
Proof.
  unfold get_instance. destruct (has_key b (modules st)); simpl; [apply ext_refl|].
  destruct (find b (avail st)); simpl; [apply create_ext|apply ext_refl].
Qed.

Lemma step_ext limit st : ext st (step limit st).
Proof.
  unfold step. destruct (stack st) as [|fr rest]; [apply ext_refl|].
  destruct (f_ops fr) as [|o ops]; [apply ext_same; reflexivity|].
  destruct o.
  - apply ext_emit; exact I.
  - apply ext_emit; exact I.
  - destruct (find idx (attached_of st (f_mod fr))); [apply ext_emit; exact I|].
    destruct (a_target a) as [b|]; [|apply ext_emit; exact I].
    pose proof (get_instance_ext st b) as G. destruct (get_instance st b) as [st1 r]; simpl in G.
    destruct r.
    + destruct (isinit _ b); [eapply ext_trans; [exact G|apply ext_same; reflexivity]|].
      destruct (Nat.leb _ _).
      * eapply ext_trans; [exact G|]. apply ext_err with (e := ErrInit (f_mod fr)); reflexivity.
      * eapply ext_trans; [exact G|apply ext_same; reflexivity].
    + eapply ext_trans; [exact G|]. apply ext_err with (e := ErrInit (f_mod fr)); reflexivity.
    + eapply ext_trans; [exact G|]. apply ext_err with (e := ErrInit (f_mod fr)); reflexivity.
  - destruct (want_ok _ _).
    + split; [exists [ESee (f_mod fr) idx (Some b) (isinit st b)]|exists []]; simpl; auto.
      split; auto. constructor; simpl; auto.
    + apply ext_err with (e := ErrInit (f_mod fr)); reflexivity.
  - apply ext_err with (e := ErrInit (f_mod fr)); reflexivity.
  - apply ext_same; simpl; [apply trace_register|apply errors_register].
Qed.

Lemma run_gm_ext limit fuel : forall st, ext st (run_gm limit fuel st).
Proof.
  induction fuel; intros st; simpl; destruct (stack st) eqn:S; try apply ext_refl.
  - apply ext_same; reflexivity.
  - eapply ext_trans; [apply step_ext|apply IHfuel].
Qed.

Lemma gm_top_ext limit fuel st b : ext st (gm_top limit fuel st b).
Proof.
  unfold gm_top. pose proof (get_instance_ext st b) as G. destruct (get_instance st b) as [st1 r]; simpl in G.
  destruct r; auto. destruct (isinit st1 b); auto.
  eapply ext_trans; [exact G|]. eapply ext_trans; [|apply run_gm_ext]. apply ext_same; reflexivity.
Qed.

Lemma create_loop_ext limit fuel dyn : forall n todos st, ext st (create_loop limit fuel n dyn todos st).
Proof.
  induction n; intros todos st; simpl; [apply ext_refl|].
  destruct todos as [|[b d] rest]; [apply ext_refl|].
  destruct (has_key b (modules st)); [apply IHn|].
  pose proof (get_instance_ext (set_avail st (set_assoc b d (avail st))) b) as G.
  destruct (get_instance _ b) as [st1 r]; simpl in G.
  assert (E0 : ext st st1) by (eapply ext_trans; [|exact G]; apply ext_same; reflexivity).
  destruct r; try (eapply ext_trans; [exact E0|apply IHn]).
  destruct (d_kind d); try (eapply ext_trans; [exact E0|apply IHn]).
  eapply ext_trans; [exact E0|]. eapply ext_trans; [apply gm_top_ext|apply IHn].
Qed.

Lemma init_loop_ext limit fuel : forall n i st, ext st (init_loop limit fuel n i st).
Proof.
  induction n; intros i st; simpl; [apply ext_refl|].
  destruct (nth_error (export st) i); [|apply ext_refl].
  eapply ext_trans; [apply gm_top_ext|apply IHn].
Qed.

Lemma fold_gm_ext limit fuel : forall names st, ext st (fold_left (fun acc b => gm_top limit fuel acc b) names st).
Proof.
  induction names as [|b r IH]; intros st; simpl; [apply ext_refl|].
  eapply ext_trans; [apply gm_top_ext|apply IH].
Qed.

Lemma init_phase_ext limit fuel st : ext st (init_phase limit fuel st).
Proof.
  unfold init_phase, init_rest, init_all. eapply ext_trans; [apply init_loop_ext|apply fold_gm_ext].
Qed.

(* the trace of the initialisation phase consists of initialisation events only *)
Lemma initialised_trace limit fuel c : Forall init_ev (trace (initialised limit fuel c)).
Proof.
  unfold initialised, create_all.
  pose proof (create_loop_ext limit fuel (c_dyn c) (S (length (c_static c) + length (c_dyn c))) (c_static c)
                              (node0 (c_static c))) as E1.
  set (st1 := create_loop _ _ _ _ _ _) in *.
  pose proof (init_phase_ext limit fuel st1) as E2.
  destruct (ext_trans _ _ _ E1 E2) as [[evs [H F]] _]. rewrite H. simpl. rewrite app_nil_r. exact F.
Qed.

(* errors are never removed: what one step reports stays reported *)
Lemma step_errors_monotone limit st : exists errs, errors (step limit st) = errs ++ errors st.
Proof. exact (proj2 (step_ext limit st)). Qed.

(* ---------------------------------------------------------------- single steps that must report *)
Lemma step_missing_reported limit st fr rest idx a ops b :
  stack st = fr :: rest -> f_ops fr = OAccess idx a :: ops ->
  find idx (attached_of st (f_mod fr)) = None -> a_target a = Some b ->
  has_key b (modules st) = false -> find b (avail st) = None ->
  errors (step limit st) = ErrInit (f_mod fr) :: errors st /\ stack (step limit st) = rest /\
  isinit (step limit st) (f_mod fr) = isinit (mark_init (f_mod fr) st) (f_mod fr).
Proof.
  intros S O A T K V. unfold step. rewrite S, O, A, T. unfold get_instance. rewrite K, V. simpl. auto.
Qed.

Lemma step_wrong_type_reported limit st fr rest idx a ops b :
  stack st = fr :: rest -> f_ops fr = ORet idx a b :: ops ->
  want_ok (a_want a) (d_tag (decl_of st b)) = false ->
  errors (step limit st) = ErrInit (f_mod fr) :: errors st /\ stack (step limit st) = rest.
Proof. intros S O W. unfold step. rewrite S, O, W. simpl. auto. Qed.

Lemma step_depth_reported limit st fr rest idx a ops b :
  stack st = fr :: rest -> f_ops fr = OAccess idx a :: ops ->
  find idx (attached_of st (f_mod fr)) = None -> a_target a = Some b ->
  has_key b (modules st) = true -> isinit st b = false -> limit <= length (stack st) ->
  errors (step limit st) = ErrInit (f_mod fr) :: errors st /\ overflow (step limit st) = true.
Proof.
  intros Hs O A T K I L. unfold step. rewrite Hs, O, A, T. unfold get_instance. rewrite K.
  assert (I2 : isinit (set_stack st ({| f_mod := f_mod fr; f_ops := ORet idx a b :: ops |} :: rest)) b = false) by exact I.
  rewrite I2. simpl length. rewrite Hs in L. simpl in L.
  destruct (Nat.leb limit (Datatypes.S (length rest))) eqn:Q; [simpl; auto|]. apply Nat.leb_gt in Q. lia.
Qed.

(* ---------------------------------------------------------------- start / poll threads / ready, every schedule *)
Definition is_ready (e : event) : bool := match e with EReady _ => true | _ => false end.
Definition no_ready (tr : list event) : Prop := forall b, ~ In (EReady b) tr.

Lemma init_ev_no_ready tr : Forall init_ev tr -> no_ready tr.
Proof. intros F b H. rewrite Forall_forall in F. apply F in H. exact H. Qed.

Lemma thread_step_frame st th : errors (fst (thread_step st th)) = errors st /\
  modules (fst (thread_step st th)) = modules st /\
  (trace (fst (thread_step st th)) = trace st \/
   exists e, trace (fst (thread_step st th)) = e :: trace st /\ is_ready e = false /\ e <> EExit).
Proof.
  unfold thread_step. destruct (t_hung th); simpl; auto.
  destruct (t_prog th) as [|e r]; simpl; auto.
  destruct e; simpl; auto; try (repeat split; auto; right; eexists; repeat split; eauto; discriminate).
  destruct (d_hang _); simpl; auto. repeat split; auto; right; eexists; repeat split; eauto; discriminate.
Qed.

Lemma threads_step_frame t : forall ths st, errors (fst (threads_step st t ths)) = errors st /\
  modules (fst (threads_step st t ths)) = modules st /\
  (trace (fst (threads_step st t ths)) = trace st \/
   exists e, trace (fst (threads_step st t ths)) = e :: trace st /\ is_ready e = false /\ e <> EExit).
Proof.
  induction ths as [|th r IH]; intros st; simpl; auto.
  destruct (Nat.eqb (t_id th) t).
  - pose proof (thread_step_frame st th) as H. destruct (thread_step st th); simpl in *. exact H.
  - specialize (IH st). destruct (threads_step st t r); simpl in *. exact IH.
Qed.

Lemma pc_after_errors st rest : errors (fst (pc_after st rest)) = errors st.
Proof. unfold pc_after, finish_start. destruct rest; simpl; auto. destruct (errors st) eqn:E; simpl; auto. Qed.

Lemma cstep_errors s it : errors (s_node (cstep s it)) = errors (s_node s).
Proof.
  destruct it; simpl.
  - destruct (s_pc s) as [[|m rest]| | |]; simpl; auto.
    + pose proof (pc_after_errors (emit (EStart m) (s_node s)) rest) as H.
      destruct (pc_after _ rest); simpl in *. exact H.
    + destruct (all_done _); reflexivity.
  - destruct (s_pc s); simpl; auto.
    + pose proof (threads_step_frame t (s_threads s) (s_node s)) as [H _]. destruct (threads_step _ t _); exact H.
    + pose proof (threads_step_frame t (s_threads s) (s_node s)) as [H _]. destruct (threads_step _ t _); exact H.
  - destruct (s_pc s); simpl; auto. destruct (all_done _); reflexivity.
Qed.

(* A: with a reported error the node never reports ready, under every schedule *)
Definition refusing (s : sys) : Prop :=
  errors (s_node s) <> [] /\ no_ready (trace (s_node s)) /\
  match s_pc s with MStart (_ :: _) => ~ In EExit (trace (s_node s)) | MExited => True | _ => False end.

Lemma no_ready_cons e tr : is_ready e = false -> no_ready tr -> no_ready (e :: tr).
Proof. intros H N b [E|I]; [subst; discriminate|exact (N b I)]. Qed.

Lemma cstep_refusing s it : refusing s -> refusing (cstep s it).
Proof.
  intros [E [N P]]. unfold refusing. rewrite cstep_errors. split; [exact E|].
  destruct s as [st ths pc]; simpl in *.
  destruct pc as [[|m rest]| | |]; try contradiction.
  - destruct it; simpl.
    + unfold pc_after, finish_start. destruct rest; simpl.
      * destruct (errors st) eqn:EE; [contradiction|]. simpl.
        split; [|exact I]. apply no_ready_cons; auto. apply no_ready_cons; auto.
      * split; [apply no_ready_cons; auto|]. intros [H|H]; [discriminate|contradiction].
    + pose proof (threads_step_frame t ths st) as [_ [_ H]].
      destruct (threads_step st t ths) as [st1 ths1]; simpl in *.
      destruct H as [H|[e [H [R X]]]]; rewrite H.
      * auto.
      * split; [apply no_ready_cons; auto|]. intros [Q|Q]; [congruence|contradiction].
    + auto.
  - destruct it; simpl; auto.
Qed.

Lemma sys0_refusing st : errors st <> [] -> no_ready (trace st) -> ~ In EExit (trace st) -> refusing (sys0 st).
Proof.
  intros E N X. unfold sys0, pc_after, finish_start. destruct (map fst (modules st)); simpl.
  - destruct (errors st) eqn:EE; [contradiction|]. simpl. unfold refusing; simpl. rewrite EE.
    split; [discriminate|]. split; [apply no_ready_cons; auto|exact I].
  - unfold refusing; simpl. auto.
Qed.

Lemma run_sched_refusing sched : forall s, refusing s -> refusing (run_sched s sched).
Proof. induction sched; intros s H; simpl; auto. apply IHsched. apply cstep_refusing. exact H. Qed.

Lemma init_ev_no_exit tr : Forall init_ev tr -> ~ In EExit tr.
Proof. intros F H. rewrite Forall_forall in F. apply F in H. exact H. Qed.

Theorem errors_never_ready limit fuel c sched :
  errors (initialised limit fuel c) <> [] ->
  let s := started limit fuel c sched in
  no_ready (trace (s_node s)) /\ s_pc s <> MRun /\ s_pc s <> MWait /\
  (s_pc s = MExited \/ exists m rest, s_pc s = MStart (m :: rest)).
Proof.
  intros E s. pose proof (initialised_trace limit fuel c) as F.
  assert (R : refusing s).
  { apply run_sched_refusing. apply sys0_refusing; auto using init_ev_no_ready, init_ev_no_exit. }
  destruct R as [_ [N P]]. split; [exact N|].
  destruct (s_pc s) as [[|m rest]| | |]; try contradiction; repeat split; try discriminate; eauto.
Qed.

(* once every startModule was called (the schedule contains enough main steps) the refusing node has exited *)
Lemma shutdown_not_running s order : s_pc s <> MRun -> shutdown s order = s_node s.
Proof. unfold shutdown. destruct (s_pc s); auto. contradiction. Qed.

(* B: ready only after every poll thread finished its first round, or after the time-out with an unfinished thread *)
Definition started_in (tr : list event) (ths : list thread) : Prop :=
  forall th, In th ths -> t_done th = true -> In (EStarted (t_id th)) tr.

Definition ready_inv (s : sys) : Prop :=
  started_in (trace (s_node s)) (s_threads s) /\
  match s_pc s with
  | MStart _ | MWait => no_ready (trace (s_node s))
  | MRun => exists b pre, trace (s_node s) = EReady b :: pre /\ no_ready pre /\
            (b = true -> forall th, In th (s_threads s) -> In (EStarted (t_id th)) pre) /\
            (b = false -> exists th, In th (s_threads s) /\ t_done th = false)
  | MExited => True
  end.

Lemma started_in_cons e tr ths : started_in tr ths -> started_in (e :: tr) ths.
Proof. intros H th I D. right. auto. Qed.

Lemma thread_step_spec st th :
  t_id (snd (thread_step st th)) = t_id th /\
  (t_done (snd (thread_step st th)) = true ->
   t_done th = true \/
   trace (fst (thread_step st th)) = EStarted (t_id th) :: trace st).
Proof.
  unfold thread_step. destruct (t_hung th) eqn:HD; simpl.
  - split; auto.
  - destruct (t_prog th) as [|e r]; simpl; [split; auto|].
    destruct e; simpl; try (split; [reflexivity|auto]).
    destruct (d_hang _); simpl; split; auto.
Qed.

Lemma threads_step_started t : forall ths st,
  started_in (trace st) ths ->
  started_in (trace (fst (threads_step st t ths))) (snd (threads_step st t ths)).
Proof.
  induction ths as [|th r IH]; intros st S; simpl; [exact S|].
  destruct (Nat.eqb (t_id th) t).
  - pose proof (thread_step_spec st th) as [I D]. pose proof (thread_step_frame st th) as [_ [_ TR]].
    destruct (thread_step st th) as [st1 th1]; simpl in *.
    intros x [X|X] DX.
    + subst x. rewrite I. destruct (D DX) as [D0|E].
      * assert (Q : In (EStarted (t_id th)) (trace st)) by (apply S; auto; left; auto).
        destruct TR as [TR|[e [TR _]]]; rewrite TR; auto. right; auto.
      * rewrite E. left; auto.
    + assert (Q : In (EStarted (t_id x)) (trace st)) by (apply S; auto; right; auto).
      destruct TR as [TR|[e [TR _]]]; rewrite TR; auto. right; auto.
  - assert (S' : started_in (trace st) r) by (intros x X; apply S; right; auto).
    specialize (IH st S'). pose proof (threads_step_frame t r st) as [_ [_ TR]].
    destruct (threads_step st t r) as [st1 r1]; simpl in *.
    intros x [X|X] DX; [|apply IH; auto]. subst x.
    assert (Q : In (EStarted (t_id th)) (trace st)) by (apply S; auto; left; auto).
    destruct TR as [TR|[e [TR _]]]; rewrite TR; auto. right; auto.
Qed.

Lemma all_done_spec ths : all_done ths = true -> forall th, In th ths -> t_done th = true.
Proof. unfold all_done. rewrite forallb_forall. auto. Qed.

Lemma not_all_done_spec ths : all_done ths = false -> exists th, In th ths /\ t_done th = false.
Proof.
  induction ths as [|th r IH]; simpl; [discriminate|]. destruct (t_done th) eqn:D; simpl.
  - intros H. destruct (IH H) as [x [X DX]]. exists x; auto.
  - intros _. exists th; auto.
Qed.

Lemma cstep_ready_inv s it : ready_inv s -> ready_inv (cstep s it).
Proof.
  intros [S P]. destruct s as [st ths pc]; simpl in *.
  assert (TS : forall t pc', match pc' with MStart _ | MWait => no_ready (trace st) | _ => False end ->
            ready_inv (let '(st1, ths1) := threads_step st t ths in {| s_node := st1; s_threads := ths1; s_pc := pc' |})).
  { intros t pc' Q. pose proof (threads_step_started t ths st S) as S1.
    pose proof (threads_step_frame t ths st) as [_ [_ TR]].
    destruct (threads_step st t ths) as [st1 ths1]; simpl in *.
    split; simpl; [exact S1|].
    destruct pc'; try contradiction; (destruct TR as [TR|[e [TR [R _]]]]; rewrite TR; auto; apply no_ready_cons; auto). }
  destruct pc as [[|m rest]| | |].
  - destruct it; simpl; [split; simpl; auto|apply TS; exact P|split; simpl; auto].
  - destruct it; simpl; [|apply TS; exact P|split; simpl; auto].
    unfold pc_after, finish_start. set (ths' := match polled_of _ m with [] => _ | _ :: _ => _ end).
    assert (S1 : forall tr, started_in tr ths -> started_in tr ths').
    { intros tr H. subst ths'. destruct (polled_of _ m); auto. intros th I D. apply in_app_or in I.
      destruct I as [I|[I|[]]]; [auto|]. subst th. discriminate. }
    destruct rest; simpl.
    + destruct (errors st); simpl; split; simpl; auto using started_in_cons.
      apply no_ready_cons; auto.
    + split; simpl; auto using started_in_cons. apply no_ready_cons; auto.
  - destruct it; simpl.
    + destruct (all_done ths) eqn:AD; [|split; simpl; auto].
      split; simpl; [apply started_in_cons; exact S|].
      exists true, (trace st). repeat split; auto.
      * intros _ th I. apply S; auto. eapply all_done_spec; eauto.
      * discriminate.
    + apply TS. exact P.
    + destruct (all_done ths) eqn:AD; [split; simpl; auto|].
      split; simpl; [apply started_in_cons; exact S|].
      exists false, (trace st). repeat split; auto; try discriminate.
      intros _. apply not_all_done_spec; exact AD.
  - destruct it; simpl; split; simpl; auto.
  - destruct it; simpl; split; simpl; auto.
Qed.

Lemma run_sched_ready_inv sched : forall s, ready_inv s -> ready_inv (run_sched s sched).
Proof. induction sched; intros s H; simpl; auto. apply IHsched. apply cstep_ready_inv. exact H. Qed.

Lemma sys0_ready_inv st : Forall init_ev (trace st) -> ready_inv (sys0 st).
Proof.
  intros F. unfold sys0, pc_after, finish_start. destruct (map fst (modules st)); simpl.
  - destruct (errors st); simpl; split; simpl; auto; try (intros th []). apply init_ev_no_ready; auto.
  - split; simpl; [intros th []|apply init_ev_no_ready; auto].
Qed.

Theorem ready_after_first_round limit fuel c sched :
  let s := started limit fuel c sched in
  s_pc s = MRun ->
  exists b pre, trace (s_node s) = EReady b :: pre /\ no_ready pre /\
    (b = true -> forall th, In th (s_threads s) -> In (EStarted (t_id th)) pre) /\
    (b = false -> exists th, In th (s_threads s) /\ t_done th = false).
Proof.
  intros s PC. assert (R : ready_inv s).
  { apply run_sched_ready_inv. apply sys0_ready_inv. apply initialised_trace. }
  destruct R as [_ P]. rewrite PC in P. exact P.
Qed.


(* ---------------------------------------------------------------- shape of the shutdown trace *)
Lemma fold_emit (f : name -> event) : forall l st,
  trace (fold_left (fun acc m => emit (f m) acc) l st) = rev (map f l) ++ trace st /\
  errors (fold_left (fun acc m => emit (f m) acc) l st) = errors st /\
  modules (fold_left (fun acc m => emit (f m) acc) l st) = modules st.
Proof.
  induction l as [|x r IH]; intros st; simpl; auto.
  destruct (IH (emit (f x) st)) as [T [E M]]. rewrite T, E, M. simpl. rewrite <- app_assoc. auto.
Qed.

Definition stops_of (s : sys) : list name := filter (has_thread (s_threads s)) (map fst (modules (s_node s))).

Theorem shutdown_trace s order : s_pc s = MRun ->
  trace (shutdown s order) =
    rev (map EShutdown (sorted_modules (s_node s) order)) ++
    rev (map EStop (stops_of s ++ stops_of s)) ++ trace (s_node s).
Proof.
  intros PC. unfold shutdown. rewrite PC.
  destruct (fold_emit EShutdown (sorted_modules (s_node s) order)
              (fold_left (fun acc m => emit (EStop m) acc) (stops_of s ++ stops_of s) (s_node s))) as [T _].
  unfold stops_of in *. rewrite T.
  destruct (fold_emit EStop (filter (has_thread (s_threads s)) (map fst (modules (s_node s))) ++
                             filter (has_thread (s_threads s)) (map fst (modules (s_node s)))) (s_node s)) as [T2 _].
  rewrite T2. reflexivity.
Qed.

(* ---------------------------------------------------------------- the start-up program of a poll thread *)
Definition writes_ireads (st : node) (m : name) : list event :=
  map (EWrite m) (d_writes (decl_of st m)) ++ [EIReads m].
Definition polled_on (st : node) (t : name) : list name :=
  filter (fun m => d_poll (decl_of st m)) (polled_of st t).

Lemma startup_prog_eq st t :
  startup_prog st t = flat_map (writes_ireads st) (polled_of st t) ++
                      flat_map (fun m => [ERead m 0; ERead m 1]) (polled_on st t).
Proof. reflexivity. Qed.

(* the sequence without communication failure: shape of the first round *)
Lemma startup_prog_shape st t : exists A B,
  startup_prog st t = A ++ B /\
  (forall e, In e A -> exists m k, e = EWrite m k \/ e = EIReads m) /\
  (forall e, In e B -> exists m k, e = ERead m k) /\
  (forall m k, In (EWrite m k) A -> In m (polled_of st t) /\ In k (d_writes (decl_of st m))) /\
  (forall m, In m (polled_of st t) -> forall k, In k (d_writes (decl_of st m)) -> In (EWrite m k) A).
Proof.
  rewrite startup_prog_eq. eexists. eexists. split; [reflexivity|]. split; [|split; [|split]].
  - intros e H. apply in_flat_map in H. destruct H as [x [_ H]]. apply in_app_or in H.
    destruct H as [H|[H|[]]].
    + apply in_map_iff in H. destruct H as [y [H _]]. subst e. exists x, y. left; reflexivity.
    + subst e. exists x, 0. right; reflexivity.
  - intros e H. apply in_flat_map in H. destruct H as [x [_ H]]. simpl in H.
    destruct H as [H|[H|[]]]; subst; eauto.
  - intros m k H. apply in_flat_map in H. destruct H as [x [X H]]. apply in_app_or in H.
    destruct H as [H|[H|[]]]; [|discriminate]. apply in_map_iff in H. destruct H as [y [H Y]].
    inversion H; subst. auto.
  - intros m M k K. apply in_flat_map. exists m. split; auto. apply in_or_app. left. apply in_map. exact K.
Qed.

Lemma cut_at_none f : forall l, (forall e, In e l -> f e = false) -> cut_at f l = (l, false).
Proof.
  induction l as [|e r IH]; intros H; simpl; auto.
  rewrite (H e (or_introl eq_refl)). rewrite IH; auto. intros x X. apply H. right; exact X.
Qed.

Lemma cut_at_app f : forall X Y, (forall e, In e X -> f e = false) ->
  cut_at f (X ++ Y) = (X ++ fst (cut_at f Y), snd (cut_at f Y)).
Proof.
  induction X as [|e r IH]; intros Y H; simpl.
  - destruct (cut_at f Y); reflexivity.
  - rewrite (H e (or_introl eq_refl)). rewrite IH; [reflexivity|]. intros x X. apply H. right; exact X.
Qed.

(* what was executed is a prefix of the whole sequence; it was abandoned exactly when its last event raised *)
Lemma cut_at_spec f : forall l,
  exists suf, l = fst (cut_at f l) ++ suf /\
    (snd (cut_at f l) = false -> suf = [] /\ forall e, In e l -> f e = false) /\
    (snd (cut_at f l) = true -> exists p e, fst (cut_at f l) = p ++ [e] /\ f e = true /\ forall x, In x p -> f x = false).
Proof.
  induction l as [|e r IH]; simpl.
  - exists []. repeat split; auto; try discriminate. intros x [].
  - destruct (f e) eqn:F; simpl.
    + exists r. repeat split; try discriminate. intros _. exists [], e. repeat split; auto. intros x [].
    + destruct IH as [suf [E [N A]]]. destruct (cut_at f r) as [p b]; simpl in *. exists suf.
      split; [rewrite E at 1; reflexivity|]. split.
      * intros B. destruct (N B) as [S Q]. split; auto. intros x [X|X]; [subst; auto|auto].
      * intros B. destruct (A B) as [p0 [e0 [P [FE Q]]]]. exists (e :: p0), e0. rewrite P. repeat split; auto.
        intros x [X|X]; [subst; auto|auto].
Qed.

(* every history: the program of a poll thread is a prefix of the start-up sequence (all of it unless its last event
   raised CommunicationFailedError), then the started callback - exactly once -, then (after a failure) the short wait,
   then the first pass of the regular loop *)
Theorem thread_prog_general st t : exists (pre suf : list event) (aborted : bool),
  startup_prog st t = pre ++ suf /\
  thread_prog st t = pre ++ [EStarted t] ++ (if aborted then [ECWait t] else []) ++ map EDoPoll (polled_on st t) /\
  (aborted = false -> suf = []) /\
  (aborted = true -> exists p e, pre = p ++ [e] /\ fails_at st e = true) /\
  (forall e, In e (removelast pre) -> fails_at st e = false).
Proof.
  unfold thread_prog. destruct (cut_at_spec (fails_at st) (startup_prog st t)) as [suf [E [N A]]].
  destruct (cut_at (fails_at st) (startup_prog st t)) as [pre ab]; simpl in *.
  exists pre, suf, ab. split; [exact E|]. split; [reflexivity|]. split; [|split].
  - intros B. apply N; exact B.
  - intros B. destruct (A B) as [p [e [P [F _]]]]. eauto.
  - destruct ab.
    + destruct (A eq_refl) as [p [e [P [F Q]]]]. subst pre. rewrite removelast_last. exact Q.
    + destruct (N eq_refl) as [S Q]. subst suf. rewrite app_nil_r in E. subst pre.
      intros e I. apply Q. clear - I. induction (startup_prog st t) as [|a l IH]; simpl in *; [contradiction|].
      destruct l; [contradiction|]. destruct I as [I|I]; auto.
Qed.

(* no communication failure scripted for the modules of the thread: the whole first round, as before *)
Theorem thread_prog_shape st t :
  (forall m, In m (polled_of st t) -> d_cfail (decl_of st m) = CFNone) ->
  exists A B,
  thread_prog st t = A ++ B ++ [EStarted t] ++ map EDoPoll (polled_on st t) /\
  (forall m k, ~ In (ERead m k) A) /\ (forall m, ~ In (EDoPoll m) A) /\
  (forall e, In e B -> exists m k, e = ERead m k) /\
  (forall m k, In (EWrite m k) A -> In m (polled_of st t) /\ In k (d_writes (decl_of st m))) /\
  (forall m, In m (polled_of st t) -> forall k, In k (d_writes (decl_of st m)) -> In (EWrite m k) A).
Proof.
  intros NF. destruct (startup_prog_shape st t) as [A [B [E [HA [HB [W1 W2]]]]]].
  exists A, B. unfold thread_prog. rewrite cut_at_none.
  - unfold after_startup. simpl. rewrite E. rewrite <- app_assoc. split; [reflexivity|].
    split; [|split; [|split; [exact HB|split; [exact W1|exact W2]]]].
    + intros m k I. destruct (HA _ I) as [x [j [Q|Q]]]; discriminate.
    + intros m I. destruct (HA _ I) as [x [j [Q|Q]]]; discriminate.
  - intros e I. rewrite startup_prog_eq in I. apply in_app_or in I. destruct I as [I|I].
    + apply in_flat_map in I. destruct I as [x [X I]]. apply in_app_or in I. destruct I as [I|[I|[]]].
      * apply in_map_iff in I. destruct I as [y [I _]]. subst e. reflexivity.
      * subst e. simpl. rewrite (NF x X). reflexivity.
    + apply in_flat_map in I. destruct I as [x [X I]]. unfold polled_on in X. apply filter_In in X. destruct X as [X _].
      simpl in I. destruct I as [I|[I|[]]]; subst e; simpl; rewrite (NF x X); reflexivity.
Qed.

(* histories WITH communication failures, under the exact guard the code supports: if initialReads of no module
   served EARLIER by the same thread raises CommunicationFailedError, every configured value of m is written, and
   nothing before that write is a poll (read function, doPoll) or the started callback - whatever fails later *)
Theorem writes_before_poll_comm st t L1 m L2 k :
  polled_of st t = L1 ++ m :: L2 ->
  (forall x, In x L1 -> d_cfail (decl_of st x) <> CFIReads) ->
  In k (d_writes (decl_of st m)) ->
  exists P1 P2, thread_prog st t = P1 ++ EWrite m k :: P2 /\
    (forall e, In e P1 -> exists x j, e = EWrite x j \/ e = EIReads x).
Proof.
  intros EL G K. apply in_split in K. destruct K as [w1 [w2 K]].
  set (X := flat_map (writes_ireads st) L1 ++ map (EWrite m) w1).
  assert (EX : exists Y, startup_prog st t = X ++ EWrite m k :: Y).
  { rewrite startup_prog_eq, EL. rewrite flat_map_app. simpl. unfold writes_ireads at 2. rewrite K.
    rewrite map_app. simpl. eexists. unfold X. repeat rewrite <- app_assoc. simpl. reflexivity. }
  destruct EX as [Y EY].
  assert (HX : forall e, In e X -> (exists x j, e = EWrite x j \/ e = EIReads x) /\ fails_at st e = false).
  { intros e I. unfold X in I. apply in_app_or in I. destruct I as [I|I].
    - apply in_flat_map in I. destruct I as [x [XI I]]. apply in_app_or in I. destruct I as [I|[I|[]]].
      + apply in_map_iff in I. destruct I as [y [I _]]. subst e. split; [exists x, y; left; reflexivity|reflexivity].
      + subst e. split; [exists x, 0; right; reflexivity|]. simpl. specialize (G x XI).
        destruct (d_cfail (decl_of st x)); auto. contradiction.
    - apply in_map_iff in I. destruct I as [y [I _]]. subst e. split; [exists m, y; left; reflexivity|reflexivity]. }
  unfold thread_prog. rewrite EY. rewrite cut_at_app; [|intros e I; apply HX; exact I].
  simpl. destruct (cut_at (fails_at st) Y) as [p b]; simpl.
  exists X, (p ++ after_startup st t b). split.
  - rewrite <- app_assoc. reflexivity.
  - intros e I. apply HX; exact I.
Qed.
