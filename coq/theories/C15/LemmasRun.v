(* C15 — the step budget of the correspondence driver (Run.step_fuel) is the proved bound, so the model never gets
   stuck in a correspondence run: the conjunct [negb (stuck st)] of check_case is implied, not an extra demand. *)
From Coq Require Import List Arith Bool Lia.
Import ListNotations.
Require Import FV.Base.Util FV.Gen.C15 FV.C15.Model FV.C15.Run FV.C15.Lemmas FV.C15.LemmasTerm.

Lemma thread_step_stuck st th : stuck (fst (thread_step st th)) = stuck st.
Proof.
  unfold thread_step. destruct (t_hung th); simpl; auto.
  destruct (t_prog th) as [|e r]; simpl; auto.
  destruct e; simpl; auto. destruct (d_hang _); simpl; auto.
Qed.

Lemma threads_step_stuck t : forall ths st, stuck (fst (threads_step st t ths)) = stuck st.
Proof.
  induction ths as [|th r IH]; intros st; simpl; auto.
  destruct (Nat.eqb (t_id th) t).
  - pose proof (thread_step_stuck st th) as H. destruct (thread_step st th); simpl in *. exact H.
  - specialize (IH st). destruct (threads_step st t r); simpl in *. exact IH.
Qed.

Lemma pc_after_stuck st rest : stuck (fst (pc_after st rest)) = stuck st.
Proof. unfold pc_after, finish_start. destruct rest; simpl; auto. destruct (errors st); simpl; auto. Qed.

Lemma cstep_stuck s it : stuck (s_node (cstep s it)) = stuck (s_node s).
Proof.
  destruct it; simpl.
  - destruct (s_pc s) as [[|m rest]| | |]; simpl; auto.
    + pose proof (pc_after_stuck (emit (EStart m) (s_node s)) rest) as H.
      destruct (pc_after _ rest); simpl in *. exact H.
    + destruct (all_done _); reflexivity.
  - destruct (s_pc s); simpl; auto.
    + pose proof (threads_step_stuck t (s_threads s) (s_node s)) as H. destruct (threads_step _ t _); exact H.
    + pose proof (threads_step_stuck t (s_threads s) (s_node s)) as H. destruct (threads_step _ t _); exact H.
  - destruct (s_pc s); simpl; auto. destruct (all_done _); reflexivity.
Qed.

Lemma run_sched_stuck sched : forall s, stuck (s_node (run_sched s sched)) = stuck (s_node s).
Proof. induction sched as [|it r IH]; intros s; simpl; auto. unfold run_sched in *. rewrite IH. apply cstep_stuck. Qed.

Lemma sys0_stuck st : stuck (s_node (sys0 st)) = stuck st.
Proof.
  unfold sys0. pose proof (pc_after_stuck st (map fst (modules st))) as H.
  destruct (pc_after st (map fst (modules st))); simpl in *. exact H.
Qed.

Lemma fold_emit_stuck (f : name -> event) : forall l st,
  stuck (fold_left (fun acc m => emit (f m) acc) l st) = stuck st.
Proof. induction l as [|x r IH]; intros st; simpl; auto. rewrite IH. reflexivity. Qed.

Lemma shutdown_stuck s order : stuck (shutdown s order) = stuck (s_node s).
Proof. unfold shutdown. destruct (s_pc s); auto. rewrite !fold_emit_stuck. reflexivity. Qed.

Theorem step_fuel_is_enough c : enough_fuel depth_limit c <= step_fuel c.
Proof. apply Nat.eq_le_incl. reflexivity. Qed.

(* every case (every configuration, schedule, pop order; whatever the implementation observation says) *)
Theorem model_never_stuck (c : case) : stuck (model_final c) = false /\ stuck (s_node (model_run c)) = false.
Proof.
  assert (H : stuck (s_node (model_run c)) = false).
  { unfold model_run, started. rewrite run_sched_stuck, sys0_stuck.
    apply initialised_terminates. apply step_fuel_is_enough. }
  split; [|exact H]. unfold model_final. rewrite shutdown_stuck. exact H.
Qed.
